import Driver.Util
import Hpfeeds.Model.Stores
import Hpfeeds.Model.JsonReload
namespace Driver.StoresD
open Hpfeeds Hpfeeds.Stores Hpfeeds.JsonReload Driver

structure St where
  tables : List (Nat × Table) := []
  env : List (Bytes × Bytes) := []
  db : Db := []

def recStr : Option Rec → String
  | none => "none"
  | some r => s!"rec {hex r.secret} {hex r.owner} [{String.intercalate "," (r.pubchans.map hex)}] [{String.intercalate "," (r.subchans.map hex)}]"

def getTable (st : St) (tid : Nat) : Table := ((st.tables.find? (·.1 = tid)).map (·.2)).getD []

/-! compact one-token serialisation of JSON values:
    n | t | f | #<hex>; | s<hex>; | [v*] | {(s<hex>;v)*} -/
partial def parseJ (cs : List Char) : Option (JVal × List Char) :=
  match cs with
  | 'n' :: r => some (.null, r)
  | 't' :: r => some (.bool true, r)
  | 'f' :: r => some (.bool false, r)
  | '#' :: r =>
    let h := r.takeWhile (· ≠ ';')
    (unhex (String.ofList h)).map fun b => (.num b, (r.dropWhile (· ≠ ';')).drop 1)
  | 's' :: r =>
    let h := r.takeWhile (· ≠ ';')
    (unhex (if h.isEmpty then "-" else String.ofList h)).map fun b => (.str b, (r.dropWhile (· ≠ ';')).drop 1)
  | '[' :: r =>
    let rec items (cs : List Char) (acc : List JVal) : Option (List JVal × List Char) :=
      match cs with
      | ']' :: r => some (acc.reverse, r)
      | _ => match parseJ cs with
        | some (v, r) => items r (v :: acc)
        | none => none
    (items r []).map fun (l, r) => (.arr l, r)
  | '{' :: r =>
    let rec fields (cs : List Char) (acc : List (Bytes × JVal)) : Option (List (Bytes × JVal) × List Char) :=
      match cs with
      | '}' :: r => some (acc.reverse, r)
      | _ => match parseJ cs with
        | some (.str k, r) => match parseJ r with
          | some (v, r2) => fields r2 ((k, v) :: acc)
          | none => none
        | _ => none
    (fields r []).map fun (l, r) => (.obj l, r)
  | _ => none

partial def serJ : JVal → String
  | .null => "n"
  | .bool true => "t"
  | .bool false => "f"
  | .num r => s!"#{hexRaw r};"
  | .str s => s!"s{hexRaw s};"
  | .arr l => "[" ++ String.join (l.map serJ) ++ "]"
  | .obj l => "{" ++ String.join (l.map fun (k, v) => s!"s{hexRaw k};" ++ serJ v) ++ "}"

def step (st : St) (toks : List String) : St × String :=
  match toks with
  | ["s.reset"] => ({}, "ok")
  | ["s.row", tid, i, s, o, p, q] =>
    match tid.toNat?, unhex i, unhex s, unhex o, unhexList p, unhexList q with
    | some tid, some i, some s, some o, some p, some q =>
      let t := getTable st tid ++ [(i, ⟨s, o, p, q⟩)]
      ({ st with tables := (st.tables.filter (·.1 ≠ tid)) ++ [(tid, t)] }, "ok")
    | _, _, _, _, _, _ => (st, "bad-op")
  | ["s.table", tid, i] =>
    match tid.toNat?, unhex i with
    | some tid, some i => (st, recStr (tableLookup (getTable st tid) i))
    | _, _ => (st, "bad-op")
  | ["s.multi", tids, i] =>
    match (tids.splitOn ",").mapM String.toNat?, unhex i with
    | some tids, some i => (st, recStr (multiLookup (tids.map fun t => tableLookup (getTable st t)) i))
    | _, _ => (st, "bad-op")
  | ["s.env", k, v] =>
    match unhex k, unhex v with
    | some k, some v => ({ st with env := (st.env.filter (·.1 ≠ k)) ++ [(k, v)] }, "ok")
    | _, _ => (st, "bad-op")
  | ["s.envlookup", i, upi] =>
    match unhex i, unhex upi with
    | some i, some upi =>
      (st, recStr (envLookup (fun _ => upi) (fun k => (st.env.find? (·.1 = k)).map (·.2)) i))
    | _, _ => (st, "bad-op")
  | ["j.reset"] => ({ st with db := [] }, "ok")
  | ["j.load", doc] =>
    let parsed : Option JVal := if doc == "ERR" then none else (parseJ doc.toList).map (·.1)
    if doc != "ERR" && parsed.isNone then (st, "bad-op")
    else
      let db := reload st.db parsed
      ({ st with db := db }, s!"ok {db.length}")
  | ["j.get", i] =>
    match unhex i with
    | some i => (st, match getAuthkey st.db i with
        | none => "none"
        | some (s, p, q, o) => s!"rec {serJ s} {serJ p} {serJ q} {serJ o}")
    | none => (st, "bad-op")
  | _ => (st, "bad-op")

end Driver.StoresD
