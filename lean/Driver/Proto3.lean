import Driver.Util
import Hpfeeds.Model.Sha1
import Hpfeeds.Model.Proto3
namespace Driver.Proto3D
open Hpfeeds Hpfeeds.Proto3 Driver

structure St where
  cfg : PCfg := ⟨[], [], Sha1.sha1⟩
  aio : Bytes := []
  blk : Bytes := []
  tw : Bytes := []

def obsStr : Obs → String
  | .onError t => s!"E:{hex t}"
  | .onInfo n r => s!"I:{hex n}:{hex r}"
  | .onAuth i d => s!"A:{hex i}:{hex d}"
  | .onPublish i c p => s!"P:{hex i}:{hex c}:{hex p}"
  | .onSubscribe i c => s!"S:{hex i}:{hex c}"
  | .onUnsubscribe i c => s!"U:{hex i}:{hex c}"
  | .ready => "ready"
  | .protoError => "perr"
  | .wrote b => s!"W:{hex b}"
  | .drop => "drop"
  | .crash c => s!"crash:{crashName c}"

def obsList (l : List Obs) : String := "[" ++ String.intercalate ";" (l.map obsStr) ++ "]"

def step (st : St) (toks : List String) : St × String :=
  match toks with
  | ["p.reset", i, s] =>
    match unhex i, unhex s with
    | some i, some s => ({ cfg := ⟨i, s, Sha1.sha1⟩ }, "ok")
    | _, _ => (st, "bad-op")
  | ["p.feed", h] =>
    match unhex h with
    | some b =>
      let a := aioLoop st.cfg (st.aio ++ b)
      let k := blkLoop st.cfg (st.blk ++ b)
      let t := twLoop st.cfg (st.tw ++ b)
      ({ st with aio := a.2, blk := k.2, tw := t.2 },
        s!"aio {obsList a.1} {a.2.length} | blk {obsList k.1} {k.2.length} | tw {obsList t.1} {t.2.length}")
    | none => (st, "bad-op")
  | _ => (st, "bad-op")

end Driver.Proto3D
