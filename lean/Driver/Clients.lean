import Driver.Util
import Hpfeeds.Model.Sha1
import Hpfeeds.Model.AioClient
namespace Driver.ClientsD
open Hpfeeds Driver

structure St where
  acfg : AioClient.Cfg := { ident := [], secret := [], H := Sha1.sha1 }
  aio : AioClient.State := {}

def aOut : AioClient.Out → String
  | .attempt => "T"
  | .wrote k b => s!"W{k}:{hex b}"
  | .closeT k => s!"X{k}"
  | .handed (i, c, p) => s!"H:{hex i}:{hex c}:{hex p}"
  | .closeDone => "closeDone"
  | .crash => "crash"

def aEv : List String → Option AioClient.Ev
  | ["idle"] => some .idle
  | ["start"] => some .start
  | ["sub", c] => do some (.sub (← unhex c))
  | ["unsub", c] => do some (.unsub (← unhex c))
  | ["pub", c, p] => do some (.pub (← unhex c) (← unhex p))
  | ["read"] => some .read
  | ["read", "next"] => some .read        -- `async for` / __anext__: the same read() while the session is open
  | ["close"] => some .close
  | ["accept"] => some .accept
  | ["refuse"] => some .refuse
  | ["refuse", _] => some .refuse        -- the attempt failed with another OSError (timeout, DNS, several addresses)
  | ["data", b] => do some (.data (← unhex b))
  | ["lost"] => some .lost
  | ["advance", ms] => do some (.advance (← ms.toNat?))
  | _ => none

def step (st : St) (toks : List String) : St × String :=
  match toks with
  | ["a.reset", i, s] =>
    match unhex i, unhex s with
    | some i, some s => ({ st with acfg := { ident := i, secret := s, H := Sha1.sha1 }, aio := {} }, "ok")
    | _, _ => (st, "bad-op")
  | ["a.reset", i, s, retry, loss] =>     -- delays measured on the real session by the harness
    match unhex i, unhex s, retry.toNat?, loss.toNat? with
    | some i, some s, some r, some l =>
      ({ st with acfg := { ident := i, secret := s, H := Sha1.sha1, retryDelay := r, lossDelay := l }, aio := {} }, "ok")
    | _, _, _, _ => (st, "bad-op")
  | ["t.reset", i, s] =>
    match unhex i, unhex s with
    | some i, some s =>
      ({ st with acfg := { ident := i, secret := s, H := Sha1.sha1, autoStart := false, lossDelay := 1000 }, aio := {} }, "ok")
    | _, _ => (st, "bad-op")
  | "t.ev" :: rest | "a.ev" :: rest =>
    match aEv rest with
    | some e =>
      let ok := AioClient.okEv (AioClient.kick st.acfg st.aio).1 e
      let r := AioClient.step st.acfg st.aio e
      ({ st with aio := r.1 }, (if ok then "ok " else "invalid ") ++ String.intercalate ";" (r.2.map aOut))
    | none => (st, "bad-op")
  | ["a.state"] =>
    let s := st.aio
    (st, s!"subs=[{String.intercalate "," (s.subs.map hex)}] queue={s.queue.length} readers={s.readers} closing={s.closing} attempts={s.attempts}")
  | _ => (st, "bad-op")

end Driver.ClientsD
