import Driver.Util
import Hpfeeds.Model.Sha1
import Hpfeeds.Model.BrokerValid
import Hpfeeds.Model.BrokerFault
namespace Driver.BrokerD
open Hpfeeds Hpfeeds.Broker Driver

structure St where
  name : Bytes := []
  async : Bool := false
  rows : List (Bytes × Row) := []
  s : State := Broker.init
  invalid : Nat := 0
  faulty : List Nat := []      -- connections whose transport refuses every write from now on (injected fault)

def St.cfg (st : St) : Cfg :=
  { name := st.name
    store := if st.async then .async
             else .sync fun i => (st.rows.find? (·.1 = i)).map (·.2)
    H := Sha1.sha1 }

def actStr : Act → String
  | .write f => s!"w:{frameStr f}"
  | .close => "close"
  | .pauseReading => "pauseR"
  | .resumeReading => "resumeR"
  | .setLimits hi => s!"limits:{hi}"
  | .crashed => "crash"
  | .peerClosed => "peerClosed"
  | .pausedW => "pausedW"
  | .resumedW => "resumedW"
  | .deadlineFired => "fired"

def parseLookup : List String → Option Lookup
  | ["missing"] => some .missing
  | ["raised"] => some .raised
  | ["row", s, o, p, q] => do
    some (.row { secret := ← unhex s, owner := ← unhex o, pubchans := ← unhexList p, subchans := ← unhexList q })
  | _ => none

def parseEvent : List String → Option Event
  | ["connect", c, n] => do some (.connect (← c.toNat?) (← unhex n))
  | ["data", c, b] => do some (.data (← c.toNat?) (← unhex b))
  | ["eof", c] => do some (.eof (← c.toNat?))
  | ["lost", c] => do some (.lost (← c.toNat?))
  | "lookup_done" :: c :: i :: r => do some (.lookupDone (← c.toNat?) (← i.toNat?) (← parseLookup r))
  | ["pause", c] => do some (.pause (← c.toNat?))
  | ["resume", c] => do some (.resume (← c.toNat?))
  | ["fire", c] => do some (.fire (← c.toNat?))
  | ["advance", ms] => do some (.advance (← ms.toNat?))
  | _ => none

def sortStrs (l : List String) : List String := (l.toArray.qsort (· < ·)).toList

def optHex : Option Bytes → String
  | none => "None" | some b => hex b

def connStr (c : Nat) (x : Conn) : String :=
  let act := String.intercalate "," (sortStrs (x.active.map hex))
  s!"{c}:ak={optHex x.ak}:closing={x.closing}:gone={x.gone}:reg={x.registered}:paused={x.paused}:pending={x.pending.length}:buf={x.buf.length}:active=[{act}]"

def step (st : St) (toks : List String) : St × String :=
  match toks with
  | ["b.reset"] => ({}, "ok")
  | ["b.cfg", name, mode] =>
    match unhex name with
    | some n => ({ st with name := n, async := mode == "async" }, "ok")
    | none => (st, "bad-op")
  | ["b.row", i, s, o, p, q] =>
    match unhex i, parseLookup ["row", s, o, p, q] with
    | some i, some (.row r) => ({ st with rows := st.rows ++ [(i, r)] }, "ok")
    | _, _ => (st, "bad-op")
  | ["b.setrow", i, s, o, p, q] =>      -- the operator changes the store while the broker runs
    match unhex i, parseLookup ["row", s, o, p, q] with
    | some i, some (.row r) => ({ st with rows := (i, r) :: st.rows.filter (·.1 ≠ i) }, "ok")
    | _, _ => (st, "bad-op")
  | ["b.delrow", i] =>
    match unhex i with
    | some i => ({ st with rows := st.rows.filter (·.1 ≠ i) }, "ok")
    | none => (st, "bad-op")
  | ["b.ev", "wfault", c] =>
    match c.toNat? with
    | some c => ({ st with faulty := c :: st.faulty }, "ok")
    | none => (st, "bad-op")
  | "b.ev" :: rest =>
    match parseEvent rest with
    | some e =>
      let ok := okEvent st.cfg st.s e
      -- without an injected fault the driver runs the proved model literally; with one, its extension
      -- (`C10.no_fault_is_the_model`: they coincide when no transport is faulty)
      let s' := if st.faulty.isEmpty then Broker.step st.cfg st.s e
                else Broker.stepF (fun d => decide (d ∈ st.faulty)) st.cfg st.s e
      ({ st with s := s', invalid := st.invalid + (if ok then 0 else 1) },
        if ok then "ok" else "invalid")
    | none => (st, "bad-op")
  | ["b.out", c] =>
    match c.toNat? with
    | some c =>
      match st.s.conn c with
      | some x => (st, "out " ++ String.intercalate " " (x.out.map fun e => s!"{e.1}:{actStr e.2}"))
      | none => (st, "out none")
    | none => (st, "bad-op")
  | ["b.dump", labels, chans] =>
    match unhexList chans, (if labels == "." then some [] else (labels.splitOn ",").mapM fun l =>
        if l == "None" then some none else (unhex l).map some) with
    | some chans, some labels =>
      let s := st.s
      let conns := String.intercalate " " (s.ids.filterMap fun c => (s.conn c).map (connStr c))
      let subs := String.intercalate " " (chans.map fun ch =>
        s!"{hex ch}=[{String.intercalate "," (((s.subs ch).toArray.qsort (· < ·)).toList.map toString)}]")
      let g := String.intercalate " " ((labels.flatMap fun l => chans.filterMap fun ch =>
        if s.gSubs l ch = 0 then none else some s!"{optHex l}/{hex ch}={s.gSubs l ch}"))
      let lost := String.intercalate " " (labels.filterMap fun l =>
        if s.cLost l = 0 then none else some s!"{optHex l}={s.cLost l}")
      (st, s!"dump now={s.now} gConns={s.gConns} cMade={s.cMade} conns {conns} | subs {subs} | gsubs {g} | lost {lost}")
    | _, _ => (st, "bad-op")
  | ["b.accepted"] =>
    (st, "accepted " ++ String.intercalate " " (st.s.accepted.map fun a =>
      s!"{a.src}:{hex a.ident}:{hex a.chan}:{hex a.payload}:[{String.intercalate "," (a.recips.map toString)}]:[{String.intercalate "," (a.entitled.map toString)}]:{a.grantedOk}"))
  | _ => (st, "bad-op")

end Driver.BrokerD
