import Hpfeeds.Model.Wire
namespace Driver
open Hpfeeds

def hexDigit (n : Nat) : Char := if n < 10 then Char.ofNat (48 + n) else Char.ofNat (87 + n)

/-- 64-bit FNV-1a -/
def fnv1a (b : Bytes) : UInt64 :=
  b.foldl (fun h x => (h ^^^ x.toUInt64) * 1099511628211) 14695981039346656037

def hexRaw (b : Bytes) : String :=
  String.ofList (b.foldr (fun x acc => hexDigit (x.toNat / 16) :: hexDigit (x.toNat % 16) :: acc) [])

/-- canonical rendering of a byte field: `-` when empty, hex up to 4096 bytes, else `#len:fnv64` -/
def hex (b : Bytes) : String :=
  if b.isEmpty then "-"
  else if b.length > 4096 then s!"#{b.length}:{fnv1a b}"
  else hexRaw b

def unhexNibble (c : UInt8) : Option UInt8 :=
  if 48 ≤ c ∧ c ≤ 57 then some (c - 48)
  else if 97 ≤ c ∧ c ≤ 102 then some (c - 87)
  else if 65 ≤ c ∧ c ≤ 70 then some (c - 55)
  else none

/-- parse one part: `-` / hex / `*<n>:<byte hex>` (n repetitions of one byte, for large payloads) -/
def unhexPart (s : String) : Option Bytes :=
  if s == "-" then some []
  else if s.startsWith "*" then
    match (s.drop 1).toString.splitOn ":" with
    | [n, b] =>
      match n.toNat?, b.toUTF8.toList with
      | some k, [h, l] => do
        let x := (← unhexNibble h) * 16 + (← unhexNibble l)
        some (List.replicate k x)
      | _, _ => none
    | _ => none
  else
    let a := s.toUTF8
    if a.size % 2 ≠ 0 then none
    else Id.run do
      let mut out : Array UInt8 := Array.mkEmpty (a.size / 2)
      let mut ok := true
      for i in [0:a.size / 2] do
        match unhexNibble a[2*i]!, unhexNibble a[2*i+1]! with
        | some h, some l => out := out.push (h * 16 + l)
        | _, _ => ok := false
      return if ok then some out.toList else none

/-- parse a byte field: parts joined by `+` -/
def unhex (s : String) : Option Bytes :=
  if s.contains '+' then do
    let parts ← (s.splitOn "+").mapM unhexPart
    some parts.flatten
  else unhexPart s

def unhexList (s : String) : Option (List Bytes) :=
  if s == "." then some [] else (s.splitOn ",").mapM unhex

def errName : Err → String
  | .unknownOp => "unknownOp" | .tooBig => "tooBig" | .tooSmall => "tooSmall"

def crashName : Crash → String
  | .typeError => "TypeError" | .unicodeError => "UnicodeDecodeError" | .notImplemented => "NotImplementedError"

def frameStr (f : Frame) : String := s!"{f.op.toNat}:{hex f.body}"

def msgStr : Msg → String
  | .error t => s!"error {hex t}"
  | .info n r => s!"info {hex n} {hex r}"
  | .auth i d => s!"auth {hex i} {hex d}"
  | .publish i c p => s!"publish {hex i} {hex c} {hex p}"
  | .subscribe i c => s!"subscribe {hex i} {hex c}"
  | .unsubscribe i c => s!"unsubscribe {hex i} {hex c}"

end Driver
