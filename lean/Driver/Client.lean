import Driver.Util
import Hpfeeds.Model.Sha1
import Hpfeeds.Model.BlkClient
namespace Driver.ClientD
open Hpfeeds Driver Hpfeeds.BlkClient

/-- the message_callback the harness installs: the first payload byte selects what it does -/
def react (m : Message) : List Act :=
  match m.2.2 with
  | 0x53 :: _ => [.stop]                                      -- 'S'
  | 0x55 :: r => [.sub r]                                     -- 'U'
  | 0x50 :: r => [.pub [114, 101, 112, 108, 121] r]           -- 'P': publish('reply', rest)
  | 0x42 :: r => [.pub [114, 101, 112, 108, 121] r, .stop]    -- 'B'
  | 0x51 :: r => [.stop, .pub [114, 101, 112, 108, 121] r, .sub [122]]  -- 'Q'
  | _ => []

structure St where
  cfg : Cfg := { ident := [], secret := [], H := Sha1.sha1, react := react }
  st : State := {}

def kOut : Out → String
  | .attempt k => s!"T{k}"
  | .wrote k b => s!"W{k}:{hex b}"
  | .closed k => s!"C{k}"
  | .sleep => "S"
  | .msg (i, c, p) => s!"M:{hex i}:{hex c}:{hex p}"
  | .err t => s!"E:{hex t}"
  | .ret => "ret"
  | .exc => "exc"

def kEv : List String → Option Ev
  | ["new"] => some .new
  | ["sub", c] => do some (.sub (← unhex c))
  | ["pub", c, p] => do some (.pub (← unhex c) (← unhex p))
  | ["run"] => some .run
  | ["close"] => some .close
  | ["stop"] => some .stop
  | ["connok"] => some .connOk
  | ["refuse"] => some .connRefused
  | ["data", b] => do some (.data (← unhex b))
  | ["eof"] => some .eof
  | ["timeout"] => some .timeout
  | ["sockerr"] => some .sockErr
  | ["sendok"] => some .sendOk
  | _ => none

def pcName : Pc → String
  | .fresh => "fresh" | .idle => "idle" | .connecting i _ => s!"connecting{i}" | .authRecv _ => "authrecv"
  | .authSend _ _ => "authsend" | .subSend _ _ _ => "subsend" | .runRecv => "runrecv" | .pubSend _ _ => "pubsend"
  | .crashed => "crashed" | .impossible => "impossible"

def b01 (b : Bool) : String := if b then "1" else "0"

def step (st : St) (toks : List String) : St × String :=
  match toks with
  | ["k.reset", i, s, n] =>
    match unhex i, unhex s, n.toNat? with
    | some i, some s, some n => ({ st with cfg := { ident := i, secret := s, H := Sha1.sha1, naddr := n, react := react }, st := {} }, "ok")
    | _, _, _ => (st, "bad-op")
  | "k.ev" :: rest =>
    match kEv rest with
    | some e =>
      let ok := okEv st.st e
      let r := BlkClient.step st.cfg st.st e
      ({ st with st := r.1 }, (if ok then "ok " else "invalid ") ++ String.intercalate ";" (r.2.map kOut) ++
        s!" | pc={pcName r.1.pc} conn={b01 r.1.connected} stop={b01 r.1.stopped} ubuf={r.1.ubuf.length} subs=[{String.intercalate "," ((sortBytes r.1.subs).map hex)}]")
    | none => (st, "bad-op")
  | _ => (st, "bad-op")

end Driver.ClientD
