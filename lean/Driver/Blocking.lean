import Driver.Util
import Hpfeeds.Model.Sha1
import Hpfeeds.Model.BlkSession
import Hpfeeds.Model.PollQueue
namespace Driver.BlockingD
open Hpfeeds Driver

structure St where
  cfg : BlkSession.Cfg := { ident := [], secret := [], H := Sha1.sha1 }
  ses : BlkSession.State := {}
  q : PollQueue.State Nat := {}

def rOut : BlkSession.Out → String
  | .sent k b => s!"S{k}:{hex b}"
  | .lost k => s!"L{k}"
  | .closeSock k => s!"X{k}"
  | .crash => "crash"
  | .handed (i, c, p) => s!"H:{hex i}:{hex c}:{hex p}"
  | .block => "block"

/-- outcomes of the successive send() calls of the round; the code makes at most one -/
def rSend : List String → Option BlkSession.Send
  | o :: _ =>
    if o == "again" then some .again
    else if o.startsWith "a" then do some (.accept (← (o.drop 1).toString.toNat?))
    else none
  | [] => none

def rEv : List String → Option BlkSession.Ev
  | ["connect"] => some .connect
  | ["inb", b] => do some (.inb (← unhex b))
  | ["eof"] => some .eof
  | "sel" :: o => do some (.sel (← rSend o))
  | ["wbegin", t, "sub", c] => do some (.wBegin (← t.toNat?) (.sub (← unhex c)))
  | ["wbegin", t, "unsub", c] => do some (.wBegin (← t.toNat?) (.unsub (← unhex c)))
  | ["wbegin", t, "pub", c, p] => do some (.wBegin (← t.toNat?) (.pub (← unhex c) (← unhex p)))
  | ["wcheck", t] => do some (.wCheck (← t.toNat?))
  | ["wwake", t] => do some (.wWake (← t.toNat?))
  | ["read"] => some .read
  | _ => none

def b01 (b : Bool) : String := if b then "1" else "0"

def rState (s : BlkSession.State) : String :=
  s!"buf={s.buffer.length} q={s.items.length} rd={b01 (s.wake > 0)} ready={b01 s.ready} live={b01 s.live} ubuf={s.ubuf.length} rq={s.rq.length} subs=[{String.intercalate "," ((BlkSession.sortBytes s.subs).map hex)}] enq={s.enq.length}:{fnv1a s.enq.flatten} wire={s.wire.length}:{fnv1a s.wire}"

def qEv : List String → Option (PollQueue.Ev Nat)
  | ["enq", x] => do some (.enq (← x.toNat?))
  | ["wake"] => some .wake
  | ["recv"] => some .recv
  | ["deq"] => some .deq
  | _ => none

def step (st : St) (toks : List String) : St × String :=
  match toks with
  | ["r.reset", i, s] =>
    match unhex i, unhex s with
    | some i, some s => ({ st with cfg := { ident := i, secret := s, H := Sha1.sha1 }, ses := {} }, "ok")
    | _, _ => (st, "bad-op")
  | "r.ev" :: rest =>
    match rEv rest with
    | some e =>
      let r := BlkSession.step st.cfg st.ses e
      ({ st with ses := r.1 }, "ok " ++ String.intercalate ";" (r.2.map rOut) ++ " | " ++ rState r.1 ++
        (if r.1.dead then " dead" else ""))
    | none => (st, "bad-op")
  | ["q.reset"] => ({ st with q := {} }, "ok")
  | "q.ev" :: rest =>
    match qEv rest with
    | some e =>
      match PollQueue.step st.q e with
      | some q' =>
        ({ st with q := q' }, s!"ok n={q'.items.length} rd={b01 (PollQueue.readable q')} out=[{String.intercalate "," (q'.deqLog.map toString)}] empty={q'.emptyErr}")
      | none => (st, "disabled")
    | none => (st, "bad-op")
  | _ => (st, "bad-op")

end Driver.BlockingD
