import Driver.Util
import Hpfeeds.Model.Sha1
namespace Driver.Codec
open Hpfeeds Driver

structure St where
  buf : Bytes := []
  err : Option Err := none

def parseMsg : List String → Option Msg
  | ["error", t] => do some (.error (← unhex t))
  | ["info", n, r] => do some (.info (← unhex n) (← unhex r))
  | ["auth", i, d] => do some (.auth (← unhex i) (← unhex d))
  | ["publish", i, c, p] => do some (.publish (← unhex i) (← unhex c) (← unhex p))
  | ["subscribe", i, c] => do some (.subscribe (← unhex i) (← unhex c))
  | ["unsubscribe", i, c] => do some (.unsubscribe (← unhex i) (← unhex c))
  | _ => none

def step (st : St) (toks : List String) : St × String :=
  match toks with
  | ["c.reset"] => ({}, "ok")
  | ["c.hdr", h] =>
    match unhex h with
    | some b => (st, match header b with
        | .wait => "wait" | .bad e => s!"bad {errName e}" | .ok ml op => s!"ok {ml} {op.toNat}")
    | none => (st, "bad-op")
  | ["c.feed", h] =>
    match unhex h with
    | some b =>
      -- `feed(data)` then iterate to exhaustion; a raised error leaves the buffer in place
      let r := drain (st.buf ++ b)
      let fs := String.intercalate "," (r.1.map frameStr)
      ({ buf := r.2.1, err := r.2.2 },
        s!"frames [{fs}] rest {r.2.1.length} err {match r.2.2 with | none => "none" | some e => errName e}")
    | none => (st, "bad-op")
  | "c.build" :: rest =>
    match parseMsg rest with
    | some m => (st, match build m with | some b => s!"bytes {hex b}" | none => "raise")
    | none => (st, "bad-op")
  | ["c.msgauth", r, i, s] =>
    match unhex r, unhex i, unhex s with
    | some r, some i, some s => (st, match msgauth Sha1.sha1 r i s with | some b => s!"bytes {hex b}" | none => "raise")
    | _, _, _ => (st, "bad-op")
  | ["c.read", op, body] =>
    match op.toNat?, unhex body with
    | some op, some b =>
      (st, match read ⟨UInt8.ofNat op, b⟩ with
        | none => "unknown"
        | some (.error c) => s!"crash {crashName c}"
        | some (.ok m) => s!"msg {msgStr m}")
    | _, _ => (st, "bad-op")
  | ["c.sha1", h] =>
    match unhex h with
    | some b => (st, hexRaw (Sha1.sha1 b))
    | none => (st, "bad-op")
  | ["c.utf8", h] =>
    match unhex h with
    | some b => (st, if validUtf8 b then "valid" else "invalid")
    | none => (st, "bad-op")
  | _ => (st, "bad-op")

end Driver.Codec
