/-
  Line-protocol interpreter over the executable model.  One operation per input line, one
  canonical answer line per operation.  Built as a native executable (`lake build driver`);
  nothing here (or in the model) imports Mathlib.
-/
import Driver.Codec
import Driver.Broker
import Driver.Proto3
import Driver.Stores
import Driver.Clients
import Driver.Blocking
import Driver.Client
open Driver

structure DSt where
  codec : Codec.St := {}
  broker : BrokerD.St := {}
  proto3 : Proto3D.St := {}
  stores : StoresD.St := {}
  clients : ClientsD.St := {}
  blocking : BlockingD.St := {}
  client : ClientD.St := {}

def dispatch (st : DSt) (line : String) : DSt × String :=
  let toks := (line.trimAscii.toString.splitOn " ").filter (· ≠ "")
  match toks with
  | [] => (st, "")
  | t :: _ =>
    if t.startsWith "c." then
      let (c, out) := Codec.step st.codec toks; ({ st with codec := c }, out)
    else if t.startsWith "b." then
      let (b, out) := BrokerD.step st.broker toks; ({ st with broker := b }, out)
    else if t.startsWith "p." then
      let (p, out) := Proto3D.step st.proto3 toks; ({ st with proto3 := p }, out)
    else if t.startsWith "s." || t.startsWith "j." then
      let (p, out) := StoresD.step st.stores toks; ({ st with stores := p }, out)
    else if t.startsWith "a." || t.startsWith "t." then
      let (p, out) := ClientsD.step st.clients toks; ({ st with clients := p }, out)
    else if t.startsWith "r." || t.startsWith "q." then
      let (p, out) := BlockingD.step st.blocking toks; ({ st with blocking := p }, out)
    else if t.startsWith "k." then
      let (p, out) := ClientD.step st.client toks; ({ st with client := p }, out)
    else if t == "ping" then (st, "pong")
    else (st, "bad-op")

partial def loop (h : IO.FS.Stream) (o : IO.FS.Stream) (st : DSt) : IO Unit := do
  let line ← h.getLine
  if line.isEmpty then return ()
  let (st', out) := dispatch st line
  o.putStrLn out
  o.flush
  loop h o st'

def main : IO Unit := do
  loop (← IO.getStdin) (← IO.getStdout) {}
