/-
  Blocking thread session: per-connection wire trace; C11 of the output trace for EVERY connection ever made.
-/
import Hpfeeds.Lemmas.BlkSession
namespace Hpfeeds.BlkSession
open Hpfeeds Extracted

/-- the bytes the outputs show accepted by the socket of connection `k`, in order -/
def bytesOn (k : Nat) (outs : List Out) : Bytes :=
  (outs.filterMap fun o => match o with
    | .sent k' b => if k' = k then some b else none
    | _ => none).flatten

theorem bytesOn_append (k : Nat) (a b : List Out) : bytesOn k (a ++ b) = bytesOn k a ++ bytesOn k b := by
  simp [bytesOn, List.filterMap_append]

/-- a reactor-side function: same connection; its `sent` outputs are on it and are what it appended to `wire` -/
def KeepB (s : State) (r : State × List Out) : Prop :=
  r.1.gen = s.gen ∧ r.1.wire = s.wire ++ bytesOn s.gen r.2 ∧ ∀ k, k ≠ s.gen → bytesOn k r.2 = []

theorem keepB_quiet {s s' : State} {o : List Out} (h1 : s'.gen = s.gen) (h2 : s'.wire = s.wire)
    (ho : ∀ k, bytesOn k o = []) : KeepB s (s', o) := ⟨h1, by rw [h2, ho]; simp, fun k _ => ho k⟩
theorem keepB_trans {s : State} {r t : State × List Out} (h1 : KeepB s r) (h2 : KeepB r.1 t) : KeepB s (t.1, r.2 ++ t.2) := by
  obtain ⟨a1, a2, a3⟩ := h1
  obtain ⟨b1, b2, b3⟩ := h2
  refine ⟨b1.trans a1, ?_, fun k hk => ?_⟩
  · rw [b2, a2, a1, bytesOn_append, List.append_assoc]
  · rw [bytesOn_append, a3 k hk, b3 k (by rw [a1]; exact hk)]; rfl

theorem rwriteAll_gw (s : State) (fs : List Bytes) : (rwriteAll s fs).gen = s.gen ∧ (rwriteAll s fs).wire = s.wire := by
  induction fs generalizing s with
  | nil => exact ⟨rfl, rfl⟩
  | cons f fs ih => have := ih (rwrite s f); exact ⟨this.1, this.2⟩

theorem kb_closeSock (s : State) : KeepB s (closeSock s) := by
  unfold closeSock; split
  · exact keepB_quiet rfl rfl (fun _ => rfl)
  · exact keepB_quiet rfl rfl (fun _ => rfl)
theorem kb_onFrame (cfg : Cfg) (s : State) (f : Frame) : KeepB s ((onFrame cfg s f).1, (onFrame cfg s f).2.1) := by
  unfold onFrame
  cases read f with
  | none => exact kb_closeSock s
  | some e =>
    cases e with
    | error _ => exact keepB_quiet rfl rfl (fun _ => rfl)
    | ok m =>
      cases m with
      | error _ => exact keepB_quiet rfl rfl (fun _ => rfl)
      | auth _ _ => exact kb_closeSock s
      | subscribe _ _ => exact kb_closeSock s
      | unsubscribe _ _ => exact kb_closeSock s
      | publish _ _ _ => exact keepB_quiet rfl rfl (fun _ => rfl)
      | info n rand =>
        simp only
        unfold onInfo
        have := rwriteAll_gw (markReady (rwrite s (authFrame cfg rand)) rand) ((sortBytes s.subs).map (subFrame cfg))
        exact keepB_quiet this.1 this.2 (fun _ => rfl)
theorem kb_dispatch (cfg : Cfg) (s : State) (fs : List Frame) : KeepB s ((dispatch cfg s fs).1, (dispatch cfg s fs).2.1) := by
  induction fs generalizing s with
  | nil => exact keepB_quiet rfl rfl (fun _ => rfl)
  | cons f fs ih =>
    simp only [dispatch]
    have h1 : KeepB s ((onFrame cfg (noteFrame s f) f).1, (onFrame cfg (noteFrame s f) f).2.1) := by
      have := kb_onFrame cfg (noteFrame s f) f
      exact ⟨this.1, this.2.1, this.2.2⟩
    split
    · exact h1
    · exact keepB_trans h1 (ih _)
theorem kb_dataReceived (cfg : Cfg) (s : State) (c : Bytes) : KeepB s (dataReceived cfg s c) := by
  unfold dataReceived
  simp only
  have h := kb_dispatch cfg { s with inbound := s.inbound ++ c } (drain (s.ubuf ++ c)).1
  have h' : KeepB s ((dispatch cfg { s with inbound := s.inbound ++ c } (drain (s.ubuf ++ c)).1).1,
      (dispatch cfg { s with inbound := s.inbound ++ c } (drain (s.ubuf ++ c)).1).2.1) := ⟨h.1, h.2.1, h.2.2⟩
  generalize dispatch cfg { s with inbound := s.inbound ++ c } (drain (s.ubuf ++ c)).1 = r at h'
  split
  · exact keepB_trans h' (keepB_quiet (s' := { r.1 with ubuf := _, dead := true }) (o := [.crash]) rfl rfl (fun _ => rfl))
  · split
    · exact ⟨h'.1, h'.2.1, h'.2.2⟩
    · have hc := kb_closeSock { r.1 with ubuf := (drain (s.ubuf ++ c)).2.1 }
      exact keepB_trans h' ⟨hc.1, hc.2.1, hc.2.2⟩
theorem kb_connectionLost (s : State) : KeepB s (connectionLost s) := keepB_quiet rfl rfl (fun _ => rfl)
theorem kb_writeReady (s : State) (o : Send) : KeepB s (writeReady s o) := by
  unfold writeReady
  split
  · exact keepB_quiet rfl rfl (fun _ => rfl)
  · cases o with
    | again => exact keepB_quiet rfl rfl (fun _ => rfl)
    | accept n =>
      simp only
      split
      · exact kb_connectionLost s
      · refine ⟨rfl, by simp [bytesOn], fun k hk => ?_⟩
        simp [bytesOn, Ne.symm hk]
theorem kb_outboxReady (s : State) (o : Send) : KeepB s (outboxReady s o) := by
  unfold outboxReady; split
  · exact keepB_quiet rfl rfl (fun _ => rfl)
  · rename_i f r _
    have := kb_writeReady { s with items := r, wake := s.wake - 1, buffer := s.buffer ++ f } o
    exact ⟨this.1, this.2.1, this.2.2⟩
theorem kb_readPhase (cfg : Cfg) (s : State) : KeepB s ((readPhase cfg s).1, (readPhase cfg s).2.1) := by
  unfold readPhase
  split
  · rename_i c cs _
    have := kb_dataReceived cfg { s with pendingIn := if c.length ≤ REACTOR_RECV then cs else c.drop REACTOR_RECV :: cs } (c.take REACTOR_RECV)
    exact ⟨this.1, this.2.1, this.2.2⟩
  · split
    · exact kb_connectionLost s
    · exact keepB_quiet rfl rfl (fun _ => rfl)
theorem kb_select (cfg : Cfg) (s : State) (o : Send) : KeepB s (select cfg s o) := by
  unfold select
  split
  · exact keepB_quiet rfl rfl (fun _ => rfl)
  · simp only
    split
    · exact keepB_quiet rfl rfl (fun _ => rfl)
    · have h1 := kb_readPhase cfg s
      split
      · exact h1
      · split
        · exact keepB_trans h1 (kb_outboxReady _ o)
        · split
          · exact keepB_trans h1 (kb_writeReady _ o)
          · exact h1

/-- one event: same connection (wire extended by the bytes shown), or a fresh connection and no bytes -/
theorem step_b (cfg : Cfg) (s : State) (e : Ev) :
    KeepB s (step cfg s e) ∨
    ((step cfg s e).1.gen = s.gen + 1 ∧ (step cfg s e).1.wire = [] ∧ ∀ k, bytesOn k (step cfg s e).2 = []) := by
  cases e with
  | connect =>
    simp only [step]; split
    · exact Or.inl (keepB_quiet rfl rfl (fun _ => rfl))
    · exact Or.inr ⟨rfl, rfl, fun _ => rfl⟩
  | inb b => simp only [step]; split <;> exact Or.inl (keepB_quiet rfl rfl (fun _ => rfl))
  | eof => simp only [step]; split <;> exact Or.inl (keepB_quiet rfl rfl (fun _ => rfl))
  | sel o =>
    simp only [step]; split
    · exact Or.inl (kb_select cfg s o)
    · exact Or.inl (keepB_quiet rfl rfl (fun _ => rfl))
  | wBegin t op => simp only [step]; split <;> exact Or.inl (keepB_quiet rfl rfl (fun _ => rfl))
  | wCheck t =>
    simp only [step]
    split
    · split
      · split <;> exact Or.inl (keepB_quiet rfl rfl (fun _ => rfl))
      · exact Or.inl (keepB_quiet rfl rfl (fun _ => rfl))
    · exact Or.inl (keepB_quiet rfl rfl (fun _ => rfl))
  | wWake t =>
    simp only [step]
    split
    · split <;> exact Or.inl (keepB_quiet rfl rfl (fun _ => rfl))
    · exact Or.inl (keepB_quiet rfl rfl (fun _ => rfl))
  | read => simp only [step]; split <;> exact Or.inl (keepB_quiet rfl rfl (fun _ => rfl))

structure GB (acc : State × List Out) : Prop where
  cur : bytesOn acc.1.gen acc.2 = acc.1.wire
  future : ∀ k, acc.1.gen < k → bytesOn k acc.2 = []

theorem gb_step (cfg : Cfg) (acc : State × List Out) (e : Ev) (h : GB acc) :
    GB ((step cfg acc.1 e).1, acc.2 ++ (step cfg acc.1 e).2) ∧
    ∀ k, k ≠ (step cfg acc.1 e).1.gen → bytesOn k (step cfg acc.1 e).2 = [] := by
  rcases step_b cfg acc.1 e with ⟨a, b, c⟩ | ⟨a, b, c⟩
  · refine ⟨⟨?_, fun k hk => ?_⟩, fun k hk => c k (by rw [← a]; exact hk)⟩
    · show bytesOn (step cfg acc.1 e).1.gen (acc.2 ++ (step cfg acc.1 e).2) = (step cfg acc.1 e).1.wire
      rw [bytesOn_append, a, b, h.cur]
    · show bytesOn k (acc.2 ++ (step cfg acc.1 e).2) = []
      have hk' : (step cfg acc.1 e).1.gen < k := hk
      rw [bytesOn_append, h.future k (by omega), c k (by omega)]; rfl
  · refine ⟨⟨?_, fun k hk => ?_⟩, fun k _ => c k⟩
    · show bytesOn (step cfg acc.1 e).1.gen (acc.2 ++ (step cfg acc.1 e).2) = (step cfg acc.1 e).1.wire
      rw [bytesOn_append, a, b, c, h.future _ (Nat.lt_succ_self _)]; rfl
    · show bytesOn k (acc.2 ++ (step cfg acc.1 e).2) = []
      have hk' : (step cfg acc.1 e).1.gen < k := hk
      rw [bytesOn_append, c k, h.future k (by omega)]; rfl

/-- what C11 says about the bytes on one connection's wire -/
def GoodB (cfg : Cfg) (w : Bytes) : Prop := w = [] ∨ ∃ (r : Bytes) (tail : Bytes), w <+: authFrame cfg r ++ tail

/-- ON EVERY CONNECTION THEY MAKE — the observable form of C11 for the blocking thread session.  Over ANY
    event sequence (every interleaving of the reactor with the application threads' steps, any number of
    reconnections) and for EVERY connection number `k`, the bytes the OUTPUT shows accepted by the socket of
    connection `k` (what the correspondence check compares with what the real scripted socket `k` accepted)
    are: nothing, or a prefix of a byte stream that begins with the OP_AUTH of a nonce. -/
theorem every_connection (cfg : Cfg) (es : List Ev) (k : Nat) : GoodB cfg (bytesOn k (run cfg es).2) := by
  unfold run
  suffices ∀ (acc : State × List Out), Inv cfg acc.1 → GB acc → (∀ k, GoodB cfg (bytesOn k acc.2)) →
      ∀ k, GoodB cfg (bytesOn k (es.foldl (fun acc e => let r := step cfg acc.1 e; (r.1, acc.2 ++ r.2)) acc).2) from
    this ({}, []) (inv_init cfg) ⟨rfl, fun _ _ => rfl⟩ (fun _ => Or.inl rfl) k
  induction es with
  | nil => intro acc _ _ h; exact h
  | cons e es ih =>
    intro acc hi hg hgood
    simp only [List.foldl_cons]
    have hi' := inv_step cfg acc.1 e hi
    obtain ⟨hg', hother⟩ := gb_step cfg acc e hg
    refine ih _ hi' hg' (fun k => ?_)
    show GoodB cfg (bytesOn k (acc.2 ++ (step cfg acc.1 e).2))
    by_cases hk : k = (step cfg acc.1 e).1.gen
    · rw [hk]
      have := hg'.cur
      simp only at this
      rw [this]
      cases hn : (step cfg acc.1 e).1.nonce with
      | none =>
        left
        have hq := hi'.a.quiet hn
        have hw := hi'.w.bytes
        rw [hq] at hw
        simp only [List.flatten_nil, List.append_eq_nil_iff] at hw
        exact hw.1.1
      | some r =>
        right
        obtain ⟨rest, hrest⟩ := hi'.a.first r hn
        have hw := hi'.w.bytes
        rw [hrest] at hw
        exact ⟨r, rest.flatten, ⟨(step cfg acc.1 e).1.buffer ++ (step cfg acc.1 e).1.items.flatten, by
          rw [← List.append_assoc, hw]; simp⟩⟩
    · rw [bytesOn_append, hother k hk, List.append_nil]
      exact hgood k

theorem gb_run (cfg : Cfg) (es : List Ev) : GB (run cfg es) := by
  unfold run
  suffices ∀ (acc : State × List Out), GB acc →
      GB (es.foldl (fun acc e => let r := step cfg acc.1 e; (r.1, acc.2 ++ r.2)) acc) from
    this ({}, []) ⟨rfl, fun _ _ => rfl⟩
  induction es with
  | nil => intro acc h; exact h
  | cons e es ih => intro acc h; simp only [List.foldl_cons]; exact ih _ (gb_step cfg acc e h).1


end Hpfeeds.BlkSession
