/-
  Blocking Client: the callback outputs ARE the ghost log `delivered` of C12.
-/
import Hpfeeds.Lemmas.BlkClient
namespace Hpfeeds.BlkClient
open Hpfeeds Extracted

/-- the callback an output is -/
def cbOut : Out → Option Cb
  | .msg m => some (.msg m)
  | .err t => some (.err t)
  | _ => none

/-- `r` appended to the ghost log exactly the callbacks its outputs are -/
def TrC (s : State) (r : State × List Out) : Prop := r.1.delivered = s.delivered ++ r.2.filterMap cbOut

theorem trc_refl (s : State) : TrC s (s, []) := by simp [TrC]
theorem trc_trans {s : State} {r t : State × List Out} (h1 : TrC s r) (h2 : TrC r.1 t) : TrC s (t.1, r.2 ++ t.2) := by
  unfold TrC at *; simp only [List.filterMap_append]; rw [h2, h1, List.append_assoc]
theorem trc_quiet {s s' : State} {o : List Out} (h : s'.delivered = s.delivered) (ho : o.filterMap cbOut = []) :
    TrC s (s', o) := by simp [TrC, h, ho]

theorem trc_closeSock (s : State) : TrC s (closeSock s) := by
  unfold closeSock; split
  · exact trc_refl s
  · exact trc_quiet rfl rfl
theorem trc_newSocket (s : State) (i : Nat) (w : Who) : TrC s (newSocket s i w) := trc_quiet rfl rfl
theorem trc_startConnect (s : State) (w : Who) : TrC s (startConnect s w) := by
  unfold startConnect
  exact trc_trans (trc_closeSock s) (trc_newSocket _ 0 w)
theorem trc_retry (s : State) (w : Who) : TrC s (retry s w) := by
  have := trc_startConnect s w
  unfold retry TrC at *
  simp only [List.filterMap_cons, cbOut]
  exact this
theorem subLoop_delivered (s : State) (k : SubK) (chs : List Bytes) : (subLoop s k chs).1.delivered = s.delivered :=
  (de_subLoop s k chs).delivered
theorem trc_afterInner (s : State) : TrC s (afterInner s) := by
  unfold afterInner; split
  · exact trc_quiet rfl rfl
  · split
    · exact trc_quiet rfl rfl
    · exact trc_startConnect s .run
theorem trc_recvLoop (s : State) : TrC s (recvLoop s) := by
  unfold recvLoop; split
  · split
    · exact trc_quiet rfl rfl
    · have := trc_afterInner { s with connected := false }
      unfold TrC at *; exact this
  · exact trc_afterInner s
theorem trc_runTop (s : State) : TrC s (runTop s) := by
  unfold runTop; split
  · exact trc_quiet rfl rfl
  · simp only
    split
    · have := trc_recvLoop (subLoop s .run (sortBytes s.subs)).1
      unfold TrC at *; rw [this, subLoop_delivered]
    · exact trc_quiet (subLoop_delivered _ _ _) rfl
theorem trc_startPublish (cfg : Cfg) (s : State) (k : PubK) (ch p : Bytes) : TrC s (startPublish cfg s k ch p) := by
  unfold startPublish; split
  · exact trc_quiet rfl rfl
  · have := trc_startConnect { s with connected := false } (.pub k)
    unfold TrC at *; exact this
theorem trc_doActs (cfg : Cfg) (s : State) (acts : List Act) : TrC s ((doActs cfg s acts).1, (doActs cfg s acts).2.1) := by
  induction acts generalizing s with
  | nil => exact trc_refl s
  | cons a r ih =>
    cases a with
    | stop => simp only [doActs]; have := ih { s with stopped := true }; unfold TrC at *; exact this
    | sub ch =>
      simp only [doActs]
      have := ih { s with subs := if ch ∈ s.subs then s.subs else s.subs ++ [ch] }
      unfold TrC at *; exact this
    | pub ch p => simp only [doActs]; exact trc_startPublish cfg s _ ch p

theorem trc_frameLoop (cfg : Cfg) : ∀ (s : State), TrC s ((frameLoop cfg s).1, (frameLoop cfg s).2.1) := by
  intro s
  induction hn : s.ubuf.length using Nat.strongRecOn generalizing s with
  | _ n ih =>
    rw [frameLoop]
    split
    · exact trc_refl s
    · exact trc_refl s
    · rename_i ml op hh
      have hk := header_ok hh
      have hlt : (popRun s ml op).ubuf.length < n := by
        simp only [popRun, popFrame, List.length_drop]; omega
      simp only
      split
      · split
        · rename_i i c p _
          have hd := trc_doActs cfg (noteRun (popRun s ml op) (popFrame s.ubuf ml op).1 (some (.msg (i, c, p)))) (cfg.react (i, c, p))
          have h0 : TrC s (noteRun (popRun s ml op) (popFrame s.ubuf ml op).1 (some (.msg (i, c, p))), [Out.msg (i, c, p)]) := by
            simp [TrC, noteRun, popRun, cbOut]
          have h1 := trc_trans h0 hd
          split
          · rename_i hr
            have hi := ih _ (by rw [doActs_ubuf cfg _ _ hr]; exact hlt)
              (doActs cfg (noteRun (popRun s ml op) (popFrame s.ubuf ml op).1 (some (.msg (i, c, p)))) (cfg.react (i, c, p))).1 rfl
            have := trc_trans h1 hi
            simpa using this
          · simpa using h1
        · exact trc_quiet (by simp [noteRun, popRun]) rfl
      · split
        · split
          · rename_i t _
            have h0 : TrC s (noteRun (popRun s ml op) (popFrame s.ubuf ml op).1 (some (.err t)), [Out.err t]) := by
              simp [TrC, noteRun, popRun, cbOut]
            have hi := ih _ hlt (noteRun (popRun s ml op) (popFrame s.ubuf ml op).1 (some (.err t))) rfl
            have := trc_trans h0 hi
            simpa using this
          · exact trc_quiet (by simp [noteRun, popRun]) rfl
        · have hi := ih _ hlt (noteRun (popRun s ml op) (popFrame s.ubuf ml op).1 none) rfl
          unfold TrC at *
          rw [hi]; simp [noteRun, popRun]

theorem trc_afterFrames (cfg : Cfg) (r : State × List Out × FL) :
    TrC r.1 ((afterFrames cfg r).1, (afterFrames cfg r).2.drop r.2.1.length) ∧
    (afterFrames cfg r).2.take r.2.1.length = r.2.1 := by
  unfold afterFrames
  split
  · simp [TrC]
  · simp [TrC, cbOut]
  · have := trc_afterInner { r.1 with connected := false }
    unfold TrC at *
    simp [this]
  · split
    · have := trc_afterInner r.1
      unfold TrC at *; simp [this]
    · have := trc_recvLoop r.1
      unfold TrC at *; simp [this]

/-- frame loop followed by what run() does next -/
theorem trc_frames (cfg : Cfg) (s : State) : TrC s (afterFrames cfg (frameLoop cfg s)) := by
  have h1 := trc_frameLoop cfg s
  obtain ⟨h2, h3⟩ := trc_afterFrames cfg (frameLoop cfg s)
  unfold TrC at *
  rw [h2, h1]
  conv => rhs; rw [← List.take_append_drop (frameLoop cfg s).2.1.length (afterFrames cfg (frameLoop cfg s)).2]
  rw [List.filterMap_append, h3, List.append_assoc]

theorem trc_afterPub (cfg : Cfg) (s : State) (k : PubK) : TrC s (afterPub cfg s k) := by
  cases k with
  | idle => exact trc_quiet rfl rfl
  | cb rest =>
    simp only [afterPub]
    split
    · exact trc_trans (trc_doActs cfg s rest) (trc_frames cfg _)
    · exact trc_doActs cfg s rest

theorem trc_afterSub (cfg : Cfg) (s : State) (k : SubK) : TrC s (afterSub cfg s k) := by
  cases k with
  | run => exact trc_recvLoop s
  | pub k => exact trc_afterPub cfg s k

theorem trc_resume (cfg : Cfg) (s : State) (w : Who) : TrC s (resume cfg s w) := by
  cases w with
  | init => exact trc_quiet rfl rfl
  | run => exact trc_runTop s
  | pub k =>
    simp only [resume]
    split
    · have := trc_afterPub cfg (subLoop s (.pub k) (sortBytes s.subs)).1 k
      unfold TrC at *; rw [this, subLoop_delivered]
    · exact trc_quiet (subLoop_delivered _ _ _) rfl

theorem trc_doAuth (cfg : Cfg) (s : State) (w : Who) (b : Bytes) : TrC s (doAuth cfg s w b) := by
  unfold doAuth
  simp only
  split
  · have := trc_retry { s with ubuf := s.ubuf ++ b, fed := s.fed ++ b } w
    unfold TrC at *; exact this
  · have := trc_retry { s with ubuf := s.ubuf ++ b, fed := s.fed ++ b } w
    unfold TrC at *; exact this
  · split
    · split
      · exact trc_quiet rfl rfl
      · exact trc_quiet rfl rfl
    · rename_i ml op _ _
      have := trc_retry { s with ubuf := (popFrame (s.ubuf ++ b) ml op).2, fed := s.fed ++ b,
                                 popped := s.popped ++ [(popFrame (s.ubuf ++ b) ml op).1] } w
      unfold TrC at *; exact this

/-- prepend one output that is not a callback -/
theorem trc_cons {s s0 : State} {r : State × List Out} (o : Out) (ho : cbOut o = none) (hs : s0.delivered = s.delivered)
    (h : TrC s0 r) : TrC s (r.1, o :: r.2) := by
  unfold TrC at *; simp only [List.filterMap_cons, ho]; rw [h, hs]

theorem trc_of_eq {s s0 : State} {r : State × List Out} (hs : s0.delivered = s.delivered) (h : TrC s0 r) : TrC s r := by
  unfold TrC at *; rw [h, hs]

theorem trc_step (cfg : Cfg) (s : State) (e : Ev) : TrC s (step cfg s e) := by
  unfold step
  split
  · exact trc_quiet rfl rfl
  · split
    · exact trc_startConnect s .init
    · exact trc_quiet rfl rfl
    · exact trc_startPublish cfg s _ _ _
    · exact trc_runTop s
    · exact trc_closeSock s
    · exact trc_quiet rfl rfl
    · split
      · exact trc_newSocket _ _ _
      · split
        · exact trc_of_eq (s0 := { s with ubuf := [], fed := [], popped := [] }) rfl (trc_retry _ _)
        · exact trc_retry _ _
    · split
      · exact trc_retry _ _
      · exact trc_doAuth cfg s _ _
    · exact trc_retry _ _
    · exact trc_retry _ _
    · exact trc_retry _ _
    · simp only
      exact trc_cons _ rfl rfl (trc_resume cfg _ _)
    · exact trc_retry _ _
    · exact trc_retry _ _
    · rename_i ch rest k _ _
      simp only
      split
      · have := trc_afterSub cfg (subLoop { s with sent := s.sent ++ [subFrame cfg ch] } k rest).1 k
        exact trc_cons _ rfl (subLoop_delivered { s with sent := s.sent ++ [subFrame cfg ch] } k rest) this
      · exact trc_quiet (subLoop_delivered { s with sent := s.sent ++ [subFrame cfg ch] } k rest) rfl
    · exact trc_of_eq (s0 := { s with connected := false }) rfl (trc_afterSub cfg _ _)
    · exact trc_of_eq (s0 := { s with connected := false }) rfl (trc_afterSub cfg _ _)
    · split
      · exact trc_of_eq (s0 := { s with connected := false }) rfl (trc_afterInner _)
      · rename_i b _ _ _
        exact trc_of_eq (s0 := { s with ubuf := s.ubuf ++ b, fed := s.fed ++ b }) rfl (trc_frames cfg _)
    · exact trc_of_eq (s0 := { s with connected := false }) rfl (trc_afterInner _)
    · exact trc_of_eq (s0 := { s with connected := false }) rfl (trc_afterInner _)
    · exact trc_frames cfg s
    · rename_i k frame _ _
      simp only
      exact trc_cons _ rfl (s0 := { s with sent := s.sent ++ [frame] }) rfl (trc_afterPub cfg _ k)
    · exact trc_of_eq (s0 := { s with connected := false }) rfl (trc_startConnect _ _)
    · exact trc_of_eq (s0 := { s with connected := false }) rfl (trc_startConnect _ _)
    · exact trc_refl s

/-- THE OBSERVABLE FORM: over any event sequence the callbacks that appear in the output — what the harness
    compares with the real message_callback / error_callback invocations — are exactly the ghost log. -/
theorem run_callbacks (cfg : Cfg) (es : List Ev) : (run cfg es).2.filterMap cbOut = (run cfg es).1.delivered := by
  unfold run
  suffices ∀ (acc : State × List Out), acc.2.filterMap cbOut = acc.1.delivered →
      (es.foldl (fun acc e => let r := step cfg acc.1 e; (r.1, acc.2 ++ r.2)) acc).2.filterMap cbOut =
      (es.foldl (fun acc e => let r := step cfg acc.1 e; (r.1, acc.2 ++ r.2)) acc).1.delivered from
    this ({}, []) rfl
  induction es with
  | nil => intro acc h; exact h
  | cons e es ih =>
    intro acc h
    simp only [List.foldl_cons]
    apply ih
    have := trc_step cfg acc.1 e
    unfold TrC at this
    simp only [List.filterMap_append]
    rw [this, h]

end Hpfeeds.BlkClient
