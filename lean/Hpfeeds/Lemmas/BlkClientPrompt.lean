/-
  Nothing is withheld (C12, blocking `Client.run`): whenever run() goes back to recv() after the frames of a read
  were handled — directly, or after a callback's publish() returned, also when that publish had to reconnect and
  resubscribe — the unpacker holds NO complete frame: every complete frame received has been dispatched.
  (Arriving at recv() from the TOP of run()'s outer loop is different: frames that came in the same recv() as
  OP_INFO are still parked there and are dispatched when the next read completes; the model says so too.)
-/
import Hpfeeds.Lemmas.BlkClient
namespace Hpfeeds.BlkClient
open Hpfeeds Extracted

theorem newSocket_pc (s : State) (i : Nat) (who : Who) : (newSocket s i who).1.pc = .connecting i who := rfl
theorem startConnect_pc (s : State) (who : Who) : (startConnect s who).1.pc = .connecting 0 who := rfl
theorem retry_pc (s : State) (who : Who) : (retry s who).1.pc = .connecting 0 who := rfl

theorem afterInner_pc (s : State) : (afterInner s).1.pc ≠ .runRecv := by
  unfold afterInner
  split
  · intro h; cases h
  · split
    · intro h; cases h
    · rw [startConnect_pc]; intro h; cases h

/-- recv() is reached with the buffer as it was -/
theorem recvLoop_recv (s : State) (h : (recvLoop s).1.pc = .runRecv) : (recvLoop s).1.ubuf = s.ubuf := by
  unfold recvLoop at h ⊢
  split
  · split
    · rfl
    · rename_i h1 h2
      simp only [h1, h2, if_true] at h
      exact absurd h (afterInner_pc _)
  · rename_i h1
    simp only [h1] at h
    exact absurd h (afterInner_pc _)

theorem startPublish_pc (cfg : Cfg) (s : State) (k : PubK) (ch p : Bytes) : (startPublish cfg s k ch p).1.pc ≠ .runRecv := by
  unfold startPublish
  split
  · intro h; cases h
  · rw [startConnect_pc]; intro h; cases h

/-- a callback that blocks does so inside publish(): in sendall, or connecting -/
theorem doActs_blocked_pc (cfg : Cfg) (s : State) (acts : List Act) (h : (doActs cfg s acts).2.2 = false) :
    (doActs cfg s acts).1.pc ≠ .runRecv := by
  induction acts generalizing s with
  | nil => simp [doActs] at h
  | cons a r ih =>
    cases a with
    | stop => simp only [doActs] at h ⊢; exact ih _ h
    | sub ch => simp only [doActs] at h ⊢; exact ih _ h
    | pub ch p => simp only [doActs]; exact startPublish_pc cfg s (.cb r) ch p

/-- the frame loop ends normally only at an incomplete frame; when a callback blocked, run() is not at recv() -/
theorem frameLoop_ends (cfg : Cfg) (s : State) :
    ((frameLoop cfg s).2.2 = .done → header (frameLoop cfg s).1.ubuf = .wait) ∧
    ((frameLoop cfg s).2.2 = .blocked → (frameLoop cfg s).1.pc ≠ .runRecv) := by
  induction hn : s.ubuf.length using Nat.strongRecOn generalizing s with
  | _ n ih =>
    rw [frameLoop]
    split
    · rename_i hh; exact ⟨fun _ => hh, fun h => (by cases h)⟩
    · exact ⟨fun h => (by cases h), fun h => (by cases h)⟩
    · rename_i ml op hh
      have hk := header_ok hh
      have hlt : (popRun s ml op).ubuf.length < n := by
        simp only [popRun, popFrame, List.length_drop]; omega
      simp only
      split
      · split
        · rename_i i c p hrd
          split
          · rename_i hr
            have := ih _ (by rw [doActs_ubuf cfg _ _ hr]; exact hlt) (doActs cfg (noteRun (popRun s ml op) (popFrame s.ubuf ml op).1 (some (.msg (i, c, p)))) (cfg.react (i, c, p))).1 rfl
            exact this
          · rename_i hr
            refine ⟨fun h => (by cases h), fun _ => ?_⟩
            exact doActs_blocked_pc cfg _ _ (by simpa using hr)
        · exact ⟨fun h => (by cases h), fun h => (by cases h)⟩
      · split
        · split
          · rename_i t hrd
            have := ih _ hlt (noteRun (popRun s ml op) (popFrame s.ubuf ml op).1 (some (.err t))) rfl
            exact this
          · exact ⟨fun h => (by cases h), fun h => (by cases h)⟩
        · exact ih _ hlt (noteRun (popRun s ml op) (popFrame s.ubuf ml op).1 none) rfl

/-- after the frames of a read: back at recv() means the unpacker holds no complete frame -/
theorem afterFrames_recv_drained (cfg : Cfg) (s : State)
    (h : (afterFrames cfg (frameLoop cfg s)).1.pc = .runRecv) :
    header (afterFrames cfg (frameLoop cfg s)).1.ubuf = .wait := by
  have he := frameLoop_ends cfg s
  unfold afterFrames at h ⊢
  cases hfl : (frameLoop cfg s).2.2 with
  | blocked =>
    simp only [hfl] at h
    exact absurd h (he.2 hfl)
  | crash => simp only [hfl] at h; cases h
  | disconnect =>
    simp only [hfl] at h
    exact absurd h (afterInner_pc _)
  | done =>
    simp only [hfl] at h ⊢
    split
    · rename_i hst
      simp only [hst, if_true] at h
      exact absurd h (afterInner_pc _)
    · rename_i hst
      simp only [hst] at h
      rw [recvLoop_recv _ h]
      exact he.1 hfl

/-- publish() returns into the callback and the frame loop goes on -/
theorem afterPub_recv_drained (cfg : Cfg) (s : State) (k : PubK) (h : (afterPub cfg s k).1.pc = .runRecv) :
    header (afterPub cfg s k).1.ubuf = .wait := by
  cases k with
  | idle => simp [afterPub] at h
  | cb rest =>
    simp only [afterPub] at h ⊢
    split
    · rename_i hr
      simp only [hr, if_true] at h
      exact afterFrames_recv_drained cfg _ h
    · rename_i hr
      simp only [hr] at h
      exact absurd h (doActs_blocked_pc cfg s rest (by simpa using hr))

end Hpfeeds.BlkClient

namespace Hpfeeds.BlkClient
open Hpfeeds Extracted

theorem doAuth_pc (cfg : Cfg) (s : State) (who : Who) (b : Bytes) : (doAuth cfg s who b).1.pc ≠ .runRecv := by
  unfold doAuth
  simp only
  split
  · rw [retry_pc]; intro h; cases h
  · rw [retry_pc]; intro h; cases h
  · split
    · split
      · intro h; cases h
      · intro h; cases h
    · rw [retry_pc]; intro h; cases h

/-- `_subscribe` that stops before the end of the list is blocked in a sendall -/
theorem subLoop_blocked_pc (s : State) (k : SubK) (chs : List Bytes) (h : (subLoop s k chs).2 = false) :
    (subLoop s k chs).1.pc ≠ .runRecv := by
  cases chs with
  | nil => simp [subLoop] at h
  | cons ch rest =>
    simp only [subLoop] at h ⊢
    split
    · intro h'; cases h'
    · rename_i hu; simp [hu] at h

/-- run() arrives at recv() from the TOP of its outer loop: it has just been called, or has just (re)connected and
    sent its subscriptions -/
def LoopTop (s : State) : Prop :=
  s.pc = .idle ∨ (∃ rand, s.pc = .authSend .run rand) ∨ (∃ ch rest, s.pc = .subSend ch rest .run)

theorem afterSub_recv (cfg : Cfg) (s : State) (k : SubK) (h : (afterSub cfg s k).1.pc = .runRecv) :
    header (afterSub cfg s k).1.ubuf = .wait ∨ k = .run := by
  cases k with
  | run => exact Or.inr rfl
  | pub k' => exact Or.inl (afterPub_recv_drained cfg s k' h)

/-- **How run() gets to recv().**  For ANY state and ANY event after which the client is blocked in run()'s recv():
    the unpacker holds no complete frame — or run() came from the top of its outer loop — or it was in recv()
    already and nothing was fed. -/
theorem recv_entry (cfg : Cfg) (s : State) (e : Ev) :
    (step cfg s e).1.pc = .runRecv →
      header (step cfg s e).1.ubuf = .wait ∨ LoopTop s ∨ (s.pc = .runRecv ∧ (step cfg s e).1.ubuf = s.ubuf) := by
  unfold step
  split
  · intro h; exact Or.inr (Or.inr ⟨h, rfl⟩)
  · split
    · rw [startConnect_pc]; intro h; cases h
    · rename_i hpc _; intro _; exact Or.inr (Or.inl (Or.inl hpc))
    · rename_i hpc _; intro _; exact Or.inr (Or.inl (Or.inl hpc))
    · rename_i hpc _; intro _; exact Or.inr (Or.inl (Or.inl hpc))
    · rename_i hpc _; intro _; exact Or.inr (Or.inl (Or.inl hpc))
    · intro h; cases h
    · split
      · rw [newSocket_pc]; intro h; cases h
      · split
        · rw [retry_pc]; intro h; cases h
        · rw [retry_pc]; intro h; cases h
    · split
      · rw [retry_pc]; intro h; cases h
      · intro h; exact absurd h (doAuth_pc cfg s _ _)
    · rw [retry_pc]; intro h; cases h
    · rw [retry_pc]; intro h; cases h
    · rw [retry_pc]; intro h; cases h
    · -- do_auth returns: resume
      rename_i who rand hpc _
      simp only
      cases who with
      | init => simp only [resume]; intro h; cases h
      | run => intro _; exact Or.inr (Or.inl (Or.inr (Or.inl ⟨rand, hpc⟩)))
      | pub k =>
        simp only [resume]
        split
        · intro h; exact Or.inl (afterPub_recv_drained cfg _ k h)
        · rename_i hr; intro h; exact absurd h (subLoop_blocked_pc _ _ _ (by simpa using hr))
    · rw [retry_pc]; intro h; cases h
    · rw [retry_pc]; intro h; cases h
    · -- _subscribe: a SUBSCRIBE was delivered
      rename_i ch rest k hpc _
      simp only
      split
      · intro h
        rcases afterSub_recv cfg _ k h with h1 | h1
        · exact Or.inl h1
        · exact Or.inr (Or.inl (Or.inr (Or.inr ⟨ch, rest, by rw [hpc, h1]⟩)))
      · rename_i hr; intro h; exact absurd h (subLoop_blocked_pc _ _ _ (by simpa using hr))
    · rename_i ch rest k hpc _
      intro h
      rcases afterSub_recv cfg _ k h with h1 | h1
      · exact Or.inl h1
      · exact Or.inr (Or.inl (Or.inr (Or.inr ⟨ch, rest, by rw [hpc, h1]⟩)))
    · rename_i ch rest k hpc _
      intro h
      rcases afterSub_recv cfg _ k h with h1 | h1
      · exact Or.inl h1
      · exact Or.inr (Or.inl (Or.inr (Or.inr ⟨ch, rest, by rw [hpc, h1]⟩)))
    · split
      · intro h; exact absurd h (afterInner_pc _)
      · intro h; exact Or.inl (afterFrames_recv_drained cfg _ h)
    · intro h; exact absurd h (afterInner_pc _)
    · intro h; exact absurd h (afterInner_pc _)
    · intro h; exact Or.inl (afterFrames_recv_drained cfg _ h)
    · simp only; intro h; exact Or.inl (afterPub_recv_drained cfg _ _ h)
    · rw [startConnect_pc]; intro h; cases h
    · rw [startConnect_pc]; intro h; cases h
    · intro h; exact Or.inr (Or.inr ⟨h, rfl⟩)

end Hpfeeds.BlkClient
