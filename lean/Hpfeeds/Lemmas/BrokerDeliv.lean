/-
  The delivery invariant of the broker model, for every reachable state:
  * the PUBLISH frames written to a connection are exactly, in order, the accepted publishes that
    list it as a recipient;
  * every accepted publish was written to exactly the connections that were subscribed to the channel
    and open at that moment, once each; the sender was authenticated as the ident it names and the
    channel was on its publish list; every recipient had passed the subscribe ACL for the channel;
  * a closing connection has received no PUBLISH since it began closing;
  * an active subscription was granted by the ACL, or the connection is closing.
-/
import Hpfeeds.Lemmas.BrokerMono
namespace Hpfeeds.Broker
open Hpfeeds Extracted

def frameOf (a : Accepted) : Frame := pubFrame a.ident a.chan a.payload

/-- the frames the accepted log says connection `c` should have received, in order -/
def delivered (acc : List Accepted) (c : Nat) : List Frame :=
  acc.filterMap fun a => if c ∈ a.recips then some (frameOf a) else none

structure ConnOK (x : Conn) : Prop where
  atClose : x.closing = true → x.pubsAtClose = some (pubFrames x.out)
  granted : ∀ ch ∈ x.active, ch ∈ x.granted ∨ x.closing = true

structure AccOK (a : Accepted) : Prop where
  nodup : a.recips.Nodup
  exact : ∀ d, d ∈ a.recips ↔ d ∈ a.entitled
  granted : a.grantedOk = true
  ident : a.srcAk = some a.ident
  chan : a.chan ∈ a.srcPubchans

/-- the delivery invariant, parametric in what is recorded about every accepted publish (`A`): `AccOK` for the
    fault-free broker, `AccOKF` (Lemmas/BrokerFault) when destinations' transports may refuse writes -/
structure DelivW (A : Accepted → Prop) (s : State) : Prop where
  log : ∀ c x, s.conn c = some x → pubFrames x.out = delivered s.accepted c
  conn : ∀ c x, s.conn c = some x → ConnOK x
  acc : ∀ a ∈ s.accepted, A a
  recips_exist : ∀ a ∈ s.accepted, ∀ d ∈ a.recips, (s.conn d).isSome = true

abbrev Deliv (s : State) : Prop := DelivW AccOK s

theorem deliv_init : Deliv init := by
  constructor <;> simp [init]

theorem pubFrames_append_nonPub (o : List (Nat × Act)) (t : Nat) (a : Act) (h : NonPub a) :
    pubFrames (o ++ [(t, a)]) = pubFrames o := by
  unfold pubFrames
  rw [List.filterMap_append]
  cases a with
  | write f => simp [h f rfl]
  | _ => simp

theorem pubFrame_op (i ch p : Bytes) : (pubFrame i ch p).op.toNat = OP_PUBLISH := by
  show (UInt8.ofNat OP_PUBLISH).toNat = OP_PUBLISH
  decide

theorem pubFrames_append_pub (o : List (Nat × Act)) (t : Nat) (i ch p : Bytes) :
    pubFrames (o ++ [(t, .write (pubFrame i ch p))]) = pubFrames o ++ [pubFrame i ch p] := by
  unfold pubFrames
  rw [List.filterMap_append]
  simp [pubFrame_op]

/-- a state change that keeps `accepted`, creates no connection, and maps each record to one with the
    same PUBLISH frames that is still `ConnOK` -/
theorem deliv_of_conn {A : Accepted → Prop} {s s' : State} (hacc : s'.accepted = s.accepted)
    (hc : ∀ d y', s'.conn d = some y' → ∃ y, s.conn d = some y ∧ pubFrames y'.out = pubFrames y.out ∧
      (ConnOK y → ConnOK y'))
    (hex : ∀ d, (s.conn d).isSome = true → (s'.conn d).isSome = true)
    (h : DelivW A s) : DelivW A s' := by
  constructor
  · intro c x' hx'
    obtain ⟨x, hx, hp, _⟩ := hc c x' hx'
    rw [hp, hacc]; exact h.log c x hx
  · intro c x' hx'
    obtain ⟨x, hx, _, hk⟩ := hc c x' hx'
    exact hk (h.conn c x hx)
  · rw [hacc]; exact h.acc
  · rw [hacc]; intro a ha d hd; exact hex d (h.recips_exist a ha d hd)

theorem deliv_upd {A : Accepted → Prop} {s : State} (c : Nat) (f : Conn → Conn)
    (hf : ∀ x, pubFrames (f x).out = pubFrames x.out ∧ (ConnOK x → ConnOK (f x))) (h : DelivW A s) :
    DelivW A (s.upd c f) := by
  refine deliv_of_conn (s := s) (s' := s.upd c f) rfl ?_ ?_ h
  · intro d y' hy'
    simp only [upd_conn] at hy'
    by_cases hd : d = c
    · subst hd
      cases hx : s.conn d with
      | none => simp [hx] at hy'
      | some x => simp [hx] at hy'; subst hy'; exact ⟨x, rfl, (hf x).1, (hf x).2⟩
    · simp only [hd, if_false] at hy'; exact ⟨y', hy', rfl, id⟩
  · intro d hd
    simp only [upd_conn]
    by_cases hdc : d = c
    · subst hdc; simpa using hd
    · simpa [hdc] using hd

theorem deliv_logAct {A : Accepted → Prop} {s : State} (c : Nat) (a : Act) (ha : NonPub a) (h : DelivW A s) : DelivW A (logAct s c a) := by
  refine deliv_upd c _ (fun x => ?_) h
  have hp := pubFrames_append_nonPub x.out s.now a ha
  exact ⟨hp, fun k => ⟨fun hc => by simp only; rw [hp]; exact k.atClose hc, k.granted⟩⟩

theorem connOK_beginClose (x : Conn) (k : ConnOK x) : ConnOK x.beginClose := by
  unfold Conn.beginClose
  split
  · exact k
  · exact ⟨fun _ => rfl, fun ch hch => Or.inr rfl⟩

theorem beginClose_out (x : Conn) : x.beginClose.out = x.out := by
  unfold Conn.beginClose; split <;> rfl

theorem deliv_closeT {A : Accepted → Prop} {s : State} (c : Nat) (h : DelivW A s) : DelivW A (closeT s c) := by
  refine deliv_upd c _ (fun x => ?_) h
  by_cases hc : x.closing = true
  · rw [if_pos hc]; exact ⟨rfl, id⟩
  · rw [if_neg hc]
    have hc' : x.closing = false := by simpa using hc
    have hp : pubFrames (x.out ++ [(s.now, Act.close)]) = pubFrames x.out :=
      pubFrames_append_nonPub _ _ _ (by intro f hf; cases hf)
    refine ⟨hp, fun _ => ⟨fun _ => ?_, fun ch _ => Or.inr ?_⟩⟩
    · show x.beginClose.pubsAtClose = some (pubFrames (x.out ++ [(s.now, Act.close)]))
      rw [hp]; simp [Conn.beginClose, hc']
    · show x.beginClose.closing = true
      simp [Conn.beginClose, hc']

theorem deliv_errorClose {A : Accepted → Prop} {s : State} (c : Nat) (h : DelivW A s) : DelivW A (errorClose s c) :=
  deliv_closeT c (deliv_logAct c _ nonPub_err h)

theorem deliv_beginClose {A : Accepted → Prop} {s : State} (c : Nat) (h : DelivW A s) : DelivW A (s.upd c Conn.beginClose) :=
  deliv_upd c _ (fun x => ⟨by rw [beginClose_out], connOK_beginClose x⟩) h

theorem deliv_crashClose {A : Accepted → Prop} {s : State} (c : Nat) (h : DelivW A s) : DelivW A (crashClose s c) :=
  deliv_beginClose c (deliv_logAct c _ (by intro f hf; cases hf) h)

theorem deliv_peerClose {A : Accepted → Prop} {s : State} (c : Nat) (h : DelivW A s) : DelivW A (peerClose s c) := by
  unfold peerClose
  split
  · exact h
  · split
    · exact h
    · exact deliv_beginClose c (deliv_logAct c _ (by intro f hf; cases hf) h)

/-- a field update that touches neither `out`, `closing`, `pubsAtClose`, `active` nor `granted` -/
theorem deliv_local {A : Accepted → Prop} {s : State} (c : Nat) (f : Conn → Conn)
    (hf : ∀ x, (f x).out = x.out ∧ (f x).closing = x.closing ∧ (f x).pubsAtClose = x.pubsAtClose ∧
      (f x).active = x.active ∧ (f x).granted = x.granted) (h : DelivW A s) : DelivW A (s.upd c f) := by
  refine deliv_upd c f (fun x => ?_) h
  obtain ⟨a, b, c', d, e⟩ := hf x
  exact ⟨by rw [a], fun k => ⟨by rw [b, c', a]; exact k.atClose, by rw [d, e, b]; exact k.granted⟩⟩

theorem deliv_pauseReading {A : Accepted → Prop} {s : State} (c : Nat) (h : DelivW A s) : DelivW A (pauseReading s c) := by
  unfold pauseReading
  split
  · split
    · exact h
    · exact deliv_logAct c _ (by intro f hf; cases hf) (deliv_local c _ (fun _ => ⟨rfl, rfl, rfl, rfl, rfl⟩) h)
  · exact h

theorem deliv_resumeReading {A : Accepted → Prop} {s : State} (c : Nat) (h : DelivW A s) : DelivW A (resumeReading s c) := by
  unfold resumeReading
  split
  · split
    · exact h
    · exact deliv_logAct c _ (by intro f hf; cases hf) (deliv_local c _ (fun _ => ⟨rfl, rfl, rfl, rfl, rfl⟩) h)
  · exact h

theorem deliv_congr {A : Accepted → Prop} {s s' : State} (h1 : s'.conn = s.conn) (h2 : s'.accepted = s.accepted) (h : DelivW A s) :
    DelivW A s' := by
  constructor
  · rw [h1, h2]; exact h.log
  · rw [h1]; exact h.conn
  · rw [h2]; exact h.acc
  · rw [h1, h2]; exact h.recips_exist

theorem deliv_setAuth {A : Accepted → Prop} {s : State} (c : Nat) (i d : Bytes) (row : Row) (h : DelivW A s) :
    DelivW A (setAuth s c i d row) := by
  unfold setAuth
  split
  · exact h
  · exact deliv_local c _ (fun _ => ⟨rfl, rfl, rfl, rfl, rfl⟩) (deliv_congr (s := s) rfl rfl h)

theorem subscribe_accepted (s : State) (c : Nat) (ch : Bytes) : (subscribe s c ch).accepted = s.accepted := by
  unfold subscribe; split
  · rfl
  · split <;> rfl

theorem unsubscribe_accepted (s : State) (c : Nat) (ch : Bytes) : (unsubscribe s c ch).accepted = s.accepted := by
  unfold unsubscribe; split
  · rfl
  · split <;> rfl

theorem unsubscribe_now (s : State) (c : Nat) (ch : Bytes) : (unsubscribe s c ch).now = s.now := by
  unfold unsubscribe; split
  · rfl
  · split <;> rfl

theorem foldl_unsubscribe_accepted (s : State) (c : Nat) (l : List Bytes) :
    (l.foldl (fun s ch => unsubscribe s c ch) s).accepted = s.accepted := by
  induction l generalizing s with
  | nil => rfl
  | cons a l ih => simp only [List.foldl_cons]; rw [ih, unsubscribe_accepted]

theorem foldl_unsubscribe_now (s : State) (c : Nat) (l : List Bytes) :
    (l.foldl (fun s ch => unsubscribe s c ch) s).now = s.now := by
  induction l generalizing s with
  | nil => rfl
  | cons a l ih => simp only [List.foldl_cons]; rw [ih, unsubscribe_now]

theorem connectionLost_accepted (s : State) (c : Nat) : (connectionLost s c).accepted = s.accepted := by
  unfold connectionLost; split
  · rfl
  · rename_i x _
    split
    · exact foldl_unsubscribe_accepted (countLost s x.ak) c x.active
    · rfl

theorem connectionLost_now (s : State) (c : Nat) : (connectionLost s c).now = s.now := by
  unfold connectionLost; split
  · rfl
  · rename_i x _
    split
    · exact foldl_unsubscribe_now (countLost s x.ak) c x.active
    · rfl

/-- shrinking `active` / clearing `registered` keeps a record `ConnOK` -/
theorem connOK_shrink {y y' : Conn} (ho : y'.out = y.out) (hc : y'.closing = y.closing)
    (hp : y'.pubsAtClose = y.pubsAtClose) (hg : y'.granted = y.granted)
    (ha : ∀ ch ∈ y'.active, ch ∈ y.active) (k : ConnOK y) : ConnOK y' :=
  ⟨by rw [hc, hp, ho]; exact k.atClose, fun ch hch => by rw [hg, hc]; exact k.granted ch (ha ch hch)⟩

theorem deliv_unsubscribe {A : Accepted → Prop} {s : State} (c : Nat) (ch : Bytes) (h : DelivW A s) : DelivW A (unsubscribe s c ch) := by
  refine deliv_of_conn (unsubscribe_accepted s c ch) ?_ ?_ h
  · intro d y' hy'
    by_cases hd : d = c
    · subst hd
      cases hx : s.conn d with
      | none => rw [unsubscribe_none hx, hx] at hy'; cases hy'
      | some x =>
        rw [unsubscribe_conn hx] at hy'; cases hy'
        exact ⟨x, rfl, rfl, connOK_shrink rfl rfl rfl rfl (fun ch' h' => List.mem_of_mem_erase h')⟩
    · rw [unsubscribe_conn_ne hd] at hy'; exact ⟨y', hy', rfl, id⟩
  · intro d hd
    by_cases hdc : d = c
    · subst hdc
      cases hx : s.conn d with
      | none => rw [hx] at hd; cases hd
      | some x => rw [unsubscribe_conn hx]; rfl
    · rw [unsubscribe_conn_ne hdc]; exact hd

theorem deliv_connectionLost {A : Accepted → Prop} {s : State} (c : Nat) (h : DelivW A s) : DelivW A (connectionLost s c) := by
  refine deliv_of_conn (connectionLost_accepted s c) ?_ ?_ h
  · intro d y' hy'
    by_cases hd : d = c
    · subst hd
      cases hx : s.conn d with
      | none =>
        have : connectionLost s d = s := by unfold connectionLost; rw [hx]
        rw [this, hx] at hy'; cases hy'
      | some x =>
        obtain ⟨l, hsub, hl | ⟨hl, _⟩⟩ := connectionLost_conn' hx
        · rw [hl] at hy'; cases hy'
          exact ⟨x, rfl, rfl, connOK_shrink rfl rfl rfl rfl hsub⟩
        · rw [hl] at hy'; exact ⟨x, rfl, by cases hy'; rfl, by cases hy'; exact id⟩
    · rw [connectionLost_conn_ne hd] at hy'; exact ⟨y', hy', rfl, id⟩
  · intro d hd
    cases hx : s.conn d with
    | none => rw [hx] at hd; cases hd
    | some x =>
      obtain ⟨y', hy', _⟩ := mono_connectionLost s c d x hx
      rw [hy']; rfl

theorem deliv_doUnsubscribe {A : Accepted → Prop} {s : State} (c : Nat) (ch : Bytes) (h : DelivW A s) : DelivW A (doUnsubscribe s c ch) :=
  deliv_local c _ (fun _ => ⟨rfl, rfl, rfl, rfl, rfl⟩) (deliv_unsubscribe c ch h)

theorem deliv_doSubscribe {A : Accepted → Prop} {s : State} (c : Nat) (ch : Bytes) (ok : Bool) (x : Conn) (hx : s.conn c = some x)
    (hok : ok = false → x.closing = true) (h : DelivW A s) : DelivW A (doSubscribe s c ch ok) := by
  unfold doSubscribe noteSub
  refine deliv_of_conn (s := s) (subscribe_accepted s c ch) ?_ ?_ h
  · intro d y' hy'
    simp only [upd_conn] at hy'
    by_cases hd : d = c
    · subst hd
      simp only [if_true, subscribe_conn hx, Option.map_some, Option.some.injEq] at hy'
      refine ⟨x, hx, by rw [← hy'], fun k => ?_⟩
      rw [← hy']
      refine ⟨k.atClose, ?_⟩
      intro ch' hch'
      simp only at hch' ⊢
      have : ch' ∈ x.active ∨ ch' = ch := by
        split at hch'
        · exact Or.inl hch'
        · simp at hch'; exact hch'
      rcases this with h1 | h1
      · rcases k.granted ch' h1 with h2 | h2
        · left; split
          · simp [h2]
          · exact h2
        · exact Or.inr h2
      · subst h1
        cases ok with
        | false => exact Or.inr (hok rfl)
        | true =>
          left
          by_cases hg : ch' ∈ x.granted
          · simp [hg]
          · simp [hg]
    · simp only [hd, if_false, subscribe_conn_ne hd] at hy'; exact ⟨y', hy', rfl, id⟩
  · intro d hd
    simp only [upd_conn]
    by_cases hdc : d = c
    · subst hdc; simp [subscribe_conn hx]
    · simp [hdc, subscribe_conn_ne hdc]; exact hd

theorem deliv_markGone {A : Accepted → Prop} {s : State} (c : Nat) (h : DelivW A s) : DelivW A (markGone s c) :=
  deliv_local c _ (fun _ => ⟨rfl, rfl, rfl, rfl, rfl⟩) (deliv_peerClose c h)

theorem deliv_lostConn {A : Accepted → Prop} {s : State} (c : Nat) (h : DelivW A s) : DelivW A (lostConn s c) :=
  deliv_markGone c (deliv_connectionLost c h)

theorem deliv_addConn {A : Accepted → Prop} {cfg : Cfg} {s : State} (c : Nat) (n : Bytes) (hc : s.conn c = none) (h : DelivW A s) :
    DelivW A (addConn cfg s c n) := by
  have hnew : delivered s.accepted c = [] := by
    unfold delivered
    rw [List.filterMap_eq_nil_iff]
    intro a ha
    have : c ∉ a.recips := fun hm => by
      have := h.recips_exist a ha c hm
      rw [hc] at this; cases this
    simp [this]
  constructor
  · intro d y hy
    simp only [addConn] at hy ⊢
    by_cases hd : d = c
    · subst hd
      simp only [if_true, Option.some.injEq] at hy
      rw [← hy, hnew]
      simp [pubFrames, OP_INFO, OP_PUBLISH]
    · simp only [hd, if_false] at hy; exact h.log d y hy
  · intro d y hy
    simp only [addConn] at hy
    by_cases hd : d = c
    · subst hd
      simp only [if_true, Option.some.injEq] at hy
      rw [← hy]
      exact ⟨by simp, by simp⟩
    · simp only [hd, if_false] at hy; exact h.conn d y hy
  · exact h.acc
  · intro a ha d hd
    simp only [addConn]
    by_cases hdc : d = c
    · simp [hdc]
    · simp only [hdc, if_false]; exact h.recips_exist a ha d hd

/-- what `Server.publish` can do to a record: append to its log, or (if it is closing) forget it;
    every other field is untouched -/
structure DRel (y y' : Conn) (extra : List (Nat × Act)) : Prop where
  eq : y' = { y with out := y.out ++ extra, active := y'.active, registered := y'.registered,
                      lostAs := y'.lostAs }
  active : ∀ ch ∈ y'.active, ch ∈ y.active
  reg : (y'.registered = y.registered ∧ y'.active = y.active) ∨ (y.closing = true ∧ y'.registered = false)

theorem DRel.closing {y y' : Conn} {e} (h : DRel y y' e) : y'.closing = y.closing := by rw [h.eq]
theorem DRel.granted {y y' : Conn} {e} (h : DRel y y' e) : y'.granted = y.granted := by rw [h.eq]
theorem DRel.pubsAtClose {y y' : Conn} {e} (h : DRel y y' e) : y'.pubsAtClose = y.pubsAtClose := by rw [h.eq]
theorem DRel.out {y y' : Conn} {e} (h : DRel y y' e) : y'.out = y.out ++ e := by rw [h.eq]

theorem DRel.refl (y : Conn) : DRel y y [] := ⟨by simp, fun _ h => h, Or.inl ⟨rfl, rfl⟩⟩

theorem DRel.trans {a b c : Conn} {e1 e2 : List (Nat × Act)} (h1 : DRel a b e1) (h2 : DRel b c e2) :
    DRel a c (e1 ++ e2) := by
  refine ⟨?_, fun ch h => h1.active ch (h2.active ch h), ?_⟩
  · have e2' := h2.eq
    rw [h1.eq] at e2'
    rw [e2']
    simp [List.append_assoc]
  · rcases h2.reg with ⟨h, ha⟩ | ⟨h, h'⟩
    · rw [h, ha]; exact h1.reg
    · right; rw [h1.closing] at h; exact ⟨h, h'⟩

/-- one iteration of the loop in `Server.publish` -/
theorem deliver_spec (f : Frame) (s : State) (a : Nat) :
    (deliver f s a).accepted = s.accepted ∧ (deliver f s a).now = s.now ∧
    (∀ d y, s.conn d = some y → ∃ y', (deliver f s a).conn d = some y' ∧
      DRel y y' (if d = a ∧ y.closing = false then [(s.now, .write f)] else [])) ∧
    (∀ d, s.conn d = none → (deliver f s a).conn d = none) := by
  unfold deliver
  cases ha : s.conn a with
  | none =>
    simp only
    refine ⟨trivial, trivial, fun d y hy => ⟨y, hy, ?_⟩, fun d hd => hd⟩
    have : ¬ (d = a ∧ y.closing = false) := by rintro ⟨rfl, _⟩; rw [ha] at hy; cases hy
    rw [if_neg this]; exact DRel.refl y
  | some x =>
    simp only
    by_cases hc : x.closing = true
    · rw [if_pos hc]
      refine ⟨connectionLost_accepted s a, connectionLost_now s a, fun d y hy => ?_, fun d hd => ?_⟩
      · have hne : ¬ (d = a ∧ y.closing = false) := by
          rintro ⟨rfl, h2⟩; rw [ha] at hy; cases hy; rw [hc] at h2; cases h2
        rw [if_neg hne]
        by_cases hd : d = a
        · subst hd
          rw [ha] at hy; cases hy
          obtain ⟨l, hsub, hl | ⟨hl, _⟩⟩ := connectionLost_conn' ha
          · exact ⟨_, hl, ⟨by simp, hsub, Or.inr ⟨hc, rfl⟩⟩⟩
          · exact ⟨_, hl, DRel.refl _⟩
        · exact ⟨y, by rw [connectionLost_conn_ne hd]; exact hy, DRel.refl y⟩
      · have hd' : d ≠ a := by rintro rfl; rw [ha] at hd; cases hd
        rw [connectionLost_conn_ne hd']; exact hd
    · rw [if_neg hc]
      have hc' : x.closing = false := by simpa using hc
      refine ⟨rfl, rfl, fun d y hy => ?_, fun d hd => ?_⟩
      · by_cases hd : d = a
        · subst hd
          rw [ha] at hy; cases hy
          rw [if_pos ⟨rfl, hc'⟩]
          exact ⟨_, logAct_conn_self ha, ⟨rfl, fun _ h => h, Or.inl ⟨rfl, rfl⟩⟩⟩
        · have : ¬ (d = a ∧ y.closing = false) := fun h => hd h.1
          rw [if_neg this]
          exact ⟨y, by simp [logAct, hd, hy], DRel.refl y⟩
      · have hd' : d ≠ a := by rintro rfl; rw [ha] at hd; cases hd
        simp [logAct, hd', hd]

theorem foldl_deliver_spec (f : Frame) (l : List Nat) (hnd : l.Nodup) (s : State) :
    (l.foldl (deliver f) s).accepted = s.accepted ∧ (l.foldl (deliver f) s).now = s.now ∧
    (∀ d y, s.conn d = some y → ∃ y', (l.foldl (deliver f) s).conn d = some y' ∧
      DRel y y' (if d ∈ l ∧ y.closing = false then [(s.now, .write f)] else [])) ∧
    (∀ d, s.conn d = none → (l.foldl (deliver f) s).conn d = none) := by
  induction l generalizing s with
  | nil =>
    refine ⟨rfl, rfl, fun d y hy => ⟨y, hy, ?_⟩, fun d hd => hd⟩
    simp only [List.not_mem_nil, false_and, if_false]; exact DRel.refl y
  | cons a l ih =>
    obtain ⟨s1a, s1n, s1c, s1e⟩ := deliver_spec f s a
    have hnd' := (List.nodup_cons.mp hnd)
    obtain ⟨i1, i2, i3, i4⟩ := ih hnd'.2 (deliver f s a)
    simp only [List.foldl_cons]
    refine ⟨by rw [i1, s1a], by rw [i2, s1n], fun d y hy => ?_, fun d hd => i4 d (s1e d hd)⟩
    obtain ⟨y1, hy1, r1⟩ := s1c d y hy
    obtain ⟨y2, hy2, r2⟩ := i3 d y1 hy1
    refine ⟨y2, hy2, ?_⟩
    have := r1.trans r2
    rw [s1n, r1.closing] at this
    have e : (if d ∈ a :: l ∧ y.closing = false then [(s.now, Act.write f)] else []) =
        (if d = a ∧ y.closing = false then [(s.now, Act.write f)] else []) ++
        (if d ∈ l ∧ y.closing = false then [(s.now, Act.write f)] else []) := by
      by_cases hc : y.closing = false
      · by_cases hda : d = a
        · subst hda
          have : d ∉ l := hnd'.1
          simp [hc, this]
        · simp [hc, hda]
      · simp [hc]
    rw [e]; exact this

theorem nodup_eraseDups (l : List Nat) : l.eraseDups.Nodup := by
  induction hn : l.length using Nat.strongRecOn generalizing l with
  | _ n ih =>
    cases l with
    | nil => simp
    | cons a as =>
      rw [List.eraseDups_cons]
      refine List.nodup_cons.mpr ⟨?_, ?_⟩
      · rw [List.mem_eraseDups]; simp
      · exact ih (as.filter fun b => !b == a).length
          (by subst hn; simp only [List.length_cons]; exact Nat.lt_succ_of_le (List.length_filter_le _ _)) _ rfl

/-- the recipients of a publish, as computed by the model -/
def recipsOf (s : State) (ch : Bytes) : List Nat :=
  (s.subs ch).eraseDups.filter fun d => match s.conn d with | some y => !y.closing | none => false

theorem mem_recipsOf {s : State} {ch : Bytes} {d : Nat} (hr : Reg s) :
    d ∈ recipsOf s ch ↔ ∃ y, s.conn d = some y ∧ ch ∈ y.active ∧ y.closing = false := by
  unfold recipsOf
  rw [List.mem_filter, List.mem_eraseDups, hr.sub_iff]
  constructor
  · rintro ⟨⟨y, hy, hm⟩, hc⟩
    rw [hy] at hc
    exact ⟨y, hy, hm, by simpa using hc⟩
  · rintro ⟨y, hy, hm, hc⟩
    exact ⟨⟨y, hy, hm⟩, by rw [hy]; simp [hc]⟩

theorem mem_entitled {s : State} {ch : Bytes} {d : Nat} (hr : Reg s) :
    d ∈ s.ids.filter (isOpenSub s ch) ↔ ∃ y, s.conn d = some y ∧ ch ∈ y.active ∧ y.closing = false := by
  rw [List.mem_filter, hr.ids_iff]
  unfold isOpenSub
  constructor
  · rintro ⟨hs, ho⟩
    cases hy : s.conn d with
    | none => rw [hy] at hs; cases hs
    | some y => rw [hy] at ho; simp at ho; exact ⟨y, rfl, ho.1, ho.2⟩
  · rintro ⟨y, hy, hm, hc⟩
    rw [hy]; simp [hm, hc]

theorem delivered_append (acc : List Accepted) (a : Accepted) (c : Nat) :
    delivered (acc ++ [a]) c = delivered acc c ++ (if c ∈ a.recips then [frameOf a] else []) := by
  unfold delivered
  rw [List.filterMap_append]
  congr 1
  by_cases h : c ∈ a.recips <;> simp [h]

/-- `Server.publish`, called where the model calls it -/
theorem deliv_publish {s : State} (c : Nat) (x : Conn) (i ch p : Bytes)
    (hak : x.ak = some i) (hch : ch ∈ x.pubchans) (hr : Reg s) (h : Deliv s) :
    Deliv (publish s c x i ch p) := by
  obtain ⟨fa, fn, fc, fe⟩ := foldl_deliver_spec (pubFrame i ch p) (s.subs ch).eraseDups
    (nodup_eraseDups _) s
  unfold publish
  simp only
  generalize hs' : (s.subs ch).eraseDups.foldl (deliver (pubFrame i ch p)) s = s' at fa fn fc fe
  have hrec : ∀ d, d ∈ recipsOf s ch ↔ ∃ y, s.conn d = some y ∧ ch ∈ y.active ∧ y.closing = false :=
    fun d => mem_recipsOf hr
  constructor
  · -- the log
    intro d y' hy'
    simp only at hy' ⊢
    cases hy : s.conn d with
    | none => rw [fe d hy] at hy'; cases hy'
    | some y =>
      obtain ⟨y2, hy2, r⟩ := fc d y hy
      rw [hy2] at hy'; cases hy'
      rw [fa, delivered_append, ← h.log d y hy, r.out]
      show _ = _ ++ (if d ∈ recipsOf s ch then [pubFrame i ch p] else [])
      by_cases hm : d ∈ recipsOf s ch
      · obtain ⟨z, hz, hza, hzc⟩ := (hrec d).mp hm
        rw [hy] at hz; cases hz
        have hd : d ∈ (s.subs ch).eraseDups := by
          rw [List.mem_eraseDups, hr.sub_iff]; exact ⟨y, hy, hza⟩
        rw [if_pos ⟨hd, hzc⟩, if_pos hm, pubFrames_append_pub]
      · rw [if_neg hm]
        have : ¬ (d ∈ (s.subs ch).eraseDups ∧ y.closing = false) := by
          rintro ⟨h1, h2⟩
          rw [List.mem_eraseDups, hr.sub_iff] at h1
          obtain ⟨z, hz, hza⟩ := h1
          rw [hy] at hz; cases hz
          exact hm ((hrec d).mpr ⟨y, hy, hza, h2⟩)
        rw [if_neg this]; simp
  · -- every record is still fine
    intro d y' hy'
    simp only at hy'
    cases hy : s.conn d with
    | none => rw [fe d hy] at hy'; cases hy'
    | some y =>
      obtain ⟨y2, hy2, r⟩ := fc d y hy
      rw [hy2] at hy'; cases hy'
      have k := h.conn d y hy
      refine ⟨fun hc => ?_, fun ch' hch' => ?_⟩
      · rw [r.closing] at hc
        rw [r.pubsAtClose, r.out]
        have : ¬ (d ∈ (s.subs ch).eraseDups ∧ y.closing = false) := by
          rintro ⟨_, h2⟩; rw [hc] at h2; cases h2
        rw [if_neg this, List.append_nil]; exact k.atClose hc
      · rw [r.granted, r.closing]; exact k.granted ch' (r.active ch' hch')
  · -- the accepted records
    intro a ha
    simp only at ha
    rw [fa, List.mem_append, List.mem_singleton] at ha
    rcases ha with ha | ha
    · exact h.acc a ha
    · subst ha
      refine ⟨?_, ?_, ?_, hak, hch⟩
      · exact (nodup_eraseDups _).filter _
      · intro d
        show d ∈ recipsOf s ch ↔ d ∈ s.ids.filter (isOpenSub s ch)
        rw [hrec, mem_entitled hr]
      · show (recipsOf s ch).all _ = true
        rw [List.all_eq_true]
        intro d hd
        obtain ⟨y, hy, hya, hyc⟩ := (hrec d).mp hd
        rw [hy]
        rcases (h.conn d y hy).granted ch hya with hg | hg
        · simp [hg]
        · rw [hyc] at hg; cases hg
  · intro a ha d hd
    simp only at ha ⊢
    rw [fa, List.mem_append, List.mem_singleton] at ha
    have hex : ∀ d, (s.conn d).isSome = true → (s'.conn d).isSome = true := by
      intro d hd
      cases hy : s.conn d with
      | none => rw [hy] at hd; cases hd
      | some y => obtain ⟨y2, hy2, _⟩ := fc d y hy; rw [hy2]; rfl
    rcases ha with ha | ha
    · exact hex d (h.recips_exist a ha d hd)
    · subst ha
      obtain ⟨y, hy, _, _⟩ := (hrec d).mp hd
      exact hex d (by rw [hy]; rfl)

/-- registry + delivery invariants together, in every reachable state -/
theorem regDelivPres (cfg : Cfg) : Pres cfg (fun s => Reg s ∧ Deliv s) where
  prim := fun c => {
    logAct := fun _ a ha h => ⟨reg_logAct c a h.1, deliv_logAct c a ha.nonPub h.2⟩
    closeT := fun _ h => ⟨reg_closeT c h.1, deliv_closeT c h.2⟩
    crashClose := fun _ h => ⟨reg_crashClose c h.1, deliv_crashClose c h.2⟩
    doSubscribe := fun _ ch ok x hx hr _ _ b h =>
      ⟨reg_doSubscribe c ch ok x hx hr h.1, deliv_doSubscribe c ch ok x hx b h.2⟩
    doUnsubscribe := fun _ ch _ _ _ _ h => ⟨reg_doUnsubscribe c ch h.1, deliv_doUnsubscribe c ch h.2⟩
    setAuth := fun _ i d row _ _ _ h => ⟨reg_setAuth c i d row h.1, deliv_setAuth c i d row h.2⟩
    pauseReading := fun _ h => ⟨reg_pauseReading c h.1, deliv_pauseReading c h.2⟩
    resumeReading := fun _ h => ⟨reg_resumeReading c h.1, deliv_resumeReading c h.2⟩
    addPending := fun _ _ _ h => ⟨((regPres cfg).prim c).addPending _ _ _ h.1,
      deliv_local c _ (fun _ => ⟨rfl, rfl, rfl, rfl, rfl⟩) h.2⟩
    dropPending := fun _ _ h => ⟨((regPres cfg).prim c).dropPending _ _ h.1,
      deliv_local c _ (fun _ => ⟨rfl, rfl, rfl, rfl, rfl⟩) h.2⟩
    setBuf := fun _ _ h => ⟨((regPres cfg).prim c).setBuf _ _ h.1,
      deliv_local c _ (fun _ => ⟨rfl, rfl, rfl, rfl, rfl⟩) h.2⟩
    publish := fun _ x i ch p _ hak hch _ h =>
      ⟨reg_publish c x i ch p h.1, deliv_publish c x i ch p hak hch h.1 h.2⟩
    addConn := fun _ n hc h => ⟨reg_addConn c n hc h.1, deliv_addConn c n hc h.2⟩
    peerClose := fun _ h => ⟨reg_peerClose c h.1, deliv_peerClose c h.2⟩
    lostConn := fun _ x hx _ h => ⟨reg_lostConn c x hx h.1, deliv_lostConn c h.2⟩
    armDeadline := fun _ h => ⟨((regPres cfg).prim c).armDeadline _ h.1,
      deliv_logAct c _ (by intro f hf; cases hf) (deliv_local c _ (fun _ => ⟨rfl, rfl, rfl, rfl, rfl⟩) h.2)⟩
    clearDeadline := fun _ a ha h => ⟨((regPres cfg).prim c).clearDeadline _ a ha h.1,
      deliv_logAct c a (by intro f hf; rcases ha with rfl | rfl <;> cases hf)
        (deliv_local c _ (fun _ => ⟨rfl, rfl, rfl, rfl, rfl⟩) h.2)⟩ }
  tick := fun s ms h => ⟨(regPres cfg).tick s ms h.1, deliv_congr (s := s) rfl rfl h.2⟩

theorem deliv_run (cfg : Cfg) (es : List Event) : Deliv (run cfg es) :=
  (pres_run (regDelivPres cfg) ⟨reg_init, deliv_init⟩ es).2

end Hpfeeds.Broker
