/-
  Frame facts: an event about connection `c` can change another connection `d` only through
  `Server.publish` — by appending OP_PUBLISH writes to its log (if `d` is open), or by forgetting it
  (if `d` is already closing).  Nothing else of `d` changes.
-/
import Hpfeeds.Lemmas.BrokerRec
namespace Hpfeeds.Broker
open Hpfeeds Extracted

def IsPubWrite (e : Nat × Act) : Prop := ∃ f, e.2 = .write f ∧ f.op.toNat = OP_PUBLISH

/-- how a connection may change during an event that is not about it -/
def OthersRel (y y' : Conn) : Prop :=
  ∃ extra, DRel y y' extra ∧ (∀ e ∈ extra, IsPubWrite e) ∧ (y.closing = true → extra = [])

theorem OthersRel.refl (y : Conn) : OthersRel y y := ⟨[], DRel.refl y, by simp, fun _ => rfl⟩

theorem OthersRel.trans {a b c : Conn} (h1 : OthersRel a b) (h2 : OthersRel b c) : OthersRel a c := by
  obtain ⟨e1, r1, p1, c1⟩ := h1
  obtain ⟨e2, r2, p2, c2⟩ := h2
  refine ⟨e1 ++ e2, r1.trans r2, ?_, ?_⟩
  · intro e he; rw [List.mem_append] at he; rcases he with h | h
    · exact p1 e h
    · exact p2 e h
  · intro hc; rw [c1 hc, c2 (by rw [r1.closing]; exact hc)]; rfl

/-- every connection other than `c` is related to its old record by `OthersRel` -/
def Others (c : Nat) (s s' : State) : Prop :=
  ∀ d, d ≠ c → ∀ y, s.conn d = some y → ∃ y', s'.conn d = some y' ∧ OthersRel y y'

theorem Others.refl (c : Nat) (s : State) : Others c s s := fun _ _ y h => ⟨y, h, OthersRel.refl y⟩

theorem Others.trans {c : Nat} {s1 s2 s3 : State} (h1 : Others c s1 s2) (h2 : Others c s2 s3) :
    Others c s1 s3 := by
  intro d hd y hy
  obtain ⟨y1, hy1, r1⟩ := h1 d hd y hy
  obtain ⟨y2, hy2, r2⟩ := h2 d hd y1 hy1
  exact ⟨y2, hy2, r1.trans r2⟩

/-- a primitive that leaves every other connection's record alone -/
theorem others_of_only {c : Nat} {s s' : State} (h : ∀ d, d ≠ c → s'.conn d = s.conn d) : Others c s s' :=
  fun d hd y hy => ⟨y, by rw [h d hd]; exact hy, OthersRel.refl y⟩

theorem only_upd (s : State) (c : Nat) (f : Conn → Conn) : ∀ d, d ≠ c → (s.upd c f).conn d = s.conn d := by
  intro d hd; simp [hd]

theorem only_logAct (s : State) (c : Nat) (a : Act) : ∀ d, d ≠ c → (logAct s c a).conn d = s.conn d :=
  only_upd s c _

theorem only_closeT (s : State) (c : Nat) : ∀ d, d ≠ c → (closeT s c).conn d = s.conn d := only_upd s c _

theorem only_errorClose (s : State) (c : Nat) : ∀ d, d ≠ c → (errorClose s c).conn d = s.conn d := by
  intro d hd; rw [errorClose, only_closeT _ c d hd, only_logAct s c _ d hd]

theorem only_crashClose (s : State) (c : Nat) : ∀ d, d ≠ c → (crashClose s c).conn d = s.conn d := by
  intro d hd; rw [crashClose, only_upd _ c _ d hd, only_logAct s c _ d hd]

theorem only_peerClose (s : State) (c : Nat) : ∀ d, d ≠ c → (peerClose s c).conn d = s.conn d := by
  intro d hd
  unfold peerClose
  split
  · rfl
  · split
    · rfl
    · rw [only_upd _ c _ d hd, only_logAct s c _ d hd]

theorem only_pauseReading (s : State) (c : Nat) : ∀ d, d ≠ c → (pauseReading s c).conn d = s.conn d := by
  intro d hd
  unfold pauseReading
  split
  · split
    · rfl
    · rw [only_logAct _ c _ d hd, only_upd s c _ d hd]
  · rfl

theorem only_resumeReading (s : State) (c : Nat) : ∀ d, d ≠ c → (resumeReading s c).conn d = s.conn d := by
  intro d hd
  unfold resumeReading
  split
  · split
    · rfl
    · rw [only_logAct _ c _ d hd, only_upd s c _ d hd]
  · rfl

theorem only_setAuth (s : State) (c : Nat) (i dg : Bytes) (row : Row) :
    ∀ d, d ≠ c → (setAuth s c i dg row).conn d = s.conn d := by
  intro d hd
  unfold setAuth
  split
  · rfl
  · rw [only_upd _ c _ d hd]

theorem only_doSubscribe (s : State) (c : Nat) (ch : Bytes) (ok : Bool) :
    ∀ d, d ≠ c → (doSubscribe s c ch ok).conn d = s.conn d := by
  intro d hd
  rw [doSubscribe, noteSub, only_upd _ c _ d hd, subscribe_conn_ne hd]

theorem only_doUnsubscribe (s : State) (c : Nat) (ch : Bytes) :
    ∀ d, d ≠ c → (doUnsubscribe s c ch).conn d = s.conn d := by
  intro d hd
  rw [doUnsubscribe, noteUnsub, only_upd _ c _ d hd, unsubscribe_conn_ne hd]

theorem only_lostConn (s : State) (c : Nat) : ∀ d, d ≠ c → (lostConn s c).conn d = s.conn d := by
  intro d hd
  rw [lostConn, markGone, only_upd _ c _ d hd, only_peerClose _ c d hd, connectionLost_conn_ne hd]

theorem only_addConn (cfg : Cfg) (s : State) (c : Nat) (n : Bytes) :
    ∀ d, d ≠ c → (addConn cfg s c n).conn d = s.conn d := by
  intro d hd; simp [addConn, hd]

theorem only_armDeadline (s : State) (c : Nat) : ∀ d, d ≠ c → (armDeadline s c).conn d = s.conn d := by
  intro d hd; rw [armDeadline, only_logAct _ c _ d hd, only_upd s c _ d hd]

theorem only_clearDeadline (s : State) (c : Nat) (a : Act) :
    ∀ d, d ≠ c → (clearDeadline s c a).conn d = s.conn d := by
  intro d hd; rw [clearDeadline, only_logAct _ c _ d hd, only_upd s c _ d hd]

/-- `Server.publish` relates every record (the publisher's own included) by `OthersRel` -/
theorem publish_othersRel (s : State) (c : Nat) (x : Conn) (i ch p : Bytes) (d : Nat) (y : Conn)
    (hy : s.conn d = some y) : ∃ y', (publish s c x i ch p).conn d = some y' ∧ OthersRel y y' := by
  obtain ⟨_, _, fc, _⟩ := foldl_deliver_spec (pubFrame i ch p) (s.subs ch).eraseDups (nodup_eraseDups _) s
  obtain ⟨y', hy', r⟩ := fc d y hy
  refine ⟨y', hy', _, r, ?_, ?_⟩
  · intro e he
    split at he
    · simp only [List.mem_singleton] at he; subst he
      exact ⟨_, rfl, pubFrame_op i ch p⟩
    · cases he
  · intro hc
    have : ¬ (d ∈ (s.subs ch).eraseDups ∧ y.closing = false) := by
      rintro ⟨_, h2⟩; rw [hc] at h2; cases h2
    rw [if_neg this]

theorem othersPresAt (cfg : Cfg) (c : Nat) (s0 : State) : PresAt cfg c (Others c s0) where
  logAct := fun s a _ h => h.trans (others_of_only (only_logAct s c a))
  closeT := fun s h => h.trans (others_of_only (only_closeT s c))
  crashClose := fun s h => h.trans (others_of_only (only_crashClose s c))
  doSubscribe := fun s ch ok _ _ _ _ _ _ h => h.trans (others_of_only (only_doSubscribe s c ch ok))
  doUnsubscribe := fun s ch _ _ _ _ h => h.trans (others_of_only (only_doUnsubscribe s c ch))
  setAuth := fun s i d row _ _ _ h => h.trans (others_of_only (only_setAuth s c i d row))
  pauseReading := fun s h => h.trans (others_of_only (only_pauseReading s c))
  resumeReading := fun s h => h.trans (others_of_only (only_resumeReading s c))
  addPending := fun s _ _ h => h.trans (others_of_only (only_upd s c _))
  dropPending := fun s _ h => h.trans (others_of_only (only_upd s c _))
  setBuf := fun s _ h => h.trans (others_of_only (only_upd s c _))
  publish := fun s x i ch p _ _ _ _ h => h.trans (fun d _ y hy => publish_othersRel s c x i ch p d y hy)
  addConn := fun s n _ h => h.trans (others_of_only (only_addConn cfg s c n))
  peerClose := fun s h => h.trans (others_of_only (only_peerClose s c))
  lostConn := fun s _ _ _ h => h.trans (others_of_only (only_lostConn s c))
  armDeadline := fun s h => h.trans (others_of_only (only_armDeadline s c))
  clearDeadline := fun s a _ h => h.trans (others_of_only (only_clearDeadline s c a))

/-- ONE EVENT about connection `c` (or the clock): every other connection `d` keeps its record, except
    that OP_PUBLISH frames may be written to it if it is open, and it may be forgotten (unregistered,
    subscriptions dropped) if it is already closing. -/
theorem others_step (cfg : Cfg) (s : State) (e : Event) (d : Nat) (y : Conn)
    (hd : e.target ≠ some d) (hy : s.conn d = some y) :
    ∃ y', (step cfg s e).conn d = some y' ∧ OthersRel y y' := by
  cases ht : e.target with
  | none =>
    cases e <;> simp [Event.target] at ht
    exact ⟨y, hy, OthersRel.refl y⟩
  | some c =>
    have hdc : d ≠ c := by intro h; apply hd; rw [ht, h]
    have := pres_step_at (cfg := cfg) (P := Others c s) s e
      (fun c' hc' => by rw [ht] at hc'; cases hc'; exact othersPresAt cfg c s)
      (fun ms _ h => h.trans (others_of_only (fun _ _ => rfl)))
      (Others.refl c s)
    exact this d hdc y hy

end Hpfeeds.Broker
