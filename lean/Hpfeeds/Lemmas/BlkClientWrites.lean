/-
  Blocking Client: per-socket write trace; C11 of the output trace for EVERY socket ever made.
-/
import Hpfeeds.Lemmas.BlkClient
namespace Hpfeeds.BlkClient
open Hpfeeds Extracted

/-- the frames the outputs show sent on socket `k`, in order -/
def wroteOn (k : Nat) (outs : List Out) : List Bytes :=
  outs.filterMap fun o => match o with
    | .wrote k' b => if k' = k then some b else none
    | _ => none

theorem wroteOn_append (k : Nat) (a b : List Out) : wroteOn k (a ++ b) = wroteOn k a ++ wroteOn k b := by
  simp [wroteOn, List.filterMap_append]

/-- no `wrote` output at all -/
def NoW (o : List Out) : Prop := ∀ k, wroteOn k o = []
theorem now_nil : NoW [] := fun _ => rfl
theorem now_app {a b : List Out} (h1 : NoW a) (h2 : NoW b) : NoW (a ++ b) := by
  intro k; rw [wroteOn_append, h1 k, h2 k]; rfl

/-- the socket is the same with the same log, or a later one with an empty log -/
def NW (s s' : State) : Prop := (s'.nsock = s.nsock ∧ s'.sent = s.sent) ∨ (s.nsock < s'.nsock ∧ s'.sent = [])
theorem NW.refl (s : State) : NW s s := Or.inl ⟨rfl, rfl⟩
theorem NW.trans {a b c : State} (h1 : NW a b) (h2 : NW b c) : NW a c := by
  rcases h1 with ⟨e1, e2⟩ | ⟨e1, e2⟩ <;> rcases h2 with ⟨f1, f2⟩ | ⟨f1, f2⟩
  · exact Or.inl ⟨f1.trans e1, f2.trans e2⟩
  · exact Or.inr ⟨by omega, f2⟩
  · exact Or.inr ⟨by omega, by rw [f2, e2]⟩
  · exact Or.inr ⟨by omega, f2⟩
theorem nw_eq {s s' : State} (h1 : s'.nsock = s.nsock) (h2 : s'.sent = s.sent) : NW s s' := Or.inl ⟨h1, h2⟩

/-- a continuation: no `wrote` output, socket unchanged or replaced by a fresh one -/
def Cont (s : State) (r : State × List Out) : Prop := NoW r.2 ∧ NW s r.1
theorem cont_trans {s : State} {r t : State × List Out} (h1 : Cont s r) (h2 : Cont r.1 t) : Cont s (t.1, r.2 ++ t.2) :=
  ⟨now_app h1.1 h2.1, h1.2.trans h2.2⟩
theorem cont_pre {s s0 : State} {r : State × List Out} (h0 : NW s s0) (h : Cont s0 r) : Cont s r := ⟨h.1, h0.trans h.2⟩

theorem c_closeSock (s : State) : Cont s (closeSock s) := by
  unfold closeSock; split
  · exact ⟨now_nil, NW.refl s⟩
  · exact ⟨fun _ => rfl, nw_eq rfl rfl⟩
theorem c_newSocket (s : State) (i : Nat) (w : Who) : Cont s (newSocket s i w) :=
  ⟨fun _ => rfl, Or.inr ⟨Nat.lt_succ_self _, rfl⟩⟩
theorem c_startConnect (s : State) (w : Who) : Cont s (startConnect s w) := by
  unfold startConnect; exact cont_trans (c_closeSock s) (c_newSocket _ 0 w)
theorem c_retry (s : State) (w : Who) : Cont s (retry s w) := by
  have := c_startConnect s w
  unfold retry
  exact ⟨fun k => by simp only [wroteOn, List.filterMap_cons]; exact this.1 k, this.2⟩
theorem nw_subLoop (s : State) (k : SubK) (chs : List Bytes) : NW s (subLoop s k chs).1 := by
  cases chs with
  | nil => exact NW.refl s
  | cons ch rest => simp only [subLoop]; split <;> exact nw_eq rfl rfl
theorem c_afterInner (s : State) : Cont s (afterInner s) := by
  unfold afterInner; split
  · exact ⟨fun _ => rfl, nw_eq rfl rfl⟩
  · split
    · exact ⟨fun _ => rfl, nw_eq rfl rfl⟩
    · exact c_startConnect s .run
theorem c_recvLoop (s : State) : Cont s (recvLoop s) := by
  unfold recvLoop; split
  · split
    · exact ⟨fun _ => rfl, nw_eq rfl rfl⟩
    · exact cont_pre (s0 := { s with connected := false }) (nw_eq rfl rfl) (c_afterInner _)
  · exact c_afterInner s
theorem c_runTop (s : State) : Cont s (runTop s) := by
  unfold runTop; split
  · exact ⟨fun _ => rfl, nw_eq rfl rfl⟩
  · simp only
    split
    · exact cont_pre (nw_subLoop s .run _) (c_recvLoop _)
    · exact ⟨fun _ => rfl, nw_subLoop s .run _⟩
theorem c_startPublish (cfg : Cfg) (s : State) (k : PubK) (ch p : Bytes) : Cont s (startPublish cfg s k ch p) := by
  unfold startPublish; split
  · exact ⟨fun _ => rfl, nw_eq rfl rfl⟩
  · exact cont_pre (s0 := { s with connected := false }) (nw_eq rfl rfl) (c_startConnect _ _)
theorem c_doActs (cfg : Cfg) (s : State) (acts : List Act) : Cont s ((doActs cfg s acts).1, (doActs cfg s acts).2.1) := by
  induction acts generalizing s with
  | nil => exact ⟨now_nil, NW.refl s⟩
  | cons a r ih =>
    cases a with
    | stop => simp only [doActs]; exact cont_pre (s0 := { s with stopped := true }) (nw_eq rfl rfl) (ih _)
    | sub ch =>
      simp only [doActs]
      exact cont_pre (s0 := { s with subs := if ch ∈ s.subs then s.subs else s.subs ++ [ch] }) (nw_eq rfl rfl) (ih _)
    | pub ch p => simp only [doActs]; exact c_startPublish cfg s _ ch p

theorem c_frameLoop (cfg : Cfg) : ∀ (s : State), Cont s ((frameLoop cfg s).1, (frameLoop cfg s).2.1) := by
  intro s
  induction hn : s.ubuf.length using Nat.strongRecOn generalizing s with
  | _ n ih =>
    rw [frameLoop]
    split
    · exact ⟨now_nil, NW.refl s⟩
    · exact ⟨now_nil, NW.refl s⟩
    · rename_i ml op hh
      have hk := header_ok hh
      have hlt : (popRun s ml op).ubuf.length < n := by
        simp only [popRun, popFrame, List.length_drop]; omega
      simp only
      split
      · split
        · rename_i i c p _
          have hd := c_doActs cfg (noteRun (popRun s ml op) (popFrame s.ubuf ml op).1 (some (.msg (i, c, p)))) (cfg.react (i, c, p))
          have h0 : Cont s (noteRun (popRun s ml op) (popFrame s.ubuf ml op).1 (some (.msg (i, c, p))), [Out.msg (i, c, p)]) :=
            ⟨fun _ => rfl, nw_eq rfl rfl⟩
          have h1 := cont_trans h0 hd
          split
          · rename_i hr
            have hi := ih _ (by rw [doActs_ubuf cfg _ _ hr]; exact hlt)
              (doActs cfg (noteRun (popRun s ml op) (popFrame s.ubuf ml op).1 (some (.msg (i, c, p)))) (cfg.react (i, c, p))).1 rfl
            have := cont_trans h1 hi
            simpa using this
          · simpa using h1
        · exact ⟨now_nil, nw_eq rfl rfl⟩
      · split
        · split
          · rename_i t _
            have h0 : Cont s (noteRun (popRun s ml op) (popFrame s.ubuf ml op).1 (some (.err t)), [Out.err t]) :=
              ⟨fun _ => rfl, nw_eq rfl rfl⟩
            have hi := ih _ hlt (noteRun (popRun s ml op) (popFrame s.ubuf ml op).1 (some (.err t))) rfl
            have := cont_trans h0 hi
            simpa using this
          · exact ⟨now_nil, nw_eq rfl rfl⟩
        · have hi := ih _ hlt (noteRun (popRun s ml op) (popFrame s.ubuf ml op).1 none) rfl
          exact cont_pre (nw_eq rfl rfl) hi

theorem c_afterFrames (cfg : Cfg) (r : State × List Out × FL) (h : NoW r.2.1) : Cont r.1 (afterFrames cfg r) := by
  unfold afterFrames
  split
  · exact ⟨h, NW.refl _⟩
  · exact ⟨now_app h (fun _ => rfl), nw_eq rfl rfl⟩
  · have := c_afterInner { r.1 with connected := false }
    exact ⟨now_app h this.1, (nw_eq (s := r.1) (s' := { r.1 with connected := false }) rfl rfl).trans this.2⟩
  · split
    · have := c_afterInner r.1; exact ⟨now_app h this.1, this.2⟩
    · have := c_recvLoop r.1; exact ⟨now_app h this.1, this.2⟩

theorem c_frames (cfg : Cfg) (s : State) : Cont s (afterFrames cfg (frameLoop cfg s)) := by
  have h1 := c_frameLoop cfg s
  have h2 := c_afterFrames cfg (frameLoop cfg s) h1.1
  exact ⟨h2.1, h1.2.trans h2.2⟩

theorem c_afterPub (cfg : Cfg) (s : State) (k : PubK) : Cont s (afterPub cfg s k) := by
  cases k with
  | idle => exact ⟨fun _ => rfl, nw_eq rfl rfl⟩
  | cb rest =>
    simp only [afterPub]
    split
    · exact cont_trans (c_doActs cfg s rest) (c_frames cfg _)
    · exact c_doActs cfg s rest

theorem c_afterSub (cfg : Cfg) (s : State) (k : SubK) : Cont s (afterSub cfg s k) := by
  cases k with
  | run => exact c_recvLoop s
  | pub k => exact c_afterPub cfg s k

theorem c_resume (cfg : Cfg) (s : State) (w : Who) : Cont s (resume cfg s w) := by
  cases w with
  | init => exact ⟨fun _ => rfl, nw_eq rfl rfl⟩
  | run => exact c_runTop s
  | pub k =>
    simp only [resume]
    split
    · exact cont_pre (nw_subLoop s _ _) (c_afterPub cfg _ k)
    · exact ⟨fun _ => rfl, nw_subLoop s _ _⟩

theorem c_doAuth (cfg : Cfg) (s : State) (w : Who) (b : Bytes) : Cont s (doAuth cfg s w b) := by
  unfold doAuth
  simp only
  split
  · exact cont_pre (s0 := { s with ubuf := s.ubuf ++ b, fed := s.fed ++ b }) (nw_eq rfl rfl) (c_retry _ w)
  · exact cont_pre (s0 := { s with ubuf := s.ubuf ++ b, fed := s.fed ++ b }) (nw_eq rfl rfl) (c_retry _ w)
  · split
    · split <;> exact ⟨fun _ => rfl, nw_eq rfl rfl⟩
    · exact cont_pre (nw_eq rfl rfl) (c_retry _ w)

/-- one step, as far as writes are concerned: at most one frame, on the socket current before the step; the
    socket afterwards is the same one (log extended by that frame) or a fresh later one (empty log) -/
inductive StepW (cfg : Cfg) (s : State) (r : State × List Out) : Prop
  | quiet (h : Cont s r)
  | wrote (f : Bytes) (rest : List Out) (ho : r.2 = .wrote s.nsock f :: rest) (hr : NoW rest)
      (hs : (r.1.nsock = s.nsock ∧ r.1.sent = s.sent ++ [f]) ∨ (s.nsock < r.1.nsock ∧ r.1.sent = []))
      (hauth : s.nonce = none → ∃ r, f = authFrame cfg r)   -- on an unauthenticated socket only OP_AUTH is sent

theorem wrote_of_cont {cfg : Cfg} {s s1 : State} {t : State × List Out} (f : Bytes) (h1 : s1.nsock = s.nsock)
    (h2 : s1.sent = s.sent ++ [f]) (h : Cont s1 t) (ha : s.nonce = none → ∃ r, f = authFrame cfg r) :
    StepW cfg s (t.1, .wrote s.nsock f :: t.2) := by
  refine .wrote f t.2 rfl h.1 ?_ ha
  rcases h.2 with ⟨a, b⟩ | ⟨a, b⟩
  · exact Or.inl ⟨a.trans h1, b.trans h2⟩
  · refine Or.inr ⟨?_, b⟩
    show s.nsock < t.1.nsock
    omega

theorem subLoop_ns (s : State) (k : SubK) (chs : List Bytes) :
    (subLoop s k chs).1.nsock = s.nsock ∧ (subLoop s k chs).1.sent = s.sent := by
  cases chs with
  | nil => exact ⟨rfl, rfl⟩
  | cons c2 r2 => simp only [subLoop]; split <;> exact ⟨rfl, rfl⟩

theorem stepW_step (cfg : Cfg) (s : State) (e : Ev) (hi : KInv cfg s) : StepW cfg s (step cfg s e) := by
  unfold step
  split
  · exact .quiet ⟨fun _ => rfl, nw_eq rfl rfl⟩
  · split
    · exact .quiet (c_startConnect s .init)
    · exact .quiet ⟨fun _ => rfl, nw_eq rfl rfl⟩
    · exact .quiet (c_startPublish cfg s _ _ _)
    · exact .quiet (c_runTop s)
    · exact .quiet (c_closeSock s)
    · exact .quiet ⟨fun _ => rfl, nw_eq rfl rfl⟩
    · split
      · exact .quiet (c_newSocket _ _ _)
      · split
        · exact .quiet (cont_pre (s0 := { s with ubuf := [], fed := [], popped := [] }) (nw_eq rfl rfl) (c_retry _ _))
        · exact .quiet (c_retry _ _)
    · split
      · exact .quiet (c_retry _ _)
      · exact .quiet (c_doAuth cfg s _ _)
    · exact .quiet (c_retry _ _)
    · exact .quiet (c_retry _ _)
    · exact .quiet (c_retry _ _)
    · rename_i who rand _ _
      simp only
      exact wrote_of_cont (s1 := { s with sent := s.sent ++ [authFrame cfg rand], nonce := some rand, pc := .idle }) _
        rfl rfl (c_resume cfg _ _) (fun _ => ⟨rand, rfl⟩)
    · exact .quiet (c_retry _ _)
    · exact .quiet (c_retry _ _)
    · rename_i ch rest k hp _
      have hsome : s.nonce.isSome = true := hi.sendp (by rw [hp]; trivial)
      have hno : s.nonce = none → ∃ r, subFrame cfg ch = authFrame cfg r := fun hn => by rw [hn] at hsome; cases hsome
      simp only
      split
      · exact wrote_of_cont (s1 := (subLoop { s with sent := s.sent ++ [subFrame cfg ch] } k rest).1) _
          (subLoop_ns _ k rest).1 (subLoop_ns _ k rest).2 (c_afterSub cfg _ k) hno
      · exact .wrote (subFrame cfg ch) [] rfl now_nil (Or.inl ⟨(subLoop_ns _ k rest).1, (subLoop_ns _ k rest).2⟩) hno
    · exact .quiet (cont_pre (s0 := { s with connected := false }) (nw_eq rfl rfl) (c_afterSub cfg _ _))
    · exact .quiet (cont_pre (s0 := { s with connected := false }) (nw_eq rfl rfl) (c_afterSub cfg _ _))
    · split
      · exact .quiet (cont_pre (s0 := { s with connected := false }) (nw_eq rfl rfl) (c_afterInner _))
      · rename_i b _ _ _
        exact .quiet (cont_pre (s0 := { s with ubuf := s.ubuf ++ b, fed := s.fed ++ b }) (nw_eq rfl rfl) (c_frames cfg _))
    · exact .quiet (cont_pre (s0 := { s with connected := false }) (nw_eq rfl rfl) (c_afterInner _))
    · exact .quiet (cont_pre (s0 := { s with connected := false }) (nw_eq rfl rfl) (c_afterInner _))
    · exact .quiet (c_frames cfg s)
    · rename_i k frame hp _
      have hsome : s.nonce.isSome = true := hi.sendp (by rw [hp]; trivial)
      simp only
      exact wrote_of_cont (s1 := { s with sent := s.sent ++ [frame] }) _ rfl rfl (c_afterPub cfg _ k)
        (fun hn => by rw [hn] at hsome; cases hsome)
    · exact .quiet (cont_pre (s0 := { s with connected := false }) (nw_eq rfl rfl) (c_startConnect _ _))
    · exact .quiet (cont_pre (s0 := { s with connected := false }) (nw_eq rfl rfl) (c_startConnect _ _))
    · exact .quiet ⟨now_nil, NW.refl s⟩

/-- the trace invariant: what the outputs show sent on the current socket is its ghost log; socket numbers
    not yet used have no output -/
structure GW (acc : State × List Out) : Prop where
  cur : wroteOn acc.1.nsock acc.2 = acc.1.sent
  future : ∀ k, acc.1.nsock < k → wroteOn k acc.2 = []

theorem wroteOn_cons_self (k : Nat) (f : Bytes) (rest : List Out) :
    wroteOn k (.wrote k f :: rest) = f :: wroteOn k rest := by simp [wroteOn]
theorem wroteOn_cons_ne {k k' : Nat} (f : Bytes) (rest : List Out) (h : k' ≠ k) :
    wroteOn k (.wrote k' f :: rest) = wroteOn k rest := by simp [wroteOn, h]

theorem gw_step (cfg : Cfg) (acc : State × List Out) (e : Ev) (hi : KInv cfg acc.1) (h : GW acc) :
    GW ((step cfg acc.1 e).1, acc.2 ++ (step cfg acc.1 e).2) ∧
    ∀ k, k ≠ (step cfg acc.1 e).1.nsock → k ≠ acc.1.nsock → wroteOn k (step cfg acc.1 e).2 = [] := by
  have hs := stepW_step cfg acc.1 e hi
  generalize step cfg acc.1 e = r at hs ⊢
  cases hs with
  | quiet hc =>
    obtain ⟨hn, hw⟩ := hc
    refine ⟨⟨?_, fun k hk => ?_⟩, fun k _ _ => hn k⟩
    · show wroteOn r.1.nsock (acc.2 ++ r.2) = r.1.sent
      rw [wroteOn_append, hn, List.append_nil]
      rcases hw with ⟨a, b⟩ | ⟨a, b⟩
      · rw [a, b]; exact h.cur
      · rw [b]; exact h.future _ a
    · show wroteOn k (acc.2 ++ r.2) = []
      rw [wroteOn_append, hn, List.append_nil]
      apply h.future
      have hk' : r.1.nsock < k := hk
      rcases hw with ⟨a, _⟩ | ⟨a, _⟩ <;> omega
  | wrote f rest ho hr hs _ =>
    refine ⟨⟨?_, fun k hk => ?_⟩, fun k h1 h2 => ?_⟩
    · show wroteOn r.1.nsock (acc.2 ++ r.2) = r.1.sent
      rw [wroteOn_append, ho]
      rcases hs with ⟨a, b⟩ | ⟨a, b⟩
      · rw [a, wroteOn_cons_self, hr, b, h.cur]
      · rw [wroteOn_cons_ne _ _ (by omega), hr, b, h.future _ a]; rfl
    · show wroteOn k (acc.2 ++ r.2) = []
      have hk' : r.1.nsock < k := hk
      have hlt : acc.1.nsock < k := by rcases hs with ⟨a, _⟩ | ⟨a, _⟩ <;> omega
      rw [wroteOn_append, ho, wroteOn_cons_ne _ _ (by omega), hr, h.future k hlt]; rfl
    · rw [ho, wroteOn_cons_ne _ _ (Ne.symm h2), hr]

/-- what C11 says about one socket's writes -/
def Good (cfg : Cfg) (w : List Bytes) : Prop := w = [] ∨ ∃ (r : Bytes) (rest : List Bytes), w = authFrame cfg r :: rest

/-- ON EVERY CONNECTION THEY MAKE — the observable form of C11 for the blocking Client.  Over ANY event sequence
    and for EVERY socket number `k`, the frames the OUTPUT shows sent on socket `k` (what the correspondence
    check compares with what the real scripted socket `k` received through sendall) are: nothing, or begin with
    the OP_AUTH of a nonce. -/
theorem every_connection (cfg : Cfg) (es : List Ev) (k : Nat) : Good cfg (wroteOn k (run cfg es).2) := by
  unfold run
  suffices ∀ (acc : State × List Out), KInv cfg acc.1 → GW acc → (∀ k, Good cfg (wroteOn k acc.2)) →
      ∀ k, Good cfg (wroteOn k (es.foldl (fun acc e => let r := step cfg acc.1 e; (r.1, acc.2 ++ r.2)) acc).2) from
    this ({}, []) (kinv_init cfg) ⟨rfl, fun _ _ => rfl⟩ (fun _ => Or.inl rfl) k
  induction es with
  | nil => intro acc _ _ h; exact h
  | cons e es ih =>
    intro acc hi hg hgood
    simp only [List.foldl_cons]
    have hi' := kinv_step cfg acc.1 e hi
    obtain ⟨hg', hother⟩ := gw_step cfg acc e hi hg
    refine ih _ hi' hg' (fun k => ?_)
    show Good cfg (wroteOn k (acc.2 ++ (step cfg acc.1 e).2))
    by_cases hk : k = (step cfg acc.1 e).1.nsock
    · rw [hk]
      have := hg'.cur
      simp only at this
      rw [this]
      cases hn : (step cfg acc.1 e).1.nonce with
      | none => exact Or.inl (hi'.quiet hn)
      | some r => exact Or.inr ⟨r, hi'.first r hn⟩
    · by_cases hk2 : k = acc.1.nsock
      · -- the socket that was current before the step and was replaced by it: its log just before is its
        -- ghost, extended by at most the one frame of this step
        rw [hk2, wroteOn_append, hg.cur]
        have hs := stepW_step cfg acc.1 e hi
        cases hs with
        | quiet hc => rw [hc.1, List.append_nil]
                      cases hn : acc.1.nonce with
                      | none => exact Or.inl (hi.quiet hn)
                      | some r => exact Or.inr ⟨r, hi.first r hn⟩
        | wrote f rest ho hr hs hauth =>
          rw [ho, wroteOn_cons_self, hr]
          -- the frame was sent by a sendOk handler: the socket had been authenticated, or this is the AUTH
          rcases hs with ⟨a, _⟩ | ⟨a, b⟩
          · exact absurd (hk2 ▸ a.symm) hk
          · -- replaced in the same step; use the invariant of the intermediate state via the log shape
            cases hn : acc.1.nonce with
            | some r =>
              obtain ⟨rest', hr'⟩ := hi.first r hn
              exact Or.inr ⟨r, rest' ++ [f], by rw [hr']; rfl⟩
            | none =>
              rw [hi.quiet hn]
              -- nothing had been sent: the one frame is the OP_AUTH (only `authSend` sends on an
              -- unauthenticated socket)
              obtain ⟨r, hr⟩ := hauth hn
              exact Or.inr ⟨r, [], by rw [hr]; rfl⟩
      · rw [wroteOn_append, hother k hk hk2, List.append_nil]
        exact hgood k

end Hpfeeds.BlkClient
