/-
  Step-level facts: what `errorClose` does, and how `messageReceived` answers offending frames.
-/
import Hpfeeds.Lemmas.BrokerDeliv
namespace Hpfeeds.Broker
open Hpfeeds Extracted

/-- "the sender is sent OP_ERROR and disconnected; nothing else happens" -/
structure Rejected (s s' : State) (c : Nat) : Prop where
  accepted : s'.accepted = s.accepted
  subs : s'.subs = s.subs
  gauges : s'.gConns = s.gConns ∧ s'.gSubs = s.gSubs ∧ s'.cLost = s.cLost
  others : ∀ d, d ≠ c → s'.conn d = s.conn d
  self : ∀ x, s.conn c = some x → ∃ y, s'.conn c = some y ∧ y.closing = true ∧
    y.out = x.out ++ [(s.now, .write errFrame)] ++ (if x.closing then [] else [(s.now, .close)]) ∧
    y.active = x.active ∧ y.ak = x.ak ∧ y.granted = x.granted ∧ y.registered = x.registered ∧
    y.pubchans = x.pubchans ∧ y.subchans = x.subchans

theorem closeT_conn_eq {s : State} {c : Nat} {x : Conn} (hx : s.conn c = some x) :
    (closeT s c).conn c =
      some (if x.closing then x else { x.beginClose with out := x.out ++ [(s.now, .close)] }) := by
  simp [closeT, hx]

theorem errorClose_rejected (s : State) (c : Nat) : Rejected s (errorClose s c) c := by
  refine ⟨rfl, rfl, ⟨rfl, rfl, rfl⟩, ?_, ?_⟩
  · intro d hd; simp [errorClose, closeT, logAct, hd]
  · intro x hx
    have h1 := logAct_conn_self (a := .write errFrame) hx
    have h2 := closeT_conn_eq h1
    refine ⟨_, h2, ?_⟩
    by_cases hc : x.closing = true
    · simp [hc, logAct, State.upd]
    · have hc' : x.closing = false := by simpa using hc
      simp [hc', logAct, Conn.beginClose, State.upd]

/-- A PUBLISH naming another ident, or a channel outside the sender's publish list: ERROR + close for the
    sender, delivered to nobody, nothing else changes. -/
theorem reject_publish (cfg : Cfg) (s : State) (c : Nat) (x : Conn) (f : Frame) (ident ch p : Bytes)
    (hx : s.conn c = some x) (hauth : x.ak ≠ none)
    (hf : read f = some (.ok (.publish ident ch p)))
    (hbad : some ident ≠ x.ak ∨ ch ∉ x.pubchans) :
    messageReceived cfg s c f = (errorClose s c, .cont) := by
  unfold messageReceived
  rw [hx]
  simp only [hauth, false_and, if_false, hf]
  rcases hbad with h | h
  · rw [if_pos h]
  · by_cases h' : some ident ≠ x.ak
    · rw [if_pos h']
    · rw [if_neg h', if_pos h]

/-- An OP_SUBSCRIBE outside the subscribe list of the identity the connection is authenticated as:
    ERROR + close (the request is still registered — the code has no `return` — but the connection is
    closing from this point on, and a closing connection is never written to, see C04). -/
theorem forbidden_subscribe (cfg : Cfg) (s : State) (c : Nat) (x : Conn) (f : Frame) (ident ch : Bytes)
    (hx : s.conn c = some x) (hauth : x.ak ≠ none) (hreg : x.registered = true)
    (hf : read f = some (.ok (.subscribe ident ch))) (hbad : ch ∉ x.subchans) :
    messageReceived cfg s c f = (doSubscribe (errorClose s c) c ch false, .cont) := by
  unfold messageReceived
  rw [hx]
  simp only [hauth, false_and, if_false, hf, hbad, hreg]
  simp

/-- A non-AUTH frame from a connection that has not authenticated: ERROR + close, nothing else. -/
theorem preauth_reject (cfg : Cfg) (s : State) (c : Nat) (x : Conn) (f : Frame)
    (hx : s.conn c = some x) (hak : x.ak = none) (hop : f.op.toNat ≠ OP_AUTH) :
    messageReceived cfg s c f = (errorClose s c, .cont) := by
  unfold messageReceived
  rw [hx]
  simp only [hak, hop, ne_eq, not_false_eq_true, and_self, if_true]

end Hpfeeds.Broker
