/-
  asyncio / Twisted session: the composed bounded-response theorem of C13 (i).
-/
import Hpfeeds.Lemmas.AioClient
namespace Hpfeeds.AioClient
open Hpfeeds Extracted

/-- run a list of events from a state (states only) -/
def steps (cfg : Cfg) (s : State) (evs : List Ev) : State := evs.foldl (fun s e => (step cfg s e).1) s

theorem steps_cons (cfg : Cfg) (s : State) (e : Ev) (evs : List Ev) :
    steps cfg s (e :: evs) = steps cfg (step cfg s e).1 evs := rfl
theorem steps_nil (cfg : Cfg) (s : State) : steps cfg s [] = s := rfl

/-- OP_INFO arriving whole on a fresh connection: AUTH for its nonce, then SUBSCRIBE for the wanted set -/
theorem data_info_fresh (cfg : Cfg) (s : State) (k : Nat) (f : Frame) (n rand : Bytes)
    (hs : s.task ≠ .notStarted) (hc : s.conn = some { k := k }) (hf : f.WF)
    (hrd : read f = some (.ok (.info n rand))) :
    (step cfg s (.data (enc f))).2 =
      Out.wrote k (authFrame cfg rand) :: (sortBytes s.subs).map (fun ch => Out.wrote k (subFrame cfg ch)) ∧
    ∃ c', (step cfg s (.data (enc f))).1.conn = some c' ∧ c'.ready = true ∧ c'.gone = false ∧ c'.k = k := by
  let c0 : Conn := { k := k, inbound := enc f }
  let s1 : State := { s with conn := some c0 }
  obtain ⟨o1, o2, c', o3, o4, _⟩ := info_handshake cfg s1 c0 f n rand rfl rfl rfl hf hrd
  have hsame := (same_loop cfg s1 (enc f)).conn
  rw [o3] at hsame
  have hk : c'.k = k ∧ c'.gone = false := by
    have := Option.some.inj hsame
    simp only [Prod.mk.injEq] at this
    exact ⟨this.1, this.2⟩
  have e2 : (step cfg s (.data (enc f))).2 =
      (loop cfg s1 (enc f)).2.1 ++ (if (loop cfg s1 (enc f)).2.2.2 = .crash then [Out.crash] else []) := by
    unfold step
    rw [kick_of_started hs]
    unfold stepK
    simp only [hc]
    rfl
  have e1 : ∃ c2, (step cfg s (.data (enc f))).1.conn = some c2 ∧ c2.ready = c'.ready ∧ c2.gone = c'.gone ∧ c2.k = c'.k := by
    unfold step
    rw [kick_of_started hs]
    unfold stepK
    simp only [hc]
    show ∃ c2, (match (loop cfg s1 (enc f)).1.conn with
      | some c' => _
      | none => _ : State).conn = some c2 ∧ _
    rw [o3]
    exact ⟨_, rfl, rfl, rfl, rfl⟩
  obtain ⟨c2, h1, h2, h3, h4⟩ := e1
  refine ⟨?_, c2, h1, by rw [h2]; exact o4, by rw [h3]; exact hk.2, by rw [h4]; exact hk.1⟩
  rw [e2, o2, o1]
  show Out.wrote k (authFrame cfg rand) :: List.map (fun ch => Out.wrote k (subFrame cfg ch)) (sortBytes s.subs) ++
      (if Ctl.cont = Ctl.crash then [Out.crash] else []) = _
  simp

theorem step_lost_eq (cfg : Cfg) (s : State) (c : Conn) (hs : s.task ≠ .notStarted) (hn : s.conn = some c)
    (hg : c.gone = false) (hcl : s.closing = false) :
    (step cfg s .lost).1 = (if cfg.lossDelay = 0 then { s with conn := none, task := .connecting, attempts := s.attempts + 1 }
      else { s with conn := none, task := .sleeping (s.now + cfg.lossDelay) }) := by
  unfold step; rw [kick_of_started hs]; unfold stepK
  simp only [hn, hg, hcl, Bool.false_eq_true, if_false]
  split <;> rfl

theorem step_advance_eq (cfg : Cfg) (s : State) (t ms : Nat) (hs : s.task = .sleeping t) (ht : t ≤ s.now + ms) :
    (step cfg s (.advance ms)).1 = { s with now := s.now + ms, task := .connecting, attempts := s.attempts + 1 } := by
  have hns : s.task ≠ .notStarted := by rw [hs]; intro h; cases h
  unfold step; rw [kick_of_started hns]; unfold stepK
  simp [hs, ht]

theorem step_accept_eq (cfg : Cfg) (s : State) (hs : s.task = .connecting) :
    (step cfg s .accept).1 = { s with task := .waiting, nconn := s.nconn + 1, conn := some { k := s.nconn + 1 } } := by
  have hns : s.task ≠ .notStarted := by rw [hs]; intro h; cases h
  unfold step; rw [kick_of_started hns]; unfold stepK
  simp [hs]

/-- THE SESSION COMES BACK (C13 (i), composed).  From ANY state the session can be in while it has been started
    and close() was not called — connected or not, before or after OP_INFO, mid-frame, sleeping after a refused
    attempt, with an attempt in flight — a fixed environment suffix of at most two events (the connection, if
    any, is lost; the retry timer, if armed, elapses) followed by `accept` brings up a FRESH connection on
    which a whole OP_INFO is answered with the OP_AUTH for ITS nonce and one OP_SUBSCRIBE per channel the
    application wants at that moment. -/
theorem comes_back (cfg : Cfg) (s : State) (ht : TInv s) (hs : s.task ≠ .notStarted) (hc : s.closeCalled = false)
    (f : Frame) (n rand : Bytes) (hf : f.WF) (hrd : read f = some (.ok (.info n rand))) :
    ∃ pre : List Ev, pre.length ≤ 2 ∧ (∀ e ∈ pre, e = .lost ∨ ∃ ms, e = .advance ms) ∧
      (step cfg (steps cfg s (pre ++ [.accept])) (.data (enc f))).2 =
        Out.wrote (s.nconn + 1) (authFrame cfg rand) ::
          (sortBytes s.subs).map (fun ch => Out.wrote (s.nconn + 1) (subFrame cfg ch)) ∧
      ∃ c', (step cfg (steps cfg s (pre ++ [.accept])) (.data (enc f))).1.conn = some c' ∧ c'.ready = true ∧
        c'.gone = false ∧ c'.k = s.nconn + 1 := by
  obtain ⟨hcl, _, hnd⟩ := ht.opened hc
  -- from a state that is `connecting`: accept, then the OP_INFO
  have fin : ∀ (s2 : State), s2.task = .connecting → s2.nconn = s.nconn → s2.subs = s.subs →
      (step cfg (step cfg s2 .accept).1 (.data (enc f))).2 =
        Out.wrote (s.nconn + 1) (authFrame cfg rand) ::
          (sortBytes s.subs).map (fun ch => Out.wrote (s.nconn + 1) (subFrame cfg ch)) ∧
      ∃ c', (step cfg (step cfg s2 .accept).1 (.data (enc f))).1.conn = some c' ∧ c'.ready = true ∧
        c'.gone = false ∧ c'.k = s.nconn + 1 := by
    intro s2 h2 hn hsub
    rw [step_accept_eq cfg s2 h2]
    have := data_info_fresh cfg { s2 with task := .waiting, nconn := s2.nconn + 1, conn := some { k := s2.nconn + 1 } }
      (s2.nconn + 1) f n rand (by intro h; cases h) rfl hf hrd
    rw [← hn, ← hsub]
    exact this
  cases htask : s.task with
  | notStarted => exact absurd htask hs
  | done => exact absurd htask hnd
  | connecting =>
    refine ⟨[], by simp, by simp, ?_⟩
    simp only [List.nil_append, steps_cons, steps_nil]
    exact fin s htask rfl rfl
  | sleeping t =>
    refine ⟨[.advance (t - s.now)], by simp, by simp, ?_⟩
    simp only [List.cons_append, List.nil_append, steps_cons, steps_nil]
    rw [step_advance_eq cfg s t (t - s.now) htask (by omega)]
    exact fin _ rfl rfl rfl
  | waiting =>
    obtain ⟨c, hcn, hg⟩ := ht.live.mpr htask
    by_cases hd : cfg.lossDelay = 0
    · refine ⟨[.lost], by simp, by simp, ?_⟩
      simp only [List.cons_append, List.nil_append, steps_cons, steps_nil]
      rw [step_lost_eq cfg s c hs hcn hg hcl, if_pos hd]
      exact fin _ rfl rfl rfl
    · refine ⟨[.lost, .advance cfg.lossDelay], by simp, by simp, ?_⟩
      simp only [List.cons_append, List.nil_append, steps_cons, steps_nil]
      rw [step_lost_eq cfg s c hs hcn hg hcl, if_neg hd]
      rw [step_advance_eq cfg { s with conn := none, task := .sleeping (s.now + cfg.lossDelay) }
        (s.now + cfg.lossDelay) cfg.lossDelay rfl (Nat.le_refl _)]
      exact fin _ rfl rfl rfl

end Hpfeeds.AioClient
