/-
  Chunking is irrelevant to the broker: the frame loop never reads or writes the (stale) `buf` field of a
  connection record (`loop_sb`: it commutes with `setBuf` on ANY connection, one commutation lemma per
  primitive), and a loop pass over `a ++ b` is the pass over `a` continued over the rest ++ `b`
  (`loop_append`).  Together: `data_chunking`.
-/
import Hpfeeds.Lemmas.BrokerStore
import Hpfeeds.Lemmas.BrokerMono
namespace Hpfeeds.Broker
open Hpfeeds Extracted

/-- set the (stale, unread) `buf` field of one record -/
def Conn.wb (β : Bytes) (x : Conn) : Conn := { x with buf := β }

theorem setBuf_eq (s : State) (k : Nat) (β : Bytes) : setBuf s k β = s.upd k (Conn.wb β) := rfl

theorem state_ext {s t : State} (h1 : s.conn = t.conn) (h2 : s.ids = t.ids) (h3 : s.subs = t.subs) (h4 : s.now = t.now)
    (h5 : s.gConns = t.gConns) (h6 : s.gSubs = t.gSubs) (h7 : s.cMade = t.cMade) (h8 : s.cLost = t.cLost)
    (h9 : s.labels = t.labels) (h10 : s.accepted = t.accepted) : s = t := by
  cases s; cases t; simp_all

/-- a record update that neither reads nor writes `buf` -/
def BufFree (f : Conn → Conn) : Prop := ∀ β x, f (Conn.wb β x) = Conn.wb β (f x)

theorem conn_setBuf (s : State) (k : Nat) (β : Bytes) (d : Nat) :
    (setBuf s k β).conn d = if d = k then (s.conn d).map (Conn.wb β) else s.conn d := rfl

theorem conn_upd (s : State) (d : Nat) (f : Conn → Conn) (j : Nat) :
    (s.upd d f).conn j = if j = d then (s.conn j).map f else s.conn j := rfl

theorem upd_comm (s : State) (k d : Nat) (β : Bytes) (f : Conn → Conn) (hf : BufFree f) :
    (setBuf s k β).upd d f = setBuf (s.upd d f) k β := by
  apply state_ext <;> try rfl
  funext j
  rw [conn_upd, conn_setBuf, conn_setBuf, conn_upd]
  by_cases hjd : j = d
  · by_cases hjk : j = k
    · rw [if_pos hjd, if_pos hjk, if_pos hjk, if_pos hjd]
      cases s.conn j with
      | none => rfl
      | some x => simp only [Option.map_some]; rw [hf β x]
    · rw [if_pos hjd, if_neg hjk, if_neg hjk, if_pos hjd]
  · by_cases hjk : j = k
    · rw [if_neg hjd, if_pos hjk, if_pos hjk, if_neg hjd]
    · rw [if_neg hjd, if_neg hjk, if_neg hjk, if_neg hjd]

theorem conn_sb_none {s : State} {c : Nat} (k : Nat) (β : Bytes) (h : s.conn c = none) : (setBuf s k β).conn c = none := by
  rw [conn_setBuf, h]; split <;> rfl
theorem conn_sb_self {s : State} {c : Nat} {x : Conn} (β : Bytes) (h : s.conn c = some x) :
    (setBuf s c β).conn c = some (Conn.wb β x) := by
  rw [conn_setBuf, h, if_pos rfl]; rfl
theorem conn_sb_ne {s : State} {c k : Nat} (β : Bytes) (h : c ≠ k) : (setBuf s k β).conn c = s.conn c := by
  rw [conn_setBuf, if_neg h]

theorem logAct_sb (s : State) (k : Nat) (β : Bytes) (d : Nat) (a : Act) :
    logAct (setBuf s k β) d a = setBuf (logAct s d a) k β :=
  upd_comm s k d β _ (fun _ _ => rfl)

theorem closeT_sb (s : State) (k : Nat) (β : Bytes) (d : Nat) : closeT (setBuf s k β) d = setBuf (closeT s d) k β := by
  refine upd_comm s k d β _ (fun β x => ?_)
  show (if (Conn.wb β x).closing = true then _ else _) = _
  by_cases h : x.closing = true
  · have : (Conn.wb β x).closing = true := h
    rw [if_pos this, if_pos h]
  · have : ¬ (Conn.wb β x).closing = true := h
    rw [if_neg this, if_neg h]
    have hc : x.closing = false := by simpa using h
    simp [Conn.beginClose, Conn.wb, hc]

theorem errorClose_sb (s : State) (k : Nat) (β : Bytes) (d : Nat) :
    errorClose (setBuf s k β) d = setBuf (errorClose s d) k β := by
  unfold errorClose; rw [logAct_sb, closeT_sb]

/-- a primitive that commutes with writing the stale `buf` field of any connection -/
def Comm (p : State → State) : Prop := ∀ s k β, p (setBuf s k β) = setBuf (p s) k β

theorem comm_upd (d : Nat) (f : Conn → Conn) (hf : BufFree f) : Comm (fun s => s.upd d f) :=
  fun s k β => upd_comm s k d β f hf

/-- case analysis on the record of `d` under `setBuf s k β` -/
theorem sb_cases (s : State) (k d : Nat) (β : Bytes) :
    (s.conn d = none ∧ (setBuf s k β).conn d = none) ∨
    (∃ x, s.conn d = some x ∧ ((setBuf s k β).conn d = some x ∨ (setBuf s k β).conn d = some (Conn.wb β x))) := by
  cases hx : s.conn d with
  | none => exact Or.inl ⟨rfl, conn_sb_none k β hx⟩
  | some x =>
    right; refine ⟨x, rfl, ?_⟩
    by_cases h : d = k
    · subst h; exact Or.inr (conn_sb_self β hx)
    · left; rw [conn_sb_ne β h, hx]

theorem pauseReading_sb (s : State) (k : Nat) (β : Bytes) (c : Nat) :
    pauseReading (setBuf s k β) c = setBuf (pauseReading s c) k β := by
  unfold pauseReading
  rcases sb_cases s k c β with ⟨h1, h2⟩ | ⟨x, h1, h2 | h2⟩
  · rw [h1, h2]
  · rw [h1, h2]; simp only
    split
    · rfl
    · rw [← logAct_sb]; congr 1; exact upd_comm s k c β _ (fun _ _ => rfl)
  · rw [h1, h2]; simp only
    show (if (x.closing || x.paused) = true then _ else _) = _
    split
    · rfl
    · rw [← logAct_sb]; congr 1; exact upd_comm s k c β _ (fun _ _ => rfl)

theorem addPending_sb (s : State) (k : Nat) (β : Bytes) (c : Nat) (i d : Bytes) :
    addPending (setBuf s k β) c i d = setBuf (addPending s c i d) k β :=
  upd_comm s k c β _ (fun _ _ => rfl)

theorem noteSub_sb (s : State) (k : Nat) (β : Bytes) (c : Nat) (ch : Bytes) (ok : Bool) :
    noteSub (setBuf s k β) c ch ok = setBuf (noteSub s c ch ok) k β :=
  upd_comm s k c β _ (fun _ _ => rfl)

theorem noteUnsub_sb (s : State) (k : Nat) (β : Bytes) (c : Nat) (ch : Bytes) :
    noteUnsub (setBuf s k β) c ch = setBuf (noteUnsub s c ch) k β :=
  upd_comm s k c β _ (fun _ _ => rfl)

/-- struct updates of the non-`conn` fields commute with `setBuf` definitionally -/
theorem subscribe_sb (s : State) (k : Nat) (β : Bytes) (c : Nat) (ch : Bytes) :
    subscribe (setBuf s k β) c ch = setBuf (subscribe s c ch) k β := by
  unfold subscribe
  rcases sb_cases s k c β with ⟨h1, h2⟩ | ⟨x, h1, h2 | h2⟩
  · rw [h1, h2]
  · rw [h1, h2]; simp only
    split
    · rfl
    · exact upd_comm { s with gSubs := bump s.gSubs x.ak ch 1,
                              labels := if x.ak ∈ s.labels then s.labels else s.labels ++ [x.ak],
                              subs := fun j => if j = ch then s.subs j ++ [c] else s.subs j } k c β _ (fun _ _ => rfl)
  · rw [h1, h2]; simp only
    show (if ch ∈ x.active then _ else _) = _
    split
    · rfl
    · exact upd_comm { s with gSubs := bump s.gSubs x.ak ch 1,
                              labels := if x.ak ∈ s.labels then s.labels else s.labels ++ [x.ak],
                              subs := fun j => if j = ch then s.subs j ++ [c] else s.subs j } k c β _ (fun _ _ => rfl)

theorem unsubscribe_sb (s : State) (k : Nat) (β : Bytes) (c : Nat) (ch : Bytes) :
    unsubscribe (setBuf s k β) c ch = setBuf (unsubscribe s c ch) k β := by
  unfold unsubscribe
  rcases sb_cases s k c β with ⟨h1, h2⟩ | ⟨x, h1, h2 | h2⟩
  · rw [h1, h2]
  · rw [h1, h2]; simp only
    split
    · exact upd_comm { s with gSubs := bump s.gSubs x.ak ch (-1),
                              labels := if x.ak ∈ s.labels then s.labels else s.labels ++ [x.ak],
                              subs := fun j => if j = ch then (s.subs j).erase c else s.subs j } k c β _ (fun _ _ => rfl)
    · rfl
  · rw [h1, h2]; simp only
    show (if ch ∈ x.active then _ else _) = _
    split
    · exact upd_comm { s with gSubs := bump s.gSubs x.ak ch (-1),
                              labels := if x.ak ∈ s.labels then s.labels else s.labels ++ [x.ak],
                              subs := fun j => if j = ch then (s.subs j).erase c else s.subs j } k c β _ (fun _ _ => rfl)
    · rfl

theorem fold_unsub_sb (c : Nat) (k : Nat) (β : Bytes) (l : List Bytes) (s : State) :
    l.foldl (fun s ch => unsubscribe s c ch) (setBuf s k β) = setBuf (l.foldl (fun s ch => unsubscribe s c ch) s) k β := by
  induction l generalizing s with
  | nil => rfl
  | cons ch l ih => simp only [List.foldl_cons]; rw [unsubscribe_sb, ih]

theorem connectionLost_sb (s : State) (k : Nat) (β : Bytes) (c : Nat) :
    connectionLost (setBuf s k β) c = setBuf (connectionLost s c) k β := by
  unfold connectionLost
  rcases sb_cases s k c β with ⟨h1, h2⟩ | ⟨x, h1, h2 | h2⟩
  · rw [h1, h2]
  · rw [h1, h2]; simp only
    split
    · have : countLost (setBuf s k β) x.ak = setBuf (countLost s x.ak) k β := rfl
      rw [this, fold_unsub_sb]
      exact upd_comm _ k c β _ (fun _ _ => rfl)
    · rfl
  · rw [h1, h2]; simp only
    show (if x.registered = true then _ else _) = _
    split
    · have : countLost (setBuf s k β) x.ak = setBuf (countLost s x.ak) k β := rfl
      show (List.foldl (fun s ch => unsubscribe s c ch) (countLost (setBuf s k β) x.ak) x.active).upd c _ = _
      rw [this, fold_unsub_sb]
      exact upd_comm _ k c β _ (fun _ _ => rfl)
    · rfl

theorem deliver_sb (f : Frame) (s : State) (k : Nat) (β : Bytes) (d : Nat) :
    deliver f (setBuf s k β) d = setBuf (deliver f s d) k β := by
  unfold deliver
  rcases sb_cases s k d β with ⟨h1, h2⟩ | ⟨x, h1, h2 | h2⟩
  · rw [h1, h2]
  · rw [h1, h2]; simp only
    split
    · exact connectionLost_sb s k β d
    · exact logAct_sb s k β d _
  · rw [h1, h2]; simp only
    show (if x.closing = true then _ else _) = _
    split
    · exact connectionLost_sb s k β d
    · exact logAct_sb s k β d _

theorem fold_deliver_sb (f : Frame) (k : Nat) (β : Bytes) (l : List Nat) (s : State) :
    l.foldl (deliver f) (setBuf s k β) = setBuf (l.foldl (deliver f) s) k β := by
  induction l generalizing s with
  | nil => rfl
  | cons d l ih => simp only [List.foldl_cons]; rw [deliver_sb, ih]

/-- what `publish` reads of a destination's record is not `buf` -/
theorem closing_sb (s : State) (k : Nat) (β : Bytes) (d : Nat) :
    (match (setBuf s k β).conn d with | some y => !y.closing | none => false) =
    (match s.conn d with | some y => !y.closing | none => false) := by
  rcases sb_cases s k d β with ⟨h1, h2⟩ | ⟨x, h1, h2 | h2⟩ <;> rw [h1, h2] <;> rfl
theorem granted_sb (s : State) (k : Nat) (β : Bytes) (d : Nat) (ch : Bytes) :
    (match (setBuf s k β).conn d with | some y => decide (ch ∈ y.granted) | none => false) =
    (match s.conn d with | some y => decide (ch ∈ y.granted) | none => false) := by
  rcases sb_cases s k d β with ⟨h1, h2⟩ | ⟨x, h1, h2 | h2⟩ <;> rw [h1, h2] <;> rfl
theorem isOpenSub_sb (s : State) (k : Nat) (β : Bytes) (ch : Bytes) (d : Nat) :
    isOpenSub (setBuf s k β) ch d = isOpenSub s ch d := by
  unfold isOpenSub
  rcases sb_cases s k d β with ⟨h1, h2⟩ | ⟨x, h1, h2 | h2⟩ <;> rw [h1, h2] <;> rfl

theorem publish_sb (s : State) (k : Nat) (β : Bytes) (src : Nat) (x : Conn) (ident ch p : Bytes) :
    publish (setBuf s k β) src x ident ch p = setBuf (publish s src x ident ch p) k β := by
  unfold publish
  simp only
  have hsubs : (setBuf s k β).subs = s.subs := rfl
  have hids : (setBuf s k β).ids = s.ids := rfl
  have hnow : (setBuf s k β).now = s.now := rfl
  have h3 : isOpenSub (setBuf s k β) ch = isOpenSub s ch := funext (isOpenSub_sb s k β ch)
  rw [hsubs, hids, hnow, fold_deliver_sb, h3]
  have h1 := funext (closing_sb s k β)
  have h2 := funext (fun d => granted_sb s k β d ch)
  apply state_ext <;> try rfl
  show (List.foldl (deliver _) s _).accepted ++ [_] = (List.foldl (deliver _) s _).accepted ++ [_]
  refine congrArg (fun r => (List.foldl (deliver (pubFrame ident ch p)) s (s.subs ch).eraseDups).accepted ++ [r]) ?_
  simp only [Accepted.mk.injEq, true_and]
  refine ⟨congrArg (fun g => List.filter g (s.subs ch).eraseDups) h1, ?_⟩
  exact (congrArg (fun g => (List.filter g (s.subs ch).eraseDups).all _) h1).trans
    (congrArg (fun g => (List.filter _ (s.subs ch).eraseDups).all g) h2)

theorem setAuth_sb (s : State) (k : Nat) (β : Bytes) (c : Nat) (ident digest : Bytes) (row : Row) :
    setAuth (setBuf s k β) c ident digest row = setBuf (setAuth s c ident digest row) k β := by
  unfold setAuth
  rcases sb_cases s k c β with ⟨h1, h2⟩ | ⟨x, h1, h2 | h2⟩
  · rw [h1, h2]
  · rw [h1, h2]
    exact upd_comm { s with gSubs := x.active.foldl (fun g ch => bump (bump g x.ak ch (-1)) (some ident) ch 1) s.gSubs,
                            labels := if some ident ∈ s.labels then s.labels else s.labels ++ [some ident] } k c β _ (fun _ _ => rfl)
  · rw [h1, h2]
    exact upd_comm { s with gSubs := x.active.foldl (fun g ch => bump (bump g x.ak ch (-1)) (some ident) ch 1) s.gSubs,
                            labels := if some ident ∈ s.labels then s.labels else s.labels ++ [some ident] } k c β _ (fun _ _ => rfl)

theorem authOk_wb (cfg : Cfg) (β : Bytes) (x : Conn) (d : Bytes) (r : Lookup) :
    authOk cfg (Conn.wb β x) d r = authOk cfg x d r := by cases r <;> rfl

theorem authenticate_sb (cfg : Cfg) (s : State) (k : Nat) (β : Bytes) (c : Nat) (x : Conn) (i d : Bytes) (r : Lookup) :
    authenticate cfg (setBuf s k β) c x i d r = (setBuf (authenticate cfg s c x i d r).1 k β, (authenticate cfg s c x i d r).2) := by
  unfold authenticate
  cases authOk cfg x d r with
  | none => simp only; rw [errorClose_sb]
  | some row => simp only; rw [setAuth_sb, logAct_sb]

theorem doSubscribe_sb (s : State) (k : Nat) (β : Bytes) (c : Nat) (ch : Bytes) (ok : Bool) :
    doSubscribe (setBuf s k β) c ch ok = setBuf (doSubscribe s c ch ok) k β := by
  unfold doSubscribe; rw [subscribe_sb, noteSub_sb]
theorem doUnsubscribe_sb (s : State) (k : Nat) (β : Bytes) (c : Nat) (ch : Bytes) :
    doUnsubscribe (setBuf s k β) c ch = setBuf (doUnsubscribe s c ch) k β := by
  unfold doUnsubscribe; rw [unsubscribe_sb, noteUnsub_sb]

/-- the handler of one frame neither reads nor writes the (stale) `buf` field -/
theorem messageReceived_sb (cfg : Cfg) (s : State) (k : Nat) (β : Bytes) (c : Nat) (f : Frame) :
    messageReceived cfg (setBuf s k β) c f =
      (setBuf (messageReceived cfg s c f).1 k β, (messageReceived cfg s c f).2) := by
  -- it suffices to treat a record `y` that agrees with `x` on everything the handler reads
  have key : ∀ (x y : Conn), s.conn c = some x → (setBuf s k β).conn c = some y →
      y.ak = x.ak → y.registered = x.registered → y.pubchans = x.pubchans → y.subchans = x.subchans →
      y.nonce = x.nonce →
      messageReceived cfg (setBuf s k β) c f =
        (setBuf (messageReceived cfg s c f).1 k β, (messageReceived cfg s c f).2) := by
    intro x y hx hy e1 e2 e3 e4 e5
    unfold messageReceived
    rw [hx, hy]
    simp only [e1, e2, e3, e4]
    split
    · simp only; rw [errorClose_sb]
    · cases read f with
      | none => simp only; rw [closeT_sb]
      | some e =>
        cases e with
        | error _ => rfl
        | ok m =>
          cases m with
          | error _ => rfl
          | info _ _ => rfl
          | auth ident digest =>
            simp only
            split
            · rfl
            · cases cfg.store with
              | sync tbl =>
                simp only
                have : ∀ r, authenticate cfg (setBuf s k β) c y ident digest r = authenticate cfg (setBuf s k β) c x ident digest r := by
                  intro r; unfold authenticate
                  have : authOk cfg y digest r = authOk cfg x digest r := by cases r <;> simp [authOk, e5]
                  rw [this]
                rw [this, authenticate_sb]
              | async => simp only; rw [addPending_sb, pauseReading_sb]
          | publish ident ch p =>
            simp only
            split
            · simp only; rw [errorClose_sb]
            · split
              · simp only; rw [errorClose_sb]
              · split
                · rfl
                · simp only
                  have : publish (setBuf s k β) c y ident ch p = publish (setBuf s k β) c x ident ch p := by
                    unfold publish; simp only [e1, e3]
                  rw [this, publish_sb]
          | subscribe _ ch =>
            simp only
            split <;> split <;> simp only <;>
              first | rfl | rw [errorClose_sb, doSubscribe_sb] | rw [doSubscribe_sb] | rw [errorClose_sb]
          | unsubscribe _ ch =>
            simp only
            split
            · rfl
            · simp only; rw [doUnsubscribe_sb]
  rcases sb_cases s k c β with ⟨h1, h2⟩ | ⟨x, h1, h2 | h2⟩
  · unfold messageReceived; rw [h1, h2]
  · exact key x x h1 h2 rfl rfl rfl rfl rfl
  · exact key x (Conn.wb β x) h1 h2 rfl rfl rfl rfl rfl

theorem loop_sb (cfg : Cfg) (c : Nat) (k : Nat) (β : Bytes) :
    ∀ (buf : Bytes) (s : State), loop cfg c (setBuf s k β) buf =
      (setBuf (loop cfg c s buf).1 k β, (loop cfg c s buf).2) := by
  intro buf
  induction hn : buf.length using Nat.strongRecOn generalizing buf with
  | _ n ih =>
    intro s
    cases hh : header buf with
    | wait => rw [loop_wait' hh, loop_wait' hh]
    | bad e => rw [loop_bad' hh, loop_bad' hh, closeT_sb]
    | ok ml op =>
      have hk := header_ok hh
      rw [loop_ok' hh, loop_ok' hh, messageReceived_sb]
      cases hctl : (messageReceived cfg s c (popFrame buf ml op).1).2 with
      | cont =>
        simp only
        exact ih _ (by simp only [popFrame, List.length_drop]; omega) _ rfl _
      | brk => rfl
      | crash => rfl

/-- The broker's frame loop is independent of how the bytes were split: if the loop over `a` ran to the
    end of the complete frames (it did not park, crash or meet a bad header), then the loop over `a ++ b`
    is the loop over the left-over bytes followed by `b`, continued from the state reached. -/
theorem loop_append (cfg : Cfg) (c : Nat) :
    ∀ (a : Bytes) (s : State) (b : Bytes), (loop cfg c s a).2.2 = .cont → header (loop cfg c s a).2.1 = .wait →
      loop cfg c s (a ++ b) = loop cfg c (loop cfg c s a).1 ((loop cfg c s a).2.1 ++ b) := by
  intro a
  induction hn : a.length using Nat.strongRecOn generalizing a with
  | _ n ih =>
    intro s b hc hw
    cases hh : header a with
    | wait => rw [loop_wait' hh]
    | bad e =>
      rw [loop_bad' hh] at hw
      simp only at hw
      rw [hh] at hw; cases hw
    | ok ml op =>
      have hk := header_ok hh
      have hpop : popFrame (a ++ b) ml op = ((popFrame a ml op).1, (popFrame a ml op).2 ++ b) := by
        simp only [popFrame]
        rw [List.drop_append_of_le_length hk.2, List.drop_append_of_le_length (by omega),
          List.take_append_of_le_length (by simp; omega)]
      rw [loop_ok' hh] at hc hw ⊢
      rw [loop_ok' (header_append_ok hh), hpop]
      cases hctl : (messageReceived cfg s c (popFrame a ml op).1).2 with
      | cont =>
        rw [hctl] at hc hw
        simp only at hc hw ⊢
        exact ih _ (by simp only [popFrame, List.length_drop]; omega) _ rfl _ b hc hw
      | brk => rw [hctl] at hc; cases hc
      | crash => rw [hctl] at hc; cases hc

theorem setBuf_setBuf (s : State) (c : Nat) (β γ : Bytes) : setBuf (setBuf s c β) c γ = setBuf s c γ := by
  apply state_ext <;> try rfl
  funext j
  rw [conn_setBuf, conn_setBuf, conn_setBuf]
  by_cases h : j = c
  · rw [if_pos h, if_pos h, if_pos h]; cases s.conn j <;> rfl
  · rw [if_neg h, if_neg h, if_neg h]

/-- CHUNKING IS IRRELEVANT TO THE BROKER, at the level of events.  In ANY state: if handling chunk `a` on
    connection `c` ran to the end of its complete frames (it did not park behind an asynchronous AUTH, no
    handler raised, no bad header: i.e. `c` may receive more data), then delivering `a` and then `b` leaves
    the broker in exactly the state of delivering `a ++ b` at once — every connection's log, the registry,
    the gauges, the accepted log. -/
theorem data_chunking (cfg : Cfg) (s : State) (c : Nat) (x : Conn) (a b : Bytes) (hx : s.conn c = some x)
    (hc : (loop cfg c s (x.buf ++ a)).2.2 = .cont) (hw : header (loop cfg c s (x.buf ++ a)).2.1 = .wait) :
    step cfg (step cfg s (.data c a)) (.data c b) = step cfg s (.data c (a ++ b)) := by
  obtain ⟨y, hy, _⟩ := pres_loop ((monoPres cfg s).prim c) s (x.buf ++ a) (Mono.refl s) c x hx
  have h1 : step cfg s (.data c a) = setBuf (loop cfg c s (x.buf ++ a)).1 c (loop cfg c s (x.buf ++ a)).2.1 := by
    simp only [step, hx, hc]
    simp
  have hy1 : (setBuf (loop cfg c s (x.buf ++ a)).1 c (loop cfg c s (x.buf ++ a)).2.1).conn c =
      some (Conn.wb (loop cfg c s (x.buf ++ a)).2.1 y) := conn_sb_self _ hy
  rw [h1]
  simp only [step, hy1, hx]
  have hb : (Conn.wb (loop cfg c s (x.buf ++ a)).2.1 y).buf = (loop cfg c s (x.buf ++ a)).2.1 := rfl
  rw [hb, loop_sb, ← List.append_assoc, loop_append cfg c (x.buf ++ a) s b hc hw]
  simp only [setBuf_setBuf]

end Hpfeeds.Broker
