/-
  Blocking Client: invariants over ALL event sequences (application steps, environment answers, stop() at
  any moment, any callback behaviour `cfg.react`).
-/
import Hpfeeds.Model.BlkClient
import Hpfeeds.Lemmas.Wire
namespace Hpfeeds.BlkClient
open Hpfeeds Extracted

/-! ### C11: nothing before OP_INFO, first frame = OP_AUTH for this connection's nonce -/

/-- pcs in which the current connection is being set up -/
def ConnPc : Pc → Prop
  | .connecting _ _ => True
  | .authRecv _ => True
  | .authSend _ _ => True
  | _ => False

/-- pcs in which a SUBSCRIBE / PUBLISH is being sent -/
def SendPc : Pc → Prop
  | .subSend _ _ _ => True
  | .pubSend _ _ => True
  | _ => False

/-- holds wherever the client is outside `connect()`/`do_auth()`: -/
structure KOK (cfg : Cfg) (s : State) : Prop where
  quiet : s.nonce = none → s.sent = []
  first : ∀ r, s.nonce = some r → ∃ rest, s.sent = authFrame cfg r :: rest
  authed : usable s = true → s.nonce.isSome = true     -- a usable socket has been authenticated
  pre : ConnPc s.pc → s.nonce = none
  sendp : SendPc s.pc → s.nonce.isSome = true

/-- … and everywhere -/
structure KInv (cfg : Cfg) (s : State) : Prop where
  quiet : s.nonce = none → s.sent = []
  first : ∀ r, s.nonce = some r → ∃ rest, s.sent = authFrame cfg r :: rest
  pre : ConnPc s.pc → s.nonce = none
  sendp : SendPc s.pc → s.nonce.isSome = true
  authed : (usable s = true → s.nonce.isSome = true) ∨ (∃ w, s.pc = .authRecv w) ∨ (∃ w r, s.pc = .authSend w r) ∨
    s.pc = .crashed

theorem KOK.inv {cfg : Cfg} {s : State} (h : KOK cfg s) : KInv cfg s :=
  ⟨h.quiet, h.first, h.pre, h.sendp, Or.inl h.authed⟩

/-- same socket, same log, `pc` free to move among the pcs outside connection set-up -/
theorem kok_same {cfg : Cfg} {s s' : State} (h : KOK cfg s) (h1 : s'.sent = s.sent) (h2 : s'.nonce = s.nonce)
    (h3 : s'.sockUp = s.sockUp) (h4 : s.sockClosed = true → s'.sockClosed = true)
    (h5 : s'.pc = s.pc ∨ (¬ ConnPc s'.pc ∧ ¬ SendPc s'.pc)) : KOK cfg s' := by
  refine ⟨by rw [h1, h2]; exact h.quiet, by rw [h1, h2]; exact h.first, ?_, ?_, ?_⟩
  · intro hu
    rw [h2]; apply h.authed
    simp only [usable, Bool.and_eq_true, Bool.not_eq_true'] at hu ⊢
    refine ⟨by rw [← h3]; exact hu.1, ?_⟩
    cases hc : s.sockClosed with
    | false => rfl
    | true => rw [h4 hc] at hu; exact absurd hu.2 (by simp)
  · intro hp
    rcases h5 with h5 | h5
    · rw [h2]; rw [h5] at hp; exact h.pre hp
    · exact absurd hp h5.1
  · intro hp
    rcases h5 with h5 | h5
    · rw [h2]; rw [h5] at hp; exact h.sendp hp
    · exact absurd hp h5.2

/-- entering a send: the socket was usable, hence authenticated -/
theorem kok_send {cfg : Cfg} {s s' : State} (h : KOK cfg s) (hu : usable s = true) (h1 : s'.sent = s.sent)
    (h2 : s'.nonce = s.nonce) (h3 : s'.sockUp = s.sockUp) (h4 : s'.sockClosed = s.sockClosed) (h5 : ¬ ConnPc s'.pc) :
    KOK cfg s' := by
  refine ⟨by rw [h1, h2]; exact h.quiet, by rw [h1, h2]; exact h.first, ?_, fun hp => absurd hp h5, ?_⟩
  · intro _; rw [h2]; exact h.authed hu
  · intro _; rw [h2]; exact h.authed hu

theorem kok_closeSock {cfg : Cfg} {s : State} (h : KOK cfg s) : KOK cfg (closeSock s).1 := by
  unfold closeSock; split
  · exact h
  · exact kok_same h rfl rfl rfl (fun _ => rfl) (Or.inl rfl)

theorem kok_newSocket {cfg : Cfg} (s : State) (i : Nat) (who : Who) : KOK cfg (newSocket s i who).1 :=
  ⟨fun _ => rfl, fun r h => (by cases h), fun h => (by simp [usable, newSocket] at h), fun _ => rfl,
   fun h => (by simp [newSocket, SendPc] at h)⟩

theorem kok_startConnect {cfg : Cfg} (s : State) (who : Who) : KOK cfg (startConnect s who).1 :=
  kok_newSocket _ 0 who

theorem kok_retry {cfg : Cfg} (s : State) (who : Who) : KOK cfg (retry s who).1 := kok_startConnect s who

theorem kok_subLoop {cfg : Cfg} {s : State} (k : SubK) (chs : List Bytes) (h : KOK cfg s) : KOK cfg (subLoop s k chs).1 := by
  cases chs with
  | nil => exact h
  | cons ch rest =>
    simp only [subLoop]; split
    · rename_i hu; exact kok_send h hu rfl rfl rfl rfl (by simp [ConnPc])
    · exact kok_same h rfl rfl rfl (fun hc => hc) (Or.inl rfl)

theorem kok_afterInner {cfg : Cfg} {s : State} (h : KOK cfg s) : KOK cfg (afterInner s).1 := by
  unfold afterInner; split
  · exact kok_same h rfl rfl rfl (fun hc => hc) (Or.inr ⟨by simp [ConnPc], by simp [SendPc]⟩)
  · split
    · exact kok_same h rfl rfl rfl (fun hc => hc) (Or.inr ⟨by simp [ConnPc], by simp [SendPc]⟩)
    · exact kok_startConnect s .run

theorem kok_recvLoop {cfg : Cfg} {s : State} (h : KOK cfg s) : KOK cfg (recvLoop s).1 := by
  unfold recvLoop; split
  · split
    · exact kok_same h rfl rfl rfl (fun hc => hc) (Or.inr ⟨by simp [ConnPc], by simp [SendPc]⟩)
    · exact kok_afterInner (kok_same h rfl rfl rfl (fun hc => hc) (Or.inl rfl))
  · exact kok_afterInner h

theorem kok_runTop {cfg : Cfg} {s : State} (h : KOK cfg s) : KOK cfg (runTop s).1 := by
  unfold runTop; split
  · exact kok_same h rfl rfl rfl (fun hc => hc) (Or.inr ⟨by simp [ConnPc], by simp [SendPc]⟩)
  · simp only
    split
    · exact kok_recvLoop (kok_subLoop _ _ h)
    · exact kok_subLoop _ _ h

theorem kok_startPublish {cfg : Cfg} {s : State} (k : PubK) (ch p : Bytes) (h : KOK cfg s) :
    KOK cfg (startPublish cfg s k ch p).1 := by
  unfold startPublish; split
  · rename_i hu; exact kok_send h hu rfl rfl rfl rfl (by simp [ConnPc])
  · exact kok_startConnect _ _

theorem kok_doActs {cfg : Cfg} {s : State} (acts : List Act) (h : KOK cfg s) : KOK cfg (doActs cfg s acts).1 := by
  induction acts generalizing s with
  | nil => exact h
  | cons a r ih =>
    cases a with
    | stop => simp only [doActs]; exact ih (kok_same h rfl rfl rfl (fun hc => hc) (Or.inl rfl))
    | sub ch => simp only [doActs]; exact ih (kok_same h rfl rfl rfl (fun hc => hc) (Or.inl rfl))
    | pub ch p => simp only [doActs]; exact kok_startPublish _ _ _ h

/-- induction principle for run()'s frame loop: a predicate kept by taking a frame, by noting the
    callback that frame is owed, and by whatever the callback does, holds of the loop's result -/
theorem frameLoop_ind (cfg : Cfg) (P : State → Prop)
    (hpop : ∀ s ml op, header s.ubuf = .ok ml op → P s → P (popRun s ml op))
    (hnote : ∀ s ml op, header s.ubuf = .ok ml op → P (popRun s ml op) →
      P (noteRun (popRun s ml op) (popFrame s.ubuf ml op).1 (cbOf (popFrame s.ubuf ml op).1)))
    (hacts : ∀ s acts, P s → P (doActs cfg s acts).1)
    (s : State) (h : P s) : P (frameLoop cfg s).1 := by
  induction hn : s.ubuf.length using Nat.strongRecOn generalizing s with
  | _ n ih =>
    rw [frameLoop]
    split
    · exact h
    · exact h
    · rename_i ml op hh
      have hk := header_ok hh
      have hlt : (popRun s ml op).ubuf.length < n := by
        simp only [popRun, popFrame, List.length_drop]; omega
      have h1 := hnote s ml op hh (hpop s ml op hh h)
      simp only
      split
      · rename_i hop
        split
        · rename_i i c p hrd
          have hc : cbOf (popFrame s.ubuf ml op).1 = some (.msg (i, c, p)) := by simp only [cbOf, if_pos hop, hrd]
          rw [hc] at h1
          have h2 := hacts _ (cfg.react (i, c, p)) h1
          split
          · rename_i hr
            refine ih _ ?_ _ h2 rfl
            rw [doActs_ubuf cfg _ _ hr]; exact hlt
          · exact h2
        · rename_i hrd
          have hc : cbOf (popFrame s.ubuf ml op).1 = none := by
            simp only [cbOf, if_pos hop]
          rw [hc] at h1; exact h1
      · rename_i hop
        split
        · rename_i hop2
          split
          · rename_i t hrd
            have hc : cbOf (popFrame s.ubuf ml op).1 = some (.err t) := by simp only [cbOf, if_neg hop, if_pos hop2, hrd]
            rw [hc] at h1
            exact ih _ hlt _ h1 rfl
          · rename_i hrd
            have hc : cbOf (popFrame s.ubuf ml op).1 = none := by
              simp only [cbOf, if_neg hop, if_pos hop2]
            rw [hc] at h1; exact h1
        · rename_i hop2
          have hc : cbOf (popFrame s.ubuf ml op).1 = none := by simp only [cbOf, if_neg hop, if_neg hop2]
          rw [hc] at h1
          exact ih _ hlt _ h1 rfl

theorem kok_frameLoop {cfg : Cfg} (s : State) (h : KOK cfg s) : KOK cfg (frameLoop cfg s).1 :=
  frameLoop_ind cfg (KOK cfg)
    (fun _ _ _ _ h => kok_same h rfl rfl rfl (fun hc => hc) (Or.inl rfl))
    (fun _ _ _ _ h => kok_same h rfl rfl rfl (fun hc => hc) (Or.inl rfl))
    (fun _ acts h => kok_doActs acts h) s h

theorem kok_afterFrames {cfg : Cfg} (r : State × List Out × FL) (h : KOK cfg r.1) : KOK cfg (afterFrames cfg r).1 := by
  unfold afterFrames
  split
  · exact h
  · exact kok_same h rfl rfl rfl (fun hc => hc) (Or.inr ⟨by simp [ConnPc], by simp [SendPc]⟩)
  · exact kok_afterInner (kok_same h rfl rfl rfl (fun hc => hc) (Or.inl rfl))
  · split
    · exact kok_afterInner h
    · exact kok_recvLoop h

theorem kok_afterPub {cfg : Cfg} {s : State} (k : PubK) (h : KOK cfg s) : KOK cfg (afterPub cfg s k).1 := by
  cases k with
  | idle => exact kok_same (s' := { s with pc := .idle }) h rfl rfl rfl (fun hc => hc) (Or.inr ⟨by simp [ConnPc], by simp [SendPc]⟩)
  | cb rest =>
    simp only [afterPub]
    split
    · exact kok_afterFrames _ (kok_frameLoop _ (kok_doActs _ h))
    · exact kok_doActs _ h

theorem kok_afterSub {cfg : Cfg} {s : State} (k : SubK) (h : KOK cfg s) : KOK cfg (afterSub cfg s k).1 := by
  cases k with
  | run => exact kok_recvLoop h
  | pub k => exact kok_afterPub k h

theorem kok_resume {cfg : Cfg} {s : State} (w : Who) (h : KOK cfg s) : KOK cfg (resume cfg s w).1 := by
  cases w with
  | init => exact kok_same (s' := { s with pc := .idle }) h rfl rfl rfl (fun hc => hc) (Or.inr ⟨by simp [ConnPc], by simp [SendPc]⟩)
  | run => exact kok_runTop h
  | pub k =>
    simp only [resume]
    split
    · exact kok_afterPub k (kok_subLoop _ _ h)
    · exact kok_subLoop _ _ h

theorem kok_append {cfg : Cfg} {s : State} (f : Bytes) (h : KOK cfg s) (hn : s.nonce.isSome = true) :
    KOK cfg { s with sent := s.sent ++ [f] } := by
  obtain ⟨r, hr⟩ := Option.isSome_iff_exists.mp hn
  obtain ⟨rest, hrest⟩ := h.first r hr
  refine ⟨fun h' => ?_, fun r' hr' => ?_, h.authed, h.pre, h.sendp⟩
  · simp only at h'; rw [hr] at h'; cases h'
  · simp only at hr' ⊢
    rw [hr] at hr'; cases hr'
    rw [hrest]; exact ⟨rest ++ [f], by simp⟩

/-- outside connection set-up and not crashed, the weak invariant is the strong one -/
theorem KInv.ok {cfg : Cfg} {s : State} (h : KInv cfg s) (h1 : ∀ w, s.pc ≠ .authRecv w)
    (h2 : ∀ w r, s.pc ≠ .authSend w r) (h3 : s.pc ≠ .crashed) : KOK cfg s := by
  refine ⟨h.quiet, h.first, ?_, h.pre, h.sendp⟩
  rcases h.authed with a | ⟨w, a⟩ | ⟨w, r, a⟩ | a
  · exact a
  · exact absurd a (h1 w)
  · exact absurd a (h2 w r)
  · exact absurd a h3

theorem kinv_init (cfg : Cfg) : KInv cfg {} :=
  ⟨fun _ => rfl, fun r h => (by cases h), fun _ => rfl, fun h => (by simp [SendPc] at h),
   Or.inl (fun h => (by simp [usable] at h))⟩

theorem kinv_doAuth {cfg : Cfg} {s : State} (who : Who) (b : Bytes) (h : KInv cfg s) (hn : s.nonce = none) :
    KInv cfg (doAuth cfg s who b).1 := by
  unfold doAuth
  simp only
  split
  · exact (kok_retry _ who).inv
  · exact (kok_retry _ who).inv
  · split
    · split
      · exact ⟨h.quiet, h.first, fun _ => hn, fun hp => (by simp [SendPc] at hp), Or.inr (Or.inr (Or.inl ⟨_, _, rfl⟩))⟩
      · exact ⟨h.quiet, h.first, fun hp => (by simp [ConnPc] at hp), fun hp => (by simp [SendPc] at hp),
          Or.inr (Or.inr (Or.inr rfl))⟩
    · exact (kok_retry _ who).inv

theorem kinv_step (cfg : Cfg) (s : State) (e : Ev) (h : KInv cfg s) : KInv cfg (step cfg s e).1 := by
  unfold step
  split
  · -- stop
    refine ⟨h.quiet, h.first, h.pre, h.sendp, ?_⟩
    rcases h.authed with a | a | a | a
    · exact Or.inl a
    · exact Or.inr (Or.inl a)
    · exact Or.inr (Or.inr (Or.inl a))
    · exact Or.inr (Or.inr (Or.inr a))
  · have okOf : ∀ {pc : Pc}, s.pc = pc → (∀ w, pc ≠ .authRecv w) → (∀ w r, pc ≠ .authSend w r) → pc ≠ .crashed → KOK cfg s :=
      fun hp a b c => h.ok (fun w => by rw [hp]; exact a w) (fun w r => by rw [hp]; exact b w r) (by rw [hp]; exact c)
    split
    · exact KOK.inv (kok_startConnect s .init)
    · rename_i hp _
      exact KOK.inv (kok_same (okOf hp (by simp) (by simp) (by simp)) rfl rfl rfl (fun hc => hc) (Or.inl rfl))
    · rename_i hp _; exact KOK.inv (kok_startPublish _ _ _ (okOf hp (by simp) (by simp) (by simp)))
    · rename_i hp _; exact KOK.inv (kok_runTop (okOf hp (by simp) (by simp) (by simp)))
    · rename_i hp _; exact KOK.inv (kok_closeSock (okOf hp (by simp) (by simp) (by simp)))
    · -- connOk
      rename_i hp _
      have hn : s.nonce = none := h.pre (by rw [hp]; trivial)
      exact ⟨h.quiet, h.first, fun _ => hn, fun hq => (by simp [SendPc] at hq), Or.inr (Or.inl ⟨_, rfl⟩)⟩
    · -- connRefused
      split
      · exact KOK.inv (kok_newSocket _ _ _)
      · split <;> exact KOK.inv (kok_retry _ _)
    · -- authRecv data
      rename_i hp _
      have hn : s.nonce = none := h.pre (by rw [hp]; trivial)
      split
      · exact KOK.inv (kok_retry _ _)
      · exact kinv_doAuth _ _ h hn
    · exact KOK.inv (kok_retry _ _)
    · exact KOK.inv (kok_retry _ _)
    · exact KOK.inv (kok_retry _ _)
    · -- authSend sendOk
      rename_i who rand hp _
      have hn : s.nonce = none := h.pre (by rw [hp]; trivial)
      have hs : s.sent = [] := h.quiet hn
      simp only
      refine KOK.inv (kok_resume who ?_)
      refine ⟨fun h' => (by cases h'), fun r hr => ?_, fun _ => rfl, fun hq => (by simp [ConnPc] at hq),
        fun hq => (by simp [SendPc] at hq)⟩
      simp only at hr ⊢
      cases hr
      exact ⟨[], by rw [hs]; rfl⟩
    · exact KOK.inv (kok_retry _ _)
    · exact KOK.inv (kok_retry _ _)
    · -- subSend sendOk
      rename_i ch rest k hp _
      have hk : KOK cfg s := okOf hp (by simp) (by simp) (by simp)
      have hsome : s.nonce.isSome = true := h.sendp (by rw [hp]; trivial)
      have h1 := kok_append (subFrame cfg ch) hk hsome
      simp only
      split
      · exact KOK.inv (kok_afterSub k (kok_subLoop k rest h1))
      · exact KOK.inv (kok_subLoop k rest h1)
    · rename_i hp _
      exact KOK.inv (kok_afterSub _ (kok_same (okOf hp (by simp) (by simp) (by simp)) rfl rfl rfl (fun hc => hc) (Or.inl rfl)))
    · rename_i hp _
      exact KOK.inv (kok_afterSub _ (kok_same (okOf hp (by simp) (by simp) (by simp)) rfl rfl rfl (fun hc => hc) (Or.inl rfl)))
    · -- runRecv data
      rename_i hp _
      have hk : KOK cfg s := okOf hp (by simp) (by simp) (by simp)
      split
      · exact KOK.inv (kok_afterInner (kok_same hk rfl rfl rfl (fun hc => hc) (Or.inl rfl)))
      · exact KOK.inv (kok_afterFrames _ (kok_frameLoop _ (kok_same hk rfl rfl rfl (fun hc => hc) (Or.inl rfl))))
    · rename_i hp _
      exact KOK.inv (kok_afterInner (kok_same (okOf hp (by simp) (by simp) (by simp)) rfl rfl rfl (fun hc => hc) (Or.inl rfl)))
    · rename_i hp _
      exact KOK.inv (kok_afterInner (kok_same (okOf hp (by simp) (by simp) (by simp)) rfl rfl rfl (fun hc => hc) (Or.inl rfl)))
    · rename_i hp _
      exact KOK.inv (kok_afterFrames _ (kok_frameLoop _ (okOf hp (by simp) (by simp) (by simp))))
    · -- pubSend sendOk
      rename_i k frame hp _
      have hk : KOK cfg s := okOf hp (by simp) (by simp) (by simp)
      have hsome : s.nonce.isSome = true := h.sendp (by rw [hp]; trivial)
      simp only
      exact KOK.inv (kok_afterPub k (kok_append frame hk hsome))
    · exact KOK.inv (kok_startConnect _ _)
    · exact KOK.inv (kok_startConnect _ _)
    · exact h

theorem kinv_run (cfg : Cfg) (es : List Ev) : KInv cfg (run cfg es).1 := by
  unfold run
  suffices ∀ (acc : State × List Out), KInv cfg acc.1 →
      KInv cfg (es.foldl (fun acc e => let r := step cfg acc.1 e; (r.1, acc.2 ++ r.2)) acc).1 from
    this ({}, []) (kinv_init cfg)
  induction es with
  | nil => intro acc h; exact h
  | cons e es ih => intro acc h; simp only [List.foldl_cons]; exact ih _ (kinv_step cfg acc.1 e h)

/-! ### C12: the unpacker's bytes are accounted for; callbacks = the frames run() took, in order -/

/-- the data fields: what run() decodes and delivers -/
structure DataEq (s s' : State) : Prop where
  ubuf : s'.ubuf = s.ubuf
  fed : s'.fed = s.fed
  popped : s'.popped = s.popped
  runFrames : s'.runFrames = s.runFrames
  delivered : s'.delivered = s.delivered

theorem DataEq.refl (s : State) : DataEq s s := ⟨rfl, rfl, rfl, rfl, rfl⟩
theorem DataEq.trans {a b c : State} (h1 : DataEq a b) (h2 : DataEq b c) : DataEq a c :=
  ⟨h2.ubuf.trans h1.ubuf, h2.fed.trans h1.fed, h2.popped.trans h1.popped, h2.runFrames.trans h1.runFrames,
   h2.delivered.trans h1.delivered⟩

theorem de_closeSock (s : State) : DataEq s (closeSock s).1 := by
  unfold closeSock; split <;> exact ⟨rfl, rfl, rfl, rfl, rfl⟩
theorem de_newSocket (s : State) (i : Nat) (w : Who) : DataEq s (newSocket s i w).1 := ⟨rfl, rfl, rfl, rfl, rfl⟩
theorem de_startConnect (s : State) (w : Who) : DataEq s (startConnect s w).1 :=
  (de_closeSock s).trans (de_newSocket _ 0 w)
theorem de_retry (s : State) (w : Who) : DataEq s (retry s w).1 := de_startConnect s w
theorem de_subLoop (s : State) (k : SubK) (chs : List Bytes) : DataEq s (subLoop s k chs).1 := by
  cases chs with
  | nil => exact DataEq.refl s
  | cons ch rest => simp only [subLoop]; split <;> exact ⟨rfl, rfl, rfl, rfl, rfl⟩
theorem de_afterInner (s : State) : DataEq s (afterInner s).1 := by
  unfold afterInner; split
  · exact ⟨rfl, rfl, rfl, rfl, rfl⟩
  · split
    · exact ⟨rfl, rfl, rfl, rfl, rfl⟩
    · exact de_startConnect s .run
theorem de_recvLoop (s : State) : DataEq s (recvLoop s).1 := by
  unfold recvLoop; split
  · split
    · exact ⟨rfl, rfl, rfl, rfl, rfl⟩
    · have h1 : DataEq s { s with connected := false } := ⟨rfl, rfl, rfl, rfl, rfl⟩
      exact h1.trans (de_afterInner _)
  · exact de_afterInner s
theorem de_runTop (s : State) : DataEq s (runTop s).1 := by
  unfold runTop; split
  · exact ⟨rfl, rfl, rfl, rfl, rfl⟩
  · simp only
    split
    · exact (de_subLoop s .run _).trans (de_recvLoop _)
    · exact de_subLoop s .run _
theorem de_startPublish (cfg : Cfg) (s : State) (k : PubK) (ch p : Bytes) : DataEq s (startPublish cfg s k ch p).1 := by
  unfold startPublish; split
  · exact ⟨rfl, rfl, rfl, rfl, rfl⟩
  · have h1 : DataEq s { s with connected := false } := ⟨rfl, rfl, rfl, rfl, rfl⟩
    exact h1.trans (de_startConnect _ _)
theorem de_doActs (cfg : Cfg) (s : State) (acts : List Act) : DataEq s (doActs cfg s acts).1 := by
  induction acts generalizing s with
  | nil => exact DataEq.refl s
  | cons a r ih =>
    cases a with
    | stop =>
      simp only [doActs]
      have h1 : DataEq s { s with stopped := true } := ⟨rfl, rfl, rfl, rfl, rfl⟩
      exact h1.trans (ih _)
    | sub ch =>
      simp only [doActs]
      have h1 : DataEq s { s with subs := if ch ∈ s.subs then s.subs else s.subs ++ [ch] } := ⟨rfl, rfl, rfl, rfl, rfl⟩
      exact h1.trans (ih _)
    | pub ch p => simp only [doActs]; exact de_startPublish cfg s _ ch p

/-- the data invariant -/
structure DInv (s : State) : Prop where
  bytes : s.fed = s.popped.flatMap enc ++ s.ubuf
  cbs : s.delivered = s.runFrames.filterMap cbOf

theorem dinv_of_eq {s s' : State} (h : DInv s) (k : DataEq s s') : DInv s' :=
  ⟨by rw [k.fed, k.popped, k.ubuf]; exact h.bytes, by rw [k.delivered, k.runFrames]; exact h.cbs⟩

theorem dinv_popRun {s : State} {ml : Nat} {op : UInt8} (hh : header s.ubuf = .ok ml op) (h : DInv s) :
    s.fed = (popRun s ml op).popped.flatMap enc ++ (popRun s ml op).ubuf ∧
    (popRun s ml op).delivered = (popRun s ml op).runFrames.filterMap cbOf ∧ (popRun s ml op).fed = s.fed := by
  have hs := (header_ok_spec hh).2.1
  refine ⟨?_, h.cbs, rfl⟩
  simp only [popRun, List.flatMap_append, List.flatMap_cons, List.flatMap_nil, List.append_nil, List.append_assoc]
  rw [hs]; exact h.bytes

theorem dinv_frameLoop (cfg : Cfg) (s : State) (h : DInv s) : DInv (frameLoop cfg s).1 :=
  frameLoop_ind cfg DInv
    (fun s ml op hh h => ⟨by have := dinv_popRun hh h; rw [this.2.2]; exact this.1, (dinv_popRun hh h).2.1⟩)
    (fun s ml op _ h => ⟨h.bytes, by
      simp only [noteRun, List.filterMap_append, List.filterMap_cons, List.filterMap_nil]
      rw [h.cbs]
      cases cbOf (popFrame s.ubuf ml op).1 <;> simp⟩)
    (fun s acts h => dinv_of_eq h (de_doActs cfg s acts)) s h

theorem dinv_afterFrames (cfg : Cfg) (r : State × List Out × FL) (h : DInv r.1) : DInv (afterFrames cfg r).1 := by
  unfold afterFrames
  split
  · exact h
  · exact dinv_of_eq h ⟨rfl, rfl, rfl, rfl, rfl⟩
  · have h1 : DataEq r.1 { r.1 with connected := false } := ⟨rfl, rfl, rfl, rfl, rfl⟩
    exact dinv_of_eq h (h1.trans (de_afterInner _))
  · split
    · exact dinv_of_eq h (de_afterInner _)
    · exact dinv_of_eq h (de_recvLoop _)

theorem dinv_afterPub (cfg : Cfg) (s : State) (k : PubK) (h : DInv s) : DInv (afterPub cfg s k).1 := by
  cases k with
  | idle => exact dinv_of_eq (s' := { s with pc := .idle }) h ⟨rfl, rfl, rfl, rfl, rfl⟩
  | cb rest =>
    simp only [afterPub]
    split
    · exact dinv_afterFrames cfg _ (dinv_frameLoop cfg _ (dinv_of_eq h (de_doActs cfg s rest)))
    · exact dinv_of_eq h (de_doActs cfg s rest)

theorem dinv_afterSub (cfg : Cfg) (s : State) (k : SubK) (h : DInv s) : DInv (afterSub cfg s k).1 := by
  cases k with
  | run => exact dinv_of_eq h (de_recvLoop s)
  | pub k => exact dinv_afterPub cfg s k h

theorem dinv_resume (cfg : Cfg) (s : State) (w : Who) (h : DInv s) : DInv (resume cfg s w).1 := by
  cases w with
  | init => exact dinv_of_eq (s' := { s with pc := .idle }) h ⟨rfl, rfl, rfl, rfl, rfl⟩
  | run => exact dinv_of_eq h (de_runTop s)
  | pub k =>
    simp only [resume]
    split
    · exact dinv_afterPub cfg _ k (dinv_of_eq h (de_subLoop s _ _))
    · exact dinv_of_eq h (de_subLoop s _ _)

theorem dinv_doAuth (cfg : Cfg) (s : State) (who : Who) (b : Bytes) (h : DInv s) : DInv (doAuth cfg s who b).1 := by
  unfold doAuth
  have h1 : DInv { s with ubuf := s.ubuf ++ b, fed := s.fed ++ b } :=
    ⟨by simp only; rw [h.bytes]; simp, h.cbs⟩
  simp only
  split
  · exact dinv_of_eq h1 (de_retry _ who)
  · exact dinv_of_eq h1 (de_retry _ who)
  · rename_i ml op hh
    have hs := (header_ok_spec hh).2.1
    have h2 : DInv { s with ubuf := (popFrame (s.ubuf ++ b) ml op).2, fed := s.fed ++ b,
                            popped := s.popped ++ [(popFrame (s.ubuf ++ b) ml op).1] } := by
      refine ⟨?_, h.cbs⟩
      simp only [List.flatMap_append, List.flatMap_cons, List.flatMap_nil, List.append_nil, List.append_assoc]
      rw [hs]; exact h1.bytes
    split
    · split
      · exact dinv_of_eq h2 ⟨rfl, rfl, rfl, rfl, rfl⟩
      · exact dinv_of_eq h2 ⟨rfl, rfl, rfl, rfl, rfl⟩
    · exact dinv_of_eq h2 (de_retry _ who)

theorem dinv_step (cfg : Cfg) (s : State) (e : Ev) (h : DInv s) : DInv (step cfg s e).1 := by
  unfold step
  split
  · exact dinv_of_eq h ⟨rfl, rfl, rfl, rfl, rfl⟩
  · split
    · exact dinv_of_eq h (de_startConnect s .init)
    · exact dinv_of_eq h ⟨rfl, rfl, rfl, rfl, rfl⟩
    · exact dinv_of_eq h (de_startPublish cfg s _ _ _)
    · exact dinv_of_eq h (de_runTop s)
    · exact dinv_of_eq h (de_closeSock s)
    · exact ⟨rfl, h.cbs⟩
    · split
      · exact dinv_of_eq h (de_newSocket _ _ _)
      · split
        · have h1 : DInv { s with ubuf := [], fed := [], popped := [] } := ⟨rfl, h.cbs⟩
          exact dinv_of_eq h1 (de_retry _ _)
        · exact dinv_of_eq h (de_retry _ _)
    · split
      · exact dinv_of_eq h (de_retry _ _)
      · exact dinv_doAuth cfg s _ _ h
    · exact dinv_of_eq h (de_retry _ _)
    · exact dinv_of_eq h (de_retry _ _)
    · exact dinv_of_eq h (de_retry _ _)
    · simp only
      exact dinv_resume cfg _ _ (dinv_of_eq h ⟨rfl, rfl, rfl, rfl, rfl⟩)
    · exact dinv_of_eq h (de_retry _ _)
    · exact dinv_of_eq h (de_retry _ _)
    · rename_i ch rest k _ _
      have h1 : DInv { s with sent := s.sent ++ [subFrame cfg ch] } := dinv_of_eq h ⟨rfl, rfl, rfl, rfl, rfl⟩
      simp only
      split
      · exact dinv_afterSub cfg _ k (dinv_of_eq h1 (de_subLoop _ k rest))
      · exact dinv_of_eq h1 (de_subLoop _ k rest)
    · exact dinv_afterSub cfg _ _ (dinv_of_eq h ⟨rfl, rfl, rfl, rfl, rfl⟩)
    · exact dinv_afterSub cfg _ _ (dinv_of_eq h ⟨rfl, rfl, rfl, rfl, rfl⟩)
    · split
      · have h1 : DataEq s { s with connected := false } := ⟨rfl, rfl, rfl, rfl, rfl⟩
        exact dinv_of_eq h (h1.trans (de_afterInner _))
      · rename_i b _ _ _
        have h1 : DInv { s with ubuf := s.ubuf ++ b, fed := s.fed ++ b } :=
          ⟨by simp only; rw [h.bytes]; simp, h.cbs⟩
        exact dinv_afterFrames cfg _ (dinv_frameLoop cfg _ h1)
    · have h1 : DataEq s { s with connected := false } := ⟨rfl, rfl, rfl, rfl, rfl⟩
      exact dinv_of_eq h (h1.trans (de_afterInner _))
    · have h1 : DataEq s { s with connected := false } := ⟨rfl, rfl, rfl, rfl, rfl⟩
      exact dinv_of_eq h (h1.trans (de_afterInner _))
    · exact dinv_afterFrames cfg _ (dinv_frameLoop cfg _ h)
    · rename_i k frame _ _
      simp only
      exact dinv_afterPub cfg _ k (dinv_of_eq (s' := { s with sent := s.sent ++ [frame] }) h ⟨rfl, rfl, rfl, rfl, rfl⟩)
    · have h1 : DataEq s { s with connected := false } := ⟨rfl, rfl, rfl, rfl, rfl⟩
      exact dinv_of_eq h (h1.trans (de_startConnect _ _))
    · have h1 : DataEq s { s with connected := false } := ⟨rfl, rfl, rfl, rfl, rfl⟩
      exact dinv_of_eq h (h1.trans (de_startConnect _ _))
    · exact h

theorem dinv_run (cfg : Cfg) (es : List Ev) : DInv (run cfg es).1 := by
  unfold run
  suffices ∀ (acc : State × List Out), DInv acc.1 →
      DInv (es.foldl (fun acc e => let r := step cfg acc.1 e; (r.1, acc.2 ++ r.2)) acc).1 from
    this ({}, []) ⟨rfl, rfl⟩
  induction es with
  | nil => intro acc h; exact h
  | cons e es ih => intro acc h; simp only [List.foldl_cons]; exact ih _ (dinv_step cfg acc.1 e h)

/-! ### what only grows: the wanted set (Client has no unsubscribe) and `stopped` -/

structure Mono (s s' : State) : Prop where
  subs : ∀ ch ∈ s.subs, ch ∈ s'.subs
  stopped : s.stopped = true → s'.stopped = true

theorem Mono.refl (s : State) : Mono s s := ⟨fun _ h => h, fun h => h⟩
theorem Mono.trans {a b c : State} (h1 : Mono a b) (h2 : Mono b c) : Mono a c :=
  ⟨fun ch h => h2.subs ch (h1.subs ch h), fun h => h2.stopped (h1.stopped h)⟩
theorem Mono.after {a b c : State} (h2 : Mono b c) (h1 : Mono a b) : Mono a c := h1.trans h2
theorem mono_of_eq {s s' : State} (h1 : s'.subs = s.subs) (h2 : s'.stopped = s.stopped) : Mono s s' :=
  ⟨fun ch h => by rw [h1]; exact h, fun h => by rw [h2]; exact h⟩

theorem mo_closeSock (s : State) : Mono s (closeSock s).1 := by
  unfold closeSock; split <;> exact mono_of_eq rfl rfl
theorem mo_newSocket (s : State) (i : Nat) (w : Who) : Mono s (newSocket s i w).1 := mono_of_eq rfl rfl
theorem mo_startConnect (s : State) (w : Who) : Mono s (startConnect s w).1 :=
  (mo_closeSock s).trans (mo_newSocket _ 0 w)
theorem mo_subLoop (s : State) (k : SubK) (chs : List Bytes) : Mono s (subLoop s k chs).1 := by
  cases chs with
  | nil => exact Mono.refl s
  | cons ch rest => simp only [subLoop]; split <;> exact mono_of_eq rfl rfl
theorem mo_afterInner (s : State) : Mono s (afterInner s).1 := by
  unfold afterInner; split
  · exact mono_of_eq rfl rfl
  · split
    · exact mono_of_eq rfl rfl
    · exact mo_startConnect s .run
theorem mo_recvLoop (s : State) : Mono s (recvLoop s).1 := by
  unfold recvLoop; split
  · split
    · exact mono_of_eq rfl rfl
    · exact Mono.after (mo_afterInner _) (mono_of_eq rfl rfl)
  · exact mo_afterInner s
theorem mo_runTop (s : State) : Mono s (runTop s).1 := by
  unfold runTop; split
  · exact mono_of_eq rfl rfl
  · simp only
    split
    · exact (mo_subLoop s .run _).trans (mo_recvLoop _)
    · exact mo_subLoop s .run _
theorem mo_startPublish (cfg : Cfg) (s : State) (k : PubK) (ch p : Bytes) : Mono s (startPublish cfg s k ch p).1 := by
  unfold startPublish; split
  · exact mono_of_eq rfl rfl
  · exact Mono.after (mo_startConnect _ _) (mono_of_eq rfl rfl)
theorem mo_doActs (cfg : Cfg) (s : State) (acts : List Act) : Mono s (doActs cfg s acts).1 := by
  induction acts generalizing s with
  | nil => exact Mono.refl s
  | cons a r ih =>
    cases a with
    | stop =>
      simp only [doActs]
      exact Mono.trans (b := { s with stopped := true }) ⟨fun _ h => h, fun _ => rfl⟩ (ih _)
    | sub ch =>
      simp only [doActs]
      refine Mono.trans (b := { s with subs := if ch ∈ s.subs then s.subs else s.subs ++ [ch] }) ⟨fun c h => ?_, fun h => h⟩ (ih _)
      simp only; split
      · exact h
      · simp [h]
    | pub ch p => simp only [doActs]; exact mo_startPublish cfg s _ ch p
theorem mo_frameLoop (cfg : Cfg) (s : State) : Mono s (frameLoop cfg s).1 := by
  have := frameLoop_ind cfg (fun s' => Mono s s')
    (fun _ _ _ _ h => h.trans (mono_of_eq rfl rfl)) (fun _ _ _ _ h => h.trans (mono_of_eq rfl rfl))
    (fun s' acts h => h.trans (mo_doActs cfg s' acts)) s (Mono.refl s)
  exact this
theorem mo_afterFrames (cfg : Cfg) (r : State × List Out × FL) : Mono r.1 (afterFrames cfg r).1 := by
  unfold afterFrames
  split
  · exact Mono.refl _
  · exact mono_of_eq rfl rfl
  · exact Mono.after (mo_afterInner _) (mono_of_eq rfl rfl)
  · split
    · exact mo_afterInner _
    · exact mo_recvLoop _
theorem mo_afterPub (cfg : Cfg) (s : State) (k : PubK) : Mono s (afterPub cfg s k).1 := by
  cases k with
  | idle => exact mono_of_eq (s' := { s with pc := .idle }) rfl rfl
  | cb rest =>
    simp only [afterPub]
    split
    · exact (mo_doActs cfg s rest).trans ((mo_frameLoop cfg _).trans (mo_afterFrames cfg _))
    · exact mo_doActs cfg s rest
theorem mo_afterSub (cfg : Cfg) (s : State) (k : SubK) : Mono s (afterSub cfg s k).1 := by
  cases k with
  | run => exact mo_recvLoop s
  | pub k => exact mo_afterPub cfg s k
theorem mo_resume (cfg : Cfg) (s : State) (w : Who) : Mono s (resume cfg s w).1 := by
  cases w with
  | init => exact mono_of_eq (s' := { s with pc := .idle }) rfl rfl
  | run => exact mo_runTop s
  | pub k =>
    simp only [resume]
    split
    · exact (mo_subLoop s _ _).trans (mo_afterPub cfg _ k)
    · exact mo_subLoop s _ _
theorem mo_doAuth (cfg : Cfg) (s : State) (w : Who) (b : Bytes) : Mono s (doAuth cfg s w b).1 := by
  unfold doAuth
  simp only
  split
  · exact Mono.after (mo_startConnect _ w) (mono_of_eq rfl rfl)
  · exact Mono.after (mo_startConnect _ w) (mono_of_eq rfl rfl)
  · split
    · split <;> exact mono_of_eq rfl rfl
    · exact Mono.after (mo_startConnect _ w) (mono_of_eq rfl rfl)

/-- nothing the client does, and nothing that happens to it, ever removes a wanted channel or clears
    `stopped` -/
theorem mo_step (cfg : Cfg) (s : State) (e : Ev) : Mono s (step cfg s e).1 := by
  unfold step
  split
  · exact ⟨fun _ h => h, fun _ => rfl⟩
  · split
    · exact mo_startConnect s .init
    · rename_i ch _ _
      refine ⟨fun c h => ?_, fun h => h⟩
      simp only; split
      · exact h
      · simp [h]
    · exact mo_startPublish cfg s _ _ _
    · exact mo_runTop s
    · exact mo_closeSock s
    · exact mono_of_eq rfl rfl
    · split
      · exact mo_newSocket _ _ _
      · split
        · exact Mono.after (mo_startConnect _ _) (mono_of_eq rfl rfl)
        · exact mo_startConnect _ _
    · split
      · exact mo_startConnect _ _
      · exact mo_doAuth cfg s _ _
    · exact mo_startConnect _ _
    · exact mo_startConnect _ _
    · exact mo_startConnect _ _
    · simp only
      exact Mono.after (mo_resume cfg _ _) (mono_of_eq rfl rfl)
    · exact mo_startConnect _ _
    · exact mo_startConnect _ _
    · rename_i ch rest k _ _
      simp only
      split
      · exact Mono.trans (b := { s with sent := s.sent ++ [subFrame cfg ch] }) (mono_of_eq rfl rfl)
          ((mo_subLoop _ k rest).trans (mo_afterSub cfg _ k))
      · exact Mono.trans (b := { s with sent := s.sent ++ [subFrame cfg ch] }) (mono_of_eq rfl rfl) (mo_subLoop _ k rest)
    · exact Mono.after (mo_afterSub cfg _ _) (mono_of_eq rfl rfl)
    · exact Mono.after (mo_afterSub cfg _ _) (mono_of_eq rfl rfl)
    · split
      · exact Mono.after (mo_afterInner _) (mono_of_eq rfl rfl)
      · rename_i b _ _ _
        exact Mono.trans (mono_of_eq (s' := { s with ubuf := s.ubuf ++ b, fed := s.fed ++ b }) rfl rfl)
          ((mo_frameLoop cfg _).trans (mo_afterFrames cfg _))
    · exact Mono.after (mo_afterInner _) (mono_of_eq rfl rfl)
    · exact Mono.after (mo_afterInner _) (mono_of_eq rfl rfl)
    · exact (mo_frameLoop cfg _).trans (mo_afterFrames cfg _)
    · rename_i k frame _ _
      simp only
      exact Mono.after (mo_afterPub cfg _ k) (mono_of_eq rfl rfl)
    · exact Mono.after (mo_startConnect _ _) (mono_of_eq rfl rfl)
    · exact Mono.after (mo_startConnect _ _) (mono_of_eq rfl rfl)
    · exact Mono.refl s

/-! ### the control point the code cannot reach is not reached -/

def NI (s : State) : Prop := s.pc ≠ .impossible

theorem ni_startConnect (s : State) (w : Who) : NI (startConnect s w).1 := by simp [NI, startConnect, newSocket]
theorem ni_subLoop {s : State} (k : SubK) (chs : List Bytes) (h : NI s) : NI (subLoop s k chs).1 := by
  cases chs with
  | nil => exact h
  | cons ch rest => simp only [subLoop]; split
                    · simp [NI]
                    · exact h
theorem ni_afterInner (s : State) (h : s.stopped = true ∨ s.connected = false) : NI (afterInner s).1 := by
  unfold afterInner; split
  · simp [NI]
  · split
    · rename_i h1 h2; rcases h with h | h
      · exact absurd h h1
      · rw [h] at h2; cases h2
    · exact ni_startConnect s .run
theorem ni_recvLoop (s : State) : NI (recvLoop s).1 := by
  unfold recvLoop; split
  · split
    · simp [NI]
    · exact ni_afterInner _ (Or.inr rfl)
  · rename_i h; exact ni_afterInner s (Or.inr (by simpa using h))
theorem subLoop_false {s : State} {k : SubK} {chs : List Bytes} (h : ¬ (subLoop s k chs).2 = true) :
    ∃ ch rest, (subLoop s k chs).1.pc = .subSend ch rest k := by
  cases chs with
  | nil => simp [subLoop] at h
  | cons ch rest =>
    simp only [subLoop] at h ⊢
    split
    · exact ⟨ch, rest, rfl⟩
    · rename_i hu; simp [hu] at h
theorem ni_runTop (s : State) : NI (runTop s).1 := by
  unfold runTop; split
  · simp [NI]
  · simp only
    split
    · exact ni_recvLoop _
    · rename_i h
      obtain ⟨ch, rest, hp⟩ := subLoop_false h
      simp only [NI]; rw [hp]; simp
theorem ni_startPublish (cfg : Cfg) (s : State) (k : PubK) (ch p : Bytes) : NI (startPublish cfg s k ch p).1 := by
  unfold startPublish; split
  · simp [NI]
  · exact ni_startConnect _ _
theorem ni_doActs (cfg : Cfg) {s : State} (acts : List Act) (h : NI s) : NI (doActs cfg s acts).1 := by
  induction acts generalizing s with
  | nil => exact h
  | cons a r ih =>
    cases a with
    | stop => simp only [doActs]; exact ih (s := { s with stopped := true }) h
    | sub ch => simp only [doActs]; exact ih (s := { s with subs := if ch ∈ s.subs then s.subs else s.subs ++ [ch] }) h
    | pub ch p => simp only [doActs]; exact ni_startPublish cfg s _ ch p
theorem ni_frameLoop (cfg : Cfg) (s : State) (h : NI s) : NI (frameLoop cfg s).1 :=
  frameLoop_ind cfg NI (fun _ _ _ _ h => h) (fun _ _ _ _ h => h) (fun _ acts h => ni_doActs cfg acts h) s h
theorem ni_afterFrames (cfg : Cfg) (r : State × List Out × FL) (h : NI r.1) : NI (afterFrames cfg r).1 := by
  unfold afterFrames
  split
  · exact h
  · simp [NI]
  · exact ni_afterInner _ (Or.inr rfl)
  · split
    · rename_i hs; exact ni_afterInner _ (Or.inl hs)
    · exact ni_recvLoop _
theorem ni_afterPub (cfg : Cfg) {s : State} (k : PubK) (h : NI s) : NI (afterPub cfg s k).1 := by
  cases k with
  | idle => simp [NI, afterPub]
  | cb rest =>
    simp only [afterPub]
    split
    · exact ni_afterFrames cfg _ (ni_frameLoop cfg _ (ni_doActs cfg rest h))
    · exact ni_doActs cfg rest h
theorem ni_afterSub (cfg : Cfg) {s : State} (k : SubK) (h : NI s) : NI (afterSub cfg s k).1 := by
  cases k with
  | run => exact ni_recvLoop s
  | pub k => exact ni_afterPub cfg k h
theorem ni_resume (cfg : Cfg) {s : State} (w : Who) (h : NI s) : NI (resume cfg s w).1 := by
  cases w with
  | init => simp [NI, resume]
  | run => exact ni_runTop s
  | pub k =>
    simp only [resume]
    split
    · exact ni_afterPub cfg k (ni_subLoop _ _ h)
    · exact ni_subLoop _ _ h
theorem ni_doAuth (cfg : Cfg) (s : State) (w : Who) (b : Bytes) : NI (doAuth cfg s w b).1 := by
  unfold doAuth
  simp only
  split
  · exact ni_startConnect _ w
  · exact ni_startConnect _ w
  · split
    · split <;> simp [NI]
    · exact ni_startConnect _ w

theorem ni_step (cfg : Cfg) (s : State) (e : Ev) (h : NI s) : NI (step cfg s e).1 := by
  unfold step
  split
  · exact h
  · split
    · exact ni_startConnect s .init
    · exact h
    · exact ni_startPublish cfg s _ _ _
    · exact ni_runTop s
    · unfold closeSock; split <;> exact h
    · simp [NI]
    · split
      · simp [NI, newSocket]
      · split <;> exact ni_startConnect _ _
    · split
      · exact ni_startConnect _ _
      · exact ni_doAuth cfg s _ _
    · exact ni_startConnect _ _
    · exact ni_startConnect _ _
    · exact ni_startConnect _ _
    · simp only; exact ni_resume cfg _ (by simp [NI])
    · exact ni_startConnect _ _
    · exact ni_startConnect _ _
    · rename_i ch rest k _ _
      simp only
      split
      · exact ni_afterSub cfg k (ni_subLoop k rest (s := { s with sent := s.sent ++ [subFrame cfg ch] }) h)
      · exact ni_subLoop k rest (s := { s with sent := s.sent ++ [subFrame cfg ch] }) h
    · exact ni_afterSub cfg _ (s := { s with connected := false }) h
    · exact ni_afterSub cfg _ (s := { s with connected := false }) h
    · split
      · exact ni_afterInner _ (Or.inr rfl)
      · rename_i b _ _ _
        exact ni_afterFrames cfg _ (ni_frameLoop cfg { s with ubuf := s.ubuf ++ b, fed := s.fed ++ b } h)
    · exact ni_afterInner _ (Or.inr rfl)
    · exact ni_afterInner _ (Or.inr rfl)
    · exact ni_afterFrames cfg _ (ni_frameLoop cfg _ h)
    · rename_i k frame _ _
      simp only
      exact ni_afterPub cfg k (s := { s with sent := s.sent ++ [frame] }) h
    · exact ni_startConnect _ _
    · exact ni_startConnect _ _
    · exact h

theorem ni_run (cfg : Cfg) (es : List Ev) : (run cfg es).1.pc ≠ .impossible := by
  unfold run
  suffices ∀ (acc : State × List Out), NI acc.1 →
      NI (es.foldl (fun acc e => let r := step cfg acc.1 e; (r.1, acc.2 ++ r.2)) acc).1 from
    this ({}, []) (by simp [NI])
  induction es with
  | nil => intro acc h; exact h
  | cons e es ih => intro acc h; simp only [List.foldl_cons]; exact ih _ (ni_step cfg acc.1 e h)

/-! ### C13: what run() does with the frames of one read, precisely -/

/-- blocked inside message_callback's publish() (its sendall, or the reconnect it started) -/
def CbBlocked : Pc → Prop
  | .pubSend (.cb _) _ => True
  | .connecting _ (.pub (.cb _)) => True
  | _ => False

/-- the control fields a frame loop leaves alone unless a callback blocks -/
structure Calm (s s' : State) (outs : List Out) : Prop where
  pc : s'.pc = s.pc
  attempts : s'.attempts = s.attempts
  nsock : s'.nsock = s.nsock
  connected : s'.connected = s.connected
  quiet : ∀ k, Out.attempt k ∉ outs

theorem doActs_spec (cfg : Cfg) (s : State) (acts : List Act) :
    ((doActs cfg s acts).2.2 = false → CbBlocked (doActs cfg s acts).1.pc) ∧
    ((doActs cfg s acts).2.2 = true → Calm s (doActs cfg s acts).1 (doActs cfg s acts).2.1 ∧ (doActs cfg s acts).2.1 = []) := by
  induction acts generalizing s with
  | nil => exact ⟨fun h => (by simp [doActs] at h), fun _ => ⟨⟨rfl, rfl, rfl, rfl, fun k => by simp [doActs]⟩, rfl⟩⟩
  | cons a r ih =>
    cases a with
    | stop =>
      simp only [doActs]
      have := ih { s with stopped := true }
      exact ⟨this.1, fun h => ⟨⟨(this.2 h).1.pc, (this.2 h).1.attempts, (this.2 h).1.nsock, (this.2 h).1.connected,
        (this.2 h).1.quiet⟩, (this.2 h).2⟩⟩
    | sub ch =>
      simp only [doActs]
      have := ih { s with subs := if ch ∈ s.subs then s.subs else s.subs ++ [ch] }
      exact ⟨this.1, fun h => ⟨⟨(this.2 h).1.pc, (this.2 h).1.attempts, (this.2 h).1.nsock, (this.2 h).1.connected,
        (this.2 h).1.quiet⟩, (this.2 h).2⟩⟩
    | pub ch p =>
      simp only [doActs]
      refine ⟨fun _ => ?_, fun h => (by cases h)⟩
      unfold startPublish; split
      · trivial
      · simp [startConnect, newSocket, CbBlocked]

theorem frameLoop_spec (cfg : Cfg) (s : State) :
    ((frameLoop cfg s).2.2 = .blocked → CbBlocked (frameLoop cfg s).1.pc) ∧
    ((frameLoop cfg s).2.2 ≠ .blocked → Calm s (frameLoop cfg s).1 (frameLoop cfg s).2.1) := by
  induction hn : s.ubuf.length using Nat.strongRecOn generalizing s with
  | _ n ih =>
    rw [frameLoop]
    split
    · exact ⟨fun h => (by cases h), fun _ => ⟨rfl, rfl, rfl, rfl, fun k => by simp⟩⟩
    · exact ⟨fun h => (by cases h), fun _ => ⟨rfl, rfl, rfl, rfl, fun k => by simp⟩⟩
    · rename_i ml op hh
      have hk := header_ok hh
      have hlt : (popRun s ml op).ubuf.length < n := by
        simp only [popRun, popFrame, List.length_drop]; omega
      simp only
      split
      · split
        · rename_i i c p _
          have hd := doActs_spec cfg (noteRun (popRun s ml op) (popFrame s.ubuf ml op).1 (some (.msg (i, c, p)))) (cfg.react (i, c, p))
          split
          · rename_i hr
            obtain ⟨hc, he⟩ := hd.2 hr
            have hi := ih _ (by rw [doActs_ubuf cfg _ _ hr]; exact hlt)
              (doActs cfg (noteRun (popRun s ml op) (popFrame s.ubuf ml op).1 (some (.msg (i, c, p)))) (cfg.react (i, c, p))).1 rfl
            refine ⟨hi.1, fun hb => ?_⟩
            have hcalm := hi.2 hb
            refine ⟨hcalm.pc.trans hc.pc, hcalm.attempts.trans hc.attempts, hcalm.nsock.trans hc.nsock,
              hcalm.connected.trans hc.connected, fun k hm => ?_⟩
            rw [he] at hm
            simp only [List.nil_append] at hm
            rcases List.mem_cons.mp hm with hm | hm
            · cases hm
            · exact hcalm.quiet k hm
          · rename_i hr
            have hr' : (doActs cfg (noteRun (popRun s ml op) (popFrame s.ubuf ml op).1 (some (.msg (i, c, p)))) (cfg.react (i, c, p))).2.2 = false := by
              simpa using hr
            exact ⟨fun _ => hd.1 hr', fun hb => absurd rfl hb⟩
        · exact ⟨fun h => (by cases h), fun _ => ⟨rfl, rfl, rfl, rfl, fun k => by simp⟩⟩
      · split
        · split
          · rename_i t _
            have hi := ih _ hlt (noteRun (popRun s ml op) (popFrame s.ubuf ml op).1 (some (.err t))) rfl
            refine ⟨hi.1, fun hb => ?_⟩
            have hcalm := hi.2 hb
            refine ⟨hcalm.pc, hcalm.attempts, hcalm.nsock, hcalm.connected, fun k hm => ?_⟩
            rcases List.mem_cons.mp hm with hm | hm
            · cases hm
            · exact hcalm.quiet k hm
          · exact ⟨fun h => (by cases h), fun _ => ⟨rfl, rfl, rfl, rfl, fun k => by simp⟩⟩
        · have hi := ih _ hlt (noteRun (popRun s ml op) (popFrame s.ubuf ml op).1 none) rfl
          exact ⟨hi.1, fun hb => ⟨(hi.2 hb).pc, (hi.2 hb).attempts, (hi.2 hb).nsock, (hi.2 hb).connected, (hi.2 hb).quiet⟩⟩

/-- run() with `stopped` set, after the frames of the read in progress: it returns (no connection attempt),
    or an exception escaped, or a callback is still inside publish() -/
theorem afterFrames_stopped (cfg : Cfg) (s : State) (hs : s.stopped = true) :
    let r := afterFrames cfg (frameLoop cfg s)
    (r.1.pc = .idle ∧ r.2.getLast? = some .ret ∧ r.1.attempts = s.attempts ∧ ∀ k, Out.attempt k ∉ r.2) ∨
    r.1.pc = .crashed ∨ CbBlocked r.1.pc := by
  have hsp := frameLoop_spec cfg s
  have hst : (frameLoop cfg s).1.stopped = true := (mo_frameLoop cfg s).stopped hs
  simp only
  unfold afterFrames
  generalize frameLoop cfg s = r at hsp hst ⊢
  cases hfl : r.2.2 with
  | blocked => exact Or.inr (Or.inr (hsp.1 hfl))
  | crash => exact Or.inr (Or.inl rfl)
  | disconnect =>
    have hc := hsp.2 (by rw [hfl]; simp)
    left
    simp only [afterInner, hst, if_true]
    exact ⟨trivial, by simp, hc.attempts, fun k hm => by
      simp only [List.mem_append, List.mem_singleton] at hm
      rcases hm with hm | hm
      · exact hc.quiet k hm
      · cases hm⟩
  | done =>
    have hc := hsp.2 (by rw [hfl]; simp)
    left
    simp only [hst, if_true, afterInner]
    exact ⟨trivial, by simp, hc.attempts, fun k hm => by
      simp only [List.mem_append, List.mem_singleton] at hm
      rcases hm with hm | hm
      · exact hc.quiet k hm
      · cases hm⟩

/-- answer `sendOk` n times -/
def sendOks (cfg : Cfg) (s : State) : Nat → State × List Out
  | 0 => (s, [])
  | n + 1 => let r := step cfg s .sendOk; let t := sendOks cfg r.1 n; (t.1, r.2 ++ t.2)

theorem sendOks_succ (cfg : Cfg) (s : State) (n : Nat) :
    sendOks cfg s (n + 1) = ((sendOks cfg (step cfg s .sendOk).1 n).1,
      (step cfg s .sendOk).2 ++ (sendOks cfg (step cfg s .sendOk).1 n).2) := rfl
theorem sendOks_zero (cfg : Cfg) (s : State) : sendOks cfg s 0 = (s, []) := rfl

theorem usable_iff (s : State) : usable s = true ↔ s.sockUp = true ∧ s.sockClosed = false := by
  simp [usable]

/-- `_subscribe` with every sendall succeeding: one OP_SUBSCRIBE per channel, in order, then run() reads -/
theorem subscribe_all (cfg : Cfg) (rest : List Bytes) :
    ∀ (s : State) (ch : Bytes), s.pc = .subSend ch rest .run → s.connected = true → usable s = true →
    (sendOks cfg s (rest.length + 1)).2 = (ch :: rest).map (fun c => Out.wrote s.nsock (subFrame cfg c)) ∧
    (sendOks cfg s (rest.length + 1)).1.pc = .runRecv ∧
    (sendOks cfg s (rest.length + 1)).1.sent = s.sent ++ (ch :: rest).map (subFrame cfg) ∧
    (sendOks cfg s (rest.length + 1)).1.nsock = s.nsock := by
  induction rest with
  | nil =>
    intro s ch hp hc hu
    obtain ⟨hu1, hu2⟩ := (usable_iff s).mp hu
    have : step cfg s .sendOk = ({ s with sent := s.sent ++ [subFrame cfg ch], pc := .runRecv }, [.wrote s.nsock (subFrame cfg ch)]) := by
      simp [step, hp, subLoop, afterSub, recvLoop, hc, usable, hu1, hu2]
    rw [List.length_nil, sendOks_succ, this, sendOks_zero]
    exact ⟨rfl, rfl, rfl, rfl⟩
  | cons c2 rest ih =>
    intro s ch hp hc hu
    obtain ⟨hu1, hu2⟩ := (usable_iff s).mp hu
    have hstep : step cfg s .sendOk =
        ({ s with sent := s.sent ++ [subFrame cfg ch], pc := .subSend c2 rest .run }, [.wrote s.nsock (subFrame cfg ch)]) := by
      simp [step, hp, subLoop, usable, hu1, hu2]
    have := ih { s with sent := s.sent ++ [subFrame cfg ch], pc := .subSend c2 rest .run } c2 rfl hc
      ((usable_iff _).mpr ⟨hu1, hu2⟩)
    obtain ⟨a, b, c, d⟩ := this
    rw [List.length_cons, sendOks_succ, hstep]
    refine ⟨?_, b, ?_, d⟩
    · show _ ++ (sendOks cfg _ (rest.length + 1)).2 = _
      rw [a]; rfl
    · show (sendOks cfg _ (rest.length + 1)).1.sent = _
      rw [c]; simp

end Hpfeeds.BlkClient
