/-
  Nothing is withheld (C12, asyncio session and Twisted service): at every quiescent point the bytes still buffered
  on a connection that the client has not dropped begin NO complete frame — every complete frame received so far
  has been dispatched (`header buf = .wait`).  Together with `frames_are_the_bytes` and `handed_in_order` this is
  "every OP_PUBLISH the broker sends is handed to the application".
-/
import Hpfeeds.Lemmas.AioClient
namespace Hpfeeds.AioClient
open Hpfeeds Extracted

/-- the buffered rest of a connection the client has not closed is an incomplete frame -/
def WInv (s : State) : Prop := ∀ c, s.conn = some c → c.closing = false → header c.buf = .wait

theorem header_nil : header ([] : Bytes) = .wait := by
  unfold header; simp

theorem winv_of_conn_eq {s s' : State} (h : WInv s) (hc : s'.conn = s.conn) : WInv s' :=
  fun c hc' hcl => h c (by rw [← hc]; exact hc') hcl

theorem winv_app_write {s : State} (b : Bytes) (h : WInv s) : WInv (write s b).1 := by
  rcases write_conn_cases s b with h1 | ⟨c, hc, _, h1⟩
  · exact winv_of_conn_eq h h1
  · intro c' hc' hcl; rw [h1] at hc'; cases hc'; exact h c hc hcl

theorem winv_closeT {s : State} (h : WInv s) : WInv (closeT s).1 := by
  rcases closeT_conn_cases s with h1 | ⟨c, _, h1⟩
  · exact winv_of_conn_eq h h1
  · intro c' hc' hcl; rw [h1] at hc'; cases hc'; cases hcl

theorem closeT_closing (s : State) : ∀ c, (closeT s).1.conn = some c → c.closing = true := by
  intro c hc
  unfold closeT at hc
  cases hs : s.conn with
  | none => rw [hs] at hc; simp only at hc; rw [hs] at hc; cases hc
  | some c1 =>
    rw [hs] at hc
    by_cases hcl : c1.closing = true
    · simp only [hcl, if_true] at hc; rw [hs] at hc; cases hc; exact hcl
    · simp only [hcl] at hc; cases hc; rfl

/-- the frame loop stops only at an incomplete frame — or it has closed the connection (bad header) or crashed -/
theorem loop_stops_at_wait (cfg : Cfg) (s : State) (buf : Bytes) :
    (loop cfg s buf).2.2.2 = .cont →
      header (loop cfg s buf).2.2.1 = .wait ∨ ∀ c, (loop cfg s buf).1.conn = some c → c.closing = true := by
  induction hn : buf.length using Nat.strongRecOn generalizing s buf with
  | _ n ih =>
    intro hcont
    rw [loop] at hcont ⊢
    split at hcont
    · rename_i hh; left; simp only; exact hh
    · right
      simp only
      exact closeT_closing s
    · rename_i ml op hh
      simp only at hcont ⊢
      split at hcont
      · cases hcont
      · rename_i hr
        simp only at hcont ⊢
        have hk := header_ok hh
        exact ih _ (by rw [← hn]; simp only [popFrame, List.length_drop]; omega) _ _ rfl hcont

theorem winv_kick {cfg : Cfg} {s : State} (h : WInv s) : WInv (kick cfg s).1 := by
  unfold kick; split
  · exact winv_of_conn_eq h rfl
  · exact h

theorem winv_stepK (cfg : Cfg) (s : State) (pre : List Out) (e : Ev) (h : WInv s) :
    WInv (stepK cfg s pre e).1 := by
  unfold stepK
  cases e with
  | idle => exact h
  | start =>
    simp only
    split
    · exact winv_of_conn_eq h rfl
    · exact h
  | sub ch =>
    simp only
    split
    · exact h
    · have h1 : WInv { s with subs := s.subs ++ [ch] } := winv_of_conn_eq h rfl
      split
      · exact winv_app_write _ h1
      · exact h1
  | unsub ch =>
    simp only
    split
    · have h1 : WInv { s with subs := s.subs.erase ch } := winv_of_conn_eq h rfl
      split
      · exact winv_app_write _ h1
      · exact h1
    · exact h
  | pub ch p =>
    simp only
    split
    · exact winv_app_write _ h
    · exact h
  | read =>
    simp only
    split
    · exact winv_of_conn_eq h rfl
    · exact winv_of_conn_eq h rfl
  | close =>
    simp only
    split
    · exact h
    · have h1 : WInv { s with closing := true, closeCalled := true } := winv_of_conn_eq h rfl
      split
      · split
        · exact winv_of_conn_eq h1 rfl
        · exact winv_of_conn_eq (winv_closeT h1) rfl
      · exact winv_of_conn_eq h1 rfl
  | accept =>
    simp only
    split
    · intro c hc _
      simp only [Option.some.injEq] at hc; rw [← hc]; exact header_nil
    · exact h
  | refuse =>
    simp only
    split
    · exact winv_of_conn_eq h rfl
    · exact h
  | advance ms =>
    simp only
    split
    · split
      · exact winv_of_conn_eq h rfl
      · exact winv_of_conn_eq h rfl
    · exact winv_of_conn_eq h rfl
  | lost =>
    simp only
    split
    · exact h
    · rename_i c hc
      split
      · exact h
      · split
        · intro c' hc' hcl
          simp only [Option.some.injEq] at hc'; rw [← hc'] at hcl; cases hcl
        · split
          · intro c' hc'; cases hc'
          · intro c' hc'; cases hc'
  | data b =>
    simp only
    split
    · exact h
    · rename_i c hc
      split
      · exact h
      · let s1 : State := { s with conn := some { c with inbound := c.inbound ++ b } }
        have hw := loop_stops_at_wait cfg s1 (c.buf ++ b)
        show WInv (match (loop cfg s1 (c.buf ++ b)).1.conn with
          | some c' => { (loop cfg s1 (c.buf ++ b)).1 with conn := some { c' with
              buf := (loop cfg s1 (c.buf ++ b)).2.2.1,
              closing := c'.closing || ((loop cfg s1 (c.buf ++ b)).2.2.2 == .crash) } }
          | none => (loop cfg s1 (c.buf ++ b)).1)
        cases hlc : (loop cfg s1 (c.buf ++ b)).1.conn with
        | none => intro c2 hc2; simp only [hlc] at hc2; cases hc2
        | some c' =>
          intro c2 hc2 hcl
          simp only [Option.some.injEq] at hc2
          rw [← hc2] at hcl ⊢
          simp only [Bool.or_eq_false_iff, beq_eq_false_iff_ne, ne_eq] at hcl
          have hcont : (loop cfg s1 (c.buf ++ b)).2.2.2 = .cont := by
            cases hct : (loop cfg s1 (c.buf ++ b)).2.2.2 with
            | cont => rfl
            | crash => exact absurd hct hcl.2
          rcases hw hcont with h1 | h1
          · exact h1
          · have := h1 c' hlc; rw [hcl.1] at this; cases this

theorem winv_step (cfg : Cfg) (s : State) (e : Ev) (h : WInv s) : WInv (step cfg s e).1 :=
  winv_stepK cfg _ _ e (winv_kick h)

/-- after every event sequence -/
theorem winv_run (cfg : Cfg) (es : List Ev) : WInv (run cfg es).1 := by
  unfold run
  suffices ∀ (acc : State × List Out), WInv acc.1 →
      WInv (es.foldl (fun acc e => let r := step cfg acc.1 e; (r.1, acc.2 ++ r.2)) acc).1 from
    this ({}, []) (fun c hc => by cases hc)
  induction es with
  | nil => intro acc h; exact h
  | cons e es ih =>
    intro acc h
    simp only [List.foldl_cons]
    exact ih _ (winv_step cfg _ e h)

/-! ### every dispatched frame is a well-formed frame (it came out of `popFrame` behind an accepting header) -/

def PWF (s : State) : Prop := ∀ c, s.conn = some c → ∀ f ∈ c.processed, f.WF

theorem loop_processed_wf (cfg : Cfg) (s : State) (buf : Bytes) (c : Conn) (hc : s.conn = some c) :
    ∃ fs c', (loop cfg s buf).1.conn = some c' ∧ c'.processed = c.processed ++ fs ∧ ∀ f ∈ fs, f.WF := by
  induction hn : buf.length using Nat.strongRecOn generalizing s buf c with
  | _ n ih =>
    rw [loop]
    split
    · exact ⟨[], c, hc, by simp, by simp⟩
    · have := psame_closeT s
      unfold PSame at this
      rw [hc] at this
      generalize hs2 : (closeT s).1 = s2 at this ⊢
      cases h2 : s2.conn with
      | none => rw [h2] at this; simp at this
      | some c2 =>
        rw [h2] at this
        simp only [Option.map_some, Option.some.injEq, Prod.mk.injEq] at this
        exact ⟨[], c2, rfl, by simp [this.1], by simp⟩
    · rename_i ml op hh
      have hk := header_ok hh
      have hsp := header_ok_spec hh
      have hn1 : (noteFrame s (popFrame buf ml op).1).conn =
          some { c with processed := c.processed ++ [(popFrame buf ml op).1] } := by
        unfold noteFrame; rw [hc]; rfl
      have hp := psame_onFrame cfg (noteFrame s (popFrame buf ml op).1) (popFrame buf ml op).1
      unfold PSame at hp
      rw [hn1] at hp
      cases h3 : (onFrame cfg (noteFrame s (popFrame buf ml op).1) (popFrame buf ml op).1).1.conn with
      | none => rw [h3] at hp; simp at hp
      | some c3 =>
        rw [h3] at hp
        simp only [Option.map_some, Option.some.injEq, Prod.mk.injEq] at hp
        simp only
        split
        · exact ⟨[(popFrame buf ml op).1], c3, h3, hp.1, by intro f hf; simp only [List.mem_singleton] at hf; rw [hf]; exact hsp.1⟩
        · obtain ⟨fs, c', h4, h5, h6⟩ := ih _ (by rw [← hn]; simp only [popFrame, List.length_drop]; omega)
            _ (popFrame buf ml op).2 c3 h3 rfl
          refine ⟨(popFrame buf ml op).1 :: fs, c', h4, by rw [h5, hp.1]; simp, ?_⟩
          intro f hf
          simp only [List.mem_cons] at hf
          rcases hf with rfl | hf
          · exact hsp.1
          · exact h6 f hf

theorem pwf_of_conn_eq {s s' : State} (h : PWF s) (hc : s'.conn = s.conn) : PWF s' :=
  fun c hc' => h c (by rw [← hc]; exact hc')

theorem pwf_app_write {s : State} (b : Bytes) (h : PWF s) : PWF (write s b).1 := by
  rcases write_conn_cases s b with h1 | ⟨c, hc, _, h1⟩
  · exact pwf_of_conn_eq h h1
  · intro c' hc'; rw [h1] at hc'; cases hc'; exact h c hc

theorem pwf_closeT {s : State} (h : PWF s) : PWF (closeT s).1 := by
  rcases closeT_conn_cases s with h1 | ⟨c, hc, h1⟩
  · exact pwf_of_conn_eq h h1
  · intro c' hc'; rw [h1] at hc'; cases hc'; exact h c hc

theorem pwf_stepK (cfg : Cfg) (s : State) (pre : List Out) (e : Ev) (h : PWF s) :
    PWF (stepK cfg s pre e).1 := by
  unfold stepK
  cases e with
  | idle => exact h
  | start =>
    simp only
    split
    · exact pwf_of_conn_eq h rfl
    · exact h
  | sub ch =>
    simp only
    split
    · exact h
    · have h1 : PWF { s with subs := s.subs ++ [ch] } := pwf_of_conn_eq h rfl
      split
      · exact pwf_app_write _ h1
      · exact h1
  | unsub ch =>
    simp only
    split
    · have h1 : PWF { s with subs := s.subs.erase ch } := pwf_of_conn_eq h rfl
      split
      · exact pwf_app_write _ h1
      · exact h1
    · exact h
  | pub ch p =>
    simp only
    split
    · exact pwf_app_write _ h
    · exact h
  | read =>
    simp only
    split
    · exact pwf_of_conn_eq h rfl
    · exact pwf_of_conn_eq h rfl
  | close =>
    simp only
    split
    · exact h
    · have h1 : PWF { s with closing := true, closeCalled := true } := pwf_of_conn_eq h rfl
      split
      · split
        · exact pwf_of_conn_eq h1 rfl
        · exact pwf_of_conn_eq (pwf_closeT h1) rfl
      · exact pwf_of_conn_eq h1 rfl
  | accept =>
    simp only
    split
    · intro c hc f hf
      simp only [Option.some.injEq] at hc; rw [← hc] at hf; cases hf
    · exact h
  | refuse =>
    simp only
    split
    · exact pwf_of_conn_eq h rfl
    · exact h
  | advance ms =>
    simp only
    split
    · split
      · exact pwf_of_conn_eq h rfl
      · exact pwf_of_conn_eq h rfl
    · exact pwf_of_conn_eq h rfl
  | lost =>
    simp only
    split
    · exact h
    · rename_i c hc
      split
      · exact h
      · split
        · intro c' hc'
          simp only [Option.some.injEq] at hc'; rw [← hc']; exact h c hc
        · split
          · intro c' hc'; cases hc'
          · intro c' hc'; cases hc'
  | data b =>
    simp only
    split
    · exact h
    · rename_i c hc
      split
      · exact h
      · let s1 : State := { s with conn := some { c with inbound := c.inbound ++ b } }
        obtain ⟨fs, c', h4, h5, h6⟩ := loop_processed_wf cfg s1 (c.buf ++ b) _ rfl
        show PWF (match (loop cfg s1 (c.buf ++ b)).1.conn with
          | some c' => { (loop cfg s1 (c.buf ++ b)).1 with conn := some { c' with
              buf := (loop cfg s1 (c.buf ++ b)).2.2.1,
              closing := c'.closing || ((loop cfg s1 (c.buf ++ b)).2.2.2 == .crash) } }
          | none => (loop cfg s1 (c.buf ++ b)).1)
        rw [h4]
        intro c2 hc2 f hf
        simp only [Option.some.injEq] at hc2
        rw [← hc2] at hf
        simp only [h5, List.mem_append] at hf
        rcases hf with hf | hf
        · exact h c hc f hf
        · exact h6 f hf

theorem pwf_run (cfg : Cfg) (es : List Ev) : PWF (run cfg es).1 := by
  unfold run
  suffices ∀ (acc : State × List Out), PWF acc.1 →
      PWF (es.foldl (fun acc e => let r := step cfg acc.1 e; (r.1, acc.2 ++ r.2)) acc).1 from
    this ({}, []) (fun c hc => by cases hc)
  induction es with
  | nil => intro acc h; exact h
  | cons e es ih =>
    intro acc h
    simp only [List.foldl_cons]
    refine ih _ ?_
    show PWF (step cfg acc.1 e).1
    unfold step
    refine pwf_stepK cfg _ _ e ?_
    unfold kick; split
    · exact pwf_of_conn_eq h rfl
    · exact h

/-- **every complete frame has been dispatched.**  If the bytes received on a connection the client has not
    dropped are a sequence of well-formed frames followed by an incomplete rest — however they were split across
    reads — then the frames dispatched on it are EXACTLY those frames and the buffer is exactly that rest. -/
theorem every_frame_dispatched (cfg : Cfg) (es : List Ev) (c : Conn) (hc : (run cfg es).1.conn = some c)
    (hcl : c.closing = false) (fs : List Frame) (t : Bytes) (hf : ∀ f ∈ fs, f.WF) (ht : header t = .wait)
    (hin : c.inbound = fs.flatMap enc ++ t) : c.processed = fs ∧ c.buf = t := by
  have hb := (run_inv cfg es).1.bytes c hc
  have hw := winv_run cfg es c hc hcl
  have hp := pwf_run cfg es c hc
  have d1 := drain_frames c.processed c.buf hp
  have d2 := drain_frames fs t hf
  rw [drain_wait hw, ← hb] at d1
  rw [drain_wait ht, ← hin] at d2
  rw [d1] at d2
  simp only [List.append_nil, Prod.mk.injEq] at d2
  exact ⟨d2.1, d2.2.1⟩

end Hpfeeds.AioClient
