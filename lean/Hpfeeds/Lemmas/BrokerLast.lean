/-
  Refinement of the subscription state to "the last processed request": for a registered connection,
  a channel is in `active` iff the most recent processed SUBSCRIBE/UNSUBSCRIBE for it was a SUBSCRIBE.
-/
import Hpfeeds.Lemmas.BrokerFrame
namespace Hpfeeds.Broker
open Hpfeeds Extracted

/-- the most recent processed request for `ch` (`lastReq` is newest first) -/
def lastFor (l : List (Bytes × Bool)) (ch : Bytes) : Option Bool :=
  (l.find? fun e => e.1 = ch).map (·.2)

def LastOK (x : Conn) : Prop :=
  x.registered = true → ∀ ch, ch ∈ x.active ↔ lastFor x.lastReq ch = some true

def LastInv (s : State) : Prop := ∀ c x, s.conn c = some x → LastOK x

theorem lastFor_cons (l : List (Bytes × Bool)) (ch ch' : Bytes) (b : Bool) :
    lastFor ((ch, b) :: l) ch' = if ch = ch' then some b else lastFor l ch' := by
  unfold lastFor
  by_cases h : ch = ch'
  · simp [h]
  · simp [List.find?_cons, h]

theorem lastInv_of_conn {s s' : State}
    (hc : ∀ d y', s'.conn d = some y' → ∃ y, s.conn d = some y ∧ (LastOK y → LastOK y'))
    (h : LastInv s) : LastInv s' := by
  intro d y' hy'
  obtain ⟨y, hy, k⟩ := hc d y' hy'
  exact k (h d y hy)

theorem lastInv_local {s : State} (c : Nat) (f : Conn → Conn)
    (hf : ∀ x, (f x).registered = x.registered ∧ (f x).active = x.active ∧ (f x).lastReq = x.lastReq)
    (h : LastInv s) : LastInv (s.upd c f) := by
  refine lastInv_of_conn ?_ h
  intro d y' hy'
  simp only [upd_conn] at hy'
  by_cases hd : d = c
  · subst hd
    cases hx : s.conn d with
    | none => simp [hx] at hy'
    | some x =>
      simp [hx] at hy'; subst hy'
      obtain ⟨a, b, c'⟩ := hf x
      exact ⟨x, rfl, fun k => by unfold LastOK; rw [a, b, c']; exact k⟩
  · simp only [hd, if_false] at hy'; exact ⟨y', hy', id⟩

theorem lastInv_logAct {s : State} (c : Nat) (a : Act) (h : LastInv s) : LastInv (logAct s c a) :=
  lastInv_local c _ (fun _ => ⟨rfl, rfl, rfl⟩) h

theorem beginClose_last_fields (x : Conn) :
    x.beginClose.registered = x.registered ∧ x.beginClose.active = x.active ∧
    x.beginClose.lastReq = x.lastReq := by
  unfold Conn.beginClose; split <;> simp

theorem lastInv_closeT {s : State} (c : Nat) (h : LastInv s) : LastInv (closeT s c) := by
  refine lastInv_local c _ (fun x => ?_) h
  by_cases hc : x.closing = true
  · rw [if_pos hc]; exact ⟨rfl, rfl, rfl⟩
  · rw [if_neg hc]; exact beginClose_last_fields x

theorem lastInv_peerClose {s : State} (c : Nat) (h : LastInv s) : LastInv (peerClose s c) := by
  unfold peerClose
  split
  · exact h
  · split
    · exact h
    · exact lastInv_local c _ beginClose_last_fields (lastInv_logAct c _ h)

theorem lastInv_pauseReading {s : State} (c : Nat) (h : LastInv s) : LastInv (pauseReading s c) := by
  unfold pauseReading
  split
  · split
    · exact h
    · exact lastInv_logAct c _ (lastInv_local c _ (fun _ => ⟨rfl, rfl, rfl⟩) h)
  · exact h

theorem lastInv_resumeReading {s : State} (c : Nat) (h : LastInv s) : LastInv (resumeReading s c) := by
  unfold resumeReading
  split
  · split
    · exact h
    · exact lastInv_logAct c _ (lastInv_local c _ (fun _ => ⟨rfl, rfl, rfl⟩) h)
  · exact h

theorem lastInv_setAuth {s : State} (c : Nat) (i d : Bytes) (row : Row) (h : LastInv s) :
    LastInv (setAuth s c i d row) := by
  unfold setAuth
  split
  · exact h
  · exact lastInv_local (s := { s with gSubs := _, labels := _ }) c _ (fun _ => ⟨rfl, rfl, rfl⟩)
      (fun d y hy => h d y hy)

theorem lastInv_doSubscribe {s : State} (c : Nat) (ch : Bytes) (ok : Bool) (x : Conn)
    (hx : s.conn c = some x) (h : LastInv s) : LastInv (doSubscribe s c ch ok) := by
  intro d y' hy'
  unfold doSubscribe noteSub at hy'
  simp only [upd_conn] at hy'
  by_cases hd : d = c
  · subst hd
    simp only [if_true, subscribe_conn hx, Option.map_some, Option.some.injEq] at hy'
    have k := h _ x hx
    rw [← hy']
    intro hr ch'
    have k' := k hr ch'
    simp only [lastFor_cons]
    by_cases hch : ch = ch'
    · subst hch
      simp only [if_true]
      by_cases hin : ch ∈ x.active <;> simp [hin]
    · simp only [hch, if_false]
      rw [← k']
      by_cases hin : ch ∈ x.active
      · simp [hin]
      · simp only [hin, if_false, List.mem_append, List.mem_singleton]
        constructor
        · rintro (h1 | h1)
          · exact h1
          · exact absurd h1.symm hch
        · exact Or.inl
  · simp only [hd, if_false, subscribe_conn_ne hd] at hy'; exact h d y' hy'

theorem lastInv_doUnsubscribe {s : State} (c : Nat) (ch : Bytes) (hr : Reg s) (h : LastInv s) :
    LastInv (doUnsubscribe s c ch) := by
  intro d y' hy'
  unfold doUnsubscribe noteUnsub at hy'
  simp only [upd_conn] at hy'
  by_cases hd : d = c
  · subst hd
    cases hx : s.conn d with
    | none => rw [unsubscribe_none hx, hx] at hy'; simp at hy'
    | some x =>
      simp only [if_true, unsubscribe_conn hx, Option.map_some, Option.some.injEq] at hy'
      have k := h _ x hx
      have hnd := hr.act_nodup d x hx
      rw [← hy']
      intro hreg ch'
      have k' := k hreg ch'
      simp only [lastFor_cons]
      rw [List.Nodup.mem_erase_iff hnd]
      by_cases hch : ch = ch'
      · subst hch; simp
      · simp only [hch, if_false]
        rw [← k']
        constructor
        · exact fun h1 => h1.2
        · exact fun h1 => ⟨fun h2 => hch h2.symm, h1⟩
  · simp only [hd, if_false, unsubscribe_conn_ne hd] at hy'; exact h d y' hy'

theorem lastInv_connectionLost {s : State} (c : Nat) (h : LastInv s) : LastInv (connectionLost s c) := by
  intro d y' hy'
  by_cases hd : d = c
  · subst hd
    cases hx : s.conn d with
    | none =>
      have : connectionLost s d = s := by unfold connectionLost; rw [hx]
      rw [this, hx] at hy'; cases hy'
    | some x =>
      obtain ⟨l, _, hl | ⟨hl, _⟩⟩ := connectionLost_conn' hx
      · rw [hl] at hy'; cases hy'
        intro hr; cases hr
      · rw [hl] at hy'; cases hy'; exact h _ _ hx
  · rw [connectionLost_conn_ne hd] at hy'; exact h d y' hy'

theorem lastInv_publish {s : State} (c : Nat) (x : Conn) (i ch p : Bytes) (h : LastInv s) :
    LastInv (publish s c x i ch p) := by
  intro d y' hy'
  cases hy : s.conn d with
  | none => rw [nonew_publish s c x i ch p d hy] at hy'; cases hy'
  | some y =>
    obtain ⟨y2, hy2, extra, r, _, _⟩ := publish_othersRel s c x i ch p d y hy
    rw [hy2] at hy'; cases hy'
    have k := h d y hy
    intro hreg ch'
    rcases r.reg with ⟨h1, h2⟩ | ⟨_, h1⟩
    · rw [h2, show y'.lastReq = y.lastReq by rw [r.eq]]
      exact k (by rw [← h1]; exact hreg) ch'
    · rw [h1] at hreg; cases hreg

theorem lastInv_addConn {cfg : Cfg} {s : State} (c : Nat) (n : Bytes) (h : LastInv s) :
    LastInv (addConn cfg s c n) := by
  intro d y hy
  simp only [addConn] at hy
  by_cases hd : d = c
  · simp only [hd, if_true, Option.some.injEq] at hy
    rw [← hy]
    intro _ ch; simp [lastFor]
  · simp only [hd, if_false] at hy; exact h d y hy

theorem regLastPres (cfg : Cfg) : Pres cfg (fun s => Reg s ∧ LastInv s) where
  prim := fun c => {
    logAct := fun _ a _ h => ⟨reg_logAct c a h.1, lastInv_logAct c a h.2⟩
    closeT := fun _ h => ⟨reg_closeT c h.1, lastInv_closeT c h.2⟩
    crashClose := fun _ h => ⟨reg_crashClose c h.1,
      lastInv_local c _ beginClose_last_fields (lastInv_logAct c _ h.2)⟩
    doSubscribe := fun _ ch ok x hx hr _ _ _ h =>
      ⟨reg_doSubscribe c ch ok x hx hr h.1, lastInv_doSubscribe c ch ok x hx h.2⟩
    doUnsubscribe := fun _ ch _ _ _ _ h => ⟨reg_doUnsubscribe c ch h.1, lastInv_doUnsubscribe c ch h.1 h.2⟩
    setAuth := fun _ i d row _ _ _ h => ⟨reg_setAuth c i d row h.1, lastInv_setAuth c i d row h.2⟩
    pauseReading := fun _ h => ⟨reg_pauseReading c h.1, lastInv_pauseReading c h.2⟩
    resumeReading := fun _ h => ⟨reg_resumeReading c h.1, lastInv_resumeReading c h.2⟩
    addPending := fun s i d h => ⟨((regPres cfg).prim c).addPending s i d h.1,
      lastInv_local c _ (fun _ => ⟨rfl, rfl, rfl⟩) h.2⟩
    dropPending := fun s i h => ⟨((regPres cfg).prim c).dropPending s i h.1,
      lastInv_local c _ (fun _ => ⟨rfl, rfl, rfl⟩) h.2⟩
    setBuf := fun s b h => ⟨((regPres cfg).prim c).setBuf s b h.1,
      lastInv_local c _ (fun _ => ⟨rfl, rfl, rfl⟩) h.2⟩
    publish := fun _ x i ch p _ _ _ _ h => ⟨reg_publish c x i ch p h.1, lastInv_publish c x i ch p h.2⟩
    addConn := fun _ n hc h => ⟨reg_addConn c n hc h.1, lastInv_addConn c n h.2⟩
    peerClose := fun _ h => ⟨reg_peerClose c h.1, lastInv_peerClose c h.2⟩
    lostConn := fun _ x hx _ h => ⟨reg_lostConn c x hx h.1,
      lastInv_local c _ (fun _ => ⟨rfl, rfl, rfl⟩) (lastInv_peerClose c (lastInv_connectionLost c h.2))⟩
    armDeadline := fun s h => ⟨((regPres cfg).prim c).armDeadline s h.1,
      lastInv_logAct c _ (lastInv_local c _ (fun _ => ⟨rfl, rfl, rfl⟩) h.2)⟩
    clearDeadline := fun s a ha h => ⟨((regPres cfg).prim c).clearDeadline s a ha h.1,
      lastInv_logAct c a (lastInv_local c _ (fun _ => ⟨rfl, rfl, rfl⟩) h.2)⟩ }
  tick := fun s ms h => ⟨(regPres cfg).tick s ms h.1, fun d y hy => h.2 d y hy⟩

theorem last_run (cfg : Cfg) (es : List Event) : LastInv (run cfg es) :=
  (pres_run (regLastPres cfg) ⟨reg_init, by intro d y h; simp [init] at h⟩ es).2

end Hpfeeds.Broker
