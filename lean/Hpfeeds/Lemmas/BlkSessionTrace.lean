/-
  Blocking thread session: the `handed` outputs ARE the ghost log `handed` of C12.
-/
import Hpfeeds.Lemmas.BlkSession
namespace Hpfeeds.BlkSession
open Hpfeeds Extracted

def handedOf : Out → Option Message
  | .handed m => some m
  | _ => none

def Quiet' (o : List Out) : Prop := o.filterMap handedOf = []

theorem q_nil : Quiet' [] := rfl
theorem q_app {a b : List Out} (h1 : Quiet' a) (h2 : Quiet' b) : Quiet' (a ++ b) := by
  unfold Quiet' at *; simp [h1, h2]

theorem q_closeSock (s : State) : Quiet' (closeSock s).2 := by unfold closeSock; split <;> rfl
theorem q_onFrame (cfg : Cfg) (s : State) (f : Frame) : Quiet' (onFrame cfg s f).2.1 := by
  unfold onFrame
  cases read f with
  | none => exact q_closeSock s
  | some e =>
    cases e with
    | error _ => rfl
    | ok m => cases m <;> first | rfl | exact q_closeSock s
theorem q_dispatch (cfg : Cfg) (s : State) (fs : List Frame) : Quiet' (dispatch cfg s fs).2.1 := by
  induction fs generalizing s with
  | nil => rfl
  | cons f fs ih =>
    simp only [dispatch]
    split
    · exact q_onFrame cfg _ f
    · exact q_app (q_onFrame cfg _ f) (ih _)
theorem q_dataReceived (cfg : Cfg) (s : State) (c : Bytes) : Quiet' (dataReceived cfg s c).2 := by
  unfold dataReceived
  simp only
  have h := q_dispatch cfg { s with inbound := s.inbound ++ c } (drain (s.ubuf ++ c)).1
  split
  · exact q_app h rfl
  · split
    · exact h
    · exact q_app h (q_closeSock _)
theorem q_writeReady (s : State) (o : Send) : Quiet' (writeReady s o).2 := by
  unfold writeReady
  split
  · rfl
  · cases o with
    | again => rfl
    | accept n => simp only; split <;> rfl
theorem q_outboxReady (s : State) (o : Send) : Quiet' (outboxReady s o).2 := by
  unfold outboxReady; split
  · rfl
  · exact q_writeReady _ o
theorem q_readPhase (cfg : Cfg) (s : State) : Quiet' (readPhase cfg s).2.1 := by
  unfold readPhase
  split
  · exact q_dataReceived cfg _ _
  · split <;> rfl
theorem q_select (cfg : Cfg) (s : State) (o : Send) : Quiet' (select cfg s o).2 := by
  unfold select
  split
  · rfl
  · simp only
    split
    · rfl
    · split
      · exact q_readPhase cfg s
      · split
        · exact q_app (q_readPhase cfg s) (q_outboxReady _ o)
        · split
          · exact q_app (q_readPhase cfg s) (q_writeReady _ o)
          · exact q_readPhase cfg s

/-- one event: the `handed` outputs are exactly what was appended to the ghost log -/
theorem tr_step (cfg : Cfg) (s : State) (e : Ev) :
    (step cfg s e).1.handed = s.handed ++ (step cfg s e).2.filterMap handedOf := by
  cases e with
  | connect => simp only [step]; split <;> simp
  | inb b => simp only [step]; split <;> simp
  | eof => simp only [step]; split <;> simp
  | sel o =>
    simp only [step]; split
    · rw [(select_w cfg s o).2.2.handed, q_select cfg s o]; simp
    · simp
  | wBegin t op => simp only [step]; split <;> simp
  | wCheck t => simp only [step]; split <;> (try split) <;> (try split) <;> simp
  | wWake t => simp only [step]; split <;> (try split) <;> simp
  | read => simp only [step]; split <;> simp [handedOf]

theorem run_handed (cfg : Cfg) (es : List Ev) : (run cfg es).2.filterMap handedOf = (run cfg es).1.handed := by
  unfold run
  suffices ∀ (acc : State × List Out), acc.2.filterMap handedOf = acc.1.handed →
      (es.foldl (fun acc e => let r := step cfg acc.1 e; (r.1, acc.2 ++ r.2)) acc).2.filterMap handedOf =
      (es.foldl (fun acc e => let r := step cfg acc.1 e; (r.1, acc.2 ++ r.2)) acc).1.handed from
    this ({}, []) rfl
  induction es with
  | nil => intro acc h; exact h
  | cons e es ih =>
    intro acc h
    simp only [List.foldl_cons]
    apply ih
    simp only [List.filterMap_append]
    rw [tr_step cfg acc.1 e, h]

end Hpfeeds.BlkSession
