/-
  Back-pressure deadline: the armed deadline of a connection is always "the time of the last
  pause_writing not followed by a resume_writing or an expiry, plus the grace period"; and under the
  event-loop contract (a due timer fires before the clock moves on) an armed deadline is never overrun.
-/
import Hpfeeds.Lemmas.BrokerFrame
import Hpfeeds.Model.BrokerValid
namespace Hpfeeds.Broker
open Hpfeeds Extracted

/-- scan the action log: when did the current stall episode begin (if one is in progress)? -/
def armedStep (acc : Option Nat) (e : Nat × Act) : Option Nat :=
  match e.2 with
  | .pausedW => some e.1
  | .resumedW => none
  | .deadlineFired => none
  | _ => acc

def armedSince (out : List (Nat × Act)) : Option Nat := out.foldl armedStep none

def DeadlineOK (x : Conn) : Prop := x.deadline = (armedSince x.out).map (· + gracePeriodMs)

def DeadlineInv (s : State) : Prop := ∀ c x, s.conn c = some x → DeadlineOK x

/-- an action that does not begin or end a stall episode -/
def Quiet (a : Act) : Prop := a ≠ .pausedW ∧ a ≠ .resumedW ∧ a ≠ .deadlineFired

theorem armedSince_append_quiet (o : List (Nat × Act)) (t : Nat) (a : Act) (h : Quiet a) :
    armedSince (o ++ [(t, a)]) = armedSince o := by
  unfold armedSince
  rw [List.foldl_append]
  simp only [List.foldl_cons, List.foldl_nil, armedStep]
  obtain ⟨h1, h2, h3⟩ := h
  cases a <;> simp_all

theorem armedSince_append_quiets (o extra : List (Nat × Act)) (h : ∀ e ∈ extra, Quiet e.2) :
    armedSince (o ++ extra) = armedSince o := by
  induction extra generalizing o with
  | nil => simp
  | cons e extra ih =>
    have : o ++ e :: extra = (o ++ [e]) ++ extra := by simp
    rw [this, ih _ (fun e' he' => h e' (by simp [he']))]
    exact armedSince_append_quiet o e.1 e.2 (h e (by simp))

theorem dlInv_of_conn {s s' : State}
    (hc : ∀ d y', s'.conn d = some y' → ∃ y, s.conn d = some y ∧ (DeadlineOK y → DeadlineOK y'))
    (h : DeadlineInv s) : DeadlineInv s' := by
  intro d y' hy'
  obtain ⟨y, hy, k⟩ := hc d y' hy'
  exact k (h d y hy)

theorem dlInv_upd {s : State} (c : Nat) (f : Conn → Conn)
    (hf : ∀ x, DeadlineOK x → DeadlineOK (f x)) (h : DeadlineInv s) : DeadlineInv (s.upd c f) := by
  refine dlInv_of_conn ?_ h
  intro d y' hy'
  simp only [upd_conn] at hy'
  by_cases hd : d = c
  · subst hd
    cases hx : s.conn d with
    | none => simp [hx] at hy'
    | some x => simp [hx] at hy'; subst hy'; exact ⟨x, rfl, hf x⟩
  · simp only [hd, if_false] at hy'; exact ⟨y', hy', id⟩

theorem dlInv_local {s : State} (c : Nat) (f : Conn → Conn)
    (hf : ∀ x, (f x).deadline = x.deadline ∧ (f x).out = x.out) (h : DeadlineInv s) :
    DeadlineInv (s.upd c f) :=
  dlInv_upd c f (fun x k => by unfold DeadlineOK; rw [(hf x).1, (hf x).2]; exact k) h

theorem dlInv_logAct {s : State} (c : Nat) (a : Act) (ha : Quiet a) (h : DeadlineInv s) :
    DeadlineInv (logAct s c a) :=
  dlInv_upd c _ (fun x k => by
    unfold DeadlineOK
    simp only
    rw [armedSince_append_quiet _ _ _ ha]; exact k) h

theorem beginClose_dl (x : Conn) : x.beginClose.deadline = x.deadline ∧ x.beginClose.out = x.out := by
  unfold Conn.beginClose; split <;> simp

theorem dlInv_closeT {s : State} (c : Nat) (h : DeadlineInv s) : DeadlineInv (closeT s c) := by
  refine dlInv_upd c _ (fun x k => ?_) h
  by_cases hc : x.closing = true
  · rw [if_pos hc]; exact k
  · rw [if_neg hc]
    unfold DeadlineOK
    show x.beginClose.deadline = (armedSince (x.out ++ [(s.now, Act.close)])).map _
    rw [armedSince_append_quiet _ _ _ ⟨by simp, by simp, by simp⟩, (beginClose_dl x).1]; exact k

theorem dlInv_errorClose {s : State} (c : Nat) (h : DeadlineInv s) : DeadlineInv (errorClose s c) :=
  dlInv_closeT c (dlInv_logAct c _ ⟨by simp, by simp, by simp⟩ h)

theorem dlInv_beginClose {s : State} (c : Nat) (h : DeadlineInv s) : DeadlineInv (s.upd c Conn.beginClose) :=
  dlInv_local c _ beginClose_dl h

theorem dlInv_peerClose {s : State} (c : Nat) (h : DeadlineInv s) : DeadlineInv (peerClose s c) := by
  unfold peerClose
  split
  · exact h
  · split
    · exact h
    · exact dlInv_beginClose c (dlInv_logAct c _ ⟨by simp, by simp, by simp⟩ h)

theorem dlInv_pauseReading {s : State} (c : Nat) (h : DeadlineInv s) : DeadlineInv (pauseReading s c) := by
  unfold pauseReading
  split
  · split
    · exact h
    · exact dlInv_logAct c _ ⟨by simp, by simp, by simp⟩ (dlInv_local c _ (fun _ => ⟨rfl, rfl⟩) h)
  · exact h

theorem dlInv_resumeReading {s : State} (c : Nat) (h : DeadlineInv s) : DeadlineInv (resumeReading s c) := by
  unfold resumeReading
  split
  · split
    · exact h
    · exact dlInv_logAct c _ ⟨by simp, by simp, by simp⟩ (dlInv_local c _ (fun _ => ⟨rfl, rfl⟩) h)
  · exact h

theorem dlInv_setAuth {s : State} (c : Nat) (i d : Bytes) (row : Row) (h : DeadlineInv s) :
    DeadlineInv (setAuth s c i d row) := by
  unfold setAuth
  split
  · exact h
  · exact dlInv_local (s := { s with gSubs := _, labels := _ }) c _ (fun _ => ⟨rfl, rfl⟩)
      (fun d y hy => h d y hy)

theorem dlInv_doSubscribe {s : State} (c : Nat) (ch : Bytes) (ok : Bool) (h : DeadlineInv s) :
    DeadlineInv (doSubscribe s c ch ok) := by
  refine dlInv_local c _ (fun _ => ⟨rfl, rfl⟩) ?_
  intro d y' hy'
  by_cases hd : d = c
  · subst hd
    cases hx : s.conn d with
    | none => rw [nonew_subscribe s d ch d hx] at hy'; cases hy'
    | some x => rw [subscribe_conn hx] at hy'; cases hy'; exact h _ x hx
  · rw [subscribe_conn_ne hd] at hy'; exact h d y' hy'

theorem dlInv_unsubscribe {s : State} (c : Nat) (ch : Bytes) (h : DeadlineInv s) :
    DeadlineInv (unsubscribe s c ch) := by
  intro d y' hy'
  by_cases hd : d = c
  · subst hd
    cases hx : s.conn d with
    | none => rw [unsubscribe_none hx, hx] at hy'; cases hy'
    | some x => rw [unsubscribe_conn hx] at hy'; cases hy'; exact h _ x hx
  · rw [unsubscribe_conn_ne hd] at hy'; exact h d y' hy'

theorem dlInv_connectionLost {s : State} (c : Nat) (h : DeadlineInv s) : DeadlineInv (connectionLost s c) := by
  intro d y' hy'
  by_cases hd : d = c
  · subst hd
    cases hx : s.conn d with
    | none =>
      have : connectionLost s d = s := by unfold connectionLost; rw [hx]
      rw [this, hx] at hy'; cases hy'
    | some x =>
      obtain ⟨l, _, hl | ⟨hl, _⟩⟩ := connectionLost_conn' hx
      · rw [hl] at hy'; cases hy'; exact h _ x hx
      · rw [hl] at hy'; exact (Option.some.inj hy') ▸ h _ x hx
  · rw [connectionLost_conn_ne hd] at hy'; exact h d y' hy'

theorem quiet_of_pubWrite {e : Nat × Act} (h : IsPubWrite e) : Quiet e.2 := by
  obtain ⟨f, hf, _⟩ := h
  rw [hf]; exact ⟨by simp, by simp, by simp⟩

theorem dlInv_publish {s : State} (c : Nat) (x : Conn) (i ch p : Bytes) (h : DeadlineInv s) :
    DeadlineInv (publish s c x i ch p) := by
  intro d y' hy'
  cases hy : s.conn d with
  | none => rw [nonew_publish s c x i ch p d hy] at hy'; cases hy'
  | some y =>
    obtain ⟨y2, hy2, extra, r, hp, _⟩ := publish_othersRel s c x i ch p d y hy
    rw [hy2] at hy'; cases hy'
    have k := h d y hy
    unfold DeadlineOK
    rw [r.out, armedSince_append_quiets _ _ (fun e he => quiet_of_pubWrite (hp e he)),
      show y'.deadline = y.deadline by rw [r.eq]]
    exact k

theorem dlInv_addConn {cfg : Cfg} {s : State} (c : Nat) (n : Bytes) (h : DeadlineInv s) :
    DeadlineInv (addConn cfg s c n) := by
  intro d y hy
  simp only [addConn] at hy
  by_cases hd : d = c
  · simp only [hd, if_true, Option.some.injEq] at hy
    rw [← hy]; rfl
  · simp only [hd, if_false] at hy; exact h d y hy

theorem armedSince_append_paused (o : List (Nat × Act)) (t : Nat) :
    armedSince (o ++ [(t, .pausedW)]) = some t := by
  unfold armedSince; rw [List.foldl_append]; rfl

theorem armedSince_append_end (o : List (Nat × Act)) (t : Nat) (a : Act)
    (ha : a = .resumedW ∨ a = .deadlineFired) : armedSince (o ++ [(t, a)]) = none := by
  unfold armedSince; rw [List.foldl_append]
  rcases ha with rfl | rfl <;> rfl

theorem dlInv_armDeadline {s : State} (c : Nat) (h : DeadlineInv s) : DeadlineInv (armDeadline s c) := by
  intro d y' hy'
  unfold armDeadline logAct at hy'
  simp only [upd_conn] at hy'
  by_cases hd : d = c
  · subst hd
    cases hx : s.conn d with
    | none => simp [hx] at hy'
    | some x =>
      simp [hx] at hy'
      rw [← hy']
      unfold DeadlineOK
      simp only
      rw [show (s.upd d fun x => { x with deadline := some (s.now + gracePeriodMs) }).now = s.now from rfl,
        armedSince_append_paused]
      rfl
  · simp only [hd, if_false] at hy'; exact h d y' hy'

theorem dlInv_clearDeadline {s : State} (c : Nat) (a : Act) (ha : a = .resumedW ∨ a = .deadlineFired)
    (h : DeadlineInv s) : DeadlineInv (clearDeadline s c a) := by
  intro d y' hy'
  unfold clearDeadline logAct at hy'
  simp only [upd_conn] at hy'
  by_cases hd : d = c
  · subst hd
    cases hx : s.conn d with
    | none => simp [hx] at hy'
    | some x =>
      simp [hx] at hy'
      rw [← hy']
      unfold DeadlineOK
      simp only
      rw [armedSince_append_end _ _ _ ha]
      rfl
  · simp only [hd, if_false] at hy'; exact h d y' hy'

theorem dlPres (cfg : Cfg) : Pres cfg DeadlineInv where
  prim := fun c => {
    logAct := fun _ a pa h => dlInv_logAct c a (by cases pa <;> exact ⟨by simp, by simp, by simp⟩) h
    closeT := fun _ h => dlInv_closeT c h
    crashClose := fun _ h => dlInv_beginClose c (dlInv_logAct c _ ⟨by simp, by simp, by simp⟩ h)
    doSubscribe := fun _ ch ok _ _ _ _ _ _ h => dlInv_doSubscribe c ch ok h
    doUnsubscribe := fun _ ch _ _ _ _ h => dlInv_local c _ (fun _ => ⟨rfl, rfl⟩) (dlInv_unsubscribe c ch h)
    setAuth := fun _ i d row _ _ _ h => dlInv_setAuth c i d row h
    pauseReading := fun _ h => dlInv_pauseReading c h
    resumeReading := fun _ h => dlInv_resumeReading c h
    addPending := fun _ _ _ h => dlInv_local c _ (fun _ => ⟨rfl, rfl⟩) h
    dropPending := fun _ _ h => dlInv_local c _ (fun _ => ⟨rfl, rfl⟩) h
    setBuf := fun _ _ h => dlInv_local c _ (fun _ => ⟨rfl, rfl⟩) h
    publish := fun _ x i ch p _ _ _ _ h => dlInv_publish c x i ch p h
    addConn := fun _ n _ h => dlInv_addConn c n h
    peerClose := fun _ h => dlInv_peerClose c h
    lostConn := fun _ _ _ _ h =>
      dlInv_local c _ (fun _ => ⟨rfl, rfl⟩) (dlInv_peerClose c (dlInv_connectionLost c h))
    armDeadline := fun _ h => dlInv_armDeadline c h
    clearDeadline := fun _ a ha h => dlInv_clearDeadline c a ha h }
  tick := fun s ms h => fun d y hy => h d y hy

theorem dl_run (cfg : Cfg) (es : List Event) : DeadlineInv (run cfg es) :=
  pres_run (dlPres cfg) (by intro d y h; simp [init] at h) es

/-- during one event (other than the clock moving) a deadline can only be kept, cleared, or armed at
    `now + grace` -/
def DlRel (s0 s' : State) : Prop :=
  s'.now = s0.now ∧ s'.ids = s0.ids ∨ s'.now = s0.now ∧ ∃ c, s'.ids = s0.ids ++ [c]

def DlKeep (s0 s' : State) : Prop :=
  s'.now = s0.now ∧
  ∀ d y' t, s'.conn d = some y' → y'.deadline = some t →
    t = s0.now + gracePeriodMs ∨ ∃ y, s0.conn d = some y ∧ y.deadline = some t

theorem DlKeep.refl (s : State) : DlKeep s s := ⟨rfl, fun d y' t hy ht => Or.inr ⟨y', hy, ht⟩⟩

theorem DlKeep.trans {a b c : State} (h1 : DlKeep a b) (h2 : DlKeep b c) : DlKeep a c := by
  refine ⟨by rw [h2.1, h1.1], fun d y' t hy ht => ?_⟩
  rcases h2.2 d y' t hy ht with h | ⟨y, hy2, ht2⟩
  · left; rw [h, h1.1]
  · exact h1.2 d y t hy2 ht2

/-- a state change under which every record's deadline is the old one -/
theorem dlKeep_of_same {s s' : State} (hn : s'.now = s.now)
    (hc : ∀ d y', s'.conn d = some y' → ∃ y, s.conn d = some y ∧ y'.deadline = y.deadline) : DlKeep s s' := by
  refine ⟨hn, fun d y' t hy ht => ?_⟩
  obtain ⟨y, hy0, hd⟩ := hc d y' hy
  exact Or.inr ⟨y, hy0, by rw [← hd]; exact ht⟩

theorem dlKeep_upd (s : State) (c : Nat) (f : Conn → Conn) (hf : ∀ x, (f x).deadline = x.deadline) :
    DlKeep s (s.upd c f) := by
  refine dlKeep_of_same rfl ?_
  intro d y' hy'
  simp only [upd_conn] at hy'
  by_cases hd : d = c
  · subst hd
    cases hx : s.conn d with
    | none => simp [hx] at hy'
    | some x => simp [hx] at hy'; subst hy'; exact ⟨x, rfl, hf x⟩
  · simp only [hd, if_false] at hy'; exact ⟨y', hy', rfl⟩

theorem dlKeep_logAct (s : State) (c : Nat) (a : Act) : DlKeep s (logAct s c a) := dlKeep_upd s c _ fun _ => rfl

theorem beginClose_deadline (x : Conn) : x.beginClose.deadline = x.deadline := (beginClose_dl x).1

theorem dlKeep_closeT (s : State) (c : Nat) : DlKeep s (closeT s c) := by
  refine dlKeep_upd s c _ fun x => ?_
  by_cases hc : x.closing = true
  · rw [if_pos hc]
  · rw [if_neg hc]; exact beginClose_deadline x

theorem dlKeep_errorClose (s : State) (c : Nat) : DlKeep s (errorClose s c) :=
  (dlKeep_logAct s c _).trans (dlKeep_closeT _ c)

theorem dlKeep_crashClose (s : State) (c : Nat) : DlKeep s (crashClose s c) :=
  (dlKeep_logAct s c _).trans (dlKeep_upd _ c _ beginClose_deadline)

theorem dlKeep_peerClose (s : State) (c : Nat) : DlKeep s (peerClose s c) := by
  unfold peerClose
  split
  · exact DlKeep.refl s
  · split
    · exact DlKeep.refl s
    · exact (dlKeep_logAct s c _).trans (dlKeep_upd _ c _ beginClose_deadline)

theorem dlKeep_pauseReading (s : State) (c : Nat) : DlKeep s (pauseReading s c) := by
  unfold pauseReading
  split
  · split
    · exact DlKeep.refl s
    · refine DlKeep.trans ?_ (dlKeep_logAct _ c _)
      exact dlKeep_upd s c _ fun _ => rfl
  · exact DlKeep.refl s

theorem dlKeep_resumeReading (s : State) (c : Nat) : DlKeep s (resumeReading s c) := by
  unfold resumeReading
  split
  · split
    · exact DlKeep.refl s
    · refine DlKeep.trans ?_ (dlKeep_logAct _ c _)
      exact dlKeep_upd s c _ fun _ => rfl
  · exact DlKeep.refl s

theorem dlKeep_setAuth (s : State) (c : Nat) (i d : Bytes) (row : Row) : DlKeep s (setAuth s c i d row) := by
  unfold setAuth
  split
  · exact DlKeep.refl s
  · exact dlKeep_upd (s := { s with gSubs := _, labels := _ }) c _ fun _ => rfl

theorem dlKeep_of_mono_eq {s s' : State} (hn : s'.now = s.now) (hnn : NoNew s s')
    (hc : ∀ d y y', s.conn d = some y → s'.conn d = some y' → y'.deadline = y.deadline) : DlKeep s s' := by
  refine dlKeep_of_same hn ?_
  intro d y' hy'
  cases hy : s.conn d with
  | none => rw [hnn d hy] at hy'; cases hy'
  | some y => exact ⟨y, rfl, hc d y y' hy hy'⟩

theorem subscribe_now (s : State) (c : Nat) (ch : Bytes) : (subscribe s c ch).now = s.now := by
  unfold subscribe; split
  · rfl
  · split <;> rfl

theorem dlKeep_doSubscribe (s : State) (c : Nat) (ch : Bytes) (ok : Bool) : DlKeep s (doSubscribe s c ch ok) := by
  refine dlKeep_of_mono_eq (subscribe_now s c ch) (nonew_doSubscribe s c ch ok) ?_
  intro d y y' hy hy'
  unfold doSubscribe noteSub at hy'
  simp only [upd_conn] at hy'
  by_cases hd : d = c
  · subst hd; simp [subscribe_conn hy] at hy'; rw [← hy']
  · simp only [hd, if_false, subscribe_conn_ne hd, hy, Option.some.injEq] at hy'; rw [hy']

theorem dlKeep_doUnsubscribe (s : State) (c : Nat) (ch : Bytes) : DlKeep s (doUnsubscribe s c ch) := by
  refine dlKeep_of_mono_eq (unsubscribe_now s c ch) (nonew_doUnsubscribe s c ch) ?_
  intro d y y' hy hy'
  unfold doUnsubscribe noteUnsub at hy'
  simp only [upd_conn] at hy'
  by_cases hd : d = c
  · subst hd; simp [unsubscribe_conn hy] at hy'; rw [← hy']
  · simp only [hd, if_false, unsubscribe_conn_ne hd, hy, Option.some.injEq] at hy'; rw [hy']

theorem dlKeep_connectionLost (s : State) (c : Nat) : DlKeep s (connectionLost s c) := by
  refine dlKeep_of_mono_eq (connectionLost_now s c) (nonew_connectionLost s c) ?_
  intro d y y' hy hy'
  by_cases hd : d = c
  · subst hd
    obtain ⟨l, _, hl | ⟨hl, _⟩⟩ := connectionLost_conn' hy
    · rw [hl] at hy'; cases hy'; rfl
    · rw [hl] at hy'; cases hy'; rfl
  · rw [connectionLost_conn_ne hd, hy] at hy'; cases hy'; rfl

theorem publish_now (s : State) (c : Nat) (x : Conn) (i ch p : Bytes) : (publish s c x i ch p).now = s.now := by
  obtain ⟨_, fn, _, _⟩ := foldl_deliver_spec (pubFrame i ch p) (s.subs ch).eraseDups (nodup_eraseDups _) s
  exact fn

theorem dlKeep_publish (s : State) (c : Nat) (x : Conn) (i ch p : Bytes) : DlKeep s (publish s c x i ch p) := by
  refine dlKeep_of_mono_eq (publish_now s c x i ch p) (nonew_publish s c x i ch p) ?_
  intro d y y' hy hy'
  obtain ⟨y2, hy2, extra, r, _, _⟩ := publish_othersRel s c x i ch p d y hy
  rw [hy2] at hy'; cases hy'
  rw [r.eq]

theorem peerClose_now (s : State) (c : Nat) : (peerClose s c).now = s.now := by
  unfold peerClose; split
  · rfl
  · split <;> rfl

theorem dlKeep_lostConn (s : State) (c : Nat) : DlKeep s (lostConn s c) := by
  unfold lostConn markGone
  exact (dlKeep_connectionLost s c).trans ((dlKeep_peerClose _ c).trans (dlKeep_upd _ c _ fun _ => rfl))

theorem dlKeep_addConn (cfg : Cfg) (s : State) (c : Nat) (n : Bytes) : DlKeep s (addConn cfg s c n) := by
  refine ⟨rfl, fun d y' t hy ht => ?_⟩
  simp only [addConn] at hy
  by_cases hd : d = c
  · simp only [hd, if_true, Option.some.injEq] at hy
    rw [← hy] at ht; cases ht
  · simp only [hd, if_false] at hy; exact Or.inr ⟨y', hy, ht⟩

theorem dlKeep_armDeadline (s : State) (c : Nat) : DlKeep s (armDeadline s c) := by
  refine ⟨rfl, fun d y' t hy ht => ?_⟩
  unfold armDeadline logAct at hy
  simp only [upd_conn] at hy
  by_cases hd : d = c
  · subst hd
    cases hx : s.conn d with
    | none => simp [hx] at hy
    | some x =>
      simp [hx] at hy
      rw [← hy] at ht
      simp only [Option.some.injEq] at ht
      exact Or.inl ht.symm
  · simp only [hd, if_false] at hy; exact Or.inr ⟨y', hy, ht⟩

theorem dlKeep_clearDeadline (s : State) (c : Nat) (a : Act) : DlKeep s (clearDeadline s c a) := by
  refine ⟨rfl, fun d y' t hy ht => ?_⟩
  unfold clearDeadline logAct at hy
  simp only [upd_conn] at hy
  by_cases hd : d = c
  · subst hd
    cases hx : s.conn d with
    | none => simp [hx] at hy
    | some x => simp [hx] at hy; rw [← hy] at ht; cases ht
  · simp only [hd, if_false] at hy; exact Or.inr ⟨y', hy, ht⟩

theorem dlKeepPresAt (cfg : Cfg) (c : Nat) (s0 : State) : PresAt cfg c (DlKeep s0) where
  logAct := fun s a _ h => h.trans (dlKeep_logAct s c a)
  closeT := fun s h => h.trans (dlKeep_closeT s c)
  crashClose := fun s h => h.trans (dlKeep_crashClose s c)
  doSubscribe := fun s ch ok _ _ _ _ _ _ h => h.trans (dlKeep_doSubscribe s c ch ok)
  doUnsubscribe := fun s ch _ _ _ _ h => h.trans (dlKeep_doUnsubscribe s c ch)
  setAuth := fun s i d row _ _ _ h => h.trans (dlKeep_setAuth s c i d row)
  pauseReading := fun s h => h.trans (dlKeep_pauseReading s c)
  resumeReading := fun s h => h.trans (dlKeep_resumeReading s c)
  addPending := fun s _ _ h => h.trans (dlKeep_upd s c _ fun _ => rfl)
  dropPending := fun s _ h => h.trans (dlKeep_upd s c _ fun _ => rfl)
  setBuf := fun s _ h => h.trans (dlKeep_upd s c _ fun _ => rfl)
  publish := fun s x i ch p _ _ _ _ h => h.trans (dlKeep_publish s c x i ch p)
  addConn := fun s n _ h => h.trans (dlKeep_addConn cfg s c n)
  peerClose := fun s h => h.trans (dlKeep_peerClose s c)
  lostConn := fun s _ _ _ h => h.trans (dlKeep_lostConn s c)
  armDeadline := fun s h => h.trans (dlKeep_armDeadline s c)
  clearDeadline := fun s a _ h => h.trans (dlKeep_clearDeadline s c a)

/-- one event that is not the clock moving keeps `now` and can only keep / clear / freshly arm deadlines -/
theorem dlKeep_step (cfg : Cfg) (s : State) (e : Event) (he : ∀ ms, e ≠ .advance ms) :
    DlKeep s (step cfg s e) := by
  cases ht : e.target with
  | none => cases e <;> simp [Event.target] at ht; exact absurd rfl (he _)
  | some c =>
    exact pres_step_at (cfg := cfg) (P := DlKeep s) s e
      (fun c' hc' => by rw [ht] at hc'; cases hc'; exact dlKeepPresAt cfg c s)
      (fun ms hms _ => absurd hms (he ms))
      (DlKeep.refl s)


/-- an armed deadline has not been overrun -/
def NoOverrun (s : State) : Prop := ∀ d y t, s.conn d = some y → y.deadline = some t → s.now ≤ t

theorem noOverrun_step (cfg : Cfg) (s : State) (e : Event) (hr : Reg s) (hok : okEvent cfg s e = true)
    (h : NoOverrun s) : NoOverrun (step cfg s e) := by
  by_cases he : ∃ ms, e = .advance ms
  · obtain ⟨ms, rfl⟩ := he
    intro d y t hy ht
    simp only [step, tick] at hy ⊢
    simp only [okEvent, List.all_eq_true] at hok
    have hd : d ∈ s.ids := by rw [hr.ids_iff, hy]; rfl
    have := hok d hd
    rw [hy] at this
    simp only [ht, decide_eq_true_eq] at this
    exact this
  · have he' : ∀ ms, e ≠ .advance ms := fun ms h' => he ⟨ms, h'⟩
    obtain ⟨hn, hk⟩ := dlKeep_step cfg s e he'
    intro d y' t hy ht
    rw [hn]
    rcases hk d y' t hy ht with h1 | ⟨y, hy0, ht0⟩
    · rw [h1]; exact Nat.le_add_right _ _
    · exact h d y t hy0 ht0

theorem noOverrun_valid (cfg : Cfg) (es : List Event) (s : State) (hr : Reg s) (h : NoOverrun s)
    (hv : validFrom cfg s es = true) : NoOverrun (es.foldl (step cfg) s) := by
  induction es generalizing s with
  | nil => exact h
  | cons e es ih =>
    simp only [validFrom, Bool.and_eq_true] at hv
    exact ih _ (pres_step (regPres cfg) s e hr) (noOverrun_step cfg s e hr hv.1 h) hv.2

/-- under the event-loop contract no armed deadline is ever overrun, in any valid history -/
theorem noOverrun_run (cfg : Cfg) (es : List Event) (hv : Valid cfg es) : NoOverrun (run cfg es) :=
  noOverrun_valid cfg es init reg_init (by intro d y t h; simp [init] at h) hv

end Hpfeeds.Broker
