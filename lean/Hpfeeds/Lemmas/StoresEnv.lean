/-
  The environment store read back from the environment a user table is WRITTEN to: `envOf` is how an operator
  (and the stores engine of the harness) configures identities — four variables per identity, channel lists
  joined with commas.  Lemmas for C17.env_configured / env_unknown.
-/
import Hpfeeds.Model.Stores
namespace Hpfeeds.Stores
open Hpfeeds

/-- `','.join(chans)` -/
def joinComma (cs : List Bytes) : Bytes := List.intercalate [44] cs

/-- the four variables that configure one identity -/
def envVars (up : Bytes → Bytes) (e : Bytes × Rec) : List (Bytes × Bytes) :=
  [(envKey up e.1 SECRET, e.2.secret), (envKey up e.1 OWNER, e.2.owner),
   (envKey up e.1 SUBCHANS, joinComma e.2.subchans), (envKey up e.1 PUBCHANS, joinComma e.2.pubchans)]

/-- the environment holding exactly the variables of the table's identities -/
def envOf (up : Bytes → Bytes) (t : Table) : Bytes → Option Bytes :=
  fun k => ((t.flatMap (envVars up)).find? (fun kv => kv.1 = k)).map (·.2)

theorem split_join (cs : List Bytes) (h : ∀ c ∈ cs, c ≠ [] ∧ (44 : UInt8) ∉ c) : splitComma (joinComma cs) = cs := by
  unfold splitComma joinComma
  cases cs with
  | nil => decide
  | cons c cs =>
    rw [List.splitOn_intercalate 44 (fun l hl => (h l hl).2) (by simp)]
    apply List.filter_eq_self.mpr
    intro l hl
    simpa using (h l hl).1

theorem append_underscore_inj' (a1 a2 x1 x2 : Bytes) (h1 : underscore ∉ x1) (h2 : underscore ∉ x2)
    (h : a1 ++ underscore :: x1 = a2 ++ underscore :: x2) : a1 = a2 ∧ x1 = x2 := by
  induction a1 generalizing a2 with
  | nil =>
    cases a2 with
    | nil => simp at h; exact ⟨rfl, h⟩
    | cons b a2 =>
      simp only [List.nil_append, List.cons_append, List.cons.injEq] at h
      exfalso; apply h1; rw [h.2]; simp
  | cons b a1 ih =>
    cases a2 with
    | nil =>
      simp only [List.nil_append, List.cons_append, List.cons.injEq] at h
      exfalso; apply h2; rw [← h.2]; simp
    | cons b' a2 =>
      simp only [List.cons_append, List.cons.injEq] at h
      obtain ⟨e1, e2⟩ := ih a2 h.2
      exact ⟨by rw [h.1, e1], e2⟩

def IsAttr' (a : Bytes) : Prop := a = SECRET ∨ a = OWNER ∨ a = SUBCHANS ∨ a = PUBCHANS

theorem key_inj (up : Bytes → Bytes) (i1 i2 a1 a2 : Bytes) (h1 : IsAttr' a1) (h2 : IsAttr' a2)
    (h : envKey up i1 a1 = envKey up i2 a2) : up i1 = up i2 ∧ a1 = a2 := by
  unfold envKey at h
  have h' := List.append_cancel_left h
  simp only [List.cons.injEq, true_and] at h'
  have n1 : underscore ∉ a1 := by rcases h1 with rfl | rfl | rfl | rfl <;> decide
  have n2 : underscore ∉ a2 := by rcases h2 with rfl | rfl | rfl | rfl <;> decide
  exact append_underscore_inj' _ _ _ _ n1 n2 h'

/-- the value `envVars` gives attribute `a` -/
def valOf (r : Rec) (a : Bytes) : Bytes :=
  if a = SECRET then r.secret else if a = OWNER then r.owner
  else if a = SUBCHANS then joinComma r.subchans else joinComma r.pubchans

theorem find_hit (up : Bytes → Bytes) (i j : Bytes) (r : Rec) (a : Bytes) (ha : IsAttr' a) (hj : up j = up i)
    (rest : List (Bytes × Bytes)) :
    ((envVars up (i, r) ++ rest).find? (fun kv => kv.1 = envKey up j a)).map (·.2) = some (valOf r a) := by
  have kj : ∀ x, envKey up j x = envKey up i x := fun x => by unfold envKey; rw [hj]
  have ne : ∀ x y, IsAttr' x → IsAttr' y → x ≠ y → ¬ envKey up i x = envKey up i y :=
    fun x y hx hy hxy h => hxy (key_inj up i i x y hx hy h).2
  have aS : IsAttr' SECRET := Or.inl rfl
  have aO : IsAttr' OWNER := Or.inr (Or.inl rfl)
  have aU : IsAttr' SUBCHANS := Or.inr (Or.inr (Or.inl rfl))
  have aP : IsAttr' PUBCHANS := Or.inr (Or.inr (Or.inr rfl))
  rw [kj]
  rcases ha with rfl | rfl | rfl | rfl
  · simp [envVars, valOf]
  · have := ne SECRET OWNER aS aO (by decide)
    simp [envVars, valOf, this, show OWNER ≠ SECRET by decide]
  · have h1 := ne SECRET SUBCHANS aS aU (by decide)
    have h2 := ne OWNER SUBCHANS aO aU (by decide)
    simp [envVars, valOf, h1, h2, show SUBCHANS ≠ SECRET by decide, show SUBCHANS ≠ OWNER by decide]
  · have h1 := ne SECRET PUBCHANS aS aP (by decide)
    have h2 := ne OWNER PUBCHANS aO aP (by decide)
    have h3 := ne SUBCHANS PUBCHANS aU aP (by decide)
    simp [envVars, valOf, h1, h2, h3, show PUBCHANS ≠ SECRET by decide,
      show PUBCHANS ≠ OWNER by decide, show PUBCHANS ≠ SUBCHANS by decide]

theorem find_miss (up : Bytes → Bytes) (e : Bytes × Rec) (j a : Bytes) (ha : IsAttr' a) (hne : up e.1 ≠ up j)
    (rest : List (Bytes × Bytes)) :
    (envVars up e ++ rest).find? (fun kv => kv.1 = envKey up j a) = rest.find? (fun kv => kv.1 = envKey up j a) := by
  have aS : IsAttr' SECRET := Or.inl rfl
  have aO : IsAttr' OWNER := Or.inr (Or.inl rfl)
  have aU : IsAttr' SUBCHANS := Or.inr (Or.inr (Or.inl rfl))
  have aP : IsAttr' PUBCHANS := Or.inr (Or.inr (Or.inr rfl))
  have ne : ∀ x, IsAttr' x → ¬ envKey up e.1 x = envKey up j a := fun x hx h => hne (key_inj up e.1 j x a hx ha h).1
  simp [envVars, ne SECRET aS, ne OWNER aO, ne SUBCHANS aU, ne PUBCHANS aP]

theorem envOf_hit (up : Bytes → Bytes) (t : Table) (i j : Bytes) (r : Rec) (a : Bytes) (ha : IsAttr' a)
    (hnd : (t.map (fun e => up e.1)).Nodup) (h : (i, r) ∈ t) (hj : up j = up i) :
    envOf up t (envKey up j a) = some (valOf r a) := by
  unfold envOf
  induction t with
  | nil => cases h
  | cons e t ih =>
    obtain ⟨he, hnd'⟩ := List.nodup_cons.mp hnd
    rw [List.flatMap_cons]
    rcases List.mem_cons.mp h with h1 | h1
    · rw [← h1]; exact find_hit up i j r a ha hj _
    · have hne : up e.1 ≠ up j := by
        intro hh; apply he
        show up e.1 ∈ _
        rw [hh, hj]
        exact List.mem_map.mpr ⟨(i, r), h1, rfl⟩
      rw [find_miss up e j a ha hne]
      exact ih hnd' h1

theorem envOf_miss (up : Bytes → Bytes) (t : Table) (j a : Bytes) (ha : IsAttr' a)
    (h : up j ∉ t.map (fun e => up e.1)) : envOf up t (envKey up j a) = none := by
  unfold envOf
  induction t with
  | nil => rfl
  | cons e t ih =>
    simp only [List.map_cons, List.mem_cons, not_or] at h
    rw [List.flatMap_cons, find_miss up e j a ha (fun hh => h.1 hh.symm)]
    exact ih h.2

end Hpfeeds.Stores
