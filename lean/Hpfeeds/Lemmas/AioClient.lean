/-
  Invariants of the asyncio ClientSession model, for every event sequence.
-/
import Hpfeeds.Model.AioClient
import Hpfeeds.Lemmas.Wire
namespace Hpfeeds.AioClient
open Hpfeeds Extracted

/-- the message an OP_PUBLISH frame carries (if the frame is one, and its fields decode) -/
def pubOf (f : Frame) : Option Message :=
  match read f with
  | some (.ok (.publish i c p)) => some (i, c, p)
  | _ => none

/-! ### read queue: FIFO, nothing lost, nothing duplicated -/

structure QInv (s : State) : Prop where
  fifo : s.received = s.handedLog ++ s.queue
  idle : s.readers > 0 → s.queue = []

theorem write_q (s : State) (b : Bytes) :
    (write s b).1.received = s.received ∧ (write s b).1.handedLog = s.handedLog ∧
    (write s b).1.queue = s.queue ∧ (write s b).1.readers = s.readers ∧
    (write s b).1.allProcessed = s.allProcessed := by
  unfold write
  split
  · exact ⟨rfl, rfl, rfl, rfl, rfl⟩
  · split <;> exact ⟨rfl, rfl, rfl, rfl, rfl⟩

theorem closeT_q (s : State) :
    (closeT s).1.received = s.received ∧ (closeT s).1.handedLog = s.handedLog ∧
    (closeT s).1.queue = s.queue ∧ (closeT s).1.readers = s.readers ∧
    (closeT s).1.allProcessed = s.allProcessed := by
  unfold closeT
  split
  · exact ⟨rfl, rfl, rfl, rfl, rfl⟩
  · split <;> exact ⟨rfl, rfl, rfl, rfl, rfl⟩

theorem writeAll_q (s : State) (bs : List Bytes) :
    (writeAll s bs).1.received = s.received ∧ (writeAll s bs).1.handedLog = s.handedLog ∧
    (writeAll s bs).1.queue = s.queue ∧ (writeAll s bs).1.readers = s.readers ∧
    (writeAll s bs).1.allProcessed = s.allProcessed := by
  unfold writeAll
  suffices ∀ (acc : State × List Out), ((bs.foldl (fun acc b => let r := write acc.1 b; (r.1, acc.2 ++ r.2)) acc).1.received = acc.1.received ∧
      (bs.foldl (fun acc b => let r := write acc.1 b; (r.1, acc.2 ++ r.2)) acc).1.handedLog = acc.1.handedLog ∧
      (bs.foldl (fun acc b => let r := write acc.1 b; (r.1, acc.2 ++ r.2)) acc).1.queue = acc.1.queue ∧
      (bs.foldl (fun acc b => let r := write acc.1 b; (r.1, acc.2 ++ r.2)) acc).1.readers = acc.1.readers ∧
      (bs.foldl (fun acc b => let r := write acc.1 b; (r.1, acc.2 ++ r.2)) acc).1.allProcessed = acc.1.allProcessed) from this (s, [])
  induction bs with
  | nil => intro acc; exact ⟨rfl, rfl, rfl, rfl, rfl⟩
  | cons b bs ih =>
    intro acc
    simp only [List.foldl_cons]
    obtain ⟨h1, h2, h3, h4, h5⟩ := ih ((write acc.1 b).1, acc.2 ++ (write acc.1 b).2)
    obtain ⟨w1, w2, w3, w4, w5⟩ := write_q acc.1 b
    exact ⟨by rw [h1, w1], by rw [h2, w2], by rw [h3, w3], by rw [h4, w4], by rw [h5, w5]⟩

/-- `put_nowait`: the queue stays FIFO-consistent; the message is appended to `received` -/
theorem deliver_q (s : State) (m : Message) (h : QInv s) :
    QInv (deliver s m).1 ∧ (deliver s m).1.received = s.received ++ [m] ∧
    (deliver s m).1.allProcessed = s.allProcessed := by
  unfold deliver
  simp only
  split
  · rename_i hc
    refine ⟨⟨?_, ?_⟩, rfl, rfl⟩
    · simp only; rw [h.fifo, hc.2]; simp
    · intro _; exact hc.2
  · rename_i hc
    refine ⟨⟨?_, ?_⟩, rfl, rfl⟩
    · simp only; rw [h.fifo]; simp
    · intro hr
      simp only at hr
      have hq := h.idle hr
      exfalso; apply hc; exact ⟨hr, hq⟩

def RInv (s : State) : Prop := QInv s ∧ s.received = s.allProcessed.filterMap pubOf

theorem qinv_of_eq {s s' : State} (h : QInv s) (h1 : s'.received = s.received) (h2 : s'.handedLog = s.handedLog)
    (h3 : s'.queue = s.queue) (h4 : s'.readers = s.readers) : QInv s' :=
  ⟨by rw [h1, h2, h3]; exact h.fifo, by rw [h3, h4]; exact h.idle⟩

theorem rinv_of_eq {s s' : State} (h : RInv s) (h1 : s'.received = s.received) (h2 : s'.handedLog = s.handedLog)
    (h3 : s'.queue = s.queue) (h4 : s'.readers = s.readers) (h5 : s'.allProcessed = s.allProcessed) : RInv s' :=
  ⟨qinv_of_eq h.1 h1 h2 h3 h4, by rw [h1, h5]; exact h.2⟩

theorem rinv_write {s : State} (b : Bytes) (h : RInv s) : RInv (write s b).1 := by
  obtain ⟨a, b', c, d, e⟩ := write_q s b; exact rinv_of_eq h a b' c d e

theorem rinv_closeT {s : State} (h : RInv s) : RInv (closeT s).1 := by
  obtain ⟨a, b', c, d, e⟩ := closeT_q s; exact rinv_of_eq h a b' c d e

theorem rinv_writeAll {s : State} (bs : List Bytes) (h : RInv s) : RInv (writeAll s bs).1 := by
  obtain ⟨a, b', c, d, e⟩ := writeAll_q s bs; exact rinv_of_eq h a b' c d e

/-- dispatching frame `f` (already noted): `received` grows by exactly the message of `f`, if any -/
theorem onFrame_r (cfg : Cfg) (s : State) (f : Frame) (hq : QInv s)
    (hr : s.received ++ (pubOf f).toList = s.allProcessed.filterMap pubOf) :
    RInv (onFrame cfg s f).1 := by
  unfold onFrame
  cases hrd : read f with
  | none =>
    have hp : pubOf f = none := by simp [pubOf, hrd]
    simp only [hp, Option.toList_none, List.append_nil] at hr
    exact rinv_closeT ⟨hq, hr⟩
  | some r =>
    cases r with
    | error c =>
      have hp : pubOf f = none := by simp [pubOf, hrd]
      simp only [hp, Option.toList_none, List.append_nil] at hr
      exact ⟨hq, hr⟩
    | ok m =>
      cases m with
      | error t =>
        have hp : pubOf f = none := by simp [pubOf, hrd]
        simp only [hp, Option.toList_none, List.append_nil] at hr
        exact ⟨hq, hr⟩
      | info n rand =>
        have hp : pubOf f = none := by simp [pubOf, hrd]
        simp only [hp, Option.toList_none, List.append_nil] at hr
        simp only
        cases hc : s.conn with
        | none => exact ⟨hq, hr⟩
        | some c =>
          simp only
          apply rinv_writeAll
          have h1 : RInv (write s (authFrame cfg rand)).1 := rinv_write _ ⟨hq, hr⟩
          generalize (write s (authFrame cfg rand)).1 = s1 at h1 ⊢
          cases s1.conn with
          | none => exact h1
          | some c' => exact rinv_of_eq h1 rfl rfl rfl rfl rfl
      | auth i d =>
        have hp : pubOf f = none := by simp [pubOf, hrd]
        simp only [hp, Option.toList_none, List.append_nil] at hr
        exact rinv_closeT ⟨hq, hr⟩
      | subscribe i c =>
        have hp : pubOf f = none := by simp [pubOf, hrd]
        simp only [hp, Option.toList_none, List.append_nil] at hr
        exact rinv_closeT ⟨hq, hr⟩
      | unsubscribe i c =>
        have hp : pubOf f = none := by simp [pubOf, hrd]
        simp only [hp, Option.toList_none, List.append_nil] at hr
        exact rinv_closeT ⟨hq, hr⟩
      | publish i c p =>
        have hp : pubOf f = some (i, c, p) := by simp [pubOf, hrd]
        simp only [hp, Option.toList_some] at hr
        obtain ⟨d1, d2, d3⟩ := deliver_q s (i, c, p) hq
        exact ⟨d1, by rw [d2, d3]; exact hr⟩

theorem noteFrame_r {s : State} (f : Frame) (h : RInv s) :
    QInv (noteFrame s f) ∧
    (noteFrame s f).received ++ (pubOf f).toList = (noteFrame s f).allProcessed.filterMap pubOf := by
  refine ⟨qinv_of_eq h.1 rfl rfl rfl rfl, ?_⟩
  show s.received ++ _ = (s.allProcessed ++ [f]).filterMap pubOf
  rw [List.filterMap_append, h.2]
  cases hp : pubOf f <;> simp [hp]

theorem loop_r (cfg : Cfg) (s : State) (buf : Bytes) (h : RInv s) : RInv (loop cfg s buf).1 := by
  induction hn : buf.length using Nat.strongRecOn generalizing s buf with
  | _ n ih =>
    rw [loop]
    split
    · exact h
    · exact rinv_closeT h
    · rename_i ml op hh
      have hk := header_ok hh
      obtain ⟨n1, n2⟩ := noteFrame_r (popFrame buf ml op).1 h
      have hf := onFrame_r cfg _ (popFrame buf ml op).1 n1 n2
      simp only
      split
      · exact hf
      · exact ih _ (by rw [← hn]; simp only [popFrame, List.length_drop]; omega) _ _ hf rfl

theorem rinv_step (cfg : Cfg) (s : State) (e : Ev) (h : RInv s) : RInv (step cfg s e).1 := by
  have hk : RInv (kick cfg s).1 := by
    unfold kick; split
    · exact rinv_of_eq h rfl rfl rfl rfl rfl
    · exact h
  unfold step
  generalize (kick cfg s).1 = s1 at hk ⊢
  generalize (kick cfg s).2 = pre
  unfold stepK
  cases e with
  | idle => exact hk
  | start =>
    simp only
    split
    · exact rinv_of_eq hk rfl rfl rfl rfl rfl
    · exact hk
  | sub ch =>
    simp only
    split
    · exact hk
    · split
      · exact rinv_write _ (rinv_of_eq hk rfl rfl rfl rfl rfl)
      · exact rinv_of_eq hk rfl rfl rfl rfl rfl
  | unsub ch =>
    simp only
    split
    · split
      · exact rinv_write _ (rinv_of_eq hk rfl rfl rfl rfl rfl)
      · exact rinv_of_eq hk rfl rfl rfl rfl rfl
    · exact hk
  | pub ch p =>
    simp only
    split
    · exact rinv_write _ hk
    · exact hk
  | read =>
    simp only
    split
    · rename_i m q hq
      refine ⟨⟨?_, ?_⟩, ?_⟩
      · simp only; rw [hk.1.fifo, hq]; simp
      · intro hr
        simp only at hr ⊢
        have := hk.1.idle hr
        rw [hq] at this; cases this
      · exact hk.2
    · rename_i hq
      refine ⟨⟨?_, ?_⟩, hk.2⟩
      · simp only; exact hk.1.fifo
      · intro _; exact hq
  | close =>
    simp only
    split
    · exact hk
    · split
      · split
        · exact rinv_of_eq hk rfl rfl rfl rfl rfl
        · have : RInv (closeT { s1 with closing := true, closeCalled := true }).1 :=
            rinv_closeT (rinv_of_eq hk rfl rfl rfl rfl rfl)
          exact rinv_of_eq this rfl rfl rfl rfl rfl
      · exact rinv_of_eq hk rfl rfl rfl rfl rfl
  | accept =>
    simp only
    split
    · exact rinv_of_eq hk rfl rfl rfl rfl rfl
    · exact hk
  | refuse =>
    simp only
    split
    · exact rinv_of_eq hk rfl rfl rfl rfl rfl
    · exact hk
  | advance ms =>
    simp only
    split
    · split
      · exact rinv_of_eq hk rfl rfl rfl rfl rfl
      · exact rinv_of_eq hk rfl rfl rfl rfl rfl
    · exact rinv_of_eq hk rfl rfl rfl rfl rfl
  | data b =>
    simp only
    split
    · exact hk
    · rename_i c hc
      split
      · exact hk
      · have hl := loop_r cfg { s1 with conn := some { c with inbound := c.inbound ++ b } } (c.buf ++ b)
          (rinv_of_eq hk rfl rfl rfl rfl rfl)
        generalize (loop cfg { s1 with conn := some { c with inbound := c.inbound ++ b } } (c.buf ++ b)) = r at hl ⊢
        simp only
        cases r.1.conn with
        | none => exact hl
        | some c' => exact rinv_of_eq hl rfl rfl rfl rfl rfl
  | lost =>
    simp only
    split
    · exact hk
    · split
      · exact hk
      · split
        · exact rinv_of_eq hk rfl rfl rfl rfl rfl
        · split
          · exact rinv_of_eq hk rfl rfl rfl rfl rfl
          · exact rinv_of_eq hk rfl rfl rfl rfl rfl

/-- what frame handling can NOT change: the task, the closing flags, time, the wanted set, the counters,
    and the identity / liveness of the current connection -/
structure Same (s s' : State) : Prop where
  task : s'.task = s.task
  closing : s'.closing = s.closing
  closeWait : s'.closeWait = s.closeWait
  closeCalled : s'.closeCalled = s.closeCalled
  now : s'.now = s.now
  subs : s'.subs = s.subs
  nconn : s'.nconn = s.nconn
  attempts : s'.attempts = s.attempts
  conn : (s'.conn.map fun c => (c.k, c.gone)) = (s.conn.map fun c => (c.k, c.gone))

theorem Same.refl (s : State) : Same s s := ⟨rfl, rfl, rfl, rfl, rfl, rfl, rfl, rfl, rfl⟩
theorem Same.trans {a b c : State} (h1 : Same a b) (h2 : Same b c) : Same a c :=
  ⟨by rw [h2.task, h1.task], by rw [h2.closing, h1.closing], by rw [h2.closeWait, h1.closeWait],
   by rw [h2.closeCalled, h1.closeCalled], by rw [h2.now, h1.now], by rw [h2.subs, h1.subs],
   by rw [h2.nconn, h1.nconn], by rw [h2.attempts, h1.attempts], by rw [h2.conn, h1.conn]⟩

theorem same_write (s : State) (b : Bytes) : Same s (write s b).1 := by
  unfold write
  split
  · exact Same.refl s
  · rename_i c hc
    split
    · exact Same.refl s
    · exact ⟨rfl, rfl, rfl, rfl, rfl, rfl, rfl, rfl, by simp [hc]⟩

theorem same_closeT (s : State) : Same s (closeT s).1 := by
  unfold closeT
  split
  · exact Same.refl s
  · rename_i c hc
    split
    · exact Same.refl s
    · exact ⟨rfl, rfl, rfl, rfl, rfl, rfl, rfl, rfl, by simp [hc]⟩

theorem same_writeAll (s : State) (bs : List Bytes) : Same s (writeAll s bs).1 := by
  unfold writeAll
  suffices ∀ (acc : State × List Out), Same acc.1
      (bs.foldl (fun acc b => let r := write acc.1 b; (r.1, acc.2 ++ r.2)) acc).1 from this (s, [])
  induction bs with
  | nil => intro acc; exact Same.refl _
  | cons b bs ih =>
    intro acc
    simp only [List.foldl_cons]
    exact (same_write acc.1 b).trans (ih ((write acc.1 b).1, acc.2 ++ (write acc.1 b).2))

theorem same_deliver (s : State) (m : Message) : Same s (deliver s m).1 := by
  unfold deliver
  simp only
  split <;> exact ⟨rfl, rfl, rfl, rfl, rfl, rfl, rfl, rfl, rfl⟩

theorem same_noteFrame (s : State) (f : Frame) : Same s (noteFrame s f) := by
  refine ⟨rfl, rfl, rfl, rfl, rfl, rfl, rfl, rfl, ?_⟩
  unfold noteFrame
  cases s.conn <;> simp

theorem same_onFrame (cfg : Cfg) (s : State) (f : Frame) : Same s (onFrame cfg s f).1 := by
  unfold onFrame
  cases read f with
  | none => exact same_closeT s
  | some r =>
    cases r with
    | error c => exact Same.refl s
    | ok m =>
      cases m with
      | error t => exact Same.refl s
      | info n rand =>
        simp only
        cases hc : s.conn with
        | none => exact Same.refl s
        | some c =>
          simp only
          refine Same.trans ?_ (same_writeAll _ _)
          have h1 := same_write s (authFrame cfg rand)
          generalize (write s (authFrame cfg rand)).1 = s1 at h1 ⊢
          cases hc1 : s1.conn with
          | none => simp only; exact h1
          | some c' =>
            simp only
            refine h1.trans ⟨rfl, rfl, rfl, rfl, rfl, rfl, rfl, rfl, by simp [hc1]⟩
      | auth i d => exact same_closeT s
      | subscribe i c => exact same_closeT s
      | unsubscribe i c => exact same_closeT s
      | publish i c p => exact same_deliver s _

theorem same_loop (cfg : Cfg) (s : State) (buf : Bytes) : Same s (loop cfg s buf).1 := by
  induction hn : buf.length using Nat.strongRecOn generalizing s buf with
  | _ n ih =>
    rw [loop]
    split
    · exact Same.refl s
    · exact same_closeT s
    · rename_i ml op hh
      have hk := header_ok hh
      have h1 := (same_noteFrame s (popFrame buf ml op).1).trans (same_onFrame cfg _ (popFrame buf ml op).1)
      simp only
      split
      · exact h1
      · exact h1.trans (ih _ (by rw [← hn]; simp only [popFrame, List.length_drop]; omega) _ _ rfl)

/-! ### the task / closing bookkeeping (C13) -/

structure TInv (s : State) : Prop where
  live : (∃ c, s.conn = some c ∧ c.gone = false) ↔ s.task = .waiting
  closed : s.closeCalled = true → s.closing = true ∧ (s.task = .done ∨ s.task = .waiting)
  opened : s.closeCalled = false → s.closing = false ∧ s.closeWait = false ∧ s.task ≠ .done
  wait : s.closeWait = true → s.task = .waiting

theorem tinv_init : TInv {} := by
  refine ⟨⟨?_, ?_⟩, ?_, ?_, ?_⟩
  · rintro ⟨c, hc, _⟩; cases hc
  · intro h; cases h
  · intro h; cases h
  · intro _; exact ⟨rfl, rfl, by intro h; cases h⟩
  · intro h; cases h

theorem tinv_of_same {s s' : State} (hs : Same s s') (h : TInv s) : TInv s' := by
  have hl : (∃ c, s'.conn = some c ∧ c.gone = false) ↔ (∃ c, s.conn = some c ∧ c.gone = false) := by
    have := hs.conn
    cases h1 : s.conn with
    | none =>
      rw [h1] at this
      cases h2 : s'.conn with
      | none => simp
      | some c' => rw [h2] at this; simp at this
    | some c =>
      rw [h1] at this
      cases h2 : s'.conn with
      | none => rw [h2] at this; simp at this
      | some c' =>
        rw [h2] at this
        simp only [Option.map_some, Option.some.injEq, Prod.mk.injEq] at this
        simp [this.2]
  exact ⟨by rw [hl, hs.task]; exact h.live, by rw [hs.closeCalled, hs.closing, hs.task]; exact h.closed,
    by rw [hs.closeCalled, hs.closing, hs.closeWait, hs.task]; exact h.opened,
    by rw [hs.closeWait, hs.task]; exact h.wait⟩

/-- the part of the state the task invariant reads -/
structure TSame (s s' : State) : Prop where
  task : s'.task = s.task
  closing : s'.closing = s.closing
  closeWait : s'.closeWait = s.closeWait
  closeCalled : s'.closeCalled = s.closeCalled
  conn : (s'.conn.map fun c => (c.k, c.gone)) = (s.conn.map fun c => (c.k, c.gone))

theorem Same.toT {s s' : State} (h : Same s s') : TSame s s' := ⟨h.task, h.closing, h.closeWait, h.closeCalled, h.conn⟩

theorem live_congr {s s' : State} (hc : (s'.conn.map fun c => (c.k, c.gone)) = (s.conn.map fun c => (c.k, c.gone))) :
    (∃ c, s'.conn = some c ∧ c.gone = false) ↔ (∃ c, s.conn = some c ∧ c.gone = false) := by
  cases h1 : s.conn with
  | none =>
    rw [h1] at hc
    cases h2 : s'.conn with
    | none => simp
    | some c' => rw [h2] at hc; simp at hc
  | some c =>
    rw [h1] at hc
    cases h2 : s'.conn with
    | none => rw [h2] at hc; simp at hc
    | some c' =>
      rw [h2] at hc
      simp only [Option.map_some, Option.some.injEq, Prod.mk.injEq] at hc
      simp [hc.2]

theorem tinv_of_tsame {s s' : State} (h : TInv s) (hs : TSame s s') : TInv s' :=
  ⟨by rw [live_congr hs.conn, hs.task]; exact h.live, by rw [hs.closeCalled, hs.closing, hs.task]; exact h.closed,
   by rw [hs.closeCalled, hs.closing, hs.closeWait, hs.task]; exact h.opened,
   by rw [hs.closeWait, hs.task]; exact h.wait⟩

theorem tinv_kick {cfg : Cfg} {s : State} (h : TInv s) : TInv (kick cfg s).1 := by
  unfold kick
  split
  · rename_i ht0
    have ht := ht0.2
    have hnl : ¬ ∃ c, s.conn = some c ∧ c.gone = false := fun hl => by
      have := h.live.mp hl; rw [ht] at this; cases this
    refine ⟨⟨fun hl => absurd hl hnl, fun h' => by cases h'⟩, ?_, ?_, ?_⟩
    · intro hc; have := (h.closed hc).2; rw [ht] at this; rcases this with h' | h' <;> cases h'
    · intro ho; exact ⟨(h.opened ho).1, (h.opened ho).2.1, by intro h'; cases h'⟩
    · intro hw; have := h.wait hw; rw [ht] at this; cases this
  · exact h

theorem kick_started (cfg : Cfg) (s : State) (ha : cfg.autoStart = true) : (kick cfg s).1.task ≠ .notStarted := by
  unfold kick; split
  · intro h; cases h
  · rename_i h; intro h'; exact h ⟨ha, h'⟩

theorem tinv_stepK (cfg : Cfg) (s : State) (pre : List Out) (e : Ev) (h : TInv s) :
    TInv (stepK cfg s pre e).1 := by
  unfold stepK
  cases e with
  | idle => exact h
  | start =>
    simp only
    split
    · rename_i hst
      have ht := hst.1
      have hnl : ¬ ∃ c, s.conn = some c ∧ c.gone = false := fun hl => by
        have := h.live.mp hl; rw [ht] at this; cases this
      refine ⟨⟨fun hl => absurd hl hnl, fun h' => by cases h'⟩, ?_, ?_, ?_⟩
      · intro hc; have := (h.closed hc).2; rw [ht] at this; rcases this with h' | h' <;> cases h'
      · intro ho; exact ⟨(h.opened ho).1, (h.opened ho).2.1, by intro h'; cases h'⟩
      · intro hw; have := h.wait hw; rw [ht] at this; cases this
    · exact h
  | sub ch =>
    simp only
    split
    · exact h
    · have h1 : TInv { s with subs := s.subs ++ [ch] } := tinv_of_tsame h ⟨rfl, rfl, rfl, rfl, rfl⟩
      split
      · exact tinv_of_tsame h1 (same_write _ _).toT
      · exact h1
  | unsub ch =>
    simp only
    split
    · have h1 : TInv { s with subs := s.subs.erase ch } := tinv_of_tsame h ⟨rfl, rfl, rfl, rfl, rfl⟩
      split
      · exact tinv_of_tsame h1 (same_write _ _).toT
      · exact h1
    · exact h
  | pub ch p =>
    simp only
    split
    · exact tinv_of_tsame h (same_write s _).toT
    · exact h
  | read =>
    simp only
    split
    · exact tinv_of_tsame h ⟨rfl, rfl, rfl, rfl, rfl⟩
    · exact tinv_of_tsame h ⟨rfl, rfl, rfl, rfl, rfl⟩
  | close =>
    simp only
    split
    · exact h
    · rename_i hcc
      have hcc' : s.closeCalled = false := by simpa using hcc
      obtain ⟨o1, o2, o3⟩ := h.opened hcc'
      split
      · rename_i c hc
        have hc' : s.conn = some c := hc
        split
        · rename_i hg
          have hnl : ¬ ∃ c', s.conn = some c' ∧ c'.gone = false := by
            rw [hc']; rintro ⟨c', h1, h2⟩; cases h1; rw [hg] at h2; cases h2
          refine ⟨⟨fun hl => absurd hl hnl, fun h' => by cases h'⟩, fun _ => ⟨rfl, Or.inl rfl⟩,
            (fun h' => by cases h'), fun hw => ?_⟩
          have hw' : s.closeWait = true := hw
          rw [o2] at hw'; cases hw'
        · rename_i hg
          have hg' : c.gone = false := by simpa using hg
          have hlive : s.task = .waiting := h.live.mp ⟨c, hc', hg'⟩
          have hs := same_closeT { s with closing := true, closeCalled := true }
          generalize (closeT { s with closing := true, closeCalled := true }).1 = s2 at hs ⊢
          refine ⟨?_, ?_, ?_, ?_⟩
          · show (∃ c', s2.conn = some c' ∧ c'.gone = false) ↔ s2.task = .waiting
            rw [live_congr hs.conn, hs.task]; exact h.live
          · intro _; exact ⟨hs.closing, Or.inr (by show s2.task = _; rw [hs.task]; exact hlive)⟩
          · intro h'
            have h'' : s2.closeCalled = false := h'
            have : s2.closeCalled = true := hs.closeCalled
            rw [this] at h''; cases h''
          · intro _; show s2.task = _; rw [hs.task]; exact hlive
      · rename_i hc
        have hc' : s.conn = none := hc
        have hnl : ¬ ∃ c, s.conn = some c ∧ c.gone = false := by rw [hc']; simp
        refine ⟨⟨fun hl => absurd hl hnl, fun h' => by cases h'⟩, fun _ => ⟨rfl, Or.inl rfl⟩,
          (fun h' => by cases h'), fun hw => ?_⟩
        have hw' : s.closeWait = true := hw
        rw [o2] at hw'; cases hw'
  | accept =>
    simp only
    split
    · rename_i ht
      refine ⟨⟨fun _ => rfl, fun _ => ⟨_, rfl, rfl⟩⟩, ?_, ?_, ?_⟩
      · intro hc; exact ⟨(h.closed hc).1, Or.inr rfl⟩
      · intro ho; exact ⟨(h.opened ho).1, (h.opened ho).2.1, by intro h'; cases h'⟩
      · intro _; rfl
    · exact h
  | refuse =>
    simp only
    split
    · rename_i ht
      have hnl : ¬ ∃ c, s.conn = some c ∧ c.gone = false := fun hl => by
        have := h.live.mp hl; rw [ht] at this; cases this
      refine ⟨⟨fun hl => absurd hl hnl, fun h' => by cases h'⟩, ?_, ?_, ?_⟩
      · intro hc; have := (h.closed hc).2; rw [ht] at this; rcases this with h' | h' <;> cases h'
      · intro ho; exact ⟨(h.opened ho).1, (h.opened ho).2.1, by intro h'; cases h'⟩
      · intro hw; have := h.wait hw; rw [ht] at this; cases this
    · exact h
  | advance ms =>
    simp only
    have h1 : TInv { s with now := s.now + ms } := tinv_of_tsame h ⟨rfl, rfl, rfl, rfl, rfl⟩
    split
    · rename_i t ht
      have ht' : s.task = .sleeping t := ht
      split
      · have hnl : ¬ ∃ c, s.conn = some c ∧ c.gone = false := fun hl => by
          have := h.live.mp hl; rw [ht'] at this; cases this
        refine ⟨⟨fun hl => absurd hl hnl, fun h' => by cases h'⟩, ?_, ?_, ?_⟩
        · intro hc; have := (h.closed hc).2; rw [ht'] at this; rcases this with h' | h' <;> cases h'
        · intro ho; exact ⟨(h.opened ho).1, (h.opened ho).2.1, by intro h'; cases h'⟩
        · intro hw; have := h.wait hw; rw [ht'] at this; cases this
      · exact h1
    · exact h1
  | data b =>
    simp only
    split
    · exact h
    · rename_i c hc
      split
      · exact h
      · have h1 : TInv { s with conn := some { c with inbound := c.inbound ++ b } } :=
          tinv_of_tsame h ⟨rfl, rfl, rfl, rfl, by simp [hc]⟩
        have hl := tinv_of_tsame h1 (same_loop cfg _ (c.buf ++ b)).toT
        generalize (loop cfg { s with conn := some { c with inbound := c.inbound ++ b } } (c.buf ++ b)) = r at hl ⊢
        simp only
        cases hrc : r.1.conn with
        | none => simp only; exact hl
        | some c' => simp only; exact tinv_of_tsame hl ⟨rfl, rfl, rfl, rfl, by simp [hrc]⟩
  | lost =>
    simp only
    split
    · exact h
    · rename_i c hc
      split
      · exact h
      · rename_i hg
        have hg' : c.gone = false := by simpa using hg
        have hlive : s.task = .waiting := h.live.mp ⟨c, hc, hg'⟩
        split
        · rename_i hcl
          have hcc : s.closeCalled = true := by
            cases hcc : s.closeCalled with
            | true => rfl
            | false => have := (h.opened hcc).1; rw [hcl] at this; cases this
          refine ⟨⟨?_, fun h' => by cases h'⟩, fun _ => ⟨hcl, Or.inl rfl⟩, ?_, ?_⟩
          · rintro ⟨c', h1, h2⟩; simp only [Option.some.injEq] at h1; rw [← h1] at h2; cases h2
          · intro h'; simp only at h'; rw [hcc] at h'; cases h'
          · intro h'; cases h'
        · rename_i hcl
          have hcl' : s.closing = false := by simpa using hcl
          have hcc : s.closeCalled = false := by
            cases hcc : s.closeCalled with
            | false => rfl
            | true => have := (h.closed hcc).1; rw [hcl'] at this; cases this
          split
          · refine ⟨⟨?_, fun h' => by cases h'⟩, ?_, ?_, ?_⟩
            · rintro ⟨c', h1, _⟩; cases h1
            · intro h'; simp only at h'; rw [hcc] at h'; cases h'
            · intro _; exact ⟨hcl', (h.opened hcc).2.1, by intro h'; cases h'⟩
            · intro h'; simp only at h'; rw [(h.opened hcc).2.1] at h'; cases h'
          · refine ⟨⟨?_, fun h' => by cases h'⟩, ?_, ?_, ?_⟩
            · rintro ⟨c', h1, _⟩; cases h1
            · intro h'; simp only at h'; rw [hcc] at h'; cases h'
            · intro _; exact ⟨hcl', (h.opened hcc).2.1, by intro h'; cases h'⟩
            · intro h'; simp only at h'; rw [(h.opened hcc).2.1] at h'; cases h'

theorem tinv_step (cfg : Cfg) (s : State) (e : Ev) (h : TInv s) : TInv (step cfg s e).1 :=
  tinv_stepK cfg _ _ e (tinv_kick h)

/-! ### what is written on a connection (C11) -/

structure ConnOK (cfg : Cfg) (c : Conn) : Prop where
  quiet : c.ready = false → c.sent = [] ∧ c.handshake = none
  hs : ∀ rand wanted, c.handshake = some (rand, wanted) →
    (∃ later, c.sent = authFrame cfg rand :: wanted.map (subFrame cfg) ++ later) ∧
    (∃ f ∈ c.processed, ∃ n, read f = some (.ok (.info n rand)))
  rdy : c.ready = true → c.handshake.isSome = true

/-- the current connection (if any) is alive and consistent -/
def CInv (cfg : Cfg) (s : State) : Prop := ∀ c, s.conn = some c → ConnOK cfg c
def Alive (s : State) : Prop := ∀ c, s.conn = some c → c.gone = false

theorem connOK_fresh (cfg : Cfg) (k : Nat) : ConnOK cfg { k := k } :=
  ⟨fun _ => ⟨rfl, rfl⟩, (fun _ _ h => by cases h), (fun h => by cases h)⟩

/-- an application write on a ready connection -/
theorem connOK_append {cfg : Cfg} {c : Conn} (b : Bytes) (hr : c.ready = true) (h : ConnOK cfg c) :
    ConnOK cfg { c with sent := c.sent ++ [b] } := by
  refine ⟨(fun h' => by rw [hr] at h'; cases h'), fun rand wanted hh => ?_, h.rdy⟩
  obtain ⟨⟨later, hl⟩, hf⟩ := h.hs rand wanted hh
  exact ⟨⟨later ++ [b], by simp only [hl]; simp⟩, hf⟩

theorem write_conn {s : State} {c : Conn} (b : Bytes) (hc : s.conn = some c) (hg : c.gone = false) :
    (write s b).1.conn = some { c with sent := c.sent ++ [b] } := by
  unfold write; rw [hc]; simp [hg]

theorem writeAll_conn {s : State} {c : Conn} (bs : List Bytes) (hc : s.conn = some c) (hg : c.gone = false) :
    (writeAll s bs).1.conn = some { c with sent := c.sent ++ bs } := by
  unfold writeAll
  suffices ∀ (acc : State × List Out) (c : Conn), acc.1.conn = some c → c.gone = false →
      (bs.foldl (fun acc b => let r := write acc.1 b; (r.1, acc.2 ++ r.2)) acc).1.conn =
        some { c with sent := c.sent ++ bs } from this (s, []) c hc hg
  induction bs with
  | nil => intro acc c hc _; simpa using hc
  | cons b bs ih =>
    intro acc c hc hg
    simp only [List.foldl_cons]
    rw [ih ((write acc.1 b).1, acc.2 ++ (write acc.1 b).2) _ (write_conn b hc hg) hg]
    simp

theorem cinv_write_ready {cfg : Cfg} {s : State} (b : Bytes) (hu : usable s = true) (ha : Alive s)
    (h : CInv cfg s) : CInv cfg (write s b).1 := by
  intro c' hc'
  cases hc : s.conn with
  | none => unfold write at hc'; rw [hc] at hc'; rw [hc] at hc'; cases hc'
  | some c =>
    have hr : c.ready = true := by unfold usable at hu; rw [hc] at hu; exact hu
    rw [write_conn b hc (ha c hc)] at hc'
    cases hc'
    exact connOK_append b hr (h c hc)

theorem alive_of_same {s s' : State} (hs : Same s s') (h : Alive s) : Alive s' := by
  intro c' hc'
  have := hs.conn
  rw [hc'] at this
  cases hc : s.conn with
  | none => rw [hc] at this; simp at this
  | some c =>
    rw [hc] at this
    simp only [Option.map_some, Option.some.injEq, Prod.mk.injEq] at this
    rw [this.2]; exact h c hc

theorem cinv_closeT {cfg : Cfg} {s : State} (h : CInv cfg s) : CInv cfg (closeT s).1 := by
  unfold closeT
  split
  · exact h
  · rename_i c hc
    split
    · exact h
    · intro c' hc'
      simp only [Option.some.injEq] at hc'
      rw [← hc']
      have k := h c hc
      exact ⟨k.quiet, k.hs, k.rdy⟩

theorem cinv_deliver {cfg : Cfg} {s : State} (m : Message) (h : CInv cfg s) : CInv cfg (deliver s m).1 := by
  unfold deliver
  simp only
  split <;> exact h

theorem cinv_noteFrame {cfg : Cfg} {s : State} (f : Frame) (h : CInv cfg s) : CInv cfg (noteFrame s f) := by
  intro c' hc'
  unfold noteFrame at hc'
  cases hc : s.conn with
  | none => rw [hc] at hc'; simp at hc'
  | some c =>
    rw [hc] at hc'
    simp only [Option.map_some, Option.some.injEq] at hc'
    rw [← hc']
    have k := h c hc
    refine ⟨k.quiet, fun rand wanted hh => ?_, k.rdy⟩
    obtain ⟨hl, ⟨f', hf', hn⟩⟩ := k.hs rand wanted hh
    exact ⟨hl, f', by simp [hf'], hn⟩

/-- dispatching one (already noted) frame keeps the connection consistent; for an OP_INFO this is where
    the handshake is written: AUTH for THAT nonce, then SUBSCRIBE for the wanted set -/
theorem cinv_onFrame (cfg : Cfg) (s : State) (f : Frame) (ha : Alive s) (h : CInv cfg s)
    (hf : ∀ c, s.conn = some c → f ∈ c.processed) : CInv cfg (onFrame cfg s f).1 := by
  unfold onFrame
  cases hrd : read f with
  | none => exact cinv_closeT h
  | some r =>
    cases r with
    | error c => exact h
    | ok m =>
      cases m with
      | error t => exact h
      | auth i d => exact cinv_closeT h
      | subscribe i c => exact cinv_closeT h
      | unsubscribe i c => exact cinv_closeT h
      | publish i c p => exact cinv_deliver _ h
      | info n rand =>
        simp only
        cases hc : s.conn with
        | none => exact h
        | some c =>
          simp only
          have hg := ha c hc
          have k := h c hc
          have h1 := write_conn (authFrame cfg rand) hc hg
          generalize (write s (authFrame cfg rand)).1 = s1 at h1 ⊢
          rw [h1]
          simp only
          intro c' hc'
          rw [writeAll_conn _ rfl (by exact hg)] at hc'
          cases hc'
          by_cases hr : c.ready = true
          · -- a second OP_INFO on the same connection: the earlier handshake stays the prefix
            simp only [hr, if_true]
            obtain ⟨⟨rand0, wanted0⟩, hh0⟩ := Option.isSome_iff_exists.mp (k.rdy hr)
            refine ⟨(fun h' => by cases h'), fun rand' wanted' hh => ?_, fun _ => k.rdy hr⟩
            obtain ⟨⟨later, hl⟩, hfr⟩ := k.hs rand' wanted' hh
            exact ⟨⟨later ++ [authFrame cfg rand] ++ (sortBytes s.subs).map (subFrame cfg),
              by simp only [hl]; simp⟩, hfr⟩
          · have hr' : c.ready = false := by simpa using hr
            obtain ⟨q1, q2⟩ := k.quiet hr'
            simp only [hr', Bool.false_eq_true, if_false]
            refine ⟨(fun h' => by cases h'), fun rand' wanted' hh => ?_, fun _ => rfl⟩
            simp only [Option.some.injEq, Prod.mk.injEq] at hh
            obtain ⟨e1, e2⟩ := hh
            subst e1; subst e2
            exact ⟨⟨[], by simp [q1]⟩, f, hf c hc, n, hrd⟩

theorem noteFrame_mem {s : State} (f : Frame) : ∀ c, (noteFrame s f).conn = some c → f ∈ c.processed := by
  intro c hc
  unfold noteFrame at hc
  cases h : s.conn with
  | none => rw [h] at hc; simp at hc
  | some c0 => rw [h] at hc; simp only [Option.map_some, Option.some.injEq] at hc; rw [← hc]; simp

theorem cinv_loop (cfg : Cfg) (s : State) (buf : Bytes) (ha : Alive s) (h : CInv cfg s) :
    CInv cfg (loop cfg s buf).1 := by
  induction hn : buf.length using Nat.strongRecOn generalizing s buf with
  | _ n ih =>
    rw [loop]
    split
    · exact h
    · exact cinv_closeT h
    · rename_i ml op hh
      have hk := header_ok hh
      have ha1 := alive_of_same (same_noteFrame s (popFrame buf ml op).1) ha
      have h1 := cinv_onFrame cfg _ (popFrame buf ml op).1 ha1 (cinv_noteFrame _ h) (noteFrame_mem _)
      have ha2 := alive_of_same (same_onFrame cfg _ (popFrame buf ml op).1) ha1
      simp only
      split
      · exact h1
      · exact ih _ (by rw [← hn]; simp only [popFrame, List.length_drop]; omega) _ _ ha2 h1 rfl

/-! ### received bytes are accounted for: dispatched frames ++ buffered rest -/

/-- what dispatching can not change on the connection: which frames were processed, which bytes received -/
def PSame (s s' : State) : Prop :=
  (s'.conn.map fun c => (c.processed, c.inbound)) = (s.conn.map fun c => (c.processed, c.inbound))

theorem psame_write (s : State) (b : Bytes) : PSame s (write s b).1 := by
  unfold write PSame
  split
  · rfl
  · rename_i c hc; split
    · rfl
    · simp [hc]

theorem psame_closeT (s : State) : PSame s (closeT s).1 := by
  unfold closeT PSame
  split
  · rfl
  · rename_i c hc; split
    · rfl
    · simp [hc]

theorem psame_writeAll (s : State) (bs : List Bytes) : PSame s (writeAll s bs).1 := by
  unfold writeAll
  suffices ∀ (acc : State × List Out), PSame acc.1
      (bs.foldl (fun acc b => let r := write acc.1 b; (r.1, acc.2 ++ r.2)) acc).1 from this (s, [])
  induction bs with
  | nil => intro acc; rfl
  | cons b bs ih =>
    intro acc
    simp only [List.foldl_cons]
    have h1 := psame_write acc.1 b
    have h2 := ih ((write acc.1 b).1, acc.2 ++ (write acc.1 b).2)
    unfold PSame at *
    rw [h2, h1]

theorem psame_onFrame (cfg : Cfg) (s : State) (f : Frame) : PSame s (onFrame cfg s f).1 := by
  unfold onFrame
  cases read f with
  | none => exact psame_closeT s
  | some r =>
    cases r with
    | error c => rfl
    | ok m =>
      cases m with
      | error t => rfl
      | auth i d => exact psame_closeT s
      | subscribe i c => exact psame_closeT s
      | unsubscribe i c => exact psame_closeT s
      | publish i c p => unfold deliver; simp only; split <;> rfl
      | info n rand =>
        simp only
        cases hc : s.conn with
        | none => unfold PSame; rw [hc]
        | some c =>
          simp only
          have h1 := psame_write s (authFrame cfg rand)
          generalize (write s (authFrame cfg rand)).1 = s1 at h1 ⊢
          have h2 := psame_writeAll
          unfold PSame at *
          rw [h2, ← h1]
          cases hs1 : s1.conn <;> simp [hs1]

/-- the loop consumes exactly the frames it dispatches: `processed` grows by `fs`, and
    `fs` re-encoded followed by the returned rest is the buffer it was given -/
theorem loop_accounts (cfg : Cfg) (s : State) (buf : Bytes) (c : Conn) (hc : s.conn = some c) :
    ∃ fs c', (loop cfg s buf).1.conn = some c' ∧ c'.processed = c.processed ++ fs ∧
      c'.inbound = c.inbound ∧ fs.flatMap enc ++ (loop cfg s buf).2.2.1 = buf := by
  induction hn : buf.length using Nat.strongRecOn generalizing s buf c with
  | _ n ih =>
    rw [loop]
    split
    · exact ⟨[], c, hc, by simp, rfl, by simp⟩
    · have := psame_closeT s
      unfold PSame at this
      rw [hc] at this
      generalize hs2 : (closeT s).1 = s2 at this ⊢
      simp only
      cases h2 : s2.conn with
      | none => rw [h2] at this; simp at this
      | some c2 =>
        rw [h2] at this
        simp only [Option.map_some, Option.some.injEq, Prod.mk.injEq] at this
        exact ⟨[], c2, rfl, by simp [this.1], this.2, by simp⟩
    · rename_i ml op hh
      have hk := header_ok hh
      have hsp := header_ok_spec hh
      -- after noting and dispatching the frame
      have hn1 : (noteFrame s (popFrame buf ml op).1).conn =
          some { c with processed := c.processed ++ [(popFrame buf ml op).1] } := by
        unfold noteFrame; rw [hc]; rfl
      have hp := psame_onFrame cfg (noteFrame s (popFrame buf ml op).1) (popFrame buf ml op).1
      unfold PSame at hp
      rw [hn1] at hp
      cases h3 : (onFrame cfg (noteFrame s (popFrame buf ml op).1) (popFrame buf ml op).1).1.conn with
      | none => rw [h3] at hp; simp at hp
      | some c3 =>
        rw [h3] at hp
        simp only [Option.map_some, Option.some.injEq, Prod.mk.injEq] at hp
        simp only
        split
        · exact ⟨[(popFrame buf ml op).1], c3, h3, hp.1, hp.2, by simpa using hsp.2.1⟩
        · obtain ⟨fs, c', h4, h5, h6, h7⟩ := ih _ (by rw [← hn]; simp only [popFrame, List.length_drop]; omega)
            _ (popFrame buf ml op).2 c3 h3 rfl
          refine ⟨(popFrame buf ml op).1 :: fs, c', h4, by rw [h5, hp.1]; simp, by rw [h6, hp.2], ?_⟩
          simp only [List.flatMap_cons, List.append_assoc]
          rw [h7]; exact hsp.2.1

/-- every byte received on the current connection is either in a dispatched frame or still buffered -/
def IInv (s : State) : Prop := ∀ c, s.conn = some c → c.inbound = c.processed.flatMap enc ++ c.buf

/-- an application write: only `sent` of the current connection can change -/
theorem write_conn_cases (s : State) (b : Bytes) :
    (write s b).1.conn = s.conn ∨
    ∃ c, s.conn = some c ∧ c.gone = false ∧ (write s b).1.conn = some { c with sent := c.sent ++ [b] } := by
  unfold write
  cases hc : s.conn with
  | none => left; simp [hc]
  | some c =>
    by_cases hg : c.gone = true
    · left; simp [hg, hc]
    · right; exact ⟨c, rfl, by simpa using hg, by simp [hg]⟩

theorem cinv_app_write {cfg : Cfg} {s : State} (b : Bytes) (hu : usable s = true) (h : CInv cfg s) :
    CInv cfg (write s b).1 := by
  rcases write_conn_cases s b with h1 | ⟨c, hc, hg, h1⟩
  · intro c' hc'; rw [h1] at hc'; exact h c' hc'
  · intro c' hc'
    rw [h1] at hc'; cases hc'
    have hr : c.ready = true := by unfold usable at hu; rw [hc] at hu; exact hu
    exact connOK_append b hr (h c hc)

theorem iinv_app_write {s : State} (b : Bytes) (h : IInv s) : IInv (write s b).1 := by
  rcases write_conn_cases s b with h1 | ⟨c, hc, hg, h1⟩
  · intro c' hc'; rw [h1] at hc'; exact h c' hc'
  · intro c' hc'; rw [h1] at hc'; cases hc'; exact h c hc

theorem closeT_conn_cases (s : State) :
    (closeT s).1.conn = s.conn ∨ ∃ c, s.conn = some c ∧ (closeT s).1.conn = some { c with closing := true } := by
  unfold closeT
  cases hc : s.conn with
  | none => left; simp [hc]
  | some c =>
    by_cases hcl : c.closing = true
    · left; simp [hcl, hc]
    · right; exact ⟨c, rfl, by simp [hcl]⟩

theorem iinv_closeT {s : State} (h : IInv s) : IInv (closeT s).1 := by
  rcases closeT_conn_cases s with h1 | ⟨c, hc, h1⟩
  · intro c' hc'; rw [h1] at hc'; exact h c' hc'
  · intro c' hc'; rw [h1] at hc'; cases hc'; exact h c hc

structure FullInv (cfg : Cfg) (s : State) : Prop where
  conn : CInv cfg s
  bytes : IInv s

theorem full_init (cfg : Cfg) : FullInv cfg {} :=
  ⟨(fun c h => by cases h), (fun c h => by cases h)⟩

theorem full_of_conn_eq {cfg : Cfg} {s s' : State} (h : FullInv cfg s) (hc : s'.conn = s.conn) : FullInv cfg s' :=
  ⟨fun c hc' => h.conn c (by rw [← hc]; exact hc'), fun c hc' => h.bytes c (by rw [← hc]; exact hc')⟩

theorem full_kick {cfg : Cfg} {s : State} (h : FullInv cfg s) : FullInv cfg (kick cfg s).1 := by
  unfold kick; split
  · exact full_of_conn_eq h rfl
  · exact h

theorem full_stepK (cfg : Cfg) (s : State) (pre : List Out) (e : Ev) (h : FullInv cfg s) :
    FullInv cfg (stepK cfg s pre e).1 := by
  unfold stepK
  cases e with
  | idle => exact h
  | start =>
    simp only
    split
    · exact full_of_conn_eq h rfl
    · exact h
  | sub ch =>
    simp only
    split
    · exact h
    · have h1 : FullInv cfg { s with subs := s.subs ++ [ch] } := full_of_conn_eq h rfl
      split
      · rename_i hu; exact ⟨cinv_app_write _ hu h1.conn, iinv_app_write _ h1.bytes⟩
      · exact h1
  | unsub ch =>
    simp only
    split
    · have h1 : FullInv cfg { s with subs := s.subs.erase ch } := full_of_conn_eq h rfl
      split
      · rename_i hu; exact ⟨cinv_app_write _ hu h1.conn, iinv_app_write _ h1.bytes⟩
      · exact h1
    · exact h
  | pub ch p =>
    simp only
    split
    · rename_i hu; exact ⟨cinv_app_write _ hu h.conn, iinv_app_write _ h.bytes⟩
    · exact h
  | read =>
    simp only
    split
    · exact full_of_conn_eq h rfl
    · exact full_of_conn_eq h rfl
  | close =>
    simp only
    split
    · exact h
    · have h1 : FullInv cfg { s with closing := true, closeCalled := true } := full_of_conn_eq h rfl
      split
      · split
        · exact full_of_conn_eq h1 rfl
        · have h2 : FullInv cfg (closeT { s with closing := true, closeCalled := true }).1 :=
            ⟨cinv_closeT h1.conn, iinv_closeT h1.bytes⟩
          exact full_of_conn_eq h2 rfl
      · exact full_of_conn_eq h1 rfl
  | accept =>
    simp only
    split
    · refine ⟨fun c hc => ?_, fun c hc => ?_⟩
      · simp only [Option.some.injEq] at hc; rw [← hc]; exact connOK_fresh cfg _
      · simp only [Option.some.injEq] at hc; rw [← hc]; rfl
    · exact h
  | refuse =>
    simp only
    split
    · exact full_of_conn_eq h rfl
    · exact h
  | advance ms =>
    simp only
    split
    · split
      · exact full_of_conn_eq h rfl
      · exact full_of_conn_eq h rfl
    · exact full_of_conn_eq h rfl
  | lost =>
    simp only
    split
    · exact h
    · rename_i c hc
      split
      · exact h
      · split
        · refine ⟨fun c' hc' => ?_, fun c' hc' => ?_⟩
          · simp only [Option.some.injEq] at hc'; rw [← hc']
            have k := h.conn c hc
            exact ⟨k.quiet, k.hs, k.rdy⟩
          · simp only [Option.some.injEq] at hc'; rw [← hc']; exact h.bytes c hc
        · split
          · exact ⟨(fun c' hc' => by cases hc'), (fun c' hc' => by cases hc')⟩
          · exact ⟨(fun c' hc' => by cases hc'), (fun c' hc' => by cases hc')⟩
  | data b =>
    simp only
    split
    · exact h
    · rename_i c hc
      split
      · exact h
      · rename_i hgc
        have hg : c.gone = false := by
          cases hg : c.gone with
          | false => rfl
          | true => simp [hg] at hgc
        -- the state the loop starts from
        let s1 : State := { s with conn := some { c with inbound := c.inbound ++ b } }
        have hc1 : s1.conn = some { c with inbound := c.inbound ++ b } := rfl
        have ha1 : Alive s1 := fun c' hc' => by rw [hc1] at hc'; cases hc'; exact hg
        have hci1 : CInv cfg s1 := fun c' hc' => by
          rw [hc1] at hc'; cases hc'
          have k := h.conn c hc
          exact ⟨k.quiet, k.hs, k.rdy⟩
        have hl := cinv_loop cfg s1 (c.buf ++ b) ha1 hci1
        obtain ⟨fs, c', h4, h5, h6, h7⟩ := loop_accounts cfg s1 (c.buf ++ b) _ hc1
        show FullInv cfg (match (loop cfg s1 (c.buf ++ b)).1.conn with
          | some c' => { (loop cfg s1 (c.buf ++ b)).1 with conn := some { c' with
              buf := (loop cfg s1 (c.buf ++ b)).2.2.1,
              closing := c'.closing || ((loop cfg s1 (c.buf ++ b)).2.2.2 == .crash) } }
          | none => (loop cfg s1 (c.buf ++ b)).1)
        rw [h4]
        simp only
        refine ⟨fun c2 hc2 => ?_, fun c2 hc2 => ?_⟩
        · simp only [Option.some.injEq] at hc2; rw [← hc2]
          have k := hl c' h4
          exact ⟨k.quiet, k.hs, k.rdy⟩
        · simp only [Option.some.injEq] at hc2; rw [← hc2]
          simp only
          rw [h6, h5]
          simp only [List.flatMap_append, List.append_assoc]
          rw [h7, ← List.append_assoc, ← h.bytes c hc]

theorem full_step (cfg : Cfg) (s : State) (e : Ev) (h : FullInv cfg s) : FullInv cfg (step cfg s e).1 :=
  full_stepK cfg _ _ e (full_kick h)

/-- all invariants, after every event sequence -/
theorem run_inv (cfg : Cfg) (es : List Ev) :
    FullInv cfg (run cfg es).1 ∧ TInv (run cfg es).1 ∧ RInv (run cfg es).1 := by
  unfold run
  suffices ∀ (acc : State × List Out), (FullInv cfg acc.1 ∧ TInv acc.1 ∧ RInv acc.1) →
      (FullInv cfg (es.foldl (fun acc e => let r := step cfg acc.1 e; (r.1, acc.2 ++ r.2)) acc).1 ∧
       TInv (es.foldl (fun acc e => let r := step cfg acc.1 e; (r.1, acc.2 ++ r.2)) acc).1 ∧
       RInv (es.foldl (fun acc e => let r := step cfg acc.1 e; (r.1, acc.2 ++ r.2)) acc).1) from
    this ({}, []) ⟨full_init cfg, tinv_init, ⟨⟨rfl, (fun h => by cases h)⟩, rfl⟩⟩
  induction es with
  | nil => intro acc h; exact h
  | cons e es ih =>
    intro acc h
    simp only [List.foldl_cons]
    exact ih _ ⟨full_step cfg _ e h.1, tinv_step cfg _ e h.2.1, rinv_step cfg _ e h.2.2⟩

/-- the wanted set as a function of the application calls alone: subscribed and not since unsubscribed,
    whatever the connection state was at the time of each call -/
def wantedOf : List Ev → List Bytes
  | [] => []
  | es => es.foldl (fun w e => match e with
      | .sub ch => if ch ∈ w then w else w ++ [ch]
      | .unsub ch => w.erase ch
      | _ => w) []

theorem wantedOf_eq (es : List Ev) : wantedOf es = es.foldl (fun w e => match e with
      | .sub ch => if ch ∈ w then w else w ++ [ch]
      | .unsub ch => w.erase ch
      | _ => w) [] := by
  cases es <;> rfl

theorem subs_write (s : State) (b : Bytes) : (write s b).1.subs = s.subs := (same_write s b).subs

theorem stepK_subs (cfg : Cfg) (s : State) (pre : List Out) (e : Ev) :
    (stepK cfg s pre e).1.subs = (match e with
      | .sub ch => if ch ∈ s.subs then s.subs else s.subs ++ [ch]
      | .unsub ch => s.subs.erase ch
      | _ => s.subs) := by
  unfold stepK
  cases e with
  | idle => rfl
  | start => simp only; split <;> rfl
  | sub ch =>
    simp only
    split
    · rfl
    · split
      · rw [subs_write]
      · rfl
  | unsub ch =>
    simp only
    split
    · split
      · rw [subs_write]
      · rfl
    · rename_i h; exact (List.erase_of_not_mem h).symm
  | pub ch p => simp only; split
                · rw [subs_write]
                · rfl
  | read => simp only; split <;> rfl
  | close =>
    simp only
    split
    · rfl
    · split
      · split
        · rfl
        · exact (same_closeT _).subs
      · rfl
  | accept => simp only; split <;> rfl
  | refuse => simp only; split <;> rfl
  | advance ms => simp only; split
                  · split <;> rfl
                  · rfl
  | lost => simp only; split
            · rfl
            · split
              · rfl
              · split
                · rfl
                · split <;> rfl
  | data b =>
    simp only
    split
    · rfl
    · rename_i c hc
      split
      · rfl
      · have := (same_loop cfg { s with conn := some { c with inbound := c.inbound ++ b } } (c.buf ++ b)).subs
        generalize (loop cfg { s with conn := some { c with inbound := c.inbound ++ b } } (c.buf ++ b)) = r at this ⊢
        simp only
        cases r.1.conn <;> exact this

theorem kick_subs (cfg : Cfg) (s : State) : (kick cfg s).1.subs = s.subs := by unfold kick; split <;> rfl

/-- the session's wanted set is exactly that function of the application calls -/
theorem subs_eq_wantedOf (cfg : Cfg) (es : List Ev) : (run cfg es).1.subs = wantedOf es := by
  rw [wantedOf_eq]
  unfold run
  suffices ∀ (acc : State × List Out) (w : List Bytes), acc.1.subs = w →
      (es.foldl (fun acc e => let r := step cfg acc.1 e; (r.1, acc.2 ++ r.2)) acc).1.subs =
      es.foldl (fun w e => match e with
        | .sub ch => if ch ∈ w then w else w ++ [ch]
        | .unsub ch => w.erase ch
        | _ => w) w from this ({}, []) [] rfl
  induction es with
  | nil => intro acc w h; exact h
  | cons e es ih =>
    intro acc w h
    simp only [List.foldl_cons]
    apply ih
    show (stepK cfg (kick cfg acc.1).1 (kick cfg acc.1).2 e).1.subs = _
    rw [stepK_subs, kick_subs, h]

theorem mem_insertSorted (x y : Bytes) (l : List Bytes) : y ∈ insertSorted x l ↔ y = x ∨ y ∈ l := by
  induction l with
  | nil => simp [insertSorted]
  | cons a l ih =>
    simp only [insertSorted]
    split
    · simp
    · simp only [List.mem_cons, ih]
      constructor
      · rintro (h | h | h)
        · exact Or.inr (Or.inl h)
        · exact Or.inl h
        · exact Or.inr (Or.inr h)
      · rintro (h | h | h)
        · exact Or.inr (Or.inl h)
        · exact Or.inl h
        · exact Or.inr (Or.inr h)

/-- resubscription covers exactly the wanted set … -/
theorem mem_sortBytes (l : List Bytes) (y : Bytes) : y ∈ sortBytes l ↔ y ∈ l := by
  unfold sortBytes
  induction l with
  | nil => simp
  | cons a l ih => simp only [List.foldr_cons, mem_insertSorted, ih, List.mem_cons]

theorem length_insertSorted (x : Bytes) (l : List Bytes) : (insertSorted x l).length = l.length + 1 := by
  induction l with
  | nil => rfl
  | cons a l ih => simp only [insertSorted]; split <;> simp [ih]

/-- … one SUBSCRIBE per channel -/
theorem length_sortBytes (l : List Bytes) : (sortBytes l).length = l.length := by
  unfold sortBytes
  induction l with
  | nil => rfl
  | cons a l ih => simp only [List.foldr_cons, length_insertSorted, ih, List.length_cons]

/-- the wanted set never holds a channel twice -/
theorem subs_nodup (cfg : Cfg) (es : List Ev) : (run cfg es).1.subs.Nodup := by
  rw [subs_eq_wantedOf, wantedOf_eq]
  suffices ∀ w : List Bytes, w.Nodup → (es.foldl (fun w e => match e with
        | .sub ch => if ch ∈ w then w else w ++ [ch]
        | .unsub ch => w.erase ch
        | _ => w) w).Nodup from this [] List.nodup_nil
  induction es with
  | nil => intro w h; exact h
  | cons e es ih =>
    intro w h
    simp only [List.foldl_cons]
    apply ih
    cases e with
    | sub ch =>
      simp only
      split
      · exact h
      · rename_i hm
        exact List.nodup_append.mpr ⟨h, by simp, by
          intro a ha b hb; simp at hb; subst hb; intro hab; subst hab; exact hm ha⟩
    | unsub ch => exact h.erase _
    | _ => exact h

theorem attempts_write (s : State) (b : Bytes) : (write s b).1.attempts = s.attempts := (same_write s b).attempts

theorem noatt_write (s : State) (b : Bytes) : Out.attempt ∉ (write s b).2 := by
  unfold write; split
  · simp
  · split <;> simp

theorem noatt_closeT (s : State) : Out.attempt ∉ (closeT s).2 := by
  unfold closeT; split
  · simp
  · split <;> simp

theorem noatt_writeAll (s : State) (bs : List Bytes) : Out.attempt ∉ (writeAll s bs).2 := by
  unfold writeAll
  suffices ∀ (acc : State × List Out), Out.attempt ∉ acc.2 →
      Out.attempt ∉ (bs.foldl (fun acc b => let r := write acc.1 b; (r.1, acc.2 ++ r.2)) acc).2 from
    this (s, []) (by simp)
  induction bs with
  | nil => intro acc h; exact h
  | cons b bs ih =>
    intro acc h
    simp only [List.foldl_cons]
    apply ih
    simp only [List.mem_append, not_or]
    exact ⟨h, noatt_write acc.1 b⟩

theorem noatt_deliver (s : State) (m : Message) : Out.attempt ∉ (deliver s m).2 := by
  unfold deliver; simp only; split <;> simp

theorem noatt_onFrame (cfg : Cfg) (s : State) (f : Frame) : Out.attempt ∉ (onFrame cfg s f).2.1 := by
  unfold onFrame
  cases read f with
  | none => exact noatt_closeT s
  | some r =>
    cases r with
    | error c => simp
    | ok m =>
      cases m with
      | error t => simp
      | auth i d => exact noatt_closeT s
      | subscribe i c => exact noatt_closeT s
      | unsubscribe i c => exact noatt_closeT s
      | publish i c p => exact noatt_deliver s _
      | info n rand =>
        simp only
        cases s.conn with
        | none => simp
        | some c =>
          simp only [List.mem_append, not_or]
          exact ⟨noatt_write _ _, noatt_writeAll _ _⟩

theorem noatt_loop (cfg : Cfg) (s : State) (buf : Bytes) : Out.attempt ∉ (loop cfg s buf).2.1 := by
  induction hn : buf.length using Nat.strongRecOn generalizing s buf with
  | _ n ih =>
    rw [loop]
    split
    · simp
    · exact noatt_closeT s
    · rename_i ml op hh
      have hk := header_ok hh
      simp only
      split
      · exact noatt_onFrame cfg _ _
      · simp only [List.mem_append, not_or]
        exact ⟨noatt_onFrame cfg _ _, ih _ (by rw [← hn]; simp only [popFrame, List.length_drop]; omega) _ _ rfl⟩

/-- once close() has been called no event makes the session attempt a connection -/
theorem no_attempt_after_close (cfg : Cfg) (s : State) (e : Ev) (h : TInv s) (hc : s.closeCalled = true) :
    (step cfg s e).1.attempts = s.attempts ∧ Out.attempt ∉ (step cfg s e).2 := by
  obtain ⟨hcl, ht⟩ := h.closed hc
  have hk : kick cfg s = (s, []) := by
    unfold kick
    rw [if_neg]
    rintro ⟨_, h''⟩
    rcases ht with h' | h' <;> (rw [h'] at h''; cases h'')
  unfold step
  rw [hk]
  unfold stepK
  cases e with
  | idle => constructor <;> simp
  | start => simp only [hc]; constructor <;> simp
  | sub ch =>
    simp only
    split
    · constructor <;> simp
    · split
      · exact ⟨attempts_write _ _, by simpa using noatt_write _ _⟩
      · constructor <;> simp
  | unsub ch =>
    simp only
    split
    · split
      · exact ⟨attempts_write _ _, by simpa using noatt_write _ _⟩
      · constructor <;> simp
    · constructor <;> simp
  | pub ch p =>
    simp only
    split
    · exact ⟨attempts_write _ _, by simpa using noatt_write _ _⟩
    · constructor <;> simp
  | read => simp only; split <;> (constructor <;> simp)
  | close => simp only [hc, if_true]; constructor <;> simp
  | accept =>
    simp only
    have : s.task ≠ .connecting := by rcases ht with h' | h' <;> (rw [h']; intro h''; cases h'')
    rw [if_neg this]; constructor <;> simp
  | refuse =>
    simp only
    have : s.task ≠ .connecting := by rcases ht with h' | h' <;> (rw [h']; intro h''; cases h'')
    rw [if_neg this]; constructor <;> simp
  | advance ms =>
    simp only
    rcases ht with h' | h' <;> (simp only [h']; constructor <;> simp)
  | lost =>
    simp only [hcl, if_true]
    split
    · constructor <;> simp
    · split
      · constructor <;> simp
      · constructor
        · rfl
        · split <;> simp
  | data b =>
    simp only
    split
    · constructor <;> simp
    · rename_i c hcn
      split
      · constructor <;> simp
      · have h1 := (same_loop cfg { s with conn := some { c with inbound := c.inbound ++ b } } (c.buf ++ b)).attempts
        have h2 := noatt_loop cfg { s with conn := some { c with inbound := c.inbound ++ b } } (c.buf ++ b)
        generalize (loop cfg { s with conn := some { c with inbound := c.inbound ++ b } } (c.buf ++ b)) = r at h1 h2 ⊢
        simp only
        constructor
        · cases r.1.conn <;> exact h1
        · simp only [List.nil_append, List.mem_append, not_or]
          exact ⟨h2, by split <;> simp⟩


theorem kick_of_started {cfg : Cfg} {s : State} (h : s.task ≠ .notStarted) : kick cfg s = (s, []) := by
  unfold kick; rw [if_neg (fun h' => h h'.2)]

/-- close() with no live transport: returns at once, the reconnect task is cancelled -/
theorem close_no_transport (cfg : Cfg) (s : State) (hs : s.task ≠ .notStarted) (hc : s.closeCalled = false)
    (hn : s.conn = none ∨ ∃ c, s.conn = some c ∧ c.gone = true) :
    step cfg s .close = ({ s with closing := true, closeCalled := true, task := .done }, [.closeDone]) := by
  unfold step
  rw [kick_of_started hs]
  unfold stepK
  simp only [hc, Bool.false_eq_true, if_false, List.nil_append]
  rcases hn with hn | ⟨c, hn, hg⟩
  · simp [hn]
  · simp [hn, hg]

/-- close() with a live transport: that transport is closed (whatever state it is in — before OP_INFO,
    ready, already closing) and close() waits for its loss -/
theorem close_with_transport (cfg : Cfg) (s : State) (c : Conn) (hs : s.task ≠ .notStarted)
    (hc : s.closeCalled = false) (hn : s.conn = some c) (hg : c.gone = false) :
    step cfg s .close =
      ({ s with closing := true, closeCalled := true, closeWait := true, conn := some { c with closing := true } },
       if c.closing then [] else [.closeT c.k]) := by
  unfold step
  rw [kick_of_started hs]
  unfold stepK
  simp only [hc, Bool.false_eq_true, if_false, List.nil_append, hn, hg]
  unfold closeT
  simp only [hn]
  by_cases hcl : c.closing = true
  · simp [hcl]
    cases c; simp_all
  · simp [hcl, hg]

/-- … and the report of that loss completes close(): bounded by the transport's own shutdown -/
theorem lost_completes_close (cfg : Cfg) (s : State) (c : Conn) (hs : s.task ≠ .notStarted)
    (hn : s.conn = some c) (hg : c.gone = false) (hcl : s.closing = true) (hw : s.closeWait = true) :
    (step cfg s .lost).2 = [.closeDone] ∧ (step cfg s .lost).1.task = .done := by
  unfold step
  rw [kick_of_started hs]
  unfold stepK
  simp [hn, hg, hcl, hw]

/-- RECONNECTION, phase by phase.  (1) a live connection is lost while not closing: a new attempt is made
    at once (asyncio), or after the retry delay (Twisted) -/
theorem reconnect_after_loss (cfg : Cfg) (s : State) (c : Conn) (hs : s.task ≠ .notStarted)
    (hn : s.conn = some c) (hg : c.gone = false) (hcl : s.closing = false) :
    (step cfg s .lost).1.conn = none ∧ (step cfg s .lost).1.subs = s.subs ∧
    (cfg.lossDelay = 0 → (step cfg s .lost).2 = [.attempt] ∧ (step cfg s .lost).1.task = .connecting) ∧
    (cfg.lossDelay ≠ 0 → (step cfg s .lost).1.task = .sleeping (s.now + cfg.lossDelay) ∧
      ∀ ms, s.now + cfg.lossDelay ≤ s.now + ms →
        (step cfg (step cfg s .lost).1 (.advance ms)).2 = [.attempt] ∧
        (step cfg (step cfg s .lost).1 (.advance ms)).1.task = .connecting) := by
  by_cases hd : cfg.lossDelay = 0
  · have e1 : step cfg s .lost =
        ({ s with conn := none, task := .connecting, attempts := s.attempts + 1 }, [.attempt]) := by
      unfold step; rw [kick_of_started hs]; unfold stepK; simp [hn, hg, hcl, hd]
    rw [e1]
    exact ⟨rfl, rfl, fun _ => ⟨rfl, rfl⟩, fun h => absurd hd h⟩
  · have e1 : step cfg s .lost = ({ s with conn := none, task := .sleeping (s.now + cfg.lossDelay) }, []) := by
      unfold step; rw [kick_of_started hs]; unfold stepK; simp [hn, hg, hcl, hd]
    rw [e1]
    refine ⟨rfl, rfl, fun h => absurd h hd, fun _ => ⟨rfl, fun ms hms => ?_⟩⟩
    unfold step
    rw [kick_of_started (by intro h; cases h)]
    unfold stepK
    simp [hms]

/-- (2) a refused attempt is retried after the retry delay -/
theorem retry_after_refusal (cfg : Cfg) (s : State) (hs : s.task = .connecting) :
    (step cfg s .refuse).1.task = .sleeping (s.now + cfg.retryDelay) ∧
    ∀ ms, s.now + cfg.retryDelay ≤ s.now + ms →
      (step cfg (step cfg s .refuse).1 (.advance ms)).2 = [.attempt] ∧
      (step cfg (step cfg s .refuse).1 (.advance ms)).1.task = .connecting := by
  have hns : s.task ≠ .notStarted := by rw [hs]; intro h; cases h
  have e1 : step cfg s .refuse = ({ s with task := .sleeping (s.now + cfg.retryDelay) }, []) := by
    unfold step; rw [kick_of_started hns]; unfold stepK; simp [hs]
  rw [e1]
  refine ⟨rfl, fun ms hms => ?_⟩
  unfold step
  rw [kick_of_started (by intro h; cases h)]
  unfold stepK
  simp [hms]

/-- (3) an accepted attempt gives a fresh connection on which nothing has been written -/
theorem accept_fresh (cfg : Cfg) (s : State) (hs : s.task = .connecting) :
    (step cfg s .accept).1.conn = some { k := s.nconn + 1 } ∧ (step cfg s .accept).1.task = .waiting ∧
    (step cfg s .accept).2 = [] ∧ (step cfg s .accept).1.subs = s.subs := by
  have hns : s.task ≠ .notStarted := by rw [hs]; intro h; cases h
  unfold step; rw [kick_of_started hns]; unfold stepK; simp [hs]


theorem writeAll_outs {s : State} {c : Conn} (bs : List Bytes) (hc : s.conn = some c) (hg : c.gone = false) :
    (writeAll s bs).2 = bs.map (Out.wrote c.k) := by
  unfold writeAll
  suffices ∀ (acc : State × List Out) (c : Conn), acc.1.conn = some c → c.gone = false →
      (bs.foldl (fun acc b => let r := write acc.1 b; (r.1, acc.2 ++ r.2)) acc).2 =
        acc.2 ++ bs.map (Out.wrote c.k) from by simpa using this (s, []) c hc hg
  induction bs with
  | nil => intro acc c _ _; simp
  | cons b bs ih =>
    intro acc c hc hg
    simp only [List.foldl_cons]
    rw [ih ((write acc.1 b).1, acc.2 ++ (write acc.1 b).2) { c with sent := c.sent ++ [b] } (write_conn b hc hg) hg]
    have : (write acc.1 b).2 = [Out.wrote c.k b] := by unfold write; rw [hc]; simp [hg]
    simp [this]

theorem loop_nil (cfg : Cfg) (s : State) : loop cfg s [] = (s, [], [], .cont) := by
  rw [loop]
  split
  · rfl
  · rename_i e h'; cases h'
  · rename_i ml op h'; cases h'

/-- the loop over the encoding of exactly one well-formed frame dispatches that frame and stops -/
theorem loop_single (cfg : Cfg) (s : State) (f : Frame) (hf : f.WF) :
    loop cfg s (enc f) =
      (match (onFrame cfg (noteFrame s f) f).2.2 with
       | .crash => ((onFrame cfg (noteFrame s f) f).1, (onFrame cfg (noteFrame s f) f).2.1, [], .crash)
       | .cont => ((onFrame cfg (noteFrame s f) f).1, (onFrame cfg (noteFrame s f) f).2.1, [], .cont)) := by
  have hh := header_enc_append f [] hf
  rw [List.append_nil] at hh
  have hp := popFrame_enc_append f []
  rw [List.append_nil] at hp
  rw [loop]
  split
  · rename_i h'; rw [hh] at h'; cases h'
  · rename_i h'; rw [hh] at h'; cases h'
  · rename_i ml op h'
    rw [hh] at h'; injection h' with h1 h2; subst h1; subst h2
    simp only [hp, loop_nil, List.append_nil]
    split <;> (rename_i heq; rw [heq])

/-- dispatching an OP_INFO on a live, not yet ready connection -/
theorem onFrame_info (cfg : Cfg) (s : State) (c : Conn) (f : Frame) (n rand : Bytes)
    (hn : s.conn = some c) (hr : c.ready = false) (hg : c.gone = false)
    (hrd : read f = some (.ok (.info n rand))) :
    (onFrame cfg s f).2.2 = .cont ∧
    (onFrame cfg s f).2.1 =
      Out.wrote c.k (authFrame cfg rand) :: (sortBytes s.subs).map (fun ch => Out.wrote c.k (subFrame cfg ch)) ∧
    (onFrame cfg s f).1.conn =
      some (Conn.mk c.k c.buf true c.closing c.gone c.inbound c.processed
        (c.sent ++ [authFrame cfg rand] ++ (sortBytes s.subs).map (subFrame cfg))
        (some (rand, sortBytes s.subs))) := by
  unfold onFrame
  rw [hrd]
  simp only [hn, hr, Bool.false_eq_true, if_false]
  have hw1 := write_conn (authFrame cfg rand) hn hg
  have ho1 : (write s (authFrame cfg rand)).2 = [Out.wrote c.k (authFrame cfg rand)] := by
    unfold write; rw [hn]; simp [hg]
  generalize (write s (authFrame cfg rand)) = r1 at hw1 ho1 ⊢
  simp only [hw1, ho1]
  refine ⟨trivial, ?_, ?_⟩
  · rw [writeAll_outs (c := Conn.mk c.k c.buf true c.closing c.gone c.inbound c.processed
      (c.sent ++ [authFrame cfg rand]) (some (rand, sortBytes s.subs))) _ rfl hg]
    simp [List.map_map, Function.comp_def]
  · rw [writeAll_conn (c := Conn.mk c.k c.buf true c.closing c.gone c.inbound c.processed
      (c.sent ++ [authFrame cfg rand]) (some (rand, sortBytes s.subs))) _ rfl hg]



/-- the arrival of a complete OP_INFO on a live, not yet ready connection (in one piece here; in any
    chunking the loop runs over the accumulated buffer, C06): the session writes exactly the OP_AUTH for
    THAT nonce, then one OP_SUBSCRIBE per wanted channel, and becomes ready -/
theorem info_handshake (cfg : Cfg) (s : State) (c : Conn) (f : Frame) (n rand : Bytes)
    (hn : s.conn = some c) (hr : c.ready = false) (hg : c.gone = false) (hf : f.WF)
    (hrd : read f = some (.ok (.info n rand))) :
    (loop cfg s (enc f)).2.1 =
      Out.wrote c.k (authFrame cfg rand) :: (sortBytes s.subs).map (fun ch => Out.wrote c.k (subFrame cfg ch)) ∧
    (loop cfg s (enc f)).2.2.2 = .cont ∧
    ∃ c', (loop cfg s (enc f)).1.conn = some c' ∧ c'.ready = true ∧
      c'.handshake = some (rand, sortBytes s.subs) := by
  have hc1 : (noteFrame s f).conn = some { c with processed := c.processed ++ [f] } := by
    unfold noteFrame; rw [hn]; rfl
  obtain ⟨o1, o2, o3⟩ := onFrame_info cfg (noteFrame s f) _ f n rand hc1 hr hg hrd
  rw [loop_single cfg s f hf, o1]
  exact ⟨o2, rfl, _, o3, rfl, rfl⟩

end Hpfeeds.AioClient
