/-
  The exported gauges and counters equal what they are supposed to count, in every reachable state.
-/
import Hpfeeds.Lemmas.BrokerFrame
namespace Hpfeeds.Broker
open Hpfeeds Extracted

def holds (s : State) (p : Conn → Bool) (c : Nat) : Bool :=
  match s.conn c with
  | some x => p x
  | none => false

/-- how many of the connections ever made satisfy `p` now -/
def cnt (s : State) (p : Conn → Bool) : Int := ((s.ids.filter (holds s p)).length : Int)

def pReg (x : Conn) : Bool := x.registered
def pSub (l : Option Bytes) (ch : Bytes) (x : Conn) : Bool := decide (x.ak = l) && decide (ch ∈ x.active)
def pLost (l : Option Bytes) (x : Conn) : Bool := decide (x.lostAs = some l)

/-- the gauge equations, with offsets `dc` / `dl` for the two counters that `connection_lost` moves
    before it touches the record (`Gauge` is the offset-free case) -/
structure GaugeOff (dc : Int) (dl : Option Bytes → Int) (s : State) : Prop where
  conns : s.gConns = cnt s pReg + dc
  subs : ∀ l ch, s.gSubs l ch = cnt s (pSub l ch)
  made : s.cMade = s.ids.length
  lost : ∀ l, (s.cLost l : Int) = cnt s (pLost l) + dl l
  lostAs : ∀ c x, s.conn c = some x → (x.registered = true ↔ x.lostAs = none)

abbrev Gauge (s : State) : Prop := GaugeOff 0 (fun _ => 0) s

theorem filter_length_congr (l : List Nat) (f g : Nat → Bool) (h : ∀ d ∈ l, g d = f d) :
    (l.filter g).length = (l.filter f).length := by
  induction l with
  | nil => rfl
  | cons a l ih =>
    have ha := h a (by simp)
    have := ih (fun d hd => h d (by simp [hd]))
    simp only [List.filter_cons, ha]
    split <;> simp [this]

theorem filter_length_update (l : List Nat) (hnd : l.Nodup) (c : Nat) (hc : c ∈ l) (f g : Nat → Bool)
    (h : ∀ d, d ≠ c → g d = f d) :
    ((l.filter g).length : Int) = (l.filter f).length + (if g c then 1 else 0) - (if f c then 1 else 0) := by
  induction l with
  | nil => cases hc
  | cons a l ih =>
    obtain ⟨ha, hnd'⟩ := List.nodup_cons.mp hnd
    by_cases hac : a = c
    · subst hac
      have hl : (l.filter g).length = (l.filter f).length :=
        filter_length_congr l f g (fun d hd => h d (fun hda => ha (hda ▸ hd)))
      simp only [List.filter_cons]
      cases hg : g a <;> cases hf : f a <;> simp [hl] <;> omega
    · have hc' : c ∈ l := by
        rcases List.mem_cons.mp hc with h1 | h1
        · exact absurd h1.symm hac
        · exact h1
      have := ih hnd' hc'
      have hga := h a hac
      simp only [List.filter_cons, hga]
      cases hf : f a <;> simp [this] <;> omega

theorem cnt_same {s s' : State} (p : Conn → Bool) (hids : s'.ids = s.ids)
    (h : ∀ d ∈ s.ids, holds s' p d = holds s p d) : cnt s' p = cnt s p := by
  unfold cnt
  rw [hids, filter_length_congr s.ids (holds s p) (holds s' p) h]

theorem cnt_update {s s' : State} (p : Conn → Bool) (c : Nat) (x y : Conn)
    (hr : Reg s) (hx : s.conn c = some x) (hy : s'.conn c = some y)
    (ho : ∀ d, d ≠ c → s'.conn d = s.conn d) (hids : s'.ids = s.ids) :
    cnt s' p = cnt s p + (if p y then 1 else 0) - (if p x then 1 else 0) := by
  unfold cnt
  rw [hids]
  have hc : c ∈ s.ids := by rw [hr.ids_iff, hx]; rfl
  have := filter_length_update s.ids hr.ids_nodup c hc (holds s p) (holds s' p)
    (fun d hd => by unfold holds; rw [ho d hd])
  rw [this]
  simp only [holds, hx, hy]

theorem cnt_update_same {s s' : State} (p : Conn → Bool) (c : Nat) (x y : Conn)
    (hr : Reg s) (hx : s.conn c = some x) (hy : s'.conn c = some y)
    (ho : ∀ d, d ≠ c → s'.conn d = s.conn d) (hids : s'.ids = s.ids) (hp : p y = p x) :
    cnt s' p = cnt s p := by
  rw [cnt_update p c x y hr hx hy ho hids, hp, Int.add_sub_cancel]

theorem gauge_init : Gauge init := by
  constructor <;> simp [init, cnt]

/-- a change of one record that keeps the counted fields, with all counters unchanged -/
theorem gauge_local {dc : Int} {dl : Option Bytes → Int} {s : State} (c : Nat) (f : Conn → Conn)
    (hf : ∀ x, (f x).registered = x.registered ∧ (f x).ak = x.ak ∧ (f x).active = x.active ∧
      (f x).lostAs = x.lostAs) (h : GaugeOff dc dl s) : GaugeOff dc dl (s.upd c f) := by
  have hh : ∀ p : Conn → Bool, (∀ x, p (f x) = p x) → cnt (s.upd c f) p = cnt s p := by
    intro p hp
    refine cnt_same p rfl (fun d _ => ?_)
    unfold holds
    simp only [upd_conn]
    by_cases hd : d = c
    · subst hd
      cases hx : s.conn d with
      | none => simp
      | some x => simp [hp x]
    · simp [hd]
  refine ⟨?_, fun l ch => ?_, h.made, fun l => ?_, ?_⟩
  · rw [hh pReg (fun x => by unfold pReg; rw [(hf x).1])]; exact h.conns
  · rw [hh (pSub l ch) (fun x => by unfold pSub; rw [(hf x).2.1, (hf x).2.2.1])]; exact h.subs l ch
  · rw [hh (pLost l) (fun x => by unfold pLost; rw [(hf x).2.2.2])]; exact h.lost l
  · intro d y hy
    simp only [upd_conn] at hy
    by_cases hd : d = c
    · subst hd
      cases hx : s.conn d with
      | none => simp [hx] at hy
      | some x =>
        simp [hx] at hy; subst hy
        rw [(hf x).1, (hf x).2.2.2]; exact h.lostAs d x hx
    · simp only [hd, if_false] at hy; exact h.lostAs d y hy

/-- `Gauge` only reads conn, ids and the counters -/
theorem gauge_congr {dc : Int} {dl : Option Bytes → Int} {s s' : State} (h1 : s'.conn = s.conn)
    (h2 : s'.ids = s.ids) (h3 : s'.gConns = s.gConns) (h4 : s'.gSubs = s.gSubs) (h5 : s'.cMade = s.cMade)
    (h6 : s'.cLost = s.cLost) (h : GaugeOff dc dl s) : GaugeOff dc dl s' := by
  have hh : ∀ p, cnt s' p = cnt s p := fun p => cnt_same p h2 (fun d _ => by unfold holds; rw [h1])
  exact ⟨by rw [h3, hh]; exact h.conns, fun l ch => by rw [h4, hh]; exact h.subs l ch,
    by rw [h5, h2]; exact h.made, fun l => by rw [h6, hh]; exact h.lost l,
    fun c x hx => h.lostAs c x (by rw [← h1]; exact hx)⟩

theorem gauge_subscribe {dc : Int} {dl : Option Bytes → Int} {s : State} (c : Nat) (ch : Bytes) (x : Conn)
    (hx : s.conn c = some x) (hr : Reg s) (h : GaugeOff dc dl s) : GaugeOff dc dl (subscribe s c ch) := by
  by_cases hin : ch ∈ x.active
  · rw [subscribe_noop hx hin]; exact h
  · rw [subscribe_eq hx hin]
    have hy : ({ s with
        conn := fun d => if d = c then some { x with active := x.active ++ [ch] } else s.conn d
        gSubs := bump s.gSubs x.ak ch 1
        labels := if x.ak ∈ s.labels then s.labels else s.labels ++ [x.ak]
        subs := fun k => if k = ch then s.subs k ++ [c] else s.subs k } : State).conn c =
        some { x with active := x.active ++ [ch] } := by simp
    have ho : ∀ d, d ≠ c → ({ s with
        conn := fun d => if d = c then some { x with active := x.active ++ [ch] } else s.conn d
        gSubs := bump s.gSubs x.ak ch 1
        labels := if x.ak ∈ s.labels then s.labels else s.labels ++ [x.ak]
        subs := fun k => if k = ch then s.subs k ++ [c] else s.subs k } : State).conn d = s.conn d := by
      intro d hd; simp [hd]
    have upd := fun p => cnt_update (s := s) p c x _ hr hx hy ho rfl
    have same := fun p hp => cnt_update_same (s := s) p c x _ hr hx hy ho rfl hp
    refine ⟨?_, fun l ch' => ?_, h.made, fun l => ?_, ?_⟩
    · rw [same pReg rfl]; exact h.conns
    · rw [upd (pSub l ch')]
      show bump s.gSubs x.ak ch 1 l ch' = _
      rw [← h.subs l ch']
      unfold bump pSub
      by_cases hl : l = x.ak
      · subst hl
        by_cases hc : ch' = ch
        · subst hc; simp [hin]
        · simp [hc]
      · have : ¬ x.ak = l := fun h' => hl h'.symm
        simp [hl, this]
    · rw [same (pLost l) rfl]; exact h.lost l
    · intro d y hyd
      simp only at hyd
      by_cases hd : d = c
      · simp only [hd, if_true, Option.some.injEq] at hyd; rw [← hyd]; exact h.lostAs c x hx
      · simp only [hd, if_false] at hyd; exact h.lostAs d y hyd

theorem gauge_unsubscribe {dc : Int} {dl : Option Bytes → Int} {s : State} (c : Nat) (ch : Bytes)
    (hr : Reg s) (h : GaugeOff dc dl s) : GaugeOff dc dl (unsubscribe s c ch) := by
  cases hx : s.conn c with
  | none => rw [unsubscribe_none hx]; exact h
  | some x =>
    by_cases hin : ch ∈ x.active
    · rw [unsubscribe_eq hx hin]
      have hnd := hr.act_nodup c x hx
      have hy : ({ s with
          conn := fun d => if d = c then some { x with active := x.active.erase ch } else s.conn d
          gSubs := bump s.gSubs x.ak ch (-1)
          labels := if x.ak ∈ s.labels then s.labels else s.labels ++ [x.ak]
          subs := fun k => if k = ch then (s.subs k).erase c else s.subs k } : State).conn c =
          some { x with active := x.active.erase ch } := by simp
      have ho : ∀ d, d ≠ c → ({ s with
          conn := fun d => if d = c then some { x with active := x.active.erase ch } else s.conn d
          gSubs := bump s.gSubs x.ak ch (-1)
          labels := if x.ak ∈ s.labels then s.labels else s.labels ++ [x.ak]
          subs := fun k => if k = ch then (s.subs k).erase c else s.subs k } : State).conn d = s.conn d := by
        intro d hd; simp [hd]
      have upd := fun p => cnt_update (s := s) p c x _ hr hx hy ho rfl
      have same := fun p hp => cnt_update_same (s := s) p c x _ hr hx hy ho rfl hp
      refine ⟨?_, fun l ch' => ?_, h.made, fun l => ?_, ?_⟩
      · rw [same pReg rfl]; exact h.conns
      · rw [upd (pSub l ch')]
        show bump s.gSubs x.ak ch (-1) l ch' = _
        rw [← h.subs l ch']
        unfold bump pSub
        by_cases hl : l = x.ak
        · subst hl
          by_cases hc : ch' = ch
          · subst hc
            have : ch' ∉ x.active.erase ch' := fun hm => ((List.Nodup.mem_erase_iff hnd).mp hm).1 rfl
            simp [hin, this]; omega
          · have : ch' ∈ x.active.erase ch ↔ ch' ∈ x.active := by
              rw [List.Nodup.mem_erase_iff hnd]; simp [hc]
            simp [hc, this]
        · have : ¬ x.ak = l := fun h' => hl h'.symm
          simp [hl, this]
      · rw [same (pLost l) rfl]; exact h.lost l
      · intro d y hyd
        simp only at hyd
        by_cases hd : d = c
        · simp only [hd, if_true, Option.some.injEq] at hyd; rw [← hyd]; exact h.lostAs c x hx
        · simp only [hd, if_false] at hyd; exact h.lostAs d y hyd
    · rw [unsubscribe_noop hx hin]; exact h

theorem foldl_unsubscribe_gauge {dc : Int} {dl : Option Bytes → Int} {s : State} (c : Nat) (l : List Bytes)
    (hr : Reg s) (h : GaugeOff dc dl s) :
    GaugeOff dc dl (l.foldl (fun s ch => unsubscribe s c ch) s) := by
  induction l generalizing s with
  | nil => exact h
  | cons a l ih => exact ih (reg_unsubscribe c a hr) (gauge_unsubscribe c a hr h)

theorem unsubscribe_ids (s : State) (c : Nat) (ch : Bytes) : (unsubscribe s c ch).ids = s.ids := by
  unfold unsubscribe; split
  · rfl
  · split <;> rfl

theorem foldl_unsubscribe_ids (s : State) (c : Nat) (l : List Bytes) :
    (l.foldl (fun s ch => unsubscribe s c ch) s).ids = s.ids := by
  induction l generalizing s with
  | nil => rfl
  | cons a l ih => simp only [List.foldl_cons]; rw [ih, unsubscribe_ids]

/-- `Connection.connection_lost` -/
theorem gauge_connectionLost {s : State} (c : Nat) (hr : Reg s) (h : Gauge s) : Gauge (connectionLost s c) := by
  cases hx : s.conn c with
  | none =>
    have : connectionLost s c = s := by unfold connectionLost; rw [hx]
    rw [this]; exact h
  | some x =>
    by_cases hreg : x.registered = true
    · have hlostAs : x.lostAs = none := (h.lostAs c x hx).mp hreg
      -- counters first
      have h1 : GaugeOff (-1) (fun l => if l = x.ak then 1 else 0) (countLost s x.ak) := by
        have hh : ∀ p, cnt (countLost s x.ak) p = cnt s p := fun p => cnt_same p rfl (fun _ _ => rfl)
        refine ⟨?_, fun l ch => by rw [hh]; exact h.subs l ch, h.made, fun l => ?_, h.lostAs⟩
        · show s.gConns - 1 = _; rw [hh, h.conns]; omega
        · show ((if l = x.ak then s.cLost l + 1 else s.cLost l : Nat) : Int) = _
          rw [hh, ← Int.add_zero (cnt s (pLost l))]
          have := h.lost l
          simp only [Int.add_zero] at this ⊢
          split <;> simp [this]
      have hr1 : Reg (countLost s x.ak) := reg_congr (s := s) rfl rfl rfl hr
      have h2 := foldl_unsubscribe_gauge c x.active hr1 h1
      have hr2 := foldl_unsubscribe_reg c x.active hr1
      have hc2 := foldl_unsubscribe_conn (s := countLost s x.ak) (c := c) x.active hx
      rw [foldl_erase_self _ (hr.act_nodup c x hx)] at hc2
      have hids2 := foldl_unsubscribe_ids (countLost s x.ak) c x.active
      unfold connectionLost
      rw [hx]
      simp only [hreg, if_true]
      generalize (x.active.foldl (fun s ch => unsubscribe s c ch) (countLost s x.ak)) = s2 at h2 hr2 hc2 hids2 ⊢
      have hy : (s2.upd c fun y => { y with registered := false, lostAs := some x.ak }).conn c =
          some { x with active := [], registered := false, lostAs := some x.ak } := upd_conn_self hc2
      have ho : ∀ d, d ≠ c → (s2.upd c fun y => { y with registered := false, lostAs := some x.ak }).conn d =
          s2.conn d := fun d hd => by simp [hd]
      have upd := fun p => cnt_update (s := s2) p c _ _ hr2 hc2 hy ho rfl
      refine ⟨?_, fun l ch => ?_, h2.made, fun l => ?_, ?_⟩
      · rw [upd pReg]; show s2.gConns = _
        rw [h2.conns]; simp [pReg, hreg]; omega
      · rw [upd (pSub l ch)]; show s2.gSubs l ch = _
        rw [h2.subs l ch]; simp [pSub]
      · rw [upd (pLost l)]; show (s2.cLost l : Int) = _
        rw [h2.lost l]
        simp only [pLost, hlostAs]
        by_cases hl : l = x.ak
        · subst hl; simp
        · have : ¬ x.ak = l := fun h' => hl h'.symm
          simp [hl, this]
      · intro d y hyd
        simp only [upd_conn] at hyd
        by_cases hd : d = c
        · subst hd
          simp only [if_true, hc2, Option.map_some, Option.some.injEq] at hyd
          rw [← hyd]; simp
        · simp only [hd, if_false] at hyd; exact h2.lostAs d y hyd
    · have hreg' : x.registered = false := by simpa using hreg
      rw [connectionLost_noop hx hreg']; exact h

theorem bump2 (g : Option Bytes → Bytes → Int) (a : Option Bytes) (ident ch : Bytes) (l : Option Bytes) (ch' : Bytes) :
    bump (bump g a ch (-1)) (some ident) ch 1 l ch' =
      g l ch' - (if l = a ∧ ch' = ch then 1 else 0) + (if l = some ident ∧ ch' = ch then 1 else 0) := by
  unfold bump
  by_cases h1 : l = some ident ∧ ch' = ch <;> by_cases h2 : l = a ∧ ch' = ch
  · rw [if_pos h1, if_pos h2, if_pos h1, if_pos h2]; omega
  · rw [if_pos h1, if_neg h2, if_pos h1, if_neg h2]; omega
  · rw [if_neg h1, if_pos h2, if_neg h1, if_pos h2]; omega
  · rw [if_neg h1, if_neg h2, if_neg h1, if_neg h2]; omega

theorem foldl_bump (act : List Bytes) (hnd : act.Nodup) (g : Option Bytes → Bytes → Int)
    (a : Option Bytes) (ident : Bytes) (l : Option Bytes) (ch' : Bytes) :
    (act.foldl (fun g ch => bump (bump g a ch (-1)) (some ident) ch 1) g) l ch' =
      g l ch' - (if l = a ∧ ch' ∈ act then 1 else 0) + (if l = some ident ∧ ch' ∈ act then 1 else 0) := by
  induction act generalizing g with
  | nil => simp
  | cons ch act ih =>
    obtain ⟨hch, hnd'⟩ := List.nodup_cons.mp hnd
    simp only [List.foldl_cons]
    rw [ih hnd', bump2]
    by_cases h1 : ch' = ch
    · subst h1
      have : ch' ∉ act := hch
      simp only [this, and_false, if_false, List.mem_cons, true_or, and_true]
      omega
    · simp only [h1, and_false, if_false, List.mem_cons, false_or]
      omega

theorem gauge_setAuth {s : State} (c : Nat) (i d : Bytes) (row : Row) (hr : Reg s) (h : Gauge s) :
    Gauge (setAuth s c i d row) := by
  unfold setAuth
  cases hx : s.conn c with
  | none => exact h
  | some x =>
    simp only
    have hnd := hr.act_nodup c x hx
    let s1 : State := { s with
      gSubs := x.active.foldl (fun g ch => bump (bump g x.ak ch (-1)) (some i) ch 1) s.gSubs
      labels := if some i ∈ s.labels then s.labels else s.labels ++ [some i] }
    have hr1 : Reg s1 := reg_congr (s := s) rfl rfl rfl hr
    have hx1 : s1.conn c = some x := hx
    let f : Conn → Conn := fun x =>
      { x with ak := some i, pubchans := row.pubchans, subchans := row.subchans, authed := x.authed ++ [(i, d, row)] }
    have hy : (s1.upd c f).conn c = some (f x) := upd_conn_self hx1
    have ho : ∀ e, e ≠ c → (s1.upd c f).conn e = s1.conn e := fun e he => by simp [he]
    show Gauge (s1.upd c f)
    have hh : ∀ p, cnt s1 p = cnt s p := fun p => cnt_same p rfl (fun _ _ => rfl)
    have upd := fun p => cnt_update (s := s1) p c _ _ hr1 hx1 hy ho rfl
    have same := fun p hp => cnt_update_same (s := s1) p c _ _ hr1 hx1 hy ho rfl hp
    refine ⟨?_, fun l ch => ?_, h.made, fun l => ?_, ?_⟩
    · rw [same pReg rfl, hh]; exact h.conns
    · rw [upd (pSub l ch), hh]
      show (x.active.foldl (fun g ch => bump (bump g x.ak ch (-1)) (some i) ch 1) s.gSubs) l ch = _
      rw [foldl_bump _ hnd, h.subs l ch]
      simp only [pSub, Bool.and_eq_true, decide_eq_true_eq, f]
      have e1 : (l = x.ak ∧ ch ∈ x.active) ↔ (x.ak = l ∧ ch ∈ x.active) := by rw [eq_comm]
      have e2 : (l = some i ∧ ch ∈ x.active) ↔ (some i = l ∧ ch ∈ x.active) := by rw [eq_comm]
      simp only [e1, e2]
      omega
    · rw [same (pLost l) rfl, hh]; exact h.lost l
    · intro e y hye
      simp only [upd_conn] at hye
      by_cases he : e = c
      · subst he
        simp only [if_true, hx1, Option.map_some, Option.some.injEq] at hye
        rw [← hye]; exact h.lostAs e x hx
      · simp only [he, if_false] at hye; exact h.lostAs e y hye

theorem gauge_logAct {s : State} (c : Nat) (a : Act) (h : Gauge s) : Gauge (logAct s c a) :=
  gauge_local c _ (fun _ => ⟨rfl, rfl, rfl, rfl⟩) h

theorem gauge_deliver {s : State} (f : Frame) (d : Nat) (hr : Reg s) (h : Gauge s) : Gauge (deliver f s d) := by
  unfold deliver
  split
  · exact h
  · split
    · exact gauge_connectionLost d hr h
    · exact gauge_logAct d _ h

theorem gauge_foldl_deliver {s : State} (f : Frame) (l : List Nat) (hr : Reg s) (h : Gauge s) :
    Gauge (l.foldl (deliver f) s) := by
  induction l generalizing s with
  | nil => exact h
  | cons a l ih => exact ih (reg_deliver f a hr) (gauge_deliver f a hr h)

theorem gauge_publish {s : State} (c : Nat) (x : Conn) (i ch p : Bytes) (hr : Reg s) (h : Gauge s) :
    Gauge (publish s c x i ch p) := by
  unfold publish
  exact gauge_congr (s := (s.subs ch).eraseDups.foldl (deliver (pubFrame i ch p)) s) rfl rfl rfl rfl rfl rfl
    (gauge_foldl_deliver _ _ hr h)

theorem beginClose_gauge_fields (x : Conn) :
    x.beginClose.registered = x.registered ∧ x.beginClose.ak = x.ak ∧ x.beginClose.active = x.active ∧
    x.beginClose.lostAs = x.lostAs := by
  unfold Conn.beginClose; split <;> simp

theorem gauge_closeT {s : State} (c : Nat) (h : Gauge s) : Gauge (closeT s c) := by
  refine gauge_local c _ (fun x => ?_) h
  by_cases hc : x.closing = true
  · rw [if_pos hc]; exact ⟨rfl, rfl, rfl, rfl⟩
  · rw [if_neg hc]; exact beginClose_gauge_fields x

theorem gauge_peerClose {s : State} (c : Nat) (h : Gauge s) : Gauge (peerClose s c) := by
  unfold peerClose
  split
  · exact h
  · split
    · exact h
    · exact gauge_local c _ beginClose_gauge_fields (gauge_logAct c _ h)

theorem gauge_pauseReading {s : State} (c : Nat) (h : Gauge s) : Gauge (pauseReading s c) := by
  unfold pauseReading
  split
  · split
    · exact h
    · exact gauge_logAct c _ (gauge_local c _ (fun _ => ⟨rfl, rfl, rfl, rfl⟩) h)
  · exact h

theorem gauge_resumeReading {s : State} (c : Nat) (h : Gauge s) : Gauge (resumeReading s c) := by
  unfold resumeReading
  split
  · split
    · exact h
    · exact gauge_logAct c _ (gauge_local c _ (fun _ => ⟨rfl, rfl, rfl, rfl⟩) h)
  · exact h

theorem gauge_addConn {cfg : Cfg} {s : State} (c : Nat) (n : Bytes) (hc : s.conn c = none) (hr : Reg s)
    (h : Gauge s) : Gauge (addConn cfg s c n) := by
  have hcid : c ∉ s.ids := by rw [hr.ids_iff, hc]; simp
  have key : ∀ p : Conn → Bool, cnt (addConn cfg s c n) p = cnt s p +
      (if p { nonce := n, out := [(s.now, .write ⟨UInt8.ofNat OP_INFO, pack8 cfg.name ++ n⟩)] } then 1 else 0) := by
    intro p
    unfold cnt
    show (((s.ids ++ [c]).filter (holds (addConn cfg s c n) p)).length : Int) = _
    rw [List.filter_append, List.length_append]
    have h1 : (s.ids.filter (holds (addConn cfg s c n) p)).length = (s.ids.filter (holds s p)).length := by
      apply filter_length_congr
      intro d hd
      have hdc : d ≠ c := fun h' => hcid (h' ▸ hd)
      simp [holds, addConn, hdc]
    rw [h1]
    have h2 : holds (addConn cfg s c n) p c =
        p { nonce := n, out := [(s.now, .write ⟨UInt8.ofNat OP_INFO, pack8 cfg.name ++ n⟩)] } := by
      simp [holds, addConn]
    simp only [List.filter_cons, List.filter_nil, h2]
    split <;> simp
  refine ⟨?_, fun l ch => ?_, ?_, fun l => ?_, ?_⟩
  · show s.gConns + 1 = _; rw [key pReg, h.conns]; simp [pReg]
  · show s.gSubs l ch = _; rw [key (pSub l ch), h.subs l ch]; simp [pSub]
  · show s.cMade + 1 = (s.ids ++ [c]).length; rw [h.made]; simp
  · show (s.cLost l : Int) = _; rw [key (pLost l), h.lost l]; simp [pLost]
  · intro d y hy
    simp only [addConn] at hy
    by_cases hd : d = c
    · simp only [hd, if_true, Option.some.injEq] at hy; rw [← hy]; simp
    · simp only [hd, if_false] at hy; exact h.lostAs d y hy

theorem regGaugePres (cfg : Cfg) : Pres cfg (fun s => Reg s ∧ Gauge s) where
  prim := fun c => {
    logAct := fun _ a _ h => ⟨reg_logAct c a h.1, gauge_logAct c a h.2⟩
    closeT := fun _ h => ⟨reg_closeT c h.1, gauge_closeT c h.2⟩
    crashClose := fun _ h => ⟨reg_crashClose c h.1,
      gauge_local c _ beginClose_gauge_fields (gauge_logAct c _ h.2)⟩
    doSubscribe := fun _ ch ok x hx hr _ _ _ h =>
      ⟨reg_doSubscribe c ch ok x hx hr h.1,
       gauge_local c _ (fun _ => ⟨rfl, rfl, rfl, rfl⟩) (gauge_subscribe c ch x hx h.1 h.2)⟩
    doUnsubscribe := fun _ ch _ _ _ _ h =>
      ⟨reg_doUnsubscribe c ch h.1, gauge_local c _ (fun _ => ⟨rfl, rfl, rfl, rfl⟩) (gauge_unsubscribe c ch h.1 h.2)⟩
    setAuth := fun _ i d row _ _ _ h => ⟨reg_setAuth c i d row h.1, gauge_setAuth c i d row h.1 h.2⟩
    pauseReading := fun _ h => ⟨reg_pauseReading c h.1, gauge_pauseReading c h.2⟩
    resumeReading := fun _ h => ⟨reg_resumeReading c h.1, gauge_resumeReading c h.2⟩
    addPending := fun s i d h => ⟨((regPres cfg).prim c).addPending s i d h.1,
      gauge_local c _ (fun _ => ⟨rfl, rfl, rfl, rfl⟩) h.2⟩
    dropPending := fun s i h => ⟨((regPres cfg).prim c).dropPending s i h.1,
      gauge_local c _ (fun _ => ⟨rfl, rfl, rfl, rfl⟩) h.2⟩
    setBuf := fun s b h => ⟨((regPres cfg).prim c).setBuf s b h.1,
      gauge_local c _ (fun _ => ⟨rfl, rfl, rfl, rfl⟩) h.2⟩
    publish := fun _ x i ch p _ _ _ _ h => ⟨reg_publish c x i ch p h.1, gauge_publish c x i ch p h.1 h.2⟩
    addConn := fun _ n hc h => ⟨reg_addConn c n hc h.1, gauge_addConn c n hc h.1 h.2⟩
    peerClose := fun _ h => ⟨reg_peerClose c h.1, gauge_peerClose c h.2⟩
    lostConn := fun _ x hx _ h => ⟨reg_lostConn c x hx h.1,
      gauge_local c _ (fun _ => ⟨rfl, rfl, rfl, rfl⟩) (gauge_peerClose c (gauge_connectionLost c h.1 h.2))⟩
    armDeadline := fun s h => ⟨((regPres cfg).prim c).armDeadline s h.1,
      gauge_logAct c _ (gauge_local c _ (fun _ => ⟨rfl, rfl, rfl, rfl⟩) h.2)⟩
    clearDeadline := fun s a ha h => ⟨((regPres cfg).prim c).clearDeadline s a ha h.1,
      gauge_logAct c a (gauge_local c _ (fun _ => ⟨rfl, rfl, rfl, rfl⟩) h.2)⟩ }
  tick := fun s ms h => ⟨(regPres cfg).tick s ms h.1, gauge_congr (s := s) rfl rfl rfl rfl rfl rfl h.2⟩

theorem gauge_run (cfg : Cfg) (es : List Event) : Gauge (run cfg es) :=
  (pres_run (regGaugePres cfg) ⟨reg_init, gauge_init⟩ es).2


/-- the broker unregisters a connection only when (or, for `lost`, in the same step as) its transport
    is closing -/
def UnregClosing (s : State) : Prop := ∀ c x, s.conn c = some x → x.registered = false → x.closing = true

theorem uc_of_conn {s s' : State}
    (hc : ∀ d y', s'.conn d = some y' → ∃ y, s.conn d = some y ∧
      ((y.registered = false → y.closing = true) → (y'.registered = false → y'.closing = true)))
    (h : UnregClosing s) : UnregClosing s' := by
  intro d y' hy' hr
  obtain ⟨y, hy, k⟩ := hc d y' hy'
  exact k (h d y hy) hr

theorem uc_of_mono {s s' : State} (hm : Mono s s') (hn : NoNew s s')
    (hreg : ∀ d y y', s.conn d = some y → s'.conn d = some y' →
      y'.registered = y.registered ∨ y'.closing = true) (h : UnregClosing s) : UnregClosing s' := by
  intro d y' hy' hr
  cases hy : s.conn d with
  | none => rw [hn d hy] at hy'; cases hy'
  | some y =>
    obtain ⟨y2, hy2, m⟩ := hm d y hy
    rw [hy2] at hy'; cases hy'
    rcases hreg d y y' hy hy2 with h1 | h1
    · exact m.closing (h d y hy (by rw [← h1]; exact hr))
    · exact h1

theorem uc_upd {s : State} (c : Nat) (f : Conn → Conn) (hm : Mono s (s.upd c f))
    (hf : ∀ x, (f x).registered = x.registered) (h : UnregClosing s) : UnregClosing (s.upd c f) := by
  refine uc_of_mono hm (nonew_upd s c f) ?_ h
  intro d y y' hy hy'
  simp only [upd_conn] at hy'
  by_cases hd : d = c
  · subst hd; simp [hy] at hy'; rw [← hy']; exact Or.inl (hf y)
  · simp only [hd, if_false, hy, Option.some.injEq] at hy'; rw [hy']; exact Or.inl rfl

theorem ucPres (cfg : Cfg) : Pres cfg UnregClosing where
  prim := fun c => {
    logAct := fun s a _ h => uc_upd c _ (mono_logAct s c a) (fun _ => rfl) h
    closeT := fun s h => uc_upd c _ (mono_closeT s c) (fun x => by
      by_cases hc : x.closing = true
      · rw [if_pos hc]
      · rw [if_neg hc]; exact (beginClose_gauge_fields x).1) h
    crashClose := fun s h => uc_upd c _ (mono_upd _ c _ connMono_beginClose)
      (fun x => (beginClose_gauge_fields x).1) (uc_upd c _ (mono_logAct s c _) (fun _ => rfl) h)
    doSubscribe := fun s ch ok x hx _ _ _ _ h => by
      refine uc_of_mono (mono_doSubscribe s c ch ok) (nonew_doSubscribe s c ch ok) ?_ h
      intro d y y' hy hy'
      unfold doSubscribe noteSub at hy'
      simp only [upd_conn] at hy'
      by_cases hd : d = c
      · subst hd; simp [subscribe_conn hy] at hy'; rw [← hy']; exact Or.inl rfl
      · simp only [hd, if_false, subscribe_conn_ne hd, hy, Option.some.injEq] at hy'; rw [hy']; exact Or.inl rfl
    doUnsubscribe := fun s ch _ _ _ _ h => by
      refine uc_of_mono (mono_doUnsubscribe s c ch) (nonew_doUnsubscribe s c ch) ?_ h
      intro d y y' hy hy'
      unfold doUnsubscribe noteUnsub at hy'
      simp only [upd_conn] at hy'
      by_cases hd : d = c
      · subst hd; simp [unsubscribe_conn hy] at hy'; rw [← hy']; exact Or.inl rfl
      · simp only [hd, if_false, unsubscribe_conn_ne hd, hy, Option.some.injEq] at hy'; rw [hy']; exact Or.inl rfl
    setAuth := fun s i d row _ _ _ h => by
      unfold setAuth
      split
      · exact h
      · exact uc_upd (s := { s with gSubs := _, labels := _ }) c _
          (mono_upd _ c _ fun x => ⟨id, id, id, rfl, fun _ => rfl, List.prefix_refl _, fun _ => rfl⟩)
          (fun _ => rfl) (fun d y hy => h d y hy)
    pauseReading := fun s h => by
      unfold pauseReading
      split
      · split
        · exact h
        · exact uc_upd c _ (mono_logAct _ c _) (fun _ => rfl)
            (uc_upd c _ (mono_local s c _ fun _ => ⟨rfl, rfl, rfl, rfl, rfl, rfl, rfl⟩) (fun _ => rfl) h)
      · exact h
    resumeReading := fun s h => by
      unfold resumeReading
      split
      · split
        · exact h
        · exact uc_upd c _ (mono_logAct _ c _) (fun _ => rfl)
            (uc_upd c _ (mono_local s c _ fun _ => ⟨rfl, rfl, rfl, rfl, rfl, rfl, rfl⟩) (fun _ => rfl) h)
      · exact h
    addPending := fun s _ _ h => uc_upd c _ (mono_local s c _ fun _ => ⟨rfl, rfl, rfl, rfl, rfl, rfl, rfl⟩) (fun _ => rfl) h
    dropPending := fun s _ h => uc_upd c _ (mono_local s c _ fun _ => ⟨rfl, rfl, rfl, rfl, rfl, rfl, rfl⟩) (fun _ => rfl) h
    setBuf := fun s _ h => uc_upd c _ (mono_local s c _ fun _ => ⟨rfl, rfl, rfl, rfl, rfl, rfl, rfl⟩) (fun _ => rfl) h
    publish := fun s x i ch p _ _ _ _ h => by
      refine uc_of_mono (mono_publish s c x i ch p) (nonew_publish s c x i ch p) ?_ h
      intro d y y' hy hy'
      obtain ⟨y2, hy2, extra, r, _, _⟩ := publish_othersRel s c x i ch p d y hy
      rw [hy2] at hy'; cases hy'
      rcases r.reg with ⟨h1, _⟩ | ⟨h1, _⟩
      · exact Or.inl h1
      · exact Or.inr (by rw [r.closing]; exact h1)
    addConn := fun s n hc h => by
      intro d y hy hr
      simp only [addConn] at hy
      by_cases hd : d = c
      · simp only [hd, if_true, Option.some.injEq] at hy; rw [← hy] at hr; cases hr
      · simp only [hd, if_false] at hy; exact h d y hy hr
    peerClose := fun s h => by
      unfold peerClose
      split
      · exact h
      · split
        · exact h
        · exact uc_upd c _ (mono_upd _ c _ connMono_beginClose) (fun x => (beginClose_gauge_fields x).1)
            (uc_upd c _ (mono_logAct s c _) (fun _ => rfl) h)
    lostConn := fun s x hx _ h => by
      refine uc_of_mono (mono_lostConn s c) (nonew_lostConn s c) ?_ h
      intro d y y' hy hy'
      by_cases hd : d = c
      · subst hd
        right
        -- the record of the lost connection: `markGone` made it closing
        unfold lostConn markGone at hy'
        simp only [upd_conn, if_true] at hy'
        obtain ⟨z, hz, _⟩ := mono_connectionLost s d d y hy
        obtain ⟨w, hw, _, _, _, hcl⟩ := peerClose_conn hz
        rw [hw] at hy'
        simp only [Option.map_some, Option.some.injEq] at hy'
        rw [← hy']; exact hcl
      · left
        rw [only_lostConn s c d hd, hy] at hy'; cases hy'; rfl
    armDeadline := fun s h => by
      unfold armDeadline
      exact uc_upd c _ (mono_logAct _ c _) (fun _ => rfl)
        (uc_upd c _ (mono_local s c _ fun _ => ⟨rfl, rfl, rfl, rfl, rfl, rfl, rfl⟩) (fun _ => rfl) h)
    clearDeadline := fun s a _ h => by
      unfold clearDeadline
      exact uc_upd c _ (mono_logAct _ c _) (fun _ => rfl)
        (uc_upd c _ (mono_local s c _ fun _ => ⟨rfl, rfl, rfl, rfl, rfl, rfl, rfl⟩) (fun _ => rfl) h) }
  tick := fun s ms h => fun d y hy => h d y hy

theorem uc_run (cfg : Cfg) (es : List Event) : UnregClosing (run cfg es) :=
  pres_run (ucPres cfg) (by intro d y h; simp [init] at h) es

theorem sum_indicator (L : List (Option Bytes)) (hL : L.Nodup) (v : Option Bytes) :
    (L.map (fun l => if v = l then 1 else 0)).sum = if v ∈ L then 1 else 0 := by
  induction L with
  | nil => simp
  | cons a L ih =>
    obtain ⟨ha, hL'⟩ := List.nodup_cons.mp hL
    simp only [List.map_cons, List.sum_cons, ih hL', List.mem_cons]
    by_cases hv : v = a
    · subst hv; simp [ha]
    · by_cases hm : v ∈ L <;> simp [hv, hm]

theorem sum_map_add (L : List (Option Bytes)) (f g : Option Bytes → Nat) :
    (L.map (fun l => f l + g l)).sum = (L.map f).sum + (L.map g).sum := by
  induction L with
  | nil => rfl
  | cons a L ih => simp only [List.map_cons, List.sum_cons, ih]; omega

/-- double counting: summing, over a duplicate-free list of labels, the number of elements with that
    label gives the number of elements whose label is in the list -/
theorem sum_filter_labels (ids : List Nat) (L : List (Option Bytes)) (hL : L.Nodup)
    (lab : Nat → Option Bytes) (q : Nat → Bool) :
    (L.map (fun l => (ids.filter (fun c => decide (lab c = l) && q c)).length)).sum =
      (ids.filter (fun c => q c && decide (lab c ∈ L))).length := by
  have zero : ∀ L : List (Option Bytes), (L.map (fun _ => (0 : Nat))).sum = 0 := by
    intro L; induction L with
    | nil => rfl
    | cons a L ih => simp [ih]
  induction ids with
  | nil => simpa using zero L
  | cons a t ih =>
    have h1 : ∀ l, ((a :: t).filter (fun c => decide (lab c = l) && q c)).length =
        (if lab a = l then (if q a then 1 else 0) else 0) + (t.filter (fun c => decide (lab c = l) && q c)).length := by
      intro l
      simp only [List.filter_cons]
      by_cases hl : lab a = l <;> by_cases hq : q a = true <;> simp [hl, hq] <;> omega
    simp only [h1, sum_map_add, ih]
    simp only [List.filter_cons]
    by_cases hq : q a = true
    · have : (L.map (fun l => if lab a = l then (if q a = true then 1 else 0) else 0)).sum =
          (L.map (fun l => if lab a = l then 1 else 0)).sum := by
        have : (fun l => if lab a = l then (if q a = true then 1 else 0) else 0) =
            fun (l : Option Bytes) => if lab a = l then 1 else 0 := by
          funext l; simp [hq]
        rw [this]
      rw [this, sum_indicator L hL]
      by_cases hm : lab a ∈ L <;> simp [hq, hm] <;> omega
    · have : (L.map (fun l => if lab a = l then (if q a = true then 1 else 0) else 0)).sum = 0 := by
        have : (fun l => if lab a = l then (if q a = true then 1 else 0) else 0) = fun (_ : Option Bytes) => 0 := by
          funext l; simp [hq]
        rw [this]; exact zero L
      rw [this]; simp [hq]


theorem sum_cast (L : List (Option Bytes)) (f : Option Bytes → Nat) :
    (L.map (fun l => ((f l : Nat) : Int))).sum = (((L.map f).sum : Nat) : Int) := by
  induction L with
  | nil => rfl
  | cons a L ih => simp only [List.map_cons, List.sum_cons, ih]; omega

def labOf (s : State) (c : Nat) : Option Bytes :=
  match s.conn c with
  | some x => x.ak
  | none => none

def subOf (s : State) (ch : Bytes) (c : Nat) : Bool := holds s (fun x => decide (ch ∈ x.active)) c

theorem holds_pSub (s : State) (l : Option Bytes) (ch : Bytes) (c : Nat) :
    holds s (pSub l ch) c = (decide (labOf s c = l) && subOf s ch c) := by
  unfold holds pSub labOf subOf holds
  cases hx : s.conn c with
  | none => simp
  | some x => simp

/-- for each channel the per-identity subscription gauges add up to the number of connections subscribed
    to it — summed over any duplicate-free list of labels that covers the identities of its subscribers -/
theorem gauge_channel_total {s : State} (h : Gauge s) (ch : Bytes) (L : List (Option Bytes)) (hL : L.Nodup)
    (hcover : ∀ c x, s.conn c = some x → ch ∈ x.active → x.ak ∈ L) :
    (L.map (fun l => s.gSubs l ch)).sum = cnt s (fun x => decide (ch ∈ x.active)) := by
  have e1 : ∀ l, s.gSubs l ch =
      (((s.ids.filter (fun c => decide (labOf s c = l) && subOf s ch c)).length : Nat) : Int) := by
    intro l
    rw [h.subs l ch]
    unfold cnt
    congr 2
    apply List.filter_congr
    intro c _
    exact holds_pSub s l ch c
  have : (fun l => s.gSubs l ch) =
      fun l => (((s.ids.filter (fun c => decide (labOf s c = l) && subOf s ch c)).length : Nat) : Int) := by
    funext l; exact e1 l
  rw [this, sum_cast, sum_filter_labels s.ids L hL (labOf s) (subOf s ch)]
  unfold cnt
  congr 2
  apply List.filter_congr
  intro c _
  unfold subOf labOf holds
  cases hx : s.conn c with
  | none => simp
  | some x =>
    by_cases hm : ch ∈ x.active
    · simp [hm, hcover c x hx hm]
    · simp [hm]

end Hpfeeds.Broker
