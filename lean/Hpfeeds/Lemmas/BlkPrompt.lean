/-
  Nothing is withheld (C12, blocking thread session): while the reactor is alive and the protocol has not closed the
  socket, the bytes still in the unpacker begin NO complete frame, and every frame dispatched so far is well formed —
  hence (`every_frame_dispatched`) the frames dispatched on the current connection are exactly the complete frames
  contained in the bytes `recv()` returned, however they were sliced.
-/
import Hpfeeds.Lemmas.BlkSession
namespace Hpfeeds.BlkSession
open Hpfeeds Extracted

structure UInv (s : State) : Prop where
  wait : s.dead = false → s.sockClosed = false → header s.ubuf = .wait
  wf : ∀ f ∈ s.processed, f.WF

/-- the unpacker and the frame log are untouched and neither "dead" nor "socket closed" is cleared -/
structure SameU (s s' : State) : Prop where
  ubuf : s'.ubuf = s.ubuf
  processed : s'.processed = s.processed
  dead : s'.dead = false → s.dead = false
  closed : s'.sockClosed = false → s.sockClosed = false

theorem SameU.refl (s : State) : SameU s s := ⟨rfl, rfl, id, id⟩
theorem SameU.trans {a b c : State} (h1 : SameU a b) (h2 : SameU b c) : SameU a c :=
  ⟨h2.ubuf.trans h1.ubuf, h2.processed.trans h1.processed, fun h => h1.dead (h2.dead h), fun h => h1.closed (h2.closed h)⟩

theorem uinv_of_same {s s' : State} (h : UInv s) (k : SameU s s') : UInv s' :=
  ⟨fun hd hc => by rw [k.ubuf]; exact h.wait (k.dead hd) (k.closed hc), by rw [k.processed]; exact h.wf⟩

theorem header_nil : header ([] : Bytes) = .wait := by
  unfold header; simp

theorem sameU_rwrite (s : State) (f : Bytes) : SameU s (rwrite s f) := ⟨rfl, rfl, id, id⟩
theorem sameU_rwriteAll (s : State) (fs : List Bytes) : SameU s (rwriteAll s fs) := by
  induction fs generalizing s with
  | nil => exact SameU.refl s
  | cons f fs ih => exact (sameU_rwrite s f).trans (ih (rwrite s f))

theorem sameU_closeSock (s : State) : SameU s (closeSock s).1 := by
  unfold closeSock; split
  · exact SameU.refl s
  · exact ⟨rfl, rfl, id, fun h => (by cases h)⟩

theorem closeSock_closed (s : State) : (closeSock s).1.sockClosed = true := by
  unfold closeSock; split
  · rename_i h; exact h
  · rfl

theorem sameU_onInfo (cfg : Cfg) (s : State) (rand : Bytes) : SameU s (onInfo cfg s rand) := by
  unfold onInfo
  have h1 : SameU s (markReady (rwrite s (authFrame cfg rand)) rand) := ⟨rfl, rfl, id, id⟩
  exact h1.trans (sameU_rwriteAll _ _)

theorem sameU_onFrame (cfg : Cfg) (s : State) (f : Frame) : SameU s (onFrame cfg s f).1 := by
  unfold onFrame
  cases read f with
  | none => exact sameU_closeSock s
  | some r =>
    cases r with
    | error c => exact SameU.refl s
    | ok m =>
      cases m with
      | error t => exact SameU.refl s
      | info n rand => exact sameU_onInfo cfg s rand
      | auth i d => exact sameU_closeSock s
      | subscribe i c => exact sameU_closeSock s
      | unsubscribe i c => exact sameU_closeSock s
      | publish i c p => exact ⟨rfl, rfl, id, id⟩

/-- dispatching: the unpacker is untouched, flags only get set, and the frame log grows by frames of the list -/
theorem dispatch_u (cfg : Cfg) (s : State) (fs : List Frame) :
    (dispatch cfg s fs).1.ubuf = s.ubuf ∧
    ((dispatch cfg s fs).1.dead = false → s.dead = false) ∧
    ((dispatch cfg s fs).1.sockClosed = false → s.sockClosed = false) ∧
    (∀ f ∈ (dispatch cfg s fs).1.processed, f ∈ s.processed ∨ f ∈ fs) := by
  induction fs generalizing s with
  | nil => exact ⟨rfl, id, id, fun f hf => Or.inl hf⟩
  | cons f fs ih =>
    simp only [dispatch]
    have k := sameU_onFrame cfg (noteFrame s f) f
    have hn : (noteFrame s f).processed = s.processed ++ [f] := rfl
    split
    · refine ⟨k.ubuf, k.dead, k.closed, fun g hg => ?_⟩
      rw [k.processed, hn] at hg
      simp only [List.mem_append, List.mem_singleton] at hg
      rcases hg with hg | hg
      · exact Or.inl hg
      · exact Or.inr (by rw [hg]; simp)
    · obtain ⟨c1, c2, c3, c4⟩ := ih (onFrame cfg (noteFrame s f) f).1
      refine ⟨c1.trans k.ubuf, fun h => k.dead (c2 h), fun h => k.closed (c3 h), fun g hg => ?_⟩
      rcases c4 g hg with hg | hg
      · rw [k.processed, hn] at hg
        simp only [List.mem_append, List.mem_singleton] at hg
        rcases hg with hg | hg
        · exact Or.inl hg
        · exact Or.inr (by rw [hg]; simp)
      · exact Or.inr (by simp [hg])

theorem dataReceived_u (cfg : Cfg) (s : State) (c : Bytes) (h : UInv s) : UInv (dataReceived cfg s c).1 := by
  unfold dataReceived
  simp only
  have hd := drain_spec (s.ubuf ++ c)
  have h1 := dispatch_u cfg { s with inbound := s.inbound ++ c } (drain (s.ubuf ++ c)).1
  generalize dispatch cfg { s with inbound := s.inbound ++ c } (drain (s.ubuf ++ c)).1 = r at h1 ⊢
  obtain ⟨_, r2, r3, r4⟩ := h1
  have hwf : ∀ f ∈ r.1.processed, f.WF := by
    intro f hf
    rcases r4 f hf with hf | hf
    · exact h.wf f hf
    · exact hd.2.1 f hf
  split
  · exact ⟨fun hdead => (by cases hdead), hwf⟩
  · split
    · rename_i hnone
      refine ⟨fun _ _ => ?_, hwf⟩
      have := hd.2.2
      rw [hnone] at this
      exact this
    · have k := sameU_closeSock { r.1 with ubuf := (drain (s.ubuf ++ c)).2.1 }
      refine ⟨fun _ hc => ?_, by rw [k.processed]; exact hwf⟩
      rw [closeSock_closed] at hc; cases hc

theorem sameU_connectionLost (s : State) : SameU s (connectionLost s).1 := ⟨rfl, rfl, id, id⟩

theorem sameU_writeReady (s : State) (o : Send) : SameU s (writeReady s o).1 := by
  unfold writeReady
  split
  · exact ⟨rfl, rfl, fun h => (by cases h), id⟩
  · cases o with
    | again => exact SameU.refl s
    | accept n =>
      simp only
      split
      · exact sameU_connectionLost s
      · exact ⟨rfl, rfl, id, id⟩

theorem sameU_outboxReady (s : State) (o : Send) : SameU s (outboxReady s o).1 := by
  unfold outboxReady
  split
  · exact SameU.refl s
  · rename_i f r _
    have h1 : SameU s { s with items := r, wake := s.wake - 1, buffer := s.buffer ++ f } := ⟨rfl, rfl, id, id⟩
    exact h1.trans (sameU_writeReady _ o)

theorem readPhase_u (cfg : Cfg) (s : State) (h : UInv s) : UInv (readPhase cfg s).1 := by
  unfold readPhase
  split
  · exact dataReceived_u cfg _ _ (uinv_of_same h ⟨rfl, rfl, id, id⟩)
  · split
    · exact uinv_of_same h (sameU_connectionLost s)
    · exact h

theorem select_u (cfg : Cfg) (s : State) (o : Send) (h : UInv s) : UInv (select cfg s o).1 := by
  unfold select
  split
  · exact ⟨fun hd => (by cases hd), h.wf⟩
  · simp only
    split
    · exact h
    · have h1 := readPhase_u cfg s h
      generalize readPhase cfg s = r1 at h1 ⊢
      split
      · exact h1
      · split
        · exact uinv_of_same h1 (sameU_outboxReady _ o)
        · split
          · exact uinv_of_same h1 (sameU_writeReady _ o)
          · exact h1

theorem uinv_step (cfg : Cfg) (s : State) (e : Ev) (h : UInv s) : UInv (step cfg s e).1 := by
  cases e with
  | connect =>
    simp only [step]; split
    · exact h
    · exact ⟨fun _ _ => header_nil, fun f hf => by cases hf⟩
  | inb b => simp only [step]; split
             · exact uinv_of_same h ⟨rfl, rfl, id, id⟩
             · exact h
  | eof => simp only [step]; split
           · exact uinv_of_same h ⟨rfl, rfl, id, id⟩
           · exact h
  | sel o => simp only [step]; split
             · exact select_u cfg s o h
             · exact h
  | wBegin t op => simp only [step]; split
                   · exact h
                   · exact uinv_of_same h ⟨rfl, rfl, id, id⟩
  | wCheck t =>
    simp only [step]
    split
    · split
      · split
        · exact uinv_of_same h ⟨rfl, rfl, id, id⟩
        · exact uinv_of_same h ⟨rfl, rfl, id, id⟩
      · exact uinv_of_same h ⟨rfl, rfl, id, id⟩
    · exact h
  | wWake t =>
    simp only [step]
    split
    · split
      · exact uinv_of_same h ⟨rfl, rfl, id, id⟩
      · exact uinv_of_same h ⟨rfl, rfl, id, id⟩
    · exact h
  | read =>
    simp only [step]
    split
    · exact uinv_of_same h ⟨rfl, rfl, id, id⟩
    · exact h

theorem uinv_run (cfg : Cfg) (es : List Ev) : UInv (run cfg es).1 := by
  unfold run
  suffices ∀ (acc : State × List Out), UInv acc.1 →
      UInv (es.foldl (fun acc e => let r := step cfg acc.1 e; (r.1, acc.2 ++ r.2)) acc).1 from
    this ({}, []) ⟨fun _ _ => header_nil, fun f hf => by cases hf⟩
  induction es with
  | nil => intro acc h; exact h
  | cons e es ih =>
    intro acc h
    simp only [List.foldl_cons]
    exact ih _ (uinv_step cfg acc.1 e h)

/-- **every complete frame has been dispatched** (current connection of the blocking thread session) -/
theorem every_frame_dispatched (cfg : Cfg) (es : List Ev)
    (hd : (run cfg es).1.dead = false) (hc : (run cfg es).1.sockClosed = false)
    (fs : List Frame) (t : Bytes) (hf : ∀ f ∈ fs, f.WF) (ht : header t = .wait)
    (hin : (run cfg es).1.inbound = fs.flatMap enc ++ t) :
    (run cfg es).1.processed = fs ∧ (run cfg es).1.ubuf = t := by
  have hb := (run_inv cfg es).b.bytes
  have hu := uinv_run cfg es
  have d1 := drain_frames (run cfg es).1.processed (run cfg es).1.ubuf hu.wf
  have d2 := drain_frames fs t hf
  rw [drain_wait (hu.wait hd hc), ← hb] at d1
  rw [drain_wait ht, ← hin] at d2
  rw [d1] at d2
  simp only [List.append_nil, Prod.mk.injEq] at d2
  exact ⟨d2.1, d2.2.1⟩

end Hpfeeds.BlkSession
