/-
  Blocking Client: the composed bounded-response theorem of C13 (i).
-/
import Hpfeeds.Lemmas.BlkClient
namespace Hpfeeds.BlkClient
open Hpfeeds Extracted

theorem enc_ne_nil (f : Frame) : enc f ≠ [] := by
  intro h
  have := enc_length f
  rw [h] at this; simp at this; omega

theorem sendOks_mono (cfg : Cfg) (s : State) (n : Nat) : Mono s (sendOks cfg s n).1 := by
  induction n generalizing s with
  | zero => exact Mono.refl s
  | succ n ih => rw [sendOks_succ]; exact (mo_step cfg s .sendOk).trans (ih _)

/-- the state in which `do_auth` has just sent OP_AUTH on a fresh socket, seen from run()'s loop top -/
structure Fresh (cfg : Cfg) (s : State) (rand : Bytes) (t : State) : Prop where
  stopped : t.stopped = false
  subs : t.subs = s.subs
  nsock : t.nsock = s.nsock + 1
  connected : t.connected = true
  usable : usable t = true
  sent : t.sent = [authFrame cfg rand]

/-- the state at run()'s loop top after: fresh socket on `s0`, accepted, OP_INFO `f` read, OP_AUTH sent -/
def freshTop (cfg : Cfg) (s0 : State) (f : Frame) (rand : Bytes) : State :=
  let t := (newSocket s0 0 .run).1
  { t with connected := true, sockUp := true, ubuf := [], fed := enc f, popped := [f],
           sent := [authFrame cfg rand], nonce := some rand, pc := .idle }

/-- loss, accept, whole OP_INFO, AUTH delivered: run() is at its loop top on a fresh authenticated socket -/
theorem back_at_loop_top (cfg : Cfg) (s : State) (hp : s.pc = .runRecv) (hst : s.stopped = false)
    (f : Frame) (n rand : Bytes) (hf : f.WF) (hop : f.op.toNat = OP_INFO) (hrd : read f = some (.ok (.info n rand))) :
    ∃ t, Fresh cfg s rand t ∧
      (step cfg (step cfg (step cfg (step cfg s .eof).1 .connOk).1 (.data (enc f))).1 .sendOk).1 = (runTop t).1 := by
  have hne := enc_ne_nil f
  have hh' : header (enc f) = .ok (5 + f.body.length) f.op := by
    have := header_enc_append f [] hf; simpa using this
  have hpop' : popFrame (enc f) (5 + f.body.length) f.op = (f, []) := by
    have := popFrame_enc_append f []; simpa using this
  refine ⟨freshTop cfg (closeSock { s with connected := false }).1 f rand, ?_, ?_⟩
  · have h0 : (closeSock { s with connected := false }).1.stopped = false ∧
        (closeSock { s with connected := false }).1.subs = s.subs ∧
        (closeSock { s with connected := false }).1.nsock = s.nsock := by
      unfold closeSock; split <;> exact ⟨hst, rfl, rfl⟩
    constructor <;> simp [freshTop, newSocket, usable, h0.1, h0.2.1, h0.2.2]
  · have e1 : (step cfg s .eof).1 = (newSocket (closeSock { s with connected := false }).1 0 .run).1 := by
      simp [step, hp, afterInner, hst, startConnect]
    rw [e1]
    generalize (closeSock { s with connected := false }).1 = s0
    simp [step, newSocket, hne, doAuth, hh', hpop', hop, hrd, resume, freshTop]

/-- THE CLIENT COMES BACK (C13 (i), composed).  From ANY state in which run() is reading and has not been
    stopped: the connection is lost; the next attempt is accepted; a whole OP_INFO arrives; the sends succeed.
    Then run() is reading again, on a NEW socket on which it has sent exactly the OP_AUTH for that OP_INFO's
    nonce followed by one OP_SUBSCRIBE per channel the application wants. -/
theorem comes_back (cfg : Cfg) (s : State) (hp : s.pc = .runRecv) (hst : s.stopped = false)
    (f : Frame) (n rand : Bytes) (hf : f.WF) (hop : f.op.toNat = OP_INFO) (hrd : read f = some (.ok (.info n rand))) :
    let s4 := (step cfg (step cfg (step cfg (step cfg s .eof).1 .connOk).1 (.data (enc f))).1 .sendOk).1
    let fin := (sendOks cfg s4 (sortBytes s.subs).length).1
    fin.pc = .runRecv ∧ fin.nsock = s.nsock + 1 ∧
    fin.sent = authFrame cfg rand :: (sortBytes s.subs).map (subFrame cfg) := by
  obtain ⟨t, ⟨a1, a2, a3, a4, a5, a6⟩, e4⟩ := back_at_loop_top cfg s hp hst f n rand hf hop hrd
  simp only
  rw [e4]
  cases hsub : sortBytes s.subs with
  | nil =>
    have : runTop t = ({ t with pc := .runRecv }, []) := by
      simp [runTop, a1, a2, hsub, subLoop, recvLoop, a4, a5]
    rw [this]
    simp [sendOks, a3, a6]
  | cons ch rest =>
    have ht : runTop t = ({ t with pc := .subSend ch rest .run }, []) := by
      simp [runTop, a1, a2, hsub, subLoop, a5]
    rw [ht]
    obtain ⟨_, b2, b3, b4⟩ := subscribe_all cfg rest { t with pc := .subSend ch rest .run } ch rfl a4 a5
    simp only [List.length_cons]
    exact ⟨b2, by rw [b4]; exact a3, by rw [b3]; simp [a6]⟩

end Hpfeeds.BlkClient
