/-
  Write faults inside `Server.publish` (Model/BrokerFault.lean):
  * the parametrised handler / loop / transition function instantiated with `publish` ARE the proved model;
  * `publishF` with no fault is `publish`;
  * a fault at some destinations changes NOTHING in the record of any other connection, and a faulty destination
    is closed and written nothing.
-/
import Hpfeeds.Model.BrokerFault
import Hpfeeds.Lemmas.BrokerStore
import Hpfeeds.Lemmas.BrokerDeliv
import Hpfeeds.Lemmas.BrokerReg
import Hpfeeds.Lemmas.BrokerFrame
import Hpfeeds.Lemmas.BrokerGauge
namespace Hpfeeds.Broker
open Hpfeeds Extracted

theorem messageReceivedG_publish (cfg : Cfg) (s : State) (c : Nat) (f : Frame) :
    messageReceivedG publish cfg s c f = messageReceived cfg s c f := rfl

theorem loopG_wait {pub : Pub} {cfg : Cfg} {c : Nat} {s : State} {buf : Bytes} (h : header buf = .wait) :
    loopG pub cfg c s buf = (s, buf, .cont) := by
  rw [loopG]; split
  · rfl
  · rename_i h'; rw [h] at h'; cases h'
  · rename_i h'; rw [h] at h'; cases h'
theorem loopG_bad {pub : Pub} {cfg : Cfg} {c : Nat} {s : State} {buf : Bytes} {e : Err} (h : header buf = .bad e) :
    loopG pub cfg c s buf = (closeT s c, buf, .cont) := by
  rw [loopG]; split
  · rename_i h'; rw [h] at h'; cases h'
  · rfl
  · rename_i h'; rw [h] at h'; cases h'
theorem loopG_ok {pub : Pub} {cfg : Cfg} {c : Nat} {s : State} {buf : Bytes} {ml : Nat} {op : UInt8}
    (h : header buf = .ok ml op) :
    loopG pub cfg c s buf =
      match (messageReceivedG pub cfg s c (popFrame buf ml op).1).2 with
      | .cont => loopG pub cfg c (messageReceivedG pub cfg s c (popFrame buf ml op).1).1 (popFrame buf ml op).2
      | ctl => ((messageReceivedG pub cfg s c (popFrame buf ml op).1).1, (popFrame buf ml op).2, ctl) := by
  rw [loopG]
  split
  · rename_i h'; rw [h] at h'; cases h'
  · rename_i h'; rw [h] at h'; cases h'
  · rename_i ml' op' h'
    rw [h] at h'; injection h' with h1 h2; subst h1; subst h2
    rfl

/-- the parametrised frame loop instantiated with `publish` is the proved model's frame loop -/
theorem loopG_publish (cfg : Cfg) (c : Nat) : ∀ (buf : Bytes) (s : State), loopG publish cfg c s buf = loop cfg c s buf := by
  intro buf
  induction hn : buf.length using Nat.strongRecOn generalizing buf with
  | _ n ih =>
    intro s
    cases hh : header buf with
    | wait => rw [loop_wait' hh, loopG_wait hh]
    | bad e => rw [loop_bad' hh, loopG_bad hh]
    | ok ml op =>
      have hk := header_ok hh
      rw [loop_ok' hh, loopG_ok hh, messageReceivedG_publish]
      cases hctl : (messageReceived cfg s c (popFrame buf ml op).1).2 with
      | cont =>
        simp only
        exact ih _ (by simp only [popFrame, List.length_drop]; omega) _ rfl _
      | brk => rfl
      | crash => rfl

/-- … and so is the transition function: everything proved about `step` is about `stepG publish` -/
theorem stepG_publish (cfg : Cfg) (s : State) (e : Event) : stepG publish cfg s e = step cfg s e := by
  cases e <;> simp only [stepG, step, loopG_publish] <;> rfl

theorem deliverF_none (f : Frame) (s : State) (d : Nat) : deliverF (fun _ => false) f s d = deliver f s d := by
  unfold deliverF deliver
  cases s.conn d with
  | none => rfl
  | some x => simp

theorem foldl_deliverF_none (f : Frame) (l : List Nat) (s : State) :
    l.foldl (deliverF (fun _ => false) f) s = l.foldl (deliver f) s := by
  induction l generalizing s with
  | nil => rfl
  | cons a l ih => simp only [List.foldl_cons, deliverF_none, ih]

/-- without faults the extended fan-out is the proved model's fan-out -/
theorem publishF_none : publishF (fun _ => false) = publish := by
  funext s src x ident ch p
  simp only [publishF, publish, foldl_deliverF_none, Bool.not_false, Bool.and_true]
  rfl

/-- a history step without faults is a step of the proved model -/
theorem stepF_none (cfg : Cfg) (s : State) (e : Event) : stepF (fun _ => false) cfg s e = step cfg s e := by
  unfold stepF; rw [publishF_none]; exact stepG_publish cfg s e

/-! ### what one iteration does to each record -/

theorem closeT_conn_ne {s : State} {c d : Nat} (hd : d ≠ c) : (closeT s c).conn d = s.conn d := by
  simp [closeT, hd]

theorem logAct_conn_ne {s : State} {c d : Nat} {a : Act} (hd : d ≠ c) : (logAct s c a).conn d = s.conn d := by
  simp [logAct, hd]

/-- an iteration for destination `a` touches no other record -/
theorem deliverF_conn_ne (F : Nat → Bool) (f : Frame) (s : State) {a d : Nat} (hd : d ≠ a) :
    (deliverF F f s a).conn d = s.conn d := by
  unfold deliverF
  split
  · rfl
  · split
    · exact connectionLost_conn_ne hd
    · split
      · exact closeT_conn_ne hd
      · exact logAct_conn_ne hd

theorem deliver_conn_ne (f : Frame) (s : State) {a d : Nat} (hd : d ≠ a) : (deliver f s a).conn d = s.conn d := by
  rw [← deliverF_none]; exact deliverF_conn_ne _ f s hd

theorem foldl_deliverF_conn_notin (F : Nat → Bool) (f : Frame) (l : List Nat) (s : State) {d : Nat} (hd : d ∉ l) :
    (l.foldl (deliverF F f) s).conn d = s.conn d := by
  induction l generalizing s with
  | nil => rfl
  | cons a l ih =>
    simp only [List.mem_cons, not_or] at hd
    simp only [List.foldl_cons]
    rw [ih _ hd.2, deliverF_conn_ne F f s hd.1]

theorem deliverF_now (F : Nat → Bool) (f : Frame) (s : State) (a : Nat) : (deliverF F f s a).now = s.now := by
  unfold deliverF
  split
  · rfl
  · split
    · exact connectionLost_now s a
    · split <;> rfl

theorem foldl_deliverF_now (F : Nat → Bool) (f : Frame) (l : List Nat) (s : State) :
    (l.foldl (deliverF F f) s).now = s.now := by
  induction l generalizing s with
  | nil => rfl
  | cons a l ih => simp only [List.foldl_cons]; rw [ih, deliverF_now]

/-- what `connection_lost` leaves in the record of its own connection depends on that record only -/
theorem connectionLost_conn_local {s t : State} {c : Nat} (h : s.conn c = t.conn c) :
    (connectionLost s c).conn c = (connectionLost t c).conn c := by
  unfold connectionLost
  rw [← h]
  cases hx : s.conn c with
  | none => simp only; rw [← h, hx]
  | some x =>
    simp only
    split
    · have ht : (countLost t x.ak).conn c = some x := by rw [← hx, h]; rfl
      have hs : (countLost s x.ak).conn c = some x := hx
      rw [upd_conn_self (foldl_unsubscribe_conn x.active hs), upd_conn_self (foldl_unsubscribe_conn x.active ht)]
    · rw [← h, hx]

/-- what an iteration leaves in the record of its own destination depends on that record and the clock only -/
theorem deliverF_conn_local (F : Nat → Bool) (f : Frame) {s t : State} {a : Nat} (h : s.conn a = t.conn a)
    (hn : s.now = t.now) : (deliverF F f s a).conn a = (deliverF F f t a).conn a := by
  unfold deliverF
  rw [← h]
  cases hx : s.conn a with
  | none => simp only; rw [← h, hx]
  | some x =>
    simp only
    split
    · exact connectionLost_conn_local h
    · split
      · simp only [closeT, upd_conn, if_true, ← h, hn]
      · simp only [logAct, upd_conn, if_true, ← h, hn]

/-- LOCALITY of the fan-out loop: what it leaves in the record of a destination `d` is what the single iteration
    for `d` would leave, run on the state before the loop -/
theorem foldl_deliverF_conn_in (F : Nat → Bool) (f : Frame) (l : List Nat) (hnd : l.Nodup) (s : State) {d : Nat}
    (hd : d ∈ l) : (l.foldl (deliverF F f) s).conn d = (deliverF F f s d).conn d := by
  induction l generalizing s with
  | nil => cases hd
  | cons a l ih =>
    have hnd' := List.nodup_cons.mp hnd
    simp only [List.foldl_cons]
    by_cases hda : d = a
    · subst hda
      exact foldl_deliverF_conn_notin F f l _ hnd'.1
    · have hdl : d ∈ l := by
        rcases List.mem_cons.mp hd with h | h
        · exact absurd h hda
        · exact h
      rw [ih hnd'.2 _ hdl]
      exact deliverF_conn_local F f (deliverF_conn_ne F f s hda) (deliverF_now F f s a)

/-- the iteration for a destination whose transport does not refuse the write is the fault-free iteration -/
theorem deliverF_ok (F : Nat → Bool) (f : Frame) (s : State) {d : Nat} (hF : F d = false) :
    deliverF F f s d = deliver f s d := by
  unfold deliverF deliver
  cases s.conn d with
  | none => rfl
  | some x => simp [hF]

/-- FAULT ISOLATION, loop level: the record of every connection whose own transport did not refuse the write is
    exactly what the fault-free loop leaves there -/
theorem foldl_deliverF_isolated (F : Nat → Bool) (f : Frame) (l : List Nat) (hnd : l.Nodup) (s : State) {d : Nat}
    (hF : F d = false) : (l.foldl (deliverF F f) s).conn d = (l.foldl (deliver f) s).conn d := by
  by_cases hd : d ∈ l
  · rw [foldl_deliverF_conn_in F f l hnd s hd, ← foldl_deliverF_none,
      foldl_deliverF_conn_in (fun _ => false) f l hnd s hd, deliverF_ok F f s hF, deliverF_none]
  · rw [foldl_deliverF_conn_notin F f l s hd, ← foldl_deliverF_none, foldl_deliverF_conn_notin _ f l s hd]

/-! ### the induction principle of `Lemmas/BrokerPres` for ANY fan-out function

The three lemmas below are `pres_messageReceived`, `pres_loop`, `pres_step_at` proved again for the parametrised
handler / loop / transition function: an invariant preserved by the primitives and by the fan-out function in use
holds after every event — so every invariant of the fault-free model whose preservation by `publishF` is proved
(`Reg` below) holds after every history WITH write faults. -/

/-- the fan-out function `pub` preserves `P` where the handler for connection `c` applies it -/
def PubPres (pub : Pub) (c : Nat) (P : State → Prop) : Prop :=
  ∀ s x i ch p, s.conn c = some x → x.ak = some i → ch ∈ x.pubchans → x.registered = true → P s → P (pub s c x i ch p)

section
variable {cfg : Cfg} {P : State → Prop} {c : Nat} {pub : Pub}

theorem pres_messageReceivedG (hp : PresAt cfg c P) (hpub : PubPres pub c P) (s : State) (f : Frame) (h : P s) :
    P (messageReceivedG pub cfg s c f).1 := by
  unfold messageReceivedG
  split
  · exact h
  · rename_i x hx
    split
    · exact pres_errorClose hp _ h
    · rename_i hpre
      split
      · exact hp.closeT _ h
      · exact h
      · rename_i m hm
        have hop := read_op hm
        have hne : ∀ (a b : Bytes), m = .subscribe a b ∨ m = .unsubscribe a b → f.op.toNat ≠ OP_AUTH := by
          intro a b hab
          rcases hab with rfl | rfl <;> (rw [hop]; simp only [msgOpcode]; decide)
        cases m with
        | error t => exact h
        | info n r => exact h
        | auth ident digest =>
          simp only
          split
          · exact h
          · split
            · exact pres_authenticate hp _ x _ _ _ _ hx rfl h
            · exact hp.pauseReading _ (hp.addPending _ _ _ h)
        | publish ident ch p =>
          simp only
          split
          · exact pres_errorClose hp _ h
          · split
            · exact pres_errorClose hp _ h
            · split
              · exact h
              · rename_i h1 h2 h3
                refine hpub _ _ _ _ _ hx ?_ ?_ ?_ h
                · simp only [ne_eq, Decidable.not_not] at h1; exact h1.symm
                · simpa using h2
                · simpa using h3
        | subscribe ident ch =>
          have hak : x.ak ≠ none := by
            intro hk; exact hpre ⟨hk, hne _ _ (Or.inl rfl)⟩
          simp only
          by_cases hsub : ch ∈ x.subchans
          · simp only [hsub, if_true]
            split
            · exact h
            · rename_i hreg
              exact hp.doSubscribe _ _ _ x hx (by simpa using hreg) hak (by simp [hsub]) (by simp [hsub]) h
          · simp only [hsub, if_false]
            split
            · exact pres_errorClose hp _ h
            · rename_i hreg
              obtain ⟨y, hy, hr, hs, _, hc, hk⟩ := errorClose_conn_self hx
              refine hp.doSubscribe _ _ _ y hy ?_ ?_ ?_ ?_ (pres_errorClose hp _ h)
              · rw [hr]; simpa using hreg
              · rw [hk]; exact hak
              · rw [hs]; simp [hsub]
              · intro _; exact hc
        | unsubscribe ident ch =>
          have hak : x.ak ≠ none := by
            intro hk; exact hpre ⟨hk, hne _ _ (Or.inr rfl)⟩
          simp only
          split
          · exact h
          · rename_i hreg
            exact hp.doUnsubscribe _ _ x hx (by simpa using hreg) hak h

theorem pres_loopG (hp : PresAt cfg c P) (hpub : PubPres pub c P) (s : State) (buf : Bytes) (h : P s) :
    P (loopG pub cfg c s buf).1 := by
  induction hn : buf.length using Nat.strongRecOn generalizing s buf with
  | _ n ih =>
    rw [loopG]
    split
    · exact h
    · exact hp.closeT _ h
    · rename_i ml op hh
      have hk := header_ok hh
      have hm := pres_messageReceivedG hp hpub s (popFrame buf ml op).1 h
      simp only
      split
      · exact ih _ (by simp only [popFrame, List.length_drop]; omega) _ _ hm rfl
      · exact hm

/-- one event only needs preservation by the primitives at its own target connection -/
theorem pres_stepG_at (s : State) (e : Event) (hp : ∀ c, e.target = some c → PresAt cfg c P)
    (hpub : ∀ c, e.target = some c → PubPres pub c P)
    (ht : ∀ ms, e = .advance ms → P s → P (tick s ms)) (h : P s) : P (stepG pub cfg s e) := by
  cases e with
  | connect c nonce =>
    have hp := hp c rfl
    simp only [stepG, step]
    split
    · exact h
    · rename_i hc; exact hp.addConn _ _ hc h
  | data c b =>
    have hp := hp c rfl
    have hpub := hpub c rfl
    simp only [stepG]
    split
    · exact h
    · rename_i x hx
      have := hp.setBuf _ (loopG pub cfg c s (x.buf ++ b)).2.1 (pres_loopG hp hpub s (x.buf ++ b) h)
      split
      · exact hp.crashClose _ this
      · exact this
  | eof c => exact (hp c rfl).peerClose _ h
  | lost c =>
    have hp := hp c rfl
    simp only [stepG, step]
    split
    · exact h
    · rename_i x hx
      split
      · exact h
      · rename_i hg; exact hp.lostConn _ x hx (by simpa using hg) h
  | lookupDone c i r =>
    have hp := hp c rfl
    have hpub := hpub c rfl
    simp only [stepG]
    split
    · exact h
    · rename_i x hx
      split
      · exact h
      · rename_i ident digest _
        have h0 := hp.dropPending s i h
        have hx0 : (dropPending s c i).conn c = some { x with pending := x.pending.eraseIdx i } := by
          simp [dropPending, hx]
        have ha := pres_authenticate hp (dropPending s c i) x _ ident digest r hx0 rfl h0
        split
        · have hl := hp.setBuf _ (loopG pub cfg c (authenticate cfg (dropPending s c i) c x ident digest r).1 x.buf).2.1
            (pres_loopG hp hpub _ x.buf ha)
          split
          · exact hp.closeT _ hl
          · split
            · exact hl
            · exact hp.resumeReading _ hl
        · exact ha
  | pause c => exact (hp c rfl).armDeadline _ h
  | resume c =>
    have hp := hp c rfl
    simp only [stepG, step]
    split
    · exact h
    · split
      · exact hp.clearDeadline _ _ (Or.inl rfl) h
      · exact h
  | fire c =>
    have hp := hp c rfl
    simp only [stepG, step]
    split
    · exact h
    · split
      · exact h
      · split
        · exact pres_errorClose hp _ (hp.clearDeadline _ _ (Or.inr rfl) h)
        · exact h
  | advance ms => exact ht ms rfl h


end

theorem reg_deliverF {s : State} (F : Nat → Bool) (f : Frame) (d : Nat) (h : Reg s) : Reg (deliverF F f s d) := by
  unfold deliverF
  split
  · exact h
  · split
    · exact reg_connectionLost d h
    · split
      · exact reg_closeT d h
      · exact reg_logAct d _ h

theorem reg_foldl_deliverF {s : State} (F : Nat → Bool) (f : Frame) (l : List Nat) (h : Reg s) :
    Reg (l.foldl (deliverF F f) s) := by
  induction l generalizing s with
  | nil => exact h
  | cons a l ih => exact ih (reg_deliverF F f a h)

/-- the registry invariant (registry ⇄ active sets, no stale entry, no duplicate) survives a fan-out with faults -/
theorem reg_publishF {s : State} (F : Nat → Bool) (c : Nat) (x : Conn) (i ch p : Bytes) (h : Reg s) :
    Reg (publishF F s c x i ch p) := by
  unfold publishF
  exact reg_congr (s := (s.subs ch).eraseDups.foldl (deliverF F (pubFrame i ch p)) s) rfl rfl rfl
    (reg_foldl_deliverF F _ _ h)

theorem reg_stepF (F : Nat → Bool) (cfg : Cfg) (s : State) (e : Event) (h : Reg s) : Reg (stepF F cfg s e) :=
  pres_stepG_at s e (fun c _ => (regPres cfg).prim c)
    (fun c _ s x i ch p _ _ _ _ h => reg_publishF F c x i ch p h)
    (fun ms _ h => (regPres cfg).tick _ ms h) h

/-- … hence holds after EVERY history with write faults (and a changing store) -/
theorem reg_runF (cfg : Cfg) (es : List (Store × List Nat × Event)) : Reg (runF cfg es) := by
  unfold runF
  suffices ∀ s, Reg s → Reg (es.foldl (fun s e => stepF (fun d => decide (d ∈ e.2.1)) (cfg.withStore e.1) s e.2.2) s) from
    this _ reg_init
  induction es with
  | nil => intro s h; exact h
  | cons e es ih => intro s h; exact ih _ (reg_stepF _ _ s e.2.2 h)

/-! ### the frame property of C10 under write faults

`Others c s s'` (Lemmas/BrokerFrame) relates every connection other than `c` to its old record by `OthersRel`.  Under
faults the same holds for every connection whose OWN transport takes writes; a faulty one may in addition be closed by
somebody else's publish - that is what "closes only that destination" means. -/

def OthersF (F : Nat → Bool) (c : Nat) (s s' : State) : Prop :=
  ∀ d, d ≠ c → F d = false → ∀ y, s.conn d = some y → ∃ y', s'.conn d = some y' ∧ OthersRel y y'

theorem OthersF.refl (F : Nat → Bool) (c : Nat) (s : State) : OthersF F c s s :=
  fun _ _ _ y h => ⟨y, h, OthersRel.refl y⟩

theorem OthersF.trans {F : Nat → Bool} {c : Nat} {s1 s2 s3 : State} (h1 : OthersF F c s1 s2) (h2 : OthersF F c s2 s3) :
    OthersF F c s1 s3 := by
  intro d hd hF y hy
  obtain ⟨y1, hy1, r1⟩ := h1 d hd hF y hy
  obtain ⟨y2, hy2, r2⟩ := h2 d hd hF y1 hy1
  exact ⟨y2, hy2, r1.trans r2⟩

theorem OthersF.of_others {F : Nat → Bool} {c : Nat} {s s' : State} (h : Others c s s') : OthersF F c s s' :=
  fun d hd _ y hy => h d hd y hy

theorem othersFPresAt (F : Nat → Bool) (cfg : Cfg) (c : Nat) (s0 : State) : PresAt cfg c (OthersF F c s0) where
  logAct := fun s a _ h => h.trans (.of_others (others_of_only (only_logAct s c a)))
  closeT := fun s h => h.trans (.of_others (others_of_only (only_closeT s c)))
  crashClose := fun s h => h.trans (.of_others (others_of_only (only_crashClose s c)))
  doSubscribe := fun s ch ok _ _ _ _ _ _ h => h.trans (.of_others (others_of_only (only_doSubscribe s c ch ok)))
  doUnsubscribe := fun s ch _ _ _ _ h => h.trans (.of_others (others_of_only (only_doUnsubscribe s c ch)))
  setAuth := fun s i d row _ _ _ h => h.trans (.of_others (others_of_only (only_setAuth s c i d row)))
  pauseReading := fun s h => h.trans (.of_others (others_of_only (only_pauseReading s c)))
  resumeReading := fun s h => h.trans (.of_others (others_of_only (only_resumeReading s c)))
  addPending := fun s _ _ h => h.trans (.of_others (others_of_only (only_upd s c _)))
  dropPending := fun s _ h => h.trans (.of_others (others_of_only (only_upd s c _)))
  setBuf := fun s _ h => h.trans (.of_others (others_of_only (only_upd s c _)))
  publish := fun s x i ch p _ _ _ _ h => h.trans (.of_others (fun d _ y hy => publish_othersRel s c x i ch p d y hy))
  addConn := fun s n _ h => h.trans (.of_others (others_of_only (only_addConn cfg s c n)))
  peerClose := fun s h => h.trans (.of_others (others_of_only (only_peerClose s c)))
  lostConn := fun s _ _ _ h => h.trans (.of_others (others_of_only (only_lostConn s c)))
  armDeadline := fun s h => h.trans (.of_others (others_of_only (only_armDeadline s c)))
  clearDeadline := fun s a _ h => h.trans (.of_others (others_of_only (only_clearDeadline s c a)))

/-- a fan-out with faults relates every NON-faulty record exactly as the fault-free fan-out does -/
theorem publishF_othersF (F : Nat → Bool) (s : State) (c : Nat) (x : Conn) (i ch p : Bytes) :
    OthersF F c s (publishF F s c x i ch p) := by
  intro d _ hF y hy
  have hiso : (publishF F s c x i ch p).conn d = (publish s c x i ch p).conn d :=
    foldl_deliverF_isolated F _ _ (nodup_eraseDups _) s hF
  rw [hiso]
  exact publish_othersRel s c x i ch p d y hy

/-- ONE EVENT about connection `c` (or the clock) during which the transports in `F` refuse writes: every other
    connection `d` whose own transport works keeps its record, except that OP_PUBLISH frames may be written to it if it
    is open, and it may be forgotten if it is already closing - exactly the fault-free statement (`others_step`) -/
theorem others_stepF (F : Nat → Bool) (cfg : Cfg) (s : State) (e : Event) (d : Nat) (y : Conn)
    (hd : e.target ≠ some d) (hF : F d = false) (hy : s.conn d = some y) :
    ∃ y', (stepF F cfg s e).conn d = some y' ∧ OthersRel y y' := by
  cases ht : e.target with
  | none =>
    cases e <;> simp [Event.target] at ht
    exact ⟨y, hy, OthersRel.refl y⟩
  | some c =>
    have hdc : d ≠ c := by intro h; apply hd; rw [ht, h]
    have := pres_stepG_at (cfg := cfg) (P := OthersF F c s) (pub := publishF F) s e
      (fun c' hc' => by rw [ht] at hc'; cases hc'; exact othersFPresAt F cfg c s)
      (fun c' hc' s' x i ch p _ _ _ _ h => by
        rw [ht] at hc'; cases hc'
        exact h.trans (publishF_othersF F s' c x i ch p))
      (fun ms _ h => h.trans (.of_others (others_of_only (fun _ _ => rfl))))
      (OthersF.refl F c s)
    exact this d hdc hF y hy

/-! ### the delivery invariant under write faults

`Deliv` (Lemmas/BrokerDeliv) says, for every reachable state: the PUBLISH frames written to a connection are exactly, in
order, the accepted publishes that list it as a recipient; the recipients of every accepted publish are exactly the
entitled connections.  Under faults the second clause weakens by design — a faulty destination is entitled and is not a
recipient — to `recips ⊆ entitled` (`AccOKF`); everything else is kept, in particular the delivery log of EVERY
connection, so no connection is ever written a message twice, out of order, or one that was not accepted. -/

structure AccOKF (a : Accepted) : Prop where
  nodup : a.recips.Nodup
  sub : ∀ d, d ∈ a.recips → d ∈ a.entitled
  granted : a.grantedOk = true
  ident : a.srcAk = some a.ident
  chan : a.chan ∈ a.srcPubchans

theorem AccOK.toF {a : Accepted} (h : AccOK a) : AccOKF a :=
  ⟨h.nodup, fun d hd => (h.exact d).mp hd, h.granted, h.ident, h.chan⟩

abbrev DelivF (s : State) : Prop := DelivW AccOKF s

theorem deliverF_accepted (F : Nat → Bool) (f : Frame) (s : State) (a : Nat) :
    (deliverF F f s a).accepted = s.accepted := by
  unfold deliverF
  split
  · rfl
  · split
    · exact connectionLost_accepted s a
    · split <;> rfl

theorem foldl_deliverF_accepted (F : Nat → Bool) (f : Frame) (l : List Nat) (s : State) :
    (l.foldl (deliverF F f) s).accepted = s.accepted := by
  induction l generalizing s with
  | nil => rfl
  | cons a l ih => simp only [List.foldl_cons]; rw [ih, deliverF_accepted]

/-- what the fan-out loop with faults leaves in each record: either what the fault-free loop would (`DRel`, with the
    frame appended exactly for the open subscribers whose transport took it), or - for an open subscriber whose
    transport refused - the record closed at this instant and written nothing -/
theorem foldl_deliverF_spec (F : Nat → Bool) (f : Frame) (l : List Nat) (hnd : l.Nodup) (s : State) :
    (∀ d y, s.conn d = some y → ∃ y', (l.foldl (deliverF F f) s).conn d = some y' ∧
      (DRel y y' (if d ∈ l ∧ y.closing = false ∧ F d = false then [(s.now, .write f)] else []) ∨
       (d ∈ l ∧ y.closing = false ∧ F d = true ∧
         y' = { y.beginClose with out := y.out ++ [(s.now, .close)] }))) ∧
    (∀ d, s.conn d = none → (l.foldl (deliverF F f) s).conn d = none) := by
  obtain ⟨_, _, fc, fe⟩ := foldl_deliver_spec f l hnd s
  refine ⟨fun d y hy => ?_, fun d hd => ?_⟩
  · cases hF : F d with
    | false =>
      rw [foldl_deliverF_isolated F f l hnd s hF]
      obtain ⟨y', hy', r⟩ := fc d y hy
      refine ⟨y', hy', Or.inl ?_⟩
      simpa using r
    | true =>
      by_cases hd : d ∈ l
      · rw [foldl_deliverF_conn_in F f l hnd s hd]
        by_cases hc : y.closing = true
        · -- already closing: the forced connection_lost, as without faults
          have hsame : (deliverF F f s d).conn d = (deliver f s d).conn d := by
            unfold deliverF deliver; rw [hy]; simp [hc]
          rw [hsame]
          obtain ⟨_, _, dc, _⟩ := deliver_spec f s d
          obtain ⟨y', hy', r⟩ := dc d y hy
          refine ⟨y', hy', Or.inl ?_⟩
          have : ¬ (d = d ∧ y.closing = false) := by rintro ⟨_, h⟩; rw [hc] at h; cases h
          rw [if_neg this] at r
          have h2 : ¬ (d ∈ l ∧ y.closing = false ∧ true = false) := by rintro ⟨_, _, h⟩; cases h
          rw [if_neg h2]; exact r
        · have hc' : y.closing = false := by simpa using hc
          refine ⟨_, ?_, Or.inr ⟨hd, hc', rfl, rfl⟩⟩
          simp [deliverF, hy, hc', hF, closeT]
      · rw [foldl_deliverF_conn_notin F f l s hd]
        refine ⟨y, hy, Or.inl ?_⟩
        have h2 : ¬ (d ∈ l ∧ y.closing = false ∧ true = false) := fun h => hd h.1
        rw [if_neg h2]; exact DRel.refl y
  · by_cases hdl : d ∈ l
    · rw [foldl_deliverF_conn_in F f l hnd s hdl]
      simp [deliverF, hd]
    · rw [foldl_deliverF_conn_notin F f l s hdl]; exact hd

/-- the recipients of a publish under faults, as computed by the model -/
def recipsOfF (F : Nat → Bool) (s : State) (ch : Bytes) : List Nat :=
  (s.subs ch).eraseDups.filter fun d => match s.conn d with | some y => !y.closing && !F d | none => false

theorem mem_recipsOfF {F : Nat → Bool} {s : State} {ch : Bytes} {d : Nat} (hr : Reg s) :
    d ∈ recipsOfF F s ch ↔ ∃ y, s.conn d = some y ∧ ch ∈ y.active ∧ y.closing = false ∧ F d = false := by
  unfold recipsOfF
  rw [List.mem_filter, List.mem_eraseDups, hr.sub_iff]
  constructor
  · rintro ⟨⟨y, hy, hm⟩, hc⟩
    rw [hy] at hc
    simp only [Bool.and_eq_true, Bool.not_eq_eq_eq_not, Bool.not_true] at hc
    exact ⟨y, hy, hm, hc.1, hc.2⟩
  · rintro ⟨y, hy, hm, hc, hF⟩
    exact ⟨⟨y, hy, hm⟩, by rw [hy]; simp [hc, hF]⟩

/-- `Server.publish` under write faults keeps the delivery invariant (in its fault-tolerant form) -/
theorem deliv_publishF (F : Nat → Bool) {s : State} (c : Nat) (x : Conn) (i ch p : Bytes)
    (hak : x.ak = some i) (hch : ch ∈ x.pubchans) (hr : Reg s) (h : DelivF s) :
    DelivF (publishF F s c x i ch p) := by
  obtain ⟨fc, fe⟩ := foldl_deliverF_spec F (pubFrame i ch p) (s.subs ch).eraseDups (nodup_eraseDups _) s
  have fa := foldl_deliverF_accepted F (pubFrame i ch p) (s.subs ch).eraseDups s
  unfold publishF
  simp only
  generalize hs' : (s.subs ch).eraseDups.foldl (deliverF F (pubFrame i ch p)) s = s' at fa fc fe
  have hrec : ∀ d, d ∈ recipsOfF F s ch ↔
      ∃ y, s.conn d = some y ∧ ch ∈ y.active ∧ y.closing = false ∧ F d = false := fun d => mem_recipsOfF hr
  have hclose : ∀ (y : Conn), pubFrames (y.out ++ [(s.now, Act.close)]) = pubFrames y.out :=
    fun y => pubFrames_append_nonPub _ _ _ (by intro f hf; cases hf)
  constructor
  · -- the log
    intro d y' hy'
    simp only at hy' ⊢
    cases hy : s.conn d with
    | none => rw [fe d hy] at hy'; cases hy'
    | some y =>
      obtain ⟨y2, hy2, r⟩ := fc d y hy
      rw [hy2] at hy'; cases hy'
      rw [fa, delivered_append, ← h.log d y hy]
      show _ = _ ++ (if d ∈ recipsOfF F s ch then [pubFrame i ch p] else [])
      rcases r with r | ⟨hdl, hc, hF, rfl⟩
      · rw [r.out]
        by_cases hm : d ∈ recipsOfF F s ch
        · obtain ⟨z, hz, hza, hzc, hzF⟩ := (hrec d).mp hm
          rw [hy] at hz; cases hz
          have hd : d ∈ (s.subs ch).eraseDups := by
            rw [List.mem_eraseDups, hr.sub_iff]; exact ⟨y, hy, hza⟩
          rw [if_pos ⟨hd, hzc, hzF⟩, if_pos hm, pubFrames_append_pub]
        · rw [if_neg hm]
          have : ¬ (d ∈ (s.subs ch).eraseDups ∧ y.closing = false ∧ F d = false) := by
            rintro ⟨h1, h2, h3⟩
            rw [List.mem_eraseDups, hr.sub_iff] at h1
            obtain ⟨z, hz, hza⟩ := h1
            rw [hy] at hz; cases hz
            exact hm ((hrec d).mpr ⟨y, hy, hza, h2, h3⟩)
          rw [if_neg this]; simp
      · have hm : d ∉ recipsOfF F s ch := by
          intro hm
          obtain ⟨_, _, _, _, hzF⟩ := (hrec d).mp hm
          rw [hF] at hzF; cases hzF
        rw [if_neg hm]
        show pubFrames (y.out ++ [(s.now, Act.close)]) = _
        rw [hclose]; simp
  · -- every record is still fine
    intro d y' hy'
    simp only at hy'
    cases hy : s.conn d with
    | none => rw [fe d hy] at hy'; cases hy'
    | some y =>
      obtain ⟨y2, hy2, r⟩ := fc d y hy
      rw [hy2] at hy'; cases hy'
      have k := h.conn d y hy
      rcases r with r | ⟨hdl, hc, hF, rfl⟩
      · refine ⟨fun hc => ?_, fun ch' hch' => ?_⟩
        · rw [r.closing] at hc
          rw [r.pubsAtClose, r.out]
          have : ¬ (d ∈ (s.subs ch).eraseDups ∧ y.closing = false ∧ F d = false) := by
            rintro ⟨_, h2, _⟩; rw [hc] at h2; cases h2
          rw [if_neg this, List.append_nil]; exact k.atClose hc
        · rw [r.granted, r.closing]; exact k.granted ch' (r.active ch' hch')
      · refine ⟨fun _ => ?_, fun ch' _ => Or.inr ?_⟩
        · show y.beginClose.pubsAtClose = some (pubFrames (y.out ++ [(s.now, Act.close)]))
          rw [hclose]; simp [Conn.beginClose, hc]
        · show y.beginClose.closing = true
          simp [Conn.beginClose, hc]
  · -- the accepted records
    intro a ha
    simp only at ha
    rw [fa, List.mem_append, List.mem_singleton] at ha
    rcases ha with ha | ha
    · exact h.acc a ha
    · subst ha
      refine ⟨?_, ?_, ?_, hak, hch⟩
      · exact (nodup_eraseDups _).filter _
      · intro d hd
        have hd' : d ∈ recipsOfF F s ch := hd
        obtain ⟨y, hy, hya, hyc, _⟩ := (hrec d).mp hd'
        exact (mem_entitled hr).mpr ⟨y, hy, hya, hyc⟩
      · show (recipsOfF F s ch).all _ = true
        rw [List.all_eq_true]
        intro d hd
        obtain ⟨y, hy, hya, hyc, _⟩ := (hrec d).mp hd
        rw [hy]
        rcases (h.conn d y hy).granted ch hya with hg | hg
        · simp [hg]
        · rw [hyc] at hg; cases hg
  · intro a ha d hd
    simp only at ha ⊢
    rw [fa, List.mem_append, List.mem_singleton] at ha
    have hex : ∀ d, (s.conn d).isSome = true → (s'.conn d).isSome = true := by
      intro d hd
      cases hy : s.conn d with
      | none => rw [hy] at hd; cases hd
      | some y => obtain ⟨y2, hy2, _⟩ := fc d y hy; rw [hy2]; rfl
    rcases ha with ha | ha
    · exact hex d (h.recips_exist a ha d hd)
    · subst ha
      have hd' : d ∈ recipsOfF F s ch := hd
      obtain ⟨y, hy, _, _⟩ := (hrec d).mp hd'
      exact hex d (by rw [hy]; rfl)

theorem deliv_publish_F0 {s : State} (c : Nat) (x : Conn) (i ch p : Bytes)
    (hak : x.ak = some i) (hch : ch ∈ x.pubchans) (hr : Reg s) (h : DelivF s) : DelivF (publish s c x i ch p) := by
  have := deliv_publishF (fun _ => false) c x i ch p hak hch hr h
  rwa [publishF_none] at this

/-- registry + fault-tolerant delivery invariant: preserved by every primitive of the fault-free model … -/
theorem regDelivFPres (cfg : Cfg) : Pres cfg (fun s => Reg s ∧ DelivF s) where
  prim := fun c => {
    logAct := fun _ a ha h => ⟨reg_logAct c a h.1, deliv_logAct c a ha.nonPub h.2⟩
    closeT := fun _ h => ⟨reg_closeT c h.1, deliv_closeT c h.2⟩
    crashClose := fun _ h => ⟨reg_crashClose c h.1, deliv_crashClose c h.2⟩
    doSubscribe := fun _ ch ok x hx hr _ _ b h =>
      ⟨reg_doSubscribe c ch ok x hx hr h.1, deliv_doSubscribe c ch ok x hx b h.2⟩
    doUnsubscribe := fun _ ch _ _ _ _ h => ⟨reg_doUnsubscribe c ch h.1, deliv_doUnsubscribe c ch h.2⟩
    setAuth := fun _ i d row _ _ _ h => ⟨reg_setAuth c i d row h.1, deliv_setAuth c i d row h.2⟩
    pauseReading := fun _ h => ⟨reg_pauseReading c h.1, deliv_pauseReading c h.2⟩
    resumeReading := fun _ h => ⟨reg_resumeReading c h.1, deliv_resumeReading c h.2⟩
    addPending := fun _ _ _ h => ⟨((regPres cfg).prim c).addPending _ _ _ h.1,
      deliv_local c _ (fun _ => ⟨rfl, rfl, rfl, rfl, rfl⟩) h.2⟩
    dropPending := fun _ _ h => ⟨((regPres cfg).prim c).dropPending _ _ h.1,
      deliv_local c _ (fun _ => ⟨rfl, rfl, rfl, rfl, rfl⟩) h.2⟩
    setBuf := fun _ _ h => ⟨((regPres cfg).prim c).setBuf _ _ h.1,
      deliv_local c _ (fun _ => ⟨rfl, rfl, rfl, rfl, rfl⟩) h.2⟩
    publish := fun _ x i ch p _ hak hch _ h =>
      ⟨reg_publish c x i ch p h.1, deliv_publish_F0 c x i ch p hak hch h.1 h.2⟩
    addConn := fun _ n hc h => ⟨reg_addConn c n hc h.1, deliv_addConn c n hc h.2⟩
    peerClose := fun _ h => ⟨reg_peerClose c h.1, deliv_peerClose c h.2⟩
    lostConn := fun _ x hx _ h => ⟨reg_lostConn c x hx h.1, deliv_lostConn c h.2⟩
    armDeadline := fun _ h => ⟨((regPres cfg).prim c).armDeadline _ h.1,
      deliv_logAct c _ (by intro f hf; cases hf) (deliv_local c _ (fun _ => ⟨rfl, rfl, rfl, rfl, rfl⟩) h.2)⟩
    clearDeadline := fun _ a ha h => ⟨((regPres cfg).prim c).clearDeadline _ a ha h.1,
      deliv_logAct c a (by intro f hf; rcases ha with rfl | rfl <;> cases hf)
        (deliv_local c _ (fun _ => ⟨rfl, rfl, rfl, rfl, rfl⟩) h.2)⟩ }
  tick := fun s ms h => ⟨(regPres cfg).tick s ms h.1, deliv_congr (s := s) rfl rfl h.2⟩

/-- … and by a step with write faults -/
theorem regDelivF_stepF (F : Nat → Bool) (cfg : Cfg) (s : State) (e : Event) (h : Reg s ∧ DelivF s) :
    Reg (stepF F cfg s e) ∧ DelivF (stepF F cfg s e) :=
  pres_stepG_at (P := fun s => Reg s ∧ DelivF s) s e (fun c _ => (regDelivFPres cfg).prim c)
    (fun c _ s x i ch p _ hak hch _ h => ⟨reg_publishF F c x i ch p h.1, deliv_publishF F c x i ch p hak hch h.1 h.2⟩)
    (fun ms _ h => (regDelivFPres cfg).tick _ ms h) h

theorem delivF_init : DelivF init := by
  constructor <;> simp [init]

/-- the delivery invariant after EVERY history with write faults and a changing store -/
theorem delivF_runF (cfg : Cfg) (es : List (Store × List Nat × Event)) : DelivF (runF cfg es) := by
  unfold runF
  suffices ∀ s, (Reg s ∧ DelivF s) →
      (Reg (es.foldl (fun s e => stepF (fun d => decide (d ∈ e.2.1)) (cfg.withStore e.1) s e.2.2) s) ∧
       DelivF (es.foldl (fun s e => stepF (fun d => decide (d ∈ e.2.1)) (cfg.withStore e.1) s e.2.2) s)) from
    (this _ ⟨reg_init, delivF_init⟩).2
  induction es with
  | nil => intro s h; exact h
  | cons e es ih => intro s h; exact ih _ (regDelivF_stepF _ _ s e.2.2 h)

/-! ### the gauges under write faults: a refused write only closes a transport, which moves no gauge -/

theorem gauge_deliverF {s : State} (F : Nat → Bool) (f : Frame) (d : Nat) (hr : Reg s) (h : Gauge s) :
    Gauge (deliverF F f s d) := by
  unfold deliverF
  split
  · exact h
  · split
    · exact gauge_connectionLost d hr h
    · split
      · exact gauge_closeT d h
      · exact gauge_logAct d _ h

theorem gauge_foldl_deliverF {s : State} (F : Nat → Bool) (f : Frame) (l : List Nat) (hr : Reg s) (h : Gauge s) :
    Gauge (l.foldl (deliverF F f) s) := by
  induction l generalizing s with
  | nil => exact h
  | cons a l ih => exact ih (reg_deliverF F f a hr) (gauge_deliverF F f a hr h)

theorem gauge_publishF {s : State} (F : Nat → Bool) (c : Nat) (x : Conn) (i ch p : Bytes) (hr : Reg s) (h : Gauge s) :
    Gauge (publishF F s c x i ch p) := by
  unfold publishF
  exact gauge_congr (s := (s.subs ch).eraseDups.foldl (deliverF F (pubFrame i ch p)) s) rfl rfl rfl rfl rfl rfl
    (gauge_foldl_deliverF F _ _ hr h)

theorem regGauge_stepF (F : Nat → Bool) (cfg : Cfg) (s : State) (e : Event) (h : Reg s ∧ Gauge s) :
    Reg (stepF F cfg s e) ∧ Gauge (stepF F cfg s e) :=
  pres_stepG_at (P := fun s => Reg s ∧ Gauge s) s e (fun c _ => (regGaugePres cfg).prim c)
    (fun c _ s x i ch p _ _ _ _ h => ⟨reg_publishF F c x i ch p h.1, gauge_publishF F c x i ch p h.1 h.2⟩)
    (fun ms _ h => (regGaugePres cfg).tick _ ms h) h

/-- every gauge equals reality after EVERY history with write faults and a changing store -/
theorem gauge_runF (cfg : Cfg) (es : List (Store × List Nat × Event)) : Gauge (runF cfg es) := by
  unfold runF
  suffices ∀ s, (Reg s ∧ Gauge s) →
      (Reg (es.foldl (fun s e => stepF (fun d => decide (d ∈ e.2.1)) (cfg.withStore e.1) s e.2.2) s) ∧
       Gauge (es.foldl (fun s e => stepF (fun d => decide (d ∈ e.2.1)) (cfg.withStore e.1) s e.2.2) s)) from
    (this _ ⟨reg_init, gauge_init⟩).2
  induction es with
  | nil => intro s h; exact h
  | cons e es ih => intro s h; exact ih _ (regGauge_stepF _ _ s e.2.2 h)

end Hpfeeds.Broker
