/-
  Helper lemmas about the wire model (header arithmetic, `drain`).
-/
import Hpfeeds.Model.Wire
namespace Hpfeeds
open Extracted

theorem u32_be32 (n : Nat) (h : n < 4294967296) :
    u32 (UInt8.ofNat (n / 16777216 % 256)) (UInt8.ofNat (n / 65536 % 256))
        (UInt8.ofNat (n / 256 % 256)) (UInt8.ofNat (n % 256)) = n := by
  simp only [u32, UInt8.toNat_ofNat']
  omega

theorem toSigned_of_lt {n : Nat} (h : n < 2147483648) : toSigned n = (n : Int) := by
  simp [toSigned, h]

theorem be32_length (n : Nat) : (be32 n).length = 4 := rfl

theorem enc_length (f : Frame) : (enc f).length = 5 + f.body.length := by
  simp [enc, be32_length]; omega

/-- every per-opcode limit fits the signed 32-bit length field (obligation on the extracted table) -/
theorem sizes_lt : ∀ p ∈ SIZES, p.2 < 2147483648 := by decide
theorem maxbuf_lt : MAXBUF < 2147483648 := by decide

theorem lookup_mem {k v : Nat} : ∀ {l : List (Nat × Nat)}, l.lookup k = some v → (k, v) ∈ l
  | [], h => by simp [List.lookup] at h
  | (a, b) :: t, h => by
    simp only [List.lookup] at h
    split at h
    · rename_i heq
      have : k = a := by simpa using heq
      cases h; subst this; simp
    · exact List.mem_cons_of_mem _ (lookup_mem h)

theorem limit_lt (op : Nat) : limit op < 2147483648 := by
  unfold limit
  split
  · rename_i n h
    exact sizes_lt _ (lookup_mem h)
  · exact maxbuf_lt

/-- a frame the decoder accepts: a defined opcode and a total length within that opcode's limit -/
def Frame.WF (f : Frame) : Prop :=
  OP_ERROR ≤ f.op.toNat ∧ f.op.toNat ≤ OP_UNSUBSCRIBE ∧ 5 + f.body.length ≤ limit f.op.toNat

instance (f : Frame) : Decidable f.WF := by unfold Frame.WF; exact inferInstance

theorem header_enc_append (f : Frame) (rest : Bytes) (hf : f.WF) :
    header (enc f ++ rest) = .ok (5 + f.body.length) f.op := by
  obtain ⟨h0, h1, h2⟩ := hf
  have hl := limit_lt f.op.toNat
  have hn : 5 + f.body.length < 4294967296 := by omega
  simp only [enc, be32, List.cons_append, List.nil_append, header]
  rw [u32_be32 _ hn, toSigned_of_lt (by omega)]
  simp only [List.length_cons, List.length_append]
  have : ¬ (f.op.toNat < OP_ERROR ∨ f.op.toNat > OP_UNSUBSCRIBE) := by omega
  simp only [this, if_false]
  rw [if_neg (by omega), if_neg (by omega), if_neg (by omega)]
  congr 1

theorem popFrame_enc_append (f : Frame) (rest : Bytes) :
    popFrame (enc f ++ rest) (5 + f.body.length) f.op = (f, rest) := by
  have e : 5 + f.body.length = f.body.length + 1 + 1 + 1 + 1 + 1 := by omega
  simp only [popFrame, enc, be32, List.cons_append, List.nil_append]
  rw [e]
  simp [List.drop_succ_cons]

theorem drain_enc_append (f : Frame) (rest : Bytes) (hf : f.WF) :
    drain (enc f ++ rest) = (f :: (drain rest).1, (drain rest).2.1, (drain rest).2.2) := by
  rw [drain]
  have hh := header_enc_append f rest hf
  split
  · rename_i h; rw [hh] at h; cases h
  · rename_i h; rw [hh] at h; cases h
  · rename_i ml op h
    rw [hh] at h
    injection h with h1 h2
    subst h1; subst h2
    have hp := popFrame_enc_append f rest
    simp only [popFrame] at hp ⊢
    injection hp with hp1 hp2
    simp only [hp1, hp2]

theorem header_short {a : Bytes} (h : a.length < 5) : header a = .wait := by
  match a, h with
  | [], _ => rfl
  | [_], _ => rfl
  | [_,_], _ => rfl
  | [_,_,_], _ => rfl
  | [_,_,_,_], _ => rfl
  | _::_::_::_::_::_, h => simp at h; omega

theorem header_append_ok {a b : Bytes} {ml : Nat} {op : UInt8} (h : header a = .ok ml op) :
    header (a ++ b) = .ok ml op := by
  match a, h with
  | b0 :: b1 :: b2 :: b3 :: o :: t, h =>
    simp only [header, List.cons_append, List.length_cons, List.length_append] at h ⊢
    split at h; · cases h
    split at h; · cases h
    split at h; · cases h
    split at h; · cases h
    rename_i h1 h2 h3 h4
    rw [if_neg h1, if_neg h2, if_neg h3, if_neg (by omega)]
    exact h
  | [], h | [_], h | [_,_], h | [_,_,_], h | [_,_,_,_], h => simp [header] at h

theorem header_append_bad {a b : Bytes} {e : Err} (h : header a = .bad e) :
    header (a ++ b) = .bad e := by
  match a, h with
  | b0 :: b1 :: b2 :: b3 :: o :: t, h =>
    simp only [header, List.cons_append, List.length_cons, List.length_append] at h ⊢
    split at h
    · rename_i h1; rw [if_pos h1]; exact h
    rename_i h1; rw [if_neg h1]
    split at h
    · rename_i h2; rw [if_pos h2]; exact h
    rename_i h2; rw [if_neg h2]
    split at h
    · rename_i h3; rw [if_pos h3]; exact h
    split at h <;> cases h
  | [], h | [_], h | [_,_], h | [_,_,_], h | [_,_,_,_], h => simp [header] at h

theorem be32_u32 (b0 b1 b2 b3 : UInt8) : be32 (u32 b0 b1 b2 b3) = [b0, b1, b2, b3] := by
  have h0 := b0.toNat_lt; have h1 := b1.toNat_lt; have h2 := b2.toNat_lt; have h3 := b3.toNat_lt
  simp only [be32, u32]
  have e0 : (b0.toNat * 16777216 + b1.toNat * 65536 + b2.toNat * 256 + b3.toNat) / 16777216 % 256 = b0.toNat := by omega
  have e1 : (b0.toNat * 16777216 + b1.toNat * 65536 + b2.toNat * 256 + b3.toNat) / 65536 % 256 = b1.toNat := by omega
  have e2 : (b0.toNat * 16777216 + b1.toNat * 65536 + b2.toNat * 256 + b3.toNat) / 256 % 256 = b2.toNat := by omega
  have e3 : (b0.toNat * 16777216 + b1.toNat * 65536 + b2.toNat * 256 + b3.toNat) % 256 = b3.toNat := by omega
  rw [e0, e1, e2, e3]
  simp

/-- what a successful `ready()` means: the buffer starts with the encoding of a well-formed frame -/
theorem header_ok_spec {buf : Bytes} {ml : Nat} {op : UInt8} (h : header buf = .ok ml op) :
    (popFrame buf ml op).1.WF ∧ enc (popFrame buf ml op).1 ++ (popFrame buf ml op).2 = buf ∧
    (enc (popFrame buf ml op).1).length = ml := by
  match buf, h with
  | b0 :: b1 :: b2 :: b3 :: o :: t, h =>
    simp only [header, List.length_cons] at h
    split at h; · cases h
    split at h; · cases h
    split at h; · cases h
    split at h; · cases h
    rename_i h1 h2 h3 h4
    injection h with hml hop
    subst hop
    have hu : u32 b0 b1 b2 b3 < 4294967296 := by
      have h0 := b0.toNat_lt; have h1 := b1.toNat_lt; have h2 := b2.toNat_lt; have h3 := b3.toNat_lt
      simp only [u32]; omega
    have hs : toSigned (u32 b0 b1 b2 b3) = (ml : Int) := by omega
    have hml5 : 5 ≤ ml := by omega
    have hlen : ml - 5 ≤ t.length := by omega
    have hu2 : u32 b0 b1 b2 b3 = ml := by
      unfold toSigned at hs; split at hs <;> omega
    have hbody : (List.take (ml - 5) t).length = ml - 5 := by simp; omega
    refine ⟨?_, ?_, ?_⟩
    · simp only [popFrame, Frame.WF, List.drop_succ_cons, List.drop_zero, hbody]
      omega
    · simp only [popFrame, enc, List.drop_succ_cons, List.drop_zero, hbody]
      have : 5 + (ml - 5) = ml := by omega
      rw [this, ← hu2, be32_u32, hu2]
      obtain ⟨k, rfl⟩ : ∃ k, ml = k + 5 := ⟨ml - 5, by omega⟩
      simp [List.drop_succ_cons]
    · simp only [popFrame, enc_length, List.drop_succ_cons, List.drop_zero, hbody]; omega
  | [], h | [_], h | [_,_], h | [_,_,_], h | [_,_,_,_], h => simp [header] at h

theorem drain_wait {buf : Bytes} (h : header buf = .wait) : drain buf = ([], buf, none) := by
  rw [drain]; split <;> simp_all

theorem drain_bad {buf : Bytes} {e : Err} (h : header buf = .bad e) : drain buf = ([], buf, some e) := by
  rw [drain]; split <;> simp_all

theorem drain_ok {buf : Bytes} {ml : Nat} {op : UInt8} (h : header buf = .ok ml op) :
    drain buf = ((popFrame buf ml op).1 :: (drain (buf.drop ml)).1, (drain (buf.drop ml)).2.1,
      (drain (buf.drop ml)).2.2) := by
  rw [drain]; split
  · simp_all
  · simp_all
  · rename_i ml' op' h'
    rw [h] at h'; injection h' with h1 h2; subst h1; subst h2; rfl

/-- what `drain` returns, for every buffer: the frames are well-formed, frames ++ rest re-assemble the
    input exactly, and the rest starts with an incomplete header/frame (no error) or with the
    offending header (error) -/
theorem drain_spec (buf : Bytes) :
    buf = (drain buf).1.flatMap enc ++ (drain buf).2.1 ∧ (∀ f ∈ (drain buf).1, f.WF) ∧
    (match (drain buf).2.2 with
     | none => header (drain buf).2.1 = .wait
     | some e => header (drain buf).2.1 = .bad e) := by
  induction h : buf.length using Nat.strongRecOn generalizing buf with
  | _ n ih =>
    cases hh : header buf with
    | wait => rw [drain_wait hh]; simp [hh]
    | bad e => rw [drain_bad hh]; simp [hh]
    | ok ml op =>
      rw [drain_ok hh]
      have hk := header_ok hh
      have hs := header_ok_spec hh
      have := ih (buf.drop ml).length (by simp; omega) (buf.drop ml) rfl
      obtain ⟨i1, i2, i3⟩ := this
      refine ⟨?_, ?_, i3⟩
      · simp only [List.flatMap_cons, List.append_assoc]
        rw [← i1]
        exact hs.2.1.symm
      · intro f hf
        simp only [List.mem_cons] at hf
        rcases hf with rfl | hf
        · exact hs.1
        · exact i2 f hf

/-- feeding more bytes behind a buffer that was drained without error: the frames already yielded are
    unchanged and decoding continues from the left-over bytes -/
theorem drain_append (a b : Bytes) (h : (drain a).2.2 = none) :
    drain (a ++ b) = ((drain a).1 ++ (drain ((drain a).2.1 ++ b)).1,
                      (drain ((drain a).2.1 ++ b)).2.1, (drain ((drain a).2.1 ++ b)).2.2) := by
  induction hn : a.length using Nat.strongRecOn generalizing a with
  | _ n ih =>
    cases hh : header a with
    | wait => rw [drain_wait hh]; simp
    | bad e => rw [drain_bad hh] at h; simp at h
    | ok ml op =>
      have hk := header_ok hh
      rw [drain_ok hh] at h ⊢
      rw [drain_ok (header_append_ok hh)]
      have hd : (a ++ b).drop ml = a.drop ml ++ b := by
        rw [List.drop_append_of_le_length hk.2]
      have hp : (popFrame (a ++ b) ml op).1 = (popFrame a ml op).1 := by
        simp only [popFrame]
        congr 1
        rw [List.drop_append_of_le_length (by omega)]
        rw [List.take_append_of_le_length (by simp; omega)]
      rw [hd, hp]
      have := ih (a.drop ml).length (by simp; omega) (a.drop ml) h rfl
      rw [this]
      simp

theorem drain_append_err (a b : Bytes) {e : Err} (h : (drain a).2.2 = some e) :
    drain (a ++ b) = ((drain a).1, (drain a).2.1 ++ b, some e) := by
  induction hn : a.length using Nat.strongRecOn generalizing a with
  | _ n ih =>
    cases hh : header a with
    | wait => rw [drain_wait hh] at h; simp at h
    | bad e' =>
      rw [drain_bad hh] at h ⊢
      simp at h; subst h
      rw [drain_bad (header_append_bad hh)]
    | ok ml op =>
      have hk := header_ok hh
      rw [drain_ok hh] at h ⊢
      rw [drain_ok (header_append_ok hh)]
      have hd : (a ++ b).drop ml = a.drop ml ++ b := by
        rw [List.drop_append_of_le_length hk.2]
      have hp : (popFrame (a ++ b) ml op).1 = (popFrame a ml op).1 := by
        simp only [popFrame]
        congr 1
        rw [List.drop_append_of_le_length (by omega)]
        rw [List.take_append_of_le_length (by simp; omega)]
      rw [hd, hp]
      have := ih (a.drop ml).length (by simp; omega) (a.drop ml) h rfl
      rw [this]

/-- chunking independence, general form (errors included): starting from a drained buffer, the frames
    yielded and the error raised over any chunk list are those of draining the concatenation once;
    without an error the left-over bytes agree too -/
theorem feedAll_eq_drain (buf : Bytes) (cs : List Bytes) (hb : header buf = .wait) :
    (feedAll buf cs).1 = (drain (buf ++ cs.flatten)).1 ∧
    (feedAll buf cs).2.2 = (drain (buf ++ cs.flatten)).2.2 ∧
    ((feedAll buf cs).2.2 = none → (feedAll buf cs).2.1 = (drain (buf ++ cs.flatten)).2.1) := by
  induction cs generalizing buf with
  | nil =>
    simp only [feedAll, List.flatten_nil, List.append_nil]
    rw [drain_wait hb]; simp
  | cons c cs ih =>
    simp only [feedAll, List.flatten_cons]
    rw [← List.append_assoc]
    cases he : (drain (buf ++ c)).2.2 with
    | some e =>
      simp only
      rw [drain_append_err _ _ he]
      simp
    | none =>
      simp only
      have hs := (drain_spec (buf ++ c)).2.2
      rw [he] at hs
      simp only at hs
      obtain ⟨i1, i2, i3⟩ := ih _ hs
      rw [drain_append _ _ he]
      simp only
      exact ⟨by rw [i1], i2, i3⟩

theorem drain_frames (fs : List Frame) (t : Bytes) (hf : ∀ f ∈ fs, f.WF) :
    drain (fs.flatMap enc ++ t) = (fs ++ (drain t).1, (drain t).2.1, (drain t).2.2) := by
  induction fs with
  | nil => simp
  | cons f fs ih =>
    simp only [List.flatMap_cons, List.append_assoc]
    rw [drain_enc_append f _ (hf f (by simp))]
    rw [ih (fun g hg => hf g (by simp [hg]))]
    simp

/-- the verdict on a complete header depends on its five bytes only -/
theorem header_bad_five (b0 b1 b2 b3 op : UInt8) (x : Bytes) (e : Err) :
    header (b0 :: b1 :: b2 :: b3 :: op :: x) = .bad e ↔ header [b0, b1, b2, b3, op] = .bad e := by
  constructor
  · intro h
    simp only [header, List.length_cons] at h ⊢
    split at h
    · rename_i h1; rw [if_pos h1]; exact h
    rename_i h1; rw [if_neg h1]
    split at h
    · rename_i h2; rw [if_pos h2]; exact h
    rename_i h2; rw [if_neg h2]
    split at h
    · rename_i h3; rw [if_pos h3]; exact h
    split at h <;> cases h
  · intro h
    exact header_append_bad (b := x) h

/-- exactly which complete headers are rejected -/
theorem header_bad_iff (b0 b1 b2 b3 op : UInt8) (x : Bytes) :
    (∃ e, header (b0 :: b1 :: b2 :: b3 :: op :: x) = .bad e) ↔
      (op.toNat < OP_ERROR ∨ op.toNat > OP_UNSUBSCRIBE) ∨
      toSigned (u32 b0 b1 b2 b3) > (limit op.toNat : Int) ∨ toSigned (u32 b0 b1 b2 b3) < 5 := by
  simp only [header, List.length_cons]
  constructor
  · rintro ⟨e, h⟩
    split at h; · left; assumption
    split at h; · right; left; assumption
    split at h; · right; right; assumption
    split at h <;> cases h
  · intro h
    by_cases h1 : (op.toNat < OP_ERROR ∨ op.toNat > OP_UNSUBSCRIBE)
    · exact ⟨_, by rw [if_pos h1]⟩
    rw [if_neg h1]
    by_cases h2 : toSigned (u32 b0 b1 b2 b3) > (limit op.toNat : Int)
    · exact ⟨_, by rw [if_pos h2]⟩
    rw [if_neg h2]
    by_cases h3 : toSigned (u32 b0 b1 b2 b3) < 5
    · exact ⟨_, by rw [if_pos h3]⟩
    · rcases h with h | h | h <;> contradiction

/-- all per-opcode limits are at most one maximal frame (obligation on the extracted table) -/
theorem sizes_le : ∀ p ∈ SIZES, p.2 ≤ 5 + MAXBUF := by decide

theorem limit_le (op : Nat) : limit op ≤ 5 + MAXBUF := by
  unfold limit
  split
  · rename_i n h; exact sizes_le _ (lookup_mem h)
  · omega

/-- a buffer on which the decoder waits holds less than one maximal frame -/
theorem wait_bounded {r : Bytes} (h : header r = .wait) : r.length < 5 + MAXBUF := by
  match r, h with
  | b0 :: b1 :: b2 :: b3 :: o :: t, h =>
    simp only [header, List.length_cons] at h
    split at h; · cases h
    split at h; · cases h
    split at h; · cases h
    split at h
    · rename_i h1 h2 h3 h4
      have := limit_le o.toNat
      simp only [List.length_cons]
      omega
    · cases h
  | [], _ | [_], _ | [_,_], _ | [_,_,_], _ | [_,_,_,_], _ =>
    simp [MAXBUF]

/-- a strict prefix of a well-formed frame's encoding is an incomplete frame -/
theorem header_prefix_wait (f : Frame) (hf : f.WF) (u v : Bytes) (huv : u ++ v = enc f) (hv : v ≠ []) :
    header u = .wait := by
  by_cases hs : u.length < 5
  · exact header_short hs
  · have hlen : u.length + v.length = 5 + f.body.length := by
      rw [← List.length_append, huv, enc_length]
    have hvl : 0 < v.length := List.length_pos_iff.mpr hv
    cases hu : header u with
    | wait => rfl
    | bad e =>
      have := header_append_bad (b := v) hu
      rw [huv, ← List.append_nil (enc f), header_enc_append f [] hf] at this
      cases this
    | ok ml op =>
      have h1 := header_append_ok (b := v) hu
      rw [huv, ← List.append_nil (enc f), header_enc_append f [] hf] at h1
      injection h1 with h1 h2
      have := (header_ok hu).2
      omega

end Hpfeeds
