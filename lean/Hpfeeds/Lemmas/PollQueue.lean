/-
  The select()-able queue: invariant over every interleaving of the half-steps of put and get.
-/
import Hpfeeds.Model.PollQueue
namespace Hpfeeds.PollQueue

structure Inv {α : Type} (s : State α) : Prop where
  count : s.items.length = s.wake + s.midPut + s.midGet
  fifo : s.deqLog ++ s.items = s.enqLog
  noErr : s.emptyErr = 0

theorem inv_init {α : Type} : Inv ({} : State α) := ⟨rfl, rfl, rfl⟩

theorem inv_step {α : Type} {s s' : State α} (e : Ev α) (h : Inv s) (hs : step s e = some s') : Inv s' := by
  obtain ⟨hc, hf, hn⟩ := h
  cases e with
  | enq x =>
    simp only [step, Option.some.injEq] at hs; subst hs
    exact ⟨by simp; omega, by simp [← hf], hn⟩
  | wake =>
    simp only [step] at hs
    split at hs
    · cases hs
    · simp only [Option.some.injEq] at hs; subst hs
      exact ⟨by simp; omega, hf, hn⟩
  | recv =>
    simp only [step] at hs
    split at hs
    · cases hs
    · simp only [Option.some.injEq] at hs; subst hs
      exact ⟨by simp; omega, hf, hn⟩
  | deq =>
    simp only [step] at hs
    split at hs
    · cases hs
    · rename_i hg
      split at hs
      · rename_i hi
        rw [hi] at hc; simp at hc; omega
      · rename_i x r hi
        simp only [Option.some.injEq] at hs; subst hs
        rw [hi] at hc hf
        exact ⟨by simp at hc ⊢; omega, by simp [← hf], hn⟩

theorem inv_run {α : Type} (s : State α) (es : List (Ev α)) (h : Inv s) : Inv (run s es) := by
  induction es generalizing s with
  | nil => exact h
  | cons e es ih =>
    simp only [run, List.foldl_cons]
    apply ih
    cases hs : step s e with
    | none => simpa using h
    | some s' => simpa using inv_step e h hs

end Hpfeeds.PollQueue
