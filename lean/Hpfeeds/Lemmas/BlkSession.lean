/-
  Blocking reactor + thread session: invariants over ALL event sequences (any interleaving of the
  reactor's rounds, the network and the three steps of every application thread's write).
-/
import Hpfeeds.Model.BlkSession
import Hpfeeds.Lemmas.Wire
namespace Hpfeeds.BlkSession
open Hpfeeds Extracted

/-! ### what each primitive does to the write-path fields -/

/-- the fields no reactor-side primitive may touch behind the application's back -/
structure SameApp (s s' : State) : Prop where
  gen : s'.gen = s.gen
  thr : s'.thr = s.thr
  mid : s'.mid = s.mid
  subs : s'.subs = s.subs
  handed : s'.handed = s.handed

theorem SameApp.refl (s : State) : SameApp s s := ⟨rfl, rfl, rfl, rfl, rfl⟩
theorem SameApp.trans {a b c : State} (h1 : SameApp a b) (h2 : SameApp b c) : SameApp a c :=
  ⟨h2.gen.trans h1.gen, h2.thr.trans h1.thr, h2.mid.trans h1.mid, h2.subs.trans h1.subs, h2.handed.trans h1.handed⟩

/-- write-path invariant (C20): everything put into the connection's outbox is, in queue order, what the
    socket accepted, then the reactor's buffer, then what is still queued -/
structure WInv (s : State) : Prop where
  bytes : s.wire ++ s.buffer ++ s.items.flatten = s.enq.flatten

/-- wake-up byte accounting of the current outbox, tied to the application threads that are between the
    two halves of a put on it -/
structure QInv (s : State) : Prop where
  count : s.items.length = s.wake + s.mid
  mids : ∃ S : List Nat, S.Nodup ∧ (∀ t, t ∈ S ↔ s.thr t = .midPut s.gen) ∧ s.mid = S.length
  gens : ∀ t, (∀ g, s.thr t = .midPut g → g ≤ s.gen) ∧ (∀ g f, s.thr t = .captured g f → g ≤ s.gen)

theorem winv_rwrite {s : State} (f : Bytes) (h : WInv s) : WInv (rwrite s f) := by
  constructor
  simp only [rwrite, List.flatten_append, List.flatten_cons, List.flatten_nil, List.append_nil]
  rw [← h.bytes]; simp

theorem qinv_rwrite {s : State} (f : Bytes) (h : QInv s) : QInv (rwrite s f) := by
  refine ⟨?_, h.mids, h.gens⟩
  simp only [rwrite, List.length_append, List.length_cons, List.length_nil]
  have := h.count; omega

theorem sameApp_rwrite (s : State) (f : Bytes) : SameApp s (rwrite s f) := ⟨rfl, rfl, rfl, rfl, rfl⟩

theorem winv_rwriteAll {s : State} (fs : List Bytes) (h : WInv s) : WInv (rwriteAll s fs) := by
  induction fs generalizing s with
  | nil => exact h
  | cons f fs ih => exact ih (winv_rwrite f h)

theorem qinv_rwriteAll {s : State} (fs : List Bytes) (h : QInv s) : QInv (rwriteAll s fs) := by
  induction fs generalizing s with
  | nil => exact h
  | cons f fs ih => exact ih (qinv_rwrite f h)

theorem sameApp_rwriteAll (s : State) (fs : List Bytes) : SameApp s (rwriteAll s fs) := by
  induction fs generalizing s with
  | nil => exact SameApp.refl s
  | cons f fs ih => exact (sameApp_rwrite s f).trans (ih (rwrite s f))

theorem wake_rwrite (s : State) (f : Bytes) : s.wake ≤ (rwrite s f).wake := by simp [rwrite]
theorem wake_rwriteAll (s : State) (fs : List Bytes) : s.wake ≤ (rwriteAll s fs).wake := by
  induction fs generalizing s with
  | nil => exact Nat.le_refl _
  | cons f fs ih => exact Nat.le_trans (wake_rwrite s f) (ih (rwrite s f))

/-- fields of the write path that only `rwrite` touches on the receive side -/
structure SameW (s s' : State) : Prop where
  items : s'.items = s.items
  wake : s'.wake = s.wake
  buffer : s'.buffer = s.buffer
  wire : s'.wire = s.wire
  enq : s'.enq = s.enq

theorem winv_of_sameW {s s' : State} (h : WInv s) (k : SameW s s') : WInv s' :=
  ⟨by rw [k.wire, k.buffer, k.items, k.enq]; exact h.bytes⟩

theorem qinv_of_same {s s' : State} (h : QInv s) (k : SameW s s') (a : SameApp s s') : QInv s' := by
  refine ⟨by rw [k.items, k.wake, a.mid]; exact h.count, ?_, ?_⟩
  · rw [a.thr, a.gen, a.mid]; exact h.mids
  · rw [a.thr, a.gen]; exact h.gens

theorem sameW_closeSock (s : State) : SameW s (closeSock s).1 ∧ SameApp s (closeSock s).1 := by
  unfold closeSock; split
  · exact ⟨⟨rfl, rfl, rfl, rfl, rfl⟩, SameApp.refl s⟩
  · exact ⟨⟨rfl, rfl, rfl, rfl, rfl⟩, ⟨rfl, rfl, rfl, rfl, rfl⟩⟩

theorem sameW_noteFrame (s : State) (f : Frame) : SameW s (noteFrame s f) ∧ SameApp s (noteFrame s f) :=
  ⟨⟨rfl, rfl, rfl, rfl, rfl⟩, ⟨rfl, rfl, rfl, rfl, rfl⟩⟩

theorem onInfo_w (cfg : Cfg) (s : State) (rand : Bytes) :
    (WInv s → WInv (onInfo cfg s rand)) ∧ (QInv s → QInv (onInfo cfg s rand)) ∧
    SameApp s (onInfo cfg s rand) ∧ s.wake ≤ (onInfo cfg s rand).wake := by
  unfold onInfo
  refine ⟨fun h => winv_rwriteAll _ ?_, fun h => qinv_rwriteAll _ ?_, ?_, ?_⟩
  · exact winv_of_sameW (winv_rwrite (authFrame cfg rand) h) ⟨rfl, rfl, rfl, rfl, rfl⟩
  · exact qinv_of_same (qinv_rwrite (authFrame cfg rand) h) ⟨rfl, rfl, rfl, rfl, rfl⟩ ⟨rfl, rfl, rfl, rfl, rfl⟩
  · exact (sameApp_rwrite s (authFrame cfg rand)).trans
      (SameApp.trans (b := markReady (rwrite s (authFrame cfg rand)) rand) ⟨rfl, rfl, rfl, rfl, rfl⟩ (sameApp_rwriteAll _ _))
  · exact Nat.le_trans (wake_rwrite s (authFrame cfg rand)) (wake_rwriteAll (markReady (rwrite s (authFrame cfg rand)) rand) _)

/-- the three write-path facts about one dispatched frame -/
theorem onFrame_w (cfg : Cfg) (s : State) (f : Frame) :
    (WInv s → WInv (onFrame cfg s f).1) ∧ (QInv s → QInv (onFrame cfg s f).1) ∧
    SameApp s (onFrame cfg s f).1 ∧ s.wake ≤ (onFrame cfg s f).1.wake := by
  unfold onFrame
  have hc := sameW_closeSock s
  have closeCase : (WInv s → WInv (closeSock s).1) ∧ (QInv s → QInv (closeSock s).1) ∧
      SameApp s (closeSock s).1 ∧ s.wake ≤ (closeSock s).1.wake :=
    ⟨fun h => winv_of_sameW h hc.1, fun h => qinv_of_same h hc.1 hc.2, hc.2, by rw [hc.1.wake]; exact Nat.le_refl _⟩
  cases read f with
  | none => exact closeCase
  | some r =>
    cases r with
    | error c => exact ⟨id, id, SameApp.refl s, Nat.le_refl _⟩
    | ok m =>
      cases m with
      | error t => exact ⟨id, id, SameApp.refl s, Nat.le_refl _⟩
      | info n rand => exact onInfo_w cfg s rand
      | auth i d => exact closeCase
      | subscribe i c => exact closeCase
      | unsubscribe i c => exact closeCase
      | publish i c p =>
        exact ⟨fun h => winv_of_sameW h ⟨rfl, rfl, rfl, rfl, rfl⟩,
          fun h => qinv_of_same h ⟨rfl, rfl, rfl, rfl, rfl⟩ ⟨rfl, rfl, rfl, rfl, rfl⟩, ⟨rfl, rfl, rfl, rfl, rfl⟩, Nat.le_refl _⟩

theorem dispatch_w (cfg : Cfg) (s : State) (fs : List Frame) :
    (WInv s → WInv (dispatch cfg s fs).1) ∧ (QInv s → QInv (dispatch cfg s fs).1) ∧
    SameApp s (dispatch cfg s fs).1 ∧ s.wake ≤ (dispatch cfg s fs).1.wake := by
  induction fs generalizing s with
  | nil => exact ⟨id, id, SameApp.refl s, Nat.le_refl _⟩
  | cons f fs ih =>
    simp only [dispatch]
    have hn := sameW_noteFrame s f
    have h1 := onFrame_w cfg (noteFrame s f) f
    have step1 : (WInv s → WInv (onFrame cfg (noteFrame s f) f).1) ∧ (QInv s → QInv (onFrame cfg (noteFrame s f) f).1) ∧
        SameApp s (onFrame cfg (noteFrame s f) f).1 ∧ s.wake ≤ (onFrame cfg (noteFrame s f) f).1.wake :=
      ⟨fun h => h1.1 (winv_of_sameW h hn.1), fun h => h1.2.1 (qinv_of_same h hn.1 hn.2),
       hn.2.trans h1.2.2.1, by have := h1.2.2.2; rw [hn.1.wake] at this; exact this⟩
    split
    · exact step1
    · have h2 := ih (onFrame cfg (noteFrame s f) f).1
      exact ⟨fun h => h2.1 (step1.1 h), fun h => h2.2.1 (step1.2.1 h), step1.2.2.1.trans h2.2.2.1,
        Nat.le_trans step1.2.2.2 h2.2.2.2⟩

theorem dataReceived_w (cfg : Cfg) (s : State) (c : Bytes) :
    (WInv s → WInv (dataReceived cfg s c).1) ∧ (QInv s → QInv (dataReceived cfg s c).1) ∧
    SameApp s (dataReceived cfg s c).1 ∧ s.wake ≤ (dataReceived cfg s c).1.wake := by
  unfold dataReceived
  simp only
  have h0 : SameW s { s with inbound := s.inbound ++ c } ∧ SameApp s { s with inbound := s.inbound ++ c } :=
    ⟨⟨rfl, rfl, rfl, rfl, rfl⟩, ⟨rfl, rfl, rfl, rfl, rfl⟩⟩
  have h1 := dispatch_w cfg { s with inbound := s.inbound ++ c } (drain (s.ubuf ++ c)).1
  generalize dispatch cfg { s with inbound := s.inbound ++ c } (drain (s.ubuf ++ c)).1 = r at h1 ⊢
  have base : (WInv s → WInv r.1) ∧ (QInv s → QInv r.1) ∧ SameApp s r.1 ∧ s.wake ≤ r.1.wake :=
    ⟨fun h => h1.1 (winv_of_sameW h h0.1), fun h => h1.2.1 (qinv_of_same h h0.1 h0.2), h0.2.trans h1.2.2.1, h1.2.2.2⟩
  split
  · exact ⟨fun h => winv_of_sameW (base.1 h) ⟨rfl, rfl, rfl, rfl, rfl⟩,
      fun h => qinv_of_same (base.2.1 h) ⟨rfl, rfl, rfl, rfl, rfl⟩ ⟨rfl, rfl, rfl, rfl, rfl⟩,
      ⟨base.2.2.1.gen, base.2.2.1.thr, base.2.2.1.mid, base.2.2.1.subs, base.2.2.1.handed⟩, base.2.2.2⟩
  · split
    · exact ⟨fun h => winv_of_sameW (base.1 h) ⟨rfl, rfl, rfl, rfl, rfl⟩,
        fun h => qinv_of_same (base.2.1 h) ⟨rfl, rfl, rfl, rfl, rfl⟩ ⟨rfl, rfl, rfl, rfl, rfl⟩,
        ⟨base.2.2.1.gen, base.2.2.1.thr, base.2.2.1.mid, base.2.2.1.subs, base.2.2.1.handed⟩, base.2.2.2⟩
    · have hc := sameW_closeSock { r.1 with ubuf := (drain (s.ubuf ++ c)).2.1 }
      have hu : SameW r.1 { r.1 with ubuf := (drain (s.ubuf ++ c)).2.1 } ∧ SameApp r.1 { r.1 with ubuf := (drain (s.ubuf ++ c)).2.1 } :=
        ⟨⟨rfl, rfl, rfl, rfl, rfl⟩, ⟨rfl, rfl, rfl, rfl, rfl⟩⟩
      exact ⟨fun h => winv_of_sameW (winv_of_sameW (base.1 h) hu.1) hc.1,
        fun h => qinv_of_same (qinv_of_same (base.2.1 h) hu.1 hu.2) hc.1 hc.2,
        base.2.2.1.trans (hu.2.trans hc.2), by rw [hc.1.wake]; exact base.2.2.2⟩

theorem connectionLost_w (s : State) :
    SameW s (connectionLost s).1 ∧ SameApp s (connectionLost s).1 :=
  ⟨⟨rfl, rfl, rfl, rfl, rfl⟩, ⟨rfl, rfl, rfl, rfl, rfl⟩⟩

theorem writeReady_w (s : State) (o : Send) :
    (WInv s → WInv (writeReady s o).1) ∧ (QInv s → QInv (writeReady s o).1) ∧ SameApp s (writeReady s o).1 := by
  unfold writeReady
  split
  · exact ⟨fun h => winv_of_sameW h ⟨rfl, rfl, rfl, rfl, rfl⟩, fun h => qinv_of_same h ⟨rfl, rfl, rfl, rfl, rfl⟩ ⟨rfl, rfl, rfl, rfl, rfl⟩,
      ⟨rfl, rfl, rfl, rfl, rfl⟩⟩
  · cases o with
    | again => exact ⟨id, id, SameApp.refl s⟩
    | accept n =>
      simp only
      split
      · have := connectionLost_w s
        exact ⟨fun h => winv_of_sameW h this.1, fun h => qinv_of_same h this.1 this.2, this.2⟩
      · refine ⟨fun h => ⟨?_⟩, fun h => ⟨h.count, h.mids, h.gens⟩, ⟨rfl, rfl, rfl, rfl, rfl⟩⟩
        simp only
        rw [← h.bytes]
        simp only [List.append_assoc]
        rw [← List.append_assoc (List.take _ _), List.take_append_drop]

theorem outboxReady_w (s : State) (o : Send) (hw : 0 < s.wake) :
    (WInv s → WInv (outboxReady s o).1) ∧ (QInv s → QInv (outboxReady s o).1) ∧ SameApp s (outboxReady s o).1 := by
  unfold outboxReady
  cases hi : s.items with
  | nil => exact ⟨id, id, SameApp.refl s⟩
  | cons f r =>
    simp only
    have h1 := writeReady_w { s with items := r, wake := s.wake - 1, buffer := s.buffer ++ f } o
    refine ⟨fun h => h1.1 ⟨?_⟩, fun h => h1.2.1 ⟨?_, h.mids, h.gens⟩,
      ⟨h1.2.2.gen, h1.2.2.thr, h1.2.2.mid, h1.2.2.subs, h1.2.2.handed⟩⟩
    · simp only
      rw [← h.bytes, hi]; simp
    · have := h.count; rw [hi] at this; simp at this ⊢; omega

theorem readPhase_w (cfg : Cfg) (s : State) :
    (WInv s → WInv (readPhase cfg s).1) ∧ (QInv s → QInv (readPhase cfg s).1) ∧
    SameApp s (readPhase cfg s).1 ∧ s.wake ≤ (readPhase cfg s).1.wake := by
  unfold readPhase
  cases hp : s.pendingIn with
  | nil =>
    simp only
    split
    · have := connectionLost_w s
      exact ⟨fun h => winv_of_sameW h this.1, fun h => qinv_of_same h this.1 this.2, this.2, by simp [connectionLost]⟩
    · exact ⟨id, id, SameApp.refl s, Nat.le_refl _⟩
  | cons c cs =>
    simp only
    have h1 := dataReceived_w cfg { s with pendingIn := if c.length ≤ REACTOR_RECV then cs else c.drop REACTOR_RECV :: cs } (c.take REACTOR_RECV)
    exact ⟨fun h => h1.1 (winv_of_sameW h ⟨rfl, rfl, rfl, rfl, rfl⟩),
      fun h => h1.2.1 (qinv_of_same h ⟨rfl, rfl, rfl, rfl, rfl⟩ ⟨rfl, rfl, rfl, rfl, rfl⟩),
      ⟨h1.2.2.1.gen, h1.2.2.1.thr, h1.2.2.1.mid, h1.2.2.1.subs, h1.2.2.1.handed⟩, h1.2.2.2⟩

theorem select_w (cfg : Cfg) (s : State) (o : Send) :
    (WInv s → WInv (select cfg s o).1) ∧ (QInv s → QInv (select cfg s o).1) ∧ SameApp s (select cfg s o).1 := by
  unfold select
  split
  · exact ⟨fun h => winv_of_sameW h ⟨rfl, rfl, rfl, rfl, rfl⟩, fun h => qinv_of_same h ⟨rfl, rfl, rfl, rfl, rfl⟩ ⟨rfl, rfl, rfl, rfl, rfl⟩,
      ⟨rfl, rfl, rfl, rfl, rfl⟩⟩
  · simp only
    split
    · exact ⟨id, id, SameApp.refl s⟩
    · have hr := readPhase_w cfg s
      generalize readPhase cfg s = r1 at hr ⊢
      split
      · exact ⟨hr.1, hr.2.1, hr.2.2.1⟩
      · split
        · rename_i hout
          have hw : 0 < r1.1.wake := Nat.lt_of_lt_of_le hout.2 hr.2.2.2
          have h2 := outboxReady_w r1.1 o hw
          exact ⟨fun h => h2.1 (hr.1 h), fun h => h2.2.1 (hr.2.1 h), hr.2.2.1.trans h2.2.2⟩
        · split
          · have h2 := writeReady_w r1.1 o
            exact ⟨fun h => h2.1 (hr.1 h), fun h => h2.2.1 (hr.2.1 h), hr.2.2.1.trans h2.2.2⟩
          · exact ⟨hr.1, hr.2.1, hr.2.2.1⟩

theorem winv_init : WInv {} := ⟨rfl⟩
theorem qinv_init : QInv {} :=
  ⟨rfl, ⟨[], List.nodup_nil, fun t => by simp, rfl⟩, fun t => ⟨fun g h => (by cases h), fun g f h => (by cases h)⟩⟩

theorem winv_step (cfg : Cfg) (s : State) (e : Ev) (h : WInv s) : WInv (step cfg s e).1 := by
  cases e with
  | connect =>
    simp only [step]; split
    · exact h
    · exact ⟨rfl⟩
  | inb b => simp only [step]; split
             · exact winv_of_sameW h ⟨rfl, rfl, rfl, rfl, rfl⟩
             · exact h
  | eof => simp only [step]; split
           · exact winv_of_sameW h ⟨rfl, rfl, rfl, rfl, rfl⟩
           · exact h
  | sel o => simp only [step]; split
             · exact (select_w cfg s o).1 h
             · exact h
  | wBegin t op => simp only [step]; split
                   · exact h
                   · exact winv_of_sameW h ⟨rfl, rfl, rfl, rfl, rfl⟩
  | wCheck t =>
    simp only [step]
    split
    · split
      · split
        · constructor
          simp only [List.flatten_append, List.flatten_cons, List.flatten_nil, List.append_nil]
          rw [← h.bytes]; simp
        · exact winv_of_sameW h ⟨rfl, rfl, rfl, rfl, rfl⟩
      · exact winv_of_sameW h ⟨rfl, rfl, rfl, rfl, rfl⟩
    · exact h
  | wWake t =>
    simp only [step]
    split
    · split
      · exact ⟨h.bytes⟩
      · exact ⟨h.bytes⟩
    · exact h
  | read =>
    simp only [step]
    split
    · exact winv_of_sameW h ⟨rfl, rfl, rfl, rfl, rfl⟩
    · exact h

theorem qinv_step (cfg : Cfg) (s : State) (e : Ev) (h : QInv s) : QInv (step cfg s e).1 := by
  cases e with
  | connect =>
    simp only [step]; split
    · exact h
    · refine ⟨rfl, ⟨[], List.nodup_nil, fun t => ?_, rfl⟩, fun t => ⟨fun g hg => ?_, fun g f hg => ?_⟩⟩
      · simp only [List.not_mem_nil, false_iff]
        intro hm
        have := (h.gens t).1 _ hm
        omega
      · have := (h.gens t).1 g hg; simp only; omega
      · have := (h.gens t).2 g f hg; simp only; omega
  | inb b => simp only [step]; split
             · exact qinv_of_same h ⟨rfl, rfl, rfl, rfl, rfl⟩ ⟨rfl, rfl, rfl, rfl, rfl⟩
             · exact h
  | eof => simp only [step]; split
           · exact qinv_of_same h ⟨rfl, rfl, rfl, rfl, rfl⟩ ⟨rfl, rfl, rfl, rfl, rfl⟩
           · exact h
  | sel o => simp only [step]; split
             · exact (select_w cfg s o).2.1 h
             · exact h
  | wBegin t op =>
    simp only [step]; split
    · exact h
    · rename_i hidle
      have hidle : s.thr t = .idle := by simpa using hidle
      obtain ⟨S, hnd, hS, hm⟩ := h.mids
      refine ⟨h.count, ⟨S, hnd, fun u => ?_, hm⟩, fun u => ?_⟩
      · simp only
        by_cases hu : u = t
        · subst hu; simp only [if_true]
          rw [hS u, hidle]; constructor <;> (intro hh; cases hh)
        · simp only [hu, if_false]; exact hS u
      · simp only
        by_cases hu : u = t
        · subst hu; simp only [if_true]
          exact ⟨fun g hg => (by cases hg), fun g f hg => (by cases hg; exact Nat.le_refl _)⟩
        · simp only [hu, if_false]; exact h.gens u
  | wCheck t =>
    simp only [step]
    split
    · rename_i g f hcap
      obtain ⟨S, hnd, hS, hm⟩ := h.mids
      have hg : g ≤ s.gen := (h.gens t).2 g f hcap
      have htS : t ∉ S := by rw [hS t, hcap]; intro hh; cases hh
      split
      · split
        · rename_i hgg
          subst hgg
          refine ⟨?_, ⟨t :: S, List.nodup_cons.mpr ⟨htS, hnd⟩, fun u => ?_, by simp only [List.length_cons]; omega⟩, fun u => ?_⟩
          · have := h.count; simp only [List.length_append, List.length_cons, List.length_nil]; omega
          · simp only [List.mem_cons]
            by_cases hu : u = t
            · subst hu; simp
            · simp only [hu, false_or, if_false]; exact hS u
          · simp only
            by_cases hu : u = t
            · subst hu; simp only [if_true]
              exact ⟨fun g' hg' => (by cases hg'; exact Nat.le_refl _), fun g' f' hg' => (by cases hg')⟩
            · simp only [hu, if_false]; exact h.gens u
        · rename_i hgg
          refine ⟨h.count, ⟨S, hnd, fun u => ?_, hm⟩, fun u => ?_⟩
          · simp only
            by_cases hu : u = t
            · subst hu; simp only [if_true]
              constructor
              · intro hh; exact absurd hh htS
              · intro hh; injection hh with hh; exact absurd hh hgg
            · simp only [hu, if_false]; exact hS u
          · simp only
            by_cases hu : u = t
            · subst hu; simp only [if_true]
              exact ⟨fun g' hg' => (by cases hg'; exact hg), fun g' f' hg' => (by cases hg')⟩
            · simp only [hu, if_false]; exact h.gens u
      · refine ⟨h.count, ⟨S, hnd, fun u => ?_, hm⟩, fun u => ?_⟩
        · simp only
          by_cases hu : u = t
          · subst hu; simp only [if_true]
            constructor
            · intro hh; exact absurd hh htS
            · intro hh; cases hh
          · simp only [hu, if_false]; exact hS u
        · simp only
          by_cases hu : u = t
          · subst hu; simp only [if_true]
            exact ⟨fun g' hg' => (by cases hg'), fun g' f' hg' => (by cases hg')⟩
          · simp only [hu, if_false]; exact h.gens u
    · exact h
  | wWake t =>
    simp only [step]
    split
    · rename_i g hmp
      obtain ⟨S, hnd, hS, hm⟩ := h.mids
      split
      · rename_i hgg
        subst hgg
        have htS : t ∈ S := (hS t).mpr hmp
        have hpos : 0 < S.length := List.length_pos_of_mem htS
        refine ⟨?_, ⟨S.erase t, hnd.erase t, fun u => ?_, ?_⟩, fun u => ?_⟩
        · have := h.count; simp only; omega
        · rw [hnd.mem_erase_iff]
          simp only
          by_cases hu : u = t
          · subst hu; simp
          · simp only [hu, if_false, ne_eq, not_false_eq_true, true_and]; exact hS u
        · simp only; rw [List.length_erase_of_mem htS]; omega
        · simp only
          by_cases hu : u = t
          · subst hu; simp only [if_true]
            exact ⟨fun g' hg' => (by cases hg'), fun g' f' hg' => (by cases hg')⟩
          · simp only [hu, if_false]; exact h.gens u
      · rename_i hgg
        have htS : t ∉ S := by rw [hS t, hmp]; intro hh; injection hh with hh; exact hgg hh
        refine ⟨h.count, ⟨S, hnd, fun u => ?_, hm⟩, fun u => ?_⟩
        · simp only
          by_cases hu : u = t
          · subst hu; simp only [if_true]
            constructor
            · intro hh; exact absurd hh htS
            · intro hh; cases hh
          · simp only [hu, if_false]; exact hS u
        · simp only
          by_cases hu : u = t
          · subst hu; simp only [if_true]
            exact ⟨fun g' hg' => (by cases hg'), fun g' f' hg' => (by cases hg')⟩
          · simp only [hu, if_false]; exact h.gens u
    · exact h
  | read =>
    simp only [step]
    split
    · exact ⟨h.count, h.mids, h.gens⟩
    · exact h

/-! ### C11: nothing before OP_INFO, first frame = OP_AUTH for this connection's nonce -/

structure AInv (cfg : Cfg) (s : State) : Prop where
  quiet : s.nonce = none → s.enq = []
  first : ∀ r, s.nonce = some r → ∃ rest, s.enq = authFrame cfg r :: rest
  seen : ∀ r, s.nonce = some r → ∃ f ∈ s.processed, ∃ n, read f = some (.ok (.info n r))
  rdy : s.ready = true → s.nonce.isSome = true ∧ s.live = true

structure SameA (s s' : State) : Prop where
  nonce : s'.nonce = s.nonce
  enq : s'.enq = s.enq
  processed : s'.processed = s.processed
  ready : s'.ready = s.ready
  live : s'.live = s.live

theorem ainv_of_same {cfg : Cfg} {s s' : State} (h : AInv cfg s) (k : SameA s s') : AInv cfg s' :=
  ⟨by rw [k.nonce, k.enq]; exact h.quiet, by rw [k.nonce, k.enq]; exact h.first,
   by rw [k.nonce, k.processed]; exact h.seen, by rw [k.ready, k.nonce, k.live]; exact h.rdy⟩

theorem SameA.refl (s : State) : SameA s s := ⟨rfl, rfl, rfl, rfl, rfl⟩
theorem SameA.trans {a b c : State} (h1 : SameA a b) (h2 : SameA b c) : SameA a c :=
  ⟨h2.nonce.trans h1.nonce, h2.enq.trans h1.enq, h2.processed.trans h1.processed, h2.ready.trans h1.ready,
   h2.live.trans h1.live⟩

theorem sameA_closeSock (s : State) : SameA s (closeSock s).1 := by
  unfold closeSock; split <;> exact ⟨rfl, rfl, rfl, rfl, rfl⟩

/-- appending to the outbox log keeps "starts with AUTH" -/
theorem rwriteAll_enq (s : State) (fs : List Bytes) :
    (rwriteAll s fs).enq = s.enq ++ fs ∧ (rwriteAll s fs).nonce = s.nonce ∧
    (rwriteAll s fs).processed = s.processed ∧ (rwriteAll s fs).ready = s.ready ∧ (rwriteAll s fs).live = s.live := by
  induction fs generalizing s with
  | nil => simp [rwriteAll]
  | cons f fs ih =>
    have := ih (rwrite s f)
    simp only [rwriteAll, List.foldl_cons] at this ⊢
    obtain ⟨a, b, c, d, e⟩ := this
    refine ⟨?_, ?_, ?_, ?_, ?_⟩
    · rw [a]; simp [rwrite]
    · rw [b]; rfl
    · rw [c]; rfl
    · rw [d]; rfl
    · rw [e]; rfl

theorem onFrame_a (cfg : Cfg) (s : State) (f : Frame) (hf : f ∈ s.processed) (hl : s.live = true)
    (h : AInv cfg s) : AInv cfg (onFrame cfg s f).1 ∧ (onFrame cfg s f).1.live = true ∧
      (onFrame cfg s f).1.processed = s.processed := by
  unfold onFrame
  have closeCase : AInv cfg (closeSock s).1 ∧ (closeSock s).1.live = true ∧ (closeSock s).1.processed = s.processed :=
    ⟨ainv_of_same h (sameA_closeSock s), by rw [(sameA_closeSock s).live]; exact hl, (sameA_closeSock s).processed⟩
  cases hrd : read f with
  | none => exact closeCase
  | some r =>
    cases r with
    | error c => exact ⟨h, hl, rfl⟩
    | ok m =>
      cases m with
      | error t => exact ⟨h, hl, rfl⟩
      | auth i d => exact closeCase
      | subscribe i c => exact closeCase
      | unsubscribe i c => exact closeCase
      | publish i c p => exact ⟨ainv_of_same h ⟨rfl, rfl, rfl, rfl, rfl⟩, hl, rfl⟩
      | info n rand =>
        simp only
        unfold onInfo
        obtain ⟨e1, e2, e3, e4, e5⟩ := rwriteAll_enq (markReady (rwrite s (authFrame cfg rand)) rand)
          ((sortBytes s.subs).map (subFrame cfg))
        have hn2 : (markReady (rwrite s (authFrame cfg rand)) rand).nonce = firstNonce s.nonce rand := rfl
        have he2 : (markReady (rwrite s (authFrame cfg rand)) rand).enq = s.enq ++ [authFrame cfg rand] := rfl
        have hp2 : (markReady (rwrite s (authFrame cfg rand)) rand).processed = s.processed := rfl
        have hl2 : (markReady (rwrite s (authFrame cfg rand)) rand).live = s.live := rfl
        rw [hn2] at e2; rw [he2] at e1; rw [hp2] at e3; rw [hl2] at e5
        refine ⟨⟨?_, ?_, ?_, ?_⟩, ?_, ?_⟩
        · rw [e2]; intro hn
          cases hsn : s.nonce <;> (rw [hsn] at hn; cases hn)
        · intro r hr
          rw [e2] at hr; rw [e1]
          cases hsn : s.nonce with
          | none =>
            rw [hsn] at hr; simp only [firstNonce, Option.some.injEq] at hr; subst hr
            rw [h.quiet hsn]; exact ⟨_, rfl⟩
          | some r0 =>
            rw [hsn] at hr; simp only [firstNonce, Option.some.injEq] at hr; subst hr
            obtain ⟨rest, hrest⟩ := h.first _ hsn
            rw [hrest]; exact ⟨rest ++ [authFrame cfg rand] ++ List.map (subFrame cfg) (sortBytes s.subs), by simp⟩
        · intro r hr
          rw [e2] at hr; rw [e3]
          cases hsn : s.nonce with
          | none =>
            rw [hsn] at hr; simp only [firstNonce, Option.some.injEq] at hr; subst hr
            exact ⟨f, hf, n, hrd⟩
          | some r0 =>
            rw [hsn] at hr; simp only [firstNonce, Option.some.injEq] at hr; subst hr
            exact h.seen _ hsn
        · intro _
          rw [e2, e5]
          refine ⟨?_, hl⟩
          cases s.nonce <;> rfl
        · rw [e5]; exact hl
        · rw [e3]

theorem dispatch_a (cfg : Cfg) (s : State) (fs : List Frame) (hl : s.live = true) (h : AInv cfg s) :
    AInv cfg (dispatch cfg s fs).1 ∧ (dispatch cfg s fs).1.live = true := by
  induction fs generalizing s with
  | nil => exact ⟨h, hl⟩
  | cons f fs ih =>
    simp only [dispatch]
    have hn : AInv cfg (noteFrame s f) :=
      ⟨h.quiet, h.first, fun r hr => by
        obtain ⟨g, hg, n, hgn⟩ := h.seen r hr
        exact ⟨g, by simp [noteFrame, hg], n, hgn⟩, h.rdy⟩
    have h1 := onFrame_a cfg (noteFrame s f) f (by simp [noteFrame]) hl hn
    split
    · exact ⟨h1.1, h1.2.1⟩
    · exact ih _ h1.2.1 h1.1

theorem dataReceived_a (cfg : Cfg) (s : State) (c : Bytes) (hl : s.live = true) (h : AInv cfg s) :
    AInv cfg (dataReceived cfg s c).1 := by
  unfold dataReceived
  simp only
  have h1 := dispatch_a cfg { s with inbound := s.inbound ++ c } (drain (s.ubuf ++ c)).1 hl
    (ainv_of_same h ⟨rfl, rfl, rfl, rfl, rfl⟩)
  generalize dispatch cfg { s with inbound := s.inbound ++ c } (drain (s.ubuf ++ c)).1 = r at h1 ⊢
  split
  · exact ainv_of_same h1.1 ⟨rfl, rfl, rfl, rfl, rfl⟩
  · split
    · exact ainv_of_same h1.1 ⟨rfl, rfl, rfl, rfl, rfl⟩
    · exact ainv_of_same (ainv_of_same h1.1 (s' := { r.1 with ubuf := (drain (s.ubuf ++ c)).2.1 }) ⟨rfl, rfl, rfl, rfl, rfl⟩)
        (sameA_closeSock _)

theorem connectionLost_a {cfg : Cfg} {s : State} (h : AInv cfg s) : AInv cfg (connectionLost s).1 :=
  ⟨h.quiet, h.first, h.seen, fun hr => by cases hr⟩

theorem writeReady_a {cfg : Cfg} {s : State} (o : Send) (h : AInv cfg s) : AInv cfg (writeReady s o).1 := by
  unfold writeReady
  split
  · exact ainv_of_same h ⟨rfl, rfl, rfl, rfl, rfl⟩
  · cases o with
    | again => exact h
    | accept n =>
      simp only
      split
      · exact connectionLost_a h
      · exact ainv_of_same h ⟨rfl, rfl, rfl, rfl, rfl⟩

theorem outboxReady_a {cfg : Cfg} {s : State} (o : Send) (h : AInv cfg s) : AInv cfg (outboxReady s o).1 := by
  unfold outboxReady
  split
  · exact h
  · exact writeReady_a o (ainv_of_same h ⟨rfl, rfl, rfl, rfl, rfl⟩)

theorem readPhase_a (cfg : Cfg) (s : State) (hl : s.live = true) (h : AInv cfg s) : AInv cfg (readPhase cfg s).1 := by
  unfold readPhase
  split
  · exact dataReceived_a cfg _ _ hl (ainv_of_same h ⟨rfl, rfl, rfl, rfl, rfl⟩)
  · split
    · exact connectionLost_a h
    · exact h

theorem select_a (cfg : Cfg) (s : State) (o : Send) (hl : s.live = true) (h : AInv cfg s) :
    AInv cfg (select cfg s o).1 := by
  unfold select
  split
  · exact ainv_of_same h ⟨rfl, rfl, rfl, rfl, rfl⟩
  · simp only
    split
    · exact h
    · have hr := readPhase_a cfg s hl h
      generalize readPhase cfg s = r1 at hr ⊢
      split
      · exact hr
      · split
        · exact outboxReady_a o hr
        · split
          · exact writeReady_a o hr
          · exact hr

theorem ainv_init (cfg : Cfg) : AInv cfg {} :=
  ⟨fun _ => rfl, fun r h => (by cases h), fun r h => (by cases h), fun h => (by cases h)⟩

theorem ainv_step (cfg : Cfg) (s : State) (e : Ev) (h : AInv cfg s) : AInv cfg (step cfg s e).1 := by
  cases e with
  | connect =>
    simp only [step]; split
    · exact h
    · rename_i hg
      have hnl : s.live = false := by
        cases hlv : s.live with
        | true => exact absurd (Or.inl hlv) hg
        | false => rfl
      refine ⟨fun _ => rfl, fun r hr => (by cases hr), fun r hr => (by cases hr), fun hr => ?_⟩
      have := (h.rdy hr).2
      rw [hnl] at this; cases this
  | inb b => simp only [step]; split
             · exact ainv_of_same h ⟨rfl, rfl, rfl, rfl, rfl⟩
             · exact h
  | eof => simp only [step]; split
           · exact ainv_of_same h ⟨rfl, rfl, rfl, rfl, rfl⟩
           · exact h
  | sel o => simp only [step]; split
             · rename_i hg; exact select_a cfg s o hg.1 h
             · exact h
  | wBegin t op => simp only [step]; split
                   · exact h
                   · exact ainv_of_same h ⟨rfl, rfl, rfl, rfl, rfl⟩
  | wCheck t =>
    simp only [step]
    split
    · split
      · rename_i hrdy
        split
        · obtain ⟨hsome, hlive⟩ := h.rdy hrdy
          obtain ⟨r, hr⟩ := Option.isSome_iff_exists.mp hsome
          obtain ⟨rest, hrest⟩ := h.first r hr
          refine ⟨fun hn => ?_, fun r' hr' => ?_, h.seen, h.rdy⟩
          · simp only at hn; rw [hr] at hn; cases hn
          · simp only at hr' ⊢
            rw [hr] at hr'; cases hr'
            rw [hrest]; exact ⟨rest ++ [_], by simp; rfl⟩
        · exact ainv_of_same h ⟨rfl, rfl, rfl, rfl, rfl⟩
      · exact ainv_of_same h ⟨rfl, rfl, rfl, rfl, rfl⟩
    · exact h
  | wWake t =>
    simp only [step]
    split
    · split
      · exact ainv_of_same h ⟨rfl, rfl, rfl, rfl, rfl⟩
      · exact ainv_of_same h ⟨rfl, rfl, rfl, rfl, rfl⟩
    · exact h
  | read =>
    simp only [step]
    split
    · exact ainv_of_same h ⟨rfl, rfl, rfl, rfl, rfl⟩
    · exact h

/-! ### C12: the frames dispatched are the bytes received; the read queue is FIFO and loses nothing -/

/-- the message an OP_PUBLISH frame carries (if the frame is one, and its fields decode) -/
def pubOf (f : Frame) : Option Message :=
  match read f with
  | some (.ok (.publish i c p)) => some (i, c, p)
  | _ => none

structure BInv (s : State) : Prop where
  bytes : s.inbound = s.processed.flatMap enc ++ s.ubuf

structure RInv (s : State) : Prop where
  fifo : s.received = s.handed ++ s.rq
  pubs : s.received = s.allProcessed.filterMap pubOf

/-- the receive-side ghosts and buffers -/
structure SameR (s s' : State) : Prop where
  inbound : s'.inbound = s.inbound
  processed : s'.processed = s.processed
  ubuf : s'.ubuf = s.ubuf
  received : s'.received = s.received
  handed : s'.handed = s.handed
  rq : s'.rq = s.rq
  allProcessed : s'.allProcessed = s.allProcessed

theorem SameR.refl (s : State) : SameR s s := ⟨rfl, rfl, rfl, rfl, rfl, rfl, rfl⟩
theorem SameR.trans {a b c : State} (h1 : SameR a b) (h2 : SameR b c) : SameR a c :=
  ⟨h2.inbound.trans h1.inbound, h2.processed.trans h1.processed, h2.ubuf.trans h1.ubuf,
   h2.received.trans h1.received, h2.handed.trans h1.handed, h2.rq.trans h1.rq, h2.allProcessed.trans h1.allProcessed⟩

theorem binv_of_same {s s' : State} (h : BInv s) (k : SameR s s') : BInv s' :=
  ⟨by rw [k.inbound, k.processed, k.ubuf]; exact h.bytes⟩
theorem rinv_of_same {s s' : State} (h : RInv s) (k : SameR s s') : RInv s' :=
  ⟨by rw [k.received, k.handed, k.rq]; exact h.fifo, by rw [k.received, k.allProcessed]; exact h.pubs⟩

theorem sameR_rwrite (s : State) (f : Bytes) : SameR s (rwrite s f) := ⟨rfl, rfl, rfl, rfl, rfl, rfl, rfl⟩
theorem sameR_rwriteAll (s : State) (fs : List Bytes) : SameR s (rwriteAll s fs) := by
  induction fs generalizing s with
  | nil => exact SameR.refl s
  | cons f fs ih => exact (sameR_rwrite s f).trans (ih (rwrite s f))
theorem sameR_closeSock (s : State) : SameR s (closeSock s).1 := by
  unfold closeSock; split <;> exact ⟨rfl, rfl, rfl, rfl, rfl, rfl, rfl⟩
theorem sameR_onInfo (cfg : Cfg) (s : State) (rand : Bytes) : SameR s (onInfo cfg s rand) := by
  unfold onInfo
  have h1 : SameR s (markReady (rwrite s (authFrame cfg rand)) rand) := ⟨rfl, rfl, rfl, rfl, rfl, rfl, rfl⟩
  exact h1.trans (sameR_rwriteAll _ _)

/-- one dispatched frame: buffers and frame log untouched; `received`/`rq` grow by exactly its message -/
theorem onFrame_r (cfg : Cfg) (s : State) (f : Frame) :
    (onFrame cfg s f).1.inbound = s.inbound ∧ (onFrame cfg s f).1.processed = s.processed ∧
    (onFrame cfg s f).1.ubuf = s.ubuf ∧ (onFrame cfg s f).1.allProcessed = s.allProcessed ∧
    (onFrame cfg s f).1.handed = s.handed ∧
    ((onFrame cfg s f).2.2 = false → (onFrame cfg s f).1.received = s.received ++ (pubOf f).toList ∧
      (onFrame cfg s f).1.rq = s.rq ++ (pubOf f).toList) ∧
    ((onFrame cfg s f).2.2 = true → (onFrame cfg s f).1.received = s.received ∧ (onFrame cfg s f).1.rq = s.rq ∧
      pubOf f = none) := by
  unfold onFrame
  have hc := sameR_closeSock s
  have closeCase : pubOf f = none →
      (closeSock s).1.inbound = s.inbound ∧ (closeSock s).1.processed = s.processed ∧
      (closeSock s).1.ubuf = s.ubuf ∧ (closeSock s).1.allProcessed = s.allProcessed ∧
      (closeSock s).1.handed = s.handed ∧
      (false = false → (closeSock s).1.received = s.received ++ (pubOf f).toList ∧
        (closeSock s).1.rq = s.rq ++ (pubOf f).toList) ∧
      (false = true → (closeSock s).1.received = s.received ∧ (closeSock s).1.rq = s.rq ∧ pubOf f = none) := by
    intro hp
    simp only [hp, Option.toList_none, List.append_nil]
    exact ⟨hc.inbound, hc.processed, hc.ubuf, hc.allProcessed, hc.handed, fun _ => ⟨hc.received, hc.rq⟩,
      fun h => (by cases h)⟩
  have crashCase : pubOf f = none →
      s.inbound = s.inbound ∧ s.processed = s.processed ∧ s.ubuf = s.ubuf ∧ s.allProcessed = s.allProcessed ∧
      s.handed = s.handed ∧
      (true = false → s.received = s.received ++ (pubOf f).toList ∧ s.rq = s.rq ++ (pubOf f).toList) ∧
      (true = true → s.received = s.received ∧ s.rq = s.rq ∧ pubOf f = none) := by
    intro hp
    exact ⟨rfl, rfl, rfl, rfl, rfl, fun h => (by cases h), fun _ => ⟨rfl, rfl, hp⟩⟩
  cases hrd : read f with
  | none => exact closeCase (by simp [pubOf, hrd])
  | some r =>
    cases r with
    | error c => exact crashCase (by simp [pubOf, hrd])
    | ok m =>
      cases m with
      | error t => exact crashCase (by simp [pubOf, hrd])
      | info n rand =>
        have hp : pubOf f = none := by simp [pubOf, hrd]
        have k := sameR_onInfo cfg s rand
        simp only [hp, Option.toList_none, List.append_nil]
        exact ⟨k.inbound, k.processed, k.ubuf, k.allProcessed, k.handed, fun _ => ⟨k.received, k.rq⟩,
          fun h => (by cases h)⟩
      | auth i d => exact closeCase (by simp [pubOf, hrd])
      | subscribe i c => exact closeCase (by simp [pubOf, hrd])
      | unsubscribe i c => exact closeCase (by simp [pubOf, hrd])
      | publish i c p =>
        have hp : pubOf f = some (i, c, p) := by simp [pubOf, hrd]
        simp only [hp, Option.toList_some]
        exact ⟨(by trivial), (by trivial), (by trivial), (by trivial), (by trivial),
          fun _ => ⟨(by trivial), (by trivial)⟩, fun h => (by cases h)⟩

/-- dispatching a frame list: what was dispatched ++ what was not = the list -/
theorem dispatch_r (cfg : Cfg) (s : State) (fs : List Frame) (h : RInv s) :
    RInv (dispatch cfg s fs).1 ∧ (dispatch cfg s fs).1.inbound = s.inbound ∧ (dispatch cfg s fs).1.ubuf = s.ubuf ∧
    (dispatch cfg s fs).1.processed ++ ((dispatch cfg s fs).2.2.getD []) = s.processed ++ fs := by
  induction fs generalizing s with
  | nil => exact ⟨h, rfl, rfl, by simp [dispatch]⟩
  | cons f fs ih =>
    simp only [dispatch]
    obtain ⟨a1, a2, a3, a4, a5, a6, a7⟩ := onFrame_r cfg (noteFrame s f) f
    split
    · rename_i hcr
      obtain ⟨b1, b2, b3⟩ := a7 hcr
      refine ⟨⟨?_, ?_⟩, a1, a3, ?_⟩
      · rw [b1, a5, b2]; exact h.fifo
      · rw [b1, a4]
        simp only [noteFrame, List.filterMap_append, List.filterMap_cons, List.filterMap_nil, b3, List.append_nil]
        exact h.pubs
      · simp only [Option.getD_some]; rw [a2]; simp [noteFrame]
    · rename_i hcr
      have hcr' : (onFrame cfg (noteFrame s f) f).2.2 = false := by simpa using hcr
      obtain ⟨b1, b2⟩ := a6 hcr'
      have hr1 : RInv (onFrame cfg (noteFrame s f) f).1 := by
        refine ⟨?_, ?_⟩
        · rw [b1, a5, b2]
          show s.received ++ _ = s.handed ++ (s.rq ++ _)
          rw [h.fifo]; simp
        · rw [b1, a4]
          show s.received ++ _ = _
          simp only [noteFrame, List.filterMap_append, List.filterMap_cons, List.filterMap_nil]
          rw [h.pubs]
          cases pubOf f <;> simp
      obtain ⟨c1, c2, c3, c4⟩ := ih _ hr1
      refine ⟨c1, c2.trans a1, c3.trans a3, ?_⟩
      rw [c4, a2]; simp [noteFrame]

theorem dataReceived_r (cfg : Cfg) (s : State) (c : Bytes) (hb : BInv s) (hr : RInv s) :
    BInv (dataReceived cfg s c).1 ∧ RInv (dataReceived cfg s c).1 := by
  unfold dataReceived
  simp only
  have hd := drain_spec (s.ubuf ++ c)
  have h1 := dispatch_r cfg { s with inbound := s.inbound ++ c } (drain (s.ubuf ++ c)).1 ⟨hr.fifo, hr.pubs⟩
  generalize dispatch cfg { s with inbound := s.inbound ++ c } (drain (s.ubuf ++ c)).1 = r at h1 ⊢
  obtain ⟨r1, r2, r3, r4⟩ := h1
  simp only at r2 r3 r4
  have hin : s.inbound ++ c = (s.processed ++ (drain (s.ubuf ++ c)).1).flatMap enc ++ (drain (s.ubuf ++ c)).2.1 := by
    have e := hd.1
    calc s.inbound ++ c = s.processed.flatMap enc ++ (s.ubuf ++ c) := by rw [hb.bytes, List.append_assoc]
      _ = s.processed.flatMap enc ++ ((drain (s.ubuf ++ c)).1.flatMap enc ++ (drain (s.ubuf ++ c)).2.1) :=
          congrArg (s.processed.flatMap enc ++ ·) e
      _ = _ := by simp [List.flatMap_append]
  split
  · rename_i rest hrest
    rw [hrest] at r4; simp only [Option.getD_some] at r4
    refine ⟨⟨?_⟩, ⟨r1.fifo, r1.pubs⟩⟩
    simp only
    rw [r2, hin, ← r4]
    simp [List.flatMap_append]
  · rename_i hnone
    rw [hnone] at r4; simp only [Option.getD_none, List.append_nil] at r4
    split
    · refine ⟨⟨?_⟩, ⟨r1.fifo, r1.pubs⟩⟩
      simp only
      rw [r2, hin, ← r4]
    · have k := sameR_closeSock { r.1 with ubuf := (drain (s.ubuf ++ c)).2.1 }
      have r1' : RInv { r.1 with ubuf := (drain (s.ubuf ++ c)).2.1 } := ⟨r1.fifo, r1.pubs⟩
      refine ⟨binv_of_same ⟨?_⟩ k, rinv_of_same r1' k⟩
      simp only
      rw [r2, hin, ← r4]

theorem writeReady_r (s : State) (o : Send) : SameR s (writeReady s o).1 := by
  unfold writeReady
  split
  · exact ⟨rfl, rfl, rfl, rfl, rfl, rfl, rfl⟩
  · cases o with
    | again => exact SameR.refl s
    | accept n =>
      simp only
      split
      · exact ⟨rfl, rfl, rfl, rfl, rfl, rfl, rfl⟩
      · exact ⟨rfl, rfl, rfl, rfl, rfl, rfl, rfl⟩

theorem outboxReady_r (s : State) (o : Send) : SameR s (outboxReady s o).1 := by
  unfold outboxReady
  split
  · exact SameR.refl s
  · rename_i f r _
    have h1 : SameR s { s with items := r, wake := s.wake - 1, buffer := s.buffer ++ f } := ⟨rfl, rfl, rfl, rfl, rfl, rfl, rfl⟩
    exact h1.trans (writeReady_r _ o)

theorem readPhase_r (cfg : Cfg) (s : State) (hb : BInv s) (hr : RInv s) :
    BInv (readPhase cfg s).1 ∧ RInv (readPhase cfg s).1 := by
  unfold readPhase
  split
  · exact dataReceived_r cfg _ _ (binv_of_same hb ⟨rfl, rfl, rfl, rfl, rfl, rfl, rfl⟩)
      (rinv_of_same hr ⟨rfl, rfl, rfl, rfl, rfl, rfl, rfl⟩)
  · split
    · exact ⟨binv_of_same hb ⟨rfl, rfl, rfl, rfl, rfl, rfl, rfl⟩, rinv_of_same hr ⟨rfl, rfl, rfl, rfl, rfl, rfl, rfl⟩⟩
    · exact ⟨hb, hr⟩

theorem select_r (cfg : Cfg) (s : State) (o : Send) (hb : BInv s) (hr : RInv s) :
    BInv (select cfg s o).1 ∧ RInv (select cfg s o).1 := by
  unfold select
  split
  · exact ⟨binv_of_same hb ⟨rfl, rfl, rfl, rfl, rfl, rfl, rfl⟩, rinv_of_same hr ⟨rfl, rfl, rfl, rfl, rfl, rfl, rfl⟩⟩
  · simp only
    split
    · exact ⟨hb, hr⟩
    · have h1 := readPhase_r cfg s hb hr
      generalize readPhase cfg s = r1 at h1 ⊢
      split
      · exact h1
      · split
        · exact ⟨binv_of_same h1.1 (outboxReady_r _ o), rinv_of_same h1.2 (outboxReady_r _ o)⟩
        · split
          · exact ⟨binv_of_same h1.1 (writeReady_r _ o), rinv_of_same h1.2 (writeReady_r _ o)⟩
          · exact h1

theorem brinv_step (cfg : Cfg) (s : State) (e : Ev) (hb : BInv s) (hr : RInv s) :
    BInv (step cfg s e).1 ∧ RInv (step cfg s e).1 := by
  cases e with
  | connect =>
    simp only [step]; split
    · exact ⟨hb, hr⟩
    · exact ⟨⟨rfl⟩, ⟨hr.fifo, hr.pubs⟩⟩
  | inb b => simp only [step]; split
             · exact ⟨binv_of_same hb ⟨rfl, rfl, rfl, rfl, rfl, rfl, rfl⟩, rinv_of_same hr ⟨rfl, rfl, rfl, rfl, rfl, rfl, rfl⟩⟩
             · exact ⟨hb, hr⟩
  | eof => simp only [step]; split
           · exact ⟨binv_of_same hb ⟨rfl, rfl, rfl, rfl, rfl, rfl, rfl⟩, rinv_of_same hr ⟨rfl, rfl, rfl, rfl, rfl, rfl, rfl⟩⟩
           · exact ⟨hb, hr⟩
  | sel o => simp only [step]; split
             · exact select_r cfg s o hb hr
             · exact ⟨hb, hr⟩
  | wBegin t op => simp only [step]; split
                   · exact ⟨hb, hr⟩
                   · exact ⟨binv_of_same hb ⟨rfl, rfl, rfl, rfl, rfl, rfl, rfl⟩, rinv_of_same hr ⟨rfl, rfl, rfl, rfl, rfl, rfl, rfl⟩⟩
  | wCheck t =>
    simp only [step]
    split
    · split
      · split
        · exact ⟨binv_of_same hb ⟨rfl, rfl, rfl, rfl, rfl, rfl, rfl⟩, rinv_of_same hr ⟨rfl, rfl, rfl, rfl, rfl, rfl, rfl⟩⟩
        · exact ⟨binv_of_same hb ⟨rfl, rfl, rfl, rfl, rfl, rfl, rfl⟩, rinv_of_same hr ⟨rfl, rfl, rfl, rfl, rfl, rfl, rfl⟩⟩
      · exact ⟨binv_of_same hb ⟨rfl, rfl, rfl, rfl, rfl, rfl, rfl⟩, rinv_of_same hr ⟨rfl, rfl, rfl, rfl, rfl, rfl, rfl⟩⟩
    · exact ⟨hb, hr⟩
  | wWake t =>
    simp only [step]
    split
    · split
      · exact ⟨binv_of_same hb ⟨rfl, rfl, rfl, rfl, rfl, rfl, rfl⟩, rinv_of_same hr ⟨rfl, rfl, rfl, rfl, rfl, rfl, rfl⟩⟩
      · exact ⟨binv_of_same hb ⟨rfl, rfl, rfl, rfl, rfl, rfl, rfl⟩, rinv_of_same hr ⟨rfl, rfl, rfl, rfl, rfl, rfl, rfl⟩⟩
    · exact ⟨hb, hr⟩
  | read =>
    simp only [step]
    split
    · rename_i m q hq
      refine ⟨⟨hb.bytes⟩, ⟨?_, hr.pubs⟩⟩
      simp only
      rw [hr.fifo, hq]; simp
    · exact ⟨hb, hr⟩

/-! ### every reachable state -/

structure Inv (cfg : Cfg) (s : State) : Prop where
  w : WInv s
  q : QInv s
  a : AInv cfg s
  b : BInv s
  r : RInv s

theorem inv_init (cfg : Cfg) : Inv cfg {} :=
  ⟨winv_init, qinv_init, ainv_init cfg, ⟨rfl⟩, ⟨rfl, rfl⟩⟩

theorem inv_step (cfg : Cfg) (s : State) (e : Ev) (h : Inv cfg s) : Inv cfg (step cfg s e).1 :=
  ⟨winv_step cfg s e h.w, qinv_step cfg s e h.q, ainv_step cfg s e h.a,
   (brinv_step cfg s e h.b h.r).1, (brinv_step cfg s e h.b h.r).2⟩

theorem run_inv (cfg : Cfg) (es : List Ev) : Inv cfg (run cfg es).1 := by
  unfold run
  suffices ∀ (acc : State × List Out), Inv cfg acc.1 →
      Inv cfg (es.foldl (fun acc e => let r := step cfg acc.1 e; (r.1, acc.2 ++ r.2)) acc).1 from
    this ({}, []) (inv_init cfg)
  induction es with
  | nil => intro acc h; exact h
  | cons e es ih =>
    intro acc h
    simp only [List.foldl_cons]
    exact ih _ (inv_step cfg acc.1 e h)

/-! ### the write path drains: bounded progress under accepting sends -/

/-- a connection with nothing to read, no put half-way and no empty frame queued -/
structure Quiet (s : State) : Prop where
  live : s.live = true
  notDead : s.dead = false
  open_ : s.sockClosed = false
  noIn : s.pendingIn = []
  noEof : s.eof = false
  woken : s.wake = s.items.length
  nonEmpty : ∀ f ∈ s.items, f ≠ []

/-- bytes and items still to go -/
def todo (s : State) : Nat := s.buffer.length + s.items.flatten.length + s.items.length

theorem quiet_round (cfg : Cfg) (s : State) (n : Nat) (hq : Quiet s) (hn : 1 ≤ n) :
    Quiet (select cfg s (.accept n)).1 ∧ (select cfg s (.accept n)).1.enq = s.enq ∧
    (todo (select cfg s (.accept n)).1 < todo s ∨ (s.buffer = [] ∧ s.items = [])) := by
  obtain ⟨h1, h2, h3, h4, h5, h6, h7⟩ := hq
  by_cases hb : s.buffer = []
  · cases hi : s.items with
    | nil =>
      have hw : s.wake = 0 := by rw [h6, hi]; rfl
      have : select cfg s (.accept n) = (s, [.block]) := by
        simp [select, h3, h4, h5, hb, hw]
      rw [this]
      exact ⟨⟨h1, h2, h3, h4, h5, h6, h7⟩, rfl, Or.inr ⟨hb, rfl⟩⟩
    | cons f r =>
      have hw : s.wake = r.length + 1 := by rw [h6, hi]; rfl
      have hf : f ≠ [] := h7 f (by rw [hi]; simp)
      have hfl : 0 < f.length := List.length_pos_iff.mpr hf
      have hk : min n f.length ≠ 0 := by omega
      have : select cfg s (.accept n) =
          ({ s with items := r, wake := s.wake - 1, buffer := f.drop (min n f.length),
                    wire := s.wire ++ f.take (min n f.length) }, [.sent s.gen (f.take (min n f.length))]) := by
        simp [select, readPhase, outboxReady, writeReady, h3, h4, h5, hb, hw, hi, hk]
      rw [this]
      refine ⟨⟨h1, h2, h3, h4, h5, by simp only; omega, fun g hg => h7 g (by rw [hi]; simp [hg])⟩, rfl, Or.inl ?_⟩
      simp only [todo, hb, hi, List.length_drop, List.flatten_cons, List.length_append, List.length_cons, List.length_nil]
      omega
  · have hbl : 0 < s.buffer.length := List.length_pos_iff.mpr hb
    have hk : min n s.buffer.length ≠ 0 := by omega
    have : select cfg s (.accept n) =
        ({ s with buffer := s.buffer.drop (min n s.buffer.length), wire := s.wire ++ s.buffer.take (min n s.buffer.length) },
          [.sent s.gen (s.buffer.take (min n s.buffer.length))]) := by
      simp [select, readPhase, writeReady, h3, h4, h5, hb, hk]
    rw [this]
    refine ⟨⟨h1, h2, h3, h4, h5, h6, h7⟩, rfl, Or.inl ?_⟩
    simp only [todo, List.length_drop]
    omega

/-- any sequence of rounds whose sends each accept at least one byte, at least `todo s` of them: the
    buffer and the outbox are empty afterwards, and nothing new was queued meanwhile -/
theorem quiet_drains (cfg : Cfg) (ns : List Nat) (hns : ∀ n ∈ ns, 1 ≤ n) (s : State) (hq : Quiet s)
    (hk : todo s ≤ ns.length) :
    let s' := ns.foldl (fun s n => (select cfg s (.accept n)).1) s
    s'.buffer = [] ∧ s'.items = [] ∧ s'.enq = s.enq := by
  induction ns generalizing s with
  | nil =>
    simp only [List.length_nil, Nat.le_zero] at hk
    simp only [List.foldl_nil]
    unfold todo at hk
    have hb : s.buffer = [] := List.eq_nil_of_length_eq_zero (by omega)
    have hi : s.items = [] := List.eq_nil_of_length_eq_zero (by omega)
    exact ⟨hb, hi, (by trivial)⟩
  | cons n ns ih =>
    simp only [List.foldl_cons]
    obtain ⟨q1, q2, q3⟩ := quiet_round cfg s n hq (hns n (by simp))
    have hns' : ∀ m ∈ ns, 1 ≤ m := fun m hm => hns m (by simp [hm])
    rcases q3 with hlt | ⟨hb, hi⟩
    · have := ih hns' _ q1 (by simp only [List.length_cons] at hk; omega)
      exact ⟨this.1, this.2.1, this.2.2.trans q2⟩
    · -- already empty: every further round blocks
      have h0 : todo (select cfg s (.accept n)).1 = 0 := by
        have hw : s.wake = 0 := by rw [hq.woken, hi]; rfl
        have : select cfg s (.accept n) = (s, [.block]) := by
          simp [select, hq.open_, hq.noIn, hq.noEof, hb, hw]
        rw [this]; simp [todo, hb, hi]
      have := ih hns' _ q1 (by omega)
      exact ⟨this.1, this.2.1, this.2.2.trans q2⟩

end Hpfeeds.BlkSession
