/-
  No primitive except `addConn` creates a connection record; hence any per-record property that is
  monotone along `ConnMono` and holds of a fresh record holds of every record in every reachable state.
-/
import Hpfeeds.Lemmas.BrokerDeliv
namespace Hpfeeds.Broker
open Hpfeeds Extracted

def NoNew (s s' : State) : Prop := ∀ d, s.conn d = none → s'.conn d = none

theorem NoNew.refl (s : State) : NoNew s s := fun _ h => h
theorem NoNew.trans {a b c : State} (h1 : NoNew a b) (h2 : NoNew b c) : NoNew a c :=
  fun d h => h2 d (h1 d h)

theorem nonew_upd (s : State) (c : Nat) (f : Conn → Conn) : NoNew s (s.upd c f) := by
  intro d hd; simp only [upd_conn]; split <;> simp [hd]

theorem nonew_of_conn_eq {s s' : State} (h : s'.conn = s.conn) : NoNew s s' := by
  intro d hd; rw [h]; exact hd

theorem nonew_logAct (s : State) (c : Nat) (a : Act) : NoNew s (logAct s c a) := nonew_upd s c _
theorem nonew_closeT (s : State) (c : Nat) : NoNew s (closeT s c) := nonew_upd s c _
theorem nonew_errorClose (s : State) (c : Nat) : NoNew s (errorClose s c) :=
  (nonew_logAct s c _).trans (nonew_closeT _ c)
theorem nonew_crashClose (s : State) (c : Nat) : NoNew s (crashClose s c) :=
  (nonew_logAct s c _).trans (nonew_upd _ c _)

theorem nonew_peerClose (s : State) (c : Nat) : NoNew s (peerClose s c) := by
  unfold peerClose
  split
  · exact NoNew.refl s
  · split
    · exact NoNew.refl s
    · exact (nonew_logAct s c _).trans (nonew_upd _ c _)

theorem nonew_pauseReading (s : State) (c : Nat) : NoNew s (pauseReading s c) := by
  unfold pauseReading
  split
  · split
    · exact NoNew.refl s
    · exact NoNew.trans (nonew_upd s c _) (nonew_logAct _ c _)
  · exact NoNew.refl s

theorem nonew_resumeReading (s : State) (c : Nat) : NoNew s (resumeReading s c) := by
  unfold resumeReading
  split
  · split
    · exact NoNew.refl s
    · exact NoNew.trans (nonew_upd s c _) (nonew_logAct _ c _)
  · exact NoNew.refl s

theorem nonew_setAuth (s : State) (c : Nat) (i d : Bytes) (row : Row) : NoNew s (setAuth s c i d row) := by
  unfold setAuth
  split
  · exact NoNew.refl s
  · exact NoNew.trans (nonew_of_conn_eq (s := s) rfl) (nonew_upd _ c _)

theorem nonew_subscribe (s : State) (c : Nat) (ch : Bytes) : NoNew s (subscribe s c ch) := by
  intro d hd
  by_cases hdc : d = c
  · subst hdc; unfold subscribe; rw [hd]; exact hd
  · rw [subscribe_conn_ne hdc]; exact hd

theorem nonew_unsubscribe (s : State) (c : Nat) (ch : Bytes) : NoNew s (unsubscribe s c ch) := by
  intro d hd
  by_cases hdc : d = c
  · subst hdc; rw [unsubscribe_none hd]; exact hd
  · rw [unsubscribe_conn_ne hdc]; exact hd

theorem nonew_connectionLost (s : State) (c : Nat) : NoNew s (connectionLost s c) := by
  intro d hd
  by_cases hdc : d = c
  · subst hdc; unfold connectionLost; rw [hd]; exact hd
  · rw [connectionLost_conn_ne hdc]; exact hd

theorem nonew_publish (s : State) (c : Nat) (x : Conn) (i ch p : Bytes) : NoNew s (publish s c x i ch p) := by
  obtain ⟨_, _, _, fe⟩ := foldl_deliver_spec (pubFrame i ch p) (s.subs ch).eraseDups (nodup_eraseDups _) s
  intro d hd
  unfold publish
  exact fe d hd

theorem nonew_markGone (s : State) (c : Nat) : NoNew s (markGone s c) :=
  (nonew_peerClose s c).trans (nonew_upd _ c _)

theorem nonew_lostConn (s : State) (c : Nat) : NoNew s (lostConn s c) :=
  (nonew_connectionLost s c).trans (nonew_markGone _ c)

theorem nonew_doSubscribe (s : State) (c : Nat) (ch : Bytes) (ok : Bool) : NoNew s (doSubscribe s c ch ok) :=
  (nonew_subscribe s c ch).trans (nonew_upd _ c _)

theorem nonew_doUnsubscribe (s : State) (c : Nat) (ch : Bytes) : NoNew s (doUnsubscribe s c ch) :=
  (nonew_unsubscribe s c ch).trans (nonew_upd _ c _)

theorem nonew_armDeadline (s : State) (c : Nat) : NoNew s (armDeadline s c) :=
  NoNew.trans (nonew_upd s c _) (nonew_logAct _ c _)

theorem nonew_clearDeadline (s : State) (c : Nat) (a : Act) : NoNew s (clearDeadline s c a) :=
  NoNew.trans (nonew_upd s c _) (nonew_logAct _ c _)

/-- a per-record property that survives every `ConnMono` change and holds of every fresh record -/
structure RecInv (cfg : Cfg) (I : Conn → Prop) : Prop where
  mono : ∀ y y', ConnMono y y' → I y → I y'
  fresh : ∀ (now : Nat) (nonce : Bytes),
    I { nonce := nonce, out := [(now, .write ⟨UInt8.ofNat OP_INFO, pack8 cfg.name ++ nonce⟩)] }

theorem recInv_of {cfg : Cfg} {I : Conn → Prop} (hI : RecInv cfg I) {s s' : State}
    (hm : Mono s s') (hn : NoNew s s') (h : ∀ d y, s.conn d = some y → I y) :
    ∀ d y, s'.conn d = some y → I y := by
  intro d y' hy'
  cases hy : s.conn d with
  | none => rw [hn d hy] at hy'; cases hy'
  | some y =>
    obtain ⟨y2, hy2, m⟩ := hm d y hy
    rw [hy2] at hy'; cases hy'
    exact hI.mono y _ m (h d y hy)

theorem recInvPres {cfg : Cfg} {I : Conn → Prop} (hI : RecInv cfg I) :
    Pres cfg (fun s => ∀ d y, s.conn d = some y → I y) where
  prim := fun c => {
    logAct := fun s a _ h => recInv_of hI (mono_logAct s c a) (nonew_logAct s c a) h
    closeT := fun s h => recInv_of hI (mono_closeT s c) (nonew_closeT s c) h
    crashClose := fun s h => recInv_of hI (mono_crashClose s c) (nonew_crashClose s c) h
    doSubscribe := fun s ch ok _ _ _ _ _ _ h => recInv_of hI (mono_doSubscribe s c ch ok) (nonew_doSubscribe s c ch ok) h
    doUnsubscribe := fun s ch _ _ _ _ h => recInv_of hI (mono_doUnsubscribe s c ch) (nonew_doUnsubscribe s c ch) h
    setAuth := fun s i d row _ _ _ h => recInv_of hI (mono_setAuth s c i d row) (nonew_setAuth s c i d row) h
    pauseReading := fun s h => recInv_of hI (mono_pauseReading s c) (nonew_pauseReading s c) h
    resumeReading := fun s h => recInv_of hI (mono_resumeReading s c) (nonew_resumeReading s c) h
    addPending := fun s _ _ h => recInv_of hI
      (mono_local s c _ fun _ => ⟨rfl, rfl, rfl, rfl, rfl, rfl, rfl⟩) (nonew_upd s c _) h
    dropPending := fun s _ h => recInv_of hI
      (mono_local s c _ fun _ => ⟨rfl, rfl, rfl, rfl, rfl, rfl, rfl⟩) (nonew_upd s c _) h
    setBuf := fun s _ h => recInv_of hI
      (mono_local s c _ fun _ => ⟨rfl, rfl, rfl, rfl, rfl, rfl, rfl⟩) (nonew_upd s c _) h
    publish := fun s x i ch p _ _ _ _ h => recInv_of hI (mono_publish s c x i ch p) (nonew_publish s c x i ch p) h
    addConn := fun s n hc h => by
      intro d y hy
      simp only [addConn] at hy
      by_cases hd : d = c
      · simp only [hd, if_true, Option.some.injEq] at hy
        rw [← hy]; exact hI.fresh s.now n
      · simp only [hd, if_false] at hy; exact h d y hy
    peerClose := fun s h => recInv_of hI (mono_peerClose s c) (nonew_peerClose s c) h
    lostConn := fun s _ _ _ h => recInv_of hI (mono_lostConn s c) (nonew_lostConn s c) h
    armDeadline := fun s h => recInv_of hI (mono_armDeadline s c) (nonew_armDeadline s c) h
    clearDeadline := fun s a _ h => recInv_of hI (mono_clearDeadline s c a) (nonew_clearDeadline s c a) h }
  tick := fun s ms h => h

theorem recInv_run {cfg : Cfg} {I : Conn → Prop} (hI : RecInv cfg I) (es : List Event) :
    ∀ d y, (run cfg es).conn d = some y → I y :=
  pres_run (recInvPres hI) (by intro d y h; simp [init] at h) es

/-- every connection's action log begins with the OP_INFO challenge carrying the server name and that
    connection's own nonce -/
def InfoFirst (cfg : Cfg) (x : Conn) : Prop :=
  ∃ t rest, x.out = (t, .write ⟨UInt8.ofNat OP_INFO, pack8 cfg.name ++ x.nonce⟩) :: rest

theorem infoFirst_recInv (cfg : Cfg) : RecInv cfg (InfoFirst cfg) where
  mono := by
    intro y y' m ⟨t, rest, h⟩
    obtain ⟨extra, he⟩ := m.out
    exact ⟨t, rest ++ extra, by rw [← he, h, m.nonce]; rfl⟩
  fresh := fun now nonce => ⟨now, [], rfl⟩

end Hpfeeds.Broker
