/-
  asyncio / Twisted session: the `handed` outputs ARE the ghost log of C12 (what the harness compares with the
  values the real read() calls return).
-/
import Hpfeeds.Lemmas.AioClient
namespace Hpfeeds.AioClient
open Hpfeeds Extracted

/-- the value a `handed` output carries -/
def handedOf : Out → Option Message
  | .handed m => some m
  | _ => none

/-- `f` adds to the ghost log exactly the messages its outputs hand over -/
def Tr (s : State) (r : State × List Out) : Prop := r.1.handedLog = s.handedLog ++ r.2.filterMap handedOf

theorem tr_write (s : State) (b : Bytes) : Tr s (write s b) := by
  unfold write Tr; split
  · simp
  · split <;> simp [handedOf]

theorem tr_closeT (s : State) : Tr s (closeT s) := by
  unfold closeT Tr; split
  · simp
  · split <;> simp [handedOf]

theorem tr_trans {s : State} {r : State × List Out} {t : State × List Out} (h1 : Tr s r) (h2 : Tr r.1 t) :
    Tr s (t.1, r.2 ++ t.2) := by
  unfold Tr at *
  simp only [List.filterMap_append]
  rw [h2, h1, List.append_assoc]

theorem tr_writeAll (s : State) (bs : List Bytes) : Tr s (writeAll s bs) := by
  unfold writeAll
  suffices ∀ (acc : State × List Out), Tr s acc →
      Tr s (bs.foldl (fun acc b => let r := write acc.1 b; (r.1, acc.2 ++ r.2)) acc) from
    this (s, []) (by simp [Tr])
  induction bs with
  | nil => intro acc h; exact h
  | cons b bs ih => intro acc h; simp only [List.foldl_cons]; exact ih _ (tr_trans h (tr_write acc.1 b))

theorem tr_deliver (s : State) (m : Message) : Tr s (deliver s m) := by
  unfold deliver Tr
  simp only
  split <;> simp [handedOf]

theorem tr_refl (s : State) : Tr s (s, []) := by simp [Tr]

theorem tr_of_log_eq {s s' : State} {o : List Out} (h : s'.handedLog = s.handedLog) (ho : o.filterMap handedOf = []) :
    Tr s (s', o) := by simp [Tr, h, ho]

theorem tr_onFrame (cfg : Cfg) (s : State) (f : Frame) : Tr s ((onFrame cfg s f).1, (onFrame cfg s f).2.1) := by
  unfold onFrame
  cases read f with
  | none => exact tr_closeT s
  | some e =>
    cases e with
    | error _ => exact tr_refl s
    | ok m =>
      cases m with
      | error _ => exact tr_refl s
      | auth _ _ => exact tr_closeT s
      | subscribe _ _ => exact tr_closeT s
      | unsubscribe _ _ => exact tr_closeT s
      | publish i c p => exact tr_deliver s (i, c, p)
      | info n rand =>
        simp only
        cases hc : s.conn with
        | none => exact tr_refl s
        | some c =>
          simp only
          have h1 := tr_write s (authFrame cfg rand)
          generalize write s (authFrame cfg rand) = r1 at h1 ⊢
          have h2 : ∀ s2 : State, s2.handedLog = r1.1.handedLog →
              Tr s ((writeAll s2 (List.map (subFrame cfg) (sortBytes s.subs))).1,
                    r1.2 ++ (writeAll s2 (List.map (subFrame cfg) (sortBytes s.subs))).2) := by
            intro s2 h2
            have h3 := tr_writeAll s2 (List.map (subFrame cfg) (sortBytes s.subs))
            unfold Tr at *
            simp only [List.filterMap_append]
            rw [h3, h2, h1, List.append_assoc]
          cases hrc : r1.1.conn with
          | none => exact h2 _ rfl
          | some c' => exact h2 _ rfl

theorem tr_noteFrame (s : State) (f : Frame) : (noteFrame s f).handedLog = s.handedLog := rfl

theorem tr_loop (cfg : Cfg) : ∀ (buf : Bytes) (s : State), Tr s ((loop cfg s buf).1, (loop cfg s buf).2.1) := by
  intro buf
  induction hn : buf.length using Nat.strongRecOn generalizing buf with
  | _ n ih =>
    intro s
    rw [loop]
    split
    · exact tr_refl s
    · exact tr_closeT s
    · rename_i ml op hh
      have hk := header_ok hh
      have h1 : Tr s ((onFrame cfg (noteFrame s (popFrame buf ml op).1) (popFrame buf ml op).1).1,
          (onFrame cfg (noteFrame s (popFrame buf ml op).1) (popFrame buf ml op).1).2.1) := by
        have := tr_onFrame cfg (noteFrame s (popFrame buf ml op).1) (popFrame buf ml op).1
        unfold Tr at *; rw [this]; rfl
      simp only
      split
      · exact h1
      · have h2 := ih _ (by simp only [popFrame, List.length_drop]; omega) (popFrame buf ml op).2 rfl
          (onFrame cfg (noteFrame s (popFrame buf ml op).1) (popFrame buf ml op).1).1
        exact tr_trans h1 h2

/-- `stepK`: what it appends to `pre` hands over exactly what it appends to the ghost log -/
def TrK (s : State) (pre : List Out) (r : State × List Out) : Prop :=
  ∃ d, r.2.filterMap handedOf = pre.filterMap handedOf ++ d ∧ r.1.handedLog = s.handedLog ++ d

theorem trK_same {s s' : State} (pre : List Out) (h : s'.handedLog = s.handedLog) : TrK s pre (s', pre) :=
  ⟨[], by simp, by simp [h]⟩

theorem trK_of_tr {s : State} {s1 : State} (pre : List Out) (hs : s1.handedLog = s.handedLog) {r : State × List Out}
    (h : Tr s1 r) : TrK s pre (r.1, pre ++ r.2) :=
  ⟨r.2.filterMap handedOf, by simp, by unfold Tr at h; rw [h, hs]⟩

theorem trK_stepK (cfg : Cfg) (s : State) (pre : List Out) (e : Ev) : TrK s pre (stepK cfg s pre e) := by
  unfold stepK
  cases e with
  | idle => exact trK_same pre rfl
  | start => simp only; split
             · exact ⟨[], by simp [handedOf], by simp⟩
             · exact trK_same pre rfl
  | sub ch =>
    simp only; split
    · exact trK_same pre rfl
    · split
      · exact trK_of_tr pre rfl (tr_write _ _)
      · exact trK_same pre rfl
  | unsub ch =>
    simp only; split
    · split
      · exact trK_of_tr pre rfl (tr_write _ _)
      · exact trK_same pre rfl
    · exact trK_same pre rfl
  | pub ch p =>
    simp only; split
    · exact trK_of_tr pre rfl (tr_write _ _)
    · exact trK_same pre rfl
  | read =>
    simp only; split
    · rename_i m q _
      exact ⟨[m], by simp [handedOf], rfl⟩
    · exact trK_same pre rfl
  | close =>
    simp only; split
    · exact trK_same pre rfl
    · split
      · split
        · exact ⟨[], by simp [handedOf], by simp⟩
        · have h := tr_closeT { s with closing := true, closeCalled := true }
          refine ⟨(closeT { s with closing := true, closeCalled := true }).2.filterMap handedOf, by simp, ?_⟩
          unfold Tr at h
          exact h
      · exact ⟨[], by simp [handedOf], by simp⟩
  | accept => simp only; split <;> exact trK_same pre rfl
  | refuse => simp only; split <;> exact trK_same pre rfl
  | advance ms =>
    simp only; split
    · split
      · exact ⟨[], by simp [handedOf], by simp⟩
      · exact trK_same pre rfl
    · exact trK_same pre rfl
  | lost =>
    simp only; split
    · exact trK_same pre rfl
    · split
      · exact trK_same pre rfl
      · split
        · refine ⟨[], ?_, by simp⟩
          simp only [List.filterMap_append, List.append_nil]
          split <;> simp [handedOf]
        · split
          · exact ⟨[], by simp [handedOf], by simp⟩
          · exact trK_same pre rfl
  | data b =>
    simp only; split
    · exact trK_same pre rfl
    · rename_i c hc
      split
      · exact trK_same pre rfl
      · have h := tr_loop cfg (c.buf ++ b) { s with conn := some { c with inbound := c.inbound ++ b } }
        generalize loop cfg { s with conn := some { c with inbound := c.inbound ++ b } } (c.buf ++ b) = r at h ⊢
        refine ⟨r.2.1.filterMap handedOf, ?_, ?_⟩
        · simp only [List.filterMap_append, List.append_assoc]
          split <;> simp [handedOf]
        · unfold Tr at h
          simp only at h ⊢
          cases hrc : r.1.conn with
          | none => simp only; exact h
          | some c' => simp only; exact h

theorem kick_tr (cfg : Cfg) (s : State) : (kick cfg s).1.handedLog = s.handedLog ∧ (kick cfg s).2.filterMap handedOf = [] := by
  unfold kick; split <;> simp [handedOf]

/-- one event: the `handed` outputs are exactly what was appended to the ghost log -/
theorem tr_step (cfg : Cfg) (s : State) (e : Ev) : Tr s (step cfg s e) := by
  unfold step
  obtain ⟨d, h1, h2⟩ := trK_stepK cfg (kick cfg s).1 (kick cfg s).2 e
  obtain ⟨k1, k2⟩ := kick_tr cfg s
  unfold Tr
  rw [h2, h1, k1, k2, List.nil_append]

/-- THE OBSERVABLE FORM: over any event sequence, the values the `handed` outputs carry — what the harness
    compares with the values the real read() calls return — are exactly the ghost log of C12. -/
theorem run_handed (cfg : Cfg) (es : List Ev) : (run cfg es).2.filterMap handedOf = (run cfg es).1.handedLog := by
  unfold run
  suffices ∀ (acc : State × List Out), acc.2.filterMap handedOf = acc.1.handedLog →
      (es.foldl (fun acc e => let r := step cfg acc.1 e; (r.1, acc.2 ++ r.2)) acc).2.filterMap handedOf =
      (es.foldl (fun acc e => let r := step cfg acc.1 e; (r.1, acc.2 ++ r.2)) acc).1.handedLog from
    this ({}, []) rfl
  induction es with
  | nil => intro acc h; exact h
  | cons e es ih =>
    intro acc h
    simp only [List.foldl_cons]
    apply ih
    have := tr_step cfg acc.1 e
    unfold Tr at this
    simp only [List.filterMap_append]
    rw [this, h]

end Hpfeeds.AioClient
