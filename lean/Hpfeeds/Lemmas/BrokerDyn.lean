/-
  Histories under a credential store that changes while the broker runs (`runS`): every invariant that is
  preserved by the primitives under EVERY store (`Pres`) holds after every such history.
-/
import Hpfeeds.Lemmas.BrokerAuth
import Hpfeeds.Lemmas.BrokerRec
import Hpfeeds.Lemmas.BrokerGauge
import Hpfeeds.Lemmas.BrokerLast
import Hpfeeds.Lemmas.BrokerTime
namespace Hpfeeds.Broker
open Hpfeeds Extracted

@[simp] theorem withStore_H (cfg : Cfg) (st : Store) : (cfg.withStore st).H = cfg.H := rfl
@[simp] theorem withStore_name (cfg : Cfg) (st : Store) : (cfg.withStore st).name = cfg.name := rfl
@[simp] theorem withStore_store (cfg : Cfg) (st : Store) : (cfg.withStore st).store = st := rfl
theorem withStore_self (cfg : Cfg) : cfg.withStore cfg.store = cfg := rfl

/-- a fixed store is the special case -/
theorem run_eq_runS (cfg : Cfg) (es : List Event) : run cfg es = runS cfg (es.map fun e => (cfg.store, e)) := by
  unfold run runS
  rw [List.foldl_map]
  rfl

/-- the induction principle for changing stores -/
theorem pres_runS {P : State → Prop} (cfg : Cfg) (hp : ∀ st, Pres (cfg.withStore st) P) (h0 : P init)
    (es : List (Store × Event)) : P (runS cfg es) := by
  unfold runS
  suffices ∀ s, P s → P (es.foldl (fun s se => step (cfg.withStore se.1) s se.2) s) from this _ h0
  induction es with
  | nil => intro s h; exact h
  | cons e es ih => intro s h; exact ih _ (pres_step (hp e.1) s e.2 h)

/-- the authentication invariant mentions the configuration only through the hash -/
theorem authInv_withStore (cfg : Cfg) (st : Store) : AuthInv (cfg.withStore st) = AuthInv cfg := by
  funext s
  apply propext
  constructor
  · intro h c x hx; exact ⟨(h c x hx).pre, (h c x hx).post, (h c x hx).digests⟩
  · intro h c x hx; exact ⟨(h c x hx).pre, (h c x hx).post, (h c x hx).digests⟩

theorem auth_runS (cfg : Cfg) (es : List (Store × Event)) : AuthInv cfg (runS cfg es) :=
  pres_runS cfg (fun st => authInv_withStore cfg st ▸ authPres (cfg.withStore st)) (by intro d y h; simp [init] at h) es

theorem reg_runS (cfg : Cfg) (es : List (Store × Event)) : Reg (runS cfg es) :=
  pres_runS cfg (fun st => regPres (cfg.withStore st)) reg_init es

theorem deliv_runS (cfg : Cfg) (es : List (Store × Event)) : Deliv (runS cfg es) :=
  (pres_runS cfg (fun st => regDelivPres (cfg.withStore st)) ⟨reg_init, deliv_init⟩ es).2

theorem recipAuth_runS (cfg : Cfg) (es : List (Store × Event)) : RecipAuth (runS cfg es) :=
  (pres_runS (P := fun s => (Reg s ∧ AuthInv cfg s) ∧ RecipAuth s) cfg
    (fun st => authInv_withStore cfg st ▸ regAuthRecipPres (cfg.withStore st))
    ⟨⟨reg_init, by intro d y h; simp [init] at h⟩, by intro a ha; simp [init] at ha⟩ es).2

theorem recInv_runS {cfg : Cfg} {I : Conn → Prop} (hI : ∀ st, RecInv (cfg.withStore st) I)
    (es : List (Store × Event)) : ∀ d y, (runS cfg es).conn d = some y → I y :=
  pres_runS cfg (fun st => recInvPres (hI st)) (by intro d y h; simp [init] at h) es

/-! the remaining broker invariants: the store enters a history only through the row handed to `setAuth`, and
    each invariant is preserved by `setAuth` for EVERY row (`PresAt.setAuth`), hence under every store -/

/-- C19's gauge invariant -/
theorem gauge_runS (cfg : Cfg) (es : List (Store × Event)) : Gauge (runS cfg es) :=
  (pres_runS cfg (fun st => regGaugePres (cfg.withStore st)) ⟨reg_init, gauge_init⟩ es).2

/-- C09 / C19: unregistered ⇒ closing -/
theorem uc_runS (cfg : Cfg) (es : List (Store × Event)) : UnregClosing (runS cfg es) :=
  pres_runS cfg (fun st => ucPres (cfg.withStore st)) (by intro d y h; simp [init] at h) es

/-- C08's refinement to the request log -/
theorem last_runS (cfg : Cfg) (es : List (Store × Event)) : LastInv (runS cfg es) :=
  (pres_runS cfg (fun st => regLastPres (cfg.withStore st)) ⟨reg_init, by intro d y h; simp [init] at h⟩ es).2

/-- C15's deadline invariant -/
theorem dl_runS (cfg : Cfg) (es : List (Store × Event)) : DeadlineInv (runS cfg es) :=
  pres_runS cfg (fun st => dlPres (cfg.withStore st)) (by intro d y h; simp [init] at h) es

end Hpfeeds.Broker
