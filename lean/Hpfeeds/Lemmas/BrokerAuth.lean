/-
  Authentication invariant: an unauthenticated connection holds nothing; an authenticated one got there
  through `setAuth`, i.e. with a digest equal to H(its own nonce ++ the secret of the row the store
  returned for the claimed ident), and carries that row's ACLs.
-/
import Hpfeeds.Lemmas.BrokerFrame
namespace Hpfeeds.Broker
open Hpfeeds Extracted

structure AuthOK (cfg : Cfg) (x : Conn) : Prop where
  pre : x.ak = none → x.active = [] ∧ x.granted = [] ∧ x.authed = [] ∧ x.pubchans = [] ∧ x.subchans = []
  post : ∀ i, x.ak = some i → ∃ d row, x.authed.getLast? = some (i, d, row) ∧
    x.pubchans = row.pubchans ∧ x.subchans = row.subchans
  digests : ∀ e ∈ x.authed, cfg.H (x.nonce ++ e.2.2.secret) = e.2.1

def AuthInv (cfg : Cfg) (s : State) : Prop := ∀ c x, s.conn c = some x → AuthOK cfg x

/-- a record change that keeps the authentication fields and does not invent subscriptions for an
    unauthenticated connection -/
theorem authOK_same {cfg : Cfg} {x y : Conn} (k : AuthOK cfg x) (hak : y.ak = x.ak) (hau : y.authed = x.authed)
    (hp : y.pubchans = x.pubchans) (hs : y.subchans = x.subchans) (hn : y.nonce = x.nonce)
    (hpre : x.ak = none → y.active = [] ∧ y.granted = []) : AuthOK cfg y := by
  refine ⟨fun h => ?_, fun i h => ?_, fun e he => ?_⟩
  · rw [hak] at h
    obtain ⟨_, _, a3, a4, a5⟩ := k.pre h
    exact ⟨(hpre h).1, (hpre h).2, by rw [hau]; exact a3, by rw [hp]; exact a4, by rw [hs]; exact a5⟩
  · rw [hak] at h; rw [hau, hp, hs]; exact k.post i h
  · rw [hau] at he; rw [hn]; exact k.digests e he

theorem authInv_of_conn {cfg : Cfg} {s s' : State}
    (hc : ∀ d y', s'.conn d = some y' → ∃ y, s.conn d = some y ∧ (AuthOK cfg y → AuthOK cfg y'))
    (h : AuthInv cfg s) : AuthInv cfg s' := by
  intro d y' hy'
  obtain ⟨y, hy, k⟩ := hc d y' hy'
  exact k (h d y hy)

theorem authInv_upd {cfg : Cfg} {s : State} (c : Nat) (f : Conn → Conn)
    (hf : ∀ x, AuthOK cfg x → AuthOK cfg (f x)) (h : AuthInv cfg s) : AuthInv cfg (s.upd c f) := by
  refine authInv_of_conn ?_ h
  intro d y' hy'
  simp only [upd_conn] at hy'
  by_cases hd : d = c
  · subst hd
    cases hx : s.conn d with
    | none => simp [hx] at hy'
    | some x => simp [hx] at hy'; subst hy'; exact ⟨x, rfl, hf x⟩
  · simp only [hd, if_false] at hy'; exact ⟨y', hy', id⟩

/-- field updates that do not touch ak / authed / ACLs / nonce / active / granted -/
theorem authInv_local {cfg : Cfg} {s : State} (c : Nat) (f : Conn → Conn)
    (hf : ∀ x, (f x).ak = x.ak ∧ (f x).authed = x.authed ∧ (f x).pubchans = x.pubchans ∧
      (f x).subchans = x.subchans ∧ (f x).nonce = x.nonce ∧ (f x).active = x.active ∧
      (f x).granted = x.granted) (h : AuthInv cfg s) : AuthInv cfg (s.upd c f) := by
  refine authInv_upd c f (fun x k => ?_) h
  obtain ⟨a, b, c', d, e, g, i⟩ := hf x
  exact authOK_same k a b c' d e (fun hk => by rw [g, i]; exact ⟨(k.pre hk).1, (k.pre hk).2.1⟩)

theorem authInv_logAct {cfg : Cfg} {s : State} (c : Nat) (a : Act) (h : AuthInv cfg s) :
    AuthInv cfg (logAct s c a) :=
  authInv_local c _ (fun _ => ⟨rfl, rfl, rfl, rfl, rfl, rfl, rfl⟩) h

theorem beginClose_auth_fields (x : Conn) :
    x.beginClose.ak = x.ak ∧ x.beginClose.authed = x.authed ∧ x.beginClose.pubchans = x.pubchans ∧
    x.beginClose.subchans = x.subchans ∧ x.beginClose.nonce = x.nonce ∧ x.beginClose.active = x.active ∧
    x.beginClose.granted = x.granted := by
  unfold Conn.beginClose; split <;> simp

theorem authInv_closeT {cfg : Cfg} {s : State} (c : Nat) (h : AuthInv cfg s) : AuthInv cfg (closeT s c) := by
  refine authInv_local c _ (fun x => ?_) h
  by_cases hc : x.closing = true
  · rw [if_pos hc]; exact ⟨rfl, rfl, rfl, rfl, rfl, rfl, rfl⟩
  · rw [if_neg hc]; exact beginClose_auth_fields x

theorem authInv_beginClose {cfg : Cfg} {s : State} (c : Nat) (h : AuthInv cfg s) :
    AuthInv cfg (s.upd c Conn.beginClose) :=
  authInv_local c _ beginClose_auth_fields h

theorem authInv_peerClose {cfg : Cfg} {s : State} (c : Nat) (h : AuthInv cfg s) : AuthInv cfg (peerClose s c) := by
  unfold peerClose
  split
  · exact h
  · split
    · exact h
    · exact authInv_beginClose c (authInv_logAct c _ h)

theorem authInv_pauseReading {cfg : Cfg} {s : State} (c : Nat) (h : AuthInv cfg s) :
    AuthInv cfg (pauseReading s c) := by
  unfold pauseReading
  split
  · split
    · exact h
    · exact authInv_logAct c _ (authInv_local c _ (fun _ => ⟨rfl, rfl, rfl, rfl, rfl, rfl, rfl⟩) h)
  · exact h

theorem authInv_resumeReading {cfg : Cfg} {s : State} (c : Nat) (h : AuthInv cfg s) :
    AuthInv cfg (resumeReading s c) := by
  unfold resumeReading
  split
  · split
    · exact h
    · exact authInv_logAct c _ (authInv_local c _ (fun _ => ⟨rfl, rfl, rfl, rfl, rfl, rfl, rfl⟩) h)
  · exact h

theorem authInv_setAuth {cfg : Cfg} {s : State} (c : Nat) (i d : Bytes) (row : Row) (x : Conn)
    (hx : s.conn c = some x) (hd : cfg.H (x.nonce ++ row.secret) = d) (h : AuthInv cfg s) :
    AuthInv cfg (setAuth s c i d row) := by
  unfold setAuth
  rw [hx]
  intro d' y' hy'
  simp only [upd_conn] at hy'
  by_cases hdc : d' = c
  · subst hdc
    simp only [if_true, hx, Option.map_some, Option.some.injEq] at hy'
    subst hy'
    have k := h _ x hx
    refine ⟨(fun hk => by cases hk), fun j hj => ?_, fun e he => ?_⟩
    · simp only [Option.some.injEq] at hj; subst hj
      exact ⟨d, row, by simp, rfl, rfl⟩
    · simp only [List.mem_append, List.mem_singleton] at he
      rcases he with he | he
      · exact k.digests e he
      · subst he; exact hd
  · simp only [hdc, if_false] at hy'; exact h d' y' hy'

theorem authInv_doSubscribe {cfg : Cfg} {s : State} (c : Nat) (ch : Bytes) (ok : Bool) (x : Conn)
    (hx : s.conn c = some x) (hak : x.ak ≠ none) (h : AuthInv cfg s) : AuthInv cfg (doSubscribe s c ch ok) := by
  intro d y' hy'
  unfold doSubscribe noteSub at hy'
  simp only [upd_conn] at hy'
  by_cases hd : d = c
  · subst hd
    simp only [if_true, subscribe_conn hx, Option.map_some, Option.some.injEq] at hy'
    have k := h _ x hx
    rw [← hy']
    exact authOK_same k rfl rfl rfl rfl rfl (fun hk => absurd hk hak)
  · simp only [hd, if_false, subscribe_conn_ne hd] at hy'; exact h d y' hy'

theorem authInv_doUnsubscribe {cfg : Cfg} {s : State} (c : Nat) (ch : Bytes) (h : AuthInv cfg s) :
    AuthInv cfg (doUnsubscribe s c ch) := by
  intro d y' hy'
  unfold doUnsubscribe noteUnsub at hy'
  simp only [upd_conn] at hy'
  by_cases hd : d = c
  · subst hd
    cases hx : s.conn d with
    | none => rw [unsubscribe_none hx, hx] at hy'; simp at hy'
    | some x =>
      simp only [if_true, unsubscribe_conn hx, Option.map_some, Option.some.injEq] at hy'
      have k := h _ x hx
      rw [← hy']
      exact authOK_same k rfl rfl rfl rfl rfl (fun hk => by
        obtain ⟨a1, a2, _⟩ := k.pre hk
        simp [a1, a2])
  · simp only [hd, if_false, unsubscribe_conn_ne hd] at hy'; exact h d y' hy'

theorem authInv_connectionLost {cfg : Cfg} {s : State} (c : Nat) (h : AuthInv cfg s) :
    AuthInv cfg (connectionLost s c) := by
  intro d y' hy'
  by_cases hd : d = c
  · subst hd
    cases hx : s.conn d with
    | none =>
      have : connectionLost s d = s := by unfold connectionLost; rw [hx]
      rw [this, hx] at hy'; cases hy'
    | some x =>
      have k := h _ x hx
      obtain ⟨l, hsub, hl | ⟨hl, _⟩⟩ := connectionLost_conn' hx
      · rw [hl] at hy'; cases hy'
        exact authOK_same k rfl rfl rfl rfl rfl (fun hk => by
          obtain ⟨a1, a2, _⟩ := k.pre hk
          refine ⟨?_, a2⟩
          cases l with
          | nil => rfl
          | cons b l => have := hsub b (by simp); rw [a1] at this; cases this)
      · rw [hl] at hy'; cases hy'; exact k
  · rw [connectionLost_conn_ne hd] at hy'; exact h d y' hy'

theorem authInv_publish {cfg : Cfg} {s : State} (c : Nat) (x : Conn) (i ch p : Bytes) (h : AuthInv cfg s) :
    AuthInv cfg (publish s c x i ch p) := by
  intro d y' hy'
  cases hy : s.conn d with
  | none => rw [nonew_publish s c x i ch p d hy] at hy'; cases hy'
  | some y =>
    obtain ⟨y2, hy2, extra, r, _, _⟩ := publish_othersRel s c x i ch p d y hy
    rw [hy2] at hy'; cases hy'
    have k := h d y hy
    have e := r.eq
    refine authOK_same k (by rw [e]) (by rw [e]) (by rw [e]) (by rw [e]) (by rw [e]) (fun hk => ?_)
    obtain ⟨a1, a2, _⟩ := k.pre hk
    refine ⟨?_, by rw [e]; exact a2⟩
    cases hact : y'.active with
    | nil => rfl
    | cons b l => have := r.active b (by rw [hact]; simp); rw [a1] at this; cases this

theorem authInv_addConn {cfg : Cfg} {s : State} (c : Nat) (n : Bytes) (h : AuthInv cfg s) :
    AuthInv cfg (addConn cfg s c n) := by
  intro d y hy
  simp only [addConn] at hy
  by_cases hd : d = c
  · simp only [hd, if_true, Option.some.injEq] at hy
    rw [← hy]
    exact ⟨fun _ => ⟨rfl, rfl, rfl, rfl, rfl⟩, (fun i hi => by cases hi), (fun e he => by cases he)⟩
  · simp only [hd, if_false] at hy; exact h d y hy

theorem authPres (cfg : Cfg) : Pres cfg (AuthInv cfg) where
  prim := fun c => {
    logAct := fun _ a _ h => authInv_logAct c a h
    closeT := fun _ h => authInv_closeT c h
    crashClose := fun _ h => authInv_beginClose c (authInv_logAct c _ h)
    doSubscribe := fun _ ch ok x hx _ hak _ _ h => authInv_doSubscribe c ch ok x hx hak h
    doUnsubscribe := fun _ ch _ _ _ _ h => authInv_doUnsubscribe c ch h
    setAuth := fun _ i d row x hx hd h => authInv_setAuth c i d row x hx hd h
    pauseReading := fun _ h => authInv_pauseReading c h
    resumeReading := fun _ h => authInv_resumeReading c h
    addPending := fun _ _ _ h => authInv_local c _ (fun _ => ⟨rfl, rfl, rfl, rfl, rfl, rfl, rfl⟩) h
    dropPending := fun _ _ h => authInv_local c _ (fun _ => ⟨rfl, rfl, rfl, rfl, rfl, rfl, rfl⟩) h
    setBuf := fun _ _ h => authInv_local c _ (fun _ => ⟨rfl, rfl, rfl, rfl, rfl, rfl, rfl⟩) h
    publish := fun _ x i ch p _ _ _ _ h => authInv_publish c x i ch p h
    addConn := fun _ n _ h => authInv_addConn c n h
    peerClose := fun _ h => authInv_peerClose c h
    lostConn := fun _ _ _ _ h =>
      authInv_local c _ (fun _ => ⟨rfl, rfl, rfl, rfl, rfl, rfl, rfl⟩) (authInv_peerClose c (authInv_connectionLost c h))
    armDeadline := fun _ h => authInv_logAct c _ (authInv_local c _ (fun _ => ⟨rfl, rfl, rfl, rfl, rfl, rfl, rfl⟩) h)
    clearDeadline := fun _ a _ h => authInv_logAct c a (authInv_local c _ (fun _ => ⟨rfl, rfl, rfl, rfl, rfl, rfl, rfl⟩) h) }
  tick := fun s ms h => fun d y hy => h d y hy

theorem auth_run (cfg : Cfg) (es : List Event) : AuthInv cfg (run cfg es) :=
  pres_run (authPres cfg) (by intro d y h; simp [init] at h) es

/-- every recipient of every accepted publish is (still) an authenticated connection -/
def RecipAuth (s : State) : Prop :=
  ∀ a ∈ s.accepted, ∀ d ∈ a.recips, ∃ y, s.conn d = some y ∧ y.ak.isSome = true

theorem recipAuth_of {s s' : State} (hm : Mono s s') (hacc : s'.accepted = s.accepted) (h : RecipAuth s) :
    RecipAuth s' := by
  intro a ha d hd
  rw [hacc] at ha
  obtain ⟨y, hy, hk⟩ := h a ha d hd
  obtain ⟨y', hy', m⟩ := hm d y hy
  exact ⟨y', hy', m.ak hk⟩

theorem peerClose_accepted (s : State) (c : Nat) : (peerClose s c).accepted = s.accepted := by
  unfold peerClose; split
  · rfl
  · split <;> rfl

theorem setAuth_accepted (s : State) (c : Nat) (i d : Bytes) (row : Row) :
    (setAuth s c i d row).accepted = s.accepted := by
  unfold setAuth; split <;> rfl

theorem pauseReading_accepted (s : State) (c : Nat) : (pauseReading s c).accepted = s.accepted := by
  unfold pauseReading; split
  · split <;> rfl
  · rfl

theorem resumeReading_accepted (s : State) (c : Nat) : (resumeReading s c).accepted = s.accepted := by
  unfold resumeReading; split
  · split <;> rfl
  · rfl

theorem recipAuth_publish {cfg : Cfg} {s : State} (c : Nat) (x : Conn) (i ch p : Bytes)
    (hr : Reg s) (ha : AuthInv cfg s) (h : RecipAuth s) : RecipAuth (publish s c x i ch p) := by
  obtain ⟨fa, _, fc, _⟩ := foldl_deliver_spec (pubFrame i ch p) (s.subs ch).eraseDups (nodup_eraseDups _) s
  intro a hain d hd
  have hacc : (publish s c x i ch p).accepted =
      ((s.subs ch).eraseDups.foldl (deliver (pubFrame i ch p)) s).accepted ++ [_] := rfl
  rw [hacc, fa, List.mem_append, List.mem_singleton] at hain
  have keep : ∀ d y, s.conn d = some y → y.ak.isSome = true →
      ∃ y', (publish s c x i ch p).conn d = some y' ∧ y'.ak.isSome = true := by
    intro d y hy hk
    obtain ⟨y2, hy2, r⟩ := fc d y hy
    exact ⟨y2, hy2, by rw [r.eq]; exact hk⟩
  rcases hain with hain | hain
  · obtain ⟨y, hy, hk⟩ := h a hain d hd
    exact keep d y hy hk
  · subst hain
    obtain ⟨y, hy, hya, _⟩ := (mem_recipsOf hr).mp hd
    have : y.ak.isSome = true := by
      cases hk : y.ak with
      | none => have := ((ha d y hy).pre hk).1; rw [this] at hya; cases hya
      | some _ => rfl
    exact keep d y hy this

theorem regAuthRecipPres (cfg : Cfg) : Pres cfg (fun s => (Reg s ∧ AuthInv cfg s) ∧ RecipAuth s) where
  prim := fun c => {
    logAct := fun s a pa h => ⟨⟨reg_logAct c a h.1.1, authInv_logAct c a h.1.2⟩,
      recipAuth_of (mono_logAct s c a) rfl h.2⟩
    closeT := fun s h => ⟨⟨reg_closeT c h.1.1, authInv_closeT c h.1.2⟩, recipAuth_of (mono_closeT s c) rfl h.2⟩
    crashClose := fun s h => ⟨⟨reg_crashClose c h.1.1, ((authPres cfg).prim c).crashClose s h.1.2⟩,
      recipAuth_of (mono_crashClose s c) rfl h.2⟩
    doSubscribe := fun s ch ok x hx hr hak a b h =>
      ⟨⟨reg_doSubscribe c ch ok x hx hr h.1.1, authInv_doSubscribe c ch ok x hx hak h.1.2⟩,
       recipAuth_of (mono_doSubscribe s c ch ok) (subscribe_accepted s c ch) h.2⟩
    doUnsubscribe := fun s ch x hx hr hak h =>
      ⟨⟨reg_doUnsubscribe c ch h.1.1, authInv_doUnsubscribe c ch h.1.2⟩,
       recipAuth_of (mono_doUnsubscribe s c ch) (unsubscribe_accepted s c ch) h.2⟩
    setAuth := fun s i d row x hx hd h =>
      ⟨⟨reg_setAuth c i d row h.1.1, authInv_setAuth c i d row x hx hd h.1.2⟩,
       recipAuth_of (mono_setAuth s c i d row) (setAuth_accepted s c i d row) h.2⟩
    pauseReading := fun s h => ⟨⟨reg_pauseReading c h.1.1, authInv_pauseReading c h.1.2⟩,
      recipAuth_of (mono_pauseReading s c) (pauseReading_accepted s c) h.2⟩
    resumeReading := fun s h => ⟨⟨reg_resumeReading c h.1.1, authInv_resumeReading c h.1.2⟩,
      recipAuth_of (mono_resumeReading s c) (resumeReading_accepted s c) h.2⟩
    addPending := fun s i d h => ⟨⟨((regPres cfg).prim c).addPending s i d h.1.1, ((authPres cfg).prim c).addPending s i d h.1.2⟩,
      recipAuth_of (mono_local s c _ fun _ => ⟨rfl, rfl, rfl, rfl, rfl, rfl, rfl⟩) rfl h.2⟩
    dropPending := fun s i h => ⟨⟨((regPres cfg).prim c).dropPending s i h.1.1, ((authPres cfg).prim c).dropPending s i h.1.2⟩,
      recipAuth_of (mono_local s c _ fun _ => ⟨rfl, rfl, rfl, rfl, rfl, rfl, rfl⟩) rfl h.2⟩
    setBuf := fun s b h => ⟨⟨((regPres cfg).prim c).setBuf s b h.1.1, ((authPres cfg).prim c).setBuf s b h.1.2⟩,
      recipAuth_of (mono_local s c _ fun _ => ⟨rfl, rfl, rfl, rfl, rfl, rfl, rfl⟩) rfl h.2⟩
    publish := fun s x i ch p _ _ _ _ h => ⟨⟨reg_publish c x i ch p h.1.1, authInv_publish c x i ch p h.1.2⟩,
      recipAuth_publish c x i ch p h.1.1 h.1.2 h.2⟩
    addConn := fun s n hc h => ⟨⟨reg_addConn c n hc h.1.1, authInv_addConn c n h.1.2⟩,
      recipAuth_of (mono_addConn cfg s c n hc) rfl h.2⟩
    peerClose := fun s h => ⟨⟨reg_peerClose c h.1.1, authInv_peerClose c h.1.2⟩,
      recipAuth_of (mono_peerClose s c) (peerClose_accepted s c) h.2⟩
    lostConn := fun s x hx hg h => ⟨⟨reg_lostConn c x hx h.1.1, ((authPres cfg).prim c).lostConn s x hx hg h.1.2⟩,
      recipAuth_of (mono_lostConn s c) (by
        show (peerClose (connectionLost s c) c).accepted = s.accepted
        rw [peerClose_accepted, connectionLost_accepted]) h.2⟩
    armDeadline := fun s h => ⟨⟨((regPres cfg).prim c).armDeadline s h.1.1, ((authPres cfg).prim c).armDeadline s h.1.2⟩,
      recipAuth_of (mono_armDeadline s c) rfl h.2⟩
    clearDeadline := fun s a ha h => ⟨⟨((regPres cfg).prim c).clearDeadline s a ha h.1.1, ((authPres cfg).prim c).clearDeadline s a ha h.1.2⟩,
      recipAuth_of (mono_clearDeadline s c a) rfl h.2⟩ }
  tick := fun s ms h => ⟨⟨(regPres cfg).tick s ms h.1.1, (authPres cfg).tick s ms h.1.2⟩,
    recipAuth_of (mono_of_conn_eq rfl) rfl h.2⟩

theorem recipAuth_run (cfg : Cfg) (es : List Event) : RecipAuth (run cfg es) :=
  (pres_run (regAuthRecipPres cfg)
    ⟨⟨reg_init, by intro d y h; simp [init] at h⟩, by intro a ha; simp [init] at ha⟩ es).2

end Hpfeeds.Broker
