/-
  A generic induction principle for the broker model: a predicate on states that holds initially and is
  preserved by each named primitive (under the facts available where the model applies it) holds in
  every reachable state — for ALL event histories, no validity assumption.
-/
import Hpfeeds.Model.Broker
namespace Hpfeeds.Broker
open Hpfeeds Extracted

/-- an action that is not the write of an OP_PUBLISH frame -/
def NonPub (a : Act) : Prop := ∀ f, a = .write f → f.op.toNat ≠ OP_PUBLISH

theorem nonPub_err : NonPub (.write errFrame) := by
  intro f h; cases h; decide

/-- the actions the handlers log through `logAct` directly: an OP_ERROR write, the buffer limits,
    effective pause/resume of reading, a crash mark, the peer-closed mark -/
inductive Plain : Act → Prop
  | err : Plain (.write errFrame)
  | limits (hi : Nat) : Plain (.setLimits hi)

theorem Plain.nonPub {a : Act} (h : Plain a) : NonPub a := by
  cases h <;> intro f hf <;> cases hf
  decide

@[simp] theorem upd_conn (s : State) (c : Nat) (f : Conn → Conn) (d : Nat) :
    (s.upd c f).conn d = if d = c then (s.conn d).map f else s.conn d := rfl

theorem upd_conn_self {s : State} {c : Nat} {f : Conn → Conn} {x : Conn} (h : s.conn c = some x) :
    (s.upd c f).conn c = some (f x) := by simp [h]

theorem logAct_conn_self {s : State} {c : Nat} {a : Act} {x : Conn} (h : s.conn c = some x) :
    (logAct s c a).conn c = some { x with out := x.out ++ [(s.now, a)] } := by
  simp [logAct, h]

theorem closeT_conn_self {s : State} {c : Nat} {x : Conn} (h : s.conn c = some x) :
    ∃ y, (closeT s c).conn c = some y ∧ y.registered = x.registered ∧ y.subchans = x.subchans ∧
      y.nonce = x.nonce ∧ y.closing = true ∧ y.ak = x.ak := by
  simp only [closeT, upd_conn, if_true, h, Option.map_some]
  by_cases hc : x.closing = true
  · exact ⟨_, by rw [if_pos hc], rfl, rfl, rfl, hc, rfl⟩
  · refine ⟨_, by rw [if_neg hc], ?_, ?_, ?_, ?_, ?_⟩ <;> simp [Conn.beginClose, hc]

theorem errorClose_conn_self {s : State} {c : Nat} {x : Conn} (h : s.conn c = some x) :
    ∃ y, (errorClose s c).conn c = some y ∧ y.registered = x.registered ∧ y.subchans = x.subchans ∧
      y.nonce = x.nonce ∧ y.closing = true ∧ y.ak = x.ak := by
  obtain ⟨y, h1, h2, h3, h4, h5, h6⟩ := closeT_conn_self (logAct_conn_self (a := .write errFrame) h)
  exact ⟨y, h1, h2, h3, h4, h5, h6⟩

/-- what a frame handler for connection `c` may do, primitive by primitive, with the facts available
    where the model applies it -/
structure PresAt (cfg : Cfg) (c : Nat) (P : State → Prop) : Prop where
  logAct : ∀ s a, Plain a → P s → P (logAct s c a)
  closeT : ∀ s, P s → P (closeT s c)
  crashClose : ∀ s, P s → P (crashClose s c)
  doSubscribe : ∀ s ch ok x, s.conn c = some x → x.registered = true → x.ak ≠ none →
    (ok = true ↔ ch ∈ x.subchans) → (ok = false → x.closing = true) → P s → P (doSubscribe s c ch ok)
  doUnsubscribe : ∀ s ch x, s.conn c = some x → x.registered = true → x.ak ≠ none → P s →
    P (doUnsubscribe s c ch)
  setAuth : ∀ s i d row x, s.conn c = some x → cfg.H (x.nonce ++ row.secret) = d → P s →
    P (setAuth s c i d row)
  pauseReading : ∀ s, P s → P (pauseReading s c)
  resumeReading : ∀ s, P s → P (resumeReading s c)
  addPending : ∀ s i d, P s → P (addPending s c i d)
  dropPending : ∀ s i, P s → P (dropPending s c i)
  setBuf : ∀ s b, P s → P (setBuf s c b)
  publish : ∀ s x i ch p, s.conn c = some x → x.ak = some i → ch ∈ x.pubchans → x.registered = true →
    P s → P (publish s c x i ch p)
  addConn : ∀ s n, s.conn c = none → P s → P (addConn cfg s c n)
  peerClose : ∀ s, P s → P (peerClose s c)
  lostConn : ∀ s x, s.conn c = some x → x.gone = false → P s → P (lostConn s c)
  armDeadline : ∀ s, P s → P (armDeadline s c)
  clearDeadline : ∀ s a, (a = .resumedW ∨ a = .deadlineFired) → P s → P (clearDeadline s c a)

/-- preserved by every primitive at every connection, and by the clock -/
structure Pres (cfg : Cfg) (P : State → Prop) : Prop where
  prim : ∀ c, PresAt cfg c P
  tick : ∀ s ms, P s → P (tick s ms)

variable {cfg : Cfg} {P : State → Prop} {c : Nat}

theorem pres_errorClose (hp : PresAt cfg c P) (s : State) (h : P s) : P (errorClose s c) :=
  hp.closeT _ (hp.logAct _ _ .err h)

theorem authOk_spec {cfg : Cfg} {x : Conn} {d : Bytes} {r : Lookup} {row : Row}
    (h : authOk cfg x d r = some row) : r = .row row ∧ cfg.H (x.nonce ++ row.secret) = d := by
  cases r with
  | row r' =>
    simp only [authOk] at h
    split at h
    · cases h; exact ⟨rfl, by assumption⟩
    · cases h
  | missing => simp [authOk] at h
  | raised => simp [authOk] at h

theorem pres_authenticate (hp : PresAt cfg c P) (s : State) (x x0 : Conn) (i d : Bytes) (r : Lookup)
    (hx : s.conn c = some x0) (hn : x0.nonce = x.nonce) (h : P s) :
    P (authenticate cfg s c x i d r).1 := by
  unfold authenticate
  split
  · rename_i row hok
    have := (authOk_spec hok).2
    exact hp.logAct _ _ (.limits _) (hp.setAuth _ _ _ _ x0 hx (by rw [hn]; exact this) h)
  · exact pres_errorClose hp _ h

def msgOpcode : Msg → Nat
  | .error _ => OP_ERROR | .info _ _ => OP_INFO | .auth _ _ => OP_AUTH
  | .publish _ _ _ => OP_PUBLISH | .subscribe _ _ => OP_SUBSCRIBE | .unsubscribe _ _ => OP_UNSUBSCRIBE

/-- which opcode a successfully read message came from -/
theorem read_op {f : Frame} {m : Msg} (h : read f = some (.ok m)) : f.op.toNat = msgOpcode m := by
  unfold read at h
  split at h
  · rename_i h0
    simp only [Option.some.injEq] at h
    cases hfs : forceStr f.body with
    | error e => simp [hfs, bind, Except.bind] at h
    | ok v => simp [hfs, bind, Except.bind] at h; subst h; exact h0
  · split at h
    · rename_i h1
      simp only [Option.some.injEq] at h
      cases hs : strunpack8 f.body with
      | error e => simp [hs, bind, Except.bind] at h
      | ok v => simp [hs, bind, Except.bind] at h; subst h; exact h1
    · split at h
      · rename_i h2
        simp only [Option.some.injEq] at h
        cases hs : strunpack8 f.body with
        | error e => simp [hs, bind, Except.bind] at h
        | ok v => simp [hs, bind, Except.bind] at h; subst h; exact h2
      · split at h
        · rename_i h3
          simp only [Option.some.injEq] at h
          cases hs : strunpack8 f.body with
          | error e => simp [hs, bind, Except.bind] at h
          | ok v =>
            cases hs2 : strunpack8 v.2 with
            | error e => simp [hs, hs2, bind, Except.bind] at h
            | ok w => simp [hs, hs2, bind, Except.bind] at h; subst h; exact h3
        · split at h
          · rename_i h4
            simp only [Option.some.injEq] at h
            cases hs : strunpack8 f.body with
            | error e => simp [hs, bind, Except.bind] at h
            | ok v =>
              cases hs2 : forceStr v.2 with
              | error e => simp [hs, hs2, bind, Except.bind] at h
              | ok w => simp [hs, hs2, bind, Except.bind] at h; subst h; exact h4
          · split at h
            · rename_i h5
              simp only [Option.some.injEq] at h
              cases hs : strunpack8 f.body with
              | error e => simp [hs, bind, Except.bind] at h
              | ok v =>
                cases hs2 : forceStr v.2 with
                | error e => simp [hs, hs2, bind, Except.bind] at h
                | ok w => simp [hs, hs2, bind, Except.bind] at h; subst h; exact h5
            · cases h

theorem pres_messageReceived (hp : PresAt cfg c P) (s : State) (f : Frame) (h : P s) :
    P (messageReceived cfg s c f).1 := by
  unfold messageReceived
  split
  · exact h
  · rename_i x hx
    split
    · exact pres_errorClose hp _ h
    · rename_i hpre
      split
      · exact hp.closeT _ h
      · exact h
      · rename_i m hm
        have hop := read_op hm
        have hne : ∀ (a b : Bytes), m = .subscribe a b ∨ m = .unsubscribe a b → f.op.toNat ≠ OP_AUTH := by
          intro a b hab
          rcases hab with rfl | rfl <;> (rw [hop]; simp only [msgOpcode]; decide)
        cases m with
        | error t => exact h
        | info n r => exact h
        | auth ident digest =>
          simp only
          split
          · exact h
          · split
            · exact pres_authenticate hp _ x _ _ _ _ hx rfl h
            · exact hp.pauseReading _ (hp.addPending _ _ _ h)
        | publish ident ch p =>
          simp only
          split
          · exact pres_errorClose hp _ h
          · split
            · exact pres_errorClose hp _ h
            · split
              · exact h
              · rename_i h1 h2 h3
                refine hp.publish _ _ _ _ _ hx ?_ ?_ ?_ h
                · simp only [ne_eq, Decidable.not_not] at h1; exact h1.symm
                · simpa using h2
                · simpa using h3
        | subscribe ident ch =>
          have hak : x.ak ≠ none := by
            intro hk; exact hpre ⟨hk, hne _ _ (Or.inl rfl)⟩
          simp only
          by_cases hsub : ch ∈ x.subchans
          · simp only [hsub, if_true]
            split
            · exact h
            · rename_i hreg
              exact hp.doSubscribe _ _ _ x hx (by simpa using hreg) hak (by simp [hsub]) (by simp [hsub]) h
          · simp only [hsub, if_false]
            split
            · exact pres_errorClose hp _ h
            · rename_i hreg
              obtain ⟨y, hy, hr, hs, _, hc, hk⟩ := errorClose_conn_self hx
              refine hp.doSubscribe _ _ _ y hy ?_ ?_ ?_ ?_ (pres_errorClose hp _ h)
              · rw [hr]; simpa using hreg
              · rw [hk]; exact hak
              · rw [hs]; simp [hsub]
              · intro _; exact hc
        | unsubscribe ident ch =>
          have hak : x.ak ≠ none := by
            intro hk; exact hpre ⟨hk, hne _ _ (Or.inr rfl)⟩
          simp only
          split
          · exact h
          · rename_i hreg
            exact hp.doUnsubscribe _ _ x hx (by simpa using hreg) hak h

theorem pres_loop (hp : PresAt cfg c P) (s : State) (buf : Bytes) (h : P s) :
    P (loop cfg c s buf).1 := by
  induction hn : buf.length using Nat.strongRecOn generalizing s buf with
  | _ n ih =>
    rw [loop]
    split
    · exact h
    · exact hp.closeT _ h
    · rename_i ml op hh
      have hk := header_ok hh
      have hm := pres_messageReceived hp s (popFrame buf ml op).1 h
      simp only
      split
      · exact ih _ (by simp only [popFrame, List.length_drop]; omega) _ _ hm rfl
      · exact hm

/-- the connection an event is about -/
def Event.target : Event → Option Nat
  | .connect c _ => some c
  | .data c _ => some c
  | .eof c => some c
  | .lost c => some c
  | .lookupDone c _ _ => some c
  | .pause c => some c
  | .resume c => some c
  | .fire c => some c
  | .advance _ => none

/-- one event only needs preservation by the primitives at its own target connection -/
theorem pres_step_at (s : State) (e : Event) (hp : ∀ c, e.target = some c → PresAt cfg c P)
    (ht : ∀ ms, e = .advance ms → P s → P (tick s ms)) (h : P s) : P (step cfg s e) := by
  cases e with
  | connect c nonce =>
    have hp := hp c rfl
    simp only [step]
    split
    · exact h
    · rename_i hc; exact hp.addConn _ _ hc h
  | data c b =>
    have hp := hp c rfl
    simp only [step]
    split
    · exact h
    · rename_i x hx
      have := hp.setBuf _ (loop cfg c s (x.buf ++ b)).2.1 (pres_loop hp s (x.buf ++ b) h)
      split
      · exact hp.crashClose _ this
      · exact this
  | eof c => exact (hp c rfl).peerClose _ h
  | lost c =>
    have hp := hp c rfl
    simp only [step]
    split
    · exact h
    · rename_i x hx
      split
      · exact h
      · rename_i hg; exact hp.lostConn _ x hx (by simpa using hg) h
  | lookupDone c i r =>
    have hp := hp c rfl
    simp only [step]
    split
    · exact h
    · rename_i x hx
      split
      · exact h
      · rename_i ident digest _
        have h0 := hp.dropPending s i h
        have hx0 : (dropPending s c i).conn c = some { x with pending := x.pending.eraseIdx i } := by
          simp [dropPending, hx]
        have ha := pres_authenticate hp (dropPending s c i) x _ ident digest r hx0 rfl h0
        split
        · have hl := hp.setBuf _ (loop cfg c (authenticate cfg (dropPending s c i) c x ident digest r).1 x.buf).2.1
            (pres_loop hp _ x.buf ha)
          split
          · exact hp.closeT _ hl
          · split
            · exact hl
            · exact hp.resumeReading _ hl
        · exact ha
  | pause c => exact (hp c rfl).armDeadline _ h
  | resume c =>
    have hp := hp c rfl
    simp only [step]
    split
    · exact h
    · split
      · exact hp.clearDeadline _ _ (Or.inl rfl) h
      · exact h
  | fire c =>
    have hp := hp c rfl
    simp only [step]
    split
    · exact h
    · split
      · exact h
      · split
        · exact pres_errorClose hp _ (hp.clearDeadline _ _ (Or.inr rfl) h)
        · exact h
  | advance ms => exact ht ms rfl h

theorem pres_step (hp : Pres cfg P) (s : State) (e : Event) (h : P s) : P (step cfg s e) :=
  pres_step_at s e (fun c _ => hp.prim c) (fun ms _ h => hp.tick s ms h) h

/-- the induction principle: `P` holds after every event history -/
theorem pres_run (hp : Pres cfg P) (h0 : P init) (es : List Event) : P (run cfg es) := by
  unfold Broker.run
  suffices ∀ s, P s → P (es.foldl (step cfg) s) from this _ h0
  induction es with
  | nil => intro s h; exact h
  | cons e es ih => intro s h; exact ih _ (pres_step hp s e h)

/-- and along the way: after every continuation -/
theorem pres_run_from (hp : Pres cfg P) (s : State) (h : P s) (es : List Event) :
    P (es.foldl (step cfg) s) := by
  induction es generalizing s with
  | nil => exact h
  | cons e es ih => exact ih _ (pres_step hp s e h)

end Hpfeeds.Broker
