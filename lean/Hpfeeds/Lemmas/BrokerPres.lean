/-
  A generic induction principle for the broker model: a predicate on states that holds initially and is
  preserved by each named primitive (under the facts available where the model applies it) holds in
  every reachable state — for ALL event histories, no validity assumption.
-/
import Hpfeeds.Model.Broker
namespace Hpfeeds.Broker
open Hpfeeds Extracted

/-- an action that is not the write of an OP_PUBLISH frame -/
def NonPub (a : Act) : Prop := ∀ f, a = .write f → f.op.toNat ≠ OP_PUBLISH

theorem nonPub_err : NonPub (.write errFrame) := by
  intro f h; cases h; decide

@[simp] theorem upd_conn (s : State) (c : Nat) (f : Conn → Conn) (d : Nat) :
    (s.upd c f).conn d = if d = c then (s.conn d).map f else s.conn d := rfl

theorem upd_conn_self {s : State} {c : Nat} {f : Conn → Conn} {x : Conn} (h : s.conn c = some x) :
    (s.upd c f).conn c = some (f x) := by simp [h]

theorem logAct_conn_self {s : State} {c : Nat} {a : Act} {x : Conn} (h : s.conn c = some x) :
    (logAct s c a).conn c = some { x with out := x.out ++ [(s.now, a)] } := by
  simp [logAct, h]

theorem closeT_conn_self {s : State} {c : Nat} {x : Conn} (h : s.conn c = some x) :
    ∃ y, (closeT s c).conn c = some y ∧ y.registered = x.registered ∧ y.subchans = x.subchans ∧
      y.nonce = x.nonce ∧ y.closing = true := by
  simp only [closeT, upd_conn, if_true, h, Option.map_some]
  by_cases hc : x.closing = true
  · exact ⟨_, by rw [if_pos hc], rfl, rfl, rfl, hc⟩
  · refine ⟨_, by rw [if_neg hc], ?_, ?_, ?_, ?_⟩ <;> simp [Conn.beginClose, hc]

theorem errorClose_conn_self {s : State} {c : Nat} {x : Conn} (h : s.conn c = some x) :
    ∃ y, (errorClose s c).conn c = some y ∧ y.registered = x.registered ∧ y.subchans = x.subchans ∧
      y.nonce = x.nonce ∧ y.closing = true := by
  obtain ⟨y, h1, h2, h3, h4, h5⟩ := closeT_conn_self (logAct_conn_self (a := .write errFrame) h)
  exact ⟨y, h1, h2, h3, h4, h5⟩

structure Pres (cfg : Cfg) (P : State → Prop) : Prop where
  logAct : ∀ s c a, NonPub a → P s → P (logAct s c a)
  closeT : ∀ s c, P s → P (closeT s c)
  crashClose : ∀ s c, P s → P (crashClose s c)
  doSubscribe : ∀ s c ch ok x, s.conn c = some x → x.registered = true → (ok = true ↔ ch ∈ x.subchans) →
    (ok = false → x.closing = true) → P s → P (doSubscribe s c ch ok)
  doUnsubscribe : ∀ s c ch x, s.conn c = some x → x.registered = true → P s → P (doUnsubscribe s c ch)
  setAuth : ∀ s c i d row x, s.conn c = some x → cfg.H (x.nonce ++ row.secret) = d → P s →
    P (setAuth s c i d row)
  pauseReading : ∀ s c, P s → P (pauseReading s c)
  resumeReading : ∀ s c, P s → P (resumeReading s c)
  addPending : ∀ s c i d, P s → P (addPending s c i d)
  dropPending : ∀ s c i, P s → P (dropPending s c i)
  setBuf : ∀ s c b, P s → P (setBuf s c b)
  publish : ∀ s c x i ch p, s.conn c = some x → x.ak = some i → ch ∈ x.pubchans → x.registered = true →
    P s → P (publish s c x i ch p)
  addConn : ∀ s c n, s.conn c = none → P s → P (addConn cfg s c n)
  peerClose : ∀ s c, P s → P (peerClose s c)
  lostConn : ∀ s c x, s.conn c = some x → x.gone = false → P s → P (lostConn s c)
  armDeadline : ∀ s c, P s → P (armDeadline s c)
  clearDeadline : ∀ s c a, (a = .resumedW ∨ a = .deadlineFired) → P s → P (clearDeadline s c a)
  tick : ∀ s ms, P s → P (tick s ms)

variable {cfg : Cfg} {P : State → Prop}

theorem pres_errorClose (hp : Pres cfg P) (s : State) (c : Nat) (h : P s) : P (errorClose s c) :=
  hp.closeT _ _ (hp.logAct _ _ _ nonPub_err h)

theorem authOk_spec {cfg : Cfg} {x : Conn} {d : Bytes} {r : Lookup} {row : Row}
    (h : authOk cfg x d r = some row) : r = .row row ∧ cfg.H (x.nonce ++ row.secret) = d := by
  cases r with
  | row r' =>
    simp only [authOk] at h
    split at h
    · cases h; exact ⟨rfl, by assumption⟩
    · cases h
  | missing => simp [authOk] at h
  | raised => simp [authOk] at h

theorem pres_authenticate (hp : Pres cfg P) (s : State) (c : Nat) (x x0 : Conn) (i d : Bytes) (r : Lookup)
    (hx : s.conn c = some x0) (hn : x0.nonce = x.nonce) (h : P s) :
    P (authenticate cfg s c x i d r).1 := by
  unfold authenticate
  split
  · rename_i row hok
    have := (authOk_spec hok).2
    refine hp.logAct _ _ _ (by intro f hf; cases hf) (hp.setAuth _ _ _ _ _ x0 hx (by rw [hn]; exact this) h)
  · exact pres_errorClose hp _ _ h

theorem pres_messageReceived (hp : Pres cfg P) (s : State) (c : Nat) (f : Frame) (h : P s) :
    P (messageReceived cfg s c f).1 := by
  unfold messageReceived
  split
  · exact h
  · rename_i x hx
    split
    · exact pres_errorClose hp _ _ h
    · split
      · exact hp.closeT _ _ h
      · exact h
      · rename_i m _
        cases m with
        | error t => exact h
        | info n r => exact h
        | auth ident digest =>
          simp only
          split
          · exact h
          · split
            · exact pres_authenticate hp _ _ _ x _ _ _ hx rfl h
            · exact hp.pauseReading _ _ (hp.addPending _ _ _ _ h)
        | publish ident ch p =>
          simp only
          split
          · exact pres_errorClose hp _ _ h
          · split
            · exact pres_errorClose hp _ _ h
            · split
              · exact h
              · rename_i h1 h2 h3
                refine hp.publish _ _ _ _ _ _ hx ?_ ?_ ?_ h
                · simp only [ne_eq, Decidable.not_not] at h1; exact h1.symm
                · simpa using h2
                · simpa using h3
        | subscribe ident ch =>
          simp only
          by_cases hsub : ch ∈ x.subchans
          · simp only [hsub, if_true]
            split
            · exact h
            · rename_i hreg
              exact hp.doSubscribe _ _ _ _ x hx (by simpa using hreg) (by simp [hsub]) (by simp [hsub]) h
          · simp only [hsub, if_false]
            split
            · exact pres_errorClose hp _ _ h
            · rename_i hreg
              obtain ⟨y, hy, hr, hs, _, hc⟩ := errorClose_conn_self hx
              refine hp.doSubscribe _ _ _ _ y hy ?_ ?_ ?_ (pres_errorClose hp _ _ h)
              · rw [hr]; simpa using hreg
              · rw [hs]; simp [hsub]
              · intro _; exact hc
        | unsubscribe ident ch =>
          simp only
          split
          · exact h
          · rename_i hreg
            exact hp.doUnsubscribe _ _ _ x hx (by simpa using hreg) h

theorem pres_loop (hp : Pres cfg P) (c : Nat) (s : State) (buf : Bytes) (h : P s) :
    P (loop cfg c s buf).1 := by
  induction hn : buf.length using Nat.strongRecOn generalizing s buf with
  | _ n ih =>
    rw [loop]
    split
    · exact h
    · exact hp.closeT _ _ h
    · rename_i ml op hh
      have hk := header_ok hh
      have hm := pres_messageReceived hp s c (popFrame buf ml op).1 h
      simp only
      split
      · exact ih _ (by simp only [popFrame, List.length_drop]; omega) _ _ hm rfl
      · exact hm

theorem pres_step (hp : Pres cfg P) (s : State) (e : Event) (h : P s) : P (step cfg s e) := by
  cases e with
  | connect c nonce =>
    simp only [step]
    split
    · exact h
    · rename_i hc; exact hp.addConn _ _ _ hc h
  | data c b =>
    simp only [step]
    split
    · exact h
    · rename_i x hx
      have := hp.setBuf _ c (loop cfg c s (x.buf ++ b)).2.1 (pres_loop hp c s (x.buf ++ b) h)
      split
      · exact hp.crashClose _ _ this
      · exact this
  | eof c => exact hp.peerClose _ _ h
  | lost c =>
    simp only [step]
    split
    · exact h
    · rename_i x hx
      split
      · exact h
      · rename_i hg; exact hp.lostConn _ _ x hx (by simpa using hg) h
  | lookupDone c i r =>
    simp only [step]
    split
    · exact h
    · rename_i x hx
      split
      · exact h
      · rename_i ident digest _
        have h0 := hp.dropPending s c i h
        have hx0 : (dropPending s c i).conn c = some { x with pending := x.pending.eraseIdx i } := by
          simp [dropPending, hx]
        have ha := pres_authenticate hp (dropPending s c i) c x _ ident digest r hx0 rfl h0
        split
        · have hl := hp.setBuf _ c (loop cfg c (authenticate cfg (dropPending s c i) c x ident digest r).1 x.buf).2.1
            (pres_loop hp c _ x.buf ha)
          split
          · exact hp.closeT _ _ hl
          · split
            · exact hl
            · exact hp.resumeReading _ _ hl
        · exact ha
  | pause c => exact hp.armDeadline _ _ h
  | resume c =>
    simp only [step]
    split
    · exact h
    · split
      · exact hp.clearDeadline _ _ _ (Or.inl rfl) h
      · exact h
  | fire c =>
    simp only [step]
    split
    · exact h
    · split
      · exact h
      · split
        · exact pres_errorClose hp _ _ (hp.clearDeadline _ _ _ (Or.inr rfl) h)
        · exact h
  | advance ms => exact hp.tick _ _ h

/-- the induction principle: `P` holds after every event history -/
theorem pres_run (hp : Pres cfg P) (h0 : P init) (es : List Event) : P (run cfg es) := by
  unfold Broker.run
  suffices ∀ s, P s → P (es.foldl (step cfg) s) from this _ h0
  induction es with
  | nil => intro s h; exact h
  | cons e es ih => intro s h; exact ih _ (pres_step hp s e h)

/-- and along the way: after every prefix -/
theorem pres_run_from (hp : Pres cfg P) (s : State) (h : P s) (es : List Event) :
    P (es.foldl (step cfg) s) := by
  induction es generalizing s with
  | nil => exact h
  | cons e es ih => exact ih _ (pres_step hp s e h)

end Hpfeeds.Broker
