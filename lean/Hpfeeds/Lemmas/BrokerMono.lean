/-
  Monotone facts about every transition of the broker model: a connection record never disappears;
  `gone` and `closing` are never reset; an unregistered connection is never registered again; the nonce
  never changes; an authenticated connection stays authenticated; the action log only grows.
-/
import Hpfeeds.Lemmas.BrokerReg
namespace Hpfeeds.Broker
open Hpfeeds Extracted

structure ConnMono (y y' : Conn) : Prop where
  gone : y.gone = true → y'.gone = true
  closing : y.closing = true → y'.closing = true
  unreg : y.registered = false → y'.registered = false
  nonce : y'.nonce = y.nonce
  ak : y.ak.isSome = true → y'.ak.isSome = true
  out : y.out <+: y'.out
  atClose : y.closing = true → y'.pubsAtClose = y.pubsAtClose

theorem ConnMono.refl (y : Conn) : ConnMono y y :=
  ⟨id, id, id, rfl, id, List.prefix_refl _, fun _ => rfl⟩

theorem ConnMono.trans {a b c : Conn} (h1 : ConnMono a b) (h2 : ConnMono b c) : ConnMono a c :=
  ⟨fun h => h2.gone (h1.gone h), fun h => h2.closing (h1.closing h), fun h => h2.unreg (h1.unreg h),
   by rw [h2.nonce, h1.nonce], fun h => h2.ak (h1.ak h), h1.out.trans h2.out,
   fun h => by rw [h2.atClose (h1.closing h), h1.atClose h]⟩

def Mono (s s' : State) : Prop :=
  ∀ d y, s.conn d = some y → ∃ y', s'.conn d = some y' ∧ ConnMono y y'

theorem Mono.refl (s : State) : Mono s s := fun _ y h => ⟨y, h, ConnMono.refl y⟩

theorem Mono.trans {a b c : State} (h1 : Mono a b) (h2 : Mono b c) : Mono a c := by
  intro d y hy
  obtain ⟨y1, hy1, m1⟩ := h1 d y hy
  obtain ⟨y2, hy2, m2⟩ := h2 d y1 hy1
  exact ⟨y2, hy2, m1.trans m2⟩

theorem mono_of_conn_eq {s s' : State} (h : s'.conn = s.conn) : Mono s s' := by
  intro d y hy; exact ⟨y, by rw [h]; exact hy, ConnMono.refl y⟩

theorem mono_upd (s : State) (c : Nat) (f : Conn → Conn) (hf : ∀ x, ConnMono x (f x)) :
    Mono s (s.upd c f) := by
  intro d y hy
  simp only [upd_conn]
  by_cases hd : d = c
  · subst hd; exact ⟨f y, by simp [hy], hf y⟩
  · exact ⟨y, by simp [hd, hy], ConnMono.refl y⟩

theorem mono_logAct (s : State) (c : Nat) (a : Act) : Mono s (logAct s c a) :=
  mono_upd s c _ fun x => ⟨id, id, id, rfl, id, List.prefix_append _ _, fun _ => rfl⟩

theorem connMono_beginClose (x : Conn) : ConnMono x x.beginClose := by
  unfold Conn.beginClose
  split
  · exact ConnMono.refl x
  · rename_i hc
    exact ⟨id, fun _ => rfl, id, rfl, id, List.prefix_refl _, fun h => absurd h hc⟩

theorem mono_closeT (s : State) (c : Nat) : Mono s (closeT s c) := by
  refine mono_upd s c _ fun x => ?_
  by_cases hc : x.closing = true
  · simp only [hc, if_true]; exact ConnMono.refl x
  · simp only [hc]
    refine ⟨?_, fun _ => ?_, ?_, ?_, ?_, ?_, fun h => absurd h hc⟩ <;> simp [Conn.beginClose, hc]

theorem mono_errorClose (s : State) (c : Nat) : Mono s (errorClose s c) :=
  (mono_logAct s c _).trans (mono_closeT _ c)

theorem mono_crashClose (s : State) (c : Nat) : Mono s (crashClose s c) :=
  (mono_logAct s c _).trans (mono_upd _ c _ connMono_beginClose)

theorem mono_peerClose (s : State) (c : Nat) : Mono s (peerClose s c) := by
  unfold peerClose
  split
  · exact Mono.refl s
  · split
    · exact Mono.refl s
    · exact (mono_logAct s c _).trans (mono_upd _ c _ connMono_beginClose)

theorem mono_local (s : State) (c : Nat) (f : Conn → Conn)
    (hf : ∀ x, (f x).gone = x.gone ∧ (f x).closing = x.closing ∧ (f x).registered = x.registered ∧
      (f x).nonce = x.nonce ∧ (f x).ak = x.ak ∧ (f x).out = x.out ∧ (f x).pubsAtClose = x.pubsAtClose) :
    Mono s (s.upd c f) :=
  mono_upd s c f fun x => by
    obtain ⟨a, b, c', d, e, g, k⟩ := hf x
    exact ⟨by rw [a]; exact id, by rw [b]; exact id, by rw [c']; exact id, d, by rw [e]; exact id,
           by rw [g]; exact List.prefix_refl _, fun _ => k⟩

theorem mono_pauseReading (s : State) (c : Nat) : Mono s (pauseReading s c) := by
  unfold pauseReading
  split
  · split
    · exact Mono.refl s
    · refine Mono.trans ?_ (mono_logAct _ c _)
      exact mono_local s c _ fun _ => ⟨rfl, rfl, rfl, rfl, rfl, rfl, rfl⟩
  · exact Mono.refl s

theorem mono_resumeReading (s : State) (c : Nat) : Mono s (resumeReading s c) := by
  unfold resumeReading
  split
  · split
    · exact Mono.refl s
    · refine Mono.trans ?_ (mono_logAct _ c _)
      exact mono_local s c _ fun _ => ⟨rfl, rfl, rfl, rfl, rfl, rfl, rfl⟩
  · exact Mono.refl s

theorem mono_setAuth (s : State) (c : Nat) (i d : Bytes) (row : Row) : Mono s (setAuth s c i d row) := by
  unfold setAuth
  split
  · exact Mono.refl s
  · refine Mono.trans (mono_of_conn_eq (s := s) rfl) (mono_upd _ c _ fun x => ?_)
    exact ⟨id, id, id, rfl, fun _ => rfl, List.prefix_refl _, fun _ => rfl⟩

theorem unsubscribe_conn_ne {s : State} {c d : Nat} {ch : Bytes} (hd : d ≠ c) :
    (unsubscribe s c ch).conn d = s.conn d := by
  unfold unsubscribe
  split
  · rfl
  · split
    · simp [hd]
    · rfl

theorem subscribe_conn_ne {s : State} {c d : Nat} {ch : Bytes} (hd : d ≠ c) :
    (subscribe s c ch).conn d = s.conn d := by
  unfold subscribe
  split
  · rfl
  · split
    · rfl
    · simp [hd]

theorem subscribe_conn {s : State} {c : Nat} {ch : Bytes} {x : Conn} (hx : s.conn c = some x) :
    (subscribe s c ch).conn c =
      some { x with active := if ch ∈ x.active then x.active else x.active ++ [ch] } := by
  by_cases hin : ch ∈ x.active
  · rw [subscribe_noop hx hin, hx]; simp [hin]
  · rw [subscribe_eq hx hin]; simp [hin]

theorem mono_subscribe (s : State) (c : Nat) (ch : Bytes) : Mono s (subscribe s c ch) := by
  intro d y hy
  by_cases hd : d = c
  · subst hd
    exact ⟨_, subscribe_conn hy, ⟨id, id, id, rfl, id, List.prefix_refl _, fun _ => rfl⟩⟩
  · exact ⟨y, by rw [subscribe_conn_ne hd]; exact hy, ConnMono.refl y⟩

theorem mono_unsubscribe (s : State) (c : Nat) (ch : Bytes) : Mono s (unsubscribe s c ch) := by
  intro d y hy
  by_cases hd : d = c
  · subst hd
    exact ⟨_, unsubscribe_conn hy, ⟨id, id, id, rfl, id, List.prefix_refl _, fun _ => rfl⟩⟩
  · exact ⟨y, by rw [unsubscribe_conn_ne hd]; exact hy, ConnMono.refl y⟩

theorem foldl_unsubscribe_conn_ne {s : State} {c d : Nat} (l : List Bytes) (hd : d ≠ c) :
    (l.foldl (fun s ch => unsubscribe s c ch) s).conn d = s.conn d := by
  induction l generalizing s with
  | nil => rfl
  | cons a l ih => simp only [List.foldl_cons]; rw [ih, unsubscribe_conn_ne hd]

theorem connectionLost_conn_ne {s : State} {c d : Nat} (hd : d ≠ c) :
    (connectionLost s c).conn d = s.conn d := by
  unfold connectionLost
  split
  · rfl
  · split
    · simp only [upd_conn, hd, if_false]
      rw [foldl_unsubscribe_conn_ne _ hd]; rfl
    · rfl

/-- `connection_lost` on a registered connection: exactly `active` and `registered` change -/
theorem mem_foldl_erase (l m : List Bytes) (b : Bytes) (h : b ∈ l.foldl (fun a ch => a.erase ch) m) : b ∈ m := by
  induction l generalizing m with
  | nil => exact h
  | cons a l ih => exact List.mem_of_mem_erase (ih _ h)

theorem connectionLost_conn' {s : State} {c : Nat} {x : Conn} (hx : s.conn c = some x) :
    ∃ l, (∀ ch ∈ l, ch ∈ x.active) ∧
      ((connectionLost s c).conn c = some { x with active := l, registered := false, lostAs := some x.ak } ∨
         ((connectionLost s c).conn c = some x ∧ x.registered = false)) := by
  by_cases hr : x.registered = true
  · refine ⟨x.active.foldl (fun a ch => a.erase ch) x.active, fun ch h => mem_foldl_erase _ _ _ h, Or.inl ?_⟩
    unfold connectionLost
    rw [hx]
    simp only [hr, if_true]
    rw [upd_conn_self (foldl_unsubscribe_conn (s := countLost s x.ak) x.active hx)]
  · have hr' : x.registered = false := by simpa using hr
    exact ⟨[], by simp, Or.inr ⟨by rw [connectionLost_noop hx hr']; exact hx, hr'⟩⟩

theorem mono_connectionLost (s : State) (c : Nat) : Mono s (connectionLost s c) := by
  intro d y hy
  by_cases hd : d = c
  · subst hd
    obtain ⟨l, _, h | ⟨h, _⟩⟩ := connectionLost_conn' hy
    · exact ⟨_, h, ⟨id, id, fun _ => rfl, rfl, id, List.prefix_refl _, fun _ => rfl⟩⟩
    · exact ⟨y, h, ConnMono.refl y⟩
  · exact ⟨y, by rw [connectionLost_conn_ne hd]; exact hy, ConnMono.refl y⟩

theorem mono_deliver (f : Frame) (s : State) (d : Nat) : Mono s (deliver f s d) := by
  unfold deliver
  split
  · exact Mono.refl s
  · split
    · exact mono_connectionLost s d
    · exact mono_logAct s d _

theorem mono_foldl_deliver (f : Frame) (l : List Nat) (s : State) : Mono s (l.foldl (deliver f) s) := by
  induction l generalizing s with
  | nil => exact Mono.refl s
  | cons a l ih => exact (mono_deliver f s a).trans (ih _)

theorem mono_publish (s : State) (c : Nat) (x : Conn) (i ch p : Bytes) : Mono s (publish s c x i ch p) := by
  unfold publish
  exact (mono_foldl_deliver _ _ s).trans (mono_of_conn_eq rfl)

theorem mono_addConn (cfg : Cfg) (s : State) (c : Nat) (n : Bytes) (hc : s.conn c = none) :
    Mono s (addConn cfg s c n) := by
  intro d y hy
  have hd : d ≠ c := by intro h; subst h; rw [hc] at hy; cases hy
  exact ⟨y, by simp [addConn, hd, hy], ConnMono.refl y⟩

theorem mono_markGone (s : State) (c : Nat) : Mono s (markGone s c) :=
  (mono_peerClose s c).trans (mono_upd _ c _ fun x => ⟨fun _ => rfl, id, id, rfl, id, List.prefix_refl _, fun _ => rfl⟩)

theorem mono_lostConn (s : State) (c : Nat) : Mono s (lostConn s c) :=
  (mono_connectionLost s c).trans (mono_markGone _ c)

theorem mono_doSubscribe (s : State) (c : Nat) (ch : Bytes) (ok : Bool) : Mono s (doSubscribe s c ch ok) :=
  (mono_subscribe s c ch).trans (mono_local _ c _ fun _ => ⟨rfl, rfl, rfl, rfl, rfl, rfl, rfl⟩)

theorem mono_doUnsubscribe (s : State) (c : Nat) (ch : Bytes) : Mono s (doUnsubscribe s c ch) :=
  (mono_unsubscribe s c ch).trans (mono_local _ c _ fun _ => ⟨rfl, rfl, rfl, rfl, rfl, rfl, rfl⟩)

theorem mono_armDeadline (s : State) (c : Nat) : Mono s (armDeadline s c) := by
  unfold armDeadline
  refine Mono.trans ?_ (mono_logAct _ c _)
  exact mono_local s c _ fun _ => ⟨rfl, rfl, rfl, rfl, rfl, rfl, rfl⟩

theorem mono_clearDeadline (s : State) (c : Nat) (a : Act) : Mono s (clearDeadline s c a) := by
  unfold clearDeadline
  refine Mono.trans ?_ (mono_logAct _ c _)
  exact mono_local s c _ fun _ => ⟨rfl, rfl, rfl, rfl, rfl, rfl, rfl⟩

theorem monoPres (cfg : Cfg) (s0 : State) : Pres cfg (Mono s0) where
  prim := fun c => {
    logAct := fun s a _ h => h.trans (mono_logAct s c a)
    closeT := fun s h => h.trans (mono_closeT s c)
    crashClose := fun s h => h.trans (mono_crashClose s c)
    doSubscribe := fun s ch ok _ _ _ _ _ _ h => h.trans (mono_doSubscribe s c ch ok)
    doUnsubscribe := fun s ch _ _ _ _ h => h.trans (mono_doUnsubscribe s c ch)
    setAuth := fun s i d row _ _ _ h => h.trans (mono_setAuth s c i d row)
    pauseReading := fun s h => h.trans (mono_pauseReading s c)
    resumeReading := fun s h => h.trans (mono_resumeReading s c)
    addPending := fun s _ _ h => h.trans (mono_local s c _ fun _ => ⟨rfl, rfl, rfl, rfl, rfl, rfl, rfl⟩)
    dropPending := fun s _ h => h.trans (mono_local s c _ fun _ => ⟨rfl, rfl, rfl, rfl, rfl, rfl, rfl⟩)
    setBuf := fun s _ h => h.trans (mono_local s c _ fun _ => ⟨rfl, rfl, rfl, rfl, rfl, rfl, rfl⟩)
    publish := fun s x i ch p _ _ _ _ h => h.trans (mono_publish s c x i ch p)
    addConn := fun s n hc h => h.trans (mono_addConn cfg s c n hc)
    peerClose := fun s h => h.trans (mono_peerClose s c)
    lostConn := fun s _ _ _ h => h.trans (mono_lostConn s c)
    armDeadline := fun s h => h.trans (mono_armDeadline s c)
    clearDeadline := fun s a _ h => h.trans (mono_clearDeadline s c a) }
  tick := fun s ms h => h.trans (mono_of_conn_eq rfl)

/-- every step, and every sequence of steps, is monotone -/
theorem mono_step (cfg : Cfg) (s : State) (e : Event) : Mono s (step cfg s e) :=
  pres_step (monoPres cfg s) s e (Mono.refl s)

theorem mono_steps (cfg : Cfg) (s : State) (es : List Event) : Mono s (es.foldl (step cfg) s) :=
  pres_run_from (monoPres cfg s) s (Mono.refl s) es

end Hpfeeds.Broker
