/-
  asyncio / Twisted session: per-connection write trace.  The `wrote k` OUTPUTS on the current connection are
  its ghost `sent`; hence C11 holds of the output trace for EVERY connection ever made.
-/
import Hpfeeds.Lemmas.AioClient
namespace Hpfeeds.AioClient
open Hpfeeds Extracted

/-- the frames the outputs show written on connection `k`, in order -/
def wroteOn (k : Nat) (outs : List Out) : List Bytes :=
  outs.filterMap fun o => match o with
    | .wrote k' b => if k' = k then some b else none
    | _ => none

theorem wroteOn_append (k : Nat) (a b : List Out) : wroteOn k (a ++ b) = wroteOn k a ++ wroteOn k b := by
  simp [wroteOn, List.filterMap_append]
theorem wroteOn_nil (k : Nat) : wroteOn k [] = [] := rfl

/-- a function that keeps the connection object: its `wrote` outputs are on that connection and are exactly
    what it appended to the connection's ghost `sent` -/
def KeepW (s : State) (r : State × List Out) : Prop :=
  match s.conn with
  | none => r.1.conn = none ∧ ∀ k, wroteOn k r.2 = []
  | some c => ∃ c', r.1.conn = some c' ∧ c'.k = c.k ∧ c'.sent = c.sent ++ wroteOn c.k r.2 ∧
      ∀ k, k ≠ c.k → wroteOn k r.2 = []

theorem keepW_refl (s : State) : KeepW s (s, []) := by
  unfold KeepW; cases hc : s.conn with
  | none => exact ⟨rfl, fun _ => rfl⟩
  | some c => exact ⟨c, rfl, rfl, by simp [wroteOn], fun _ _ => rfl⟩

theorem keepW_trans {s : State} {r t : State × List Out} (h1 : KeepW s r) (h2 : KeepW r.1 t) :
    KeepW s (t.1, r.2 ++ t.2) := by
  unfold KeepW at *
  cases hc : s.conn with
  | none =>
    rw [hc] at h1; simp only at h1 ⊢
    rw [h1.1] at h2; simp only at h2
    exact ⟨h2.1, fun k => by rw [wroteOn_append, h1.2 k, h2.2 k]; rfl⟩
  | some c =>
    rw [hc] at h1; simp only at h1 ⊢
    obtain ⟨c1, hc1, hk1, hs1, ho1⟩ := h1
    rw [hc1] at h2; simp only at h2
    obtain ⟨c2, hc2, hk2, hs2, ho2⟩ := h2
    refine ⟨c2, hc2, hk2.trans hk1, ?_, fun k hk => ?_⟩
    · rw [hs2, hs1, hk1, wroteOn_append, List.append_assoc]
    · rw [wroteOn_append, ho1 k hk, ho2 k (by rw [hk1]; exact hk)]; rfl

theorem keepW_write (s : State) (b : Bytes) : KeepW s (write s b) := by
  unfold write KeepW
  cases hc : s.conn with
  | none => exact ⟨hc, fun _ => rfl⟩
  | some c =>
    simp only
    split
    · exact ⟨c, hc, rfl, by simp [wroteOn], fun _ _ => rfl⟩
    · refine ⟨_, rfl, rfl, by simp [wroteOn], fun k hk => ?_⟩
      simp [wroteOn, Ne.symm hk]

theorem keepW_closeT (s : State) : KeepW s (closeT s) := by
  unfold closeT KeepW
  cases hc : s.conn with
  | none => exact ⟨hc, fun _ => rfl⟩
  | some c =>
    simp only
    split
    · exact ⟨c, hc, rfl, by simp [wroteOn], fun _ _ => rfl⟩
    · exact ⟨_, rfl, rfl, by simp [wroteOn], fun _ _ => rfl⟩

theorem keepW_writeAll (s : State) (bs : List Bytes) : KeepW s (writeAll s bs) := by
  unfold writeAll
  suffices ∀ (acc : State × List Out), KeepW s acc →
      KeepW s (bs.foldl (fun acc b => let r := write acc.1 b; (r.1, acc.2 ++ r.2)) acc) from
    this (s, []) (keepW_refl s)
  induction bs with
  | nil => intro acc h; exact h
  | cons b bs ih => intro acc h; simp only [List.foldl_cons]; exact ih _ (keepW_trans h (keepW_write acc.1 b))

/-- a state change that leaves the connection's k and sent alone, with no `wrote` output -/
theorem keepW_quiet {s s' : State} {o : List Out} (hk : ∀ k, wroteOn k o = [])
    (h : match s.conn with
      | none => s'.conn = none
      | some c => ∃ c', s'.conn = some c' ∧ c'.k = c.k ∧ c'.sent = c.sent) : KeepW s (s', o) := by
  unfold KeepW
  cases hc : s.conn with
  | none => rw [hc] at h; exact ⟨h, hk⟩
  | some c =>
    rw [hc] at h
    obtain ⟨c', h1, h2, h3⟩ := h
    exact ⟨c', h1, h2, by simp [h3, hk], fun k _ => hk k⟩

theorem keepW_deliver (s : State) (m : Message) : KeepW s (deliver s m) := by
  unfold deliver
  simp only
  split
  · apply keepW_quiet (by intro k; simp [wroteOn])
    cases s.conn with
    | none => rfl
    | some c => exact ⟨c, rfl, rfl, rfl⟩
  · apply keepW_quiet (by intro k; rfl)
    cases s.conn with
    | none => rfl
    | some c => exact ⟨c, rfl, rfl, rfl⟩

/-- replacing the state by one whose connection has the same k and sent (and is present iff it was) -/
theorem keepW_pre {s s0 : State} {r : State × List Out}
    (h0 : match s.conn with
      | none => s0.conn = none
      | some c => ∃ c0, s0.conn = some c0 ∧ c0.k = c.k ∧ c0.sent = c.sent)
    (h : KeepW s0 r) : KeepW s r := by
  unfold KeepW at *
  cases hc : s.conn with
  | none => rw [hc] at h0; simp only at h0; rw [h0] at h; exact h
  | some c =>
    rw [hc] at h0
    obtain ⟨c0, e0, ek, es⟩ := h0
    rw [e0] at h; simp only at h ⊢
    obtain ⟨c', a, b, c1, d⟩ := h
    exact ⟨c', a, b.trans ek, by rw [c1, es, ek], fun k hk => d k (by rw [ek]; exact hk)⟩

theorem ks_noteFrame (s : State) (f : Frame) :
    match s.conn with
    | none => (noteFrame s f).conn = none
    | some c => ∃ c0, (noteFrame s f).conn = some c0 ∧ c0.k = c.k ∧ c0.sent = c.sent := by
  unfold noteFrame
  cases s.conn with
  | none => rfl
  | some c => exact ⟨_, rfl, rfl, rfl⟩

theorem keepW_onFrame (cfg : Cfg) (s : State) (f : Frame) : KeepW s ((onFrame cfg s f).1, (onFrame cfg s f).2.1) := by
  unfold onFrame
  cases read f with
  | none => exact keepW_closeT s
  | some e =>
    cases e with
    | error _ => exact keepW_refl s
    | ok m =>
      cases m with
      | error _ => exact keepW_refl s
      | auth _ _ => exact keepW_closeT s
      | subscribe _ _ => exact keepW_closeT s
      | unsubscribe _ _ => exact keepW_closeT s
      | publish i c p => exact keepW_deliver s (i, c, p)
      | info n rand =>
        simp only
        cases hc : s.conn with
        | none => have := keepW_refl s; unfold KeepW at this ⊢; rw [hc] at this ⊢; exact this
        | some c =>
          simp only
          have h1 := keepW_write s (authFrame cfg rand)
          generalize write s (authFrame cfg rand) = r1 at h1 ⊢
          have key : ∀ s2 : State,
              (match r1.1.conn with
               | none => s2.conn = none
               | some c1 => ∃ c0, s2.conn = some c0 ∧ c0.k = c1.k ∧ c0.sent = c1.sent) →
              KeepW s ((writeAll s2 (List.map (subFrame cfg) (sortBytes s.subs))).1,
                       r1.2 ++ (writeAll s2 (List.map (subFrame cfg) (sortBytes s.subs))).2) := by
            intro s2 h2
            have h3 : KeepW r1.1 (writeAll s2 (List.map (subFrame cfg) (sortBytes s.subs))) :=
              keepW_pre h2 (keepW_writeAll s2 _)
            have := keepW_trans h1 h3
            unfold KeepW at this ⊢
            rw [hc] at this ⊢
            exact this
          cases hrc : r1.1.conn with
          | none => exact key _ (by rw [hrc])
          | some c' => exact key _ (by rw [hrc]; exact ⟨_, rfl, rfl, rfl⟩)

theorem keepW_loop (cfg : Cfg) : ∀ (buf : Bytes) (s : State), KeepW s ((loop cfg s buf).1, (loop cfg s buf).2.1) := by
  intro buf
  induction hn : buf.length using Nat.strongRecOn generalizing buf with
  | _ n ih =>
    intro s
    rw [loop]
    split
    · exact keepW_refl s
    · exact keepW_closeT s
    · rename_i ml op hh
      have hk := header_ok hh
      have h1 : KeepW s ((onFrame cfg (noteFrame s (popFrame buf ml op).1) (popFrame buf ml op).1).1,
          (onFrame cfg (noteFrame s (popFrame buf ml op).1) (popFrame buf ml op).1).2.1) :=
        keepW_pre (ks_noteFrame s _) (keepW_onFrame cfg _ _)
      simp only
      split
      · exact h1
      · have h2 := ih _ (by simp only [popFrame, List.length_drop]; omega) (popFrame buf ml op).2 rfl
          (onFrame cfg (noteFrame s (popFrame buf ml op).1) (popFrame buf ml op).1).1
        exact keepW_trans h1 h2

/-- one event, as far as writes are concerned -/
inductive StepW (s : State) (s' : State) (new : List Out) : Prop
  | keep (h : KeepW s (s', new)) (hn : s'.nconn = s.nconn)
  | drop (ho : ∀ k, wroteOn k new = []) (hc : s'.conn = none) (hn : s'.nconn = s.nconn)
  | fresh (ho : ∀ k, wroteOn k new = []) (c' : Conn) (hc : s'.conn = some c') (hk : c'.k = s.nconn + 1)
      (hs : c'.sent = []) (hn : s'.nconn = s.nconn + 1)

theorem keep_same {s s' : State} (new : List Out) (hk : ∀ k, wroteOn k new = []) (hc : s'.conn = s.conn)
    (hn : s'.nconn = s.nconn) : StepW s s' new := by
  refine .keep (keepW_quiet hk ?_) hn
  rw [hc]; cases s.conn with
  | none => rfl
  | some c => exact ⟨c, rfl, rfl, rfl⟩

theorem stepW_stepK (cfg : Cfg) (s : State) (pre : List Out) (e : Ev) :
    ∃ new, (stepK cfg s pre e).2 = pre ++ new ∧ StepW s (stepK cfg s pre e).1 new := by
  unfold stepK
  cases e with
  | idle => exact ⟨[], by simp, keep_same [] (fun _ => rfl) rfl rfl⟩
  | start =>
    simp only; split
    · exact ⟨[.attempt], rfl, keep_same _ (fun _ => rfl) rfl rfl⟩
    · exact ⟨[], by simp, keep_same [] (fun _ => rfl) rfl rfl⟩
  | sub ch =>
    simp only; split
    · exact ⟨[], by simp, keep_same [] (fun _ => rfl) rfl rfl⟩
    · split
      · exact ⟨_, rfl, .keep (keepW_pre (s0 := { s with subs := s.subs ++ [ch] })
          (by cases s.conn with | none => rfl | some c => exact ⟨c, rfl, rfl, rfl⟩) (keepW_write _ _)) (same_write _ _).nconn⟩
      · exact ⟨[], by simp, keep_same [] (fun _ => rfl) rfl rfl⟩
  | unsub ch =>
    simp only; split
    · split
      · exact ⟨_, rfl, .keep (keepW_pre (s0 := { s with subs := s.subs.erase ch })
          (by cases s.conn with | none => rfl | some c => exact ⟨c, rfl, rfl, rfl⟩) (keepW_write _ _)) (same_write _ _).nconn⟩
      · exact ⟨[], by simp, keep_same [] (fun _ => rfl) rfl rfl⟩
    · exact ⟨[], by simp, keep_same [] (fun _ => rfl) rfl rfl⟩
  | pub ch p =>
    simp only; split
    · exact ⟨_, rfl, .keep (keepW_write _ _) (same_write _ _).nconn⟩
    · exact ⟨[], by simp, keep_same [] (fun _ => rfl) rfl rfl⟩
  | read =>
    simp only; split
    · exact ⟨_, rfl, keep_same _ (fun _ => rfl) rfl rfl⟩
    · exact ⟨[], by simp, keep_same [] (fun _ => rfl) rfl rfl⟩
  | close =>
    simp only; split
    · exact ⟨[], by simp, keep_same [] (fun _ => rfl) rfl rfl⟩
    · split
      · split
        · exact ⟨_, rfl, keep_same _ (fun _ => rfl) rfl rfl⟩
        · refine ⟨_, rfl, .keep ?_ ?_⟩
          · have h := keepW_closeT { s with closing := true, closeCalled := true }
            have h2 : KeepW s (closeT { s with closing := true, closeCalled := true }) :=
              keepW_pre (s0 := { s with closing := true, closeCalled := true })
                (by cases s.conn with | none => rfl | some c => exact ⟨c, rfl, rfl, rfl⟩) h
            unfold KeepW at h2 ⊢
            exact h2
          · exact (same_closeT _).nconn
      · exact ⟨_, rfl, keep_same _ (fun _ => rfl) rfl rfl⟩
  | accept =>
    simp only; split
    · exact ⟨[], by simp, .fresh (fun _ => rfl) _ rfl rfl rfl rfl⟩
    · exact ⟨[], by simp, keep_same [] (fun _ => rfl) rfl rfl⟩
  | refuse => simp only; split <;> exact ⟨[], by simp, keep_same [] (fun _ => rfl) rfl rfl⟩
  | advance ms =>
    simp only; split
    · split
      · exact ⟨_, rfl, keep_same _ (fun _ => rfl) rfl rfl⟩
      · exact ⟨[], by simp, keep_same [] (fun _ => rfl) rfl rfl⟩
    · exact ⟨[], by simp, keep_same [] (fun _ => rfl) rfl rfl⟩
  | lost =>
    simp only; split
    · exact ⟨[], by simp, keep_same [] (fun _ => rfl) rfl rfl⟩
    · rename_i c hc
      split
      · exact ⟨[], by simp, keep_same [] (fun _ => rfl) rfl rfl⟩
      · split
        · refine ⟨_, rfl, .keep (keepW_quiet ?_ ?_) rfl⟩
          · intro k; split <;> rfl
          · rw [hc]; exact ⟨_, rfl, rfl, rfl⟩
        · split
          · exact ⟨_, rfl, .drop (fun _ => rfl) rfl rfl⟩
          · exact ⟨[], by simp, .drop (fun _ => rfl) rfl rfl⟩
  | data b =>
    simp only; split
    · exact ⟨[], by simp, keep_same [] (fun _ => rfl) rfl rfl⟩
    · rename_i c hc
      split
      · exact ⟨[], by simp, keep_same [] (fun _ => rfl) rfl rfl⟩
      · have h := keepW_loop cfg (c.buf ++ b) { s with conn := some { c with inbound := c.inbound ++ b } }
        have hn := (same_loop cfg { s with conn := some { c with inbound := c.inbound ++ b } } (c.buf ++ b)).nconn
        generalize loop cfg { s with conn := some { c with inbound := c.inbound ++ b } } (c.buf ++ b) = r at h hn ⊢
        refine ⟨r.2.1 ++ (if r.2.2.2 = Ctl.crash then [Out.crash] else []), by simp [List.append_assoc], .keep ?_ ?_⟩
        · unfold KeepW at h ⊢
          rw [hc]
          simp only at h ⊢
          obtain ⟨c', e1, e2, e3, e4⟩ := h
          rw [e1]
          refine ⟨_, rfl, e2, ?_, fun k hk => ?_⟩
          · simp only [wroteOn_append]; rw [e3]
            split <;> simp [wroteOn]
          · simp only [wroteOn_append]; rw [e4 k hk]
            split <;> simp [wroteOn]
        · cases hrc : r.1.conn with
          | none => simp only; exact hn
          | some c' => simp only; exact hn

theorem kick_w (cfg : Cfg) (s : State) : (kick cfg s).1.conn = s.conn ∧ (kick cfg s).1.nconn = s.nconn ∧
    ∀ k, wroteOn k (kick cfg s).2 = [] := by
  unfold kick; split <;> exact ⟨rfl, rfl, fun _ => rfl⟩

/-- the trace invariant: the outputs written on the current connection are its ghost `sent`; connection
    numbers not yet used have no output -/
structure GW (acc : State × List Out) : Prop where
  cur : ∀ c, acc.1.conn = some c → wroteOn c.k acc.2 = c.sent ∧ c.k ≤ acc.1.nconn
  future : ∀ k, acc.1.nconn < k → wroteOn k acc.2 = []

/-- what C11 says about one connection's writes -/
def Good (cfg : Cfg) (w : List Bytes) : Prop :=
  w = [] ∨ ∃ (rand : Bytes) (wanted later : List Bytes), w = authFrame cfg rand :: wanted.map (subFrame cfg) ++ later

theorem good_of_connOK {cfg : Cfg} {c : Conn} (h : ConnOK cfg c) : Good cfg c.sent := by
  cases hr : c.ready with
  | false => exact Or.inl (h.quiet hr).1
  | true =>
    obtain ⟨⟨rand, wanted⟩, hh⟩ := Option.isSome_iff_exists.mp (h.rdy hr)
    obtain ⟨⟨later, hl⟩, _⟩ := h.hs rand wanted hh
    exact Or.inr ⟨rand, wanted, later, hl⟩

/-- the outputs of one step concerning connection `k`: nothing, unless `k` is the connection that is current
    after the step -/
theorem step_w (cfg : Cfg) (acc : State × List Out) (e : Ev) (h : GW acc) :
    GW ((step cfg acc.1 e).1, acc.2 ++ (step cfg acc.1 e).2) ∧
    ∀ k, (∀ c, (step cfg acc.1 e).1.conn = some c → c.k ≠ k) → wroteOn k (step cfg acc.1 e).2 = [] := by
  unfold step
  obtain ⟨k1, k2, k3⟩ := kick_w cfg acc.1
  obtain ⟨new, hnew, hst⟩ := stepW_stepK cfg (kick cfg acc.1).1 (kick cfg acc.1).2 e
  rw [hnew]
  have hw : ∀ k, wroteOn k ((kick cfg acc.1).2 ++ new) = wroteOn k new := by
    intro k; rw [wroteOn_append, k3 k]; rfl
  generalize (stepK cfg (kick cfg acc.1).1 (kick cfg acc.1).2 e).1 = s' at hst ⊢
  cases hst with
  | keep hk hn =>
    unfold KeepW at hk
    rw [k1] at hk
    cases hc : acc.1.conn with
    | none =>
      rw [hc] at hk; simp only at hk
      refine ⟨⟨fun c hc' => ?_, fun k hk' => ?_⟩, fun k _ => by rw [hw, hk.2 k]⟩
      · rw [hk.1] at hc'; cases hc'
      · rw [wroteOn_append, hw, hk.2 k, h.future k (by rw [hn, k2] at hk'; exact hk')]; rfl
    | some c =>
      rw [hc] at hk; simp only at hk
      obtain ⟨c', e1, e2, e3, e4⟩ := hk
      obtain ⟨g1, g2⟩ := h.cur c hc
      refine ⟨⟨fun c2 hc2 => ?_, fun k hk' => ?_⟩, fun k hk' => ?_⟩
      · rw [e1] at hc2; cases hc2
        refine ⟨?_, by rw [e2, hn, k2]; exact g2⟩
        rw [wroteOn_append, hw, e2, g1, e3]
      · rw [hn, k2] at hk'
        rw [wroteOn_append, hw, h.future k hk', e4 k (by omega)]; rfl
      · rw [hw]; exact e4 k (fun hh => hk' c' e1 (by rw [e2]; exact hh.symm))
  | drop ho hc hn =>
    refine ⟨⟨fun c hc' => ?_, fun k hk' => ?_⟩, fun k _ => by rw [hw, ho k]⟩
    · rw [hc] at hc'; cases hc'
    · rw [hn, k2] at hk'; rw [wroteOn_append, hw, ho k, h.future k hk']; rfl
  | fresh ho c' hc hk hs hn =>
    refine ⟨⟨fun c2 hc2 => ?_, fun k hk' => ?_⟩, fun k _ => by rw [hw, ho k]⟩
    · rw [hc] at hc2; cases hc2
      refine ⟨?_, by rw [hk, hn]; exact Nat.le_refl _⟩
      rw [wroteOn_append, hw, ho, hs, hk, k2, h.future _ (Nat.lt_succ_self _)]; rfl
    · rw [hn, k2] at hk'
      rw [wroteOn_append, hw, ho k, h.future k (by omega)]; rfl

/-- ON EVERY CONNECTION THEY MAKE — the observable form of C11 for the asyncio session and the Twisted service.
    Over ANY event sequence and for EVERY connection number `k`, the frames the OUTPUT shows written on
    connection `k` (what the correspondence check compares with the bytes the real transport `k` received)
    are: nothing, or the OP_AUTH of a nonce followed by one OP_SUBSCRIBE per channel of a set, followed by
    later application frames. -/
theorem every_connection (cfg : Cfg) (es : List Ev) (k : Nat) : Good cfg (wroteOn k (run cfg es).2) := by
  unfold run
  suffices ∀ (acc : State × List Out),
      (FullInv cfg acc.1 ∧ TInv acc.1 ∧ RInv acc.1) → GW acc → (∀ k, Good cfg (wroteOn k acc.2)) →
      ∀ k, Good cfg (wroteOn k (es.foldl (fun acc e => let r := step cfg acc.1 e; (r.1, acc.2 ++ r.2)) acc).2) from
    this ({}, []) ⟨full_init cfg, tinv_init, ⟨⟨rfl, (fun h => by cases h)⟩, rfl⟩⟩
      ⟨fun c h => (by cases h), fun _ _ => rfl⟩ (fun _ => Or.inl rfl) k
  induction es with
  | nil => intro acc _ _ h; exact h
  | cons e es ih =>
    intro acc hi hg hgood
    simp only [List.foldl_cons]
    have hi' : FullInv cfg (step cfg acc.1 e).1 ∧ TInv (step cfg acc.1 e).1 ∧ RInv (step cfg acc.1 e).1 :=
      ⟨full_step cfg _ e hi.1, tinv_step cfg _ e hi.2.1, rinv_step cfg _ e hi.2.2⟩
    obtain ⟨hg', hother⟩ := step_w cfg acc e hg
    refine ih _ hi' hg' (fun k => ?_)
    by_cases hk : ∃ c, (step cfg acc.1 e).1.conn = some c ∧ c.k = k
    · obtain ⟨c, hc, rfl⟩ := hk
      show Good cfg (wroteOn c.k (acc.2 ++ (step cfg acc.1 e).2))
      rw [(hg'.cur c hc).1]
      exact good_of_connOK (hi'.1.conn c hc)
    · show Good cfg (wroteOn k (acc.2 ++ (step cfg acc.1 e).2))
      rw [wroteOn_append, hother k (fun c hc hh => hk ⟨c, hc, hh⟩), List.append_nil]
      exact hgood k

end Hpfeeds.AioClient
