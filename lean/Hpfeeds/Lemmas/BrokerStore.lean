/-
  The credential store matters to the frame loop only at an OP_AUTH: a loop pass under an asynchronous
  store that does not park (does not end in `brk`) is the loop pass of ANY synchronous store.
-/
import Hpfeeds.Model.Broker
import Hpfeeds.Lemmas.Wire
namespace Hpfeeds.Broker
open Hpfeeds Extracted

def withSync (cfg : Cfg) (tbl : Bytes → Option Row) : Cfg := { cfg with store := .sync tbl }

theorem authOk_withSync (cfg : Cfg) (tbl : Bytes → Option Row) (x : Conn) (d : Bytes) (r : Lookup) :
    authOk (withSync cfg tbl) x d r = authOk cfg x d r := by
  cases r <;> rfl

theorem msg_store_irrelevant (cfg : Cfg) (tbl : Bytes → Option Row) (hs : cfg.store = .async) (s : State) (c : Nat)
    (f : Frame) (h : (messageReceived cfg s c f).2 ≠ .brk) :
    messageReceived (withSync cfg tbl) s c f = messageReceived cfg s c f := by
  unfold messageReceived at h ⊢
  cases hx : s.conn c with
  | none => rfl
  | some x =>
    rw [hx] at h
    simp only at h ⊢
    split
    · rfl
    · cases hr : read f with
      | none => rfl
      | some e =>
        cases e with
        | error _ => rfl
        | ok m =>
          cases m with
          | auth ident digest =>
            rw [hr] at h
            simp only at h ⊢
            split
            · rfl
            · rename_i hreg
              exfalso
              simp only [hreg, hs] at h
              rename_i hpre
              simp only [hpre, if_false] at h
              exact h rfl
          | error _ => rfl
          | info _ _ => rfl
          | publish _ _ _ => rfl
          | subscribe _ _ => rfl
          | unsubscribe _ _ => rfl

theorem loop_wait' {cfg : Cfg} {c : Nat} {s : State} {buf : Bytes} (h : header buf = .wait) :
    loop cfg c s buf = (s, buf, .cont) := by
  rw [loop]; split
  · rfl
  · rename_i h'; rw [h] at h'; cases h'
  · rename_i h'; rw [h] at h'; cases h'
theorem loop_bad' {cfg : Cfg} {c : Nat} {s : State} {buf : Bytes} {e : Err} (h : header buf = .bad e) :
    loop cfg c s buf = (closeT s c, buf, .cont) := by
  rw [loop]; split
  · rename_i h'; rw [h] at h'; cases h'
  · rfl
  · rename_i h'; rw [h] at h'; cases h'
theorem loop_ok' {cfg : Cfg} {c : Nat} {s : State} {buf : Bytes} {ml : Nat} {op : UInt8}
    (h : header buf = .ok ml op) :
    loop cfg c s buf =
      match (messageReceived cfg s c (popFrame buf ml op).1).2 with
      | .cont => loop cfg c (messageReceived cfg s c (popFrame buf ml op).1).1 (popFrame buf ml op).2
      | ctl => ((messageReceived cfg s c (popFrame buf ml op).1).1, (popFrame buf ml op).2, ctl) := by
  rw [loop]
  split
  · rename_i h'; rw [h] at h'; cases h'
  · rename_i h'; rw [h] at h'; cases h'
  · rename_i ml' op' h'
    rw [h] at h'; injection h' with h1 h2; subst h1; subst h2
    rfl

theorem loop_store_irrelevant (cfg : Cfg) (tbl : Bytes → Option Row) (hs : cfg.store = .async) (c : Nat) :
    ∀ (buf : Bytes) (s : State), (loop cfg c s buf).2.2 ≠ .brk → loop (withSync cfg tbl) c s buf = loop cfg c s buf := by
  intro buf
  induction hn : buf.length using Nat.strongRecOn generalizing buf with
  | _ n ih =>
    intro s h
    cases hh : header buf with
    | wait => rw [loop_wait' hh, loop_wait' hh]
    | bad e => rw [loop_bad' hh, loop_bad' hh]
    | ok ml op =>
      have hk := header_ok hh
      rw [loop_ok' hh] at h ⊢
      rw [loop_ok' hh]
      have hm : (messageReceived cfg s c (popFrame buf ml op).1).2 ≠ .brk := by
        intro hb
        rw [hb] at h
        exact h rfl
      rw [msg_store_irrelevant cfg tbl hs s c _ hm]
      cases hctl : (messageReceived cfg s c (popFrame buf ml op).1).2 with
      | cont =>
        rw [hctl] at h
        simp only at h ⊢
        exact ih _ (by simp only [popFrame, List.length_drop]; omega) _ rfl _ h
      | brk => exact absurd hctl hm
      | crash => rfl

end Hpfeeds.Broker
