import Hpfeeds.Lemmas.BrokerPres
namespace Hpfeeds.Broker
open Hpfeeds Extracted

structure Reg (s : State) : Prop where
  sub_iff : ∀ ch c, c ∈ s.subs ch ↔ ∃ x, s.conn c = some x ∧ ch ∈ x.active
  subs_nodup : ∀ ch, (s.subs ch).Nodup
  act_nodup : ∀ c x, s.conn c = some x → x.active.Nodup
  unreg_empty : ∀ c x, s.conn c = some x → x.registered = false → x.active = []
  gone_closed : ∀ c x, s.conn c = some x → x.gone = true → x.closing = true ∧ x.registered = false
  ids_iff : ∀ c, c ∈ s.ids ↔ (s.conn c).isSome = true
  ids_nodup : s.ids.Nodup

theorem reg_init : Reg init := by
  constructor <;> simp [init]

/-- workhorse: the state changed at one existing connection `c` (old record `x`, new record `y`) and
    possibly in the registry -/
theorem reg_of_fields {s s' : State} (c : Nat) (x y : Conn) (hx : s.conn c = some x)
    (hconn : ∀ d, s'.conn d = if d = c then some y else s.conn d)
    (hids : s'.ids = s.ids)
    (hsubs : ∀ ch d, d ∈ s'.subs ch ↔ if d = c then ch ∈ y.active else d ∈ s.subs ch)
    (hnd : ∀ ch, (s'.subs ch).Nodup)
    (hact : y.active.Nodup)
    (hunreg : y.registered = false → y.active = [])
    (hgone : y.gone = true → y.closing = true ∧ y.registered = false)
    (h : Reg s) : Reg s' := by
  constructor
  · intro ch d
    rw [hsubs, hconn]
    by_cases hd : d = c
    · simp [hd]
    · simp only [hd, if_false]; exact h.sub_iff ch d
  · exact hnd
  · intro d z hz
    rw [hconn] at hz
    by_cases hd : d = c
    · simp only [hd, if_true, Option.some.injEq] at hz; subst hz; exact hact
    · simp only [hd, if_false] at hz; exact h.act_nodup d z hz
  · intro d z hz
    rw [hconn] at hz
    by_cases hd : d = c
    · simp only [hd, if_true, Option.some.injEq] at hz; subst hz; exact hunreg
    · simp only [hd, if_false] at hz; exact h.unreg_empty d z hz
  · intro d z hz
    rw [hconn] at hz
    by_cases hd : d = c
    · simp only [hd, if_true, Option.some.injEq] at hz; subst hz; exact hgone
    · simp only [hd, if_false] at hz; exact h.gone_closed d z hz
  · intro d
    rw [hids, hconn, h.ids_iff]
    by_cases hd : d = c
    · simp [hd, hx]
    · simp [hd]
  · rw [hids]; exact h.ids_nodup

/-- a change of one connection's record that keeps its registry-relevant fields -/
theorem reg_upd {s : State} (c : Nat) (f : Conn → Conn)
    (hf : ∀ x, (f x).active = x.active ∧ (f x).registered = x.registered ∧ (f x).gone = x.gone ∧
      (x.closing = true → (f x).closing = true)) (h : Reg s) : Reg (s.upd c f) := by
  cases hx : s.conn c with
  | none =>
    have : s.upd c f = s := by
      unfold State.upd
      have : (fun k => if k = c then (s.conn k).map f else s.conn k) = s.conn := by
        funext k; by_cases hk : k = c
        · subst hk; simp [hx]
        · simp [hk]
      rw [this]
    rw [this]; exact h
  | some x =>
    obtain ⟨h1, h2, h3, h4⟩ := hf x
    refine reg_of_fields c x (f x) hx ?_ rfl ?_ h.subs_nodup ?_ ?_ ?_ h
    · intro d; simp only [upd_conn]
      by_cases hd : d = c
      · subst hd; simp [hx]
      · simp [hd]
    · intro ch d
      show d ∈ s.subs ch ↔ _
      by_cases hd : d = c
      · subst hd; simp only [if_true, h1]; rw [h.sub_iff]; simp [hx]
      · simp [hd]
    · rw [h1]; exact h.act_nodup c x hx
    · rw [h1, h2]; exact h.unreg_empty c x hx
    · rw [h3, h2]; intro hg
      obtain ⟨a, b⟩ := h.gone_closed c x hx hg
      exact ⟨h4 a, b⟩

/-- `Reg` only reads `conn`, `subs` and `ids` -/
theorem reg_congr {s s' : State} (h1 : s'.conn = s.conn) (h2 : s'.subs = s.subs) (h3 : s'.ids = s.ids)
    (h : Reg s) : Reg s' := by
  constructor
  · intro ch c; rw [h1, h2]; exact h.sub_iff ch c
  · intro ch; rw [h2]; exact h.subs_nodup ch
  · intro c x; rw [h1]; exact h.act_nodup c x
  · intro c x; rw [h1]; exact h.unreg_empty c x
  · intro c x; rw [h1]; exact h.gone_closed c x
  · intro c; rw [h1, h3]; exact h.ids_iff c
  · rw [h3]; exact h.ids_nodup

theorem reg_logAct {s : State} (c : Nat) (a : Act) (h : Reg s) : Reg (logAct s c a) :=
  reg_upd c _ (fun _ => ⟨rfl, rfl, rfl, fun h => h⟩) h

theorem beginClose_fields (x : Conn) :
    x.beginClose.active = x.active ∧ x.beginClose.registered = x.registered ∧
    x.beginClose.gone = x.gone ∧ (x.closing = true → x.beginClose.closing = true) := by
  unfold Conn.beginClose
  split <;> simp_all

theorem reg_closeT {s : State} (c : Nat) (h : Reg s) : Reg (closeT s c) := by
  refine reg_upd c _ (fun x => ?_) h
  by_cases hc : x.closing = true
  · simp [hc]
  · simp [hc, Conn.beginClose]

theorem reg_errorClose {s : State} (c : Nat) (h : Reg s) : Reg (errorClose s c) :=
  reg_closeT c (reg_logAct c _ h)

theorem reg_crashClose {s : State} (c : Nat) (h : Reg s) : Reg (crashClose s c) :=
  reg_upd c _ beginClose_fields (reg_logAct c _ h)

theorem reg_peerClose {s : State} (c : Nat) (h : Reg s) : Reg (peerClose s c) := by
  unfold peerClose
  split
  · exact h
  · split
    · exact h
    · exact reg_upd c _ beginClose_fields (reg_logAct c _ h)

theorem reg_pauseReading {s : State} (c : Nat) (h : Reg s) : Reg (pauseReading s c) := by
  unfold pauseReading
  split
  · split
    · exact h
    · exact reg_logAct c _ (reg_upd c _ (fun _ => ⟨rfl, rfl, rfl, fun h => h⟩) h)
  · exact h

theorem reg_resumeReading {s : State} (c : Nat) (h : Reg s) : Reg (resumeReading s c) := by
  unfold resumeReading
  split
  · split
    · exact h
    · exact reg_logAct c _ (reg_upd c _ (fun _ => ⟨rfl, rfl, rfl, fun h => h⟩) h)
  · exact h

theorem reg_setAuth {s : State} (c : Nat) (i d : Bytes) (row : Row) (h : Reg s) : Reg (setAuth s c i d row) := by
  unfold setAuth
  split
  · exact h
  · exact reg_upd c _ (fun _ => ⟨rfl, rfl, rfl, fun h => h⟩)
      (reg_congr (s := s) rfl rfl rfl h)

/-- explicit form of `subscribe` when it acts -/
theorem subscribe_eq {s : State} {c : Nat} {ch : Bytes} {x : Conn} (hx : s.conn c = some x)
    (hnot : ch ∉ x.active) :
    subscribe s c ch =
      { s with
        conn := fun d => if d = c then some { x with active := x.active ++ [ch] } else s.conn d
        gSubs := bump s.gSubs x.ak ch 1
        labels := if x.ak ∈ s.labels then s.labels else s.labels ++ [x.ak]
        subs := fun k => if k = ch then s.subs k ++ [c] else s.subs k } := by
  unfold subscribe
  rw [hx]
  simp only [hnot, if_false, State.upd]
  congr 1
  funext d
  by_cases hd : d = c
  · subst hd; simp [hx]
  · simp [hd]

theorem subscribe_noop {s : State} {c : Nat} {ch : Bytes} {x : Conn} (hx : s.conn c = some x)
    (hin : ch ∈ x.active) : subscribe s c ch = s := by
  unfold subscribe; rw [hx]; simp [hin]

theorem reg_subscribe {s : State} (c : Nat) (ch : Bytes) (x : Conn) (hx : s.conn c = some x)
    (hreg : x.registered = true) (h : Reg s) : Reg (subscribe s c ch) := by
  by_cases hin : ch ∈ x.active
  · rw [subscribe_noop hx hin]; exact h
  · rw [subscribe_eq hx hin]
    have hc : c ∉ s.subs ch := by
      rw [h.sub_iff]; rintro ⟨y, hy, hm⟩; rw [hx] at hy; cases hy; exact hin hm
    refine reg_of_fields c x { x with active := x.active ++ [ch] } hx (fun d => rfl) rfl ?_ ?_ ?_ ?_ ?_ h
    · intro ch' d
      simp only
      by_cases hch : ch' = ch
      · subst hch
        simp only [if_true, List.mem_append, List.mem_singleton]
        by_cases hd : d = c
        · subst hd; simp
        · simp [hd]
      · simp only [hch, if_false, List.mem_append, List.mem_singleton, or_false]
        by_cases hd : d = c
        · subst hd; simp only [if_true]; rw [h.sub_iff]; simp [hx]
        · simp [hd]
    · intro ch'
      simp only
      by_cases hch : ch' = ch
      · subst hch
        simp only [if_true]
        refine List.nodup_append.mpr ⟨h.subs_nodup _, by simp, ?_⟩
        intro a ha b hb; simp at hb; subst hb; intro hab; subst hab; exact hc ha
      · simp only [hch, if_false]; exact h.subs_nodup _
    · refine List.nodup_append.mpr ⟨h.act_nodup _ _ hx, by simp, ?_⟩
      intro a ha b hb; simp at hb; subst hb; intro hab; subst hab; exact hin ha
    · simp [hreg]
    · exact h.gone_closed c x hx

theorem unsubscribe_eq {s : State} {c : Nat} {ch : Bytes} {x : Conn} (hx : s.conn c = some x)
    (hin : ch ∈ x.active) :
    unsubscribe s c ch =
      { s with
        conn := fun d => if d = c then some { x with active := x.active.erase ch } else s.conn d
        gSubs := bump s.gSubs x.ak ch (-1)
        labels := if x.ak ∈ s.labels then s.labels else s.labels ++ [x.ak]
        subs := fun k => if k = ch then (s.subs k).erase c else s.subs k } := by
  unfold unsubscribe
  rw [hx]
  simp only [hin, if_true, State.upd]
  congr 1
  funext d
  by_cases hd : d = c
  · subst hd; simp [hx]
  · simp [hd]

theorem unsubscribe_noop {s : State} {c : Nat} {ch : Bytes} {x : Conn} (hx : s.conn c = some x)
    (hin : ch ∉ x.active) : unsubscribe s c ch = s := by
  unfold unsubscribe; rw [hx]; simp [hin]

theorem unsubscribe_none {s : State} {c : Nat} {ch : Bytes} (hx : s.conn c = none) :
    unsubscribe s c ch = s := by
  unfold unsubscribe; rw [hx]

theorem reg_unsubscribe {s : State} (c : Nat) (ch : Bytes) (h : Reg s) : Reg (unsubscribe s c ch) := by
  cases hx : s.conn c with
  | none => rw [unsubscribe_none hx]; exact h
  | some x =>
    by_cases hin : ch ∈ x.active
    · rw [unsubscribe_eq hx hin]
      have hnd := h.act_nodup c x hx
      refine reg_of_fields c x { x with active := x.active.erase ch } hx (fun d => rfl) rfl ?_ ?_ ?_ ?_ ?_ h
      · intro ch' d
        simp only
        by_cases hch : ch' = ch
        · subst hch
          simp only [if_true]
          by_cases hd : d = c
          · subst hd
            simp only [if_true]
            have h1 : d ∉ (s.subs ch').erase d := fun hm => (List.Nodup.mem_erase_iff (h.subs_nodup ch')).mp hm |>.1 rfl
            have h2 : ch' ∉ x.active.erase ch' := fun hm => (List.Nodup.mem_erase_iff hnd).mp hm |>.1 rfl
            simp [h1, h2]
          · simp only [hd, if_false]
            rw [List.Nodup.mem_erase_iff (h.subs_nodup ch')]
            simp [hd]
        · simp only [hch, if_false]
          by_cases hd : d = c
          · subst hd; simp only [if_true]
            rw [h.sub_iff, List.Nodup.mem_erase_iff hnd]; simp [hx, hch]
          · simp [hd]
      · intro ch'
        simp only
        by_cases hch : ch' = ch
        · subst hch; simp only [if_true]; exact (h.subs_nodup _).erase _
        · simp only [hch, if_false]; exact h.subs_nodup _
      · exact hnd.erase _
      · intro hr
        have := h.unreg_empty c x hx hr
        simp [this]
      · exact h.gone_closed c x hx
    · rw [unsubscribe_noop hx hin]; exact h

/-- what `unsubscribe` does to the record of `c` and to nothing else -/
theorem unsubscribe_conn {s : State} {c : Nat} {ch : Bytes} {x : Conn} (hx : s.conn c = some x) :
    (unsubscribe s c ch).conn c = some { x with active := x.active.erase ch } := by
  by_cases hin : ch ∈ x.active
  · rw [unsubscribe_eq hx hin]; simp
  · rw [unsubscribe_noop hx hin, hx]
    congr 1
    have : x.active.erase ch = x.active := List.erase_of_not_mem hin
    rw [this]

theorem foldl_unsubscribe_reg {s : State} (c : Nat) (l : List Bytes) (h : Reg s) :
    Reg (l.foldl (fun s ch => unsubscribe s c ch) s) := by
  induction l generalizing s with
  | nil => exact h
  | cons a l ih => exact ih (reg_unsubscribe c a h)

theorem foldl_unsubscribe_conn {s : State} {c : Nat} (l : List Bytes) {x : Conn} (hx : s.conn c = some x) :
    (l.foldl (fun s ch => unsubscribe s c ch) s).conn c =
      some { x with active := l.foldl (fun a ch => a.erase ch) x.active } := by
  induction l generalizing s x with
  | nil => simpa using hx
  | cons a l ih =>
    simp only [List.foldl_cons]
    rw [ih (unsubscribe_conn hx)]

theorem foldl_erase_sub (l m : List Bytes) (hm : m.Nodup) (hsub : ∀ a ∈ m, a ∈ l) :
    l.foldl (fun a ch => a.erase ch) m = [] := by
  induction l generalizing m with
  | nil =>
    cases m with
    | nil => rfl
    | cons b m => exact absurd (hsub b (by simp)) (by simp)
  | cons a l ih =>
    simp only [List.foldl_cons]
    apply ih _ (hm.erase a)
    intro b hb
    have hb' := (List.Nodup.mem_erase_iff hm).mp hb
    have := hsub b hb'.2
    simp only [List.mem_cons] at this
    rcases this with h | h
    · exact absurd h hb'.1
    · exact h

theorem foldl_erase_self (l : List Bytes) (h : l.Nodup) : l.foldl (fun a ch => a.erase ch) l = [] :=
  foldl_erase_sub l l h (fun _ h => h)

/-- `Connection.connection_lost` -/
theorem connectionLost_conn {s : State} {c : Nat} {x : Conn} (hx : s.conn c = some x) (hr : x.registered = true)
    (hnd : x.active.Nodup) :
    (connectionLost s c).conn c = some { x with active := [], registered := false, lostAs := some x.ak } := by
  unfold connectionLost
  rw [hx]
  simp only [hr, if_true]
  rw [upd_conn_self (foldl_unsubscribe_conn (s := countLost s x.ak) x.active hx)]
  rw [foldl_erase_self _ hnd]

theorem connectionLost_noop {s : State} {c : Nat} {x : Conn} (hx : s.conn c = some x) (hr : x.registered = false) :
    connectionLost s c = s := by
  unfold connectionLost; rw [hx]; simp [hr]

theorem reg_connectionLost {s : State} (c : Nat) (h : Reg s) : Reg (connectionLost s c) := by
  unfold connectionLost
  split
  · exact h
  · rename_i x hx
    split
    · rename_i hr
      have h1 : Reg (countLost s x.ak) := reg_congr (s := s) rfl rfl rfl h
      have h2 := foldl_unsubscribe_reg c x.active h1
      have hc := foldl_unsubscribe_conn (s := countLost s x.ak) (c := c) x.active hx
      rw [foldl_erase_self _ (h.act_nodup c x hx)] at hc
      -- now set registered := false on a record whose active list is empty
      generalize (x.active.foldl (fun s ch => unsubscribe s c ch) _) = s2 at h2 hc ⊢
      refine reg_of_fields c _ { x with active := [], registered := false, lostAs := some x.ak } hc ?_ rfl ?_ h2.subs_nodup ?_ ?_ ?_ h2
      · intro d; simp only [upd_conn]
        by_cases hd : d = c
        · subst hd; simp [hc]
        · simp [hd]
      · intro ch d
        show d ∈ s2.subs ch ↔ _
        by_cases hd : d = c
        · subst hd; simp only [if_true]; rw [h2.sub_iff]; simp [hc]
        · simp [hd]
      · simp
      · simp
      · intro hg
        simp only at hg ⊢
        exact ⟨(h.gone_closed c x hx hg).1, trivial⟩
    · exact h

theorem reg_deliver {s : State} (f : Frame) (d : Nat) (h : Reg s) : Reg (deliver f s d) := by
  unfold deliver
  split
  · exact h
  · split
    · exact reg_connectionLost d h
    · exact reg_logAct d _ h

theorem reg_foldl_deliver {s : State} (f : Frame) (l : List Nat) (h : Reg s) :
    Reg (l.foldl (deliver f) s) := by
  induction l generalizing s with
  | nil => exact h
  | cons a l ih => exact ih (reg_deliver f a h)

theorem reg_publish {s : State} (c : Nat) (x : Conn) (i ch p : Bytes) (h : Reg s) :
    Reg (publish s c x i ch p) := by
  unfold publish
  exact reg_congr (s := (s.subs ch).eraseDups.foldl (deliver (pubFrame i ch p)) s) rfl rfl rfl
    (reg_foldl_deliver _ _ h)

theorem reg_addConn {cfg : Cfg} {s : State} (c : Nat) (n : Bytes) (hc : s.conn c = none) (h : Reg s) :
    Reg (addConn cfg s c n) := by
  have hcid : c ∉ s.ids := by rw [h.ids_iff, hc]; simp
  unfold addConn
  constructor
  · intro ch d
    simp only
    rw [h.sub_iff]
    by_cases hd : d = c
    · subst hd; simp [hc]
    · simp [hd]
  · exact h.subs_nodup
  · intro d y hy
    simp only at hy
    by_cases hd : d = c
    · simp only [hd, if_true, Option.some.injEq] at hy; subst hy; simp
    · simp only [hd, if_false] at hy; exact h.act_nodup d y hy
  · intro d y hy
    simp only at hy
    by_cases hd : d = c
    · simp only [hd, if_true, Option.some.injEq] at hy; subst hy; simp
    · simp only [hd, if_false] at hy; exact h.unreg_empty d y hy
  · intro d y hy
    simp only at hy
    by_cases hd : d = c
    · simp only [hd, if_true, Option.some.injEq] at hy; subst hy; simp
    · simp only [hd, if_false] at hy; exact h.gone_closed d y hy
  · intro d
    simp only [List.mem_append, List.mem_singleton]
    rw [h.ids_iff]
    by_cases hd : d = c
    · simp [hd]
    · simp [hd]
  · simp only
    exact List.nodup_append.mpr ⟨h.ids_nodup, by simp, by
      intro a ha b hb; simp at hb; subst hb; intro hab; subst hab; exact hcid ha⟩

theorem peerClose_conn {s : State} {c : Nat} {x : Conn} (hx : s.conn c = some x) :
    ∃ y, (peerClose s c).conn c = some y ∧ y.active = x.active ∧ y.registered = x.registered ∧
      y.gone = x.gone ∧ y.closing = true := by
  unfold peerClose
  rw [hx]
  simp only
  by_cases hc : x.closing = true
  · simp only [hc, if_true]; exact ⟨x, hx, rfl, rfl, rfl, hc⟩
  · simp only [hc]
    refine ⟨_, upd_conn_self (logAct_conn_self hx), ?_, ?_, ?_, ?_⟩ <;> simp [Conn.beginClose, hc]

theorem connectionLost_unreg {s : State} {c : Nat} {x : Conn} (hx : s.conn c = some x) (h : Reg s) :
    ∃ y, (connectionLost s c).conn c = some y ∧ y.registered = false ∧ y.gone = x.gone ∧
      y.closing = x.closing := by
  by_cases hr : x.registered = true
  · exact ⟨_, connectionLost_conn hx hr (h.act_nodup c x hx), rfl, rfl, rfl⟩
  · have hr' : x.registered = false := by simpa using hr
    rw [connectionLost_noop hx hr']; exact ⟨x, hx, hr', rfl, rfl⟩

theorem reg_markGone {s : State} (c : Nat) (x : Conn) (hx : s.conn c = some x) (hr : x.registered = false)
    (h : Reg s) : Reg (markGone s c) := by
  unfold markGone
  obtain ⟨y, hy, ha, hr', hg, hcl⟩ := peerClose_conn hx
  have hp := reg_peerClose c h
  generalize peerClose s c = s1 at hy hp
  refine reg_of_fields c y { y with gone := true } hy ?_ rfl ?_ hp.subs_nodup (hp.act_nodup c y hy)
    (hp.unreg_empty c y hy) (fun _ => ⟨hcl, by rw [hr']; exact hr⟩) hp
  · intro d; simp only [upd_conn]
    by_cases hd : d = c
    · subst hd; simp [hy]
    · simp [hd]
  · intro ch d
    show d ∈ s1.subs ch ↔ _
    by_cases hd : d = c
    · subst hd; simp only [if_true]; rw [hp.sub_iff]; simp [hy]
    · simp [hd]

theorem reg_lostConn {s : State} (c : Nat) (x : Conn) (hx : s.conn c = some x) (h : Reg s) :
    Reg (lostConn s c) := by
  unfold lostConn
  obtain ⟨y, hy, hr, _, _⟩ := connectionLost_unreg hx h
  exact reg_markGone c y hy hr (reg_connectionLost c h)

theorem reg_doSubscribe {s : State} (c : Nat) (ch : Bytes) (ok : Bool) (x : Conn) (hx : s.conn c = some x)
    (hreg : x.registered = true) (h : Reg s) : Reg (doSubscribe s c ch ok) :=
  reg_upd c _ (fun _ => ⟨rfl, rfl, rfl, fun h => h⟩) (reg_subscribe c ch x hx hreg h)

theorem reg_doUnsubscribe {s : State} (c : Nat) (ch : Bytes) (h : Reg s) : Reg (doUnsubscribe s c ch) :=
  reg_upd c _ (fun _ => ⟨rfl, rfl, rfl, fun h => h⟩) (reg_unsubscribe c ch h)

/-- the registry invariant holds in every reachable state -/
theorem regPres (cfg : Cfg) : Pres cfg Reg where
  prim := fun c => {
    logAct := fun _ a _ h => reg_logAct c a h
    closeT := fun _ h => reg_closeT c h
    crashClose := fun _ h => reg_crashClose c h
    doSubscribe := fun _ ch ok x hx hr _ _ _ h => reg_doSubscribe c ch ok x hx hr h
    doUnsubscribe := fun _ ch _ _ _ _ h => reg_doUnsubscribe c ch h
    setAuth := fun _ i d row _ _ _ h => reg_setAuth c i d row h
    pauseReading := fun _ h => reg_pauseReading c h
    resumeReading := fun _ h => reg_resumeReading c h
    addPending := fun _ _ _ h => reg_upd c _ (fun _ => ⟨rfl, rfl, rfl, fun h => h⟩) h
    dropPending := fun _ _ h => reg_upd c _ (fun _ => ⟨rfl, rfl, rfl, fun h => h⟩) h
    setBuf := fun _ _ h => reg_upd c _ (fun _ => ⟨rfl, rfl, rfl, fun h => h⟩) h
    publish := fun _ x i ch p _ _ _ _ h => reg_publish c x i ch p h
    addConn := fun _ n hc h => reg_addConn c n hc h
    peerClose := fun _ h => reg_peerClose c h
    lostConn := fun _ x hx _ h => reg_lostConn c x hx h
    armDeadline := fun _ h => reg_logAct c _ (reg_upd c _ (fun _ => ⟨rfl, rfl, rfl, fun h => h⟩) h)
    clearDeadline := fun _ a _ h => reg_logAct c a (reg_upd c _ (fun _ => ⟨rfl, rfl, rfl, fun h => h⟩) h) }
  tick := fun s ms h => reg_congr (s := s) rfl rfl rfl h

theorem reg_run (cfg : Cfg) (es : List Event) : Reg (run cfg es) :=
  pres_run (regPres cfg) reg_init es

end Hpfeeds.Broker
