/-
  The broker: `hpfeeds.broker.server.Server` + `hpfeeds.broker.connection.Connection`
  (+ the receive path of `hpfeeds.asyncio.protocol.BaseProtocol`), as a total, executable state
  machine over transport / store / timer events.  Import-free apart from the wire model.

  Conventions
  * text values (idents, channel names, secrets) are their UTF-8 bytes (see Model/Bytes.lean);
  * a connection is identified by a natural number chosen by the environment (`connect c`);
  * `out` is the per-connection log of everything the broker did to that connection's transport,
    in order, stamped with virtual time; it also carries ghost entries for transport/timer events
    so that trace properties can be stated on it;
  * fields marked "ghost" are written but never read by the transition function.
-/
import Hpfeeds.Model.Wire
namespace Hpfeeds.Broker
open Hpfeeds Extracted

/-- a credential record as the stores return it (`secret`, `owner`, `pubchans`, `subchans`) -/
structure Row where
  secret : Bytes
  owner : Bytes
  pubchans : List Bytes
  subchans : List Bytes
deriving DecidableEq, Repr, Inhabited

/-- the outcome of `get_authkey`: a truthy record, a falsy value (unknown ident), or an exception -/
inductive Lookup
  | row (r : Row)
  | missing
  | raised
deriving DecidableEq, Repr

/-- the credential store answers every look-up synchronously from a table, or every look-up
    asynchronously (the environment completes it later with `lookupDone`) -/
inductive Store
  | sync (tbl : Bytes → Option Row)
  | async

structure Cfg where
  name : Bytes
  store : Store
  H : Bytes → Bytes

inductive Act
  | write (f : Frame)        -- transport.write(enc f)
  | close                    -- first transport.close() by the broker
  | pauseReading             -- effective transport.pause_reading()
  | resumeReading            -- effective transport.resume_reading()
  | setLimits (hi : Nat)     -- transport.set_write_buffer_limits(high=hi)
  | crashed                  -- an exception other than ProtocolException escaped a callback
  | peerClosed               -- ghost: the peer closed / the transport failed (eof, lost)
  | pausedW                  -- ghost: pause_writing() was called (high-water mark exceeded)
  | resumedW                 -- ghost: resume_writing() was called
  | deadlineFired            -- ghost: the grace period expired
deriving DecidableEq, Repr

structure Conn where
  nonce : Bytes
  ak : Option Bytes := none
  pubchans : List Bytes := []
  subchans : List Bytes := []
  active : List Bytes := []            -- active_subscriptions
  buf : Bytes := []                    -- unpacker.buf
  closing : Bool := false              -- transport.is_closing()
  gone : Bool := false                 -- the transport has reported connection_lost
  registered : Bool := true            -- self in server.connections (self.server is not None)
  paused : Bool := false               -- transport reading is paused
  pending : List (Bytes × Bytes) := [] -- credential look-ups in flight: (ident, digest)
  deadline : Option Nat := none        -- expiry of the armed back-pressure timer
  out : List (Nat × Act) := []
  granted : List Bytes := []           -- ghost: channels for which a SUBSCRIBE passed the ACL
  authed : List (Bytes × Bytes × Row) := []  -- ghost: successful AUTHs (ident, digest, row)
  lastReq : List (Bytes × Bool) := []  -- ghost: processed (UN)SUBSCRIBE requests, newest first
  pubsAtClose : Option (List Frame) := none  -- ghost: PUBLISH frames written when closing began
  lostAs : Option (Option Bytes) := none     -- ghost: the CONNECTION_LOST label it was counted under
deriving Repr

/-- ghost record of one accepted publish -/
structure Accepted where
  src : Nat
  ident : Bytes
  chan : Bytes
  payload : Bytes
  time : Nat
  srcAk : Option Bytes         -- the ident `src` was authenticated as at that moment
  srcPubchans : List Bytes     -- and its publish list
  recips : List Nat            -- connections the frame was actually written to
  entitled : List Nat          -- spec: connections subscribed to `chan` and open at that moment
  grantedOk : Bool             -- monitor: every recipient had passed the subscribe ACL for `chan`
deriving Repr

structure State where
  conn : Nat → Option Conn
  ids : List Nat                        -- every connection id ever seen, oldest first
  subs : Bytes → List Nat               -- server.subscriptions
  now : Nat := 0
  gConns : Int := 0                     -- CLIENT_CONNECTIONS
  gSubs : Option Bytes → Bytes → Int    -- SUBSCRIPTIONS{ident, chan}
  cMade : Nat := 0                      -- CONNECTION_MADE
  cLost : Option Bytes → Nat            -- CONNECTION_LOST{ident}
  labels : List (Option Bytes) := []    -- ghost: every label ever used with gSubs
  accepted : List Accepted := []        -- ghost

def init : State :=
  { conn := fun _ => none, ids := [], subs := fun _ => [], gSubs := fun _ _ => 0, cLost := fun _ => 0 }

inductive Event
  | connect (c : Nat) (nonce : Bytes)    -- connection_made; nonce = os.urandom(4)
  | data (c : Nat) (b : Bytes)           -- data_received
  | eof (c : Nat)                        -- peer closed: the transport starts closing
  | lost (c : Nat)                       -- connection_lost from the transport
  | lookupDone (c : Nat) (i : Nat) (r : Lookup)  -- i-th pending look-up of c completes
  | pause (c : Nat)                      -- pause_writing
  | resume (c : Nat)                     -- resume_writing
  | fire (c : Nat)                       -- c's deadline timer callback runs
  | advance (ms : Nat)                   -- virtual time passes
deriving Repr

/-! ### primitive updates -/

def State.upd (s : State) (c : Nat) (f : Conn → Conn) : State :=
  { s with conn := fun k => if k = c then (s.conn k).map f else s.conn k }

def pubFrames (out : List (Nat × Act)) : List Frame :=
  out.filterMap fun e => match e.2 with
    | .write f => if f.op.toNat = OP_PUBLISH then some f else none
    | _ => none

def logAct (s : State) (c : Nat) (a : Act) : State :=
  s.upd c fun x => { x with out := x.out ++ [(s.now, a)] }

/-- the transport begins closing (for whatever reason): remember the PUBLISH frames so far (ghost) -/
def Conn.beginClose (x : Conn) : Conn :=
  if x.closing then x else { x with closing := true, pubsAtClose := some (pubFrames x.out) }

/-- `transport.close()` called by the broker: idempotent, only the first call is an action -/
def closeT (s : State) (c : Nat) : State :=
  s.upd c fun x =>
    if x.closing then x else { x.beginClose with out := x.out ++ [(s.now, .close)] }

def errFrame : Frame := ⟨UInt8.ofNat OP_ERROR, []⟩   -- texts of OP_ERROR are not modelled

/-- `self.error(..); self.transport.close()` -/
def errorClose (s : State) (c : Nat) : State := closeT (logAct s c (.write errFrame)) c

def bump (g : Option Bytes → Bytes → Int) (l : Option Bytes) (ch : Bytes) (d : Int) :
    Option Bytes → Bytes → Int :=
  fun l' ch' => if l' = l ∧ ch' = ch then g l' ch' + d else g l' ch'

/-- `Server.subscribe(source, chan)` -/
def subscribe (s : State) (c : Nat) (ch : Bytes) : State :=
  match s.conn c with
  | none => s
  | some x =>
    if ch ∈ x.active then s
    else
      ({ s with
          gSubs := bump s.gSubs x.ak ch 1
          labels := if x.ak ∈ s.labels then s.labels else s.labels ++ [x.ak]
          subs := fun k => if k = ch then s.subs k ++ [c] else s.subs k }).upd c
        fun x => { x with active := x.active ++ [ch] }

/-- `Server.unsubscribe(source, chan)` -/
def unsubscribe (s : State) (c : Nat) (ch : Bytes) : State :=
  match s.conn c with
  | none => s
  | some x =>
    if ch ∈ x.active then
      ({ s with
          gSubs := bump s.gSubs x.ak ch (-1)
          labels := if x.ak ∈ s.labels then s.labels else s.labels ++ [x.ak]
          subs := fun k => if k = ch then (s.subs k).erase c else s.subs k }).upd c
        fun x => { x with active := x.active.erase ch }
    else s

/-- `CLIENT_CONNECTIONS.dec(); CONNECTION_LOST.labels(ak).inc()` -/
def countLost (s : State) (l : Option Bytes) : State :=
  { s with gConns := s.gConns - 1, cLost := fun l' => if l' = l then s.cLost l' + 1 else s.cLost l' }

/-- `Connection.connection_lost(reason)` -/
def connectionLost (s : State) (c : Nat) : State :=
  match s.conn c with
  | none => s
  | some x =>
    if x.registered then
      let s2 := x.active.foldl (fun s ch => unsubscribe s c ch) (countLost s x.ak)
      s2.upd c fun y => { y with registered := false, lostAs := some x.ak }
    else s

def pack8 (x : Bytes) : Bytes := UInt8.ofNat x.length :: x

/-- the frame `msgpublish(ident, chan, payload)` -/
def pubFrame (ident chan payload : Bytes) : Frame :=
  ⟨UInt8.ofNat OP_PUBLISH, pack8 ident ++ pack8 chan ++ payload⟩

def isOpenSub (s : State) (ch : Bytes) (d : Nat) : Bool :=
  match s.conn d with
  | some x => decide (ch ∈ x.active) && !x.closing
  | none => false

/-- one iteration of the loop in `Server.publish` -/
def deliver (f : Frame) (s : State) (d : Nat) : State :=
  match s.conn d with
  | none => s
  | some x => if x.closing then connectionLost s d else logAct s d (.write f)

/-- `Server.publish(source, chan, data)` -/
def publish (s : State) (src : Nat) (x : Conn) (ident ch p : Bytes) : State :=
  let dests := (s.subs ch).eraseDups
  let f := pubFrame ident ch p
  let s' := dests.foldl (deliver f) s
  let recips := dests.filter fun d => match s.conn d with | some y => !y.closing | none => false
  { s' with accepted := s'.accepted ++ [{
      src := src, ident := ident, chan := ch, payload := p, time := s.now,
      srcAk := x.ak, srcPubchans := x.pubchans,
      recips := recips,
      entitled := s.ids.filter (isOpenSub s ch),
      grantedOk := recips.all fun d => match s.conn d with
        | some y => decide (ch ∈ y.granted) | none => false }] }

/-! ### handlers

Every state change below goes through one of a small set of named primitives (`logAct`, `closeT`,
`crashClose`, `subscribe`, `unsubscribe`, `connectionLost`, `setAuth`, `pauseReading`,
`resumeReading`, `addPending`, `dropPending`, `noteSub`, `noteUnsub`, `publish`, `setBuf`,
`addConn`, `peerClose`, `markGone`, `armDeadline`, `clearDeadline`, `tick`), so that an invariant is
established by one preservation lemma per primitive (Lemmas/BrokerPres.lean). -/

inductive Ctl
  | cont   -- handler returned a falsy value: the loop goes on
  | brk    -- handler returned True: the loop stops (asynchronous AUTH)
  | crash  -- an exception that is not a ProtocolException escaped
deriving DecidableEq, Repr

/-- the successful tail of `authenticate`: identity, ACLs, gauge counts follow the connection -/
def setAuth (s : State) (c : Nat) (ident digest : Bytes) (row : Row) : State :=
  match s.conn c with
  | none => s
  | some x =>
    let g := x.active.foldl (fun g ch => bump (bump g x.ak ch (-1)) (some ident) ch 1) s.gSubs
    ({ s with gSubs := g,
              labels := if some ident ∈ s.labels then s.labels else s.labels ++ [some ident] }).upd c
      fun x => { x with
        ak := some ident, pubchans := row.pubchans, subchans := row.subchans,
        authed := x.authed ++ [(ident, digest, row)] }

/-- `high = SIZES[OP_PUBLISH] * 50` in `authenticate`: the factor is read off the source on every run -/
def highWaterFactor : Nat := HIGH_WATER_FACTOR

/-- `await asyncio.sleep(60)` in `pause_writing`'s deadline task: read off the source on every run -/
def gracePeriodMs : Nat := GRACE_MS

/-- does the verdict accept this AUTH?  (`akrow` truthy and `hashsecret(authrand, secret) == digest`) -/
def authOk (cfg : Cfg) (x : Conn) (digest : Bytes) : Lookup → Option Row
  | .row row => if cfg.H (x.nonce ++ row.secret) = digest then some row else none
  | .missing => none
  | .raised => none

/-- `authenticate(ident, secret, akrow)` up to and including `CONNECTION_READY`; `true` = accepted -/
def authenticate (cfg : Cfg) (s : State) (c : Nat) (x : Conn) (ident digest : Bytes) (r : Lookup) :
    State × Bool :=
  match authOk cfg x digest r with
  | some row => (logAct (setAuth s c ident digest row) c (.setLimits (limit OP_PUBLISH * highWaterFactor)), true)
  | none => (errorClose s c, false)

def pauseReading (s : State) (c : Nat) : State :=
  match s.conn c with
  | some x => if x.closing || x.paused then s
              else logAct (s.upd c fun x => { x with paused := true }) c .pauseReading
  | none => s

def resumeReading (s : State) (c : Nat) : State :=
  match s.conn c with
  | some x => if x.closing || !x.paused then s
              else logAct (s.upd c fun x => { x with paused := false }) c .resumeReading
  | none => s

def addPending (s : State) (c : Nat) (ident digest : Bytes) : State :=
  s.upd c fun x => { x with pending := x.pending ++ [(ident, digest)] }

def dropPending (s : State) (c : Nat) (i : Nat) : State :=
  s.upd c fun x => { x with pending := x.pending.eraseIdx i }

/-- ghost bookkeeping for a processed SUBSCRIBE (`ok` = it passed the ACL) -/
def noteSub (s : State) (c : Nat) (ch : Bytes) (ok : Bool) : State :=
  s.upd c fun y => { y with
    granted := if ok ∧ ch ∉ y.granted then y.granted ++ [ch] else y.granted
    lastReq := (ch, true) :: y.lastReq }

/-- ghost bookkeeping for a processed UNSUBSCRIBE -/
def noteUnsub (s : State) (c : Nat) (ch : Bytes) : State :=
  s.upd c fun y => { y with lastReq := (ch, false) :: y.lastReq }

/-- `on_subscribe` from `self.server.subscribe(self, chan)` on, with the ghost bookkeeping -/
def doSubscribe (s : State) (c : Nat) (ch : Bytes) (ok : Bool) : State :=
  noteSub (subscribe s c ch) c ch ok

/-- `on_unsubscribe`, with the ghost bookkeeping -/
def doUnsubscribe (s : State) (c : Nat) (ch : Bytes) : State :=
  noteUnsub (unsubscribe s c ch) c ch

/-- `Connection.message_received(opcode, message)` for one decoded frame -/
def messageReceived (cfg : Cfg) (s : State) (c : Nat) (f : Frame) : State × Ctl :=
  match s.conn c with
  | none => (s, .cont)
  | some x =>
    if x.ak = none ∧ f.op.toNat ≠ OP_AUTH then (errorClose s c, .cont)
    else match read f with
    | none => (closeT s c, .brk)            -- unknown opcode (unreachable behind `header`)
    | some (.error _) => (s, .crash)        -- TypeError / UnicodeDecodeError in a reader
    | some (.ok m) =>
      match m with
      | .error _ => (s, .crash)             -- NotImplementedError(on_error)
      | .info _ _ => (s, .crash)            -- NotImplementedError(on_info)
      | .auth ident digest =>
        if !x.registered then (s, .crash)   -- self.server is None
        else match cfg.store with
          | .sync tbl =>
            let r := match tbl ident with | some row => Lookup.row row | none => Lookup.missing
            ((authenticate cfg s c x ident digest r).1, .cont)
          | .async => (pauseReading (addPending s c ident digest) c, .brk)
      | .publish ident ch p =>
        if some ident ≠ x.ak then (errorClose s c, .cont)
        else if ch ∉ x.pubchans then (errorClose s c, .cont)
        else if !x.registered then (s, .crash)
        else (publish s c x ident ch p, .cont)
      | .subscribe _ ch =>
        let s1 := if ch ∈ x.subchans then s else errorClose s c   -- no `return` after the error
        if !x.registered then (s1, .crash)
        else (doSubscribe s1 c ch (decide (ch ∈ x.subchans)), .cont)
      | .unsubscribe _ ch =>
        if !x.registered then (s, .crash)
        else (doUnsubscribe s c ch, .cont)

/-- `process_pending()`: iterate the unpacker over `buf`, dispatching each frame; returns the state,
    the bytes left in the unpacker and how the loop ended.  (While the loop runs the `buf` field of
    the connection record is stale; nothing reads it.) -/
def loop (cfg : Cfg) (c : Nat) (s : State) (buf : Bytes) : State × Bytes × Ctl :=
  match h : header buf with
  | .wait => (s, buf, .cont)
  | .bad _ => (closeT s c, buf, .cont)     -- ProtocolException: protocol_error(); transport.close()
  | .ok ml op =>
    let r := messageReceived cfg s c (popFrame buf ml op).1
    match r.2 with
    | .cont => loop cfg c r.1 (popFrame buf ml op).2
    | ctl => (r.1, (popFrame buf ml op).2, ctl)
termination_by buf.length
decreasing_by
  have := header_ok h
  simp only [popFrame, List.length_drop]
  omega

def setBuf (s : State) (c : Nat) (b : Bytes) : State := s.upd c fun x => { x with buf := b }

/-- an exception escaped `data_received`: asyncio force-closes this transport -/
def crashClose (s : State) (c : Nat) : State :=
  (logAct s c .crashed).upd c Conn.beginClose


/-- `connection_made`: a fresh record whose first action is the OP_INFO challenge -/
def addConn (cfg : Cfg) (s : State) (c : Nat) (nonce : Bytes) : State :=
  let x : Conn := { nonce := nonce,
                    out := [(s.now, .write ⟨UInt8.ofNat OP_INFO, pack8 cfg.name ++ nonce⟩)] }
  { s with conn := fun k => if k = c then some x else s.conn k,
           ids := s.ids ++ [c], gConns := s.gConns + 1, cMade := s.cMade + 1 }

/-- the peer closed or the transport failed: it starts closing without any action of the broker -/
def peerClose (s : State) (c : Nat) : State :=
  match s.conn c with
  | none => s
  | some x => if x.closing then s else (logAct s c .peerClosed).upd c Conn.beginClose

/-- the transport reports the connection lost -/
def markGone (s : State) (c : Nat) : State :=
  (peerClose s c).upd c fun x => { x with gone := true }

/-- `lost c`: the transport is gone and `connection_lost` runs.  (The two parts touch disjoint fields
    and commute; the registry part is written first so that every intermediate state satisfies the
    registry invariant.) -/
def lostConn (s : State) (c : Nat) : State := markGone (connectionLost s c) c

def armDeadline (s : State) (c : Nat) : State :=
  logAct (s.upd c fun x => { x with deadline := some (s.now + gracePeriodMs) }) c .pausedW

def clearDeadline (s : State) (c : Nat) (a : Act) : State :=
  logAct (s.upd c fun x => { x with deadline := none }) c a

def tick (s : State) (ms : Nat) : State := { s with now := s.now + ms }

/-! ### the transition function -/

def step (cfg : Cfg) (s : State) : Event → State
  | .connect c nonce =>
    match s.conn c with
    | some _ => s                          -- ids are fresh; a repeated id is ignored
    | none => addConn cfg s c nonce
  | .data c b =>
    match s.conn c with
    | none => s
    | some x =>
      let r := loop cfg c s (x.buf ++ b)
      let s1 := setBuf r.1 c r.2.1
      if r.2.2 = .crash then crashClose s1 c else s1
  | .eof c => peerClose s c
  | .lost c =>
    match s.conn c with
    | none => s
    | some x => if x.gone then s else lostConn s c
  | .lookupDone c i r =>
    match s.conn c with
    | none => s
    | some x =>
      match x.pending[i]? with
      | none => s
      | some (ident, digest) =>
        let s0 := dropPending s c i
        let a := authenticate cfg s0 c x ident digest r
        if a.2 then
          let r := loop cfg c a.1 x.buf
          let s2 := setBuf r.1 c r.2.1
          if r.2.2 = .crash then closeT s2 c            -- on_auth_result logs it and closes
          else if r.2.2 = .brk then s2                  -- another look-up is in flight: stay paused
          else resumeReading s2 c
        else a.1
  | .pause c => armDeadline s c
  | .resume c =>
    match s.conn c with
    | none => s
    | some x => if x.deadline.isSome then clearDeadline s c .resumedW else s
  | .fire c =>
    match s.conn c with
    | none => s
    | some x =>
      match x.deadline with
      | none => s
      | some t => if t ≤ s.now then errorClose (clearDeadline s c .deadlineFired) c else s
  | .advance ms => tick s ms

def run (cfg : Cfg) (es : List Event) : State := es.foldl (step cfg) init

/-- the same broker configuration with another credential store -/
def Cfg.withStore (cfg : Cfg) (st : Store) : Cfg := { cfg with store := st }

/-- a history under a credential store whose CONTENTS CHANGE while the broker runs (a secret is rotated, an
    identity revoked or added, the JSON file reloaded): every event comes with the store as it is at that
    moment.  `run cfg es` is the special case of a store that never changes (`run_eq_runS`). -/
def runS (cfg : Cfg) (es : List (Store × Event)) : State :=
  es.foldl (fun s se => step (cfg.withStore se.1) s se.2) init

end Hpfeeds.Broker
