/-
  hpfeeds/blocking/reactor.py (Reactor: _connect, _select, _socket_read_ready, _outbox_read_ready,
  _socket_write_ready, _connection_lost), hpfeeds/blocking/session.py (ClientSession + Protocol) and
  hpfeeds/blocking/protocol.py (data_received / message_received), as one state machine.

  Threads.  The reactor thread runs `connect` and `sel` (one `_select()` round: at most one recv, one
  outbox read and one send).  Application threads run `ClientSession._write` in three steps other threads
  can interleave with: `wBegin` (update `subscriptions`, pick `self._reactor._outbox`), `wCheck` (test
  `when_connected` and, if set, `queue.Queue.put` the frame into the picked outbox), `wWake` (the wake-up
  byte of that put).  The outbox of connection `g` is identified by `g`; items put into an outbox that is
  no longer the reactor's are never looked at again.
-/
import Hpfeeds.Model.Wire
namespace Hpfeeds.BlkSession
open Hpfeeds Extracted

structure Cfg where
  ident : Bytes
  secret : Bytes
  H : Bytes → Bytes

abbrev Message := Bytes × Bytes × Bytes   -- ident, channel, payload

inductive AppOp
  | sub (ch : Bytes) | unsub (ch : Bytes) | pub (ch p : Bytes)
deriving DecidableEq, Repr

/-- where an application thread is inside `ClientSession._write` -/
inductive TState
  | idle
  | captured (g : Nat) (frame : Bytes)   -- holds the outbox of connection g, about to test when_connected
  | midPut (g : Nat)                     -- its item is in outbox g, the wake-up byte is not sent yet
deriving DecidableEq, Repr

/-- outcome of `sock.send(buffer)` -/
inductive Send
  | accept (n : Nat)   -- the kernel took n bytes (clipped to the buffer; 0 is treated as a failed write)
  | again              -- EAGAIN / EWOULDBLOCK
deriving DecidableEq, Repr

structure State where
  gen : Nat := 0               -- `_connect()` calls so far; also the name of the current outbox
  live : Bool := false         -- self.sock is not None
  sockClosed : Bool := false   -- transport.close() closed the socket, the reactor still holds it
  dead : Bool := false         -- run_forever ended with an exception
  ready : Bool := false        -- when_connected
  items : List Bytes := []     -- current outbox: queue contents
  wake : Nat := 0              -- current outbox: wake-up bytes (select()-readable iff > 0)
  mid : Nat := 0               -- current outbox: puts between their two halves
  buffer : Bytes := []         -- Reactor._buffer
  ubuf : Bytes := []           -- protocol.unpacker.buf
  pendingIn : List Bytes := [] -- chunks the network delivered that recv() has not returned yet
  eof : Bool := false          -- the peer closed
  subs : List Bytes := []      -- session.subscriptions
  rq : List Message := []      -- session.read_queue
  thr : Nat → TState := fun _ => .idle
  -- ghosts about the current connection
  wire : Bytes := []           -- every byte send() accepted, in order
  enq : List Bytes := []       -- every frame put into this connection's outbox, in queue order
  inbound : Bytes := []        -- every byte recv() returned
  processed : List Frame := [] -- every frame dispatched
  nonce : Option Bytes := none -- nonce of the first OP_INFO dispatched
  -- ghosts about the session
  allProcessed : List Frame := []
  received : List Message := []
  handed : List Message := []

inductive Ev
  | connect                        -- run_forever: _connect() (the connector returned a socket)
  | inb (b : Bytes)                -- network: bytes arrive
  | eof                            -- network: peer closes
  | sel (o : Send)                 -- reactor: one _select() round; `o` = outcome of send(), if one happens
  | wBegin (t : Nat) (op : AppOp)  -- application thread t enters subscribe/unsubscribe/publish
  | wCheck (t : Nat)
  | wWake (t : Nat)
  | read                           -- application: read() (offered when it does not block)
deriving Repr

inductive Out
  | sent (k : Nat) (b : Bytes)     -- send() on connection k accepted these bytes
  | lost (k : Nat)                 -- _connection_lost
  | closeSock (k : Nat)            -- transport.close()
  | crash                          -- an exception ended the reactor thread
  | handed (m : Message)
  | block                          -- select() had nothing ready
deriving DecidableEq, Repr

def pack8 (x : Bytes) : Bytes := UInt8.ofNat x.length :: x
def authFrame (cfg : Cfg) (rand : Bytes) : Bytes :=
  enc ⟨UInt8.ofNat OP_AUTH, pack8 cfg.ident ++ cfg.H (rand ++ cfg.secret)⟩
def subFrame (cfg : Cfg) (ch : Bytes) : Bytes := enc ⟨UInt8.ofNat OP_SUBSCRIBE, pack8 cfg.ident ++ ch⟩
def unsubFrame (cfg : Cfg) (ch : Bytes) : Bytes := enc ⟨UInt8.ofNat OP_UNSUBSCRIBE, pack8 cfg.ident ++ ch⟩
def pubFrame (cfg : Cfg) (ch p : Bytes) : Bytes := enc ⟨UInt8.ofNat OP_PUBLISH, pack8 cfg.ident ++ pack8 ch ++ p⟩

def frameOf (cfg : Cfg) : AppOp → Bytes
  | .sub ch => subFrame cfg ch
  | .unsub ch => unsubFrame cfg ch
  | .pub ch p => pubFrame cfg ch p

def bytesLt : Bytes → Bytes → Bool
  | [], [] => false
  | [], _ :: _ => true
  | _ :: _, [] => false
  | a :: as, b :: bs => a < b || (a == b && bytesLt as bs)

def insertSorted (x : Bytes) : List Bytes → List Bytes
  | [] => [x]
  | y :: ys => if bytesLt x y then x :: y :: ys else y :: insertSorted x ys

def sortBytes (l : List Bytes) : List Bytes := l.foldr insertSorted []

/-- `Reactor.write` from the reactor thread itself (protocol callbacks): a complete put -/
def rwrite (s : State) (f : Bytes) : State :=
  { s with items := s.items ++ [f], wake := s.wake + 1, enq := s.enq ++ [f] }

def rwriteAll (s : State) (fs : List Bytes) : State := fs.foldl rwrite s

def closeSock (s : State) : State × List Out :=
  if s.sockClosed then (s, []) else ({ s with sockClosed := true }, [.closeSock s.gen])

/-- `connection_ready`: when_connected.set() (the ghost remembers the first nonce answered) -/
def firstNonce (o : Option Bytes) (rand : Bytes) : Option Bytes :=
  match o with
  | some r => some r
  | none => some rand

def markReady (s : State) (rand : Bytes) : State :=
  { s with ready := true, nonce := firstNonce s.nonce rand }

/-- `on_info`: queue OP_AUTH, then `connection_ready`: set when_connected, queue the resubscriptions -/
def onInfo (cfg : Cfg) (s : State) (rand : Bytes) : State :=
  rwriteAll (markReady (rwrite s (authFrame cfg rand)) rand) ((sortBytes s.subs).map (subFrame cfg))

/-- blocking `message_received` + the session's handlers; `true` = an exception escapes -/
def onFrame (cfg : Cfg) (s : State) (f : Frame) : State × List Out × Bool :=
  match read f with
  | none => let r := closeSock s; (r.1, r.2, false)       -- unreachable behind the decoder
  | some (.error _) => (s, [], true)
  | some (.ok m) =>
    match m with
    | .error _ => (s, [], true)                           -- on_error: NotImplementedError
    | .info _ rand => (onInfo cfg s rand, [], false)
    | .auth _ _ => let r := closeSock s; (r.1, r.2, false)
    | .subscribe _ _ => let r := closeSock s; (r.1, r.2, false)
    | .unsubscribe _ _ => let r := closeSock s; (r.1, r.2, false)
    | .publish i c p => ({ s with rq := s.rq ++ [(i, c, p)], received := s.received ++ [(i, c, p)] }, [], false)

def noteFrame (s : State) (f : Frame) : State :=
  { s with processed := s.processed ++ [f], allProcessed := s.allProcessed ++ [f] }

/-- dispatch decoded frames in order until one raises; returns the frames not dispatched -/
def dispatch (cfg : Cfg) (s : State) : List Frame → State × List Out × Option (List Frame)
  | [] => (s, [], none)
  | f :: fs =>
    let r := onFrame cfg (noteFrame s f) f
    if r.2.2 then (r.1, r.2.1, some fs)
    else let t := dispatch cfg r.1 fs; (t.1, r.2.1 ++ t.2.1, t.2.2)

/-- `data_received(chunk)` -/
def dataReceived (cfg : Cfg) (s : State) (chunk : Bytes) : State × List Out :=
  let s0 := { s with inbound := s.inbound ++ chunk }
  let d := drain (s0.ubuf ++ chunk)
  let r := dispatch cfg s0 d.1
  match r.2.2 with
  | some rest => ({ r.1 with ubuf := rest.flatMap enc ++ d.2.1, dead := true }, r.2.1 ++ [.crash])
  | none =>
    match d.2.2 with
    | none => ({ r.1 with ubuf := d.2.1 }, r.2.1)
    | some _ => let c := closeSock { r.1 with ubuf := d.2.1 }; (c.1, r.2.1 ++ c.2)

def connectionLost (s : State) : State × List Out :=
  ({ s with live := false, ready := false }, [.lost s.gen])

/-- `_socket_write_ready` -/
def writeReady (s : State) (o : Send) : State × List Out :=
  -- the protocol closed the socket earlier in this round: send() raises EBADF, which is not caught
  if s.sockClosed then ({ s with dead := true }, [.crash]) else
  match o with
  | .again => (s, [])
  | .accept n =>
    let k := min n s.buffer.length
    if k = 0 then connectionLost s
    else ({ s with buffer := s.buffer.drop k, wire := s.wire ++ s.buffer.take k }, [.sent s.gen (s.buffer.take k)])

/-- `_outbox_read_ready`: one item into the buffer, then try to send -/
def outboxReady (s : State) (o : Send) : State × List Out :=
  match s.items with
  | [] => (s, [])                       -- unreachable: readable implies an item (queue invariant)
  | f :: r => writeReady { s with items := r, wake := s.wake - 1, buffer := s.buffer ++ f } o

/-- the socket-readable part of a `_select()` round: at most one recv(1024).  The Bool says whether the
    round goes on (`_socket_read_ready` returned True and no exception escaped). -/
def readPhase (cfg : Cfg) (s : State) : State × List Out × Bool :=
  match s.pendingIn with
  | c :: cs =>
    let s' := { s with pendingIn := if c.length ≤ REACTOR_RECV then cs else c.drop REACTOR_RECV :: cs }
    let r := dataReceived cfg s' (c.take REACTOR_RECV)
    (r.1, r.2, !r.1.dead)
  | [] => if s.eof then let r := connectionLost s; (r.1, r.2, false) else (s, [], true)

/-- one `_select()` round; readiness is what select() reported at the start of the round -/
def select (cfg : Cfg) (s : State) (o : Send) : State × List Out :=
  if s.sockClosed then ({ s with dead := true }, [.crash])   -- select() on a closed socket raises
  else
    let sockR := s.pendingIn ≠ [] ∨ s.eof
    let outR := s.buffer = [] ∧ s.wake > 0
    let sockW := s.buffer ≠ []
    if ¬ sockR ∧ ¬ outR ∧ ¬ sockW then (s, [.block])
    else
      let r1 := readPhase cfg s
      if ¬ r1.2.2 then (r1.1, r1.2.1)
      else if outR then let r := outboxReady r1.1 o; (r.1, r1.2.1 ++ r.2)
      else if sockW then let r := writeReady r1.1 o; (r.1, r1.2.1 ++ r.2)
      else (r1.1, r1.2.1)

def step (cfg : Cfg) (s : State) : Ev → State × List Out
  | .connect =>
    if s.live ∨ s.dead then (s, [])
    else ({ s with gen := s.gen + 1, live := true, sockClosed := false, items := [], wake := 0, mid := 0,
                   buffer := [], ubuf := [], pendingIn := [], eof := false,
                   wire := [], enq := [], inbound := [], processed := [], nonce := none }, [])
  | .inb b => if s.live ∧ ¬ s.eof ∧ b ≠ [] then ({ s with pendingIn := s.pendingIn ++ [b] }, []) else (s, [])
  | .eof => if s.live then ({ s with eof := true }, []) else (s, [])
  | .sel o => if s.live ∧ ¬ s.dead then select cfg s o else (s, [])
  | .wBegin t op =>
    if s.thr t ≠ .idle then (s, [])
    else
      let subs := match op with
        | .sub ch => if ch ∈ s.subs then s.subs else s.subs ++ [ch]
        | .unsub ch => s.subs.erase ch
        | .pub _ _ => s.subs
      ({ s with subs := subs, thr := fun u => if u = t then .captured s.gen (frameOf cfg op) else s.thr u }, [])
  | .wCheck t =>
    match s.thr t with
    | .captured g f =>
      if s.ready then
        let s1 := { s with thr := fun u => if u = t then .midPut g else s.thr u }
        if g = s.gen then ({ s1 with items := s.items ++ [f], mid := s.mid + 1, enq := s.enq ++ [f] }, [])
        else (s1, [])
      else ({ s with thr := fun u => if u = t then .idle else s.thr u }, [])
    | _ => (s, [])
  | .wWake t =>
    match s.thr t with
    | .midPut g =>
      let s1 := { s with thr := fun u => if u = t then .idle else s.thr u }
      if g = s.gen then ({ s1 with wake := s.wake + 1, mid := s.mid - 1 }, []) else (s1, [])
    | _ => (s, [])
  | .read =>
    match s.rq with
    | m :: q => ({ s with rq := q, handed := s.handed ++ [m] }, [.handed m])
    | [] => (s, [])

def run (cfg : Cfg) (es : List Ev) : State × List Out :=
  es.foldl (fun acc e => let r := step cfg acc.1 e; (r.1, acc.2 ++ r.2)) ({}, [])

end Hpfeeds.BlkSession
