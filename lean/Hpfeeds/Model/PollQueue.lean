/-
  hpfeeds/blocking/queue.py : the select()-able Queue (a `queue.Queue` plus a socket pair carrying one
  wake-up byte per item).  `put` and `get` are each TWO steps that other threads can interleave with:

      put:  queue.Queue.put(item)        (enq)      then  _putsocket.send(b'x')   (wake)
      get:  _getsocket.recv(1)           (recv)     then  queue.Queue.get()       (deq)

  The model makes the four half-steps the atomic events, for any number of producer and consumer threads
  (a thread is only a count here: `midPut` producers sit between their two steps, `midGet` consumers
  between theirs).  `queue.Queue`'s own lock and the atomicity of one `send`/`recv` system call are the
  granularity taken from the library / OS.
-/
namespace Hpfeeds.PollQueue

structure State (α : Type) where
  items : List α := []      -- queue.Queue contents, oldest first
  wake : Nat := 0           -- bytes in the socket pair: select() reports readable iff wake > 0
  midPut : Nat := 0         -- producers between `enq` and `wake`
  midGet : Nat := 0         -- consumers between `recv` and `deq`
  enqLog : List α := []     -- ghost: every item ever put, in lock order
  deqLog : List α := []     -- ghost: every item ever handed out, in lock order
  emptyErr : Nat := 0       -- ghost: times `queue.Queue.get(block=False)` found nothing (raises Empty)

inductive Ev (α : Type)
  | enq (x : α)   -- first half of put
  | wake          -- second half of put (some producer that is between its halves)
  | recv          -- first half of get; blocks while no byte is there (disabled then)
  | deq           -- second half of get (some consumer that is between its halves)

/-- `none` = the step is not enabled in this state (nobody is at that point / recv would block) -/
def step {α : Type} (s : State α) : Ev α → Option (State α)
  | .enq x => some { s with items := s.items ++ [x], midPut := s.midPut + 1, enqLog := s.enqLog ++ [x] }
  | .wake => if s.midPut = 0 then none else some { s with midPut := s.midPut - 1, wake := s.wake + 1 }
  | .recv => if s.wake = 0 then none else some { s with wake := s.wake - 1, midGet := s.midGet + 1 }
  | .deq =>
    if s.midGet = 0 then none else
    match s.items with
    | [] => some { s with midGet := s.midGet - 1, emptyErr := s.emptyErr + 1 }
    | x :: r => some { s with midGet := s.midGet - 1, items := r, deqLog := s.deqLog ++ [x] }

/-- run a schedule; disabled steps are skipped (the thread is still waiting) -/
def run {α : Type} (s : State α) (es : List (Ev α)) : State α :=
  es.foldl (fun s e => (step s e).getD s) s

def readable {α : Type} (s : State α) : Bool := s.wake > 0

end Hpfeeds.PollQueue
