/-
  hpfeeds/client.py : the blocking `Client` (reconnect=True), as a small-step machine.

  The client is sequential code that blocks in socket calls.  An EVENT is either an application step made
  while no call is in progress (`new`, `sub`, `pub`, `run`, `close`), `stop` (any time: another thread), or
  the environment's answer to the blocking call in progress (`connOk`/`connRefused` for connect(),
  `data`/`eof`/`timeout`/`sockErr` for recv(), `sendOk`/`timeout`/`sockErr` for sendall()).  One step runs
  the client from that answer to its next blocking call (or to the return of the API call).  `pc` is where
  it blocks.  `time.sleep(sleepwait)` does not block the model (it is an output).

  What message_callback does is a parameter: `cfg.react msg` = the client calls it makes (stop, subscribe,
  publish), executed in order; error_callback does nothing.
-/
import Hpfeeds.Model.Wire
namespace Hpfeeds.BlkClient
open Hpfeeds Extracted

abbrev Message := Bytes × Bytes × Bytes   -- ident, channel, payload

inductive Act
  | stop | sub (ch : Bytes) | pub (ch p : Bytes)
deriving DecidableEq, Repr

structure Cfg where
  ident : Bytes
  secret : Bytes
  H : Bytes → Bytes
  naddr : Nat := 1                       -- addresses getaddrinfo() returns, tried in order (at least one)
  react : Message → List Act := fun _ => []

/-- where `publish` returns to -/
inductive PubK
  | idle                    -- called by the application directly
  | cb (rest : List Act)    -- called from message_callback; the callback's remaining calls
deriving DecidableEq, Repr

/-- who called `_subscribe` -/
inductive SubK
  | run                     -- top of run()'s loop
  | pub (k : PubK)          -- publish(), after it had to reconnect
deriving DecidableEq, Repr

/-- who called `tryconnect` -/
inductive Who
  | init | run | pub (k : PubK)
deriving DecidableEq, Repr

inductive Pc
  | fresh                            -- Client(...) not called yet
  | idle                             -- no API call in progress
  | connecting (i : Nat) (who : Who) -- connect() to the i-th address
  | authRecv (who : Who)             -- do_auth: recv()
  | authSend (who : Who) (rand : Bytes) -- do_auth: sendall(OP_AUTH)
  | subSend (ch : Bytes) (rest : List Bytes) (k : SubK) -- _subscribe: sendall(OP_SUBSCRIBE ch); `rest` still to send
  | runRecv                          -- run: recv()
  | pubSend (k : PubK) (frame : Bytes) -- publish: sendall(OP_PUBLISH)
  | crashed                          -- an exception escaped to the application: the object is not used further
  | impossible                       -- a control point the code cannot reach (proved unreachable)
deriving DecidableEq, Repr

inductive Cb
  | msg (m : Message)
  | err (text : Bytes)
deriving DecidableEq, Repr

structure State where
  pc : Pc := .fresh
  connected : Bool := false     -- self.connected (set at TCP connect, cleared only by a Disconnect later on)
  stopped : Bool := false
  nsock : Nat := 0              -- sockets made so far; the current one is number nsock
  sockUp : Bool := false        -- current socket: connect() succeeded
  sockClosed : Bool := false    -- current socket: close() was called
  subs : List Bytes := []
  ubuf : Bytes := []            -- self.unpacker.buf
  -- ghosts
  sent : List Bytes := []       -- frames sendall() delivered on the current socket, in order
  nonce : Option Bytes := none  -- nonce of the OP_INFO answered on the current socket
  fed : Bytes := []             -- bytes fed to the unpacker since its last reset()
  popped : List Frame := []     -- frames popped from it since then
  runFrames : List Frame := []  -- every frame run() took from the unpacker, over all connections, in order
  delivered : List Cb := []     -- every callback invocation, in order
  attempts : Nat := 0

inductive Ev
  | new | sub (ch : Bytes) | pub (ch p : Bytes) | run | close | stop
  | connOk | connRefused
  | data (b : Bytes) | eof | timeout | sockErr
  | sendOk
deriving Repr

inductive Out
  | attempt (k : Nat)          -- connect() called on socket k
  | wrote (k : Nat) (b : Bytes)
  | closed (k : Nat)           -- socket k closed (close_old / close)
  | sleep                      -- time.sleep(sleepwait)
  | msg (m : Message)          -- message_callback
  | err (t : Bytes)            -- error_callback
  | ret                        -- run() returned
  | exc                        -- an exception escaped the API call
deriving DecidableEq, Repr

def pack8 (x : Bytes) : Bytes := UInt8.ofNat x.length :: x
def authFrame (cfg : Cfg) (rand : Bytes) : Bytes :=
  enc ⟨UInt8.ofNat OP_AUTH, pack8 cfg.ident ++ cfg.H (rand ++ cfg.secret)⟩
def subFrame (cfg : Cfg) (ch : Bytes) : Bytes := enc ⟨UInt8.ofNat OP_SUBSCRIBE, pack8 cfg.ident ++ ch⟩
def pubFrame (cfg : Cfg) (ch p : Bytes) : Bytes := enc ⟨UInt8.ofNat OP_PUBLISH, pack8 cfg.ident ++ pack8 ch ++ p⟩

def bytesLt : Bytes → Bytes → Bool
  | [], [] => false
  | [], _ :: _ => true
  | _ :: _, [] => false
  | a :: as, b :: bs => a < b || (a == b && bytesLt as bs)
def insertSorted (x : Bytes) : List Bytes → List Bytes
  | [] => [x]
  | y :: ys => if bytesLt x y then x :: y :: ys else y :: insertSorted x ys
def sortBytes (l : List Bytes) : List Bytes := l.foldr insertSorted []

/-- can the current socket carry a sendall()/recv() at all (else the call fails at once, without blocking) -/
def usable (s : State) : Bool := s.sockUp && !s.sockClosed

/-- `close_old()` / `close()`: close the current socket object (if there is one and it is still open) -/
def closeSock (s : State) : State × List Out :=
  if s.nsock = 0 ∨ s.sockClosed then (s, []) else ({ s with sockClosed := true }, [.closed s.nsock])

/-- `self.s = self.makesocket(); settimeout; connect(...)` on the next address: a fresh socket object -/
def newSocket (s : State) (i : Nat) (who : Who) : State × List Out :=
  ({ s with nsock := s.nsock + 1, sockUp := false, sockClosed := false, sent := [], nonce := none,
            attempts := s.attempts + 1, pc := .connecting i who }, [.attempt (s.nsock + 1)])

/-- `connect()` from its first line: close_old(), then the first address -/
def startConnect (s : State) (who : Who) : State × List Out :=
  let r := closeSock s
  let t := newSocket r.1 0 who
  (t.1, r.2 ++ t.2)

/-- an exception caught by `tryconnect`'s loop: sleep, then connect() again -/
def retry (s : State) (who : Who) : State × List Out :=
  let t := startConnect s who
  (t.1, .sleep :: t.2)

/-- `_subscribe` from channel list `chs` on; `true` = went through / broke out without blocking -/
def subLoop (s : State) (k : SubK) : List Bytes → State × Bool
  | [] => (s, true)
  | ch :: rest =>
    if usable s then ({ s with pc := .subSend ch rest k }, false)
    else ({ s with connected := false }, true)     -- sendall fails at once: Disconnect, break

/-- after the inner `while self.connected` loop of run() has been left -/
def afterInner (s : State) : State × List Out :=
  if s.stopped then ({ s with pc := .idle }, [.ret])
  else if s.connected then ({ s with pc := .impossible }, [])
  else startConnect s .run           -- tryconnect(): not connected, so connect()

/-- `while self.connected:` -- about to call recv() -/
def recvLoop (s : State) : State × List Out :=
  if s.connected then
    if usable s then ({ s with pc := .runRecv }, [])
    else afterInner { s with connected := false }     -- recv fails at once: Disconnect
  else afterInner s

/-- top of run()'s outer loop -/
def runTop (s : State) : State × List Out :=
  if s.stopped then ({ s with pc := .idle }, [.ret])
  else
    let r := subLoop s .run (sortBytes s.subs)
    if r.2 then recvLoop r.1 else (r.1, [])

/-- `publish(ch, p)` up to its sendall -/
def startPublish (cfg : Cfg) (s : State) (k : PubK) (ch p : Bytes) : State × List Out :=
  if usable s then ({ s with pc := .pubSend k (pubFrame cfg ch p) }, [])
  else
    -- Disconnect at once: connected = False, tryconnect() (reconnect is on)
    startConnect { s with connected := false } (.pub k)

/-- the calls a callback makes, in order, until one blocks; `true` = all done -/
def doActs (cfg : Cfg) (s : State) : List Act → State × List Out × Bool
  | [] => (s, [], true)
  | .stop :: r => doActs cfg { s with stopped := true } r
  | .sub ch :: r => doActs cfg { s with subs := if ch ∈ s.subs then s.subs else s.subs ++ [ch] } r
  | .pub ch p :: r => let t := startPublish cfg s (.cb r) ch p; (t.1, t.2, false)

/-- a callback that returns without blocking has not touched the unpacker -/
theorem doActs_ubuf (cfg : Cfg) (s : State) (acts : List Act) (h : (doActs cfg s acts).2.2 = true) :
    (doActs cfg s acts).1.ubuf = s.ubuf := by
  induction acts generalizing s with
  | nil => rfl
  | cons a r ih =>
    cases a with
    | stop => simp only [doActs] at h ⊢; exact ih _ h
    | sub ch => simp only [doActs] at h ⊢; exact ih _ h
    | pub ch p => simp [doActs] at h

inductive FL | done | blocked | disconnect | crash
deriving DecidableEq

/-- the callback run() owes for a frame it took from the unpacker -/
def cbOf (f : Frame) : Option Cb :=
  if f.op.toNat = OP_PUBLISH then
    match read f with
    | some (.ok (.publish i c p)) => some (.msg (i, c, p))
    | _ => none
  else if f.op.toNat = OP_ERROR then
    match read f with
    | some (.ok (.error t)) => some (.err t)
    | _ => none
  else none

/-- run() takes the next frame from the unpacker -/
def popRun (s : State) (ml : Nat) (op : UInt8) : State :=
  { s with ubuf := (popFrame s.ubuf ml op).2, popped := s.popped ++ [(popFrame s.ubuf ml op).1] }

/-- ghost: frame `f` was taken by run() and callback `c` (if any) was made for it -/
def noteRun (s : State) (f : Frame) (c : Option Cb) : State :=
  { s with runFrames := s.runFrames ++ [f], delivered := s.delivered ++ c.toList }

/-- `for opcode, data in self.unpacker:` of run(), from the current buffer on -/
def frameLoop (cfg : Cfg) (s : State) : State × List Out × FL :=
  match h : header s.ubuf with
  | .wait => (s, [], .done)
  | .bad _ => (s, [], .disconnect)              -- ProtocolException is a Disconnect
  | .ok ml op =>
    let f := (popFrame s.ubuf ml op).1
    let s1 := popRun s ml op
    if f.op.toNat = OP_PUBLISH then
      match read f with
      | some (.ok (.publish i c p)) =>
        let r := doActs cfg (noteRun s1 f (some (.msg (i, c, p)))) (cfg.react (i, c, p))
        if hr : r.2.2 = true then
          -- the callback returned without blocking (so no nested reconnect reset the unpacker)
          let t := frameLoop cfg r.1
          (t.1, Out.msg (i, c, p) :: r.2.1 ++ t.2.1, t.2.2)
        else (r.1, Out.msg (i, c, p) :: r.2.1, .blocked)
      | _ => (noteRun s1 f none, [], .crash)
    else if f.op.toNat = OP_ERROR then
      match read f with
      | some (.ok (.error t)) =>
        let r := frameLoop cfg (noteRun s1 f (some (.err t)))
        (r.1, Out.err t :: r.2.1, r.2.2)
      | _ => (noteRun s1 f none, [], .crash)
    else frameLoop cfg (noteRun s1 f none)      -- other opcodes are ignored
termination_by s.ubuf.length
decreasing_by
  · have := header_ok h
    rw [doActs_ubuf cfg _ _ hr]
    show (List.drop ml s.ubuf).length < s.ubuf.length
    simp only [List.length_drop]
    omega
  · have := header_ok h
    show (List.drop ml s.ubuf).length < s.ubuf.length
    simp only [List.length_drop]
    omega
  · have := header_ok h
    show (List.drop ml s.ubuf).length < s.ubuf.length
    simp only [List.length_drop]
    omega

/-- run(): after the frames of one recv() have been handled (or from wherever a callback's publish returns) -/
def afterFrames (cfg : Cfg) (r : State × List Out × FL) : State × List Out :=
  match r.2.2 with
  | .blocked => (r.1, r.2.1)
  | .crash => ({ r.1 with pc := .crashed }, r.2.1 ++ [.exc])
  | .disconnect => let t := afterInner { r.1 with connected := false }; (t.1, r.2.1 ++ t.2)
  | .done =>
    if r.1.stopped then let t := afterInner r.1; (t.1, r.2.1 ++ t.2)
    else let t := recvLoop r.1; (t.1, r.2.1 ++ t.2)

/-- `publish()` returns to its caller -/
def afterPub (cfg : Cfg) (s : State) : PubK → State × List Out
  | .idle => ({ s with pc := .idle }, [])
  | .cb rest =>
    -- back in the callback, then in run()'s frame loop
    let r := doActs cfg s rest
    if r.2.2 then
      let t := afterFrames cfg (frameLoop cfg r.1)
      (t.1, r.2.1 ++ t.2)
    else (r.1, r.2.1)

/-- `_subscribe()` returns to its caller -/
def afterSub (cfg : Cfg) (s : State) : SubK → State × List Out
  | .run => recvLoop s
  | .pub k => afterPub cfg s k

/-- `tryconnect()` returned (connected and authenticated): back in the caller -/
def resume (cfg : Cfg) (s : State) : Who → State × List Out
  | .init => ({ s with pc := .idle }, [])
  | .run => runTop s
  | .pub k =>
    -- publish() resubscribes on the connection it just made (fix D9), then returns
    let r := subLoop s (.pub k) (sortBytes s.subs)
    if r.2 then afterPub cfg r.1 k else (r.1, [])

/-- do_auth after recv() returned `b` -/
def doAuth (cfg : Cfg) (s : State) (who : Who) (b : Bytes) : State × List Out :=
  let s1 := { s with ubuf := s.ubuf ++ b, fed := s.fed ++ b }
  match header s1.ubuf with
  | .wait => retry s1 who                    -- FeedException: cannot assemble a complete message
  | .bad _ => retry s1 who                   -- ProtocolException (a Disconnect)
  | .ok ml op =>
    let f := (popFrame s1.ubuf ml op).1
    let s2 := { s1 with ubuf := (popFrame s1.ubuf ml op).2, popped := s1.popped ++ [f] }
    if f.op.toNat = OP_INFO then
      match read f with
      | some (.ok (.info _ rand)) => ({ s2 with pc := .authSend who rand }, [])
      | _ => ({ s2 with pc := .crashed }, [.exc])      -- UnicodeDecodeError / TypeError escapes
    else retry s2 who                        -- FeedException: expected OP_INFO

def step (cfg : Cfg) (s : State) (e : Ev) : State × List Out :=
  match e with
  | .stop => ({ s with stopped := true }, [])
  | _ =>
  match s.pc, e with
  -- application steps
  | .fresh, .new => startConnect s .init
  | .idle, .sub ch => ({ s with subs := if ch ∈ s.subs then s.subs else s.subs ++ [ch] }, [])
  | .idle, .pub ch p => startPublish cfg s .idle ch p
  | .idle, .run => runTop s
  | .idle, .close => closeSock s
  -- connect()
  | .connecting _ who, .connOk =>
    ({ s with connected := true, sockUp := true, ubuf := [], fed := [], popped := [], pc := .authRecv who }, [])
  | .connecting i who, .connRefused =>
    if i + 1 < cfg.naddr then newSocket s (i + 1) who
    else
      -- no address worked.  `connected` may be stale-True from an earlier TCP connect whose handshake failed:
      -- then do_auth runs on the unconnected socket and its recv fails at once.  Either way: sleep, connect() again
      if s.connected then retry { s with ubuf := [], fed := [], popped := [] } who else retry s who
  -- do_auth
  | .authRecv who, .data b => if b = [] then retry s who else doAuth cfg s who b
  | .authRecv who, .eof => retry s who
  | .authRecv who, .timeout => retry s who
  | .authRecv who, .sockErr => retry s who
  | .authSend who rand, .sendOk =>
    -- do_auth / connect / tryconnect return (every path of `resume` sets pc again)
    let s1 := { s with sent := s.sent ++ [authFrame cfg rand], nonce := some rand, pc := .idle }
    let r := resume cfg s1 who
    (r.1, .wrote s.nsock (authFrame cfg rand) :: r.2)
  | .authSend who _, .timeout => retry s who
  | .authSend who _, .sockErr => retry s who
  -- run(): _subscribe
  | .subSend ch rest k, .sendOk =>
    let s1 := { s with sent := s.sent ++ [subFrame cfg ch] }
    let r := subLoop s1 k rest
    if r.2 then let t := afterSub cfg r.1 k; (t.1, .wrote s.nsock (subFrame cfg ch) :: t.2)
    else (r.1, [.wrote s.nsock (subFrame cfg ch)])
  | .subSend _ _ k, .timeout => afterSub cfg { s with connected := false } k
  | .subSend _ _ k, .sockErr => afterSub cfg { s with connected := false } k
  -- run(): recv
  | .runRecv, .data b =>
    if b = [] then afterInner { s with connected := false }
    else afterFrames cfg (frameLoop cfg { s with ubuf := s.ubuf ++ b, fed := s.fed ++ b })
  | .runRecv, .eof => afterInner { s with connected := false }
  | .runRecv, .sockErr => afterInner { s with connected := false }
  | .runRecv, .timeout => afterFrames cfg (frameLoop cfg s)
  -- publish
  | .pubSend k frame, .sendOk =>
    let s1 := { s with sent := s.sent ++ [frame] }
    let t := afterPub cfg s1 k
    (t.1, .wrote s.nsock frame :: t.2)
  | .pubSend k _, .timeout => startConnect { s with connected := false } (.pub k)
  | .pubSend k _, .sockErr => startConnect { s with connected := false } (.pub k)
  | _, _ => (s, [])

def run (cfg : Cfg) (es : List Ev) : State × List Out :=
  es.foldl (fun acc e => let r := step cfg acc.1 e; (r.1, acc.2 ++ r.2)) ({}, [])

/-- is `e` an event the client can receive at this point (the harness generates only these) -/
def okEv (s : State) : Ev → Bool
  | .stop => true
  | .new => s.pc == .fresh
  | .sub _ | .pub _ _ | .run | .close => s.pc == .idle
  | .connOk | .connRefused => match s.pc with | .connecting _ _ => true | _ => false
  | .data _ | .eof => match s.pc with | .authRecv _ | .runRecv => true | _ => false
  | .timeout | .sockErr => match s.pc with
    | .authRecv _ | .runRecv | .authSend _ _ | .subSend _ _ _ | .pubSend _ _ => true | _ => false
  | .sendOk => match s.pc with | .authSend _ _ | .subSend _ _ _ | .pubSend _ _ => true | _ => false

end Hpfeeds.BlkClient
