/-
  The transport / event-loop contract under which the broker runs (asyncio selector transports,
  CPython 3.12), as a decidable predicate on event histories.  Theorems that need it say so;
  most invariants hold for ALL histories.
-/
import Hpfeeds.Model.Broker
namespace Hpfeeds.Broker

/-- no armed back-pressure timer is due -/
def noDue (s : State) : Bool :=
  s.ids.all fun c => match s.conn c with
    | some x => match x.deadline with | some t => decide (s.now < t) | none => true
    | none => true

/-- may the environment produce event `e` in state `s`? -/
def okEvent (cfg : Cfg) (s : State) : Event → Bool
  | .connect c _ => (s.conn c).isNone && noDue s
  | .data c _ => noDue s && match s.conn c with
    | some x => !x.closing && !x.paused && !x.gone   -- no data after close() or while reading is paused
    | none => false
  | .eof c => noDue s && match s.conn c with
    | some x => !x.closing && !x.paused
    | none => false
  | .lost c => noDue s && match s.conn c with
    | some x => !x.gone                               -- connection_lost is reported once
    | none => false
  | .lookupDone c i _ => noDue s && (match cfg.store with | .async => true | .sync _ => false) &&
    match s.conn c with
    | some x => decide (i < x.pending.length)
    | none => false
  | .pause c => noDue s && match s.conn c with
    | some x => !x.gone && x.deadline.isNone          -- pause_writing / resume_writing alternate
    | none => false
  | .resume c => noDue s && match s.conn c with
    | some x => !x.gone
    | none => false
  | .fire c => match s.conn c with                    -- a timer callback runs when it is due
    | some x => match x.deadline with | some t => decide (t ≤ s.now) | none => false
    | none => false
  | .advance ms => s.ids.all fun c => match s.conn c with   -- the clock never skips a due timer
    | some x => match x.deadline with | some t => decide (s.now + ms ≤ t) | none => true
    | none => true

def validFrom (cfg : Cfg) (s : State) : List Event → Bool
  | [] => true
  | e :: es => okEvent cfg s e && validFrom cfg (step cfg s e) es

def Valid (cfg : Cfg) (es : List Event) : Prop := validFrom cfg init es = true

instance (cfg : Cfg) (es : List Event) : Decidable (Valid cfg es) := by unfold Valid; exact inferInstance

end Hpfeeds.Broker
