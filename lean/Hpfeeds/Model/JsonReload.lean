/-
  hpfeeds/broker/auth/json.py: `Authenticator.load()` and `get_authkey`, over parsed JSON values.
  Parsing itself (`json.load`) is an input: `none` = the file is missing / unreadable / not JSON.
-/
import Hpfeeds.Model.Bytes
namespace Hpfeeds.JsonReload
open Hpfeeds

inductive JVal
  | null
  | bool (b : Bool)
  | num (repr : Bytes)          -- numbers are opaque (compared by canonical text)
  | str (s : Bytes)
  | arr (l : List JVal)
  | obj (l : List (Bytes × JVal))   -- keys unique (a Python dict)
deriving Repr

abbrev Db := List (Bytes × JVal)

def JVal.isObj : JVal → Bool | .obj _ => true | _ => false
def JVal.isArr : JVal → Bool | .arr _ => true | _ => false

def field (l : List (Bytes × JVal)) (k : Bytes) : Option JVal := (l.find? fun e => e.1 = k).map (·.2)

def kOwner : Bytes := [111, 119, 110, 101, 114]
def kSecret : Bytes := [115, 101, 99, 114, 101, 116]
def kPub : Bytes := [112, 117, 98, 99, 104, 97, 110, 115]
def kSub : Bytes := [115, 117, 98, 99, 104, 97, 110, 115]

/-- the checks `load()` makes on one entry -/
def entryOk (v : JVal) : Bool :=
  match v with
  | .obj l =>
    (field l kOwner).isSome && (field l kSecret).isSome &&
    (match field l kPub with | some p => p.isArr | none => false) &&
    (match field l kSub with | some p => p.isArr | none => false)
  | _ => false

/-- `load()`'s validation of the parsed document: the new database, or `none` to keep the old one -/
def validate (j : JVal) : Option Db :=
  match j with
  | .obj l => if l.all (fun e => entryOk e.2) then some l else none
  | _ => none

/-- one (re)load: `parsed = none` when opening / decoding / parsing failed -/
def reload (db : Db) (parsed : Option JVal) : Db :=
  match parsed with
  | none => db
  | some j => match validate j with | some new => new | none => db

def reloads (db : Db) (files : List (Option JVal)) : Db := files.foldl reload db

/-- Python truthiness of a JSON value (`if not res`) -/
def truthy : JVal → Bool
  | .null => false
  | .bool b => b
  | .num r => r ≠ [48] ∧ r ≠ [48, 46, 48] ∧ r ≠ [45, 48] ∧ r ≠ [45, 48, 46, 48]   -- 0, 0.0, -0, -0.0 (canonical texts)
  | .str s => s ≠ []
  | .arr l => !l.isEmpty
  | .obj l => !l.isEmpty

/-- `get_authkey(ident)`: the four fields of the entry (KeyError cannot happen for validated entries) -/
def getAuthkey (db : Db) (ident : Bytes) : Option (JVal × JVal × JVal × JVal) :=
  match field db ident with
  | none => none
  | some v =>
    if !truthy v then none
    else match v with
      | .obj l =>
        match field l kSecret, field l kPub, field l kSub, field l kOwner with
        | some s, some p, some q, some o => some (s, p, q, o)
        | _, _, _, _ => none
      | _ => none

end Hpfeeds.JsonReload
