/-
  hpfeeds/asyncio/client.py : ClientSession + _Protocol (on top of hpfeeds/asyncio/protocol.py), as a
  state machine over application calls and network events, run to quiescence after each event (the
  harness does the same with the real event loop).  One connection exists at a time; `k` numbers the
  connections made so far.
-/
import Hpfeeds.Model.Wire
namespace Hpfeeds.AioClient
open Hpfeeds Extracted

structure Cfg where
  ident : Bytes
  secret : Bytes
  H : Bytes → Bytes
  /-- asyncio: the reconnect task is created by `__init__` and starts by itself; Twisted: `startService()` -/
  autoStart : Bool := true
  /-- delay before reconnecting after a lost connection, in ms (asyncio: none; Twisted: the retry policy) -/
  lossDelay : Nat := 0
  /-- delay before the next attempt after a refused one, in ms (`asyncio.sleep(1)` in `_tryconnect`; Twisted: the
      retry policy) — measured on the real session by the harness at the start of every run -/
  retryDelay : Nat := 1000

/-- where the `reconnect()` task is -/
inductive Task
  | notStarted             -- created by __init__, has not run yet
  | connecting             -- awaiting create_connection (an attempt is in flight)
  | sleeping (till : Nat)  -- asyncio.sleep(1) after a refused attempt
  | waiting                -- connected, awaiting when_closed
  | done                   -- left the loop (closing) or was cancelled by close()
deriving DecidableEq, Repr

abbrev Message := Bytes × Bytes × Bytes   -- ident, channel, payload

structure Conn where
  k : Nat
  buf : Bytes := []            -- protocol.unpacker.buf
  ready : Bool := false        -- connection_ready ran: client.protocol is this connection's protocol
  closing : Bool := false      -- transport.close() was called, or asyncio force-closed it
  gone : Bool := false         -- connection_lost was delivered
  inbound : Bytes := []        -- ghost: every byte received on this connection
  processed : List Frame := [] -- ghost: every frame decoded and dispatched on this connection
  sent : List Bytes := []      -- ghost: every frame written on this connection
  handshake : Option (Bytes × List Bytes) := none  -- ghost: (nonce answered, wanted set) when it became ready
deriving Repr

inductive Out
  | attempt                    -- create_connection called
  | wrote (k : Nat) (b : Bytes)
  | closeT (k : Nat)           -- first transport.close() by the client
  | handed (m : Message)       -- a read() completed
  | closeDone                  -- close() returned
  | crash                      -- an exception escaped data_received (asyncio force-closes the transport)
deriving DecidableEq, Repr

structure State where
  now : Nat := 0
  task : Task := .notStarted
  conn : Option Conn := none
  nconn : Nat := 0
  subs : List Bytes := []          -- client.subscriptions (a set)
  closing : Bool := false          -- client.closing
  closeWait : Bool := false        -- close() is awaiting when_closed
  closeCalled : Bool := false
  queue : List Message := []       -- read_queue
  readers : Nat := 0               -- read() calls waiting
  received : List Message := []    -- ghost: every OP_PUBLISH decoded, in order
  allProcessed : List Frame := []  -- ghost: every frame dispatched, over all connections, in order
  handedLog : List Message := []   -- ghost: every message handed to a read(), in order
  attempts : Nat := 0              -- ghost
deriving Repr

inductive Ev
  | sub (ch : Bytes) | unsub (ch : Bytes) | pub (ch p : Bytes) | read | close
  | accept | refuse | data (b : Bytes) | lost | advance (ms : Nat) | idle | start
deriving Repr

def pack8 (x : Bytes) : Bytes := UInt8.ofNat x.length :: x
def authFrame (cfg : Cfg) (rand : Bytes) : Bytes :=
  enc ⟨UInt8.ofNat OP_AUTH, pack8 cfg.ident ++ cfg.H (rand ++ cfg.secret)⟩
def subFrame (cfg : Cfg) (ch : Bytes) : Bytes := enc ⟨UInt8.ofNat OP_SUBSCRIBE, pack8 cfg.ident ++ ch⟩
def unsubFrame (cfg : Cfg) (ch : Bytes) : Bytes := enc ⟨UInt8.ofNat OP_UNSUBSCRIBE, pack8 cfg.ident ++ ch⟩
def pubFrame (cfg : Cfg) (ch p : Bytes) : Bytes := enc ⟨UInt8.ofNat OP_PUBLISH, pack8 cfg.ident ++ pack8 ch ++ p⟩

/-- byte-wise lexicographic order (the harness sorts the set-ordered resubscription block the same way) -/
def bytesLt : Bytes → Bytes → Bool
  | [], [] => false
  | [], _ :: _ => true
  | _ :: _, [] => false
  | a :: as, b :: bs => a < b || (a == b && bytesLt as bs)

def insertSorted (x : Bytes) : List Bytes → List Bytes
  | [] => [x]
  | y :: ys => if bytesLt x y then x :: y :: ys else y :: insertSorted x ys

def sortBytes (l : List Bytes) : List Bytes := l.foldr insertSorted []

/-- transport.write on the current connection (dropped once the transport is gone) -/
def write (s : State) (b : Bytes) : State × List Out :=
  match s.conn with
  | none => (s, [])
  | some c => if c.gone then (s, [])
              else ({ s with conn := some { c with sent := c.sent ++ [b] } }, [.wrote c.k b])

/-- transport.close() by the client: idempotent -/
def closeT (s : State) : State × List Out :=
  match s.conn with
  | none => (s, [])
  | some c => if c.closing then (s, []) else ({ s with conn := some { c with closing := true } }, [.closeT c.k])

def writeAll (s : State) (bs : List Bytes) : State × List Out :=
  bs.foldl (fun acc b => let r := write acc.1 b; (r.1, acc.2 ++ r.2)) (s, [])

/-- `read_queue.put_nowait(m)`: wakes the oldest waiting read(), else queues -/
def deliver (s : State) (m : Message) : State × List Out :=
  let s := { s with received := s.received ++ [m] }
  if s.readers > 0 ∧ s.queue = [] then
    ({ s with readers := s.readers - 1, handedLog := s.handedLog ++ [m] }, [.handed m])
  else ({ s with queue := s.queue ++ [m] }, [])

inductive Ctl | cont | crash
deriving DecidableEq

/-- `_Protocol.message_received` for one decoded frame -/
def onFrame (cfg : Cfg) (s : State) (f : Frame) : State × List Out × Ctl :=
  match read f with
  | none => let r := closeT s; (r.1, r.2, .cont)          -- unreachable behind the decoder
  | some (.error _) => (s, [], .crash)
  | some (.ok m) =>
    match m with
    | .error _ => (s, [], .crash)                         -- on_error is not implemented by the session
    | .info _ rand =>
      match s.conn with
      | none => (s, [], .cont)
      | some c =>
        let again := c.ready
        let r1 := write s (authFrame cfg rand)
        let wanted := sortBytes s.subs
        let s1 := r1.1
        let s2 : State := match s1.conn with
          | some c' =>
            let hs := if again then c'.handshake else some (rand, wanted)
            { s1 with conn := some { c' with ready := true, handshake := hs } }
          | none => s1
        let r3 := writeAll s2 (wanted.map (subFrame cfg))
        -- when_connected.set_result raises InvalidStateError the second time on one connection
        (r3.1, r1.2 ++ r3.2, if again then .crash else .cont)
    | .auth _ _ => let r := closeT s; (r.1, r.2, .cont)
    | .subscribe _ _ => let r := closeT s; (r.1, r.2, .cont)
    | .unsubscribe _ _ => let r := closeT s; (r.1, r.2, .cont)
    | .publish i c p => let r := deliver s (i, c, p); (r.1, r.2, .cont)

/-- ghost: record that frame `f` was popped from the unpacker and dispatched -/
def noteFrame (s : State) (f : Frame) : State :=
  { s with allProcessed := s.allProcessed ++ [f]
           conn := s.conn.map fun c => { c with processed := c.processed ++ [f] } }

/-- `process_pending` over the connection's buffer -/
def loop (cfg : Cfg) (s : State) (buf : Bytes) : State × List Out × Bytes × Ctl :=
  match h : header buf with
  | .wait => (s, [], buf, .cont)
  | .bad _ => let r := closeT s; (r.1, r.2, buf, .cont)
  | .ok ml op =>
    let r := onFrame cfg (noteFrame s (popFrame buf ml op).1) (popFrame buf ml op).1
    match r.2.2 with
    | .crash => (r.1, r.2.1, (popFrame buf ml op).2, .crash)
    | .cont =>
      let t := loop cfg r.1 (popFrame buf ml op).2
      (t.1, r.2.1 ++ t.2.1, t.2.2.1, t.2.2.2)
termination_by buf.length
decreasing_by
  have := header_ok h
  simp only [popFrame, List.length_drop]
  omega

/-- the reconnect task gets to run for the first time -/
def kick (cfg : Cfg) (s : State) : State × List Out :=
  if cfg.autoStart ∧ s.task = .notStarted then
    ({ s with task := .connecting, attempts := s.attempts + 1 }, [.attempt])
  else (s, [])

def usable (s : State) : Bool := match s.conn with | some c => c.ready | none => false

/-- one event, after the reconnect task had its chance to start (`pre` = what that produced) -/
def stepK (cfg : Cfg) (s : State) (pre : List Out) (e : Ev) : State × List Out :=
  match e with
  | .idle => (s, pre)
  | .start =>
    if s.task = .notStarted ∧ s.closeCalled = false then
      ({ s with task := .connecting, attempts := s.attempts + 1 }, pre ++ [.attempt])
    else (s, pre)
  | .sub ch =>
    if ch ∈ s.subs then (s, pre)
    else
      let s1 := { s with subs := s.subs ++ [ch] }
      if usable s1 then let r := write s1 (subFrame cfg ch); (r.1, pre ++ r.2) else (s1, pre)
  | .unsub ch =>
    if ch ∈ s.subs then
      let s1 := { s with subs := s.subs.erase ch }
      if usable s1 then let r := write s1 (unsubFrame cfg ch); (r.1, pre ++ r.2) else (s1, pre)
    else (s, pre)
  | .pub ch p =>
    if usable s then let r := write s (pubFrame cfg ch p); (r.1, pre ++ r.2) else (s, pre)
  | .read =>
    match s.queue with
    | m :: q => ({ s with queue := q, handedLog := s.handedLog ++ [m] }, pre ++ [.handed m])
    | [] => ({ s with readers := s.readers + 1 }, pre)
  | .close =>
    if s.closeCalled then (s, pre)
    else
      let s1 := { s with closing := true, closeCalled := true }
      match s1.conn with
      | some c =>
        if c.gone then ({ s1 with task := .done }, pre ++ [.closeDone])
        else let r := closeT s1; ({ r.1 with closeWait := true }, pre ++ r.2)
      | none => ({ s1 with task := .done }, pre ++ [.closeDone])
  | .accept =>
    if s.task = .connecting then
      ({ s with task := .waiting, nconn := s.nconn + 1, conn := some { k := s.nconn + 1 } }, pre)
    else (s, pre)
  | .refuse =>
    if s.task = .connecting then ({ s with task := .sleeping (s.now + cfg.retryDelay) }, pre) else (s, pre)
  | .advance ms =>
    let s1 := { s with now := s.now + ms }
    match s1.task with
    | .sleeping t =>
      if t ≤ s1.now then ({ s1 with task := .connecting, attempts := s1.attempts + 1 }, pre ++ [.attempt])
      else (s1, pre)
    | _ => (s1, pre)
  | .data b =>
    match s.conn with
    | none => (s, pre)
    | some c =>
      -- asyncio delivers no data after close() or connection_lost
      if c.gone || c.closing then (s, pre) else
      let s1 := { s with conn := some { c with inbound := c.inbound ++ b } }
      let r := loop cfg s1 (c.buf ++ b)
      let sr := r.1
      let s2 : State := match sr.conn with
        | some c' =>
          let cl := c'.closing || (r.2.2.2 == .crash)
          { sr with conn := some { c' with buf := r.2.2.1, closing := cl } }
        | none => sr
      (s2, pre ++ r.2.1 ++ (if r.2.2.2 = .crash then [.crash] else []))
  | .lost =>
    match s.conn with
    | none => (s, pre)
    | some c =>
      if c.gone then (s, pre)
      else if s.closing then
        ({ s with conn := some { c with gone := true, closing := true }, task := .done, closeWait := false },
          pre ++ (if s.closeWait then [.closeDone] else []))
      else if cfg.lossDelay = 0 then
        ({ s with conn := none, task := .connecting, attempts := s.attempts + 1 }, pre ++ [.attempt])
      else ({ s with conn := none, task := .sleeping (s.now + cfg.lossDelay) }, pre)

def step (cfg : Cfg) (s0 : State) (e : Ev) : State × List Out :=
  stepK cfg (kick cfg s0).1 (kick cfg s0).2 e

def run (cfg : Cfg) (es : List Ev) : State × List Out :=
  es.foldl (fun acc e => let r := step cfg acc.1 e; (r.1, acc.2 ++ r.2)) ({}, [])

/-- the transport / event-loop contract for the environment -/
def okEv (s : State) : Ev → Bool
  | .accept => s.task == .connecting || s.task == .notStarted
  | .refuse => s.task == .connecting || s.task == .notStarted
  | .data _ => match s.conn with | some c => !c.closing && !c.gone | none => false
  | .lost => match s.conn with | some c => !c.gone | none => false
  | _ => true

end Hpfeeds.AioClient
