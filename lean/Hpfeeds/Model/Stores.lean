/-
  Credential stores (hpfeeds/broker/auth/{memory,env,json,sqlite,multi}.py) as table look-ups.
  Text is UTF-8 bytes; the environment store's `str.upper()` is a parameter `up`.
-/
import Hpfeeds.Model.Bytes
namespace Hpfeeds.Stores
open Hpfeeds

structure Rec where
  secret : Bytes
  owner : Bytes
  pubchans : List Bytes
  subchans : List Bytes
deriving DecidableEq, Repr

/-- a user table: configured identities in order (a dict / table / JSON object keyed by ident) -/
abbrev Table := List (Bytes × Rec)

/-- memory / json / sqlite: the row stored under exactly this ident (`dict.get`, `where ident=?`) -/
def tableLookup (t : Table) (i : Bytes) : Option Rec := (t.find? fun e => e.1 = i).map (·.2)

/-! ### environment store -/

def underscore : UInt8 := 95
def prefixHp : Bytes := [72, 80, 70, 69, 69, 68, 83]          -- "HPFEEDS"
def SECRET : Bytes := [83, 69, 67, 82, 69, 84]
def OWNER : Bytes := [79, 87, 78, 69, 82]
def SUBCHANS : Bytes := [83, 85, 66, 67, 72, 65, 78, 83]
def PUBCHANS : Bytes := [80, 85, 66, 67, 72, 65, 78, 83]

/-- `'_'.join(('HPFEEDS', ident.upper(), value.upper()))`, with the attribute already upper-cased -/
def envKey (up : Bytes → Bytes) (ident attr : Bytes) : Bytes :=
  prefixHp ++ underscore :: (up ident ++ underscore :: attr)

/-- `s.split(',')` without the empty names (fix D3) -/
def splitComma (s : Bytes) : List Bytes :=
  (s.splitOn 44).filter (· ≠ [])

/-- `env.Authenticator.get_authkey` over an environment `env` -/
def envLookup (up : Bytes → Bytes) (env : Bytes → Option Bytes) (ident : Bytes) : Option Rec :=
  match env (envKey up ident SECRET) with
  | none => none
  | some [] => none
  | some sec => some {
      secret := sec
      owner := (env (envKey up ident OWNER)).getD ident
      subchans := splitComma ((env (envKey up ident SUBCHANS)).getD [])
      pubchans := splitComma ((env (envKey up ident PUBCHANS)).getD []) }

/-! ### stacked store -/

/-- `multi.Authenticator.get_authkey`: the first member that knows the identity -/
def multiLookup (stores : List (Bytes → Option Rec)) (i : Bytes) : Option Rec :=
  stores.findSome? (· i)

/-- the broker's ACL checks on a returned record -/
def mayPublish (r : Option Rec) (ch : Bytes) : Bool := match r with | some x => decide (ch ∈ x.pubchans) | none => false
def maySubscribe (r : Option Rec) (ch : Bytes) : Bool := match r with | some x => decide (ch ∈ x.subchans) | none => false

end Hpfeeds.Stores
