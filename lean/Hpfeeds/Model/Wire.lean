/-
  Wire format: frames, headers, the stream decoder (`hpfeeds.protocol.Unpacker`),
  message builders (`msg*`) and field readers (`read*`, `strunpack8`).
  Import-free apart from the generated constants.
-/
import Hpfeeds.Extracted
import Hpfeeds.Model.Bytes
namespace Hpfeeds
open Extracted

structure Frame where
  op : UInt8
  body : Bytes
deriving DecidableEq, Repr, Inhabited

/-- `SIZES.get(opcode, MAXBUF)` -/
def limit (op : Nat) : Nat :=
  match SIZES.lookup op with
  | some n => n
  | none => MAXBUF

/-- `msghdr(op, data)` without the range check of `struct.pack` -/
def enc (f : Frame) : Bytes := be32 (5 + f.body.length) ++ f.op :: f.body

/-- `msghdr(op, data)`: `struct.pack('!iB', 5 + len(data), op)` raises when the length does not fit
    a signed 32-bit integer -/
def msghdr (op : Nat) (data : Bytes) : Option Bytes :=
  if 5 + data.length < 2147483648 ∧ op < 256 then some (enc ⟨UInt8.ofNat op, data⟩) else none

inductive Err
  | unknownOp | tooBig | tooSmall
deriving DecidableEq, Repr

inductive Hdr
  | wait
  | bad (e : Err)
  | ok (ml : Nat) (op : UInt8)
deriving DecidableEq, Repr

/-- `Unpacker.ready()` : inspect the first five bytes of the buffer -/
def header (buf : Bytes) : Hdr :=
  match buf with
  | b0 :: b1 :: b2 :: b3 :: op :: _ =>
    let ml := toSigned (u32 b0 b1 b2 b3)
    if op.toNat < OP_ERROR ∨ op.toNat > OP_UNSUBSCRIBE then .bad .unknownOp
    else if ml > (limit op.toNat : Int) then .bad .tooBig
    else if ml < 5 then .bad .tooSmall
    else if (buf.length : Int) < ml then .wait
    else .ok ml.toNat op
  | _ => .wait

theorem header_ok {buf : Bytes} {ml : Nat} {op : UInt8} (h : header buf = .ok ml op) :
    5 ≤ ml ∧ ml ≤ buf.length := by
  unfold header at h
  split at h
  · simp only at h
    split at h; · cases h
    split at h; · cases h
    split at h; · cases h
    split at h; · cases h
    injection h with h1 h2
    omega
  · cases h

/-- `Unpacker.pop()` after a successful `ready()` -/
def popFrame (buf : Bytes) (ml : Nat) (op : UInt8) : Frame × Bytes :=
  (⟨op, (buf.drop 5).take (ml - 5)⟩, buf.drop ml)

/-- iterate the `Unpacker` until it stops: frames yielded, bytes left, error raised (if any) -/
def drain (buf : Bytes) : List Frame × Bytes × Option Err :=
  match h : header buf with
  | .wait => ([], buf, none)
  | .bad e => ([], buf, some e)
  | .ok ml op =>
    let r := drain (buf.drop ml)
    ((popFrame buf ml op).1 :: r.1, r.2.1, r.2.2)
termination_by buf.length
decreasing_by
  have := header_ok h
  simp only [List.length_drop]
  omega

/-- feed the chunks one at a time, iterating the decoder to exhaustion after each (`feed` then
    `for .. in unpacker`); stops at the first chunk on which the decoder raises -/
def feedAll (buf : Bytes) : List Bytes → List Frame × Bytes × Option Err
  | [] => ([], buf, none)
  | c :: cs =>
    let r := drain (buf ++ c)
    match r.2.2 with
    | some e => (r.1, r.2.1, some e)
    | none =>
      let r' := feedAll r.2.1 cs
      (r.1 ++ r'.1, r'.2.1, r'.2.2)

/-! ### messages -/

inductive Msg
  | error (text : Bytes)
  | info (name rand : Bytes)
  | auth (ident digest : Bytes)
  | publish (ident chan payload : Bytes)
  | subscribe (ident chan : Bytes)
  | unsubscribe (ident chan : Bytes)
deriving DecidableEq, Repr

/-- `strpack8`: `struct.pack('!B', len(x))` raises above 255 -/
def strpack8 (x : Bytes) : Option Bytes :=
  if x.length < 256 then some (UInt8.ofNat x.length :: x) else none

/-- the `msg*` builders; text fields are given as their UTF-8 bytes (`force_bytes`) -/
def build : Msg → Option Bytes
  | .error t => msghdr OP_ERROR t
  | .info n r => do msghdr OP_INFO ((← strpack8 n) ++ r)
  | .auth i d => do msghdr OP_AUTH ((← strpack8 i) ++ d)
  | .publish i c p => do msghdr OP_PUBLISH ((← strpack8 i) ++ (← strpack8 c) ++ p)
  | .subscribe i c => do msghdr OP_SUBSCRIBE ((← strpack8 i) ++ c)
  | .unsubscribe i c => do msghdr OP_UNSUBSCRIBE ((← strpack8 i) ++ c)

/-- `msgauth(rand, ident, secret)` with hash function `H` (`hashlib.sha1`) -/
def msgauth (H : Bytes → Bytes) (rand ident secret : Bytes) : Option Bytes :=
  build (.auth ident (H (rand ++ secret)))

/-- Python exceptions other than `ProtocolException` that a reader can raise -/
inductive Crash
  | typeError      -- `ord(b'')` in `strunpack8` on an empty field
  | unicodeError   -- `force_str` on bytes that are not UTF-8
  | notImplemented -- a handler the class does not implement
deriving DecidableEq, Repr

/-- `strunpack8`: one length byte, then a *slice* (short input is truncated, not rejected) -/
def strunpack8 (x : Bytes) : Except Crash (Bytes × Bytes) :=
  match x with
  | [] => .error .typeError
  | n :: t =>
    if validUtf8 (t.take n.toNat) then .ok (t.take n.toNat, t.drop n.toNat) else .error .unicodeError

/-- `force_str` on a bytes value -/
def forceStr (x : Bytes) : Except Crash Bytes :=
  if validUtf8 x then .ok x else .error .unicodeError

/-- the `read*` function selected by `message_received` for each opcode; `none` for an opcode
    outside the six (unreachable behind `header`) -/
def read (f : Frame) : Option (Except Crash Msg) :=
  if f.op.toNat = OP_ERROR then some (do .ok (.error (← forceStr f.body)))
  else if f.op.toNat = OP_INFO then some (do let (n, r) ← strunpack8 f.body; .ok (.info n r))
  else if f.op.toNat = OP_AUTH then some (do let (i, d) ← strunpack8 f.body; .ok (.auth i d))
  else if f.op.toNat = OP_PUBLISH then some (do
    let (i, r) ← strunpack8 f.body
    let (c, p) ← strunpack8 r
    .ok (.publish i c p))
  else if f.op.toNat = OP_SUBSCRIBE then some (do
    let (i, r) ← strunpack8 f.body
    .ok (.subscribe i (← forceStr r)))
  else if f.op.toNat = OP_UNSUBSCRIBE then some (do
    let (i, r) ← strunpack8 f.body
    .ok (.unsubscribe i (← forceStr r)))
  else none

end Hpfeeds
