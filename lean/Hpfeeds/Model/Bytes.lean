/-
  Bytes, big-endian 32-bit header arithmetic, UTF-8 validity.
  Import-free (core Lean only).  Mirrors `struct.pack('!iB', ..)` / `struct.unpack('!iB', ..)`.
-/
namespace Hpfeeds

abbrev Bytes := List UInt8

/-- the four big-endian bytes of `n mod 2^32` (`struct.pack('!i', n)` for `0 ≤ n < 2^31`) -/
def be32 (n : Nat) : Bytes :=
  [UInt8.ofNat (n / 16777216 % 256), UInt8.ofNat (n / 65536 % 256),
   UInt8.ofNat (n / 256 % 256), UInt8.ofNat (n % 256)]

/-- unsigned value of four big-endian bytes -/
def u32 (b0 b1 b2 b3 : UInt8) : Nat :=
  b0.toNat * 16777216 + b1.toNat * 65536 + b2.toNat * 256 + b3.toNat

/-- two's-complement reading of an unsigned 32-bit value (`'!i'`) -/
def toSigned (n : Nat) : Int :=
  if n < 2147483648 then (n : Int) else (n : Int) - 4294967296

/-- the four big-endian bytes of a signed 32-bit value (for tests / the driver) -/
def be32s (i : Int) : Bytes :=
  be32 (if i < 0 then (i + 4294967296).toNat else i.toNat)

/-- strict UTF-8 validity (shortest-form encodings of Unicode scalar values), core Lean's validator.
    Python's `bytes.decode('utf-8')` succeeds exactly on these, and `str.encode('utf-8')` is its
    inverse; text fields are represented in the model by their UTF-8 bytes. -/
def validUtf8 (b : Bytes) : Bool := (ByteArray.mk b.toArray).validateUTF8

end Hpfeeds
