/-
  The broker when a destination's `transport.write()` RAISES inside `Server.publish`:

      try:
          dest.publish(source.ak, chan, data)
      except Exception:
          log.exception(...)
          dest.transport.close()

  Real asyncio transports do not raise in `write()`, so the event vocabulary of `Model/Broker.lean` has no such
  event; but the `try/except` is the mechanism C10 names ("wraps each destination write in try/except and closes
  only that destination"), so it is modelled here as an EXTENSION of the proved model:

  * `F : Nat → Bool` says which connections' transports refuse a write during the event being handled;
  * `deliverF` / `publishF` are `deliver` / `publish` with the `except` branch;
  * `messageReceivedG`, `loopG`, `stepG` are the broker's frame handler, frame loop and transition function
    with the fan-out function as a parameter: `stepG publish` IS `step` (`Lemmas/BrokerFault.stepG_publish`, so
    everything proved about `step` is about the fault-free instance of this file) and `stepF F = stepG (publishF F)`
    is what the driver executes for histories with injected write faults.
-/
import Hpfeeds.Model.Broker
namespace Hpfeeds.Broker
open Hpfeeds Extracted

/-- one iteration of the loop in `Server.publish` when `dest.publish` may raise -/
def deliverF (F : Nat → Bool) (f : Frame) (s : State) (d : Nat) : State :=
  match s.conn d with
  | none => s
  | some x =>
    if x.closing then connectionLost s d
    else if F d then closeT s d            -- the write raised: `dest.transport.close()`
    else logAct s d (.write f)

/-- `Server.publish(source, chan, data)` under the write faults `F` -/
def publishF (F : Nat → Bool) (s : State) (src : Nat) (x : Conn) (ident ch p : Bytes) : State :=
  let dests := (s.subs ch).eraseDups
  let f := pubFrame ident ch p
  let s' := dests.foldl (deliverF F f) s
  let recips := dests.filter fun d => match s.conn d with | some y => !y.closing && !F d | none => false
  { s' with accepted := s'.accepted ++ [{
      src := src, ident := ident, chan := ch, payload := p, time := s.now,
      srcAk := x.ak, srcPubchans := x.pubchans,
      recips := recips,
      entitled := s.ids.filter (isOpenSub s ch),
      grantedOk := recips.all fun d => match s.conn d with
        | some y => decide (ch ∈ y.granted) | none => false }] }

/-- the fan-out function as a parameter -/
abbrev Pub := State → Nat → Conn → Bytes → Bytes → Bytes → State

/-- `Connection.message_received` with the fan-out function as a parameter (`messageReceived` = `… publish`) -/
def messageReceivedG (pub : Pub) (cfg : Cfg) (s : State) (c : Nat) (f : Frame) : State × Ctl :=
  match s.conn c with
  | none => (s, .cont)
  | some x =>
    if x.ak = none ∧ f.op.toNat ≠ OP_AUTH then (errorClose s c, .cont)
    else match read f with
    | none => (closeT s c, .brk)
    | some (.error _) => (s, .crash)
    | some (.ok m) =>
      match m with
      | .error _ => (s, .crash)
      | .info _ _ => (s, .crash)
      | .auth ident digest =>
        if !x.registered then (s, .crash)
        else match cfg.store with
          | .sync tbl =>
            let r := match tbl ident with | some row => Lookup.row row | none => Lookup.missing
            ((authenticate cfg s c x ident digest r).1, .cont)
          | .async => (pauseReading (addPending s c ident digest) c, .brk)
      | .publish ident ch p =>
        if some ident ≠ x.ak then (errorClose s c, .cont)
        else if ch ∉ x.pubchans then (errorClose s c, .cont)
        else if !x.registered then (s, .crash)
        else (pub s c x ident ch p, .cont)
      | .subscribe _ ch =>
        let s1 := if ch ∈ x.subchans then s else errorClose s c
        if !x.registered then (s1, .crash)
        else (doSubscribe s1 c ch (decide (ch ∈ x.subchans)), .cont)
      | .unsubscribe _ ch =>
        if !x.registered then (s, .crash)
        else (doUnsubscribe s c ch, .cont)

/-- `process_pending()` with the fan-out function as a parameter -/
def loopG (pub : Pub) (cfg : Cfg) (c : Nat) (s : State) (buf : Bytes) : State × Bytes × Ctl :=
  match h : header buf with
  | .wait => (s, buf, .cont)
  | .bad _ => (closeT s c, buf, .cont)
  | .ok ml op =>
    let r := messageReceivedG pub cfg s c (popFrame buf ml op).1
    match r.2 with
    | .cont => loopG pub cfg c r.1 (popFrame buf ml op).2
    | ctl => (r.1, (popFrame buf ml op).2, ctl)
termination_by buf.length
decreasing_by
  have := header_ok h
  simp only [popFrame, List.length_drop]
  omega

/-- the transition function with the fan-out function as a parameter (`step` = `stepG publish`) -/
def stepG (pub : Pub) (cfg : Cfg) (s : State) : Event → State
  | .data c b =>
    match s.conn c with
    | none => s
    | some x =>
      let r := loopG pub cfg c s (x.buf ++ b)
      let s1 := setBuf r.1 c r.2.1
      if r.2.2 = .crash then crashClose s1 c else s1
  | .lookupDone c i r =>
    match s.conn c with
    | none => s
    | some x =>
      match x.pending[i]? with
      | none => s
      | some (ident, digest) =>
        let s0 := dropPending s c i
        let a := authenticate cfg s0 c x ident digest r
        if a.2 then
          let r := loopG pub cfg c a.1 x.buf
          let s2 := setBuf r.1 c r.2.1
          if r.2.2 = .crash then closeT s2 c
          else if r.2.2 = .brk then s2
          else resumeReading s2 c
        else a.1
  | e => step cfg s e       -- the other events never reach `Server.publish`

/-- one event during which the transports in `F` refuse writes -/
def stepF (F : Nat → Bool) (cfg : Cfg) (s : State) (e : Event) : State := stepG (publishF F) cfg s e

/-- a history in which every event comes with the credential store as it is at that moment AND with the set of
    connections whose transports refuse a write during it -/
def runF (cfg : Cfg) (es : List (Store × List Nat × Event)) : State :=
  es.foldl (fun s e => stepF (fun d => decide (d ∈ e.2.1)) (cfg.withStore e.1) s e.2.2) init

end Hpfeeds.Broker
