/-
  SHA-1 (FIPS 180-4), executable, import-free.  Used only by the driver to instantiate the hash
  parameter `H` of the models; every theorem is parametric in `H`.  Compared with `hashlib.sha1`
  by the codec engine on every run.
-/
import Hpfeeds.Model.Bytes
namespace Hpfeeds.Sha1

def rotl (x : UInt32) (n : UInt32) : UInt32 := (x <<< n) ||| (x >>> (32 - n))

def be32w (w : UInt32) : Bytes :=
  [(w >>> 24).toUInt8, (w >>> 16).toUInt8, (w >>> 8).toUInt8, w.toUInt8]

def be64 (n : Nat) : Bytes :=
  (List.range 8).map fun i => UInt8.ofNat (n / 2 ^ (8 * (7 - i)) % 256)

def pad (m : Bytes) : Bytes :=
  let l := m.length
  let k := (55 + 64 - l % 64) % 64
  m ++ [0x80] ++ List.replicate k 0 ++ be64 (8 * l)

def word (a b c d : UInt8) : UInt32 :=
  (a.toUInt32 <<< 24) ||| (b.toUInt32 <<< 16) ||| (c.toUInt32 <<< 8) ||| d.toUInt32

def words : Bytes → List UInt32
  | a :: b :: c :: d :: t => word a b c d :: words t
  | _ => []

def chunks64 (fuel : Nat) (b : Bytes) : List Bytes :=
  match fuel with
  | 0 => []
  | fuel + 1 => if b.isEmpty then [] else b.take 64 :: chunks64 fuel (b.drop 64)

def schedule (w : Array UInt32) : Array UInt32 :=
  (List.range 64).foldl (fun w i =>
    let t := i + 16
    w.push (rotl (w[t-3]! ^^^ w[t-8]! ^^^ w[t-14]! ^^^ w[t-16]!) 1)) w

structure St where
  a : UInt32
  b : UInt32
  c : UInt32
  d : UInt32
  e : UInt32

def round (w : Array UInt32) (s : St) (t : Nat) : St :=
  let (f, k) :=
    if t < 20 then ((s.b &&& s.c) ||| ((~~~ s.b) &&& s.d), (0x5A827999 : UInt32))
    else if t < 40 then (s.b ^^^ s.c ^^^ s.d, 0x6ED9EBA1)
    else if t < 60 then ((s.b &&& s.c) ||| (s.b &&& s.d) ||| (s.c &&& s.d), 0x8F1BBCDC)
    else (s.b ^^^ s.c ^^^ s.d, 0xCA62C1D6)
  let tmp := rotl s.a 5 + f + s.e + k + w[t]!
  ⟨tmp, s.a, rotl s.b 30, s.c, s.d⟩

def block (h : St) (blk : Bytes) : St :=
  let w := schedule (words blk).toArray
  let s := (List.range 80).foldl (round w) h
  ⟨h.a + s.a, h.b + s.b, h.c + s.c, h.d + s.d, h.e + s.e⟩

def sha1 (m : Bytes) : Bytes :=
  let p := pad m
  let h := (chunks64 (p.length / 64 + 1) p).foldl block
    ⟨0x67452301, 0xEFCDAB89, 0x98BADCFE, 0x10325476, 0xC3D2E1F0⟩
  be32w h.a ++ be32w h.b ++ be32w h.c ++ be32w h.d ++ be32w h.e

end Hpfeeds.Sha1
