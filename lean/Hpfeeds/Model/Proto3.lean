/-
  The receive paths of the three client protocol classes, written separately from the three files:
    aio : hpfeeds/asyncio/protocol.py   BaseProtocol + ClientProtocol
    blk : hpfeeds/blocking/protocol.py  BaseProtocol + ClientProtocol
    tw  : hpfeeds/twisted/protocol.py   BaseProtocol + ClientProtocol
  Observations: every handler invocation with its arguments, protocol_error calls, bytes written, the
  connection being dropped, and exceptions escaping data_received.
-/
import Hpfeeds.Model.Wire
namespace Hpfeeds.Proto3
open Hpfeeds Extracted

structure PCfg where
  ident : Bytes
  secret : Bytes
  H : Bytes → Bytes

inductive Obs
  | onError (t : Bytes)
  | onInfo (name rand : Bytes)
  | onAuth (ident digest : Bytes)
  | onPublish (ident chan payload : Bytes)
  | onSubscribe (ident chan : Bytes)
  | onUnsubscribe (ident chan : Bytes)
  | ready                 -- connection_ready / connectionReady
  | protoError            -- protocol_error / protocolError (texts not modelled)
  | wrote (b : Bytes)     -- transport.write
  | drop                  -- transport.close / loseConnection
  | crash (c : Crash)     -- an exception other than ProtocolException escaped
deriving DecidableEq, Repr

inductive Ctl | cont | brk | crash
deriving DecidableEq, Repr

/-- `msgauth(rand, ident, secret)` as the client classes write it (ident at most 255 bytes) -/
def authBytes (cfg : PCfg) (rand : Bytes) : Bytes :=
  enc ⟨UInt8.ofNat OP_AUTH, (UInt8.ofNat cfg.ident.length :: cfg.ident) ++ cfg.H (rand ++ cfg.secret)⟩

/-! ### asyncio -/

/-- asyncio `message_received`: every branch `return`s the handler's value (None), the fall-through for
    an unknown opcode returns True -/
def aioMsg (cfg : PCfg) (f : Frame) : List Obs × Ctl :=
  match read f with
  | none => ([.protoError, .drop], .brk)
  | some (.error c) => ([.crash c], .crash)
  | some (.ok m) =>
    match m with
    | .error t => ([.onError t], .cont)
    | .info n r => ([.onInfo n r, .wrote (authBytes cfg r), .ready], .cont)
    | .auth i d => ([.onAuth i d, .protoError, .drop], .cont)
    | .publish i c p => ([.onPublish i c p], .cont)
    | .subscribe i c => ([.onSubscribe i c, .protoError, .drop], .cont)
    | .unsubscribe i c => ([.onUnsubscribe i c, .protoError, .drop], .cont)

/-- asyncio `process_pending`: stops when a handler returns a truthy value -/
def aioLoop (cfg : PCfg) (buf : Bytes) : List Obs × Bytes :=
  match h : header buf with
  | .wait => ([], buf)
  | .bad _ => ([.protoError, .drop], buf)
  | .ok ml op =>
    let r := aioMsg cfg (popFrame buf ml op).1
    match r.2 with
    | .cont => let t := aioLoop cfg (popFrame buf ml op).2; (r.1 ++ t.1, t.2)
    | _ => (r.1, (popFrame buf ml op).2)
termination_by buf.length
decreasing_by
  have := header_ok h
  simp only [popFrame, List.length_drop]
  omega

/-! ### blocking -/

/-- blocking `message_received`: same dispatch; the unknown-opcode fall-through returns None -/
def blkMsg (cfg : PCfg) (f : Frame) : List Obs × Ctl :=
  match read f with
  | none => ([.protoError, .drop], .cont)
  | some (.error c) => ([.crash c], .crash)
  | some (.ok m) =>
    match m with
    | .error t => ([.onError t], .cont)
    | .info n r => ([.onInfo n r, .wrote (authBytes cfg r), .ready], .cont)
    | .auth i d => ([.onAuth i d, .protoError, .drop], .cont)
    | .publish i c p => ([.onPublish i c p], .cont)
    | .subscribe i c => ([.onSubscribe i c, .protoError, .drop], .cont)
    | .unsubscribe i c => ([.onUnsubscribe i c, .protoError, .drop], .cont)

/-- blocking `data_received`: the return value of `message_received` is ignored -/
def blkLoop (cfg : PCfg) (buf : Bytes) : List Obs × Bytes :=
  match h : header buf with
  | .wait => ([], buf)
  | .bad _ => ([.protoError, .drop], buf)
  | .ok ml op =>
    let r := blkMsg cfg (popFrame buf ml op).1
    match r.2 with
    | .crash => (r.1, (popFrame buf ml op).2)
    | _ => let t := blkLoop cfg (popFrame buf ml op).2; (r.1 ++ t.1, t.2)
termination_by buf.length
decreasing_by
  have := header_ok h
  simp only [popFrame, List.length_drop]
  omega

/-! ### Twisted -/

/-- Twisted `messageReceived` -/
def twMsg (cfg : PCfg) (f : Frame) : List Obs × Ctl :=
  match read f with
  | none => ([.protoError, .drop], .cont)
  | some (.error c) => ([.crash c], .crash)
  | some (.ok m) =>
    match m with
    | .error t => ([.onError t], .cont)
    | .info n r => ([.onInfo n r, .wrote (authBytes cfg r), .ready], .cont)
    | .auth i d => ([.onAuth i d, .protoError, .drop], .cont)
    | .publish i c p => ([.onPublish i c p], .cont)
    | .subscribe i c => ([.onSubscribe i c, .protoError, .drop], .cont)
    | .unsubscribe i c => ([.onUnsubscribe i c, .protoError, .drop], .cont)

/-- Twisted `dataReceived` -/
def twLoop (cfg : PCfg) (buf : Bytes) : List Obs × Bytes :=
  match h : header buf with
  | .wait => ([], buf)
  | .bad _ => ([.protoError, .drop], buf)
  | .ok ml op =>
    let r := twMsg cfg (popFrame buf ml op).1
    match r.2 with
    | .crash => (r.1, (popFrame buf ml op).2)
    | _ => let t := twLoop cfg (popFrame buf ml op).2; (r.1 ++ t.1, t.2)
termination_by buf.length
decreasing_by
  have := header_ok h
  simp only [popFrame, List.length_drop]
  omega

/-- feed the chunks one after the other (`data_received` per chunk); observations per chunk -/
def feeds (loop : Bytes → List Obs × Bytes) (buf : Bytes) : List Bytes → List (List Obs)
  | [] => []
  | c :: cs => let r := loop (buf ++ c); r.1 :: feeds loop r.2 cs

end Hpfeeds.Proto3
