/-
  C01 — fan-out: one exact copy to every current subscriber, nobody else, in order.
  All theorems quantify over ALL event histories `es` (any number of connections, identities and
  channels, any payload `Bytes`, any chunking of `data` events, any interleaving at callback
  granularity — the broker is single-threaded and each callback runs to completion).
-/
import Hpfeeds.Lemmas.BrokerDeliv
import Hpfeeds.Lemmas.BrokerChunk
namespace Hpfeeds.C01
open Hpfeeds Hpfeeds.Broker Extracted

/-- What one accepted OP_PUBLISH does, in any reachable state: every connection that holds a
    subscription to the channel and is open gets exactly one more entry in its action log — the write of
    the frame carrying `ident`, the channel and the payload — and every other connection's log is
    unchanged. -/
theorem publish_exact (cfg : Cfg) (es : List Event) (c : Nat) (x : Conn) (ident ch p : Bytes) (d : Nat) (y : Conn)
    (hy : (run cfg es).conn d = some y) :
    ∃ y', (publish (run cfg es) c x ident ch p).conn d = some y' ∧
      y'.out = if ch ∈ y.active ∧ y.closing = false
               then y.out ++ [((run cfg es).now, .write (pubFrame ident ch p))] else y.out := by
  have hr := reg_run cfg es
  obtain ⟨_, _, fc, _⟩ := foldl_deliver_spec (pubFrame ident ch p) ((run cfg es).subs ch).eraseDups
    (nodup_eraseDups _) (run cfg es)
  obtain ⟨y', hy', r⟩ := fc d y hy
  refine ⟨y', hy', ?_⟩
  rw [r.out]
  have hm : d ∈ ((run cfg es).subs ch).eraseDups ↔ ch ∈ y.active := by
    rw [List.mem_eraseDups, hr.sub_iff]
    constructor
    · rintro ⟨z, hz, hm⟩; rw [hy] at hz; cases hz; exact hm
    · intro hm; exact ⟨y, hy, hm⟩
  by_cases h : ch ∈ y.active ∧ y.closing = false
  · rw [if_pos h, if_pos ⟨hm.mpr h.1, h.2⟩]
  · rw [if_neg h, if_neg (fun h' => h ⟨hm.mp h'.1, h'.2⟩)]; simp

/-- The accepted log is exact, for every history: each accepted publish was written to exactly the
    connections that were subscribed to its channel and open at that moment (`entitled` is computed by
    the model from the state at that moment, see `Broker.publish`), once each. -/
theorem exactly_entitled (cfg : Cfg) (es : List Event) (a : Accepted) (ha : a ∈ (run cfg es).accepted) :
    a.recips.Nodup ∧ ∀ d, d ∈ a.recips ↔ d ∈ a.entitled :=
  ⟨((deliv_run cfg es).acc a ha).nodup, ((deliv_run cfg es).acc a ha).exact⟩

/-- For every history and every connection: the OP_PUBLISH frames written to it so far are exactly,
    in order, the accepted publishes that list it as a recipient — nothing else was ever delivered to
    it, nothing was delivered twice, nothing it was entitled to is missing. -/
theorem delivery_log (cfg : Cfg) (es : List Event) (d : Nat) (y : Conn) (hy : (run cfg es).conn d = some y) :
    pubFrames y.out = delivered (run cfg es).accepted d :=
  (deliv_run cfg es).log d y hy

/-- The frame delivered for an accepted publish carries the ident the publisher was authenticated as,
    the channel and the very payload value that was accepted. -/
theorem frame_carries (cfg : Cfg) (es : List Event) (a : Accepted) (ha : a ∈ (run cfg es).accepted) :
    frameOf a = pubFrame a.ident a.chan a.payload ∧ a.srcAk = some a.ident :=
  ⟨rfl, ((deliv_run cfg es).acc a ha).ident⟩

theorem delivered_eq_filter_map (acc : List Accepted) (d : Nat) :
    delivered acc d = (acc.filter fun a => decide (d ∈ a.recips)).map frameOf := by
  unfold delivered
  induction acc with
  | nil => rfl
  | cons a acc ih =>
    by_cases h : d ∈ a.recips
    · simp [List.filterMap_cons, List.filter_cons, h, ih]
    · simp [List.filterMap_cons, List.filter_cons, h, ih]

/-- Common order: what any two connections received are two sub-sequences of the one acceptance order,
    and the messages common to both form a sub-sequence of each — so they appear in the same order. -/
theorem common_order (cfg : Cfg) (es : List Event) (d₁ d₂ : Nat) (y₁ y₂ : Conn)
    (h₁ : (run cfg es).conn d₁ = some y₁) (h₂ : (run cfg es).conn d₂ = some y₂) :
    let acc := (run cfg es).accepted
    let both := acc.filter fun a => decide (d₁ ∈ a.recips) && decide (d₂ ∈ a.recips)
    pubFrames y₁.out = (acc.filter fun a => decide (d₁ ∈ a.recips)).map frameOf ∧
    pubFrames y₂.out = (acc.filter fun a => decide (d₂ ∈ a.recips)).map frameOf ∧
    both.Sublist (acc.filter fun a => decide (d₁ ∈ a.recips)) ∧
    both.Sublist (acc.filter fun a => decide (d₂ ∈ a.recips)) := by
  intro acc both
  refine ⟨by rw [delivery_log cfg es d₁ y₁ h₁, delivered_eq_filter_map],
          by rw [delivery_log cfg es d₂ y₂ h₂, delivered_eq_filter_map], ?_, ?_⟩
  · have : both = (acc.filter fun a => decide (d₁ ∈ a.recips)).filter fun a => decide (d₂ ∈ a.recips) := by
      simp only [both, List.filter_filter]
      congr 1; funext a; rw [Bool.and_comm]
    rw [this]; exact List.filter_sublist
  · have : both = (acc.filter fun a => decide (d₂ ∈ a.recips)).filter fun a => decide (d₁ ∈ a.recips) := by
      simp only [both, List.filter_filter]
    rw [this]; exact List.filter_sublist

/-- A PUBLISH reaches `Server.publish` only from an authenticated sender naming its own ident and a
    channel on its publish list (the only call site, `on_publish`). -/
theorem accepted_only_after_checks (cfg : Cfg) (es : List Event) (a : Accepted)
    (ha : a ∈ (run cfg es).accepted) : a.srcAk = some a.ident ∧ a.chan ∈ a.srcPubchans :=
  ⟨((deliv_run cfg es).acc a ha).ident, ((deliv_run cfg es).acc a ha).chan⟩

/-- EVERY WAY THE INBOUND BYTE STREAMS ARE CHUNKED.  In ANY state, for ANY split `a ++ b` of what connection
    `c` receives: if handling `a` ran to the end of its complete frames (it did not park behind an
    asynchronous AUTH, no handler raised, no bad header — i.e. `c` can still receive data), then delivering `a`
    and then `b` leaves the broker in EXACTLY the state of delivering `a ++ b` at once: every connection's
    log, the registry, the gauges, the accepted log.  By induction this covers every chunking of a stream; a
    history is therefore determined by the per-connection byte streams and the points at which other
    connections' events interleave. -/
theorem chunking_irrelevant (cfg : Cfg) (s : State) (c : Nat) (x : Conn) (a b : Bytes) (hx : s.conn c = some x)
    (hc : (loop cfg c s (x.buf ++ a)).2.2 = .cont) (hw : header (loop cfg c s (x.buf ++ a)).2.1 = .wait) :
    step cfg (step cfg s (.data c a)) (.data c b) = step cfg s (.data c (a ++ b)) :=
  data_chunking cfg s c x a b hx hc hw

/-! non-vacuity (kernel-evaluated): two connections authenticate against a synchronous store (hash := id,
    so the digest is nonce ++ secret), both subscribe to channel "c", connection 1 publishes one byte:
    the accepted log has one entry whose recipients are exactly [1, 2]. -/
def exRow : Row := ⟨[115], [111], [[99]], [[99]]⟩
def exCfg : Cfg := ⟨[104], .sync (fun i => if i = [97] then some exRow else none), id⟩
def exAuth (n : Bytes) : Bytes := [0,0,0,12,2,1,97] ++ n ++ [115]
def exSub : Bytes := [0,0,0,8,4,1,97,99]
def exPub : Bytes := [0,0,0,10,3,1,97,1,99,7]
def exHistory : List Event :=
  [.connect 1 [1,2,3,4], .connect 2 [5,6,7,8], .data 2 (exAuth [5,6,7,8] ++ exSub),
   .data 1 (exAuth [1,2,3,4]), .data 1 exSub, .data 1 exPub]
example : (run exCfg exHistory).accepted.map (fun a => (a.src, a.recips, a.entitled, a.payload)) =
    [(1, [2, 1], [1, 2], [7])] := by decide +kernel
example : ((run exCfg exHistory).conn 2).map (fun y => pubFrames y.out) =
    some [pubFrame [97] [99] [7]] := by decide +kernel

/-- the chunking theorem applies: connection 1's stream AUTH ++ SUB ++ PUB cut inside the PUBLISH header -/
def exS : State := run exCfg [.connect 1 [1,2,3,4], .connect 2 [5,6,7,8], .data 2 (exAuth [5,6,7,8] ++ exSub)]
example : step exCfg (step exCfg exS (.data 1 (exAuth [1,2,3,4] ++ exSub ++ exPub.take 3))) (.data 1 (exPub.drop 3)) =
    step exCfg exS (.data 1 ((exAuth [1,2,3,4] ++ exSub ++ exPub.take 3) ++ exPub.drop 3)) :=
  chunking_irrelevant exCfg exS 1 ((exS.conn 1).get (by decide +kernel)) _ _ (by simp)
    (by decide +kernel) (by decide +kernel)

end Hpfeeds.C01
