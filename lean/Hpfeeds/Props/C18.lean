/-
  C18 — reloading the JSON user file is all-or-nothing.
  `parsed : Option JVal` is what `json.load` produced (`none` = missing / unreadable / not JSON /
  not UTF-8): a truncated or half-written file is either `none` or some other JSON value — every case is
  covered.  Which file-system events trigger a reload (inotify) is not modelled.
-/
import Hpfeeds.Model.JsonReload
namespace Hpfeeds.C18
open Hpfeeds Hpfeeds.JsonReload

/-- After a (re)load the database is EITHER exactly the previous one OR the complete new mapping, and the
    latter happens exactly when the file parsed to an object whose every entry passes the checks. -/
theorem all_or_nothing (db : Db) (parsed : Option JVal) :
    (reload db parsed = db ∧ (∀ j, parsed = some j → validate j = none)) ∨
    (∃ l, parsed = some (.obj l) ∧ l.all (fun e => entryOk e.2) = true ∧ reload db parsed = l) := by
  cases parsed with
  | none => exact Or.inl ⟨rfl, fun j h => by cases h⟩
  | some j =>
    cases hv : validate j with
    | none => left; exact ⟨by simp [reload, hv], fun j' h => by cases h; exact hv⟩
    | some new =>
      right
      cases j with
      | obj l =>
        simp only [validate] at hv
        split at hv
        · rename_i hall; cases hv; exact ⟨_, rfl, hall, by simp [reload, validate, hall]⟩
        · cases hv
      | null => simp [validate] at hv
      | bool b => simp [validate] at hv
      | num r => simp [validate] at hv
      | str s => simp [validate] at hv
      | arr a => simp [validate] at hv

/-- What "valid" means, entry by entry: an object with the keys owner and secret present and list-typed
    pubchans and subchans. -/
theorem entry_ok_iff (v : JVal) :
    entryOk v = true ↔ ∃ l, v = .obj l ∧ (field l kOwner).isSome = true ∧ (field l kSecret).isSome = true ∧
      (∃ p, field l kPub = some (.arr p)) ∧ (∃ q, field l kSub = some (.arr q)) := by
  cases v with
  | obj l =>
    simp only [entryOk, Bool.and_eq_true]
    constructor
    · rintro ⟨⟨⟨h1, h2⟩, h3⟩, h4⟩
      refine ⟨l, rfl, h1, h2, ?_, ?_⟩
      · cases hp : field l kPub with
        | none => rw [hp] at h3; cases h3
        | some p => rw [hp] at h3; cases p <;> simp [JVal.isArr] at h3; exact ⟨_, rfl⟩
      · cases hq : field l kSub with
        | none => rw [hq] at h4; cases h4
        | some p => rw [hq] at h4; cases p <;> simp [JVal.isArr] at h4; exact ⟨_, rfl⟩
    · rintro ⟨l', hl, h1, h2, ⟨p, hp⟩, ⟨q, hq⟩⟩
      cases hl
      simp [h1, h2, hp, hq, JVal.isArr]
  | null => simp [entryOk]
  | bool b => simp [entryOk]
  | num r => simp [entryOk]
  | str s => simp [entryOk]
  | arr a => simp [entryOk]

/-- an invalid file — truncated, half-written, mistyped, not JSON, missing — never clears, shrinks or
    partially replaces the users already loaded: the database is literally unchanged -/
theorem invalid_keeps_everything (db : Db) (parsed : Option JVal)
    (hbad : ∀ j, parsed = some j → validate j = none) : reload db parsed = db := by
  cases parsed with
  | none => rfl
  | some j => simp [reload, hbad j rfl]

/-- After ANY sequence of reloads the database is the initial one or the complete mapping of one of the
    valid files in the sequence — namely the last valid one. -/
theorem reload_seq (db : Db) (files : List (Option JVal)) :
    reloads db files =
      match (files.reverse.findSome? fun p => p.bind validate) with
      | some new => new
      | none => db := by
  induction files generalizing db with
  | nil => rfl
  | cons f fs ih =>
    simp only [reloads, List.foldl_cons] at ih ⊢
    rw [ih]
    simp only [List.reverse_cons, List.findSome?_append]
    cases hfs : fs.reverse.findSome? fun p => p.bind validate with
    | some new => simp
    | none =>
      simp only [Option.none_or, List.findSome?_cons, List.findSome?_nil]
      cases f with
      | none => rfl
      | some j =>
        simp only [Option.bind_some, reload]
        cases validate j <;> rfl

/-! non-vacuity: a valid table replaces; an entry with a string where a list is required keeps the old -/
def exEntry : JVal := .obj [(kOwner, .str [111]), (kSecret, .str [115]), (kPub, .arr []), (kSub, .arr [.str [99]])]
def exBad : JVal := .obj [(kOwner, .str [111]), (kSecret, .str [115]), (kPub, .str [99]), (kSub, .arr [])]
example : reload [([1], exEntry)] (some (.obj [([2], exEntry), ([3], exEntry)])) = [([2], exEntry), ([3], exEntry)] := by
  simp [reload, validate, entryOk, exEntry, field, kOwner, kSecret, kPub, kSub, JVal.isArr]
example : reload [([1], exEntry)] (some (.obj [([2], exEntry), ([3], exBad)])) = [([1], exEntry)] := by
  simp [reload, validate, entryOk, exBad, exEntry, field, kOwner, kSecret, kPub, kSub, JVal.isArr]
example : reload [([1], exEntry)] none = [([1], exEntry)] := rfl

end Hpfeeds.C18
