/-
  C05 — every message builder is inverted exactly by the decoder.
-/
import Hpfeeds.Lemmas.Wire
namespace Hpfeeds.C05
open Hpfeeds Extracted

/-- in-range fields: text fields are UTF-8 (every Python `str` encodes to such bytes), ident / channel /
    name at most 255 bytes where a one-byte length prefix is used, and the whole frame within the
    decoder's limit for its opcode -/
def InRange : Msg → Prop
  | .error t => validUtf8 t ∧ 5 + t.length ≤ limit OP_ERROR
  | .info n r => validUtf8 n ∧ n.length ≤ 255 ∧ 5 + (1 + n.length + r.length) ≤ limit OP_INFO
  | .auth i d => validUtf8 i ∧ i.length ≤ 255 ∧ 5 + (1 + i.length + d.length) ≤ limit OP_AUTH
  | .publish i c p => validUtf8 i ∧ i.length ≤ 255 ∧ validUtf8 c ∧ c.length ≤ 255 ∧
      5 + (1 + i.length + (1 + c.length) + p.length) ≤ limit OP_PUBLISH
  | .subscribe i c => validUtf8 i ∧ i.length ≤ 255 ∧ validUtf8 c ∧
      5 + (1 + i.length + c.length) ≤ limit OP_SUBSCRIBE
  | .unsubscribe i c => validUtf8 i ∧ i.length ≤ 255 ∧ validUtf8 c ∧
      5 + (1 + i.length + c.length) ≤ limit OP_UNSUBSCRIBE

theorem strunpack8_pack (x rest : Bytes) (hx : x.length ≤ 255) (hv : validUtf8 x = true) :
    strunpack8 (UInt8.ofNat x.length :: (x ++ rest)) = .ok (x, rest) := by
  have : (UInt8.ofNat x.length).toNat = x.length := by
    simp only [UInt8.toNat_ofNat']; omega
  simp only [strunpack8, this, List.take_left', List.drop_left', hv, if_true]

theorem wfOf (op : Nat) (body : Bytes) (h0 : OP_ERROR ≤ op) (h1 : op ≤ OP_UNSUBSCRIBE)
    (hl : 5 + body.length ≤ limit op) : (⟨UInt8.ofNat op, body⟩ : Frame).WF := by
  have : (UInt8.ofNat op).toNat = op := by
    simp only [UInt8.toNat_ofNat']; simp only [OP_UNSUBSCRIBE] at h1; omega
  simp only [Frame.WF, this]
  exact ⟨h0, h1, hl⟩

theorem msghdr_eq (op : Nat) (data : Bytes) (hop : op < 256) (hl : 5 + data.length ≤ limit op) :
    msghdr op data = some (enc ⟨UInt8.ofNat op, data⟩) := by
  have := limit_lt op
  simp only [msghdr]
  rw [if_pos ⟨by omega, hop⟩]

theorem strpack8_eq (x : Bytes) (hx : x.length ≤ 255) : strpack8 x = some (UInt8.ofNat x.length :: x) := by
  simp only [strpack8]; rw [if_pos (by omega)]

/-- The round trip, for every opcode and every in-range message: the builder succeeds; its output is
    one well-formed frame whose 4-byte length header equals the number of bytes produced; the stream
    decoder yields exactly that frame and nothing is left over; the matching reader returns exactly the
    original fields. -/
theorem roundtrip (m : Msg) (h : InRange m) :
    ∃ f : Frame, build m = some (enc f) ∧ f.WF ∧
      (enc f).take 4 = be32 (enc f).length ∧
      drain (enc f) = ([f], [], none) ∧
      read f = some (.ok m) := by
  have dr : ∀ f : Frame, f.WF → drain (enc f) = ([f], [], none) := by
    intro f hf
    have := drain_enc_append f [] hf
    rw [List.append_nil] at this
    rw [this, drain_wait (by rfl)]
  have hd4 : ∀ f : Frame, (enc f).take 4 = be32 (enc f).length := by
    intro f; rw [enc_length]; simp [enc, be32]
  cases m with
  | error t =>
    obtain ⟨hv, hl⟩ := h
    have wf : (⟨UInt8.ofNat OP_ERROR, t⟩ : Frame).WF := wfOf _ _ (by decide) (by decide) hl
    refine ⟨⟨UInt8.ofNat OP_ERROR, t⟩, ?_, wf, hd4 _, dr _ wf, ?_⟩
    · exact msghdr_eq _ _ (by decide) hl
    · simp [read, forceStr, hv, OP_ERROR, bind, Except.bind]
  | info n r =>
    obtain ⟨hv, hn, hl⟩ := h
    have hb : (UInt8.ofNat n.length :: n ++ r).length = 1 + n.length + r.length := by simp; omega
    have wf : (⟨UInt8.ofNat OP_INFO, UInt8.ofNat n.length :: n ++ r⟩ : Frame).WF :=
      wfOf _ _ (by decide) (by decide) (by rw [hb]; exact hl)
    refine ⟨_, ?_, wf, hd4 _, dr _ wf, ?_⟩
    · simp only [build, strpack8_eq n hn]
      exact msghdr_eq _ _ (by decide) (by rw [hb]; exact hl)
    · have := strunpack8_pack n r hn hv
      simp [read, OP_ERROR, OP_INFO, this, bind, Except.bind]
  | auth i d =>
    obtain ⟨hv, hn, hl⟩ := h
    have hb : (UInt8.ofNat i.length :: i ++ d).length = 1 + i.length + d.length := by simp; omega
    have wf : (⟨UInt8.ofNat OP_AUTH, UInt8.ofNat i.length :: i ++ d⟩ : Frame).WF :=
      wfOf _ _ (by decide) (by decide) (by rw [hb]; exact hl)
    refine ⟨_, ?_, wf, hd4 _, dr _ wf, ?_⟩
    · simp only [build, strpack8_eq i hn]
      exact msghdr_eq _ _ (by decide) (by rw [hb]; exact hl)
    · have := strunpack8_pack i d hn hv
      simp [read, OP_ERROR, OP_INFO, OP_AUTH, this, bind, Except.bind]
  | publish i c p =>
    obtain ⟨hvi, hni, hvc, hnc, hl⟩ := h
    have hb : (UInt8.ofNat i.length :: i ++ (UInt8.ofNat c.length :: c) ++ p).length
        = 1 + i.length + (1 + c.length) + p.length := by simp; omega
    have wf : (⟨UInt8.ofNat OP_PUBLISH, UInt8.ofNat i.length :: i ++ (UInt8.ofNat c.length :: c) ++ p⟩ : Frame).WF :=
      wfOf _ _ (by decide) (by decide) (by rw [hb]; exact hl)
    refine ⟨_, ?_, wf, hd4 _, dr _ wf, ?_⟩
    · simp only [build, strpack8_eq i hni, strpack8_eq c hnc]
      exact msghdr_eq _ _ (by decide) (by rw [hb]; exact hl)
    · have h1 := strunpack8_pack i ((UInt8.ofNat c.length :: c) ++ p) hni hvi
      have h2 := strunpack8_pack c p hnc hvc
      simp only [List.cons_append, List.append_assoc] at h1 h2 ⊢
      simp [read, OP_ERROR, OP_INFO, OP_AUTH, OP_PUBLISH, h1, h2, bind, Except.bind]
  | subscribe i c =>
    obtain ⟨hvi, hni, hvc, hl⟩ := h
    have hb : (UInt8.ofNat i.length :: i ++ c).length = 1 + i.length + c.length := by simp; omega
    have wf : (⟨UInt8.ofNat OP_SUBSCRIBE, UInt8.ofNat i.length :: i ++ c⟩ : Frame).WF :=
      wfOf _ _ (by decide) (by decide) (by rw [hb]; exact hl)
    refine ⟨_, ?_, wf, hd4 _, dr _ wf, ?_⟩
    · simp only [build, strpack8_eq i hni]
      exact msghdr_eq _ _ (by decide) (by rw [hb]; exact hl)
    · have := strunpack8_pack i c hni hvi
      simp [read, OP_ERROR, OP_INFO, OP_AUTH, OP_PUBLISH, OP_SUBSCRIBE, this, forceStr, hvc, bind, Except.bind]
  | unsubscribe i c =>
    obtain ⟨hvi, hni, hvc, hl⟩ := h
    have hb : (UInt8.ofNat i.length :: i ++ c).length = 1 + i.length + c.length := by simp; omega
    have wf : (⟨UInt8.ofNat OP_UNSUBSCRIBE, UInt8.ofNat i.length :: i ++ c⟩ : Frame).WF :=
      wfOf _ _ (by decide) (by decide) (by rw [hb]; exact hl)
    refine ⟨_, ?_, wf, hd4 _, dr _ wf, ?_⟩
    · simp only [build, strpack8_eq i hni]
      exact msghdr_eq _ _ (by decide) (by rw [hb]; exact hl)
    · have := strunpack8_pack i c hni hvi
      simp [read, OP_ERROR, OP_INFO, OP_AUTH, OP_PUBLISH, OP_SUBSCRIBE, OP_UNSUBSCRIBE, this, forceStr, hvc, bind, Except.bind]

/-! Obligations on the extracted limit table: everything the library itself builds from in-range
    fields is accepted by its own decoder (a limit lowered below what the builders emit breaks these). -/

/-- every OP_AUTH the builders can produce (ident ≤ 255 bytes, 20-byte SHA-1 digest) is in range -/
theorem auth_fits (i d : Bytes) (hv : validUtf8 i = true) (hi : i.length ≤ 255) (hd : d.length = 20) :
    InRange (.auth i d) := by
  have : 281 ≤ limit OP_AUTH := by decide
  exact ⟨hv, hi, by omega⟩

/-- every OP_INFO the broker can produce (name ≤ 255 bytes, nonce up to 20 bytes; it sends 4) -/
theorem info_fits (n r : Bytes) (hv : validUtf8 n = true) (hn : n.length ≤ 255) (hr : r.length ≤ 20) :
    InRange (.info n r) := by
  have : 281 ≤ limit OP_INFO := by decide
  exact ⟨hv, hn, by omega⟩

/-- every OP_PUBLISH with in-range ident and channel and a payload that, with them, makes a frame of
    at most `5 + MAXBUF` bytes — up to the exact frame limit -/
theorem publish_fits (i c p : Bytes) (hvi : validUtf8 i = true) (hi : i.length ≤ 255)
    (hvc : validUtf8 c = true) (hc : c.length ≤ 255)
    (hp : 1 + i.length + (1 + c.length) + p.length ≤ MAXBUF) : InRange (.publish i c p) := by
  have : 5 + MAXBUF ≤ limit OP_PUBLISH := by decide
  exact ⟨hvi, hi, hvc, hc, by omega⟩

theorem error_fits (t : Bytes) (hv : validUtf8 t = true) (ht : t.length ≤ MAXBUF) : InRange (.error t) := by
  have : 5 + MAXBUF ≤ limit OP_ERROR := by decide
  exact ⟨hv, by omega⟩

theorem subscribe_fits (i c : Bytes) (hvi : validUtf8 i = true) (hi : i.length ≤ 255)
    (hvc : validUtf8 c = true) (hc : c.length ≤ 255) :
    InRange (.subscribe i c) ∧ InRange (.unsubscribe i c) := by
  have h1 : 516 ≤ limit OP_SUBSCRIBE := by decide
  have h2 : 516 ≤ limit OP_UNSUBSCRIBE := by decide
  exact ⟨⟨hvi, hi, hvc, by omega⟩, ⟨hvi, hi, hvc, by omega⟩⟩

/-- the announced length is read back as the same number by the decoder's signed 32-bit parse -/
theorem header_reads_length (f : Frame) (hf : f.WF) (rest : Bytes) :
    header (enc f ++ rest) = .ok (enc f).length f.op := by
  rw [enc_length]; exact header_enc_append f rest hf

/-! non-vacuity: a 255-byte ident of 2-byte code points + 1, bytes that look like length prefixes, an
    empty channel, a payload at the exact limit -/
example : InRange (.auth (0x41 :: (List.replicate 127 [0xc3, 0xa9]).flatten) (List.replicate 20 0xff)) :=
  auth_fits _ _ (by decide +kernel) (by decide +kernel) (by decide +kernel)
example : InRange (.publish [3, 0, 0] [] [0, 0, 0, 5, 3]) := by
  refine publish_fits _ _ _ (by decide +kernel) (by decide) (by decide +kernel) (by decide) (by decide +kernel)
example (p : Bytes) (hp : p.length = MAXBUF - 2) : InRange (.publish [] [] p) :=
  publish_fits _ _ _ (by decide +kernel) (by decide) (by decide +kernel) (by decide) (by simp [hp, MAXBUF])

end Hpfeeds.C05
