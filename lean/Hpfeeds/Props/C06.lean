/-
  C06 — stream decoding is independent of how the bytes are chunked.
  Only property theorems and non-vacuity examples live here.
-/
import Hpfeeds.Lemmas.Wire
namespace Hpfeeds.C06
open Hpfeeds Extracted

/-- For every sequence of well-formed frames, every trailing incomplete frame `t`, and EVERY way of
    cutting the concatenation into chunks (any number, any sizes, cuts inside headers, empty chunks),
    feeding the chunks yields exactly that frame sequence, in order, each once, and leaves exactly `t`
    buffered. -/
theorem feed_chunks (fs : List Frame) (t : Bytes) (chunks : List Bytes)
    (hf : ∀ f ∈ fs, f.WF) (ht : header t = .wait)
    (hc : chunks.flatten = fs.flatMap enc ++ t) :
    feedAll [] chunks = (fs, t, none) := by
  obtain ⟨h1, h2, h3⟩ := feedAll_eq_drain [] chunks (by rfl)
  simp only [List.nil_append] at h1 h2 h3
  rw [hc, drain_frames fs t hf, drain_wait ht] at h1 h2 h3
  simp only [List.append_nil] at h1 h2 h3
  have h3' := h3 h2
  rcases hfa : feedAll [] chunks with ⟨a, b, c⟩
  rw [hfa] at h1 h2 h3'
  simp only at h1 h2 h3'
  rw [h1, h2, h3']

/-- Chunking independence in general (arbitrary bytes, error cases included): the frames yielded and
    the error raised are those of decoding the concatenation in one go. -/
theorem feed_eq_drain_flatten (chunks : List Bytes) :
    (feedAll [] chunks).1 = (drain chunks.flatten).1 ∧
    (feedAll [] chunks).2.2 = (drain chunks.flatten).2.2 ∧
    ((feedAll [] chunks).2.2 = none → (feedAll [] chunks).2.1 = (drain chunks.flatten).2.1) := by
  simpa using feedAll_eq_drain [] chunks (by rfl)

/-- Promptness: after any prefix of the stream has arrived — the frames `pre` completely, plus a strict
    prefix `u` of the next frame `f` — exactly `pre` has been emitted (every frame whose last byte has
    arrived, and none earlier), and exactly `u` is buffered. -/
theorem prompt (pre : List Frame) (f : Frame) (u v : Bytes) (chunks : List Bytes)
    (hpre : ∀ g ∈ pre, g.WF) (hf : f.WF) (huv : u ++ v = enc f) (hv : v ≠ [])
    (hc : chunks.flatten = pre.flatMap enc ++ u) :
    feedAll [] chunks = (pre, u, none) :=
  feed_chunks pre u chunks hpre (header_prefix_wait f hf u v huv hv) hc

/-- Whatever has been fed without error, the bytes are accounted for exactly: emitted frames followed by
    the buffered rest re-assemble the input, and the rest is an incomplete frame. -/
theorem accounted (chunks : List Bytes) (h : (feedAll [] chunks).2.2 = none) :
    (feedAll [] chunks).1.flatMap enc ++ (feedAll [] chunks).2.1 = chunks.flatten ∧
    header (feedAll [] chunks).2.1 = .wait := by
  obtain ⟨h1, h2, h3⟩ := feed_eq_drain_flatten chunks
  have hs := drain_spec chunks.flatten
  rw [h1, h3 h]
  rw [h2] at h
  rw [h] at hs
  exact ⟨hs.1.symm, hs.2.2⟩

/-! non-vacuity: the hypotheses are met by concrete frames with a cut inside a header, an empty chunk
    and a trailing partial frame (`drain` is defined by well-founded recursion, so the instance is
    obtained from the theorem rather than by evaluation) -/
example : feedAll [] [[0,0,0], [7,3,1,65], [], [0,0,0,6,4,9,0,0]] =
    ([⟨3, [1,65]⟩, ⟨4, [9]⟩], [0,0], none) :=
  feed_chunks [⟨3, [1,65]⟩, ⟨4, [9]⟩] [0,0] _ (by decide) (by decide) (by decide)
example : feedAll [] [[0,0,0,7,3], [1,65,0,0,0]] = ([⟨3, [1,65]⟩], [0,0,0], none) :=
  prompt [⟨3, [1,65]⟩] ⟨4, [9]⟩ [0,0,0] [6,4,9] _ (by decide) (by decide) (by decide) (by decide) (by decide)

end Hpfeeds.C06
