/-
  C12 — clients hand every received message to the application once, in order.
-/
import Hpfeeds.Lemmas.AioClient
import Hpfeeds.Lemmas.BlkSession
import Hpfeeds.Lemmas.BlkClient
import Hpfeeds.Lemmas.AioTrace
import Hpfeeds.Lemmas.AioPrompt
import Hpfeeds.Lemmas.BlkPrompt
import Hpfeeds.Lemmas.BlkClientPrompt
import Hpfeeds.Lemmas.BlkSessionTrace
import Hpfeeds.Lemmas.BlkClientTrace
namespace Hpfeeds.C12
open Hpfeeds Extracted

/-! ## asyncio ClientSession (read() and async iteration both go through `read_queue.get()`) -/
namespace Aio
open Hpfeeds.AioClient

/-- After ANY event sequence (any chunking of the inbound bytes, any interleaving of read() calls with
    arrivals): the messages handed to the application so far, followed by the ones still queued, are
    exactly the OP_PUBLISH frames dispatched so far, in order — nothing lost, nothing duplicated,
    nothing reordered, ident / channel / payload as decoded from the frame.  A read() issued early is
    completed by the next arrival (a waiting reader implies an empty queue). -/
theorem handed_in_order (cfg : Cfg) (es : List Ev) :
    (run cfg es).1.handedLog ++ (run cfg es).1.queue = (run cfg es).1.allProcessed.filterMap pubOf ∧
    ((run cfg es).1.readers > 0 → (run cfg es).1.queue = []) := by
  obtain ⟨_, _, ⟨q, r⟩⟩ := run_inv cfg es
  exact ⟨by rw [← q.fifo, r], q.idle⟩

/-- The dispatched frames of a connection are exactly the frames contained in the bytes received on it:
    re-encoded and followed by the buffered rest they ARE those bytes (with C06/C07: the frame sequence
    does not depend on how the bytes were split across reads). -/
theorem frames_are_the_bytes (cfg : Cfg) (es : List Ev) (c : Conn) (hc : (run cfg es).1.conn = some c) :
    c.inbound = c.processed.flatMap enc ++ c.buf :=
  (run_inv cfg es).1.bytes c hc

/-- The observable form.  Over ANY event sequence, the values carried by the `handed` OUTPUTS — which are what
    the correspondence check compares with the values the real read() calls return — are exactly the log of
    `handed_in_order`: a prefix, in order, once each, of the OP_PUBLISH frames dispatched. -/
theorem handed_is_observable (cfg : Cfg) (es : List Ev) :
    (run cfg es).2.filterMap handedOf = (run cfg es).1.handedLog ∧
    (run cfg es).2.filterMap handedOf <+: (run cfg es).1.allProcessed.filterMap pubOf := by
  refine ⟨run_handed cfg es, ?_⟩
  rw [run_handed, ← (handed_in_order cfg es).1]
  exact List.prefix_append _ _

/-- **Nothing is withheld** ("EVERY OP_PUBLISH the broker sends is handed"): after ANY event sequence, if the
    bytes received on a connection the client has not dropped are well-formed frames `fs` followed by an
    incomplete rest `t` — however they were split across reads, several frames in one read included — then the
    frames dispatched on it are EXACTLY `fs` (so by `handed_in_order` their OP_PUBLISHes are handed or queued)
    and exactly `t` is still buffered: no complete frame waits in the parser for more traffic. -/
theorem nothing_withheld (cfg : Cfg) (es : List Ev) (c : Conn) (hc : (run cfg es).1.conn = some c)
    (hcl : c.closing = false) (fs : List Frame) (t : Bytes) (hf : ∀ f ∈ fs, f.WF) (ht : header t = .wait)
    (hin : c.inbound = fs.flatMap enc ++ t) : c.processed = fs ∧ c.buf = t :=
  every_frame_dispatched cfg es c hc hcl fs t hf ht hin

/-- … in its plain form: the buffered rest of a live connection never begins a complete frame -/
theorem buffer_is_incomplete (cfg : Cfg) (es : List Ev) (c : Conn) (hc : (run cfg es).1.conn = some c)
    (hcl : c.closing = false) : header c.buf = .wait :=
  winv_run cfg es c hc hcl

/-! non-vacuity (kernel-evaluated): two PUBLISH frames split at an arbitrary byte, one early read() -/
def exCfg : Cfg := { ident := [109], secret := [115], H := id }
def exInfo : Bytes := [0,0,0,12,1,2,104,112,9,8,7,6]
def exPub (x : UInt8) : Bytes := [0,0,0,10,3,1,97,1,99,x]
example : (run exCfg [.read, .accept, .data (exInfo ++ (exPub 1).take 3), .data ((exPub 1).drop 3 ++ exPub 2), .read]).1.handedLog =
    [([97],[99],[1]), ([97],[99],[2])] := by decide +kernel
/-- three frames coalesced into ONE read (OP_INFO and two PUBLISHes) plus the first bytes of a fourth: all three are
    dispatched at once, both messages reach the two reads, the partial frame stays buffered -/
example : (fun r : State × List Out => (r.1.handedLog, r.1.conn.map (fun c => (c.processed.length, c.buf, c.closing))))
    (run exCfg [.accept, .data (exInfo ++ exPub 1 ++ exPub 2 ++ (exPub 3).take 4), .read, .read]) =
    ([([97],[99],[1]), ([97],[99],[2])], some (3, [0,0,0,10], false)) := by decide +kernel

end Aio
/-! ## blocking thread session: read() of the session -/
namespace Blk
open Hpfeeds.BlkSession

/-- After ANY event sequence: what read() has returned so far, followed by what is still in read_queue, is
    exactly the OP_PUBLISH frames dispatched so far, over all connections, in order, once each, fields as
    decoded. -/
theorem handed_in_order (cfg : Cfg) (es : List Ev) :
    (run cfg es).1.handed ++ (run cfg es).1.rq = (run cfg es).1.allProcessed.filterMap pubOf := by
  rw [← (run_inv cfg es).r.fifo, (run_inv cfg es).r.pubs]

/-- The frames dispatched on the current connection are exactly the frames contained in the bytes recv()
    returned on it (any chunking: recv(1024) slices included): re-encoded and followed by the unpacker's
    buffered rest they ARE those bytes. -/
theorem frames_are_the_bytes (cfg : Cfg) (es : List Ev) :
    (run cfg es).1.inbound = (run cfg es).1.processed.flatMap enc ++ (run cfg es).1.ubuf :=
  (run_inv cfg es).b.bytes

/-- **Nothing is withheld** (blocking thread session): after ANY event sequence, while the reactor is alive and the
    protocol has not closed the socket, if the bytes `recv()` returned on the current connection are well-formed
    frames `fs` followed by an incomplete rest `t` (any slicing, `recv(1024)` included), the frames dispatched
    are EXACTLY `fs` and exactly `t` is left in the unpacker. -/
theorem nothing_withheld (cfg : Cfg) (es : List Ev)
    (hd : (run cfg es).1.dead = false) (hc : (run cfg es).1.sockClosed = false)
    (fs : List Frame) (t : Bytes) (hf : ∀ f ∈ fs, f.WF) (ht : header t = .wait)
    (hin : (run cfg es).1.inbound = fs.flatMap enc ++ t) :
    (run cfg es).1.processed = fs ∧ (run cfg es).1.ubuf = t :=
  every_frame_dispatched cfg es hd hc fs t hf ht hin

/-- the observable form (as for the asyncio session) -/
theorem handed_is_observable (cfg : Cfg) (es : List Ev) :
    (run cfg es).2.filterMap handedOf = (run cfg es).1.handed ∧
    (run cfg es).2.filterMap handedOf <+: (run cfg es).1.allProcessed.filterMap pubOf := by
  refine ⟨run_handed cfg es, ?_⟩
  rw [run_handed, ← handed_in_order cfg es]
  exact List.prefix_append _ _

def exCfg : Cfg := { ident := [109], secret := [115], H := id }
def exInfo : Bytes := [0,0,0,12,1,2,104,112,9,8,7,6]
def exPub (x : UInt8) : Bytes := [0,0,0,10,3,1,97,1,99,x]
example : (run exCfg [.connect, .inb (exInfo ++ (exPub 1).take 3), .sel .again, .inb ((exPub 1).drop 3 ++ exPub 2),
    .read, .sel .again, .read, .read]).1.handed = [([97],[99],[1]), ([97],[99],[2])] := by decide +kernel

end Blk
/-! ## blocking Client.run: message_callback / error_callback -/
namespace Client
open Hpfeeds.BlkClient

/-- After ANY event sequence, whatever the callbacks do (stop, subscribe, publish — with reconnections
    inside them): the callbacks made so far are exactly, in order and once each, the ones owed for the
    frames run() has taken from the unpacker: message_callback(ident, channel, payload) for every
    OP_PUBLISH, error_callback(text) for every OP_ERROR, nothing for anything else. -/
theorem callbacks_in_order (cfg : Cfg) (es : List Ev) :
    (run cfg es).1.delivered = (run cfg es).1.runFrames.filterMap cbOf :=
  (dinv_run cfg es).cbs

/-- … and the frames taken from the unpacker since its last reset (= since the current connection was
    made) are exactly the frames contained in the bytes fed to it, however they were split across recv()
    calls: re-encoded and followed by the buffered rest they ARE those bytes.  (The first of them is the
    OP_INFO that do_auth took; frames that arrived in the same recv() are dispatched by run().) -/
theorem frames_are_the_bytes (cfg : Cfg) (es : List Ev) :
    (run cfg es).1.fed = (run cfg es).1.popped.flatMap enc ++ (run cfg es).1.ubuf :=
  (dinv_run cfg es).bytes

/-- The observable form: over ANY event sequence the callbacks that appear in the OUTPUT — what the
    correspondence check compares with the real message_callback / error_callback invocations — are exactly
    the ones owed for the frames run() took, in order, once each. -/
theorem callbacks_are_observable (cfg : Cfg) (es : List Ev) :
    (run cfg es).2.filterMap cbOut = (run cfg es).1.runFrames.filterMap cbOf := by
  rw [run_callbacks, callbacks_in_order]

/-- what a callback is owed for: the fields are the ones the frame carries -/
theorem callback_carries (f : Frame) (i c p : Bytes) (h : cbOf f = some (.msg (i, c, p))) :
    read f = some (.ok (.publish i c p)) := by
  unfold cbOf at h
  split at h
  · split at h
    · rename_i i' c' p' hr; cases h; exact hr
    · cases h
  · split at h
    · split at h <;> cases h
    · cases h

/-! non-vacuity (kernel-evaluated): a PUBLISH parked behind OP_INFO in the first recv(), one split over two
    reads, an OP_ERROR: three callbacks, in order -/
def exCfg : Cfg := { ident := [109], secret := [115], H := id }
def exInfo : Bytes := [0,0,0,12,1,2,104,112,9,8,7,6]
def exPub (x : UInt8) : Bytes := [0,0,0,10,3,1,97,1,99,x]
def exErr : Bytes := [0,0,0,7,0,110,111]
example : (run exCfg [.new, .connOk, .data (exInfo ++ exPub 1), .sendOk, .run, .data ((exPub 2).take 4),
    .data ((exPub 2).drop 4 ++ exErr)]).1.delivered =
    [.msg ([97],[99],[1]), .msg ([97],[99],[2]), .err [110,111]] := by decide +kernel
/-- the two situations of `back_at_recv_drained`: right after run() was called a PUBLISH that came with OP_INFO is
    still parked (loop top); after the next read — here a timeout — run() is back in recv() with nothing parked -/
example : (fun s : State => (s.pc, s.ubuf.length, s.delivered.length))
    (run exCfg [.new, .connOk, .data (exInfo ++ exPub 1), .sendOk, .run]).1 = (.runRecv, 10, 0) := by decide +kernel
example : (fun s : State => (s.pc, s.ubuf.length, s.delivered.length))
    (run exCfg [.new, .connOk, .data (exInfo ++ exPub 1), .sendOk, .run, .timeout]).1 = (.runRecv, 0, 1) := by decide +kernel

/-- **Nothing is withheld** (`Client.run`).  After ANY event sequence `es` and ANY further event `e` that leaves the
    client blocked in run()'s recv(): the unpacker holds no complete frame (every complete frame received has had
    its callback) — unless run() got there from the TOP of its outer loop (it was just called, or has just
    (re)connected and sent its subscriptions: frames that arrived in the same recv() as OP_INFO are parked until the
    next read completes, the model reproduces that) or was in recv() already and nothing was fed.  This covers the
    return from a callback's publish(), also when that publish had to reconnect and resubscribe. -/
theorem back_at_recv_drained (cfg : Cfg) (es : List Ev) (e : Ev)
    (h : (step cfg (run cfg es).1 e).1.pc = .runRecv) :
    header (step cfg (run cfg es).1 e).1.ubuf = .wait ∨ LoopTop (run cfg es).1 ∨
      ((run cfg es).1.pc = .runRecv ∧ (step cfg (run cfg es).1 e).1.ubuf = (run cfg es).1.ubuf) :=
  recv_entry cfg _ e h

/-- in particular: a read that brings data, or times out, and leaves run() in recv() has drained the unpacker -/
theorem read_drains (cfg : Cfg) (s : State) (e : Ev) (hs : s.pc = .runRecv) (he : (∃ b, b ≠ [] ∧ e = .data b) ∨ e = .timeout)
    (h : (step cfg s e).1.pc = .runRecv) : header (step cfg s e).1.ubuf = .wait := by
  rcases he with ⟨b, hb, rfl⟩ | rfl
  · unfold step at h ⊢
    simp only [hs, hb, if_false] at h ⊢
    exact afterFrames_recv_drained cfg _ h
  · unfold step at h ⊢
    simp only [hs] at h ⊢
    exact afterFrames_recv_drained cfg _ h

end Client
end Hpfeeds.C12
