/-
  C10 — one connection's misbehaviour never harms another connection.
  The statements hold in EVERY state (reachable or not) and for EVERY event, hence for every adversarial
  script interleaved in any way with any workload.
-/
import Hpfeeds.Lemmas.BrokerFrame
import Hpfeeds.Legacy
namespace Hpfeeds.C10
open Hpfeeds Hpfeeds.Broker Extracted

/-- Whatever an event about another connection (or the clock) is — arbitrary bytes, unknown / oversized /
    undersized frames, unauthorised requests, redundant (un)subscribes, an abrupt disconnect, a verdict,
    a timer — connection `d` keeps every field of its record, except that OP_PUBLISH frames may have been
    appended to its action log (only while it is open) and that it may have been forgotten (only if it
    was already closing).  In particular it is not closed, not crashed, not paused, its buffer, identity,
    ACLs, pending look-ups and deadline are untouched. -/
theorem untouched_by_others (cfg : Cfg) (s : State) (e : Event) (d : Nat) (y : Conn)
    (hd : e.target ≠ some d) (hy : s.conn d = some y) :
    ∃ y' extra, (step cfg s e).conn d = some y' ∧
      y' = { y with out := y.out ++ extra, active := y'.active, registered := y'.registered,
                    lostAs := y'.lostAs } ∧
      (∀ en ∈ extra, IsPubWrite en) ∧ (y.closing = true → extra = []) ∧
      (∀ ch ∈ y'.active, ch ∈ y.active) ∧
      ((y'.registered = y.registered ∧ y'.active = y.active) ∨ (y.closing = true ∧ y'.registered = false)) := by
  obtain ⟨y', hy', extra, r, hp, hc⟩ := others_step cfg s e d y hd hy
  exact ⟨y', extra, hy', r.eq, hp, hc, r.active, r.reg⟩

/-- The broker never disconnects a connection because of somebody else's event: `closing` (and `gone`)
    of `d` are unchanged. -/
theorem closing_is_own (cfg : Cfg) (s : State) (e : Event) (d : Nat) (y : Conn)
    (hd : e.target ≠ some d) (hy : s.conn d = some y) :
    ∃ y', (step cfg s e).conn d = some y' ∧ y'.closing = y.closing ∧ y'.gone = y.gone ∧
      y'.paused = y.paused ∧ y'.ak = y.ak := by
  obtain ⟨y', hy', extra, r, _, _⟩ := others_step cfg s e d y hd hy
  refine ⟨y', hy', ?_, ?_, ?_, ?_⟩ <;> rw [r.eq]

/-- An open, registered connection stays registered with all its subscriptions whatever the others do
    (the forced `connection_lost` in `Server.publish` only ever hits a connection that is already
    closing). -/
theorem open_stays_subscribed (cfg : Cfg) (es : List Event) (e : Event) (d : Nat) (y : Conn)
    (hd : e.target ≠ some d) (hy : (run cfg es).conn d = some y) (ho : y.closing = false) :
    ∃ y', (step cfg (run cfg es) e).conn d = some y' ∧ y'.registered = y.registered ∧
      y'.active = y.active := by
  obtain ⟨y', hy', extra, r, _, _⟩ := others_step cfg (run cfg es) e d y hd hy
  rcases r.reg with ⟨h, ha⟩ | ⟨h, _⟩
  · exact ⟨y', hy', h, ha⟩
  · rw [ho] at h; cases h

/-- Nothing but OP_PUBLISH frames is ever appended to `d`'s log by somebody else's event: no OP_ERROR,
    no close, no crash mark. -/
theorem only_publishes_from_others (cfg : Cfg) (s : State) (e : Event) (d : Nat) (y : Conn)
    (hd : e.target ≠ some d) (hy : s.conn d = some y) :
    ∃ y' extra, (step cfg s e).conn d = some y' ∧ y'.out = y.out ++ extra ∧ ∀ en ∈ extra, IsPubWrite en := by
  obtain ⟨y', hy', extra, r, hp, _⟩ := others_step cfg s e d y hd hy
  exact ⟨y', extra, hy', r.out, hp⟩

/-! What the well-behaved connection is entitled to is delivered exactly, whatever else is going on:
    C01.delivery_log / exactly_entitled / common_order hold for ALL histories, adversarial ones included.
    Handling any chunk terminates: `Broker.step` is a total function; `Broker.loop` is defined by
    well-founded recursion on the buffer length, without fuel, its termination proof resting on
    `header_ok` (`5 ≤ ml`, fix D1 — `Legacy.d1_no_progress` is the pinned decoder's counter-example). -/

example := @Legacy.d2_stale_entry
example := @Legacy.d1_no_progress

end Hpfeeds.C10
