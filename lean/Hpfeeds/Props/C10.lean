/-
  C10 — one connection's misbehaviour never harms another connection.
  The statements hold in EVERY state (reachable or not) and for EVERY event, hence for every adversarial
  script interleaved in any way with any workload.
-/
import Hpfeeds.Lemmas.BrokerFrame
import Hpfeeds.Lemmas.BrokerFault
import Hpfeeds.Legacy
import Hpfeeds.Props.C01
namespace Hpfeeds.C10
open Hpfeeds Hpfeeds.Broker Extracted

/-- Whatever an event about another connection (or the clock) is — arbitrary bytes, unknown / oversized /
    undersized frames, unauthorised requests, redundant (un)subscribes, an abrupt disconnect, a verdict,
    a timer — connection `d` keeps every field of its record, except that OP_PUBLISH frames may have been
    appended to its action log (only while it is open) and that it may have been forgotten (only if it
    was already closing).  In particular it is not closed, not crashed, not paused, its buffer, identity,
    ACLs, pending look-ups and deadline are untouched. -/
theorem untouched_by_others (cfg : Cfg) (s : State) (e : Event) (d : Nat) (y : Conn)
    (hd : e.target ≠ some d) (hy : s.conn d = some y) :
    ∃ y' extra, (step cfg s e).conn d = some y' ∧
      y' = { y with out := y.out ++ extra, active := y'.active, registered := y'.registered,
                    lostAs := y'.lostAs } ∧
      (∀ en ∈ extra, IsPubWrite en) ∧ (y.closing = true → extra = []) ∧
      (∀ ch ∈ y'.active, ch ∈ y.active) ∧
      ((y'.registered = y.registered ∧ y'.active = y.active) ∨ (y.closing = true ∧ y'.registered = false)) := by
  obtain ⟨y', hy', extra, r, hp, hc⟩ := others_step cfg s e d y hd hy
  exact ⟨y', extra, hy', r.eq, hp, hc, r.active, r.reg⟩

/-- The broker never disconnects a connection because of somebody else's event: `closing` (and `gone`)
    of `d` are unchanged. -/
theorem closing_is_own (cfg : Cfg) (s : State) (e : Event) (d : Nat) (y : Conn)
    (hd : e.target ≠ some d) (hy : s.conn d = some y) :
    ∃ y', (step cfg s e).conn d = some y' ∧ y'.closing = y.closing ∧ y'.gone = y.gone ∧
      y'.paused = y.paused ∧ y'.ak = y.ak := by
  obtain ⟨y', hy', extra, r, _, _⟩ := others_step cfg s e d y hd hy
  refine ⟨y', hy', ?_, ?_, ?_, ?_⟩ <;> rw [r.eq]

/-- An open, registered connection stays registered with all its subscriptions whatever the others do
    (the forced `connection_lost` in `Server.publish` only ever hits a connection that is already
    closing). -/
theorem open_stays_subscribed (cfg : Cfg) (es : List Event) (e : Event) (d : Nat) (y : Conn)
    (hd : e.target ≠ some d) (hy : (run cfg es).conn d = some y) (ho : y.closing = false) :
    ∃ y', (step cfg (run cfg es) e).conn d = some y' ∧ y'.registered = y.registered ∧
      y'.active = y.active := by
  obtain ⟨y', hy', extra, r, _, _⟩ := others_step cfg (run cfg es) e d y hd hy
  rcases r.reg with ⟨h, ha⟩ | ⟨h, _⟩
  · exact ⟨y', hy', h, ha⟩
  · rw [ho] at h; cases h

/-- Nothing but OP_PUBLISH frames is ever appended to `d`'s log by somebody else's event: no OP_ERROR,
    no close, no crash mark. -/
theorem only_publishes_from_others (cfg : Cfg) (s : State) (e : Event) (d : Nat) (y : Conn)
    (hd : e.target ≠ some d) (hy : s.conn d = some y) :
    ∃ y' extra, (step cfg s e).conn d = some y' ∧ y'.out = y.out ++ extra ∧ ∀ en ∈ extra, IsPubWrite en := by
  obtain ⟨y', hy', extra, r, hp, _⟩ := others_step cfg s e d y hd hy
  exact ⟨y', extra, hy', r.out, hp⟩

/-! What the well-behaved connection is entitled to is delivered exactly, whatever else is going on:
    C01.delivery_log / exactly_entitled / common_order hold for ALL histories, adversarial ones included.
    Handling any chunk terminates: `Broker.step` is a total function; `Broker.loop` is defined by
    well-founded recursion on the buffer length, without fuel, its termination proof resting on
    `header_ok` (`5 ≤ ml`, fix D1 — `Legacy.d1_no_progress` is the pinned decoder's counter-example). -/

/-! ### A destination's transport refuses a write inside `Server.publish`

C10 names the mechanism: "`Server.publish` wraps each destination write in try/except and closes only that
destination".  `Model/BrokerFault.lean` extends the model by exactly that `except` branch (`F d` = the transport
of `d` raises in `write()` during this event).  The statements hold in EVERY state, for EVERY fault set. -/

/-- The extension without faults IS the model all other theorems are about: nothing above is weakened by it, and
    the driver, which executes `stepF` for histories with injected faults, executes `step` for all others. -/
theorem no_fault_is_the_model (cfg : Cfg) (s : State) (e : Event) : stepF (fun _ => false) cfg s e = step cfg s e :=
  stepF_none cfg s e

/-- FAULT ISOLATION.  Whatever set of destinations fails, the record of every connection whose own transport did
    not refuse the write — its action log (hence: the copy of this message it is owed, exactly once, in order,
    byte-identical), whether it is closing, its registration and subscriptions, everything — is EXACTLY what the
    fault-free broker leaves there.  The publisher is such a connection too: it is not crashed or closed. -/
theorem write_fault_isolated (F : Nat → Bool) (s : State) (src : Nat) (x : Conn) (ident ch p : Bytes) (d : Nat)
    (hF : F d = false) :
    (publishF F s src x ident ch p).conn d = (publish s src x ident ch p).conn d :=
  foldl_deliverF_isolated F _ _ (nodup_eraseDups _) s hF

/-- The faulty destination itself (open and subscribed): it is closed — the first `transport.close()` is logged at
    this instant — it is written nothing, and nothing else of its record changes ("closes only that destination"). -/
theorem write_fault_closes_that_destination (F : Nat → Bool) (s : State) (src : Nat) (x : Conn) (ident ch p : Bytes)
    (d : Nat) (y : Conn) (hF : F d = true) (hy : s.conn d = some y) (hd : d ∈ s.subs ch) (ho : y.closing = false) :
    (publishF F s src x ident ch p).conn d = some { y.beginClose with out := y.out ++ [(s.now, .close)] } := by
  have hin : d ∈ (s.subs ch).eraseDups := List.mem_eraseDups.mpr hd
  show ((s.subs ch).eraseDups.foldl (deliverF F (pubFrame ident ch p)) s).conn d = _
  rw [foldl_deliverF_conn_in F _ _ (nodup_eraseDups _) s hin]
  simp [deliverF, hy, ho, hF, closeT]

/-- A faulty destination that is NOT subscribed to the channel is not touched at all. -/
theorem write_fault_elsewhere_is_harmless (F : Nat → Bool) (s : State) (src : Nat) (x : Conn) (ident ch p : Bytes)
    (d : Nat) (hd : d ∉ s.subs ch) :
    (publishF F s src x ident ch p).conn d = s.conn d := by
  have hin : d ∉ (s.subs ch).eraseDups := fun h => hd (List.mem_eraseDups.mp h)
  exact foldl_deliverF_conn_notin F _ _ s hin

/-- The accepted-log entry of a publish under faults lists as recipients exactly the open subscribers whose
    transport took the write; the entitled set (the specification side) is unchanged by faults. -/
theorem write_fault_recipients (F : Nat → Bool) (s : State) (src : Nat) (x : Conn) (ident ch p : Bytes) :
    ∃ a, (publishF F s src x ident ch p).accepted =
        ((s.subs ch).eraseDups.foldl (deliverF F (pubFrame ident ch p)) s).accepted ++ [a] ∧
      a.recips = (recipsOf s ch).filter (fun d => !F d) ∧ a.entitled = s.ids.filter (isOpenSub s ch) := by
  refine ⟨_, rfl, ?_, rfl⟩
  simp only [recipsOf, List.filter_filter]
  apply List.filter_congr
  intro d _
  cases s.conn d with
  | none => simp
  | some y => simp [Bool.and_comm]

/-- The registry invariant — registry ⇄ `active_subscriptions`, no stale entry, no duplicate — holds after EVERY
    history with write faults (any fault set per event, any store contents per event): the crash path "publish
    meets a registry entry of a forgotten connection" stays unreachable, so a later publisher is never the victim
    of somebody else's broken transport. -/
theorem registry_survives_write_faults (cfg : Cfg) (es : List (Store × List Nat × Event)) : Reg (runF cfg es) :=
  reg_runF cfg es


/-- C10's frame property UNDER WRITE FAULTS, for the whole event (every frame of the chunk, a verdict's parked frames, …),
    in EVERY state, for EVERY fault set: a connection `d` that the event is not about and whose OWN transport takes
    writes keeps every field of its record, except that OP_PUBLISH frames may have been appended while it is open and
    that it may have been forgotten if it was already closing — word for word `untouched_by_others`.  So a broken
    transport of one subscriber cannot make the broker disconnect, crash, pause or otherwise disturb anybody else. -/
theorem untouched_by_others_under_faults (F : Nat → Bool) (cfg : Cfg) (s : State) (e : Event) (d : Nat) (y : Conn)
    (hd : e.target ≠ some d) (hF : F d = false) (hy : s.conn d = some y) :
    ∃ y' extra, (stepF F cfg s e).conn d = some y' ∧
      y' = { y with out := y.out ++ extra, active := y'.active, registered := y'.registered,
                    lostAs := y'.lostAs } ∧
      (∀ en ∈ extra, IsPubWrite en) ∧ (y.closing = true → extra = []) ∧
      (∀ ch ∈ y'.active, ch ∈ y.active) ∧
      ((y'.registered = y.registered ∧ y'.active = y.active) ∨ (y.closing = true ∧ y'.registered = false)) := by
  obtain ⟨y', hy', extra, r, hp, hc⟩ := others_stepF F cfg s e d y hd hF hy
  exact ⟨y', extra, hy', r.eq, hp, hc, r.active, r.reg⟩

/-- … in particular it is not closed by the broker, whatever fails elsewhere -/
theorem closing_is_own_under_faults (F : Nat → Bool) (cfg : Cfg) (s : State) (e : Event) (d : Nat) (y : Conn)
    (hd : e.target ≠ some d) (hF : F d = false) (hy : s.conn d = some y) :
    ∃ y', (stepF F cfg s e).conn d = some y' ∧ y'.closing = y.closing ∧ y'.gone = y.gone ∧
      y'.paused = y.paused ∧ y'.ak = y.ak := by
  obtain ⟨y', hy', extra, r, _, _⟩ := others_stepF F cfg s e d y hd hF hy
  refine ⟨y', hy', ?_, ?_, ?_, ?_⟩ <;> rw [r.eq]


/-- "… or lose, duplicate, reorder or corrupt a message that connection is entitled to", UNDER WRITE FAULTS, for EVERY
    history (any fault set and any store contents per event) and EVERY connection: the OP_PUBLISH frames written to it
    so far are exactly, in order, once each, the accepted publishes that list it as a recipient (C01.delivery_log,
    verbatim) — whatever other transports broke meanwhile. -/
theorem delivery_log_under_faults (cfg : Cfg) (es : List (Store × List Nat × Event)) (d : Nat) (y : Conn)
    (hy : (runF cfg es).conn d = some y) : pubFrames y.out = delivered (runF cfg es).accepted d :=
  (delivF_runF cfg es).log d y hy

/-- … and every accepted publish was written to connections entitled to it only, once each, each of which had passed
    the subscribe ACL for the channel; it names the ident its sender was authenticated as and a channel on that
    identity's publish list (C01.exactly_entitled / C03 / C04 with `recips ⊆ entitled` instead of `=`: the entitled
    connections that are missing are exactly those whose own transport refused the write, `write_fault_recipients`). -/
theorem accepted_sound_under_faults (cfg : Cfg) (es : List (Store × List Nat × Event)) (a : Accepted)
    (ha : a ∈ (runF cfg es).accepted) :
    a.recips.Nodup ∧ (∀ d, d ∈ a.recips → d ∈ a.entitled) ∧ a.grantedOk = true ∧ a.srcAk = some a.ident ∧
      a.chan ∈ a.srcPubchans :=
  let k := (delivF_runF cfg es).acc a ha
  ⟨k.nodup, k.sub, k.granted, k.ident, k.chan⟩

/-- a closing connection has been written no OP_PUBLISH since it began closing — also when it is closing because its
    own transport refused a write -/
theorem no_publish_after_close_under_faults (cfg : Cfg) (es : List (Store × List Nat × Event)) (d : Nat) (y : Conn)
    (hy : (runF cfg es).conn d = some y) (hc : y.closing = true) : y.pubsAtClose = some (pubFrames y.out) :=
  ((delivF_runF cfg es).conn d y hy).atClose hc

/-! non-vacuity (kernel-evaluated): the C01 example history (connections 1 and 2 subscribed to "c", 1 publishes),
    with connection 2's transport refusing the write: 2 is closed and written nothing, the publisher still gets its
    own copy, and the accepted entry records recipient [1] of the entitled [1, 2]. -/
def exFaulty : List (Store × List Nat × Event) :=
  (C01.exHistory.dropLast.map fun e => (C01.exCfg.store, [], e)) ++ [(C01.exCfg.store, [2], .data 1 C01.exPub)]
example : ((runF C01.exCfg exFaulty).conn 2).map (fun y => (y.closing, pubFrames y.out, y.out.getLast?.map (·.2))) =
    some (true, [], some .close) := by decide +kernel
example : ((runF C01.exCfg exFaulty).conn 1).map (fun y => (y.closing, pubFrames y.out)) =
    some (false, [pubFrame [97] [99] [7]]) := by decide +kernel
example : (runF C01.exCfg exFaulty).accepted.map (fun a => (a.recips, a.entitled)) = [([1], [1, 2])] := by
  decide +kernel

example := @Legacy.d2_stale_entry
example := @Legacy.d1_no_progress

end Hpfeeds.C10
