/-
  C20 — blocking write path: whole frames, FIFO, no loss under partial sends; the wake-up queue is
  select()-readable exactly when it holds an item and hands items out in FIFO order.

  Model/BlkSession.lean is the reactor + thread session, Model/PollQueue.lean the queue on its own.  The
  quantifier "every sequence of frames, every sequence of send() outcomes (any accepted count, EAGAIN /
  EWOULDBLOCK at any point), every interleaving of producer threads with the reactor thread" is `∀ es`:
  the send outcome is an argument of each `sel` event and every application write is three events that
  interleave freely with everything else.

  What the model cannot exhibit (DESIGN.md, C20): preemption inside one of those steps (bytecode level;
  the line-level schedule search of the check covers the code's own statements), a send() that blocks on a
  full socket pair, errors other than EAGAIN/EWOULDBLOCK from send().
-/
import Hpfeeds.Lemmas.BlkSession
import Hpfeeds.Lemmas.PollQueue
import Hpfeeds.Lemmas.BlkSessionWrites
namespace Hpfeeds.C20
open Hpfeeds Extracted

/-! ## the reactor's write path -/
section Reactor
open Hpfeeds.BlkSession

/-- After ANY event sequence: the bytes the socket of the current connection has accepted, followed by
    the reactor's buffer, followed by the frames still queued, are exactly the frames put into that
    connection's outbox, in queue order — complete, once each, never interleaved, truncated or repeated. -/
theorem wire_exact (cfg : Cfg) (es : List Ev) :
    (run cfg es).1.wire ++ (run cfg es).1.buffer ++ (run cfg es).1.items.flatten = (run cfg es).1.enq.flatten :=
  (run_inv cfg es).w.bytes

/-- … so what reached the socket is always a prefix of the queued frames' concatenation -/
theorem wire_prefix (cfg : Cfg) (es : List Ev) : (run cfg es).1.wire <+: (run cfg es).1.enq.flatten :=
  ⟨(run cfg es).1.buffer ++ (run cfg es).1.items.flatten, by rw [← List.append_assoc]; exact wire_exact cfg es⟩

/-- … and when the buffer and the outbox are empty, everything that was written has reached the socket -/
theorem drained (cfg : Cfg) (es : List Ev) (hb : (run cfg es).1.buffer = []) (hi : (run cfg es).1.items = []) :
    (run cfg es).1.wire = (run cfg es).1.enq.flatten := by
  have := wire_exact cfg es
  rw [hb, hi] at this; simpa using this

/-- No loss under partial sends, as bounded progress.  From ANY reachable state of a connection with
    nothing to read and no put half-way, ANY sequence of rounds in which every send() accepts at least one
    byte — however few — and that is at least `todo` long (bytes + items still to go) ends with the buffer
    and the outbox empty and every queued frame on the wire, in order. -/
theorem drains (cfg : Cfg) (es : List Ev) (ns : List Nat) (hns : ∀ n ∈ ns, 1 ≤ n)
    (hq : Quiet (run cfg es).1) (hk : todo (run cfg es).1 ≤ ns.length) :
    (run cfg (es ++ ns.map (fun n => Ev.sel (.accept n)))).1.wire = (run cfg es).1.enq.flatten := by
  have hrun : ∀ (l : List Nat) (acc : State × List Out),
      ((l.map (fun n => Ev.sel (.accept n))).foldl (fun acc e => let r := step cfg acc.1 e; (r.1, acc.2 ++ r.2)) acc).1 =
      l.foldl (fun s e => (step cfg s (Ev.sel (.accept e))).1) acc.1 := by
    intro l
    induction l with
    | nil => intro acc; rfl
    | cons n l ih => intro acc; simp only [List.map_cons, List.foldl_cons]; rw [ih]
  have e1 : (run cfg (es ++ ns.map (fun n => Ev.sel (.accept n)))).1 =
      ns.foldl (fun s n => (step cfg s (Ev.sel (.accept n))).1) (run cfg es).1 := by
    unfold run; rw [List.foldl_append]; exact hrun ns _
  -- every state along the way is Quiet (live, not dead), so `step` is `select`
  have e2 : ∀ (l : List Nat) (s : State), (∀ n ∈ l, 1 ≤ n) → Quiet s →
      l.foldl (fun s n => (step cfg s (Ev.sel (.accept n))).1) s = l.foldl (fun s n => (select cfg s (.accept n)).1) s := by
    intro l
    induction l with
    | nil => intro s _ _; rfl
    | cons n l ih =>
      intro s hl hs
      simp only [List.foldl_cons]
      have : (step cfg s (Ev.sel (.accept n))).1 = (select cfg s (.accept n)).1 := by
        simp [step, hs.live, hs.notDead]
      rw [this]
      exact ih _ (fun m hm => hl m (by simp [hm])) (quiet_round cfg s n hs (hl n (by simp))).1
  have hfin := quiet_drains cfg ns hns (run cfg es).1 hq hk
  simp only at hfin
  have hw : WInv (run cfg (es ++ ns.map (fun n => Ev.sel (.accept n)))).1 := (run_inv cfg _).w
  rw [e1, e2 ns _ hns hq] at hw ⊢
  have := hw.bytes
  rw [hfin.1, hfin.2.1, hfin.2.2] at this
  simpa using this

/-- The observable form.  Over ANY event sequence, the bytes the model's OUTPUT shows accepted by the socket
    of the current connection — what the correspondence check compares, round by round, with what the real
    scripted socket accepted — are exactly `wire`; so `wire_exact` / `wire_prefix` / `drains` speak about the
    bytes arriving at the peer end of the socket.  (The frames put into the outbox, the ghost `enq`, are
    compared with the implementation's true queue order after every event as length + hash.) -/
theorem wire_is_observable (cfg : Cfg) (es : List Ev) :
    bytesOn (run cfg es).1.gen (run cfg es).2 = (run cfg es).1.wire ∧
    bytesOn (run cfg es).1.gen (run cfg es).2 <+: (run cfg es).1.enq.flatten :=
  ⟨(gb_run cfg es).cur, by rw [(gb_run cfg es).cur]; exact wire_prefix cfg es⟩

/-- one round: what send() accepted leaves the buffer from the front and is appended to the wire; EAGAIN /
    EWOULDBLOCK changes nothing -/
theorem send_partial (s : State) (n : Nat) (hc : s.sockClosed = false) (hn : min n s.buffer.length ≠ 0) :
    (writeReady s (.accept n)).1.wire = s.wire ++ s.buffer.take (min n s.buffer.length) ∧
    (writeReady s (.accept n)).1.buffer = s.buffer.drop (min n s.buffer.length) := by
  simp [writeReady, hc, hn]
theorem send_again (s : State) (hc : s.sockClosed = false) : writeReady s .again = (s, []) := by
  simp [writeReady, hc]

/-- the outbox's wake-up accounting under every interleaving: items = wake-up bytes + puts half-way; the
    puts half-way are exactly the application threads sitting between the two halves of a put on it -/
theorem outbox_accounting (cfg : Cfg) (es : List Ev) :
    (run cfg es).1.items.length = (run cfg es).1.wake + (run cfg es).1.mid ∧
    ∃ S : List Nat, S.Nodup ∧ (∀ t, t ∈ S ↔ (run cfg es).1.thr t = .midPut (run cfg es).1.gen) ∧
      (run cfg es).1.mid = S.length :=
  ⟨(run_inv cfg es).q.count, (run_inv cfg es).q.mids⟩

/-- hence: select()-readable implies an item; with no put half-way, readable exactly when non-empty -/
theorem outbox_readable_iff (cfg : Cfg) (es : List Ev)
    (hq : ∀ t, (run cfg es).1.thr t ≠ .midPut (run cfg es).1.gen) :
    (0 < (run cfg es).1.wake ↔ (run cfg es).1.items ≠ []) := by
  obtain ⟨hc, S, _, hS, hm⟩ := outbox_accounting cfg es
  have : S = [] := by
    cases S with
    | nil => rfl
    | cons t S => exact absurd ((hS t).mp (by simp)) (hq t)
  rw [this] at hm
  simp only [List.length_nil] at hm
  rw [hm] at hc
  constructor
  · intro hw hi; rw [hi] at hc; simp at hc; omega
  · intro hi
    have : 0 < (run cfg es).1.items.length := List.length_pos_iff.mpr hi
    omega

/-! non-vacuity (kernel-evaluated, hash := id): two application writes on a ready connection, sends of 3
    bytes, EAGAIN, 1 byte, then everything: wire = AUTH ++ SUB ++ PUB in order, nothing left -/
def exCfg : Cfg := { ident := [109], secret := [115], H := id }
def exInfo : Bytes := [0,0,0,12,1,2,104,112,9,8,7,6]
def exEvs : List Ev :=
  [.connect, .inb exInfo, .sel .again, .wBegin 1 (.sub [99]), .wBegin 2 (.pub [99] [1,2]), .wCheck 2, .wCheck 1,
   .sel (.accept 3), .wWake 1, .sel .again, .sel (.accept 1), .wWake 2, .sel (.accept 1000), .sel (.accept 1000),
   .sel (.accept 1000)]
example : (run exCfg exEvs).1.wire = authFrame exCfg [9,8,7,6] ++ pubFrame exCfg [99] [1,2] ++ subFrame exCfg [99] ∧
    (run exCfg exEvs).1.buffer = [] ∧ (run exCfg exEvs).1.items = [] := by decide +kernel
example : Quiet (run exCfg [.connect, .inb exInfo, .sel .again]).1 :=
  ⟨by decide +kernel, by decide +kernel, by decide +kernel, by decide +kernel, by decide +kernel, by decide +kernel,
   by decide +kernel⟩

end Reactor

/-! ## the select()-able queue on its own -/
section Queue
open Hpfeeds.PollQueue

/-- Under EVERY interleaving of the half-steps of put and get by any number of producers and consumers:
    the number of items equals wake-up bytes + puts half-way + gets half-way. -/
theorem queue_inv {α : Type} (es : List (Ev α)) :
    (run ({} : State α) es).items.length = (run ({} : State α) es).wake + (run ({} : State α) es).midPut + (run ({} : State α) es).midGet :=
  (inv_run _ es inv_init).count

/-- select()-readable (a wake-up byte is there) implies an item is there, at every moment -/
theorem readable_nonempty {α : Type} (es : List (Ev α)) (h : readable (run ({} : State α) es) = true) :
    (run ({} : State α) es).items ≠ [] := by
  have := queue_inv es
  intro hi; rw [hi] at this
  simp [readable] at h
  simp at this; omega

/-- whenever no put and no get is half-way: readable exactly when it holds at least one item -/
theorem readable_iff {α : Type} (es : List (Ev α)) (hp : (run ({} : State α) es).midPut = 0)
    (hg : (run ({} : State α) es).midGet = 0) :
    (readable (run ({} : State α) es) = true ↔ (run ({} : State α) es).items ≠ []) := by
  have := queue_inv es
  rw [hp, hg] at this
  constructor
  · exact readable_nonempty es
  · intro hi
    have : 0 < (run ({} : State α) es).items.length := List.length_pos_iff.mpr hi
    simp [readable]; omega

/-- a get that has consumed its wake-up byte always finds an item (queue.Queue.get(block=False) never
    raises Empty), and items leave in the order they were put: handed out ++ still queued = put -/
theorem fifo_no_loss {α : Type} (es : List (Ev α)) :
    (run ({} : State α) es).deqLog ++ (run ({} : State α) es).items = (run ({} : State α) es).enqLog ∧
    (run ({} : State α) es).emptyErr = 0 :=
  ⟨(inv_run _ es inv_init).fifo, (inv_run _ es inv_init).noErr⟩

/-! non-vacuity: two producers interleaved with a consumer -/
example : (run ({} : State Nat) [.enq 1, .enq 2, .wake, .recv, .wake, .deq, .recv, .deq]).deqLog = [1, 2] := by
  decide
example : readable (run ({} : State Nat) [.enq 1]) = false ∧ (run ({} : State Nat) [.enq 1]).midPut = 1 := by decide

end Queue
end Hpfeeds.C20
