/-
  C07 — arbitrary bytes: the decoder terminates, stays bounded, fails only cleanly.
  `drain` (Model/Wire.lean) is a total function defined WITHOUT fuel: its termination proof is the
  first obligation of this property (it needs `5 ≤ ml` from `header`, i.e. fix D1).
-/
import Hpfeeds.Lemmas.Wire
import Hpfeeds.Legacy
namespace Hpfeeds.C07
open Hpfeeds Extracted

/-- Every frame yielded from ANY byte string has one of the six opcodes and a declared length between 5
    and that opcode's limit; declared length = bytes consumed. -/
theorem frames_wf (buf : Bytes) (f : Frame) (hf : f ∈ (drain buf).1) :
    OP_ERROR ≤ f.op.toNat ∧ f.op.toNat ≤ OP_UNSUBSCRIBE ∧
    5 ≤ (enc f).length ∧ (enc f).length ≤ limit f.op.toNat ∧
    (enc f).take 4 = be32 (enc f).length := by
  obtain ⟨h0, h1, h2⟩ := (drain_spec buf).2.1 f hf
  refine ⟨h0, h1, ?_, ?_, ?_⟩
  · rw [enc_length]; omega
  · rw [enc_length]; exact h2
  · rw [enc_length]; simp [enc, be32]

/-- The bytes are consumed exactly: yielded frames, re-encoded, followed by what stays buffered, are the
    input. Nothing is skipped, invented or duplicated. -/
theorem consumed (buf : Bytes) : (drain buf).1.flatMap enc ++ (drain buf).2.1 = buf :=
  (drain_spec buf).1.symm

/-- The three outcomes: either the decoder waits (the rest is an incomplete frame) or it raises, and it
    raises exactly when the rest starts with a complete header that announces an unknown opcode, a
    length above the limit, or a length below 5. -/
theorem waits_or_rejects (buf : Bytes) :
    ((drain buf).2.2 = none ∧ header (drain buf).2.1 = .wait) ∨
    (∃ e, (drain buf).2.2 = some e ∧ header (drain buf).2.1 = .bad e) := by
  have h := (drain_spec buf).2.2
  cases he : (drain buf).2.2 with
  | none => rw [he] at h; exact Or.inl ⟨rfl, h⟩
  | some e => rw [he] at h; exact Or.inr ⟨e, rfl, h⟩

/-- Rejection depends only on the five header bytes (so it happens as soon as the header is complete,
    whatever follows or does not follow it) and happens exactly for the three kinds of bad header. -/
theorem reject_iff (b0 b1 b2 b3 op : UInt8) (x : Bytes) :
    ((∃ e, header (b0 :: b1 :: b2 :: b3 :: op :: x) = .bad e) ↔
      (op.toNat < OP_ERROR ∨ op.toNat > OP_UNSUBSCRIBE) ∨
      toSigned (u32 b0 b1 b2 b3) > (limit op.toNat : Int) ∨ toSigned (u32 b0 b1 b2 b3) < 5) ∧
    (∀ e, header (b0 :: b1 :: b2 :: b3 :: op :: x) = .bad e ↔ header [b0, b1, b2, b3, op] = .bad e) :=
  ⟨header_bad_iff b0 b1 b2 b3 op x, header_bad_five b0 b1 b2 b3 op x⟩

/-- Bounded buffering: after any error-free drain less than one maximal frame stays buffered; hence,
    fed chunk by chunk, the buffer never exceeds one maximal frame plus the current chunk. -/
theorem bounded (buf : Bytes) (h : (drain buf).2.2 = none) : (drain buf).2.1.length < 5 + MAXBUF := by
  rcases waits_or_rejects buf with ⟨_, hw⟩ | ⟨e, he, _⟩
  · exact wait_bounded hw
  · rw [h] at he; cases he

theorem bounded_chunks (chunks : List Bytes) (c : Bytes) (h : (feedAll [] chunks).2.2 = none) :
    ((feedAll [] chunks).2.1 ++ c).length < 5 + MAXBUF + c.length := by
  obtain ⟨_, h2, h3⟩ := feedAll_eq_drain [] chunks (by rfl)
  rw [List.length_append, h3 h]
  have := bounded ([] ++ chunks.flatten) (by rw [← h2]; exact h)
  omega

/-- For any bytes in any chunking the outcome (frames and error) is that of the unchunked input. -/
theorem any_chunking (chunks : List Bytes) :
    (feedAll [] chunks).1 = (drain chunks.flatten).1 ∧ (feedAll [] chunks).2.2 = (drain chunks.flatten).2.2 := by
  have := feedAll_eq_drain [] chunks (by rfl)
  simp only [List.nil_append] at this
  exact ⟨this.1, this.2.1⟩

/-- **A rejection is final.**  Once draining has raised for a header, draining again — at once, or after ANY further
    bytes have been fed — yields no frame and raises the same exception again: the rejected header is never
    accepted later and nothing behind it is ever decoded (so nothing is buffered towards its announced length). -/
theorem rejection_is_final (buf more : Bytes) (e : Err) (h : (drain buf).2.2 = some e) :
    drain ((drain buf).2.1 ++ more) = ([], (drain buf).2.1 ++ more, some e) := by
  have hs := (drain_spec buf).2.2
  rw [h] at hs
  exact drain_bad (header_append_bad hs)

/-! The pinned decoder (before fix D1) violated termination: kernel-checked witnesses. -/
example (x : Bytes) := Legacy.d1_no_progress x
example (x : Bytes) := Legacy.d1_fixed x

/-! non-vacuity -/
example : header [0, 0, 0, 4, 3] = .bad .tooSmall := by decide +kernel
example : header [0, 0, 0, 5, 6] = .bad .unknownOp := by decide +kernel
example : header [0, 16, 0, 6, 3, 9, 9] = .bad .tooBig := by decide +kernel
example : header [0, 16, 0, 5, 3, 9, 9] = .wait := by decide +kernel
example : header [0, 0, 0, 5, 3, 9, 9] = .ok 5 3 := by decide +kernel
/-- a good frame, then an undefined opcode: rejected, and still rejected after the announced body has arrived -/
example : drain ((drain [0,0,0,5,3, 0,0,0,7,6]).2.1 ++ [1, 2]) = ([], [0,0,0,7,6,1,2], some .unknownOp) := by decide +kernel

end Hpfeeds.C07
