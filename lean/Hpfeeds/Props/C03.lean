/-
  C03 — delivered messages carry the sender's authenticated ident and an allowed channel.
-/
import Hpfeeds.Lemmas.BrokerStep
import Hpfeeds.Lemmas.BrokerDyn
namespace Hpfeeds.C03
open Hpfeeds Hpfeeds.Broker Extracted

/-- Every accepted publish, in every history: the ident it names is the identity its originating
    connection was authenticated as at that moment, and the channel was on that identity's publish
    list (`srcAk`, `srcPubchans` are snapshots of the sender's record taken by `Broker.publish`). -/
theorem accepted_sound (cfg : Cfg) (es : List Event) (a : Accepted) (ha : a ∈ (run cfg es).accepted) :
    a.srcAk = some a.ident ∧ a.chan ∈ a.srcPubchans :=
  ⟨((deliv_run cfg es).acc a ha).ident, ((deliv_run cfg es).acc a ha).chan⟩

/-- Every OP_PUBLISH frame any connection ever received is the frame of such an accepted publish:
    it names the sender's authenticated ident and an allowed channel. -/
theorem every_delivery_sound (cfg : Cfg) (es : List Event) (d : Nat) (y : Conn) (f : Frame)
    (hy : (run cfg es).conn d = some y) (hf : f ∈ pubFrames y.out) :
    ∃ a ∈ (run cfg es).accepted, f = pubFrame a.ident a.chan a.payload ∧ d ∈ a.recips ∧
      a.srcAk = some a.ident ∧ a.chan ∈ a.srcPubchans := by
  rw [(deliv_run cfg es).log d y hy] at hf
  unfold delivered at hf
  rw [List.mem_filterMap] at hf
  obtain ⟨a, ha, h⟩ := hf
  by_cases hm : d ∈ a.recips
  · rw [if_pos hm] at h
    cases h
    exact ⟨a, ha, rfl, hm, accepted_sound cfg es a ha⟩
  · rw [if_neg hm] at h; cases h

/-- A PUBLISH naming another ident (any other string: another real ident, a case variant, a prefix, the
    empty string), or a channel outside the sender's list, in ANY state: the whole effect is OP_ERROR +
    close on the sender — the accepted log, the registry, the gauges and every other connection's record
    (in particular its action log) are unchanged. -/
theorem reject_publish (cfg : Cfg) (s : State) (c : Nat) (x : Conn) (f : Frame) (ident ch p : Bytes)
    (hx : s.conn c = some x) (hauth : x.ak ≠ none)
    (hf : read f = some (.ok (.publish ident ch p)))
    (hbad : some ident ≠ x.ak ∨ ch ∉ x.pubchans) :
    (messageReceived cfg s c f).2 = .cont ∧ Rejected s (messageReceived cfg s c f).1 c := by
  rw [Broker.reject_publish cfg s c x f ident ch p hx hauth hf hbad]
  exact ⟨rfl, errorClose_rejected s c⟩

/-! the same for a credential store that changes while the broker runs (`runS`: rotation, revocation, edited
    channel lists): the publish ACL is the one of the row the connection authenticated with -/
theorem Dyn.accepted_sound (cfg : Cfg) (es : List (Store × Event)) (a : Accepted) (ha : a ∈ (runS cfg es).accepted) :
    a.srcAk = some a.ident ∧ a.chan ∈ a.srcPubchans :=
  ⟨((deliv_runS cfg es).acc a ha).ident, ((deliv_runS cfg es).acc a ha).chan⟩

theorem Dyn.every_delivery_sound (cfg : Cfg) (es : List (Store × Event)) (d : Nat) (y : Conn) (f : Frame)
    (hy : (runS cfg es).conn d = some y) (hf : f ∈ pubFrames y.out) :
    ∃ a ∈ (runS cfg es).accepted, f = pubFrame a.ident a.chan a.payload ∧ d ∈ a.recips ∧
      a.srcAk = some a.ident ∧ a.chan ∈ a.srcPubchans := by
  rw [(deliv_runS cfg es).log d y hy] at hf
  unfold delivered at hf
  rw [List.mem_filterMap] at hf
  obtain ⟨a, ha, h⟩ := hf
  by_cases hm : d ∈ a.recips
  · rw [if_pos hm] at h
    cases h
    exact ⟨a, ha, rfl, hm, Dyn.accepted_sound cfg es a ha⟩
  · rw [if_neg hm] at h; cases h

/-- idents are compared as whole byte strings: a different string is a different ident -/
example (x : Conn) (h : x.ak = some [65, 108]) : some [97, 108] ≠ x.ak := by rw [h]; decide
example (x : Conn) (h : x.ak = some [97, 108]) : some [97] ≠ x.ak := by rw [h]; decide
example (x : Conn) (h : x.ak = some [97, 108]) : some [] ≠ x.ak := by rw [h]; decide

/-! non-vacuity (kernel-evaluated): an authenticated connection publishes under another ident, then a
    third connection's log shows nothing was delivered and the sender got ERROR + close. -/
def exRow : Row := ⟨[115], [111], [[99]], [[99]]⟩
def exCfg : Cfg := ⟨[104], .sync (fun i => if i = [97] then some exRow else none), id⟩
def exAuth (n : Bytes) : Bytes := [0,0,0,12,2,1,97] ++ n ++ [115]
def exSub : Bytes := [0,0,0,8,4,1,97,99]
def exSpoof : Bytes := [0,0,0,10,3,1,98,1,99,7]
def exHistory : List Event :=
  [.connect 1 [1,2,3,4], .connect 2 [5,6,7,8], .data 2 (exAuth [5,6,7,8] ++ exSub),
   .data 1 (exAuth [1,2,3,4]), .data 1 exSpoof]
example : (run exCfg exHistory).accepted.length = 0 ∧
    ((run exCfg exHistory).conn 2).map (fun y => pubFrames y.out) = some [] ∧
    ((run exCfg exHistory).conn 1).map (fun y => (y.closing, y.out.map (·.2) |>.drop 2)) =
      some (true, [.write errFrame, .close]) := by decide +kernel

end Hpfeeds.C03
