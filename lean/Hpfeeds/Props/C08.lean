/-
  C08 — subscription state follows the last (un)subscribe; repeats are idempotent.
-/
import Hpfeeds.Lemmas.BrokerLast
import Hpfeeds.Legacy
namespace Hpfeeds.C08
open Hpfeeds Hpfeeds.Broker Extracted

/-- In every reachable state, for a connection the broker still knows: it holds a subscription to `ch`
    IFF the most recent OP_SUBSCRIBE / OP_UNSUBSCRIBE it had processed for `ch` was a SUBSCRIBE
    (`lastReq` = the processed requests, newest first; per-connection sequences of any length). -/
theorem follows_last_request (cfg : Cfg) (es : List Event) (c : Nat) (x : Conn) (ch : Bytes)
    (hx : (run cfg es).conn c = some x) (hr : x.registered = true) :
    ch ∈ x.active ↔ lastFor x.lastReq ch = some true :=
  last_run cfg es c x hx hr ch

/-- ... and delivery is decided by exactly that: `c` is a recipient of an accepted publish on `ch` iff
    it held the subscription and was open (C01.exactly_entitled), and the registry holds it at most once
    however many SUBSCRIBEs it sent — one copy per message. -/
theorem registry_once (cfg : Cfg) (es : List Event) (ch : Bytes) :
    ((run cfg es).subs ch).Nodup ∧
    ∀ c, c ∈ (run cfg es).subs ch ↔ ∃ x, (run cfg es).conn c = some x ∧ ch ∈ x.active :=
  ⟨(reg_run cfg es).subs_nodup ch, fun c => (reg_run cfg es).sub_iff ch c⟩

/-- A repeated SUBSCRIBE changes nothing in the registry, the gauges or any record except the ghost
    bookkeeping: `Server.subscribe` is a no-op. -/
theorem repeated_subscribe_noop (s : State) (c : Nat) (ch : Bytes) (x : Conn)
    (hx : s.conn c = some x) (hin : ch ∈ x.active) : subscribe s c ch = s :=
  subscribe_noop hx hin

/-- After an UNSUBSCRIBE has been processed the connection is not subscribed, however many SUBSCRIBEs
    preceded it (in any reachable state). -/
theorem after_unsubscribe (cfg : Cfg) (es : List Event) (c : Nat) (ch : Bytes) (x : Conn)
    (hx : (run cfg es).conn c = some x) :
    ∃ y, (doUnsubscribe (run cfg es) c ch).conn c = some y ∧ ch ∉ y.active ∧
      c ∉ (doUnsubscribe (run cfg es) c ch).subs ch := by
  have hr := reg_run cfg es
  have hnd := hr.act_nodup c x hx
  have hc : (doUnsubscribe (run cfg es) c ch).conn c =
      some { x with active := x.active.erase ch, lastReq := (ch, false) :: x.lastReq } := by
    simp [doUnsubscribe, noteUnsub, unsubscribe_conn hx]
  refine ⟨_, hc, ?_, ?_⟩
  · exact fun hm => ((List.Nodup.mem_erase_iff hnd).mp hm).1 rfl
  · have hr' : Reg (doUnsubscribe (run cfg es) c ch) := reg_doUnsubscribe c ch hr
    intro hm
    obtain ⟨y, hy, hm'⟩ := (hr'.sub_iff ch c).mp hm
    rw [hc] at hy; cases hy
    exact ((List.Nodup.mem_erase_iff hnd).mp hm').1 rfl

/-- An UNSUBSCRIBE for a channel that is not subscribed is a harmless no-op: `Server.unsubscribe`
    returns the state unchanged (registry, gauges, every record). -/
theorem unsubscribe_not_subscribed_noop (s : State) (c : Nat) (ch : Bytes) (x : Conn)
    (hx : s.conn c = some x) (hin : ch ∉ x.active) : unsubscribe s c ch = s :=
  unsubscribe_noop hx hin

/-- A later SUBSCRIBE resumes delivery: after it the connection holds the subscription (once). -/
theorem subscribe_resumes (s : State) (c : Nat) (ch : Bytes) (ok : Bool) (x : Conn)
    (hx : s.conn c = some x) :
    ∃ y, (doSubscribe s c ch ok).conn c = some y ∧ ch ∈ y.active := by
  have hc : (doSubscribe s c ch ok).conn c = some { x with
      active := if ch ∈ x.active then x.active else x.active ++ [ch],
      granted := if ok = true ∧ ch ∉ x.granted then x.granted ++ [ch] else x.granted,
      lastReq := (ch, true) :: x.lastReq } := by
    simp [doSubscribe, noteSub, subscribe_conn hx]
  refine ⟨_, hc, ?_⟩
  by_cases hin : ch ∈ x.active <;> simp [hin]

/-! The pinned tree violated this (fix D2): kernel-checked witnesses on the pinned registry. -/
example := @Legacy.d2_still_subscribed

/-! non-vacuity (kernel-evaluated): SUB, SUB, SUB, UNSUB, publish → nothing; SUB → publish delivered once -/
def exRow : Row := ⟨[115], [111], [[99]], [[99]]⟩
def exCfg : Cfg := ⟨[104], .sync (fun i => if i = [97] then some exRow else none), id⟩
def exAuth (n : Bytes) : Bytes := [0,0,0,12,2,1,97] ++ n ++ [115]
def exSub : Bytes := [0,0,0,8,4,1,97,99]
def exUnsub : Bytes := [0,0,0,8,5,1,97,99]
def exPub : Bytes := [0,0,0,10,3,1,97,1,99,7]
def exH : List Event :=
  [.connect 1 [1,2,3,4], .connect 2 [5,6,7,8], .data 2 (exAuth [5,6,7,8]), .data 1 (exAuth [1,2,3,4]),
   .data 1 (exSub ++ exSub ++ exSub ++ exUnsub), .data 2 exPub]
example : ((run exCfg exH).conn 1).map (fun y => (y.active, pubFrames y.out)) = some ([], []) := by
  decide +kernel
example : ((run exCfg (exH ++ [.data 1 (exSub ++ exSub), .data 2 exPub])).conn 1).map
    (fun y => (y.active, pubFrames y.out)) = some ([[99]], [pubFrame [97] [99] [7]]) := by decide +kernel

end Hpfeeds.C08
