/-
  C19 — exported connection and subscription gauges equal reality.
  `cnt s p` = the number of connections ever made whose record satisfies `p` now.  All theorems are for
  every reachable state of every history (any connects, auths, re-auths, redundant (un)subscribes,
  rejected requests, disconnects at any point).
-/
import Hpfeeds.Lemmas.BrokerGauge
import Hpfeeds.Lemmas.BrokerFault
import Hpfeeds.Props.C10
import Hpfeeds.Legacy
namespace Hpfeeds.C19
open Hpfeeds Hpfeeds.Broker Extracted

/-- The connected-clients gauge equals the number of connections the broker has registered … -/
theorem connections_gauge (cfg : Cfg) (es : List Event) : (run cfg es).gConns = cnt (run cfg es) pReg := by
  simpa using (gauge_run cfg es).conns

/-- … and at a quiescent moment (no connection in the window between close and connection_lost)
    "registered" is exactly "open": registered ⇒ not gone, and not registered ⇒ gone. -/
theorem quiescent_registered_iff_open (cfg : Cfg) (es : List Event)
    (hq : ∀ c x, (run cfg es).conn c = some x → x.closing = true → x.gone = true)
    (c : Nat) (x : Conn) (hx : (run cfg es).conn c = some x) :
    x.registered = true ↔ x.gone = false := by
  constructor
  · intro hr
    cases hg : x.gone with
    | false => rfl
    | true => have := ((reg_run cfg es).gone_closed c x hx hg).2; rw [hr] at this; cases this
  · intro hg
    cases hr : x.registered with
    | true => rfl
    | false =>
      have := hq c x hx (uc_run cfg es c x hx hr)
      rw [hg] at this; cases this

/-- Per identity AND channel (no single-authentication assumption is needed after fix D7): the
    subscription gauge equals the number of connections authenticated as that identity that hold a
    subscription to that channel.  In particular no gauge is ever negative. -/
theorem subscription_gauge (cfg : Cfg) (es : List Event) (l : Option Bytes) (ch : Bytes) :
    (run cfg es).gSubs l ch = cnt (run cfg es) (pSub l ch) ∧ 0 ≤ (run cfg es).gSubs l ch := by
  have := (gauge_run cfg es).subs l ch
  refine ⟨this, ?_⟩
  rw [this]; unfold cnt; exact Int.natCast_nonneg _

/-- For each channel the subscription gauges ADD UP to the number of connections currently subscribed
    to it (summed over any duplicate-free list of identity labels covering its subscribers). -/
theorem channel_total (cfg : Cfg) (es : List Event) (ch : Bytes) (L : List (Option Bytes)) (hL : L.Nodup)
    (hcover : ∀ c x, (run cfg es).conn c = some x → ch ∈ x.active → x.ak ∈ L) :
    (L.map (fun l => (run cfg es).gSubs l ch)).sum = cnt (run cfg es) (fun x => decide (ch ∈ x.active)) :=
  gauge_channel_total (gauge_run cfg es) ch L hL hcover

/-- All gauges return to zero once every client has gone (more generally: once the broker has
    unregistered every connection). -/
theorem all_zero_when_gone (cfg : Cfg) (es : List Event)
    (hall : ∀ c x, (run cfg es).conn c = some x → x.registered = false) :
    (run cfg es).gConns = 0 ∧ ∀ l ch, (run cfg es).gSubs l ch = 0 := by
  have hr := reg_run cfg es
  have zero : ∀ p : Conn → Bool, (∀ c x, (run cfg es).conn c = some x → p x = false) →
      cnt (run cfg es) p = 0 := by
    intro p hp
    unfold cnt
    have : (run cfg es).ids.filter (holds (run cfg es) p) = [] := by
      rw [List.filter_eq_nil_iff]
      intro c _
      unfold holds
      cases hx : (run cfg es).conn c with
      | none => simp
      | some x => simp [hp c x hx]
    rw [this]; rfl
  refine ⟨?_, fun l ch => ?_⟩
  · rw [connections_gauge]; exact zero pReg (fun c x hx => by unfold pReg; exact hall c x hx)
  · rw [(subscription_gauge cfg es l ch).1]
    refine zero (pSub l ch) (fun c x hx => ?_)
    have := hr.unreg_empty c x hx (hall c x hx)
    simp [pSub, this]

/-- The connections-made counter counts every connection exactly once, and the connections-lost counter
    (per identity label) counts exactly the connections the broker has unregistered, each once, under
    the label it had at that moment (`lostAs` is set by `connection_lost`, nowhere else). -/
theorem made_and_lost_once (cfg : Cfg) (es : List Event) :
    (run cfg es).cMade = (run cfg es).ids.length ∧ (run cfg es).ids.Nodup ∧
    (∀ l, ((run cfg es).cLost l : Int) = cnt (run cfg es) (pLost l)) ∧
    (∀ c x, (run cfg es).conn c = some x → (x.registered = true ↔ x.lostAs = none)) := by
  have g := gauge_run cfg es
  exact ⟨g.made, (reg_run cfg es).ids_nodup, fun l => by simpa using g.lost l, g.lostAs⟩

/-- A redundant SUBSCRIBE, or an UNSUBSCRIBE of a channel that is not subscribed, moves no gauge. -/
theorem redundant_requests_move_nothing (s : State) (c : Nat) (ch : Bytes) (x : Conn) (hx : s.conn c = some x) :
    (ch ∈ x.active → (subscribe s c ch).gSubs = s.gSubs) ∧
    (ch ∉ x.active → (unsubscribe s c ch).gSubs = s.gSubs) :=
  ⟨fun h => by rw [subscribe_noop hx h], fun h => by rw [unsubscribe_noop hx h]⟩

/-! The pinned tree violated this (fix D2: unconditional decrement; fix D7: re-authentication). -/
example := @Legacy.d2_negative_gauge

/-! non-vacuity (kernel-evaluated): subscribe twice, re-authenticate as another identity, unsubscribe a
    channel never subscribed, disconnect: the gauges moved with the connection and are all zero at the end. -/
def exRowA : Row := ⟨[115], [111], [[99]], [[99]]⟩
def exCfg : Cfg := ⟨[104], .sync (fun i => if i = [97] ∨ i = [98] then some exRowA else none), id⟩
def exAuth (i : UInt8) : Bytes := [0,0,0,12,2,1,i,1,2,3,4,115]
def exH : List Event :=
  [.connect 1 [1,2,3,4], .data 1 (exAuth 97 ++ [0,0,0,8,4,1,97,99] ++ [0,0,0,8,4,1,97,99]),
   .data 1 (exAuth 98)]
example : ((run exCfg exH).gSubs (some [97]) [99], (run exCfg exH).gSubs (some [98]) [99], (run exCfg exH).gConns) =
    (0, 1, 1) := by decide +kernel
example : ((run exCfg (exH ++ [.data 1 [0,0,0,8,5,1,98,122], .lost 1])).gSubs (some [97]) [99],
    (run exCfg (exH ++ [.data 1 [0,0,0,8,5,1,98,122], .lost 1])).gSubs (some [98]) [99],
    (run exCfg (exH ++ [.data 1 [0,0,0,8,5,1,98,122], .lost 1])).gConns,
    (run exCfg (exH ++ [.data 1 [0,0,0,8,5,1,98,122], .lost 1])).cLost (some [98])) = (0, 0, 0, 1) := by
  decide +kernel

/-! ### … also when subscribers' transports refuse writes (Model/BrokerFault.lean)

A refused write makes the broker close that transport; closing moves no gauge (the counts move at `connection_lost`, as
everywhere else).  So the three equalities hold after EVERY history with write faults — any fault set and any store
contents per event. -/

theorem gauges_under_write_faults (cfg : Cfg) (es : List (Store × List Nat × Event)) (l : Option Bytes) (ch : Bytes) :
    (runF cfg es).gConns = cnt (runF cfg es) pReg ∧
    ((runF cfg es).gSubs l ch = cnt (runF cfg es) (pSub l ch) ∧ 0 ≤ (runF cfg es).gSubs l ch) ∧
    (runF cfg es).cMade = (runF cfg es).ids.length ∧
    ((runF cfg es).cLost l : Int) = cnt (runF cfg es) (pLost l) := by
  have g := gauge_runF cfg es
  refine ⟨by simpa using g.conns, ⟨g.subs l ch, ?_⟩, g.made, by simpa using g.lost l⟩
  rw [g.subs l ch]; unfold cnt; exact Int.natCast_nonneg _

theorem channel_total_under_write_faults (cfg : Cfg) (es : List (Store × List Nat × Event)) (ch : Bytes)
    (L : List (Option Bytes)) (hL : L.Nodup)
    (hcover : ∀ c x, (runF cfg es).conn c = some x → ch ∈ x.active → x.ak ∈ L) :
    (L.map (fun l => (runF cfg es).gSubs l ch)).sum = cnt (runF cfg es) (fun x => decide (ch ∈ x.active)) :=
  gauge_channel_total (gauge_runF cfg es) ch L hL hcover

/-! non-vacuity (kernel-evaluated) on C10's faulty history: two connections registered and subscribed to "c" as "a"; the
    transport of connection 2 refuses the publish and is closed by the broker - still registered until its loss arrives,
    so both gauges read 2, as the theorem says -/
example : (runF C01.exCfg C10.exFaulty).gConns = 2 ∧ (runF C01.exCfg C10.exFaulty).gSubs (some [97]) [99] = 2 ∧
    (runF C01.exCfg C10.exFaulty).cMade = 2 := by decide +kernel

end Hpfeeds.C19
