/-
  C16 — the asyncio, blocking and Twisted protocol classes interpret a stream identically.
-/
import Hpfeeds.Model.Proto3
import Hpfeeds.Lemmas.Wire
namespace Hpfeeds.C16
open Hpfeeds Hpfeeds.Proto3 Extracted

/-- behind the stream decoder every frame has one of the six opcodes, for which a reader exists: the
    three classes' unknown-opcode branches (the only place where they differ) are unreachable -/
theorem read_some_of_header {buf : Bytes} {ml : Nat} {op : UInt8} (h : header buf = .ok ml op) :
    read (popFrame buf ml op).1 ≠ none := by
  have hwf := (header_ok_spec h).1
  obtain ⟨_, h1, _⟩ := hwf
  intro hr
  unfold read at hr
  have hop : (popFrame buf ml op).1.op.toNat ≤ OP_UNSUBSCRIBE := h1
  simp only [OP_UNSUBSCRIBE] at hop
  split at hr; · cases hr
  split at hr; · cases hr
  split at hr; · cases hr
  split at hr; · cases hr
  split at hr; · cases hr
  split at hr; · cases hr
  rename_i h0 h1' h2 h3 h4 h5
  simp only [OP_ERROR, OP_INFO, OP_AUTH, OP_PUBLISH, OP_SUBSCRIBE, OP_UNSUBSCRIBE] at h0 h1' h2 h3 h4 h5
  omega

theorem aioMsg_eq_blkMsg (cfg : PCfg) (f : Frame) (h : read f ≠ none) : aioMsg cfg f = blkMsg cfg f := by
  unfold aioMsg blkMsg
  cases hr : read f with
  | none => exact absurd hr h
  | some r =>
    cases r with
    | error c => rfl
    | ok m => cases m <;> rfl

theorem blkMsg_eq_twMsg (cfg : PCfg) (f : Frame) : blkMsg cfg f = twMsg cfg f := rfl

theorem msg_ctl (cfg : PCfg) (f : Frame) (h : read f ≠ none) :
    (blkMsg cfg f).2 = .cont ∨ (blkMsg cfg f).2 = .crash := by
  unfold blkMsg
  cases hr : read f with
  | none => exact absurd hr h
  | some r =>
    cases r with
    | error c => right; rfl
    | ok m => left; cases m <;> rfl

/-- For EVERY byte buffer the three classes' loops produce the same observations and leave the same
    bytes buffered. -/
theorem loops_equal (cfg : PCfg) (buf : Bytes) :
    aioLoop cfg buf = blkLoop cfg buf ∧ blkLoop cfg buf = twLoop cfg buf := by
  induction hn : buf.length using Nat.strongRecOn generalizing buf with
  | _ n ih =>
    rw [aioLoop, blkLoop, twLoop]
    split
    · exact ⟨rfl, rfl⟩
    · exact ⟨rfl, rfl⟩
    · rename_i ml op hh
      have hk := header_ok hh
      have hrd := read_some_of_header hh
      have e1 := aioMsg_eq_blkMsg cfg (popFrame buf ml op).1 hrd
      have e2 := blkMsg_eq_twMsg cfg (popFrame buf ml op).1
      have hrec := ih _ (by rw [← hn]; simp only [popFrame, List.length_drop]; omega) (popFrame buf ml op).2 rfl
      simp only [e1, ← e2]
      rcases msg_ctl cfg (popFrame buf ml op).1 hrd with hc | hc
      · simp only [hc]; rw [hrec.1, ← hrec.2]; constructor <;> first | rfl | trivial
      · simp only [hc]; constructor <;> first | rfl | trivial

/-- Given the same inbound bytes in the same chunks — ANY bytes, ANY chunking — the three classes
    invoke the same handler sequence with the same arguments, send the same reply bytes and drop the
    connection on exactly the same inputs, chunk by chunk. -/
theorem proto3_equiv (cfg : PCfg) (buf : Bytes) (chunks : List Bytes) :
    feeds (aioLoop cfg) buf chunks = feeds (blkLoop cfg) buf chunks ∧
    feeds (blkLoop cfg) buf chunks = feeds (twLoop cfg) buf chunks := by
  induction chunks generalizing buf with
  | nil => exact ⟨rfl, rfl⟩
  | cons c cs ih =>
    simp only [feeds]
    obtain ⟨e1, e2⟩ := loops_equal cfg (buf ++ c)
    rw [e1, ← e2]
    exact ⟨by rw [(ih _).1], by rw [(ih _).2]⟩

/-- The connection is dropped exactly on: an illegal header (unknown opcode, illegal length) and the
    broker-only opcodes AUTH, SUBSCRIBE, UNSUBSCRIBE; never on ERROR, INFO or PUBLISH. -/
theorem drops_exactly (cfg : PCfg) (f : Frame) (m : Msg) (h : read f = some (.ok m)) :
    (Obs.drop ∈ (blkMsg cfg f).1) ↔
      (∃ i d, m = .auth i d) ∨ (∃ i c, m = .subscribe i c) ∨ (∃ i c, m = .unsubscribe i c) := by
  unfold blkMsg
  rw [h]
  cases m <;> simp

/-- The reply to OP_INFO is the OP_AUTH computed from that INFO's nonce and the client's own ident and
    secret, in all three classes. -/
theorem info_reply (cfg : PCfg) (f : Frame) (n r : Bytes) (h : read f = some (.ok (.info n r))) :
    (aioMsg cfg f).1 = [.onInfo n r, .wrote (authBytes cfg r), .ready] ∧
    (blkMsg cfg f).1 = [.onInfo n r, .wrote (authBytes cfg r), .ready] ∧
    (twMsg cfg f).1 = [.onInfo n r, .wrote (authBytes cfg r), .ready] := by
  unfold aioMsg blkMsg twMsg; rw [h]; exact ⟨rfl, rfl, rfl⟩

end Hpfeeds.C16
