/-
  C16 — the asyncio, blocking and Twisted protocol classes interpret a stream identically.
-/
import Hpfeeds.Model.Proto3
import Hpfeeds.Lemmas.Wire
import Hpfeeds.Lemmas.BrokerPres
namespace Hpfeeds.C16
open Hpfeeds Hpfeeds.Proto3 Extracted

/-- behind the stream decoder every frame has one of the six opcodes, for which a reader exists: the
    three classes' unknown-opcode branches (the only place where they differ) are unreachable -/
theorem read_some_of_header {buf : Bytes} {ml : Nat} {op : UInt8} (h : header buf = .ok ml op) :
    read (popFrame buf ml op).1 ≠ none := by
  have hwf := (header_ok_spec h).1
  obtain ⟨_, h1, _⟩ := hwf
  intro hr
  unfold read at hr
  have hop : (popFrame buf ml op).1.op.toNat ≤ OP_UNSUBSCRIBE := h1
  simp only [OP_UNSUBSCRIBE] at hop
  split at hr; · cases hr
  split at hr; · cases hr
  split at hr; · cases hr
  split at hr; · cases hr
  split at hr; · cases hr
  split at hr; · cases hr
  rename_i h0 h1' h2 h3 h4 h5
  simp only [OP_ERROR, OP_INFO, OP_AUTH, OP_PUBLISH, OP_SUBSCRIBE, OP_UNSUBSCRIBE] at h0 h1' h2 h3 h4 h5
  omega

theorem aioMsg_eq_blkMsg (cfg : PCfg) (f : Frame) (h : read f ≠ none) : aioMsg cfg f = blkMsg cfg f := by
  unfold aioMsg blkMsg
  cases hr : read f with
  | none => exact absurd hr h
  | some r =>
    cases r with
    | error c => rfl
    | ok m => cases m <;> rfl

theorem blkMsg_eq_twMsg (cfg : PCfg) (f : Frame) : blkMsg cfg f = twMsg cfg f := rfl

theorem msg_ctl (cfg : PCfg) (f : Frame) (h : read f ≠ none) :
    (blkMsg cfg f).2 = .cont ∨ (blkMsg cfg f).2 = .crash := by
  unfold blkMsg
  cases hr : read f with
  | none => exact absurd hr h
  | some r =>
    cases r with
    | error c => right; rfl
    | ok m => left; cases m <;> rfl

/-- For EVERY byte buffer the three classes' loops produce the same observations and leave the same
    bytes buffered. -/
theorem loops_equal (cfg : PCfg) (buf : Bytes) :
    aioLoop cfg buf = blkLoop cfg buf ∧ blkLoop cfg buf = twLoop cfg buf := by
  induction hn : buf.length using Nat.strongRecOn generalizing buf with
  | _ n ih =>
    rw [aioLoop, blkLoop, twLoop]
    split
    · exact ⟨rfl, rfl⟩
    · exact ⟨rfl, rfl⟩
    · rename_i ml op hh
      have hk := header_ok hh
      have hrd := read_some_of_header hh
      have e1 := aioMsg_eq_blkMsg cfg (popFrame buf ml op).1 hrd
      have e2 := blkMsg_eq_twMsg cfg (popFrame buf ml op).1
      have hrec := ih _ (by rw [← hn]; simp only [popFrame, List.length_drop]; omega) (popFrame buf ml op).2 rfl
      simp only [e1, ← e2]
      rcases msg_ctl cfg (popFrame buf ml op).1 hrd with hc | hc
      · simp only [hc]; rw [hrec.1, ← hrec.2]; constructor <;> first | rfl | trivial
      · simp only [hc]; constructor <;> first | rfl | trivial

/-- Given the same inbound bytes in the same chunks — ANY bytes, ANY chunking — the three classes
    invoke the same handler sequence with the same arguments, send the same reply bytes and drop the
    connection on exactly the same inputs, chunk by chunk. -/
theorem proto3_equiv (cfg : PCfg) (buf : Bytes) (chunks : List Bytes) :
    feeds (aioLoop cfg) buf chunks = feeds (blkLoop cfg) buf chunks ∧
    feeds (blkLoop cfg) buf chunks = feeds (twLoop cfg) buf chunks := by
  induction chunks generalizing buf with
  | nil => exact ⟨rfl, rfl⟩
  | cons c cs ih =>
    simp only [feeds]
    obtain ⟨e1, e2⟩ := loops_equal cfg (buf ++ c)
    rw [e1, ← e2]
    exact ⟨by rw [(ih _).1], by rw [(ih _).2]⟩

/-- The connection is dropped exactly on: an illegal header (unknown opcode, illegal length) and the
    broker-only opcodes AUTH, SUBSCRIBE, UNSUBSCRIBE; never on ERROR, INFO or PUBLISH. -/
theorem drops_exactly (cfg : PCfg) (f : Frame) (m : Msg) (h : read f = some (.ok m)) :
    (Obs.drop ∈ (blkMsg cfg f).1) ↔
      (∃ i d, m = .auth i d) ∨ (∃ i c, m = .subscribe i c) ∨ (∃ i c, m = .unsubscribe i c) := by
  unfold blkMsg
  rw [h]
  cases m <;> simp

/-- The reply to OP_INFO is the OP_AUTH computed from that INFO's nonce and the client's own ident and
    secret, in all three classes. -/
theorem info_reply (cfg : PCfg) (f : Frame) (n r : Bytes) (h : read f = some (.ok (.info n r))) :
    (aioMsg cfg f).1 = [.onInfo n r, .wrote (authBytes cfg r), .ready] ∧
    (blkMsg cfg f).1 = [.onInfo n r, .wrote (authBytes cfg r), .ready] ∧
    (twMsg cfg f).1 = [.onInfo n r, .wrote (authBytes cfg r), .ready] := by
  unfold aioMsg blkMsg twMsg; rw [h]; exact ⟨rfl, rfl, rfl⟩

/-! ### the dispatch tables, regenerated from the source on every run

`Extracted.DISPATCH_AIO / _BLK / _TW` are read off the if/elif chains of `BaseProtocol.message_received` (asyncio,
blocking) and `messageReceived` (Twisted) by `harness/extract.py`: opcode, field reader, handler (canonical name), and
whether the reader's result is splatted.  The three models dispatch on the constructor `read` returns; `modelRow` names,
per constructor, the reader and the handler the models stand for, and `read_op` says the constructor is chosen by the
opcode.  So the obligation below ties the three source tables to one another AND to the model; a reader swapped or a
handler renamed in one class makes it fail while the correspondence run looks for the stream on which the classes differ. -/

def modelRow : Msg → Nat × String × String × Nat
  | .error _ => (OP_ERROR, "readerror", "onerror", 0)
  | .info _ _ => (OP_INFO, "readinfo", "oninfo", 1)
  | .auth _ _ => (OP_AUTH, "readauth", "onauth", 1)
  | .publish _ _ _ => (OP_PUBLISH, "readpublish", "onpublish", 1)
  | .subscribe _ _ => (OP_SUBSCRIBE, "readsubscribe", "onsubscribe", 1)
  | .unsubscribe _ _ => (OP_UNSUBSCRIBE, "readunsubscribe", "onunsubscribe", 1)

def modelDispatch : List (Nat × String × String × Nat) :=
  [Msg.error [], .info [] [], .auth [] [], .publish [] [] [], .subscribe [] [], .unsubscribe [] []].map modelRow

/-- the model picks the row by the frame's opcode -/
theorem model_dispatches_by_opcode {f : Frame} {m : Msg} (h : read f = some (.ok m)) : (modelRow m).1 = f.op.toNat := by
  rw [Broker.read_op h]; cases m <;> rfl

/-- the three classes' dispatch tables, as they are in the source NOW, are one table, and it is the model's … -/
def routing (t : List (Nat × String × String × Nat)) : List (Nat × String × Nat) := t.map fun r => (r.1, r.2.2.1, r.2.2.2)

/-- … compared on what is behaviour: which handler an opcode is routed to and whether the fields are splatted.  (The
    NAME of the reader function is internal - `readsubscribe` and `readunsubscribe` are the same function under two
    names - and is kept in the generated table for the reader of the evidence only.) -/
theorem dispatch_tables_are_the_models :
    routing DISPATCH_AIO = routing modelDispatch ∧ routing DISPATCH_BLK = routing modelDispatch ∧
    routing DISPATCH_TW = routing modelDispatch := by decide

end Hpfeeds.C16
