/-
  C15 — slow consumers are dropped after the grace period, recovered ones are not.
  Virtual time in milliseconds.  `pause c` / `resume c` are asyncio's pause_writing / resume_writing
  (that asyncio calls them when the outgoing buffer crosses the high- and low-water marks is library
  behaviour, exercised by the check's real-socket run, not proved).  `fire c` is the deadline timer's
  callback; the event-loop contract (`Valid`) says a due timer fires before the clock moves on.
-/
import Hpfeeds.Lemmas.BrokerTime
import Hpfeeds.Lemmas.BrokerStep
namespace Hpfeeds.C15
open Hpfeeds Hpfeeds.Broker Extracted

/-- Every stall episode gets a full new grace period, whatever happened before. -/
theorem fresh_grace (cfg : Cfg) (s : State) (c : Nat) (x : Conn) (hx : s.conn c = some x) :
    ∃ y, (step cfg s (.pause c)).conn c = some y ∧ y.deadline = some (s.now + gracePeriodMs) ∧
      y.closing = x.closing := by
  have h : (step cfg s (.pause c)).conn c = some { x with
      deadline := some (s.now + gracePeriodMs), out := x.out ++ [(s.now, .pausedW)] } := by
    simp [step, armDeadline, logAct, hx, State.upd]
  exact ⟨_, h, rfl, rfl⟩

/-- If the buffer drains, the deadline is disarmed and nothing else happens to the connection. -/
theorem recovered_not_dropped (cfg : Cfg) (s : State) (c : Nat) (x : Conn) (hx : s.conn c = some x) :
    ∃ y, (step cfg s (.resume c)).conn c = some y ∧ y.deadline = none ∧ y.closing = x.closing := by
  simp only [step, hx]
  by_cases hd : x.deadline.isSome = true
  · rw [if_pos hd]
    have h : (clearDeadline s c .resumedW).conn c = some { x with
        deadline := none, out := x.out ++ [(s.now, .resumedW)] } := by
      simp [clearDeadline, logAct, hx, State.upd]
    exact ⟨_, h, rfl, rfl⟩
  · rw [if_neg hd]
    refine ⟨x, hx, ?_, rfl⟩
    cases h : x.deadline with
    | none => rfl
    | some t => rw [h] at hd; simp at hd

/-- The timer callback drops the connection — OP_ERROR, then close, stamped with the current time — and
    only if the deadline is armed and due; otherwise it does nothing at all. -/
theorem fire_iff_due (cfg : Cfg) (s : State) (c : Nat) (x : Conn) (hx : s.conn c = some x) :
    (∀ t, x.deadline = some t → t ≤ s.now →
      step cfg s (.fire c) = errorClose (clearDeadline s c .deadlineFired) c) ∧
    ((x.deadline = none ∨ ∃ t, x.deadline = some t ∧ s.now < t) → step cfg s (.fire c) = s) := by
  constructor
  · intro t ht hle
    simp [step, hx, ht, hle]
  · rintro (h | ⟨t, ht, hlt⟩)
    · simp [step, hx, h]
    · have : ¬ t ≤ s.now := by omega
      simp [step, hx, ht, this]

/-- In every history: an armed deadline is exactly "the time of the last pause_writing that has not been
    followed by a resume_writing or an expiry" plus 60 s (the action log carries ghost marks for those
    three events) — so a drop can only ever be the consequence of a stall that lasted since then. -/
theorem deadline_is_last_stall (cfg : Cfg) (es : List Event) (c : Nat) (x : Conn)
    (hx : (run cfg es).conn c = some x) :
    x.deadline = (armedSince x.out).map (· + gracePeriodMs) :=
  dl_run cfg es c x hx

/-- Not earlier, and not later: under the event-loop contract, in every valid history, an armed deadline
    `t` satisfies `now ≤ t` — the clock cannot pass a stalled connection's deadline while it is still
    armed (it is disarmed only by a resume or by the drop itself); and when the timer fires (`t ≤ now`)
    it is therefore exactly `now = t`. -/
theorem dropped_exactly_at_deadline (cfg : Cfg) (es : List Event) (hv : Valid cfg es) (c : Nat) (x : Conn) (t : Nat)
    (hx : (run cfg es).conn c = some x) (ht : x.deadline = some t) :
    (run cfg es).now ≤ t ∧
    (okEvent cfg (run cfg es) (.fire c) = true → (run cfg es).now = t ∧
      step cfg (run cfg es) (.fire c) = errorClose (clearDeadline (run cfg es) c .deadlineFired) c) := by
  have h1 := noOverrun_run cfg es hv c x t hx ht
  refine ⟨h1, fun hok => ?_⟩
  simp only [okEvent, hx, ht, decide_eq_true_eq] at hok
  exact ⟨Nat.le_antisymm h1 hok, (fire_iff_due cfg (run cfg es) c x hx).1 t ht hok⟩

/-- While a deadline is due nothing else can happen first (the contract again): every other event is
    refused until the timer has fired, so the drop is not delayed by other traffic. -/
theorem due_timer_fires_first (cfg : Cfg) (s : State) (c : Nat) (x : Conn) (t : Nat) (e : Event)
    (hc : c ∈ s.ids) (hx : s.conn c = some x) (ht : x.deadline = some t) (hdue : t ≤ s.now)
    (hok : okEvent cfg s e = true) : (∃ d, e = .fire d) ∨ (∃ ms, e = .advance ms ∧ ms = 0 ∧ t = s.now) := by
  have hnd : noDue s = false := by
    unfold noDue
    rw [List.all_eq_false]
    refine ⟨c, hc, ?_⟩
    rw [hx]; simp only [ht]
    simp; omega
  cases e with
  | fire d => exact Or.inl ⟨d, rfl⟩
  | advance ms =>
    right
    simp only [okEvent, List.all_eq_true] at hok
    have := hok c hc
    rw [hx] at this
    simp only [ht, decide_eq_true_eq] at this
    exact ⟨ms, rfl, by omega, by omega⟩
  | connect c' n => simp [okEvent, hnd] at hok
  | data c' b => simp [okEvent, hnd] at hok
  | eof c' => simp [okEvent, hnd] at hok
  | lost c' => simp [okEvent, hnd] at hok
  | lookupDone c' i r => simp [okEvent, hnd] at hok
  | pause c' => simp [okEvent, hnd] at hok
  | resume c' => simp [okEvent, hnd] at hok

/-- Other subscribers keep receiving throughout: the stall / drop of `c` is an event about `c` only
    (C10.untouched_by_others), and C01's delivery theorems hold for all histories.  On a successful AUTH
    the broker sets the high-water mark to 50 maximal PUBLISH frames. -/
theorem high_water_mark : limit OP_PUBLISH * highWaterFactor = (5 + MAXBUF) * 50 := by decide

/-- the grace period the model uses is the literal of `pause_writing`'s deadline task, regenerated from the source on
    every run (`Extracted.GRACE_MS`); the property fixes it at 60 seconds -/
theorem grace_is_sixty_seconds : gracePeriodMs = 60000 := by decide

/-! non-vacuity (kernel-evaluated): stall at t=0; at 59 999 ms still connected; the clock reaches 60 000,
    the timer fires: ERROR + close stamped 60 000; a recovered connection is not dropped and a later
    episode counts from its own start. -/
def exCfg : Cfg := ⟨[104], .async, id⟩
example : Valid exCfg [.connect 1 [1,2,3,4], .pause 1, .advance 59999] ∧
    ((run exCfg [.connect 1 [1,2,3,4], .pause 1, .advance 59999]).conn 1).map (·.closing) = some false := by
  decide +kernel
example : Valid exCfg [.connect 1 [1,2,3,4], .pause 1, .advance 60000, .fire 1] ∧
    ((run exCfg [.connect 1 [1,2,3,4], .pause 1, .advance 60000, .fire 1]).conn 1).map
      (fun y => (y.closing, y.out.drop 2)) =
      some (true, [(60000, .deadlineFired), (60000, .write errFrame), (60000, .close)]) := by decide +kernel
example : ¬ Valid exCfg [.connect 1 [1,2,3,4], .pause 1, .advance 60001] := by decide +kernel
example : Valid exCfg [.connect 1 [1,2,3,4], .pause 1, .advance 50000, .resume 1, .advance 50000, .pause 1, .advance 59999] ∧
    ((run exCfg [.connect 1 [1,2,3,4], .pause 1, .advance 50000, .resume 1, .advance 50000, .pause 1,
        .advance 59999]).conn 1).map (fun y => (y.closing, y.deadline)) = some (false, some 160000) := by
  decide +kernel

end Hpfeeds.C15
