/-
  C17 — credential stores return exactly what was configured, for exactly those idents.
  The proof part is deliberately thin (the stores are table look-ups); the claim about hostile strings
  reaching the real sqlite / json / os.environ engines is carried by the correspondence run, which builds
  the REAL stores from generated tables (DESIGN.md section 7).  `up` is Python's `str.upper` on the UTF-8
  bytes — an arbitrary function here.
-/
import Hpfeeds.Model.Stores
import Hpfeeds.Lemmas.StoresEnv
import Hpfeeds.Legacy
namespace Hpfeeds.C17
open Hpfeeds Hpfeeds.Stores

/-- memory / JSON / SQLite: a configured identity gets exactly its record — for ARBITRARY ident strings
    (quotes, SQL, separators, path characters, NUL: the look-up key is compared as a whole string) -/
theorem table_configured (t : Table) (i : Bytes) (r : Rec) (hnd : (t.map (·.1)).Nodup) (h : (i, r) ∈ t) :
    tableLookup t i = some r := by
  induction t with
  | nil => cases h
  | cons e t ih =>
    obtain ⟨he, hnd'⟩ := List.nodup_cons.mp hnd
    simp only [tableLookup, List.find?_cons]
    by_cases hei : e.1 = i
    · simp only [hei, decide_true, Option.map_some]
      rcases List.mem_cons.mp h with h1 | h1
      · rw [← h1]
      · exfalso; apply he; show e.1 ∈ _; rw [hei]; exact List.mem_map.mpr ⟨(i, r), h1, rfl⟩
    · simp only [hei, decide_false]
      rcases List.mem_cons.mp h with h1 | h1
      · exfalso; apply hei; rw [← h1]
      · exact ih hnd' h1

/-- … and nothing for any other string -/
theorem table_unknown (t : Table) (i : Bytes) (h : i ∉ t.map (·.1)) : tableLookup t i = none := by
  induction t with
  | nil => rfl
  | cons e t ih =>
    simp only [List.map_cons, List.mem_cons, not_or] at h
    simp only [tableLookup, List.find?_cons]
    have : ¬ e.1 = i := fun h' => h.1 h'.symm
    simp only [this, decide_false]
    exact ih h.2

/-- splitting at the LAST underscore: an attribute name contains no underscore -/
theorem append_underscore_inj (a1 a2 x1 x2 : Bytes) (h1 : underscore ∉ x1) (h2 : underscore ∉ x2)
    (h : a1 ++ underscore :: x1 = a2 ++ underscore :: x2) : a1 = a2 ∧ x1 = x2 := by
  induction a1 generalizing a2 with
  | nil =>
    cases a2 with
    | nil => simp at h; exact ⟨rfl, h⟩
    | cons b a2 =>
      simp only [List.nil_append, List.cons_append, List.cons.injEq] at h
      exfalso; apply h1; rw [h.2]; simp
  | cons b a1 ih =>
    cases a2 with
    | nil =>
      simp only [List.nil_append, List.cons_append, List.cons.injEq] at h
      exfalso; apply h2; rw [← h.2]; simp
    | cons b' a2 =>
      simp only [List.cons_append, List.cons.injEq] at h
      obtain ⟨e1, e2⟩ := ih a2 h.2
      exact ⟨by rw [h.1, e1], e2⟩

def IsAttr (a : Bytes) : Prop := a = SECRET ∨ a = OWNER ∨ a = SUBCHANS ∨ a = PUBCHANS

theorem attr_no_underscore {a : Bytes} (h : IsAttr a) : underscore ∉ a := by
  rcases h with rfl | rfl | rfl | rfl <;> decide

/-- the environment variable names of two (identity, attribute) pairs coincide only if the identities
    agree after upper-casing and the attributes are the same: one identity's variables can never be
    read as another's, whatever characters (underscores included) the identities contain -/
theorem env_key_injective (up : Bytes → Bytes) (i1 i2 a1 a2 : Bytes) (h1 : IsAttr a1) (h2 : IsAttr a2)
    (h : envKey up i1 a1 = envKey up i2 a2) : up i1 = up i2 ∧ a1 = a2 := by
  unfold envKey at h
  have h' := List.append_cancel_left h
  simp only [List.cons.injEq, true_and] at h'
  exact append_underscore_inj _ _ _ _ (attr_no_underscore h1) (attr_no_underscore h2) h'

/-- the environment store answers only when the SECRET variable of that (upper-cased) identity is set
    and non-empty, and then returns exactly the values of that identity's four variables -/
theorem env_lookup_spec (up : Bytes → Bytes) (env : Bytes → Option Bytes) (i : Bytes) :
    (envLookup up env i = none ↔ (env (envKey up i SECRET) = none ∨ env (envKey up i SECRET) = some [])) ∧
    (∀ r, envLookup up env i = some r →
      env (envKey up i SECRET) = some r.secret ∧
      r.owner = (env (envKey up i OWNER)).getD i ∧
      r.subchans = splitComma ((env (envKey up i SUBCHANS)).getD []) ∧
      r.pubchans = splitComma ((env (envKey up i PUBCHANS)).getD [])) := by
  unfold envLookup
  cases hs : env (envKey up i SECRET) with
  | none => simp
  | some sec =>
    cases sec with
    | nil => simp
    | cons b sec =>
      simp only [reduceCtorEq, or_self, iff_false, Option.some.injEq, false_or]
      refine ⟨by simp, fun r hr => ?_⟩
      rw [← hr]; exact ⟨rfl, rfl, rfl, rfl⟩

/-- the environment store matches identities case-insensitively BY CONSTRUCTION: two look-up strings with
    the same upper-casing read the same variables -/
theorem env_case_insensitive (up : Bytes → Bytes) (env : Bytes → Option Bytes) (i j : Bytes) (h : up i = up j) :
    (envLookup up env i).map (fun r => (r.secret, r.subchans, r.pubchans)) =
    (envLookup up env j).map (fun r => (r.secret, r.subchans, r.pubchans)) := by
  unfold envLookup envKey
  rw [h]
  cases env (prefixHp ++ underscore :: (up j ++ underscore :: SECRET)) with
  | none => rfl
  | some sec => cases sec <;> rfl

/-- an identity configured without channels is granted no channel at all (fix D3: `''.split(',')` is
    `['']`, which granted the channel named '') -/
theorem no_channels_no_grant (up : Bytes → Bytes) (env : Bytes → Option Bytes) (i ch : Bytes)
    (hp : env (envKey up i PUBCHANS) = none ∨ env (envKey up i PUBCHANS) = some [])
    (hs : env (envKey up i SUBCHANS) = none ∨ env (envKey up i SUBCHANS) = some []) :
    mayPublish (envLookup up env i) ch = false ∧ maySubscribe (envLookup up env i) ch = false := by
  have e : splitComma [] = [] := by decide
  unfold envLookup
  cases env (envKey up i SECRET) with
  | none => exact ⟨rfl, rfl⟩
  | some sec =>
    cases sec with
    | nil => exact ⟨rfl, rfl⟩
    | cons b sec =>
      simp only [mayPublish, maySubscribe]
      rcases hp with hp | hp <;> rcases hs with hs | hs <;> simp [hp, hs, e]

/-- **the environment store, end to end.**  Write a user table into an environment the way an operator does
    (`envOf`: HPFEEDS_<IDENT>_SECRET / _OWNER / _SUBCHANS / _PUBCHANS, channel lists joined with commas) — with
    identities distinct after upper-casing, non-empty secrets, and channel names that are non-empty and contain
    no comma — and EVERY look-up string that upper-cases like a configured identity gets back exactly that
    identity's record: secret, owner, and both channel lists, element for element and in order (whatever else
    the identities, secrets and names contain: quotes, underscores, `=`-free hostile text, other identities'
    names as prefixes or suffixes) -/
theorem env_configured (up : Bytes → Bytes) (t : Table) (i j : Bytes) (r : Rec)
    (hnd : (t.map (fun e => up e.1)).Nodup) (h : (i, r) ∈ t) (hj : up j = up i)
    (hsec : r.secret ≠ [])
    (hsub : ∀ c ∈ r.subchans, c ≠ [] ∧ (44 : UInt8) ∉ c) (hpub : ∀ c ∈ r.pubchans, c ≠ [] ∧ (44 : UInt8) ∉ c) :
    envLookup up (envOf up t) j = some r := by
  have aS : IsAttr' SECRET := Or.inl rfl
  have aO : IsAttr' OWNER := Or.inr (Or.inl rfl)
  have aU : IsAttr' SUBCHANS := Or.inr (Or.inr (Or.inl rfl))
  have aP : IsAttr' PUBCHANS := Or.inr (Or.inr (Or.inr rfl))
  unfold envLookup
  rw [envOf_hit up t i j r SECRET aS hnd h hj, envOf_hit up t i j r OWNER aO hnd h hj,
    envOf_hit up t i j r SUBCHANS aU hnd h hj, envOf_hit up t i j r PUBCHANS aP hnd h hj]
  have v1 : valOf r SECRET = r.secret := by simp [valOf]
  have v2 : valOf r OWNER = r.owner := by simp [valOf, show OWNER ≠ SECRET by decide]
  have v3 : valOf r SUBCHANS = joinComma r.subchans := by
    simp [valOf, show SUBCHANS ≠ SECRET by decide, show SUBCHANS ≠ OWNER by decide]
  have v4 : valOf r PUBCHANS = joinComma r.pubchans := by
    simp [valOf, show PUBCHANS ≠ SECRET by decide, show PUBCHANS ≠ OWNER by decide, show PUBCHANS ≠ SUBCHANS by decide]
  rw [v1, v2, v3, v4]
  cases hs : r.secret with
  | nil => exact absurd hs hsec
  | cons b sec =>
    simp only [Option.getD_some, split_join _ hsub, split_join _ hpub]
    cases r; simp_all

/-- … and a look-up string that upper-cases like NO configured identity gets nothing -/
theorem env_unknown (up : Bytes → Bytes) (t : Table) (j : Bytes) (h : up j ∉ t.map (fun e => up e.1)) :
    envLookup up (envOf up t) j = none := by
  unfold envLookup
  rw [envOf_miss up t j SECRET (Or.inl rfl) h]

/-- the split never yields an empty channel name -/
theorem split_no_empty (s : Bytes) : ([] : Bytes) ∉ splitComma s := by
  unfold splitComma; simp

/-- the stacked store answers with the first member that knows the identity -/
theorem multi_first (pre : List (Bytes → Option Rec)) (st : Bytes → Option Rec) (post : List (Bytes → Option Rec))
    (i : Bytes) (r : Rec) (hpre : ∀ s ∈ pre, s i = none) (h : st i = some r) :
    multiLookup (pre ++ st :: post) i = some r := by
  unfold multiLookup
  rw [List.findSome?_append]
  have : pre.findSome? (· i) = none := by
    rw [List.findSome?_eq_none_iff]; exact hpre
  simp [this, h]

theorem multi_unknown (stores : List (Bytes → Option Rec)) (i : Bytes) (h : ∀ s ∈ stores, s i = none) :
    multiLookup stores i = none := by
  unfold multiLookup; rw [List.findSome?_eq_none_iff]; exact h

/-! non-vacuity -/
example : tableLookup [([39, 59], ⟨[1], [2], [], []⟩), ([97], ⟨[3], [4], [[99]], []⟩)] [39, 59] = some ⟨[1], [2], [], []⟩ := by
  decide
example : tableLookup [([97], ⟨[3], [4], [[99]], []⟩)] [97, 0] = none := by decide
example : splitComma [97, 44, 44, 98] = [[97], [98]] := by decide
example : envKey id [88, 95, 79, 87, 78, 69, 82] SECRET ≠ envKey id [88] OWNER := by decide
/-- `env_configured` is not vacuous: identities `a_b` and `a` (one a prefix of the other, with an underscore),
    two channels -/
example : envLookup id (envOf id [([97, 95, 98], ⟨[1], [2], [[99], [100, 101]], []⟩), ([97], ⟨[3], [4], [], [[102]]⟩)]) [97, 95, 98]
    = some ⟨[1], [2], [[99], [100, 101]], []⟩ := by decide

end Hpfeeds.C17
