/-
  C04 — a connection only ever receives channels its identity may subscribe to.
-/
import Hpfeeds.Lemmas.BrokerStep
namespace Hpfeeds.C04
open Hpfeeds Hpfeeds.Broker Extracted

/-- In every reachable state an active subscription was granted by the ACL (`granted` = channels for
    which a SUBSCRIBE was processed while the connection was authenticated as an identity whose subscribe
    list contained it; it only grows, in `noteSub`) — or the connection is closing. -/
theorem granted_only (cfg : Cfg) (es : List Event) (c : Nat) (x : Conn) (ch : Bytes)
    (hx : (run cfg es).conn c = some x) (hch : ch ∈ x.active) : ch ∈ x.granted ∨ x.closing = true :=
  ((deliv_run cfg es).conn c x hx).granted ch hch

/-- Every recipient of every accepted publish, in every history, had passed the subscribe ACL for that
    channel (`grantedOk` is the model's own check at the moment of the fan-out, over all recipients). -/
theorem recipients_granted (cfg : Cfg) (es : List Event) (a : Accepted) (ha : a ∈ (run cfg es).accepted) :
    a.grantedOk = true :=
  ((deliv_run cfg es).acc a ha).granted

/-- Once a connection is closing (its own offence, the peer's EOF, a crash, the deadline — any reason),
    no OP_PUBLISH is ever written to it again, under EVERY continuation of the history: whatever is
    still buffered, whatever other connections publish while the transport has not yet reported the
    loss, and whether or not the transport would still transmit writes. -/
theorem no_publish_after_close (cfg : Cfg) (es es' : List Event) (c : Nat) (x : Conn)
    (hx : (run cfg es).conn c = some x) (hc : x.closing = true) :
    ∃ y, (run cfg (es ++ es')).conn c = some y ∧ y.closing = true ∧ pubFrames y.out = pubFrames x.out := by
  have hrun : run cfg (es ++ es') = es'.foldl (step cfg) (run cfg es) := by
    simp [Broker.run, List.foldl_append]
  obtain ⟨y, hy, m⟩ := mono_steps cfg (run cfg es) es' c x hx
  rw [← hrun] at hy
  refine ⟨y, hy, m.closing hc, ?_⟩
  have k1 := ((deliv_run cfg es).conn c x hx).atClose hc
  have k2 := ((deliv_run cfg (es ++ es')).conn c y hy).atClose (m.closing hc)
  rw [m.atClose hc, k1] at k2
  exact (Option.some.inj k2).symm

/-- An OP_SUBSCRIBE outside the subscribe list: OP_ERROR and close.  The request is registered by the
    code (there is no `return` after the error), but the connection is closing from this very step on,
    so by `no_publish_after_close` it never results in any delivery. -/
theorem forbidden_subscribe (cfg : Cfg) (s : State) (c : Nat) (x : Conn) (f : Frame) (ident ch : Bytes)
    (hx : s.conn c = some x) (hauth : x.ak ≠ none) (hreg : x.registered = true)
    (hf : read f = some (.ok (.subscribe ident ch))) (hbad : ch ∉ x.subchans) :
    messageReceived cfg s c f = (doSubscribe (errorClose s c) c ch false, .cont) ∧
    (∀ y, (errorClose s c).conn c = some y → y.closing = true) := by
  refine ⟨Broker.forbidden_subscribe cfg s c x f ident ch hx hauth hreg hf hbad, ?_⟩
  intro y hy
  obtain ⟨z, hz, hc, _⟩ := (errorClose_rejected s c).self x hx
  rw [hz] at hy; cases hy; exact hc

/-! non-vacuity (kernel-evaluated): connection 2 subscribes to a channel outside its list while
    connection 1 keeps publishing on it; 2 is closing, its transport has not reported the loss, and it
    has received nothing. -/
def exRowA : Row := ⟨[115], [111], [[99]], [[99]]⟩
def exRowB : Row := ⟨[115], [111], [], []⟩
def exCfg : Cfg := ⟨[104], .sync (fun i => if i = [97] then some exRowA else if i = [98] then some exRowB else none), id⟩
def exAuth (i : UInt8) (n : Bytes) : Bytes := [0,0,0,12,2,1,i] ++ n ++ [115]
def exSubB : Bytes := [0,0,0,8,4,1,98,99]
def exPub : Bytes := [0,0,0,10,3,1,97,1,99,7]
def exHistory : List Event :=
  [.connect 1 [1,2,3,4], .connect 2 [5,6,7,8], .data 1 (exAuth 97 [1,2,3,4]),
   .data 2 (exAuth 98 [5,6,7,8] ++ exSubB), .data 1 exPub, .data 1 exPub]
example : ((run exCfg exHistory).conn 2).map (fun y => (y.closing, y.gone, pubFrames y.out)) =
    some (true, false, []) ∧ (run exCfg exHistory).accepted.length = 2 := by decide +kernel

end Hpfeeds.C04
