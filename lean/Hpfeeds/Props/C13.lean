/-
  C13 — clients come back after any connection loss and stop when told to.
  The liveness claim is proved in its bounded-response form: from EVERY reachable state, the environment
  suffix "the connection (if any) is lost; the retry timer (if armed) elapses; the next attempt is
  accepted; OP_INFO arrives" leads, phase by phase, to a connection on which AUTH for the new nonce and
  SUBSCRIBE for the wanted set have been written.  asyncio's task machinery / Twisted's ClientService /
  real DNS and TCP faults are library and OS behaviour, represented by the two outcomes accept / refuse.
-/
import Hpfeeds.Lemmas.AioClient
import Hpfeeds.Lemmas.BlkClient
import Hpfeeds.Lemmas.AioComesBack
import Hpfeeds.Lemmas.BlkClientComesBack
namespace Hpfeeds.C13
open Hpfeeds Extracted

/-! ## asyncio ClientSession (`autoStart := true, lossDelay := 0`) and Twisted ClientSessionService
    (`autoStart := false, lossDelay := 1000`): one model, parametrized (Model/AioClient.lean) -/
namespace Aio
open Hpfeeds.AioClient

/-- no event ever takes the reconnect task back to "not started" -/
theorem stepK_started (cfg : Cfg) (s1 : State) (pre : List Out) (e : Ev) (hk : s1.task ≠ .notStarted) :
    (stepK cfg s1 pre e).1.task ≠ .notStarted := by
  intro hbad
  unfold stepK at hbad
  cases e with
  | start => simp only at hbad; split at hbad
             · cases hbad
             · exact hk hbad
  | idle => exact hk hbad
  | sub ch =>
    simp only at hbad
    split at hbad
    · exact hk hbad
    · split at hbad
      · rw [(same_write _ _).task] at hbad; exact hk hbad
      · exact hk hbad
  | unsub ch =>
    simp only at hbad
    split at hbad
    · split at hbad
      · rw [(same_write _ _).task] at hbad; exact hk hbad
      · exact hk hbad
    · exact hk hbad
  | pub ch p =>
    simp only at hbad
    split at hbad
    · rw [(same_write _ _).task] at hbad; exact hk hbad
    · exact hk hbad
  | read => simp only at hbad; split at hbad <;> exact hk hbad
  | close =>
    simp only at hbad
    split at hbad
    · exact hk hbad
    · split at hbad
      · split at hbad
        · cases hbad
        · have : (closeT { s1 with closing := true, closeCalled := true }).1.task = s1.task :=
            (same_closeT _).task
          rw [show ({ (closeT { s1 with closing := true, closeCalled := true }).1 with closeWait := true } : State).task =
            (closeT { s1 with closing := true, closeCalled := true }).1.task from rfl, this] at hbad
          exact hk hbad
      · cases hbad
  | accept => simp only at hbad; split at hbad
              · cases hbad
              · exact hk hbad
  | refuse => simp only at hbad; split at hbad
              · cases hbad
              · exact hk hbad
  | advance ms =>
    simp only at hbad
    split at hbad
    · split at hbad
      · cases hbad
      · rename_i t ht _; rw [show ({ s1 with now := s1.now + ms } : State).task = s1.task from rfl] at hbad; exact hk hbad
    · rw [show ({ s1 with now := s1.now + ms } : State).task = s1.task from rfl] at hbad; exact hk hbad
  | lost =>
    simp only at hbad
    split at hbad
    · exact hk hbad
    · split at hbad
      · exact hk hbad
      · split at hbad
        · cases hbad
        · split at hbad <;> cases hbad
  | data b =>
    simp only at hbad
    split at hbad
    · exact hk hbad
    · rename_i c hc
      split at hbad
      · exact hk hbad
      · have h1 := (same_loop cfg { s1 with conn := some { c with inbound := c.inbound ++ b } } (c.buf ++ b)).task
        generalize (loop cfg { s1 with conn := some { c with inbound := c.inbound ++ b } } (c.buf ++ b)) = r at h1 hbad
        simp only at hbad
        cases hrc : r.1.conn with
        | none => rw [hrc] at hbad; simp only at hbad; rw [h1] at hbad; exact hk hbad
        | some c' => rw [hrc] at hbad; simp only at hbad; rw [h1] at hbad; exact hk hbad

/-- once started, always started (any configuration) -/
theorem stays_started (cfg : Cfg) (s : State) (e : Ev) (h : s.task ≠ .notStarted) :
    (step cfg s e).1.task ≠ .notStarted := by
  unfold step; rw [kick_of_started h]; exact stepK_started cfg s [] e h

/-- asyncio: the reconnect task has started once any event has been handled -/
theorem started (cfg : Cfg) (ha : cfg.autoStart = true) (es : List Ev) (e : Ev) :
    (run cfg (es ++ [e])).1.task ≠ .notStarted := by
  have : (run cfg (es ++ [e])).1 = (step cfg (run cfg es).1 e).1 := by
    simp [run, List.foldl_append]
  rw [this]
  unfold step
  exact stepK_started cfg _ _ e (kick_started cfg (run cfg es).1 ha)

/-- Twisted: `startService()` on a fresh service makes the first attempt -/
theorem start_attempts (cfg : Cfg) (s : State) (ha : cfg.autoStart = false) (hs : s.task = .notStarted)
    (hc : s.closeCalled = false) :
    (step cfg s .start).2 = [.attempt] ∧ (step cfg s .start).1.task = .connecting := by
  have hk : kick cfg s = (s, []) := by unfold kick; simp [ha]
  unfold step; rw [hk]; unfold stepK; simp [hs, hc]

/-- (ii) close() ends it.  In EVERY reachable state: with no live transport close() returns at once and
    the reconnect task is cancelled; with a live transport — before OP_INFO, ready, already closing —
    that transport is closed and close() returns when its loss is reported. -/
theorem close_bounded (cfg : Cfg) (s : State) (hs : s.task ≠ .notStarted) (hc : s.closeCalled = false) :
    (Out.closeDone ∈ (step cfg s .close).2) ∨
    (∃ c, s.conn = some c ∧ c.gone = false ∧
      (step cfg s .close).1.conn = some { c with closing := true } ∧
      (step cfg (step cfg s .close).1 .lost).2 = [.closeDone]) := by
  cases hcn : s.conn with
  | none => left; rw [close_no_transport cfg s hs hc (Or.inl hcn)]; simp
  | some c =>
    by_cases hg : c.gone = true
    · left; rw [close_no_transport cfg s hs hc (Or.inr ⟨c, hcn, hg⟩)]; simp
    · right
      have hg' : c.gone = false := by simpa using hg
      have e1 := close_with_transport cfg s c hs hc hcn hg'
      refine ⟨c, rfl, hg', by rw [e1], ?_⟩
      rw [e1]
      exact (lost_completes_close cfg
        { s with closing := true, closeCalled := true, closeWait := true, conn := some { c with closing := true } }
        { c with closing := true } hs rfl hg' rfl rfl).1

/-- … and no connection attempt follows, whatever happens afterwards. -/
theorem no_attempt_after_close (cfg : Cfg) (es : List Ev) (e : Ev)
    (hc : (run cfg es).1.closeCalled = true) :
    (step cfg (run cfg es).1 e).1.attempts = (run cfg es).1.attempts ∧
    Out.attempt ∉ (step cfg (run cfg es).1 e).2 :=
  AioClient.no_attempt_after_close cfg _ e (run_inv cfg es).2.1 hc

/-- (i) reconnection, phase by phase (each lemma is for ANY state in that phase): a lost connection is
    replaced by a new attempt at once; a refused attempt is retried after 1 s; an accepted attempt yields
    a fresh connection; OP_INFO on it produces AUTH + SUBSCRIBE for the wanted set (C11); messages on it
    are delivered (C12). -/
theorem reconnects (cfg : Cfg) (s : State) :
    (∀ c, s.task ≠ .notStarted → s.conn = some c → c.gone = false → s.closing = false →
      (step cfg s .lost).1.subs = s.subs ∧
      (cfg.lossDelay = 0 → (step cfg s .lost).2 = [.attempt] ∧ (step cfg s .lost).1.task = .connecting) ∧
      (cfg.lossDelay ≠ 0 → (step cfg s .lost).1.task = .sleeping (s.now + cfg.lossDelay) ∧
        ∀ ms, s.now + cfg.lossDelay ≤ s.now + ms →
          (step cfg (step cfg s .lost).1 (.advance ms)).2 = [.attempt] ∧
          (step cfg (step cfg s .lost).1 (.advance ms)).1.task = .connecting)) ∧
    (s.task = .connecting → (step cfg s .refuse).1.task = .sleeping (s.now + cfg.retryDelay) ∧
      ∀ ms, s.now + cfg.retryDelay ≤ s.now + ms →
        (step cfg (step cfg s .refuse).1 (.advance ms)).2 = [.attempt] ∧
        (step cfg (step cfg s .refuse).1 (.advance ms)).1.task = .connecting) ∧
    (s.task = .connecting → (step cfg s .accept).1.conn = some { k := s.nconn + 1 } ∧
      (step cfg s .accept).1.subs = s.subs) ∧
    (∀ c f n rand, s.conn = some c → c.ready = false → c.gone = false → f.WF →
      read f = some (.ok (.info n rand)) →
      (loop cfg s (enc f)).2.1 =
        Out.wrote c.k (authFrame cfg rand) :: (sortBytes s.subs).map (fun ch => Out.wrote c.k (subFrame cfg ch))) := by
  refine ⟨fun c hs hn hg hcl => ?_, fun hs => retry_after_refusal cfg s hs, fun hs => ?_,
    fun c f n rand hn hr hg hf hrd => (info_handshake cfg s c f n rand hn hr hg hf hrd).1⟩
  · obtain ⟨_, b, c', d⟩ := reconnect_after_loss cfg s c hs hn hg hcl
    exact ⟨b, c', d⟩
  · obtain ⟨a, _, _, d⟩ := accept_fresh cfg s hs
    exact ⟨a, d⟩

/-- (i) COMPOSED: the session comes back from EVERY reachable state.  After ANY event sequence `es` in which
    the session was started and close() was not called — whatever happened: refused attempts, a loss before
    OP_INFO, right after OP_AUTH, mid-frame, repeatedly —, a fixed environment suffix of at most two events
    (the connection, if any, is lost; the retry timer, if armed, elapses) followed by `accept` brings up a FRESH
    connection, and a whole OP_INFO on it is answered with the OP_AUTH for ITS nonce and one OP_SUBSCRIBE per
    channel the application wants at that moment (then messages flow: C12).  asyncio and Twisted (any `cfg`). -/
theorem comes_back (cfg : Cfg) (es : List Ev) (hs : (run cfg es).1.task ≠ .notStarted)
    (hc : (run cfg es).1.closeCalled = false) (f : Frame) (n rand : Bytes) (hf : f.WF)
    (hrd : read f = some (.ok (.info n rand))) :
    ∃ pre : List Ev, pre.length ≤ 2 ∧ (∀ e ∈ pre, e = .lost ∨ ∃ ms, e = .advance ms) ∧
      (step cfg (steps cfg (run cfg es).1 (pre ++ [.accept])) (.data (enc f))).2 =
        Out.wrote ((run cfg es).1.nconn + 1) (authFrame cfg rand) ::
          (sortBytes (run cfg es).1.subs).map (fun ch => Out.wrote ((run cfg es).1.nconn + 1) (subFrame cfg ch)) ∧
      ∃ c', (step cfg (steps cfg (run cfg es).1 (pre ++ [.accept])) (.data (enc f))).1.conn = some c' ∧
        c'.ready = true ∧ c'.gone = false ∧ c'.k = (run cfg es).1.nconn + 1 :=
  AioClient.comes_back cfg (run cfg es).1 (run_inv cfg es).2.1 hs hc f n rand hf hrd

/-! non-vacuity (kernel-evaluated): loss before INFO, refused retry, new connection authenticates with
    ITS nonce and resubscribes; close before INFO completes at the loss; no attempt afterwards -/
def exCfg : Cfg := { ident := [109], secret := [115], H := id }
def twCfg : Cfg := { ident := [109], secret := [115], H := id, autoStart := false, lossDelay := 1000 }
def exInfo (a : UInt8) : Bytes := [0,0,0,12,1,2,104,112,a,8,7,6]
example : (run exCfg [.sub [99], .accept, .lost, .refuse, .advance 1000, .accept, .data (exInfo 5)]).2 =
    [.attempt, .attempt, .attempt, .wrote 2 (authFrame exCfg [5,8,7,6]), .wrote 2 (subFrame exCfg [99])] := by
  decide +kernel
example : (run exCfg [.accept, .close, .lost, .advance 5000, .sub [99]]).2 =
    [.attempt, .closeT 1, .closeDone] := by decide +kernel
example : (run exCfg [.refuse, .close, .advance 5000]).2 = [.attempt, .closeDone] := by decide +kernel
-- Twisted: nothing before startService; after a loss the retry delay elapses first
example : (run twCfg [.sub [99], .advance 5000, .start, .accept, .lost, .advance 999, .advance 1, .accept,
    .data (exInfo 5)]).2 =
    [.attempt, .attempt, .wrote 2 (authFrame twCfg [5,8,7,6]), .wrote 2 (subFrame twCfg [99])] := by
  decide +kernel
example : (run twCfg [.start, .accept, .close, .lost, .advance 5000, .start]).2 =
    [.attempt, .closeT 1, .closeDone] := by decide +kernel

end Aio
/-! ## blocking Client (reconnect=True) -/
namespace Client
open Hpfeeds.BlkClient

/-- (iii) Client.run returns after stop() once its current read completes.  In ANY state in which run() is
    blocked in recv() with `stopped` set — whenever and from wherever stop() was called — whatever the read
    returns: -/
theorem run_returns (cfg : Cfg) (s : State) (hp : s.pc = .runRecv) (hs : s.stopped = true) :
    -- the connection ended: run() returns at once, no new connection attempt
    step cfg s .eof = ({ s with connected := false, pc := .idle }, [.ret]) ∧
    step cfg s .sockErr = ({ s with connected := false, pc := .idle }, [.ret]) ∧
    -- the read timed out or returned data: the complete frames are dispatched, then run() returns without a
    -- connection attempt — unless a reader raised (the exception escapes) or a callback is still inside its
    -- own publish()
    (∀ e, (e = .timeout ∨ ∃ b, e = .data b) →
      ((step cfg s e).1.pc = .idle ∧ (step cfg s e).2.getLast? = some .ret ∧
        (step cfg s e).1.attempts = s.attempts ∧ ∀ k, Out.attempt k ∉ (step cfg s e).2) ∨
      (step cfg s e).1.pc = .crashed ∨ CbBlocked (step cfg s e).1.pc) := by
  refine ⟨by simp [step, hp, afterInner, hs], by simp [step, hp, afterInner, hs], ?_⟩
  intro e he
  rcases he with rfl | ⟨b, rfl⟩
  · have : step cfg s .timeout = afterFrames cfg (frameLoop cfg s) := by simp [step, hp]
    rw [this]; exact afterFrames_stopped cfg s hs
  · by_cases hb : b = []
    · left
      have : step cfg s (.data b) = ({ s with connected := false, pc := .idle }, [.ret]) := by
        simp [step, hp, hb, afterInner, hs]
      rw [this]; exact ⟨rfl, rfl, rfl, by simp⟩
    · have : step cfg s (.data b) = afterFrames cfg (frameLoop cfg { s with ubuf := s.ubuf ++ b, fed := s.fed ++ b }) := by
        simp [step, hp, hb]
      rw [this]
      exact afterFrames_stopped cfg { s with ubuf := s.ubuf ++ b, fed := s.fed ++ b } hs

/-- `stopped` is never cleared (so a stop() made at any earlier moment is still seen) -/
theorem stop_sticks (cfg : Cfg) (s : State) (e : Ev) (h : s.stopped = true) : (step cfg s e).1.stopped = true :=
  (mo_step cfg s e).stopped h

/-- (i) reconnection, phase by phase, each for ANY state of that phase.  A connection lost while run()
    reads (not stopped): the old socket is closed and a new attempt is made at once.  An attempt refused on
    the last address: sleep, then a new attempt (next address first, if there is one).  Accepted: do_auth
    reads.  The OP_INFO: answered with its nonce (C11).  AUTH delivered: run() resubscribes the wanted set
    (C11.run_subscribes) and reads again (C12). -/
theorem reconnects (cfg : Cfg) (s : State) :
    (s.pc = .runRecv → s.stopped = false →
      step cfg s .eof = startConnect { s with connected := false } .run ∧
      step cfg s .sockErr = startConnect { s with connected := false } .run ∧
      (startConnect { s with connected := false } .run).1.pc = .connecting 0 .run ∧
      (startConnect { s with connected := false } .run).2.getLast? = some (.attempt (s.nsock + 1))) ∧
    (∀ i w, s.pc = .connecting i w →
      (i + 1 < cfg.naddr → step cfg s .connRefused = newSocket s (i + 1) w) ∧
      (¬ i + 1 < cfg.naddr → ∃ s', step cfg s .connRefused = retry s' w ∧ (retry s' w).1.pc = .connecting 0 w ∧
        (retry s' w).2.head? = some .sleep ∧ (retry s' w).2.getLast? = some (.attempt (s.nsock + 1))) ∧
      (step cfg s .connOk).1.pc = .authRecv w ∧ (step cfg s .connOk).1.ubuf = [] ∧
      usable (step cfg s .connOk).1 = !s.sockClosed) ∧
    (∀ rand, s.pc = .authSend .run rand → s.stopped = false →
      step cfg s .sendOk =
        ((runTop { s with sent := s.sent ++ [authFrame cfg rand], nonce := some rand, pc := .idle }).1,
         .wrote s.nsock (authFrame cfg rand) ::
           (runTop { s with sent := s.sent ++ [authFrame cfg rand], nonce := some rand, pc := .idle }).2)) := by
  refine ⟨fun hp hs => ?_, fun i w hp => ?_, fun rand hp hs => ?_⟩
  · refine ⟨by simp [step, hp, afterInner, hs], by simp [step, hp, afterInner, hs], by simp [startConnect, newSocket], ?_⟩
    simp only [startConnect, newSocket, closeSock]
    split <;> simp
  · refine ⟨fun hi => by simp [step, hp, hi], fun hi => ?_, by simp [step, hp], by simp [step, hp], by simp [step, hp, usable]⟩
    by_cases hc : s.connected = true
    · refine ⟨{ s with ubuf := [], fed := [], popped := [] }, by simp [step, hp, hi, hc], by simp [retry, startConnect, newSocket], by simp [retry], ?_⟩
      simp only [retry, startConnect, newSocket, closeSock]
      split <;> simp
    · refine ⟨s, by simp [step, hp, hi, hc], by simp [retry, startConnect, newSocket], by simp [retry], ?_⟩
      simp only [retry, startConnect, newSocket, closeSock]
      split <;> simp
  · simp [step, hp, resume]

/-- (i) COMPOSED: the client comes back.  From ANY state in which run() is reading and has not been stopped: the
    connection is lost; the next attempt is accepted; a whole OP_INFO arrives; the sends succeed.  Then run() is
    reading again, on a NEW socket on which it has sent exactly the OP_AUTH for that OP_INFO's nonce followed by
    one OP_SUBSCRIBE per channel the application wants, in (sorted) set order. -/
theorem comes_back (cfg : Cfg) (s : State) (hp : s.pc = .runRecv) (hst : s.stopped = false)
    (f : Frame) (n rand : Bytes) (hf : f.WF) (hop : f.op.toNat = OP_INFO) (hrd : read f = some (.ok (.info n rand))) :
    let s4 := (step cfg (step cfg (step cfg (step cfg s .eof).1 .connOk).1 (.data (enc f))).1 .sendOk).1
    let fin := (sendOks cfg s4 (sortBytes s.subs).length).1
    fin.pc = .runRecv ∧ fin.nsock = s.nsock + 1 ∧
    fin.sent = authFrame cfg rand :: (sortBytes s.subs).map (subFrame cfg) :=
  BlkClient.comes_back cfg s hp hst f n rand hf hop hrd

/-! non-vacuity (kernel-evaluated): stop() from another thread while run() reads, then the read completes
    with a timeout / with data whose callback publishes; and stop() followed by the loss of the connection:
    run() returns, no attempt -/
def exCfg : Cfg := { ident := [109], secret := [115], H := id,
                     react := fun m => match m.2.2 with | 80 :: r => [.pub [114] r] | _ => [] }
def exInfo : Bytes := [0,0,0,12,1,2,104,112,9,8,7,6]
def exPub (x : UInt8) : Bytes := [0,0,0,10,3,1,97,1,99,x]
example : (run exCfg [.new, .connOk, .data exInfo, .sendOk, .run, .stop, .eof]).2 =
    [.attempt 1, .wrote 1 (authFrame exCfg [9,8,7,6]), .ret] := by decide +kernel
example : (run exCfg [.new, .connOk, .data exInfo, .sendOk, .run, .stop, .data (exPub 80), .sendOk]).2 =
    [.attempt 1, .wrote 1 (authFrame exCfg [9,8,7,6]), .msg ([97],[99],[80]), .wrote 1 (pubFrame exCfg [114] []), .ret] := by
  decide +kernel
example : (run exCfg [.new, .connOk, .data exInfo, .sendOk, .run, .eof, .connRefused, .connOk]).2 =
    [.attempt 1, .wrote 1 (authFrame exCfg [9,8,7,6]), .closed 1, .attempt 2, .sleep, .closed 2, .attempt 3] := by
  decide +kernel


/-! ### the resolved addresses are walked round-robin: none is ever given up

`comes_back` above takes `accept` as an event; with a host that resolves to several addresses the environment can only
accept an attempt that is pointed at a reachable address.  The two theorems below close that gap for the model: in ANY
connecting state, `j` consecutive refusals leave the client attempting address `(i + j) mod naddr` (a sleep at every
wrap-around), so within any `naddr` consecutive refused attempts EVERY address has been the target of an attempt — a
broker reachable through one address only is reached.  (The correspondence run drives the real `Client` through the
fail-over scenario with 2 and 3 addresses; the monitor `address-given-up` states the same on the implementation.) -/

def refusals (cfg : Cfg) (s : State) (j : Nat) : State :=
  (List.replicate j Ev.connRefused).foldl (fun s e => (step cfg s e).1) s

theorem refused_walks_addresses (cfg : Cfg) (j : Nat) : ∀ (s : State) (i : Nat) (who : Who),
    s.pc = .connecting i who → i < cfg.naddr →
    (refusals cfg s j).pc = .connecting ((i + j) % cfg.naddr) who := by
  induction j with
  | zero =>
    intro s i who hpc hi
    simp only [refusals, List.replicate, List.foldl_nil, Nat.add_zero]
    rw [Nat.mod_eq_of_lt hi]; exact hpc
  | succ j ih =>
    intro s i who hpc hi
    have hstep : ∃ i', (step cfg s .connRefused).1.pc = .connecting i' who ∧ i' < cfg.naddr ∧
        i' % cfg.naddr = (i + 1) % cfg.naddr := by
      by_cases h1 : i + 1 < cfg.naddr
      · refine ⟨i + 1, ?_, h1, rfl⟩
        simp [step, hpc, h1, newSocket]
      · refine ⟨0, ?_, by omega, ?_⟩
        · by_cases hc : s.connected = true <;>
            simp [step, hpc, h1, hc, retry, startConnect, newSocket]
        · have : i + 1 = cfg.naddr := by omega
          rw [this, Nat.mod_self, Nat.zero_mod]
    obtain ⟨i', hpc', hi', hmod⟩ := hstep
    have := ih (step cfg s .connRefused).1 i' who hpc' hi'
    simp only [refusals, List.replicate_succ, List.foldl_cons] at this ⊢
    rw [this]
    congr 1
    rw [Nat.add_mod, hmod, ← Nat.add_mod]
    congr 1
    omega

/-- within `naddr` consecutive refused attempts every resolved address is attempted -/
theorem every_address_is_tried (cfg : Cfg) (s : State) (i : Nat) (who : Who) (hpc : s.pc = .connecting i who)
    (hi : i < cfg.naddr) (a : Nat) (ha : a < cfg.naddr) :
    ∃ j, j < cfg.naddr ∧ (refusals cfg s j).pc = .connecting a who := by
  refine ⟨(a + cfg.naddr - i) % cfg.naddr, Nat.mod_lt _ (by omega), ?_⟩
  rw [refused_walks_addresses cfg _ s i who hpc hi]
  congr 1
  rw [Nat.add_mod_mod]
  have : i + (a + cfg.naddr - i) = a + cfg.naddr := by omega
  rw [this, Nat.add_mod_right, Nat.mod_eq_of_lt ha]

/-! non-vacuity: three addresses, connected through the third, then refused four times: 0 → 1 → 2 → 0 → 1 -/
example : (refusals { ident := [1], secret := [2], H := id, naddr := 3 }
    (run { ident := [1], secret := [2], H := id, naddr := 3 } [.new]).1 4).pc = .connecting 1 .init := by
  decide +kernel

end Client
end Hpfeeds.C13
