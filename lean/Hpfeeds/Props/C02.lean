/-
  C02 — nothing is acted on before a valid OP_AUTH for this connection's own nonce.
  `H` (SHA-1 in the code) is an arbitrary function `Bytes → Bytes`; the nonce is an input of `connect`.
  The clause "the nonce is not constant across connections" is about `os.urandom` and cannot be expressed
  in any model: it is decided by the check's monitor on the implementation only (DESIGN.md section 7).
-/
import Hpfeeds.Lemmas.BrokerAuth
import Hpfeeds.Lemmas.BrokerStep
import Hpfeeds.Lemmas.BrokerDyn
import Hpfeeds.Props.C14
namespace Hpfeeds.C02
open Hpfeeds Hpfeeds.Broker Extracted

/-- The broker's first bytes on every connection, in every history: one OP_INFO carrying its name and
    the nonce of THAT connection (everything else it ever writes comes after). -/
theorem first_write_is_info (cfg : Cfg) (es : List Event) (c : Nat) (x : Conn)
    (hx : (run cfg es).conn c = some x) :
    ∃ t rest, x.out = (t, .write ⟨UInt8.ofNat OP_INFO, pack8 cfg.name ++ x.nonce⟩) :: rest :=
  recInv_run (infoFirst_recInv cfg) es c x hx

/-- In every reachable state a connection that has not authenticated holds no subscription, has been
    granted nothing, has no ACL, is in no channel's registry, and has never received a message. -/
theorem preauth_inert (cfg : Cfg) (es : List Event) (c : Nat) (x : Conn)
    (hx : (run cfg es).conn c = some x) (hak : x.ak = none) :
    x.active = [] ∧ x.granted = [] ∧ x.pubchans = [] ∧ x.subchans = [] ∧
    (∀ ch, c ∉ (run cfg es).subs ch) ∧ (∀ a ∈ (run cfg es).accepted, c ∉ a.recips) := by
  obtain ⟨a1, a2, _, a4, a5⟩ := (auth_run cfg es c x hx).pre hak
  have hr := reg_run cfg es
  have hnotsub : ∀ ch, c ∉ (run cfg es).subs ch := by
    intro ch hm
    obtain ⟨y, hy, hm'⟩ := (hr.sub_iff ch c).mp hm
    rw [hx] at hy; cases hy; rw [a1] at hm'; cases hm'
  refine ⟨a1, a2, a4, a5, hnotsub, ?_⟩
  intro a ha hm
  obtain ⟨y, hy, hk⟩ := recipAuth_run cfg es a ha c hm
  rw [hx] at hy; cases hy; rw [hak] at hk; cases hk

/-- ... hence it has never received an OP_PUBLISH. -/
theorem preauth_receives_nothing (cfg : Cfg) (es : List Event) (c : Nat) (x : Conn)
    (hx : (run cfg es).conn c = some x) (hak : x.ak = none) : pubFrames x.out = [] := by
  rw [(deliv_run cfg es).log c x hx]
  unfold delivered
  rw [List.filterMap_eq_nil_iff]
  intro a ha
  have := (preauth_inert cfg es c x hx hak).2.2.2.2.2 a ha
  simp [this]

/-- Nothing a connection sends is published before it authenticates: every accepted publish, in every
    history, came from a connection that was authenticated (as the ident the publish names) at that
    moment. -/
theorem accepted_from_authenticated (cfg : Cfg) (es : List Event) (a : Accepted)
    (ha : a ∈ (run cfg es).accepted) : a.srcAk = some a.ident :=
  ((deliv_run cfg es).acc a ha).ident

/-- An authenticated connection got there by presenting, in an OP_AUTH, a digest equal to
    H(its own nonce ++ the secret of the row the store returned for the claimed ident); its ACLs are that
    row's.  (`authed` records every accepted OP_AUTH: ident, digest, row; `setAuth` is the only writer.) -/
theorem authenticated_by_digest (cfg : Cfg) (es : List Event) (c : Nat) (x : Conn) (i : Bytes)
    (hx : (run cfg es).conn c = some x) (hak : x.ak = some i) :
    ∃ d row, x.authed.getLast? = some (i, d, row) ∧ cfg.H (x.nonce ++ row.secret) = d ∧
      x.pubchans = row.pubchans ∧ x.subchans = row.subchans := by
  have k := auth_run cfg es c x hx
  obtain ⟨d, row, hl, hp, hs⟩ := k.post i hak
  refine ⟨d, row, hl, ?_, hp, hs⟩
  have := k.digests (i, d, row) (List.mem_of_getLast? hl)
  exact this

/-- Decision logic of an OP_AUTH against a synchronous store, in ANY state: accepted IFF the store has
    a row for the claimed ident and the digest equals H(nonce ++ that row's secret); otherwise the whole
    effect is OP_ERROR + close (identity, ACLs, registry, accepted log unchanged). -/
theorem auth_iff (cfg : Cfg) (s : State) (c : Nat) (x : Conn) (f : Frame) (ident digest : Bytes)
    (tbl : Bytes → Option Row)
    (hx : s.conn c = some x) (hreg : x.registered = true) (hstore : cfg.store = .sync tbl)
    (hf : read f = some (.ok (.auth ident digest))) :
    ((∃ row, tbl ident = some row ∧ cfg.H (x.nonce ++ row.secret) = digest) →
      ∃ row, tbl ident = some row ∧ messageReceived cfg s c f =
        (logAct (setAuth s c ident digest row) c (.setLimits (limit OP_PUBLISH * highWaterFactor)), .cont)) ∧
    (¬ (∃ row, tbl ident = some row ∧ cfg.H (x.nonce ++ row.secret) = digest) →
      messageReceived cfg s c f = (errorClose s c, .cont)) := by
  constructor
  · rintro ⟨row, ht, hok⟩
    exact ⟨row, ht, C14.sync_auth_success cfg s c x f ident digest tbl row hx hreg hstore hf ht hok⟩
  · intro hno
    have hop : f.op.toNat = OP_AUTH := by rw [read_op hf]; rfl
    unfold messageReceived
    rw [hx]
    simp only [hop, ne_eq, not_true_eq_false, and_false, if_false, hf, hreg, hstore]
    cases ht : tbl ident with
    | none => simp [authenticate, authOk]
    | some row =>
      have : ¬ cfg.H (x.nonce ++ row.secret) = digest := fun h => hno ⟨row, ht, h⟩
      simp [authenticate, authOk, this]

/-- the digest variants of the property: a digest of the wrong length can never match a hash that
    always returns 20 bytes (prefix of the right digest, empty, 19 or 21 bytes) -/
theorem wrong_length_never_matches (H : Bytes → Bytes) (h20 : ∀ b, (H b).length = 20) (nonce secret digest : Bytes)
    (hl : digest.length ≠ 20) : H (nonce ++ secret) ≠ digest := by
  intro h; apply hl; rw [← h]; exact h20 _

/-- a digest computed for another connection's nonce (or with another identity's secret) is rejected
    unless the hash collides on the two inputs: if it was accepted on this connection, the two hash values
    are equal -/
theorem foreign_digest_needs_collision (H : Bytes → Bytes) (nonce nonce' secret : Bytes)
    (hacc : H (nonce ++ secret) = H (nonce' ++ secret)) (hne : nonce ≠ nonce') :
    ∃ a b, a ≠ b ∧ H a = H b := by
  refine ⟨nonce ++ secret, nonce' ++ secret, ?_, hacc⟩
  intro h; exact hne (List.append_cancel_right h)

/-- Any well-formed non-AUTH first frame: OP_ERROR + close, nothing else (C02 uses `Rejected` from
    Lemmas/BrokerStep: accepted log, registry, gauges, all other connections unchanged). -/
theorem non_auth_first_frame (cfg : Cfg) (s : State) (c : Nat) (x : Conn) (f : Frame)
    (hx : s.conn c = some x) (hak : x.ak = none) (hop : f.op.toNat ≠ OP_AUTH) :
    messageReceived cfg s c f = (errorClose s c, .cont) ∧ Rejected s (errorClose s c) c :=
  ⟨preauth_reject cfg s c x f hx hak hop, errorClose_rejected s c⟩

/-- A malformed frame (bad header): just a disconnect — `close`, no OP_ERROR, and the loop stops. -/
theorem bad_header_just_disconnects (cfg : Cfg) (s : State) (c : Nat) (buf : Bytes) (e : Err)
    (hh : header buf = .bad e) : loop cfg c s buf = (closeT s c, buf, .cont) := by
  rw [loop]
  split
  · rename_i h'; rw [hh] at h'; cases h'
  · rfl
  · rename_i h'; rw [hh] at h'; cases h'

/-! ### the credential store may change while the broker runs

"Until the connection presents an OP_AUTH whose digest equals SHA1(nonce ‖ the secret STORED for the claimed
ident)": stores are edited while brokers run (a secret is rotated, an identity revoked, the JSON file reloaded —
C18).  `runS` gives every event the store as it is at that moment; the run-level theorems above hold for it
unchanged, and the decision for each OP_AUTH frame is `auth_iff`, which is stated for an ARBITRARY state and
the table passed to THAT step — so nothing remembered from an earlier store (a cached row, an earlier
verdict, an earlier session of the same identity) can influence it. -/

theorem Dyn.first_write_is_info (cfg : Cfg) (es : List (Store × Event)) (c : Nat) (x : Conn)
    (hx : (runS cfg es).conn c = some x) :
    ∃ t rest, x.out = (t, .write ⟨UInt8.ofNat OP_INFO, pack8 cfg.name ++ x.nonce⟩) :: rest :=
  recInv_runS (I := InfoFirst cfg) (fun st => infoFirst_recInv (cfg.withStore st)) es c x hx

theorem Dyn.preauth_inert (cfg : Cfg) (es : List (Store × Event)) (c : Nat) (x : Conn)
    (hx : (runS cfg es).conn c = some x) (hak : x.ak = none) :
    x.active = [] ∧ x.granted = [] ∧ x.pubchans = [] ∧ x.subchans = [] ∧
    (∀ ch, c ∉ (runS cfg es).subs ch) ∧ (∀ a ∈ (runS cfg es).accepted, c ∉ a.recips) := by
  obtain ⟨a1, a2, _, a4, a5⟩ := (auth_runS cfg es c x hx).pre hak
  have hr := reg_runS cfg es
  have hnotsub : ∀ ch, c ∉ (runS cfg es).subs ch := by
    intro ch hm
    obtain ⟨y, hy, hm'⟩ := (hr.sub_iff ch c).mp hm
    rw [hx] at hy; cases hy; rw [a1] at hm'; cases hm'
  refine ⟨a1, a2, a4, a5, hnotsub, ?_⟩
  intro a ha hm
  obtain ⟨y, hy, hk⟩ := recipAuth_runS cfg es a ha c hm
  rw [hx] at hy; cases hy; rw [hak] at hk; cases hk

theorem Dyn.preauth_receives_nothing (cfg : Cfg) (es : List (Store × Event)) (c : Nat) (x : Conn)
    (hx : (runS cfg es).conn c = some x) (hak : x.ak = none) : pubFrames x.out = [] := by
  rw [(deliv_runS cfg es).log c x hx]
  unfold delivered
  rw [List.filterMap_eq_nil_iff]
  intro a ha
  have := (Dyn.preauth_inert cfg es c x hx hak).2.2.2.2.2 a ha
  simp [this]

theorem Dyn.accepted_from_authenticated (cfg : Cfg) (es : List (Store × Event)) (a : Accepted)
    (ha : a ∈ (runS cfg es).accepted) : a.srcAk = some a.ident :=
  ((deliv_runS cfg es).acc a ha).ident

theorem Dyn.authenticated_by_digest (cfg : Cfg) (es : List (Store × Event)) (c : Nat) (x : Conn) (i : Bytes)
    (hx : (runS cfg es).conn c = some x) (hak : x.ak = some i) :
    ∃ d row, x.authed.getLast? = some (i, d, row) ∧ cfg.H (x.nonce ++ row.secret) = d ∧
      x.pubchans = row.pubchans ∧ x.subchans = row.subchans := by
  have k := auth_runS cfg es c x hx
  obtain ⟨d, row, hl, hp, hs⟩ := k.post i hak
  exact ⟨d, row, hl, k.digests (i, d, row) (List.mem_of_getLast? hl), hp, hs⟩

/-- **rotation / revocation takes effect at once**: whatever happened before (any state `s`: the identity may
    have been looked up, accepted or refused any number of times under earlier store contents), an OP_AUTH
    that names an identity the store does not hold NOW, or whose digest is not H(nonce ‖ the secret held NOW),
    is answered with OP_ERROR + close and changes nothing else -/
theorem Dyn.stale_credentials_rejected (cfg : Cfg) (s : State) (c : Nat) (x : Conn) (f : Frame) (ident digest : Bytes)
    (tbl : Bytes → Option Row)
    (hx : s.conn c = some x) (hreg : x.registered = true)
    (hf : read f = some (.ok (.auth ident digest)))
    (hstale : ∀ row, tbl ident = some row → cfg.H (x.nonce ++ row.secret) ≠ digest) :
    messageReceived (cfg.withStore (.sync tbl)) s c f = (errorClose s c, .cont) := by
  have h := (auth_iff (cfg.withStore (.sync tbl)) s c x f ident digest tbl hx hreg rfl hf).2
  apply h
  rintro ⟨row, hr, hd⟩
  exact hstale row hr hd

/-! non-vacuity (kernel-evaluated, hash := id): SUBSCRIBE before AUTH → ERROR + close, no subscription;
    AUTH with the digest of another nonce → ERROR + close; the right digest → authenticated. -/
def exRow : Row := ⟨[115], [111], [[99]], [[99]]⟩
def exCfg : Cfg := ⟨[104], .sync (fun i => if i = [97] then some exRow else none), id⟩
example : ((run exCfg [.connect 1 [1,2,3,4], .data 1 [0,0,0,8,4,1,97,99]]).conn 1).map
    (fun y => (y.ak, y.active, y.closing, y.out.map (·.2) |>.drop 1)) =
    some (none, [], true, [.write errFrame, .close]) := by decide +kernel
example : ((run exCfg [.connect 1 [1,2,3,4], .data 1 [0,0,0,12,2,1,97,9,9,9,9,115]]).conn 1).map
    (fun y => (y.ak, y.closing)) = some (none, true) := by decide +kernel
example : ((run exCfg [.connect 1 [1,2,3,4], .data 1 [0,0,0,12,2,1,97,1,2,3,4,115]]).conn 1).map
    (fun y => (y.ak, y.closing, y.pubchans)) = some (some [97], false, [[99]]) := by decide +kernel

/-- a store change inside a history: connection 1 authenticates with secret `s`; the secret is rotated to `t`;
    connection 2 presenting the OLD secret over its own nonce is refused, the NEW one is accepted -/
def exRow' : Row := ⟨[116], [111], [[99]], [[99]]⟩
def st0 : Store := .sync (fun i => if i = [97] then some exRow else none)
def st1 : Store := .sync (fun i => if i = [97] then some exRow' else none)
example : (fun s : State => ((s.conn 1).map (·.ak), (s.conn 2).map (fun y => (y.ak, y.closing)), (s.conn 3).map (fun y => (y.ak, y.closing))))
    (runS exCfg [(st0, .connect 1 [1,2,3,4]), (st0, .data 1 [0,0,0,12,2,1,97,1,2,3,4,115]),
                 (st1, .connect 2 [5,6,7,8]), (st1, .data 2 [0,0,0,12,2,1,97,5,6,7,8,115]),
                 (st1, .connect 3 [9,9,9,9]), (st1, .data 3 [0,0,0,12,2,1,97,9,9,9,9,116])]) =
    (some (some [97]), some (none, true), some (some [97], false)) := by decide +kernel

end Hpfeeds.C02
