/-
  C11 — clients answer each connection's own challenge first, then resubscribe.
  One section per client.  Application calls are events of the same sequence as the network events, so
  "every sequence of application calls interleaved with connection establishment, OP_INFO arrival and
  connection loss, over any number of reconnections" is the quantifier `∀ es`.
-/
import Hpfeeds.Lemmas.AioClient
namespace Hpfeeds.C11
open Hpfeeds Extracted

/-! ## asyncio ClientSession -/
namespace Aio
open Hpfeeds.AioClient

/-- On every connection, after ANY event sequence: as long as the session has not handled that
    connection's OP_INFO, it has written nothing on it. -/
theorem nothing_before_info (cfg : Cfg) (es : List Ev) (c : Conn) (hc : (run cfg es).1.conn = some c)
    (hr : c.ready = false) : c.sent = [] :=
  (((run_inv cfg es).1.conn c hc).quiet hr).1

/-- … and everything it ever wrote on the connection begins with the OP_AUTH computed from the nonce of
    an OP_INFO frame that really arrived on THAT connection (the frame is among the frames decoded from
    the connection's own inbound bytes), followed by one OP_SUBSCRIBE per channel of the set recorded at
    that moment, followed by whatever the application sent later. -/
theorem first_frames (cfg : Cfg) (es : List Ev) (c : Conn) (hc : (run cfg es).1.conn = some c)
    (hr : c.ready = true) :
    ∃ (rand : Bytes) (wanted later : List Bytes) (n : Bytes) (f : Frame),
      c.sent = authFrame cfg rand :: wanted.map (subFrame cfg) ++ later ∧
      f ∈ c.processed ∧ read f = some (.ok (.info n rand)) ∧
      c.inbound = c.processed.flatMap enc ++ c.buf := by
  have k := (run_inv cfg es).1.conn c hc
  obtain ⟨⟨rand, wanted⟩, hh⟩ := Option.isSome_iff_exists.mp (k.rdy hr)
  obtain ⟨⟨later, hl⟩, f, hf, n, hn⟩ := k.hs rand wanted hh
  exact ⟨rand, wanted, later, n, f, hl, hf, hn, (run_inv cfg es).1.bytes c hc⟩

/-- The set recorded at that moment is the application's wanted set at that moment: when the OP_INFO of
    a live, not yet ready connection is dispatched, the writes are exactly AUTH(that nonce) followed by
    SUBSCRIBE for `sortBytes subs` — `subs` being the session's set in that very state. -/
theorem handshake_uses_current_set (cfg : Cfg) (s : State) (c : Conn) (f : Frame) (n rand : Bytes)
    (hn : s.conn = some c) (hr : c.ready = false) (hg : c.gone = false) (hf : f.WF)
    (hrd : read f = some (.ok (.info n rand))) :
    (loop cfg s (enc f)).2.1 =
      Out.wrote c.k (authFrame cfg rand) :: (sortBytes s.subs).map (fun ch => Out.wrote c.k (subFrame cfg ch)) :=
  (info_handshake cfg s c f n rand hn hr hg hf hrd).1

/-- The session's set is a function of the application's calls alone — subscribed and not since
    unsubscribed, including calls made while disconnected — and never holds a channel twice; the
    resubscription block has exactly its members, once each. -/
theorem wanted_set (cfg : Cfg) (es : List Ev) :
    (run cfg es).1.subs = wantedOf es ∧ (run cfg es).1.subs.Nodup ∧
    (∀ ch, ch ∈ sortBytes (run cfg es).1.subs ↔ ch ∈ (run cfg es).1.subs) ∧
    (sortBytes (run cfg es).1.subs).length = (run cfg es).1.subs.length :=
  ⟨subs_eq_wantedOf cfg es, subs_nodup cfg es, mem_sortBytes _, length_sortBytes _⟩

/-! non-vacuity (kernel-evaluated, hash := id): subscribe while disconnected, refused attempt, accepted
    attempt, OP_INFO cut in two chunks: AUTH for that nonce then SUBSCRIBE, nothing before -/
def exCfg : Cfg := { ident := [109], secret := [115], H := id }
def exInfo : Bytes := [0,0,0,12,1,2,104,112,9,8,7,6]
example : (run exCfg [.sub [99], .refuse, .advance 1000, .accept, .data (exInfo.take 7)]).2 =
    [.attempt, .attempt] := by decide +kernel
example : (run exCfg [.sub [99], .refuse, .advance 1000, .accept, .data (exInfo.take 7), .data (exInfo.drop 7)]).2 =
    [.attempt, .attempt, .wrote 1 (authFrame exCfg [9,8,7,6]), .wrote 1 (subFrame exCfg [99])] := by
  decide +kernel

end Aio
end Hpfeeds.C11
