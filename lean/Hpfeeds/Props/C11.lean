/-
  C11 — clients answer each connection's own challenge first, then resubscribe.
  One section per client.  Application calls are events of the same sequence as the network events, so
  "every sequence of application calls interleaved with connection establishment, OP_INFO arrival and
  connection loss, over any number of reconnections" is the quantifier `∀ es`.
-/
import Hpfeeds.Lemmas.AioClient
import Hpfeeds.Lemmas.BlkSession
import Hpfeeds.Lemmas.BlkClient
import Hpfeeds.Lemmas.AioWrites
import Hpfeeds.Lemmas.BlkSessionWrites
import Hpfeeds.Lemmas.BlkClientWrites
namespace Hpfeeds.C11
open Hpfeeds Extracted

/-! ## asyncio ClientSession -/
namespace Aio
open Hpfeeds.AioClient

/-- On every connection, after ANY event sequence: as long as the session has not handled that
    connection's OP_INFO, it has written nothing on it. -/
theorem nothing_before_info (cfg : Cfg) (es : List Ev) (c : Conn) (hc : (run cfg es).1.conn = some c)
    (hr : c.ready = false) : c.sent = [] :=
  (((run_inv cfg es).1.conn c hc).quiet hr).1

/-- … and everything it ever wrote on the connection begins with the OP_AUTH computed from the nonce of
    an OP_INFO frame that really arrived on THAT connection (the frame is among the frames decoded from
    the connection's own inbound bytes), followed by one OP_SUBSCRIBE per channel of the set recorded at
    that moment, followed by whatever the application sent later. -/
theorem first_frames (cfg : Cfg) (es : List Ev) (c : Conn) (hc : (run cfg es).1.conn = some c)
    (hr : c.ready = true) :
    ∃ (rand : Bytes) (wanted later : List Bytes) (n : Bytes) (f : Frame),
      c.sent = authFrame cfg rand :: wanted.map (subFrame cfg) ++ later ∧
      f ∈ c.processed ∧ read f = some (.ok (.info n rand)) ∧
      c.inbound = c.processed.flatMap enc ++ c.buf := by
  have k := (run_inv cfg es).1.conn c hc
  obtain ⟨⟨rand, wanted⟩, hh⟩ := Option.isSome_iff_exists.mp (k.rdy hr)
  obtain ⟨⟨later, hl⟩, f, hf, n, hn⟩ := k.hs rand wanted hh
  exact ⟨rand, wanted, later, n, f, hl, hf, hn, (run_inv cfg es).1.bytes c hc⟩

/-- The set recorded at that moment is the application's wanted set at that moment: when the OP_INFO of
    a live, not yet ready connection is dispatched, the writes are exactly AUTH(that nonce) followed by
    SUBSCRIBE for `sortBytes subs` — `subs` being the session's set in that very state. -/
theorem handshake_uses_current_set (cfg : Cfg) (s : State) (c : Conn) (f : Frame) (n rand : Bytes)
    (hn : s.conn = some c) (hr : c.ready = false) (hg : c.gone = false) (hf : f.WF)
    (hrd : read f = some (.ok (.info n rand))) :
    (loop cfg s (enc f)).2.1 =
      Out.wrote c.k (authFrame cfg rand) :: (sortBytes s.subs).map (fun ch => Out.wrote c.k (subFrame cfg ch)) :=
  (info_handshake cfg s c f n rand hn hr hg hf hrd).1

/-- The session's set is a function of the application's calls alone — subscribed and not since
    unsubscribed, including calls made while disconnected — and never holds a channel twice; the
    resubscription block has exactly its members, once each. -/
theorem wanted_set (cfg : Cfg) (es : List Ev) :
    (run cfg es).1.subs = wantedOf es ∧ (run cfg es).1.subs.Nodup ∧
    (∀ ch, ch ∈ sortBytes (run cfg es).1.subs ↔ ch ∈ (run cfg es).1.subs) ∧
    (sortBytes (run cfg es).1.subs).length = (run cfg es).1.subs.length :=
  ⟨subs_eq_wantedOf cfg es, subs_nodup cfg es, mem_sortBytes _, length_sortBytes _⟩

/-- ON EVERY CONNECTION THEY MAKE, first or re-connection — the observable form, over the whole history.  For
    ANY event sequence and EVERY connection number `k`, the frames the model's OUTPUT shows written on
    connection `k` — which is what the correspondence check compares with the bytes the real transport `k`
    received — are: nothing, or OP_AUTH(a nonce) followed by one OP_SUBSCRIBE per channel of a set, followed by
    later application frames.  (asyncio session and Twisted service: any `cfg`.) -/
theorem every_connection_observable (cfg : Cfg) (es : List Ev) (k : Nat) :
    wroteOn k (run cfg es).2 = [] ∨
    ∃ (rand : Bytes) (wanted later : List Bytes),
      wroteOn k (run cfg es).2 = authFrame cfg rand :: wanted.map (subFrame cfg) ++ later :=
  every_connection cfg es k

/-! non-vacuity (kernel-evaluated, hash := id): subscribe while disconnected, refused attempt, accepted
    attempt, OP_INFO cut in two chunks: AUTH for that nonce then SUBSCRIBE, nothing before -/
def exCfg : Cfg := { ident := [109], secret := [115], H := id }
def exInfo : Bytes := [0,0,0,12,1,2,104,112,9,8,7,6]
example : (run exCfg [.sub [99], .refuse, .advance 1000, .accept, .data (exInfo.take 7)]).2 =
    [.attempt, .attempt] := by decide +kernel
example : (run exCfg [.sub [99], .refuse, .advance 1000, .accept, .data (exInfo.take 7), .data (exInfo.drop 7)]).2 =
    [.attempt, .attempt, .wrote 1 (authFrame exCfg [9,8,7,6]), .wrote 1 (subFrame exCfg [99])] := by
  decide +kernel

end Aio
/-! ## blocking thread session (hpfeeds/blocking: ClientSession + Reactor + Protocol) -/
namespace Blk
open Hpfeeds.BlkSession

/-- On every connection, after ANY event sequence (any interleaving of the reactor's rounds, the network
    and the three steps of every application thread's subscribe / unsubscribe / publish, over any number
    of reconnections): as long as no OP_INFO of THIS connection has been dispatched, nothing has been put
    into its outbox and nothing has reached its socket. -/
theorem nothing_before_info (cfg : Cfg) (es : List Ev) (h : (run cfg es).1.nonce = none) :
    (run cfg es).1.enq = [] ∧ (run cfg es).1.wire = [] ∧ (run cfg es).1.buffer = [] := by
  have hq := (run_inv cfg es).a.quiet h
  have hw := (run_inv cfg es).w.bytes
  rw [hq] at hw
  simp only [List.flatten_nil, List.append_eq_nil_iff] at hw
  exact ⟨hq, hw.1.1, hw.1.2⟩

/-- … and once one has, the first frame put into the outbox — hence, by C20, the first bytes on the wire —
    is the OP_AUTH computed from the nonce of an OP_INFO frame that is among the frames decoded from the
    bytes received on THAT connection; application frames come after it. -/
theorem first_frame_is_auth (cfg : Cfg) (es : List Ev) (r : Bytes) (h : (run cfg es).1.nonce = some r) :
    (∃ rest, (run cfg es).1.enq = authFrame cfg r :: rest ∧
      (run cfg es).1.wire <+: authFrame cfg r ++ rest.flatten) ∧
    (∃ f ∈ (run cfg es).1.processed, ∃ n, read f = some (.ok (.info n r))) ∧
    (run cfg es).1.inbound = (run cfg es).1.processed.flatMap enc ++ (run cfg es).1.ubuf := by
  obtain ⟨rest, hrest⟩ := (run_inv cfg es).a.first r h
  refine ⟨⟨rest, hrest, ?_⟩, (run_inv cfg es).a.seen r h, (run_inv cfg es).b.bytes⟩
  have hw := (run_inv cfg es).w.bytes
  rw [hrest] at hw
  exact ⟨(run cfg es).1.buffer ++ (run cfg es).1.items.flatten, by rw [← List.append_assoc, hw]; simp⟩

/-- an application write is queued only on a connection that is ready, i.e. whose OP_AUTH is already queued -/
theorem ready_means_auth_queued (cfg : Cfg) (es : List Ev) (h : (run cfg es).1.ready = true) :
    ∃ r rest, (run cfg es).1.nonce = some r ∧ (run cfg es).1.enq = authFrame cfg r :: rest ∧
      (run cfg es).1.live = true := by
  obtain ⟨hs, hl⟩ := (run_inv cfg es).a.rdy h
  obtain ⟨r, hr⟩ := Option.isSome_iff_exists.mp hs
  obtain ⟨rest, hrest⟩ := (run_inv cfg es).a.first r hr
  exact ⟨r, rest, hr, hrest, hl⟩

/-- the observable form over the whole history: for EVERY connection number `k`, the bytes the OUTPUT shows
    accepted by the socket of connection `k` are nothing, or a prefix of a stream that begins with OP_AUTH -/
theorem every_connection_observable (cfg : Cfg) (es : List Ev) (k : Nat) :
    bytesOn k (run cfg es).2 = [] ∨ ∃ (r : Bytes) (tail : Bytes), bytesOn k (run cfg es).2 <+: authFrame cfg r ++ tail :=
  every_connection cfg es k

/-! non-vacuity (kernel-evaluated, hash := id).  A subscribe made before OP_INFO — thread 1 has picked the
    outbox and tests when_connected before the handshake — is not queued; the one that tests it afterwards
    is, behind OP_AUTH and the resubscription.  Thread 3 picked the outbox of connection 1, the connection
    is lost and re-made, and its frame never reaches connection 2. -/
def exCfg : Cfg := { ident := [109], secret := [115], H := id }
def exInfo (a : UInt8) : Bytes := [0,0,0,12,1,2,104,112,a,8,7,6]
example : (run exCfg [.connect, .wBegin 1 (.sub [99]), .wCheck 1, .wBegin 2 (.sub [100]), .inb ((exInfo 9).take 7),
    .sel .again, .inb ((exInfo 9).drop 7), .sel .again, .wCheck 2]).1.enq =
    [authFrame exCfg [9,8,7,6], subFrame exCfg [99], subFrame exCfg [100], subFrame exCfg [100]] := by decide +kernel
example : (run exCfg [.connect, .inb (exInfo 9), .sel .again, .wBegin 3 (.pub [99] [1]), .eof, .sel .again, .connect,
    .inb (exInfo 5), .sel .again, .wCheck 3, .wWake 3]).1.enq = [authFrame exCfg [5,8,7,6]] := by decide +kernel

end Blk
/-! ## blocking Client (hpfeeds/client.py, reconnect=True) -/
namespace Client
open Hpfeeds.BlkClient

/-- On every connection, after ANY event sequence (application steps, answers of the network to every
    blocking call, stop() at any moment, whatever the callbacks do): before the client has answered an
    OP_INFO on the current socket it has sent nothing on it. -/
theorem nothing_before_info (cfg : Cfg) (es : List Ev) (h : (run cfg es).1.nonce = none) :
    (run cfg es).1.sent = [] :=
  (kinv_run cfg es).quiet h

/-- … and everything it has sent on it begins with the OP_AUTH for the nonce it answered; while the
    connection is being set up (connect / do_auth) nothing has been answered yet. -/
theorem first_frame_is_auth (cfg : Cfg) (es : List Ev) (r : Bytes) (h : (run cfg es).1.nonce = some r) :
    ∃ rest, (run cfg es).1.sent = authFrame cfg r :: rest :=
  (kinv_run cfg es).first r h

theorem setup_is_silent (cfg : Cfg) (es : List Ev) (h : ConnPc (run cfg es).1.pc) :
    (run cfg es).1.nonce = none ∧ (run cfg es).1.sent = [] :=
  ⟨(kinv_run cfg es).pre h, (kinv_run cfg es).quiet ((kinv_run cfg es).pre h)⟩

/-- the observable form over the whole history: for EVERY socket number `k`, the frames the OUTPUT shows sent
    on socket `k` are nothing, or begin with the OP_AUTH of a nonce -/
theorem every_connection_observable (cfg : Cfg) (es : List Ev) (k : Nat) :
    wroteOn k (run cfg es).2 = [] ∨ ∃ (r : Bytes) (rest : List Bytes), wroteOn k (run cfg es).2 = authFrame cfg r :: rest :=
  every_connection cfg es k

/-- the nonce answered is the one of the OP_INFO that is the FIRST frame received on that socket: do_auth,
    in any state, given a chunk that starts (unpacker empty, as after connect()) with a well-formed frame -/
theorem answers_this_connections_info (cfg : Cfg) (s : State) (who : Who) (f : Frame) (tail n rand : Bytes)
    (hu : s.ubuf = []) (hf : f.WF) (hop : f.op.toNat = OP_INFO) (hrd : read f = some (.ok (.info n rand))) :
    (doAuth cfg s who (enc f ++ tail)).1.pc = .authSend who rand ∧ (doAuth cfg s who (enc f ++ tail)).2 = [] ∧
    (doAuth cfg s who (enc f ++ tail)).1.ubuf = tail := by
  have hh : header (s.ubuf ++ (enc f ++ tail)) = .ok (5 + f.body.length) f.op := by
    rw [hu, List.nil_append]; exact header_enc_append f tail hf
  have hp := popFrame_enc_append f tail
  unfold doAuth
  simp only [hh]
  rw [hu, List.nil_append, hp]
  simp [hop, hrd]

/-- … a first frame that is not an OP_INFO (or an incomplete one) is never answered: new connection -/
theorem no_info_no_answer (cfg : Cfg) (s : State) (who : Who) (f : Frame) (tail : Bytes)
    (hu : s.ubuf = []) (hf : f.WF) (hop : f.op.toNat ≠ OP_INFO) :
    ∃ s', doAuth cfg s who (enc f ++ tail) = retry s' who := by
  have hh : header (s.ubuf ++ (enc f ++ tail)) = .ok (5 + f.body.length) f.op := by
    rw [hu, List.nil_append]; exact header_enc_append f tail hf
  have hp := popFrame_enc_append f tail
  unfold doAuth
  simp only [hh]
  rw [hu, List.nil_append, hp]
  simp only [hop, if_false]
  exact ⟨_, rfl⟩

/-- Client.run then sends OP_SUBSCRIBE for exactly the wanted channels: from the top of run()'s loop on a
    usable connection, with every sendall succeeding, the frames written are one OP_SUBSCRIBE per member of
    the set, once each, in (sorted) set order, and then run() reads.  (`subs` is the set: below.) -/
theorem run_subscribes (cfg : Cfg) (s : State) (ch : Bytes) (rest : List Bytes) (hst : s.stopped = false)
    (hc : s.connected = true) (hu : usable s = true) (hs : sortBytes s.subs = ch :: rest) :
    (runTop s).1.pc = .subSend ch rest .run ∧
    (sendOks cfg (runTop s).1 (rest.length + 1)).2 = (sortBytes s.subs).map (fun c => Out.wrote s.nsock (subFrame cfg c)) ∧
    (sendOks cfg (runTop s).1 (rest.length + 1)).1.pc = .runRecv := by
  have e : runTop s = ({ s with pc := .subSend ch rest .run }, []) := by
    simp [runTop, hst, hs, subLoop, hu]
  rw [e]
  have := subscribe_all cfg rest { s with pc := .subSend ch rest .run } ch rfl hc hu
  exact ⟨rfl, by rw [hs]; exact this.1, this.2.1⟩

/-- the wanted set only grows (Client has subscribe() and no unsubscribe()): whatever happens, a channel the
    application subscribed — before run(), between runs, or from inside a callback — stays wanted -/
theorem wanted_is_kept (cfg : Cfg) (s : State) (e : Ev) (ch : Bytes) (h : ch ∈ s.subs) : ch ∈ (step cfg s e).1.subs :=
  (mo_step cfg s e).subs ch h

theorem subscribe_adds (cfg : Cfg) (s : State) (ch : Bytes) (h : s.pc = .idle) : ch ∈ (step cfg s (.sub ch)).1.subs := by
  simp only [step, h]
  split <;> simp_all

/-! non-vacuity (kernel-evaluated, hash := id): refused, then connected; INFO answered with ITS nonce; run()
    subscribes the two channels in set order; a later loss + reconnection answers the NEW nonce and
    resubscribes -/
def exCfg : Cfg := { ident := [109], secret := [115], H := id }
def exInfo (a : UInt8) : Bytes := [0,0,0,12,1,2,104,112,a,8,7,6]
example : (run exCfg [.new, .connRefused, .connOk, .data (exInfo 9), .sendOk, .sub [100], .sub [99], .run, .sendOk, .sendOk,
    .eof, .connOk, .data (exInfo 5), .sendOk, .sendOk, .sendOk]).2 =
    [.attempt 1, .sleep, .closed 1, .attempt 2, .wrote 2 (authFrame exCfg [9,8,7,6]),
     .wrote 2 (subFrame exCfg [99]), .wrote 2 (subFrame exCfg [100]),
     .closed 2, .attempt 3, .wrote 3 (authFrame exCfg [5,8,7,6]), .wrote 3 (subFrame exCfg [99]), .wrote 3 (subFrame exCfg [100])] := by
  decide +kernel

end Client
end Hpfeeds.C11
