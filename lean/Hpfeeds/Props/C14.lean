/-
  C14 — with an asynchronous credential store, pipelined frames wait for the verdict.

  Full statement (DESIGN.md section 7): running `data c (auth ++ rest)`, then any events `es` not about
  `c`, then the verdict, gives the observable state of running `es` first and then `data c (auth ++ rest)`
  against a synchronous store answering the same.  What is proved here is that statement decomposed into
  its load-bearing parts: `parks` (the bytes behind OP_AUTH stay in the unpacker verbatim),
  `pending_inert` (whatever else happens in between does not touch them), `verdict_is_sync_now` (the
  property's last sentence, literally: the state after a successful verdict IS the state a synchronous store
  answering the same would produce by handling OP_AUTH ++ the parked bytes at that moment), `verdict_failure`
  (never after a failed look-up).  What is NOT proved is the re-ordering form of DESIGN.md's
  `verdict_commutes` (moving the events in between across c's handler); the property does not ask for it:
  it compares with a synchronous store consulted "at the moment the lookup completed".
-/
import Hpfeeds.Lemmas.BrokerFrame
import Hpfeeds.Lemmas.BrokerStep
import Hpfeeds.Lemmas.BrokerStore
namespace Hpfeeds.C14
open Hpfeeds Hpfeeds.Broker Extracted

theorem loop_step {cfg : Cfg} {c : Nat} {s : State} {buf : Bytes} {ml : Nat} {op : UInt8}
    (h : header buf = .ok ml op) :
    loop cfg c s buf =
      match (messageReceived cfg s c (popFrame buf ml op).1).2 with
      | .cont => loop cfg c (messageReceived cfg s c (popFrame buf ml op).1).1 (popFrame buf ml op).2
      | ctl => ((messageReceived cfg s c (popFrame buf ml op).1).1, (popFrame buf ml op).2, ctl) := by
  rw [loop]
  split
  · rename_i h'; rw [h] at h'; cases h'
  · rename_i h'; rw [h] at h'; cases h'
  · rename_i ml' op' h'
    rw [h] at h'; injection h' with h1 h2; subst h1; subst h2
    rfl

/-- An OP_AUTH handled with an asynchronous store: the look-up is recorded, reading is paused, and
    NOTHING else happens — no registry, gauge or accepted-log change, no write — and the handler asks
    the loop to stop. -/
theorem auth_parks (cfg : Cfg) (s : State) (c : Nat) (x : Conn) (f : Frame) (ident digest : Bytes)
    (hx : s.conn c = some x) (hreg : x.registered = true) (hstore : cfg.store = .async)
    (hf : read f = some (.ok (.auth ident digest))) :
    messageReceived cfg s c f = (pauseReading (addPending s c ident digest) c, .brk) := by
  have hop : f.op.toNat = OP_AUTH := by rw [read_op hf]; rfl
  unfold messageReceived
  rw [hx]
  simp only [hop, ne_eq, not_true_eq_false, and_false, if_false, hf, hreg, hstore]
  rfl

/-- ... so the bytes behind the OP_AUTH stay in the unpacker verbatim (neither acted on nor dropped):
    the loop returns them as the new buffer. -/
theorem parks (cfg : Cfg) (s : State) (c : Nat) (x : Conn) (buf : Bytes) (ml : Nat) (op : UInt8)
    (ident digest : Bytes) (hx : s.conn c = some x) (hreg : x.registered = true)
    (hstore : cfg.store = .async) (hh : header buf = .ok ml op)
    (hf : read (popFrame buf ml op).1 = some (.ok (.auth ident digest))) :
    loop cfg c s buf = (pauseReading (addPending s c ident digest) c, buf.drop ml, .brk) := by
  rw [loop_step hh, auth_parks cfg s c x _ ident digest hx hreg hstore hf]
  rfl

/-- While the look-up is pending, NO event that is not about `c` touches c's parked bytes, its pending
    look-ups, its paused state or its identity; if `c` is closing nothing is written to it either.
    (Events about `c` itself: under the transport contract there is no `data c` while reading is paused;
    `lost c` is covered by C09.) -/
theorem pending_inert (cfg : Cfg) (s : State) (e : Event) (c : Nat) (y : Conn)
    (hd : e.target ≠ some c) (hy : s.conn c = some y) :
    ∃ y', (step cfg s e).conn c = some y' ∧ y'.buf = y.buf ∧ y'.pending = y.pending ∧
      y'.paused = y.paused ∧ y'.ak = y.ak ∧ y'.closing = y.closing ∧ y'.pubchans = y.pubchans ∧
      y'.subchans = y.subchans := by
  obtain ⟨y', hy', extra, r, _, _⟩ := others_step cfg s e c y hd hy
  refine ⟨y', hy', ?_, ?_, ?_, ?_, ?_, ?_, ?_⟩ <;> rw [r.eq]

/-- A successful verdict: exactly the state change a synchronous `authenticate` makes at that moment
    (identity, ACLs, gauge move, buffer limits), then ONE pass of the frame loop over the parked bytes,
    whose remainder becomes the new buffer (so every parked frame takes effect exactly once, in order),
    then reading resumes unless the loop parked again behind another OP_AUTH (fix D6) or a frame could
    not be handled (fix D8: close). -/
theorem verdict_success (cfg : Cfg) (s : State) (c i : Nat) (x : Conn) (ident digest : Bytes) (r : Lookup)
    (row : Row) (hx : s.conn c = some x) (hp : x.pending[i]? = some (ident, digest))
    (hok : authOk cfg x digest r = some row) :
    step cfg s (.lookupDone c i r) =
      (let s1 := logAct (setAuth (dropPending s c i) c ident digest row) c (.setLimits (limit OP_PUBLISH * highWaterFactor))
       let l := loop cfg c s1 x.buf
       let s2 := setBuf l.1 c l.2.1
       if l.2.2 = .crash then closeT s2 c else if l.2.2 = .brk then s2 else resumeReading s2 c) := by
  simp only [step, hx, hp, authenticate, hok, if_true]

/-- The synchronous path makes the same state change and continues the same loop over the rest of the
    buffer: `authenticate` accepted ⇒ `(logAct (setAuth …) (setLimits …), cont)`. -/
theorem sync_auth_success (cfg : Cfg) (s : State) (c : Nat) (x : Conn) (f : Frame) (ident digest : Bytes)
    (tbl : Bytes → Option Row) (row : Row)
    (hx : s.conn c = some x) (hreg : x.registered = true) (hstore : cfg.store = .sync tbl)
    (hf : read f = some (.ok (.auth ident digest))) (ht : tbl ident = some row)
    (hok : cfg.H (x.nonce ++ row.secret) = digest) :
    messageReceived cfg s c f =
      (logAct (setAuth s c ident digest row) c (.setLimits (limit OP_PUBLISH * highWaterFactor)), .cont) := by
  have hop : f.op.toNat = OP_AUTH := by rw [read_op hf]; rfl
  unfold messageReceived
  rw [hx]
  simp only [hop, ne_eq, not_true_eq_false, and_false, if_false, hf, hreg, hstore, ht, authenticate, authOk,
    hok, if_true]
  rfl

/-- THE VISIBLE OUTCOME IS THAT OF A SYNCHRONOUS STORE CONSULTED AT THE MOMENT THE LOOK-UP COMPLETED.
    In ANY state in which `c` has the look-up `(ident, digest)` pending, for ANY table `tbl` that answers
    `ident ↦ row` with a matching digest: the state after the verdict `row` equals — exactly, field by field,
    every connection's log, the registry, the gauges, the accepted log — what the frame loop of the
    SYNCHRONOUS store `tbl` produces from the state as it is now when it handles the OP_AUTH frame followed
    by the parked bytes, then (as `data_received` does) stores the unpacker's rest and resumes reading, or
    closes if a handler raised.  Side condition: the parked bytes do not park again behind a further OP_AUTH
    (then the comparison applies to that look-up in turn). -/
theorem verdict_is_sync_now (cfg : Cfg) (hstore : cfg.store = .async) (tbl : Bytes → Option Row)
    (s : State) (c i : Nat) (x : Conn) (ident digest : Bytes) (row : Row) (f : Frame)
    (hx : s.conn c = some x) (hp : x.pending[i]? = some (ident, digest)) (hreg : x.registered = true)
    (ht : tbl ident = some row) (hok : cfg.H (x.nonce ++ row.secret) = digest)
    (hf : f.WF) (hrd : read f = some (.ok (.auth ident digest)))
    (hnb : (loop cfg c (logAct (setAuth (dropPending s c i) c ident digest row) c (.setLimits (limit OP_PUBLISH * highWaterFactor)))
      x.buf).2.2 ≠ .brk) :
    step cfg s (.lookupDone c i (.row row)) =
      (let l := loop (withSync cfg tbl) c (dropPending s c i) (enc f ++ x.buf)
       let s2 := setBuf l.1 c l.2.1
       if l.2.2 = .crash then closeT s2 c else resumeReading s2 c) := by
  have hauth : authOk cfg x digest (.row row) = some row := by simp [authOk, hok]
  rw [verdict_success cfg s c i x ident digest (.row row) row hx hp hauth]
  -- the synchronous loop takes the OP_AUTH frame first ...
  have hx0 : (dropPending s c i).conn c = some { x with pending := x.pending.eraseIdx i } := by
    simp [dropPending, hx]
  have hh : header (enc f ++ x.buf) = .ok (5 + f.body.length) f.op := header_enc_append f x.buf hf
  have hpop := popFrame_enc_append f x.buf
  have hmsg : messageReceived (withSync cfg tbl) (dropPending s c i) c f =
      (logAct (setAuth (dropPending s c i) c ident digest row) c (.setLimits (limit OP_PUBLISH * highWaterFactor)), .cont) :=
    sync_auth_success (withSync cfg tbl) (dropPending s c i) c _ f ident digest tbl row hx0 hreg rfl hrd ht hok
  have hl : loop (withSync cfg tbl) c (dropPending s c i) (enc f ++ x.buf) =
      loop (withSync cfg tbl) c (logAct (setAuth (dropPending s c i) c ident digest row) c (.setLimits (limit OP_PUBLISH * highWaterFactor))) x.buf := by
    rw [loop_ok' hh, hpop, hmsg]
  -- ... and from there on the store is irrelevant
  rw [hl, loop_store_irrelevant cfg tbl hstore c _ _ hnb]
  simp only [hnb, if_false]

/-- A failed look-up (unknown ident, wrong digest, or the store raising): OP_ERROR + close, and that is
    all — the parked bytes are still in the buffer, untouched, and are never processed: the connection is
    closing (no more `data`), and by C04.no_publish_after_close nothing is ever delivered to it. -/
theorem verdict_failure (cfg : Cfg) (s : State) (c i : Nat) (x : Conn) (ident digest : Bytes) (r : Lookup)
    (hx : s.conn c = some x) (hp : x.pending[i]? = some (ident, digest))
    (hbad : authOk cfg x digest r = none) :
    step cfg s (.lookupDone c i r) = errorClose (dropPending s c i) c ∧
    (step cfg s (.lookupDone c i r)).accepted = s.accepted ∧
    (step cfg s (.lookupDone c i r)).subs = s.subs ∧
    ∃ y, (step cfg s (.lookupDone c i r)).conn c = some y ∧ y.buf = x.buf ∧ y.closing = true ∧
      y.ak = x.ak ∧ y.active = x.active := by
  have h1 : step cfg s (.lookupDone c i r) = errorClose (dropPending s c i) c := by
    simp only [step, hx, hp, authenticate, hbad]
    simp
  refine ⟨h1, by rw [h1]; rfl, by rw [h1]; rfl, ?_⟩
  have hx0 : (dropPending s c i).conn c = some { x with pending := x.pending.eraseIdx i } := by
    simp [dropPending, hx]
  obtain ⟨y, hy, hc, _, ha, hk, _, _, _, _⟩ := (errorClose_rejected (dropPending s c i) c).self _ hx0
  refine ⟨y, by rw [h1]; exact hy, ?_, hc, hk, ha⟩
  -- errorClose touches `out`, `closing`, `pubsAtClose` only
  have h2 := closeT_conn_eq (logAct_conn_self (a := .write errFrame) hx0)
  rw [show closeT (logAct (dropPending s c i) c (.write errFrame)) c = errorClose (dropPending s c i) c from rfl,
    hy] at h2
  cases h2
  split <;> simp [Conn.beginClose] <;> split <;> rfl

/-! non-vacuity (kernel-evaluated): AUTH + SUBSCRIBE + PUBLISH pipelined in one chunk against an
    asynchronous store; nothing happens until the verdict; after it, the subscription and the publish
    have taken effect exactly once. -/
def exRow : Row := ⟨[115], [111], [[99]], [[99]]⟩
def exCfg : Cfg := ⟨[104], .async, id⟩
def exChunk : Bytes := [0,0,0,12,2,1,97,1,2,3,4,115] ++ [0,0,0,8,4,1,97,99] ++ [0,0,0,10,3,1,97,1,99,7]
example : ((run exCfg [.connect 1 [1,2,3,4], .data 1 exChunk]).conn 1).map
    (fun y => (y.ak, y.active, y.paused, y.buf.length, y.pending.length)) = some (none, [], true, 18, 1) ∧
    (run exCfg [.connect 1 [1,2,3,4], .data 1 exChunk]).accepted.length = 0 := by decide +kernel
example : ((run exCfg [.connect 1 [1,2,3,4], .data 1 exChunk, .lookupDone 1 0 (.row exRow)]).conn 1).map
    (fun y => (y.ak, y.active, y.paused, y.buf.length, pubFrames y.out)) =
      some (some [97], [[99]], false, 0, [pubFrame [97] [99] [7]]) := by decide +kernel
example : ((run exCfg [.connect 1 [1,2,3,4], .data 1 exChunk, .lookupDone 1 0 .missing]).conn 1).map
    (fun y => (y.ak, y.active, y.closing, y.buf.length)) = some (none, [], true, 18) := by decide +kernel

/-- the comparison is not vacuous: the example above, against the synchronous store that knows `a` -/
def exTbl : Bytes → Option Row := fun i => if i = [97] then some exRow else none
example : step exCfg (run exCfg [.connect 1 [1,2,3,4], .data 1 exChunk]) (.lookupDone 1 0 (.row exRow)) =
    (let l := loop (withSync exCfg exTbl) 1 (dropPending (run exCfg [.connect 1 [1,2,3,4], .data 1 exChunk]) 1 0)
      (enc ⟨2, [1,97,1,2,3,4,115]⟩ ++ ([0,0,0,8,4,1,97,99] ++ [0,0,0,10,3,1,97,1,99,7]))
     let s2 := setBuf l.1 1 l.2.1
     if l.2.2 = .crash then closeT s2 1 else resumeReading s2 1) := by
  have hx : (run exCfg [.connect 1 [1,2,3,4], .data 1 exChunk]).conn 1 =
      some (((run exCfg [.connect 1 [1,2,3,4], .data 1 exChunk]).conn 1).get (by decide +kernel)) := by simp
  refine verdict_is_sync_now exCfg rfl exTbl _ 1 0 _ [97] [1,2,3,4,115] exRow ⟨2, [1,97,1,2,3,4,115]⟩ hx
    (by decide +kernel) (by decide +kernel) rfl (by decide +kernel) (by decide +kernel) (by rfl) ?_ |>.trans ?_
  · decide +kernel
  · have hb : (((run exCfg [.connect 1 [1,2,3,4], .data 1 exChunk]).conn 1).get (by decide +kernel)).buf =
        [0,0,0,8,4,1,97,99] ++ [0,0,0,10,3,1,97,1,99,7] := by decide +kernel
    rw [hb]

end Hpfeeds.C14
