/-
  C09 — a connection that ends at any point is forgotten completely.
  All statements are over ALL event histories (no validity assumption): pre-auth, mid-frame, with a
  look-up pending, subscribed, read-paused, with a deadline armed, already closing — every state the
  history can have produced.
-/
import Hpfeeds.Lemmas.BrokerMono
namespace Hpfeeds.C09
open Hpfeeds Hpfeeds.Broker

/-- a record the broker has unregistered (by `connection_lost` from the transport, or by the forced
    `connection_lost` in `Server.publish`) holds no subscription and is in no channel's registry -/
theorem unregistered_forgotten (cfg : Cfg) (es : List Event) (c : Nat) (x : Conn)
    (hx : (run cfg es).conn c = some x) (hr : x.registered = false) :
    x.active = [] ∧ ∀ ch, c ∉ (run cfg es).subs ch := by
  have h := reg_run cfg es
  have ha := h.unreg_empty c x hx hr
  refine ⟨ha, fun ch hm => ?_⟩
  obtain ⟨y, hy, hm'⟩ := (h.sub_iff ch c).mp hm
  rw [hx] at hy; cases hy; rw [ha] at hm'; cases hm'

theorem lost_sets_gone (cfg : Cfg) (s : State) (c : Nat) (x : Conn)
    (hx : (step cfg s (.lost c)).conn c = some x) : x.gone = true := by
  simp only [step] at hx
  split at hx
  · rename_i h; rw [h] at hx; cases hx
  · rename_i y hy
    split at hx
    · rename_i hg; rw [hy] at hx; cases hx; exact hg
    · simp only [lostConn, markGone, upd_conn, if_true] at hx
      cases h : (peerClose (connectionLost s c) c).conn c with
      | none => simp [h] at hx
      | some z => simp [h] at hx; rw [← hx]

/-- Right after the transport reports `c` lost — whatever state `c` was in — the broker no longer
    treats it as a connection or as a subscriber of any channel. -/
theorem lost_forgets (cfg : Cfg) (es : List Event) (c : Nat) (x : Conn)
    (hx : (run cfg (es ++ [.lost c])).conn c = some x) :
    x.gone = true ∧ x.registered = false ∧ x.active = [] ∧ ∀ ch, c ∉ (run cfg (es ++ [.lost c])).subs ch := by
  have hg : x.gone = true := by
    have : run cfg (es ++ [.lost c]) = step cfg (run cfg es) (.lost c) := by
      simp [Broker.run, List.foldl_append]
    rw [this] at hx
    exact lost_sets_gone cfg _ c x hx
  have hr := ((reg_run cfg _).gone_closed c x hx hg).2
  exact ⟨hg, hr, unregistered_forgotten cfg _ c x hx hr⟩

/-- ... and it stays forgotten under EVERY later event: late look-up verdicts for it, its deadline
    timer firing, other connections publishing on its former channels, more bytes, anything. -/
theorem lost_stable (cfg : Cfg) (es es' : List Event) (c : Nat) (x : Conn)
    (hx : (run cfg es).conn c = some x) (hg : x.gone = true) :
    ∃ y, (run cfg (es ++ es')).conn c = some y ∧ y.gone = true ∧ y.registered = false ∧ y.active = [] ∧
      ∀ ch, c ∉ (run cfg (es ++ es')).subs ch := by
  have hrun : run cfg (es ++ es') = es'.foldl (step cfg) (run cfg es) := by
    simp [Broker.run, List.foldl_append]
  obtain ⟨y, hy, m⟩ := mono_steps cfg (run cfg es) es' c x hx
  rw [← hrun] at hy
  have hg' := m.gone hg
  have hr := ((reg_run cfg _).gone_closed c y hy hg').2
  exact ⟨y, hy, hg', hr, unregistered_forgotten cfg _ c y hy hr⟩

/-- The loss of `c` changes no other connection's record and nobody else's registry membership. -/
theorem others_unaffected (cfg : Cfg) (es : List Event) (c d : Nat) (hd : d ≠ c) :
    (run cfg (es ++ [.lost c])).conn d = (run cfg es).conn d ∧
    ∀ ch, d ∈ (run cfg (es ++ [.lost c])).subs ch ↔ d ∈ (run cfg es).subs ch := by
  have hrun : run cfg (es ++ [.lost c]) = step cfg (run cfg es) (.lost c) := by
    simp [Broker.run, List.foldl_append]
  have hc : (step cfg (run cfg es) (.lost c)).conn d = (run cfg es).conn d := by
    simp only [step]
    split
    · rfl
    · split
      · rfl
      · simp only [lostConn, markGone, upd_conn, hd, if_false]
        unfold peerClose
        split
        · exact connectionLost_conn_ne hd
        · split
          · exact connectionLost_conn_ne hd
          · simp only [upd_conn, hd, if_false, logAct]
            exact connectionLost_conn_ne hd
  refine ⟨by rw [hrun]; exact hc, fun ch => ?_⟩
  rw [(reg_run cfg _).sub_iff, (reg_run cfg es).sub_iff, hrun, hc]

/-- A connection can also never be registered again once the broker unregistered it. -/
theorem unregistered_stable (cfg : Cfg) (es es' : List Event) (c : Nat) (x : Conn)
    (hx : (run cfg es).conn c = some x) (hr : x.registered = false) :
    ∃ y, (run cfg (es ++ es')).conn c = some y ∧ y.registered = false ∧ y.active = [] := by
  have hrun : run cfg (es ++ es') = es'.foldl (step cfg) (run cfg es) := by
    simp [Broker.run, List.foldl_append]
  obtain ⟨y, hy, m⟩ := mono_steps cfg (run cfg es) es' c x hx
  rw [← hrun] at hy
  exact ⟨y, hy, m.unreg hr, (unregistered_forgotten cfg _ c y hy (m.unreg hr)).1⟩

/-! non-vacuity: a connection that is really present is lost -/
example : ∃ x, (run ⟨[], .async, id⟩ [.connect 1 [1,2,3,4], .lost 1]).conn 1 = some x := by
  simp [Broker.run, step, addConn, init, lostConn, markGone, peerClose, connectionLost, logAct, State.upd,
    countLost]

end Hpfeeds.C09
