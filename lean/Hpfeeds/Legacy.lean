/-
  Pre-fix definitions of code that received a "fix:" commit, with kernel-checked witnesses of the
  violation (so the reason each fix was needed stays machine-checked, and the witnesses stay in the
  correspondence corpus).
-/
import Hpfeeds.Model.Wire
namespace Hpfeeds.Legacy
open Hpfeeds Extracted

/-! ### D1 — `Unpacker.ready()` before "fix: reject frame headers announcing a length below the
    5-byte header" (commit 87e0078): no lower bound on the announced length. -/

/-- Python `l[:k]` for a possibly negative `k` -/
def pySliceTo (l : Bytes) (k : Int) : Bytes :=
  if k ≥ 0 then l.take k.toNat else l.take (l.length - (-k).toNat)
/-- Python `del l[:k]` for a possibly negative `k` -/
def pyDelTo (l : Bytes) (k : Int) : Bytes :=
  if k ≥ 0 then l.drop k.toNat else l.drop (l.length - (-k).toNat)

/-- pinned `ready()`: `some ml` when it returned True -/
def legacyReady (buf : Bytes) : Option Int :=
  match buf with
  | b0 :: b1 :: b2 :: b3 :: op :: _ =>
    let ml := toSigned (u32 b0 b1 b2 b3)
    if op.toNat < OP_ERROR ∨ op.toNat > OP_UNSUBSCRIBE then none
    else if ml > (limit op.toNat : Int) then none
    else if (buf.length : Int) < ml then none
    else some ml
  | _ => none

/-- pinned `pop()` -/
def legacyPop (buf : Bytes) (ml : Int) : Bytes × Bytes :=
  (pySliceTo (buf.drop 5) (ml - 5), pyDelTo buf ml)

/-- A header announcing length 0 is "ready", and popping it consumes nothing: the pinned decoder
    yields empty frames for ever (for any following bytes `x`). -/
theorem d1_no_progress (x : Bytes) :
    legacyReady ([0, 0, 0, 0, 1] ++ x) = some 0 ∧
    (legacyPop ([0, 0, 0, 0, 1] ++ x) 0).2 = [0, 0, 0, 0, 1] ++ x := by
  constructor
  · simp [legacyReady, u32, toSigned, OP_ERROR, OP_UNSUBSCRIBE]
    omega
  · simp [legacyPop, pyDelTo]

/-- the same with the most negative length -/
theorem d1_no_progress_neg (x : Bytes) (hx : x.length + 5 ≤ 2147483648) :
    legacyReady ([128, 0, 0, 0, 1] ++ x) = some (-2147483648) ∧
    (legacyPop ([128, 0, 0, 0, 1] ++ x) (-2147483648)).2 = [128, 0, 0, 0, 1] ++ x := by
  constructor
  · simp [legacyReady, u32, toSigned, OP_ERROR, OP_UNSUBSCRIBE]
    omega
  · have : x.length + 1 + 1 + 1 + 1 + 1 - 2147483648 = 0 := by omega
    simp [legacyPop, pyDelTo, this]

/-- the fixed decoder rejects both headers at once -/
theorem d1_fixed (x : Bytes) :
    header ([0, 0, 0, 0, 1] ++ x) = .bad .tooSmall ∧ header ([128, 0, 0, 0, 1] ++ x) = .bad .tooSmall := by
  constructor <;> simp [header, u32, toSigned, OP_ERROR, OP_UNSUBSCRIBE] <;> omega

end Hpfeeds.Legacy

namespace Hpfeeds.Legacy

/-! ### D2 — `Server.subscribe` / `unsubscribe` before "fix: make broker subscribe/unsubscribe idempotent
    per connection and channel" (commit d618c60): the channel list was appended to unconditionally while
    `active_subscriptions` is a set, and `unsubscribe` / `connection_lost` removed one entry per set
    element. -/

/-- pinned `self.subscriptions[chan].append(source)` -/
def legacySub (l : List Nat) (c : Nat) : List Nat := l ++ [c]
/-- pinned `if source in self.subscriptions[chan]: self.subscriptions[chan].remove(source)` -/
def legacyUnsub (l : List Nat) (c : Nat) : List Nat := l.erase c

/-- SUBSCRIBE, SUBSCRIBE, UNSUBSCRIBE: the connection is still in the channel's list (so it still gets
    every message, C08) -/
theorem d2_still_subscribed : 1 ∈ legacyUnsub (legacySub (legacySub [] 1) 1) 1 := by decide

/-- SUBSCRIBE, SUBSCRIBE, then connection_lost (one unsubscribe for the one set element): a stale entry
    for a connection whose `server` is now None — the next publisher on the channel runs
    `dest.connection_lost(None)` on it and crashes with AttributeError in its own callback (C10) -/
theorem d2_stale_entry : legacyUnsub (legacySub (legacySub [2] 1) 1) 1 = [2, 1] := by decide

/-- pinned gauge arithmetic: `unsubscribe` decremented unconditionally -/
def legacyGaugeAfterUnsubOfNeverSubscribed : Int := 0 - 1
theorem d2_negative_gauge : legacyGaugeAfterUnsubOfNeverSubscribed < 0 := by decide

end Hpfeeds.Legacy

namespace Hpfeeds.Legacy

/-! ### D3 — env store before "fix: env authenticator grants no channel when PUBCHANS/SUBCHANS is unset or
    empty" (commit f9b4812): `get_key(ident, 'pubchans', '').split(',')`. -/

def legacySplitComma (s : Bytes) : List Bytes := s.splitOn 44

/-- an identity with only a SECRET was granted the channel named '' -/
theorem d3_empty_grant : ([] : Bytes) ∈ legacySplitComma [] := by decide

end Hpfeeds.Legacy
