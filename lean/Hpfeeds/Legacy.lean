/-
  Pre-fix definitions of code that received a "fix:" commit, with kernel-checked witnesses of the
  violation (so the reason each fix was needed stays machine-checked, and the witnesses stay in the
  correspondence corpus).
-/
import Hpfeeds.Model.Wire
import Hpfeeds.Model.BlkSession
import Hpfeeds.Model.BlkClient
namespace Hpfeeds.Legacy
open Hpfeeds Extracted

/-! ### D1 — `Unpacker.ready()` before "fix: reject frame headers announcing a length below the
    5-byte header" (commit 87e0078): no lower bound on the announced length. -/

/-- Python `l[:k]` for a possibly negative `k` -/
def pySliceTo (l : Bytes) (k : Int) : Bytes :=
  if k ≥ 0 then l.take k.toNat else l.take (l.length - (-k).toNat)
/-- Python `del l[:k]` for a possibly negative `k` -/
def pyDelTo (l : Bytes) (k : Int) : Bytes :=
  if k ≥ 0 then l.drop k.toNat else l.drop (l.length - (-k).toNat)

/-- pinned `ready()`: `some ml` when it returned True -/
def legacyReady (buf : Bytes) : Option Int :=
  match buf with
  | b0 :: b1 :: b2 :: b3 :: op :: _ =>
    let ml := toSigned (u32 b0 b1 b2 b3)
    if op.toNat < OP_ERROR ∨ op.toNat > OP_UNSUBSCRIBE then none
    else if ml > (limit op.toNat : Int) then none
    else if (buf.length : Int) < ml then none
    else some ml
  | _ => none

/-- pinned `pop()` -/
def legacyPop (buf : Bytes) (ml : Int) : Bytes × Bytes :=
  (pySliceTo (buf.drop 5) (ml - 5), pyDelTo buf ml)

/-- A header announcing length 0 is "ready", and popping it consumes nothing: the pinned decoder
    yields empty frames for ever (for any following bytes `x`). -/
theorem d1_no_progress (x : Bytes) :
    legacyReady ([0, 0, 0, 0, 1] ++ x) = some 0 ∧
    (legacyPop ([0, 0, 0, 0, 1] ++ x) 0).2 = [0, 0, 0, 0, 1] ++ x := by
  constructor
  · simp [legacyReady, u32, toSigned, OP_ERROR, OP_UNSUBSCRIBE]
    omega
  · simp [legacyPop, pyDelTo]

/-- the same with the most negative length -/
theorem d1_no_progress_neg (x : Bytes) (hx : x.length + 5 ≤ 2147483648) :
    legacyReady ([128, 0, 0, 0, 1] ++ x) = some (-2147483648) ∧
    (legacyPop ([128, 0, 0, 0, 1] ++ x) (-2147483648)).2 = [128, 0, 0, 0, 1] ++ x := by
  constructor
  · simp [legacyReady, u32, toSigned, OP_ERROR, OP_UNSUBSCRIBE]
    omega
  · have : x.length + 1 + 1 + 1 + 1 + 1 - 2147483648 = 0 := by omega
    simp [legacyPop, pyDelTo, this]

/-- the fixed decoder rejects both headers at once -/
theorem d1_fixed (x : Bytes) :
    header ([0, 0, 0, 0, 1] ++ x) = .bad .tooSmall ∧ header ([128, 0, 0, 0, 1] ++ x) = .bad .tooSmall := by
  constructor <;> simp [header, u32, toSigned, OP_ERROR, OP_UNSUBSCRIBE] <;> omega

end Hpfeeds.Legacy

namespace Hpfeeds.Legacy

/-! ### D2 — `Server.subscribe` / `unsubscribe` before "fix: make broker subscribe/unsubscribe idempotent
    per connection and channel" (commit d618c60): the channel list was appended to unconditionally while
    `active_subscriptions` is a set, and `unsubscribe` / `connection_lost` removed one entry per set
    element. -/

/-- pinned `self.subscriptions[chan].append(source)` -/
def legacySub (l : List Nat) (c : Nat) : List Nat := l ++ [c]
/-- pinned `if source in self.subscriptions[chan]: self.subscriptions[chan].remove(source)` -/
def legacyUnsub (l : List Nat) (c : Nat) : List Nat := l.erase c

/-- SUBSCRIBE, SUBSCRIBE, UNSUBSCRIBE: the connection is still in the channel's list (so it still gets
    every message, C08) -/
theorem d2_still_subscribed : 1 ∈ legacyUnsub (legacySub (legacySub [] 1) 1) 1 := by decide

/-- SUBSCRIBE, SUBSCRIBE, then connection_lost (one unsubscribe for the one set element): a stale entry
    for a connection whose `server` is now None — the next publisher on the channel runs
    `dest.connection_lost(None)` on it and crashes with AttributeError in its own callback (C10) -/
theorem d2_stale_entry : legacyUnsub (legacySub (legacySub [2] 1) 1) 1 = [2, 1] := by decide

/-- pinned gauge arithmetic: `unsubscribe` decremented unconditionally -/
def legacyGaugeAfterUnsubOfNeverSubscribed : Int := 0 - 1
theorem d2_negative_gauge : legacyGaugeAfterUnsubOfNeverSubscribed < 0 := by decide

end Hpfeeds.Legacy

namespace Hpfeeds.Legacy

/-! ### D3 — env store before "fix: env authenticator grants no channel when PUBCHANS/SUBCHANS is unset or
    empty" (commit f9b4812): `get_key(ident, 'pubchans', '').split(',')`. -/

def legacySplitComma (s : Bytes) : List Bytes := s.splitOn 44

/-- an identity with only a SECRET was granted the channel named '' -/
theorem d3_empty_grant : ([] : Bytes) ∈ legacySplitComma [] := by decide

end Hpfeeds.Legacy

namespace Hpfeeds.Legacy
open Hpfeeds Extracted

/-! ### D4 — blocking thread session before "fix: blocking ClientSession writes nothing before OP_AUTH and
    resubscribes once a connection is ready" (commit a2cc5f5): `Reactor._connect` set `when_connected` right
    after the TCP connect, and `ClientSession.subscribe/publish` put their frame into the reactor's outbox
    unconditionally. -/
namespace D4
open Hpfeeds.BlkSession

def legacyStep (cfg : Cfg) (s : State) : Ev → State × List Out
  | .connect => let r := step cfg s .connect; ({ r.1 with ready := r.1.live }, r.2)
  | .wCheck t =>
    match s.thr t with
    | .captured _ f =>
      ({ s with thr := fun u => if u = t then .midPut s.gen else s.thr u,
                items := s.items ++ [f], mid := s.mid + 1, enq := s.enq ++ [f] }, [])
    | _ => (s, [])
  | e => step cfg s e

def legacyRun (cfg : Cfg) (es : List Ev) : State × List Out :=
  es.foldl (fun acc e => let r := legacyStep cfg acc.1 e; (r.1, acc.2 ++ r.2)) ({}, [])

def exCfg : Cfg := { ident := [109], secret := [115], H := id }

/-- start(); subscribe('c') before OP_INFO arrives: the OP_SUBSCRIBE is on the wire although no OP_INFO was
    received (`nonce = none`) — the negation of C11.Blk.nothing_before_info, observed on real sockets as
    "broker sees opcodes [4, 4, 2]" (findings/d4_blocking_session_real_sockets.py) -/
theorem d4_write_before_auth :
    (legacyRun exCfg [.connect, .wBegin 1 (.sub [99]), .wCheck 1, .wWake 1, .sel (.accept 100)]).1.nonce = none ∧
    (legacyRun exCfg [.connect, .wBegin 1 (.sub [99]), .wCheck 1, .wWake 1, .sel (.accept 100)]).1.wire =
      subFrame exCfg [99] := by decide +kernel

/-- the repaired model on the same events: nothing on the wire -/
theorem d4_fixed : (run exCfg [.connect, .wBegin 1 (.sub [99]), .wCheck 1, .wWake 1, .sel (.accept 100)]).1.wire = [] := by
  decide +kernel
end D4

/-! ### D9 — blocking `Client` before "fix: Client.publish resubscribes after it had to reconnect" (commit
    56caa82): `publish()` on a send failure called `tryconnect()` and returned. -/
namespace D9
open Hpfeeds.BlkClient

def legacyStep (cfg : Cfg) (s : State) (e : Ev) : State × List Out :=
  match s.pc, e with
  | .authSend (.pub k) rand, .sendOk =>
    let s1 := { s with sent := s.sent ++ [authFrame cfg rand], nonce := some rand, pc := .idle }
    let r := afterPub cfg s1 k          -- back in publish()'s caller: no `_subscribe()`
    (r.1, .wrote s.nsock (authFrame cfg rand) :: r.2)
  | _, _ => step cfg s e

def legacyRun (cfg : Cfg) (es : List Ev) : State × List Out :=
  es.foldl (fun acc e => let r := legacyStep cfg acc.1 e; (r.1, acc.2 ++ r.2)) ({}, [])

/-- message_callback publishes a reply when the payload starts with 'P' -/
def exCfg : Cfg := { ident := [109], secret := [115], H := id,
                     react := fun m => match m.2.2 with | 80 :: r => [.pub [114] r] | _ => [] }
def exInfo (a : UInt8) : Bytes := [0,0,0,12,1,2,104,112,a,8,7,6]
def exPub : Bytes := [0,0,0,10,3,1,97,1,99,80]
def exEvs : List Ev :=
  [.new, .connOk, .data (exInfo 9), .sendOk, .sub [99], .run, .sendOk, .data exPub, .sockErr,
   .connOk, .data (exInfo 5), .sendOk]

/-- run() with a subscription; the callback's publish() fails, reconnects and authenticates — and run() is back
    in recv() on a socket on which only OP_AUTH was ever sent although the application wants channel "c":
    the negation of C11's "Client.run then sends OP_SUBSCRIBE for exactly the channels the application wants"
    on that connection (real sockets: findings/d9_client_publish_reconnect_no_resubscribe.py) -/
theorem d9_not_resubscribed :
    (legacyRun exCfg exEvs).1.pc = .runRecv ∧ (legacyRun exCfg exEvs).1.subs = [[99]] ∧
    (legacyRun exCfg exEvs).1.sent = [authFrame exCfg [5,8,7,6]] := by decide +kernel

/-- the repaired model on the same events: it is sending the OP_SUBSCRIBE -/
theorem d9_fixed : (run exCfg exEvs).1.pc = .subSend [99] [] (.pub (.cb [])) := by decide +kernel
end D9


end Hpfeeds.Legacy
