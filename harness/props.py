"""Per-property wiring: Lean module holding the theorems, engines that tie the model to the code and
host the monitors, and the trusted-base notes that go into the evidence."""

TRUSTED_COMMON = [
    'Lean 4.33.0 kernel (thorough tier: re-checked with leanchecker)',
    'axioms: subset of {propext, Classical.choice, Quot.sound}, audited per theorem with #print axioms on every run; no sorry/admit/native_decide/bv_decide/own axioms (grep on every run)',
    'constants OP_*, SIZES, MAXBUF, BUFSIZ regenerated from hpfeeds/protocol.py on every run (harness/extract.py)',
    'hand-written model tied to the code by the correspondence check of this run (generators, fakes, canonicaliser, independent frame parser are trusted)',
]

PROPS = {
    'C01': dict(
        module='Hpfeeds.Props.C01', file='Hpfeeds/Props/C01.lean',
        engines=[('broker', dict(prop='C01'))],
        trusted=['asyncio transport/loop contract as implemented by harness FakeTransport/VirtualLoop (DESIGN.md 3c)', 'callback granularity: every broker callback runs to completion (single-threaded asyncio)'],
    ),
    'C03': dict(
        module='Hpfeeds.Props.C03', file='Hpfeeds/Props/C03.lean',
        engines=[('broker', dict(prop='C03')), ('stores', dict())],
        trusted=['asyncio transport/loop contract as implemented by harness FakeTransport/VirtualLoop (DESIGN.md 3c)', 'credential rows carry lists of str channels (list membership = string equality)', 'the broker runs on the memory store; the other stores enter through the stores engine: a store that answers an unconfigured identity with another identity\'s record lends that identity a name and a publish list (rule store-lends-identity)'],
    ),
    'C04': dict(
        module='Hpfeeds.Props.C04', file='Hpfeeds/Props/C04.lean',
        engines=[('broker', dict(prop='C04'))],
        trusted=['asyncio transport/loop contract as implemented by harness FakeTransport/VirtualLoop (DESIGN.md 3c), in particular: write() after close() is accepted by a selector transport, so only the broker not writing protects a closing connection'],
    ),
    'C09': dict(
        module='Hpfeeds.Props.C09', file='Hpfeeds/Props/C09.lean',
        engines=[('broker', dict(prop='C09'))],
        trusted=['asyncio transport/loop contract as implemented by harness FakeTransport/VirtualLoop (DESIGN.md 3c): connection_lost is reported once per transport'],
    ),
    'C02': dict(
        module='Hpfeeds.Props.C02', file='Hpfeeds/Props/C02.lean',
        engines=[('broker', dict(prop='C02'))],
        trusted=['asyncio transport/loop contract as implemented by harness FakeTransport/VirtualLoop (DESIGN.md 3c)', 'os.urandom nonce variety is decided by the monitor on the implementation only'],
    ),
    'C08': dict(
        module='Hpfeeds.Props.C08', file='Hpfeeds/Props/C08.lean',
        engines=[('broker', dict(prop='C08'))],
        trusted=['asyncio transport/loop contract as implemented by harness FakeTransport/VirtualLoop (DESIGN.md 3c)'],
    ),
    'C10': dict(
        module='Hpfeeds.Props.C10', file='Hpfeeds/Props/C10.lean',
        engines=[('broker', dict(prop='C10'))],
        trusted=['asyncio transport/loop contract as implemented by harness FakeTransport/VirtualLoop (DESIGN.md 3c)', 'CPU/memory exhaustion and hangs inside C code are outside the model (per-event watchdog only)'],
    ),
    'C14': dict(
        module='Hpfeeds.Props.C14', file='Hpfeeds/Props/C14.lean',
        engines=[('broker', dict(prop='C14'))],
        trusted=['asyncio transport/loop contract as implemented by harness FakeTransport/VirtualLoop (DESIGN.md 3c)', 'a store answers all look-ups synchronously or all asynchronously within one run'],
    ),
    'C15': dict(
        module='Hpfeeds.Props.C15', file='Hpfeeds/Props/C15.lean',
        engines=[('broker', dict(prop='C15'))],
        trusted=['asyncio transport/loop contract as implemented by harness FakeTransport/VirtualLoop (DESIGN.md 3c)', 'that asyncio calls pause_writing/resume_writing at the high/low-water marks is library behaviour'],
    ),
    'C16': dict(
        module='Hpfeeds.Props.C16', file='Hpfeeds/Props/C16.lean',
        engines=[('proto3', dict())],
        trusted=['the three models are written separately from the three files and each is compared with its own class on every run', 'recording subclasses of the real classes; fake transport with write/close/loseConnection'],
    ),
    'C17': dict(
        module='Hpfeeds.Props.C17', file='Hpfeeds/Props/C17.lean',
        engines=[('stores', dict())],
        trusted=['modelled, not verified: sqlite3 engine, json module, os.environ, str.upper (the correspondence run builds the REAL stores and carries the hostile-string claim)'],
    ),
    'C18': dict(
        module='Hpfeeds.Props.C18', file='Hpfeeds/Props/C18.lean',
        engines=[('jsonreload', dict())],
        trusted=["json.load is an input of the model (parsed value or failure)", 'inotify scheduling is not modelled'],
    ),
    'C19': dict(
        module='Hpfeeds.Props.C19', file='Hpfeeds/Props/C19.lean',
        engines=[('broker', dict(prop='C19'))],
        trusted=['asyncio transport/loop contract as implemented by harness FakeTransport/VirtualLoop (DESIGN.md 3c)', 'prometheus_client arithmetic (inc/dec/labels) is modelled by integer maps; samples are read through REGISTRY.get_sample_value / collect()'],
    ),
    'C11': dict(
        module='Hpfeeds.Props.C11', file='Hpfeeds/Props/C11.lean',
        engines=[('aioclient', dict(prop='C11')), ('twclient', dict(prop='C11')), ('blkreactor', dict(prop='C11')), ('blkclient', dict(prop='C11'))],
        trusted=['asyncio task machinery / Twisted ClientService are library code: create_connection and the endpoint are scripted (accept/refuse), transports are fakes, time is virtual', 'application calls are injected at quiescent points of the session\'s own tasks'],
    ),
    'C12': dict(
        module='Hpfeeds.Props.C12', file='Hpfeeds/Props/C12.lean',
        engines=[('aioclient', dict(prop='C12')), ('twclient', dict(prop='C12')), ('blkreactor', dict(prop='C12')), ('blkclient', dict(prop='C12'))],
        trusted=['asyncio.Queue / DeferredQueue are modelled as FIFO lists (library contract)', 'asyncio delivers no data_received after transport.close() or connection_lost'],
    ),
    'C13': dict(
        module='Hpfeeds.Props.C13', file='Hpfeeds/Props/C13.lean',
        engines=[('aioclient', dict(prop='C13')), ('twclient', dict(prop='C13')), ('blkclient', dict(prop='C13'))],
        trusted=['real DNS/TCP failures are represented by the two outcomes accept / refuse; the liveness claim is proved in bounded-response form (DESIGN.md section 7, C13)', 'the harness reports connection_lost for every transport the client closed and advances the virtual clock by 5 s before judging close()'],
    ),
    'C20': dict(
        module='Hpfeeds.Props.C20', file='Hpfeeds/Props/C20.lean',
        engines=[('blkreactor', dict(prop='C20'))],
        trusted=['the reactor is driven round by round by the harness (scripted socket and send outcomes, real readiness of the real socket pairs); application threads are real threads stopped at gates or at every line of hpfeeds/blocking/*.py',
                 'queue.Queue\'s lock, the GIL and the atomicity of one send()/recv() system call are library / OS behaviour; preemption inside a Python statement, a send() blocking on a full socket pair and send() errors other than EAGAIN/EWOULDBLOCK are not modelled'],
    ),
    'C05': dict(
        module='Hpfeeds.Props.C05', file='Hpfeeds/Props/C05.lean',
        engines=[('codec', dict(sections=['roundtrip', 'roundtrip-stream', 'readers']))],
        trusted=['modelled not verified: struct.pack/unpack, Python UTF-8 codec (compared with core Lean validateUTF8 each run), hashlib.sha1'],
    ),
    'C06': dict(
        module='Hpfeeds.Props.C06', file='Hpfeeds/Props/C06.lean',
        engines=[('codec', dict(sections=['chunking']))],
        trusted=['modelled not verified: bytearray slicing semantics of Unpacker.pop (compared each run)'],
    ),
    'C07': dict(
        module='Hpfeeds.Props.C07', file='Hpfeeds/Props/C07.lean',
        engines=[('codec', dict(sections=['lattice', 'chunking']))],
        trusted=['modelled not verified: struct.unpack signedness, exception class hierarchy (checked by the monitor)'],
    ),
}
