"""Run seedcheck on every /verif/seeded/<id>/ (or the ids given) and write meta.json there."""
import json
import os
import subprocess
import sys

VERIF = os.path.dirname(os.path.dirname(os.path.abspath(__file__)))
EXTRA = {  # other properties whose checks should also be tried on a seed
    'C01': ['C10'], 'C03': ['C01'], 'C04': ['C01'], 'C05': ['C06'], 'C06': ['C07', 'C05'], 'C07': ['C06'], 'C09': ['C01', 'C10'],
    'C02': ['C03'], 'C08': ['C01', 'C19'], 'C10': ['C01'], 'C14': ['C02'], 'C15': ['C10'], 'C19': ['C08', 'C09'],
}
sys.path.insert(0, os.path.join(VERIF, 'harness'))
from props import PROPS  # noqa: E402


def main():
    ids = sys.argv[1:] or sorted(os.listdir(os.path.join(VERIF, 'seeded')))
    summary = {}
    for sid in ids:
        d = os.path.join(VERIF, 'seeded', sid)
        if not os.path.exists(os.path.join(d, 'patch.diff')):
            continue
        prop = sid.split('-')[0]
        props = [p for p in [prop] + EXTRA.get(prop, []) if p in PROPS]
        r = subprocess.run([sys.executable, os.path.join(VERIF, 'harness', 'seedcheck.py'), d] + props,
                           capture_output=True, text=True)
        try:
            res = json.loads(r.stdout[r.stdout.index('{'):])
        except Exception:
            print(sid, 'seedcheck failed', r.stdout[-500:], r.stderr[-500:])
            continue
        agent = {}
        try:
            agent = json.load(open(os.path.join(d, 'agent_meta.json')))
        except Exception:
            pass
        caught = {p: v for p, v in res.get('checks', {}).items() if v['rc'] == 1}
        meta = {
            'id': sid, 'breaks_property': prop,
            'summary': agent.get('summary'), 'needs_to_manifest': agent.get('needs_to_manifest'), 'files': agent.get('files'),
            'origin': 'written by a fresh sub-agent given only the property text and a scratch worktree of /repo',
            'confirmed_by_me': {
                'patch_applies_to_repo_HEAD': res.get('applies'),
                'existing_tests_with_change': res.get('tests_tail'),
                'demo_exit_on_unchanged_tree': res.get('demo_clean_rc'),
                'demo_exit_with_change': res.get('demo_mutant_rc'),
            },
            'ran': ['harness/seedcheck.py %s %s  (scratch worktree under /tmp: git apply, pytest, demo with/without; then git -C /repo apply, ./check <prop> quick, git -C /repo checkout -- .)' % (d, ' '.join(props))],
            'checks': {p: {'exit': v['rc'], 'kind': v.get('replay_kind'), 'rule': v.get('replay_rule'), 'what': (v.get('replay_what') or '')[:300]}
                       for p, v in res.get('checks', {}).items()},
            'caught_by': sorted(caught),
            'caught_with_failing_input_by': sorted(p for p, v in caught.items() if v.get('replay_kind') == 'violation'),
        }
        json.dump(meta, open(os.path.join(d, 'meta.json'), 'w'), indent=1)
        if os.path.exists(os.path.join(d, 'result.json')):
            os.remove(os.path.join(d, 'result.json'))
        summary[sid] = (meta['caught_by'], meta['caught_with_failing_input_by'], res.get('demo_clean_rc'), res.get('demo_mutant_rc'))
        print(sid, summary[sid], flush=True)
    subprocess.run('rm -f %s/replays/*.json' % VERIF, shell=True)


if __name__ == '__main__':
    main()
