"""Build the Lake project and talk to the native model driver over the line protocol."""
import fcntl
import os
import re
import subprocess
import time

HERE = os.path.dirname(os.path.abspath(__file__))
VERIF = os.path.dirname(HERE)
LEAN = os.path.join(VERIF, 'lean')
DRIVER = os.path.join(LEAN, '.lake', 'build', 'bin', 'driver')
LOCK = os.path.join(VERIF, '.lock')


class BuildResult(object):
    def __init__(self, ok, target, log, wall):
        self.ok, self.target, self.log, self.wall = ok, target, log, wall


def lake_build(targets, timeout=3000):
    """`lake build <targets>` under an exclusive lock (checks may run in parallel)."""
    t0 = time.time()
    with open(LOCK, 'w') as lk:
        fcntl.flock(lk, fcntl.LOCK_EX)
        try:
            r = subprocess.run(['lake', 'build'] + list(targets), cwd=LEAN, capture_output=True, text=True,
                               timeout=timeout)
            ok, log = r.returncode == 0, r.stdout + r.stderr
        except subprocess.TimeoutExpired as e:
            ok, log = False, 'TIMEOUT ' + str(e)
        finally:
            fcntl.flock(lk, fcntl.LOCK_UN)
    return BuildResult(ok, ' '.join(targets), log, time.time() - t0)


def build_errors(log):
    return [l for l in log.splitlines() if l.startswith('error:') or ': error' in l][:20]


def lean_run(path, timeout=900):
    """`lake env lean <file>` (used for the axiom audit)."""
    with open(LOCK, 'w') as lk:
        fcntl.flock(lk, fcntl.LOCK_SH)
        try:
            r = subprocess.run(['lake', 'env', 'lean', path], cwd=LEAN, capture_output=True, text=True, timeout=timeout)
        finally:
            fcntl.flock(lk, fcntl.LOCK_UN)
    return r.returncode, r.stdout + r.stderr


class Driver(object):
    """One driver process; `ask(line)` returns the answer line."""

    def __init__(self):
        self.p = subprocess.Popen([DRIVER], stdin=subprocess.PIPE, stdout=subprocess.PIPE, text=True, bufsize=1)
        self.lines = 0
        if self.ask('ping') != 'pong':
            raise RuntimeError('driver does not answer')

    def ask(self, line):
        assert '\n' not in line
        self.p.stdin.write(line + '\n')
        self.p.stdin.flush()
        out = self.p.stdout.readline()
        if not out:
            raise RuntimeError('driver died on: %s' % line[:200])
        self.lines += 1
        return out.rstrip('\n')

    def ask_many(self, lines):
        """pipeline a batch (much faster than one round trip per line)"""
        if not lines:
            return []
        data = ''.join(l + '\n' for l in lines)
        # write in a thread-free way: batches are small enough for the pipe in practice; chunk to be safe
        outs = []
        CH = 200
        for i in range(0, len(lines), CH):
            part = lines[i:i + CH]
            total = sum(len(l) + 1 for l in part)
            if total > 30000:
                for l in part:
                    outs.append(self.ask(l))
                continue
            self.p.stdin.write(''.join(l + '\n' for l in part))
            self.p.stdin.flush()
            for _ in part:
                o = self.p.stdout.readline()
                if not o:
                    raise RuntimeError('driver died in batch')
                outs.append(o.rstrip('\n'))
            self.lines += len(part)
        return outs

    def close(self):
        try:
            self.p.stdin.close()
            self.p.wait(timeout=5)
        except Exception:
            self.p.kill()


def fnv1a(b):
    h = 14695981039346656037
    for x in b:
        h = ((h ^ x) * 1099511628211) & 0xFFFFFFFFFFFFFFFF
    return h


def hexf(b):
    """canonical rendering of a byte field, identical to Driver.hex"""
    b = bytes(b)
    if not b:
        return '-'
    if len(b) > 4096:
        return '#%d:%d' % (len(b), fnv1a(b))
    return b.hex()


_RUN = None


def hexin(b):
    """rendering for INPUT fields (always exact; long runs of one byte are run-length encoded,
    parts joined by '+')"""
    global _RUN
    b = bytes(b)
    if not b:
        return '-'
    if len(b) <= 256:
        return b.hex()
    if _RUN is None:
        import re
        _RUN = re.compile(rb'(.)\1{127,}', re.S)
    parts, pos = [], 0
    for m in _RUN.finditer(b):
        if m.start() > pos:
            parts.append(b[pos:m.start()].hex())
        parts.append('*%d:%02x' % (m.end() - m.start(), b[m.start()]))
        pos = m.end()
    if pos < len(b):
        parts.append(b[pos:].hex())
    return '+'.join(parts)


def hexlist(l):
    return ','.join(hexin(x) for x in l) if l else '.'
