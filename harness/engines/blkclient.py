"""blkclient engine (Client clauses of C11, C12, C13): the real hpfeeds.client.Client (reconnect=True) on scripted
sockets versus the Lean BlkClient model.

The client is blocking code, so control is inverted: the harness performs the application's steps (Client(...),
subscribe, publish, run, close) and every blocking socket call the client makes (connect, recv, sendall) asks the
script for the environment's answer.  In generation mode the answer is drawn then and there (so the generator sees
where the client is); the recorded event list replays exactly.  `stop` events are another thread calling stop()
while a call blocks.  message_callback's behaviour is selected by the first payload byte (stop / subscribe /
publish from inside the callback); the Lean driver has the same table."""
import errno
import json
import random
import socket as real_socket
import types

import compat  # noqa: F401
from engines import Result
from engines.broker import hx
from lean_driver import hexf, hexin

import hpfeeds.protocol as P
import hpfeeds.client as HC

compat.check_repo_origin(HC)
import logging  # noqa: E402
logging.getLogger('pyhpfeeds').disabled = True

BUFSIZ = P.BUFSIZ


class TapeEnd(BaseException):
    pass


class SortedSet(set):
    def __iter__(self):
        return iter(sorted(set.__iter__(self), key=lambda c: c.encode()))


class ScriptSock(object):
    def __init__(self, eng):
        self.eng = eng
        eng.nsock += 1
        eng.addr_index += 1
        self.k = eng.nsock
        self.up = False
        self.closed = False
        eng.socks[self.k] = self
        self.recvd = b''
        self.writes = []
        self.run_reads = 0      # recv() calls of run() that completed with data or a timeout

    def settimeout(self, t):
        pass

    def setsockopt(self, *a):
        pass

    def connect(self, addr):
        try:
            self.addr_idx = int(str(addr[0]).rsplit('.', 1)[-1])      # 192.0.2.<index>, 1-based (see getaddrinfo below)
        except Exception:
            self.addr_idx = 0
        self.eng.attempt_addr[self.k] = self.addr_idx
        self.eng.cur.append('T%d' % self.k)
        ev = self.eng.answer('connect', self)
        if ev[0] == 'connok':
            self.up = True
            return
        raise real_socket.error(errno.ECONNREFUSED, 'refused')

    def _dead(self):
        if self.closed:
            raise real_socket.error(errno.EBADF, 'Bad file descriptor')
        if not self.up:
            raise real_socket.error(errno.ENOTCONN, 'not connected')

    def recv(self, n):
        self._dead()
        ev = self.eng.answer('recv', self)
        if ev[0] == 'data':
            d = hx(ev[1])
            assert 0 < len(d) <= n
            self.recvd += d
            self.run_reads += 0 if self.eng.in_auth else 1
            return d
        if ev[0] == 'eof':
            return b''
        if ev[0] == 'timeout':
            self.run_reads += 0 if self.eng.in_auth else 1
            raise real_socket.timeout('timed out')
        raise real_socket.error(errno.ECONNRESET, 'reset')

    def sendall(self, data):
        self._dead()
        self.eng.sending = bytes(data)
        ev = self.eng.answer('send', self)
        if ev[0] == 'sendok':
            self.writes.append(bytes(data))
            self.eng.cur.append('W%d:%s' % (self.k, hexf(bytes(data))))
            return
        if ev[0] == 'timeout':
            raise real_socket.timeout('timed out')
        raise real_socket.error(errno.EPIPE, 'broken pipe')

    def close(self):
        if not self.closed:
            self.closed = True
            self.eng.cur.append('C%d' % self.k)


REPLY = 'reply'


class Eng(object):
    def __init__(self, ident, secret, naddr, picker):
        self.ident, self.secret, self.naddr = ident, secret, naddr
        self.picker = picker            # callable(kind, eng, sock) -> event  (generation or replay)
        self.events, self.lines = [], []
        self.cur = []
        self.nsock = 0
        self.addr_index = -1
        self.attempt_addr = {}          # socket number -> index of the resolved address it was pointed at
        self.socks = {}
        self.client = None
        self.in_auth = False
        self.in_callback = False
        self.sending = b''
        self.callbacks = []             # (socket, 'M', i, c, p) / (socket, 'E', text)
        self.snaps = []                 # (line index, pc, socket, bytes received, callbacks made, run reads)
        self.crashed = False
        self.excs = []
        eng = self
        shim = types.SimpleNamespace(**{k: getattr(real_socket, k) for k in
                                        ('AF_UNSPEC', 'AF_INET', 'SOCK_STREAM', 'timeout', 'error', 'SOL_SOCKET', 'SO_KEEPALIVE', 'SOL_TCP', 'TCP_KEEPIDLE')})

        def getaddrinfo(host, port, family=0, type=0, *a):
            eng.addr_index = -1
            return [(real_socket.AF_INET, real_socket.SOCK_STREAM, 6, '', ('192.0.2.%d' % (i + 1), port)) for i in range(eng.naddr)]
        shim.getaddrinfo = getaddrinfo
        self._saved = (HC.socket, HC.time)
        HC.socket = shim
        HC.time = types.SimpleNamespace(sleep=lambda s: eng.cur.append('S'))

        class TClient(HC.Client):
            def makesocket(self, addr_family):
                return ScriptSock(eng)

            def do_auth(self):
                eng.in_auth = True
                try:
                    return HC.Client.do_auth(self)
                finally:
                    eng.in_auth = False

            def __init__(self, *a, **kw):
                eng.client = self       # so that stop() can reach it while the constructor blocks
                HC.Client.__init__(self, *a, **kw)
        self.TClient = TClient

    def restore(self):
        HC.socket, HC.time = self._saved

    # ---- the callbacks the application installs
    def on_message(self, ident, chan, payload):
        payload = bytes(payload)
        self.cur.append('M:%s:%s:%s' % (hexf(ident.encode()), hexf(chan.encode()), hexf(payload)))
        self.callbacks.append((self.client.s.k, 'M', ident, chan, payload))
        self.in_callback = True
        try:
            c = self.client
            k = payload[:1]
            if k == b'S':
                c.stop()
            elif k == b'U':
                c.subscribe(payload[1:].decode())
            elif k == b'P':
                c.publish(REPLY, payload[1:])
            elif k == b'B':
                c.publish(REPLY, payload[1:])
                c.stop()
            elif k == b'Q':
                c.stop()
                c.publish(REPLY, payload[1:])
                c.subscribe('z')
        finally:
            self.in_callback = False

    def on_error(self, text):
        self.cur.append('E:%s' % hexf(text.encode()))
        self.callbacks.append((self.client.s.k, 'E', text))

    # ---- script plumbing
    def pc(self, kind=None, sock=None):
        if self.crashed:
            return 'crashed'
        if kind is None:
            return 'idle' if self.client is not None or not self.events else 'fresh'
        if kind == 'connect':
            return 'connecting%d' % self.addr_index
        if kind == 'recv':
            return 'authrecv' if self.in_auth else 'runrecv'
        op = self.sending[4] if len(self.sending) > 4 else -1
        return {P.OP_AUTH: 'authsend', P.OP_SUBSCRIBE: 'subsend', P.OP_PUBLISH: 'pubsend'}.get(op, 'send?')

    def close_line(self, pc):
        c = self.client
        subs = sorted(x.encode() for x in set.__iter__(c.subscriptions)) if c is not None and hasattr(c, 'subscriptions') else []
        st = 'pc=%s conn=%d stop=%d ubuf=%d subs=[%s]' % (
            pc, 1 if getattr(c, 'connected', False) else 0, 1 if getattr(c, 'stopped', False) else 0,
            compat.unconsumed(c.unpacker) if c is not None and hasattr(c, 'unpacker') else 0, ','.join(hexf(x) for x in subs))
        self.lines.append(';'.join(self.cur) + ' | ' + st)
        self.cur = []
        sk = getattr(c, 's', None)
        if isinstance(sk, ScriptSock):
            self.snaps.append((len(self.lines) - 1, pc, sk.k, len(sk.recvd), sum(1 for x in self.callbacks if x[0] == sk.k), sk.run_reads))

    def answer(self, kind, sock):
        """the client blocks in `kind`: finish the line of the event being handled, then take the next event(s)"""
        pc = self.pc(kind, sock)
        self.close_line(pc)
        while True:
            ev = self.picker(kind, self, sock, pc)
            if ev is None:
                raise TapeEnd()
            self.events.append(list(ev))
            if ev[0] == 'stop':
                self.client.stop()
                self.close_line(pc)
                continue
            return ev

    def app(self, ev):
        """an application step while no call is in progress"""
        self.events.append(list(ev))
        k = ev[0]
        c = self.client
        try:
            if k == 'new':
                c = self.TClient('broker.example', 10000, self.ident, self.secret, timeout=3, reconnect=True, sleepwait=20)
                c.subscriptions = SortedSet(c.subscriptions)
            elif k == 'sub':
                if not isinstance(c.subscriptions, SortedSet):
                    c.subscriptions = SortedSet(c.subscriptions)
                c.subscribe(hx(ev[1]).decode())
            elif k == 'pub':
                c.publish(hx(ev[1]).decode(), hx(ev[2]))
            elif k == 'run':
                if not isinstance(c.subscriptions, SortedSet):
                    c.subscriptions = SortedSet(c.subscriptions)
                c.run(self.on_message, self.on_error)
                self.cur.append('ret')
            elif k == 'close':
                c.close()
            elif k == 'stop':
                c.stop()
        except TapeEnd:
            raise
        except Exception as e:
            self.cur.append('exc')
            self.excs.append(repr(e))
            self.crashed = True
        self.close_line(self.pc())


# ---------------------------------------------------------------- generation

IDENTS = ['a', 'bob', 'üser']
CHANS = ['c', 'ch2', 'känal']


def info_frame(rng, bad=False):
    if bad:
        return P.msghdr(P.OP_INFO, b'\x02\xff\xfe' + b'1234')
    return P.msginfo(rng.choice(['hp', 'bröker', '']), bytes(rng.randrange(256) for _ in range(rng.choice([4, 4, 0, 9]))))


def pub_frame(rng, profile):
    r = rng.random()
    i, c = rng.choice(IDENTS), rng.choice(CHANS)
    if r < 0.12:
        p = b'S'
    elif r < 0.2:
        p = b'U' + rng.choice(CHANS + ['new']).encode()
    elif r < 0.32:
        p = b'P' + bytes(rng.randrange(256) for _ in range(rng.choice([0, 3, 20])))
    elif r < 0.37:
        p = b'B' + b'xy'
    elif r < 0.41:
        p = b'Q' + b'q'
    elif r < 0.47 and profile == 'big':
        # a frame that ends exactly on a recv() buffer boundary
        p = b'x' * (BUFSIZ - 5 - 2 - len(i.encode()) - len(c.encode()))
    elif r < 0.55 and profile == 'big':
        p = bytes(rng.randrange(256) for _ in range(rng.choice([BUFSIZ, 2 * BUFSIZ - 40, 20000])))
        p = b'x' + p
    else:
        p = b'x' + bytes(rng.randrange(256) for _ in range(rng.choice([0, 1, 30, 400])))
    return P.msgpublish(i, c, p)


def run_stream(rng, profile):
    out = b''
    for _ in range(rng.choice([1, 1, 2, 3])):
        r = rng.random()
        if r < 0.1:
            out += P.msgerror(rng.choice(['nope', 'accessfail', 'érr']))
        elif r < 0.16 and profile == 'faults':
            out += rng.choice([P.msghdr(P.OP_PUBLISH, b'\x02\xff\xfe\x01c'), P.msghdr(P.OP_ERROR, b'\xff\xfe'), b'\x00\x00\x00\x03\x01',
                               P.msghdr(9, b'zz'), P.msgsubscribe('x', 'c'), info_frame(rng), P.msghdr(P.OP_PUBLISH, b'')])
        else:
            out += pub_frame(rng, profile)
    return out


class Gen(object):
    def __init__(self, rng, profile, budget):
        self.rng, self.profile, self.budget = rng, profile, budget
        self.pending = {}       # socket -> bytes the broker has sent that recv() has not returned yet
        self.n = 0

    def __call__(self, kind, eng, sock, pc):
        rng = self.rng
        self.n += 1
        if self.n > self.budget:
            return None
        faults = self.profile == 'faults'
        if eng.client is not None and rng.random() < (0.08 if kind == 'recv' and not eng.in_auth else 0.02):
            return ['stop']
        if kind == 'connect':
            return ['connok'] if rng.random() < (0.55 if faults else 0.8) else ['refuse']
        if kind == 'send':
            r = rng.random()
            return ['sendok'] if r < (0.75 if faults else 0.9) else (['timeout'] if r < 0.95 else ['sockerr'])
        if eng.in_auth:
            r = rng.random()
            if r < (0.6 if faults else 0.8):
                d = info_frame(rng)
                if rng.random() < 0.25:
                    d += run_stream(rng, self.profile)[:BUFSIZ - len(d)]
                return ['data', hexin(d)]
            if r < 0.86:
                return [rng.choice(['eof', 'timeout', 'sockerr'])]
            d = rng.choice([info_frame(rng)[:7], P.msgpublish('a', 'c', b'x'), b'\x00\x00\x00\x03\x01', b'\x7f\xff\xff\xff\x01'] +
                           ([info_frame(rng, bad=True), P.msghdr(P.OP_INFO, b'')] if faults else []))
            return ['data', hexin(d)]
        # recv in run()
        pend = self.pending.get(sock.k, b'')
        r = rng.random()
        if not pend and r < (0.18 if faults else 0.1):
            return [rng.choice(['eof', 'sockerr', 'timeout'])]
        if not pend:
            pend = run_stream(rng, self.profile)
        if len(pend) > BUFSIZ or rng.random() < 0.25:
            k = BUFSIZ if len(pend) >= BUFSIZ and rng.random() < 0.8 else rng.randint(1, min(len(pend), BUFSIZ))
        else:
            k = len(pend)
        d, self.pending[sock.k] = pend[:k], pend[k:]
        return ['data', hexin(d)]


class Sweep(object):
    """a broker that behaves (accept, whole OP_INFO, a fixed conversation of PUBLISH / ERROR frames - one split
    across two reads, one whose callback publishes, one whose callback subscribes -, sends succeed) except for the
    FAULTS of `plan`: at the i-th blocking call of the client the answer is a failure of that call (refused /
    eof, error, timeout / send timeout, error) or stop() is called first.  Every blocking call of the
    conversation is a fault point."""

    def __init__(self, plan, limit=60):
        self.plan = dict(plan)          # call index -> fault
        self.n = -1
        self.limit = limit
        self.nonce = 0
        m2 = P.msgpublish('bob', 'ch2', b'x second')
        self.conv = [P.msgpublish('a', 'c', b'x m1'), m2[:7], m2[7:] + P.msgerror('nope'), P.msgpublish('a', 'c', b'Preply-me'),
                     P.msgpublish('a', 'c', b'Uch2'), P.msgpublish('a', 'c', b'x m5')]
        self.pos = 0
        self.stopped_injected = set()

    def __call__(self, kind, eng, sock, pc):
        self.n += 1 if (self.n, 'stop') not in self.stopped_injected or True else 0
        if self.n > self.limit:
            return None
        f = self.plan.get(self.n)
        if f == 'stop' and self.n not in self.stopped_injected:
            self.stopped_injected.add(self.n)
            self.n -= 1                 # the call is still to be answered
            return ['stop']
        if kind == 'connect':
            return ['refuse'] if f == 'fail' else ['connok']
        if kind == 'send':
            return ['timeout'] if f == 'fail' else (['sockerr'] if f == 'fail2' else ['sendok'])
        if f in ('fail', 'fail2', 'fail3'):
            return [{'fail': 'eof', 'fail2': 'sockerr', 'fail3': 'timeout'}[f]]
        if eng.in_auth:
            self.nonce += 1
            self.pos = 0 if self.pos < len(self.conv) else self.pos     # a new connection: the broker starts over
            return ['data', hexin(P.msginfo('hp', bytes([self.nonce & 255, 1, 2, 3])))]
        if self.pos >= len(self.conv):
            return None                 # the conversation is over: end of the tape
        d = self.conv[self.pos]
        self.pos += 1
        return ['data', hexin(d)]


def sweep_cases(double=False):
    base_calls = 14
    kinds = ['fail', 'fail2', 'fail3', 'stop']
    plans = [[(i, f)] for i in range(base_calls) for f in kinds]
    if double:
        plans += [[(i, f), (j, g)] for i in range(base_calls) for j in range(i + 1, base_calls + 4) for f in ('fail', 'stop') for g in ('fail', 'fail3')][::3]
    for plan in plans:
        for naddr in (1, 2):
            picker = Sweep(plan)
            eng = Eng('me', 'secret', naddr, picker)
            try:
                try:
                    eng.app(['new'])
                    eng.app(['sub', hexin(b'c')])
                    eng.app(['pub', hexin(b'c'), hexin(b'hello')])
                    eng.app(['run'])
                    if not eng.crashed:
                        eng.app(['run'])    # returns at once if stopped, otherwise goes on reading
                except TapeEnd:
                    pass
            finally:
                eng.restore()
            yield plan, naddr, eng


class Failover(object):
    """a broker host that resolves to several addresses of which exactly ONE is reachable at a time: first only the
    LAST one (the client gets in through it after the earlier ones refused), then - once the client has been connected and
    reading - the connection drops and only the FIRST one is reachable (fail-over back; DNS unchanged).  A client with
    reconnection enabled must get in again: the broker IS reachable."""

    def __init__(self, naddr, limit=70):
        self.naddr, self.limit, self.n = naddr, limit, 0
        self.phase, self.reads, self.nonce = 1, 0, 0

    def __call__(self, kind, eng, sock, pc):
        self.n += 1
        if self.n > self.limit:
            return None
        if kind == 'connect':
            up = self.naddr if self.phase == 1 else 1
            return ['connok'] if getattr(sock, 'addr_idx', 0) == up else ['refuse']
        if kind == 'send':
            return ['sendok']
        if eng.in_auth:
            self.nonce += 1
            return ['data', hexin(P.msginfo('hp', bytes([self.nonce & 255, 9, 9, 9])))]
        self.reads += 1
        if self.phase == 1 and self.reads == 2:
            self.phase = 2
            return ['eof']
        if self.phase == 2 and self.reads > 5:
            return None
        return ['data', hexin(P.msgpublish('a', 'c', b'x m%d' % self.reads))]


def failover_cases():
    for naddr in (2, 3):
        eng = Eng('me', 'secret', naddr, Failover(naddr))
        try:
            try:
                eng.app(['new'])
                eng.app(['sub', hexin(b'c')])
                eng.app(['run'])
            except TapeEnd:
                pass
        finally:
            eng.restore()
        yield naddr, eng


class Replay(object):
    def __init__(self, events):
        self.events = list(events)

    def __call__(self, kind, eng, sock, pc):
        i = len(eng.events)
        return self.events[i] if i < len(self.events) else None


def gen_and_run(rng, tier, ident, secret, naddr, profile):
    budget = rng.randrange(10, 45 if tier == 'quick' else 90)
    gen = Gen(rng, profile, budget)
    eng = Eng(ident, secret, naddr, gen)
    try:
        try:
            eng.app(['new'])
            for _ in range(12):
                if eng.crashed or gen.n > budget:
                    break
                r = rng.random()
                if r < 0.35:
                    eng.app(['sub', hexin(rng.choice(CHANS + ['z9']).encode())])
                elif r < 0.5:
                    eng.app(['pub', hexin(rng.choice(CHANS).encode()), hexin(bytes(rng.randrange(256) for _ in range(rng.choice([0, 2, 50]))))])
                elif r < 0.9:
                    eng.app(['run'])
                elif r < 0.95:
                    eng.app(['close'])
                else:
                    eng.app(['stop'])
        except TapeEnd:
            pass
    finally:
        eng.restore()
    # the event that was cut by the end of the tape has no line
    return eng


def replay_events(events, ident, secret, naddr):
    eng = Eng(ident, secret, naddr, Replay(events))
    try:
        try:
            while len(eng.events) < len(events) and not eng.crashed:
                ev = events[len(eng.events)]
                if ev[0] not in ('new', 'sub', 'pub', 'run', 'close', 'stop'):
                    break       # an answer with no call in progress: not a script of this engine
                eng.app(ev)
        except TapeEnd:
            pass
    finally:
        eng.restore()
    return eng


# ---------------------------------------------------------------- monitors (implementation trace only)

def parse_state(line):
    st = line.split('|')[1]
    return dict(kv.split('=', 1) for kv in st.split())


def monitors(res, cfg, eng, script):
    from engines.codec import parse_frames
    ident, secret = cfg
    events, lines = eng.events[:len(eng.lines)], eng.lines
    # ---- C11: per socket, nothing before its OP_INFO; first frame = OP_AUTH for its nonce
    for k, sock in eng.socks.items():
        frames, _ = parse_frames(sock.recvd)
        ws = sock.writes
        if ws and not (frames and frames[0][0] == P.OP_INFO):
            res.violation('C11', 'write-before-info', 'blocking Client sent %d frame(s) on connection %d whose first received frame is not an OP_INFO (received %d bytes)' % (len(ws), k, len(sock.recvd)), script)
            continue
        if ws:
            body = frames[0][1]
            if not body or len(body) < 1 + body[0]:
                res.violation('C11', 'write-before-info', 'blocking Client sent %d frame(s) on connection %d whose OP_INFO is malformed (no name field): there is no nonce to answer' % (len(ws), k), script)
                continue
            n = body[0]
            rand = body[1 + n:]
            if ws[0] != P.msgauth(rand, ident, secret):
                res.violation('C11', 'first-frame-auth', 'blocking Client: the first frame on connection %d is not the OP_AUTH for that connection\'s nonce (opcode %d)' % (k, ws[0][4]), script)
                if k > min(eng.socks):
                    res.violation('C13', 'reconnect-not-authenticated', 'blocking Client: connection %d (a re-connection) received a well-formed OP_INFO first and the client answered with something other than the OP_AUTH for that nonce: it does not come back authenticated' % k, script)
    check_subscribe_blocks(res, ident, events, lines, script)
    check_callbacks(res, eng, script)
    check_stop_and_reconnect(res, events, lines, script)
    check_every_address_tried(res, eng, events, script)
    if eng.excs and script.get('legal'):
        res.violation('C12', 'exception-escaped', 'blocking Client: %s escaped to the application although the broker sent only well-formed frames' % eng.excs[0][:160], script)


def check_subscribe_blocks(res, ident, events, lines, script):
    """every time run() reaches recv() coming from its loop top (after run() was called, or after it
    re-connected), the SUBSCRIBE frames it sent on the way are exactly the wanted set at that time"""
    wanted = set()
    block, tracking = [], False
    prev_pc = 'fresh'
    for ev, line in zip(events, lines):
        outs = [o for o in line.split('|')[0].strip().split(';') if o]
        pc = parse_state(line)['pc']
        k = ev[0]
        if k == 'run' or (prev_pc == 'authsend' and k == 'sendok'):
            block, tracking = [], True
            at_top = set(wanted)
        if k == 'sub' and prev_pc == 'idle':
            wanted.add(hx(ev[1]))
        for o in outs:
            if o.startswith('M:'):
                p = hx(o.split(':')[3]) if not o.split(':')[3].startswith('#') else b''
                if p[:1] == b'U':
                    wanted.add(p[1:])
                if p[:1] == b'Q':
                    wanted.add(b'z')
            if o.startswith('W') and tracking:
                h = o.split(':', 1)[1]
                fr = hx(h) if not h.startswith('#') else b''
                if fr[4:5] == bytes([P.OP_SUBSCRIBE]):
                    block.append(fr)
        if k in ('timeout', 'sockerr') and prev_pc == 'subsend':
            tracking = False
        if tracking and pc == 'runrecv' and prev_pc != 'runrecv':
            want = [P.msgsubscribe(ident, c.decode()) for c in sorted(at_top)]
            if prev_pc in ('subsend', 'idle', 'authsend') and block != want:
                res.violation('C11', 'resubscribe-set', 'blocking Client.run sent %d OP_SUBSCRIBE frame(s) after (re)connecting; the application wants %r' % (len(block), sorted(at_top)), script)
            tracking = False
        if pc in ('idle', 'crashed'):
            tracking = False
        prev_pc = pc


def expected_callbacks(recvd):
    """callbacks owed for the bytes received on one connection (first frame = the OP_INFO do_auth takes)"""
    from engines.codec import parse_frames
    frames, _ = parse_frames(recvd)
    out = []
    for op, body in frames[1:]:
        if op == P.OP_PUBLISH:
            try:
                n = body[0]; i = body[1:1 + n]; rest = body[1 + n:]; m = rest[0]; c = rest[1:1 + m]; p = rest[1 + m:]
                out.append(('M', i.decode(), c.decode(), bytes(p)))
            except Exception:
                break
        elif op == P.OP_ERROR:
            try:
                out.append(('E', body.decode()))
            except Exception:
                break
    return out


def check_callbacks(res, eng, script):
    """C12: per connection the callbacks are, in order, a prefix of the PUBLISH / ERROR frames received on it (all of
    them on the connection the client is still reading from); `eng.callbacks` records the connection of each"""
    ks = sorted(eng.socks)
    last_state = parse_state(eng.lines[-1]) if eng.lines else {}
    order = [c[0] for c in eng.callbacks]
    if order != sorted(order):
        res.violation('C12', 'callback-sequence', 'blocking Client.run made a callback for an earlier connection after one for a later connection', script)
    for idx, k in enumerate(ks):
        exp = expected_callbacks(eng.socks[k].recvd)
        got = [c[1:] for c in eng.callbacks if c[0] == k]
        if got != exp[:len(got)]:
            n = next((i for i, (a, b) in enumerate(zip(got, exp)) if a != b), min(len(got), len(exp)))
            res.violation('C12', 'callback-sequence', 'blocking Client.run, connection %d: callback #%d is %r; the PUBLISH/ERROR frames received on it are %r ...' % (k, n, tuple(str(x)[:20] for x in got[n]) if n < len(got) else None, [tuple(str(x)[:20] for x in e) for e in exp[:n + 1]]), script)
            continue
        # promptness: whenever run() goes back to recv() it has made the callback of every frame that is complete
        # (any prefix of a history is a history: if nothing more arrives, a withheld frame is never handed over)
        if script.get('legal'):
            for (li, pc, sk, nbytes, ncb, reads) in eng.snaps:
                if sk == k and pc == 'runrecv' and reads > 0:
                    owed = len(expected_callbacks(eng.socks[k].recvd[:nbytes]))
                    if ncb < owed:
                        res.violation('C12', 'message-withheld', 'blocking Client.run went back to recv() on connection %d (event %d) having received %d complete PUBLISH/ERROR frame(s) but made only %d callback(s): if nothing more arrives they are never handed over' % (k, li, owed, ncb), script)
                        break
        is_last = idx == len(ks) - 1
        # nothing in flight on the live connection: every complete frame must have been dispatched (frames that
        # arrived in the same recv() as OP_INFO are parked until run()'s next read completes)
        if (is_last and script.get('legal') and last_state.get('pc') == 'runrecv' and not eng.crashed
                and len(got) < len(exp) and eng.socks[k].run_reads > 0):
            res.violation('C12', 'message-lost', 'blocking Client.run is waiting in recv() on connection %d having received %d complete PUBLISH/ERROR frame(s) but made only %d callback(s)' % (k, len(exp), len(got)), script)


def check_every_address_tried(res, eng, events, script):
    """C13 at the level of resolved addresses: the broker is reachable whenever ANY of the host's addresses accepts.  A
    client that goes through 3 x naddr consecutive refused attempts without pointing a single one at some address has
    given that address up - if the broker is only reachable there it never comes back (no back-off is prescribed; the
    shipped client walks all addresses on every round, i.e. every address appears within any 2 x naddr attempts)."""
    naddr = script['naddr']
    if naddr < 2:
        return
    run = []       # address indices of the current run of consecutive refused attempts
    k = 0          # attempts are numbered like the sockets: the i-th connect answer belongs to socket i
    for ev in events:
        if ev[0] in ('refuse', 'connok'):
            k += 1
            idx = eng.attempt_addr.get(k)
            if ev[0] == 'connok' or idx is None:
                run = []
                continue
            run.append(idx)
            if len(run) >= 3 * naddr:
                window = run[-3 * naddr:]
                missing = [a for a in range(1, naddr + 1) if a not in window]
                if missing:
                    res.violation('C13', 'address-given-up', 'blocking Client: %d consecutive connection attempts were refused (addresses %r of %d resolved) and none was made to address %r: a broker reachable only there is never reached again' % (len(window), window, naddr, missing), script)
                    return


def check_stop_and_reconnect(res, events, lines, script):
    prev_pc, prev_stop = 'fresh', False
    in_cb_publish = False
    for ev, line in zip(events, lines):
        outs = [o for o in line.split('|')[0].strip().split(';') if o]
        st = parse_state(line)
        pc = st['pc']
        k = ev[0]
        if prev_pc == 'runrecv' and k in ('data', 'eof', 'timeout', 'sockerr'):
            if prev_stop:
                # C13 (iii): run returns once the read in progress completes (a callback may still be publishing)
                if pc == 'runrecv':
                    res.violation('C13', 'run-does-not-return', 'blocking Client.run: stop() was called, the read in progress completed (%s) and run() went back to recv()' % k, script)
                if pc == 'idle' and any(o.startswith('T') for o in outs):
                    res.violation('C13', 'attempt-after-stop', 'blocking Client.run: stop() was called, the read in progress ended (%s) and run() made a new connection attempt' % k, script)
                if pc.startswith('connecting') and not any(o.startswith('M:') and hx(o.split(':')[3])[:1] in (b'P', b'B', b'Q') for o in outs):
                    res.violation('C13', 'attempt-after-stop', 'blocking Client.run: stop() was called, the read in progress ended (%s) and run() started to reconnect instead of returning' % k, script)
            elif k in ('eof', 'sockerr') and not any(o.startswith('T') for o in outs):
                res.violation('C13', 'no-reconnect', 'blocking Client.run: the connection was lost (%s) with reconnect enabled and no new connection attempt followed' % k, script)
        if prev_pc.startswith('connecting') and k == 'refuse' and not any(o.startswith('T') for o in outs):
            res.violation('C13', 'no-reconnect', 'blocking Client: connection attempt refused and no further attempt followed', script)
        prev_pc, prev_stop = pc, st['stop'] == '1'


# ---------------------------------------------------------------- engine entry points

def compare(res, drv, script, events, lines):
    if drv is None:
        return
    drv.ask('k.reset %s %s %d' % (hexin(script['ident'].encode()), hexin(script['secret'].encode()), script['naddr']))
    for idx, (ev, line) in enumerate(zip(events, lines)):
        mo = drv.ask('k.ev ' + ' '.join(str(x) for x in ev))
        status, _, mline = mo.partition(' ')
        if status != 'ok':
            res.disagree('model does not accept event %d %r here' % (idx, ev[:1]), script, line[:600], mo[:600])
            break
        if mline.strip() != line.strip():
            res.disagree('blocking Client, event %d %r' % (idx, ev[:1]), script, line.strip()[:900], mline.strip()[:900])
            break


def run_case(res, drv, rng, tier, profile):
    ident = rng.choice(['me', 'ident-é', ''])
    secret = rng.choice(['secret', 'sécret', ''])
    naddr = rng.choice([1, 1, 2])
    eng = gen_and_run(rng, tier, ident, secret, naddr, profile)
    events = eng.events[:len(eng.lines)]
    script = {'client': 'blocking-client', 'ident': ident, 'secret': secret, 'naddr': naddr, 'events': events,
              'legal': profile != 'faults'}
    monitors(res, (ident, secret), eng, script)
    res.evaluations += 1
    for l in eng.lines:
        for o in l.split('|')[0].strip().split(';'):
            if o:
                res.note('obs.' + (o[0] if o[0] in 'TWCMES' else o))
    for ev in events:
        res.note('ev.' + ev[0])
    compare(res, drv, script, events, eng.lines)
    return script


def run(tier, seed, drv, prop=None):
    res = Result('blkclient')
    res.model_used = drv is not None
    rng = random.Random('blkclient-%s-%s' % (prop, seed))
    n = {'quick': 250, 'thorough': 4000}[tier]
    profiles = {'C11': ['normal', 'faults', 'normal'], 'C12': ['normal', 'big', 'normal', 'faults'],
                'C13': ['faults', 'normal', 'faults']}.get(prop, ['normal', 'faults', 'big'])
    for k in range(n):
        script = run_case(res, drv, rng, tier, profiles[k % len(profiles)])
        res.nontriv([json.dumps(script['events'])[:4000]])
        res.sample({'events': [[str(x)[:40] for x in e] for e in script['events'][:16]]}, limit=3)
    if prop in (None, 'C13', 'C11', 'C12'):
        for plan, naddr, eng in sweep_cases(double=(tier == 'thorough')):
            events = eng.events[:len(eng.lines)]
            script = {'client': 'blocking-client', 'ident': 'me', 'secret': 'secret', 'naddr': naddr, 'events': events,
                      'legal': True, 'sweep': plan}
            monitors(res, ('me', 'secret'), eng, script)
            res.evaluations += 1
            res.note('sweep')
            res.nontriv([json.dumps(events)[:4000]])
            compare(res, drv, script, events, eng.lines)
    if prop in (None, 'C13'):
        for naddr, eng in failover_cases():
            events = eng.events[:len(eng.lines)]
            script = {'client': 'blocking-client', 'ident': 'me', 'secret': 'secret', 'naddr': naddr, 'events': events,
                      'legal': True, 'failover': True}
            monitors(res, ('me', 'secret'), eng, script)
            res.evaluations += 1
            res.note('failover')
            res.nontriv([json.dumps(events)[:4000]])
            compare(res, drv, script, events, eng.lines)
    res.assumptions += [
        'blocking Client: makesocket() is overridden to return a scripted socket; hpfeeds.client.socket/time are replaced by shims (getaddrinfo returns 1-2 addresses, sleep is an observation); sendall is all-or-error',
        'message_callback behaviour is a table on the first payload byte (stop / subscribe / publish from inside the callback), the same table in the Lean driver; error_callback does nothing',
        'set iteration order of Client.subscriptions is fixed to sorted order by the harness (any order is a legal set order)',
        'after an exception escapes an API call the client object is not used further',
    ]
    return res


def replay(script, drv):
    res = Result('blkclient')
    eng = replay_events(script['events'], script['ident'], script['secret'], script['naddr'])
    monitors(res, (script['ident'], script['secret']), eng, script)
    compare(res, drv, script, eng.events[:len(eng.lines)], eng.lines)
    return res
