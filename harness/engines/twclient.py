"""twclient engine (C11, C12, C13): hpfeeds.twisted.ClientSessionService on a MemoryReactorClock with a scripted
endpoint versus the Lean client model (Twisted flavour)."""
import json
import random
import struct
import sys

import compat  # noqa: F401

# the global reactor must be the virtual one BEFORE anything imports twisted.internet.reactor
from twisted.internet.testing import MemoryReactorClock
import twisted.internet

if 'twisted.internet.reactor' in sys.modules and not isinstance(sys.modules['twisted.internet.reactor'], MemoryReactorClock):
    raise RuntimeError('a real Twisted reactor is already installed')
_REACTOR = sys.modules.get('twisted.internet.reactor') or MemoryReactorClock()
sys.modules['twisted.internet.reactor'] = _REACTOR
twisted.internet.reactor = _REACTOR

from twisted.internet import defer, error  # noqa: E402
from twisted.python import failure  # noqa: E402

from engines import Result  # noqa: E402
from engines.broker import hx, enc, p8  # noqa: E402
from lean_driver import hexf, hexin  # noqa: E402

import hpfeeds.protocol as P  # noqa: E402
import hpfeeds.twisted.service as TS  # noqa: E402

compat.check_repo_origin(TS)
import twisted.python.log as _twlog  # noqa: E402
_twlog.err = lambda *a, **k: None     # protocolError() logs through log.err; keep the check's output clean


class Transport(object):
    def __init__(self, eng, k):
        self.eng, self.k = eng, k
        self.closing = False
        self.gone = False
        self.disconnecting = False

    def write(self, data):
        if self.gone:
            return
        self.eng.out.append('W%d:%s' % (self.k, hexf(bytes(data))))

    def loseConnection(self):
        if not self.closing and not self.gone:
            self.closing = True
            self.disconnecting = True
            self.eng.out.append('X%d' % self.k)

    def abortConnection(self):
        self.loseConnection()

    def getPeer(self):
        return None

    def getHost(self):
        return None


class Endpoint(object):
    def __init__(self, eng):
        self.eng = eng

    def connect(self, factory):
        self.eng.out.append('T')
        d = defer.Deferred(canceller=lambda d: None)
        self.eng.attempts.append((d, factory))
        return d


class Impl(object):
    def __init__(self, ident, secret, policy='constant'):
        self.clock = _REACTOR
        # fresh virtual clock state for every run
        for c in list(self.clock.getDelayedCalls()):
            c.cancel()
        self.out = []
        self.attempts = []
        self.nconn = 0
        self.tr = None
        self.proto = None
        self.readers = []
        self.stop_d = None
        self.close_done = False
        self.ms = 0
        # policy 'default': the service's own default (ClientService's jittered exponential back-off, at most ~61 s)
        self.svc = TS.ClientSessionService(Endpoint(self), ident, secret, retryPolicy=(lambda n: 1.0) if policy == 'constant' else None)

    def close(self):
        try:
            for c in list(self.clock.getDelayedCalls()):
                c.cancel()
        except Exception:
            pass

    def event(self, ev):
        self.out = []
        k = ev[0]
        if k == 'idle':
            pass
        elif k == 'start':
            if not self.svc.running:
                self.svc.startService()
        elif k in ('sub', 'unsub', 'pub', 'read'):
            try:
                if k == 'sub':
                    self.svc.subscribe(hx(ev[1]).decode())
                elif k == 'unsub':
                    self.svc.unsubscribe(hx(ev[1]).decode())
                elif k == 'pub':
                    self.svc.publish(hx(ev[1]).decode(), hx(ev[2]))
                else:
                    d = self.svc.read()
                    d.addCallbacks(lambda m: self.out.append('H:%s:%s:%s' % (hexf(m[0].encode()), hexf(m[1].encode()), hexf(m[2]))),
                                   lambda f: self.out.append('Hexc:' + f.type.__name__))
            except Exception as e:
                self.out.append('raised:%s:%s' % (k, type(e).__name__))
        elif k == 'close':
            if self.stop_d is None:
                self.stop_d = defer.maybeDeferred(self.svc.stopService)
                self.stop_d.addCallbacks(lambda _: self.out.append('closeDone'), lambda f: self.out.append('closeRaised:' + f.type.__name__))
        elif k == 'accept':
            d, factory = self.attempts.pop(0)
            self.nconn += 1
            self.tr = Transport(self, self.nconn)
            self.proto = factory.buildProtocol(None)
            self.proto.makeConnection(self.tr)
            d.callback(self.proto)
        elif k == 'refuse':
            d, factory = self.attempts.pop(0)
            d.errback(failure.Failure(error.ConnectionRefusedError()))
        elif k == 'data':
            try:
                self.proto.dataReceived(hx(ev[1]))
            except Exception as e:
                self.out.append('crash')
                self.tr.closing = True
        elif k == 'lost':
            self.tr.closing = True
            self.tr.gone = True
            try:
                self.proto.connectionLost(failure.Failure(error.ConnectionDone()))
            except Exception as e:
                self.out.append('lostRaised:' + type(e).__name__)
        elif k == 'advance':
            self.ms += ev[1]
            self.clock.advance(ev[1] / 1000.0)
        else:
            raise ValueError(ev)
        # drop attempts whose Deferred was cancelled by the service
        self.attempts = [(d, f) for d, f in self.attempts if not d.called]
        return list(self.out)

    def state(self):
        return {'attempts': len(self.attempts), 'open': self.tr is not None and not self.tr.gone,
                'closing_tr': bool(self.tr and self.tr.closing), 'running': self.svc.running}


# ------------------------------------------------------------------------------------- generation / comparison
from engines import aioclient as AIO_ENGINE  # noqa: E402  (shares the stream generator, canonicaliser and monitors)


def gen_and_run(rng, tier, ident, secret, profile):
    impl = Impl(ident, secret)
    events, lines = [], []
    tails = b''
    got_info = False

    def do(ev):
        events.append(ev)
        lines.append(AIO_ENGINE.canon(impl.event(ev)))

    try:
        if rng.random() < 0.9:
            do(['start'])
        n = rng.randint(6, 30 if tier == 'quick' else 60)
        for _ in range(n):
            r = rng.random()
            live = impl.tr is not None and not impl.tr.gone
            can_data = live and not impl.tr.closing
            if impl.attempts and r < 0.35:
                do(['accept'] if rng.random() < (0.75 if profile != 'faults' else 0.45) else ['refuse'])
                got_info = False
                tails = b''
                continue
            if can_data and r < 0.6:
                data = tails or AIO_ENGINE.server_bytes(rng, not got_info, legal=(profile != 'faults'))
                got_info = True
                tails = b''
                if len(data) > 1 and rng.random() < 0.3:
                    k = rng.randint(1, len(data) - 1)
                    data, tails = data[:k], data[k:]
                if data:
                    do(['data', hexin(data)])
                continue
            if live and r < (0.72 if profile == 'faults' else 0.66):
                do(['lost'])
                continue
            if r < 0.8:
                k = rng.choice(['sub', 'sub', 'unsub', 'pub', 'read', 'read'])
                if k in ('sub', 'unsub'):
                    do([k, hexin(rng.choice(AIO_ENGINE.CHANS))])
                elif k == 'pub':
                    do(['pub', hexin(rng.choice(AIO_ENGINE.CHANS)), hexin(bytes(rng.getrandbits(8) for _ in range(rng.choice([0, 3, 200]))))])
                else:
                    do(['read'])
                continue
            if r < 0.9:
                do(['advance', rng.choice([1, 500, 999, 1000, 1001, 3000])])
                continue
            if r < (0.97 if profile == 'close' else 0.93) and impl.stop_d is None:
                do(['close'])
                continue
            do(['start'] if (rng.random() < 0.3 and impl.stop_d is None) else ['idle'])
        if profile == 'normal':
            for _ in range(rng.choice([0, 2, 6])):
                do(['read'])
        if profile == 'close' and impl.stop_d is None:
            do(['close'])
        if impl.stop_d is not None:
            if impl.tr is not None and not impl.tr.gone:
                do(['lost'])
            do(['advance', 5000])
        elif impl.svc.running and not impl.attempts and (impl.tr is None or impl.tr.gone):
            do(['advance', AIO_ENGINE.RECONNECT_BOUND_MS])
    finally:
        impl.close()
    return events, lines


def run_case(res, drv, rng, tier, profile):
    ident = rng.choice(['me', 'ident-\u00e9', ''])
    secret = rng.choice(['secret', 's\u00e9cret', ''])
    events, lines = gen_and_run(rng, tier, ident, secret, profile)
    res.evaluations += 1
    script = {'client': 'twisted', 'ident': ident, 'secret': secret, 'events': events, 'legal': profile != 'faults'}
    before = len(res.violations)
    AIO_ENGINE.monitors(res, (ident, secret), events, lines, script)
    for v in res.violations[before:]:
        v['what'] = v['what'].replace('asyncio session', 'Twisted service')
        v['engine'] = 'twclient'
    for l in lines:
        for o in l.split(';'):
            if o:
                res.note('obs.' + (o[0] if o[0] in 'WXHT' else o.split(':')[0]))
    if drv is not None:
        drv.ask('t.reset %s %s' % (hexin(ident.encode()), hexin(secret.encode())))
        for idx, (ev, line) in enumerate(zip(events, lines)):
            mo = drv.ask('t.ev ' + ' '.join(str(x) for x in ev))
            status, _, mline = mo.partition(' ')
            mline = AIO_ENGINE.canon([o for o in mline.split(';') if o])
            if status != 'ok':
                res.disagree('model rejects event %d %r' % (idx, ev[:1]), script, line, mo)
                break
            if mline != line:
                res.disagree('Twisted service, event %d %r' % (idx, ev[:2]), script, line[:800], mline[:800])
                break
    return script


def run(tier, seed, drv, prop=None):
    res = Result('twclient')
    res.model_used = drv is not None
    rng = random.Random('twclient-%s-%s' % (prop, seed))
    n = {'quick': 150, 'thorough': 2500}[tier]
    profiles = {'C11': ['normal', 'faults'], 'C12': ['normal', 'normal', 'faults'], 'C13': ['faults', 'close', 'close']}.get(prop, ['normal'])
    for k in range(n):
        script = run_case(res, drv, rng, tier, profiles[k % len(profiles)])
        res.nontriv([json.dumps(script['events'])[:4000]])
        res.sample({'events': script['events'][:14]}, limit=3)
    if prop in (None, 'C13', 'C11'):
        AIO_ENGINE.run_sweep(res, drv, lambda: Impl('me', 'secret'), AIO_ENGINE.canon, True, 't', 'twisted', double=(tier == 'thorough'))
    if prop in (None, 'C13'):
        n = {'quick': 1100, 'thorough': 5000}[tier]
        AIO_ENGINE.run_outage(res, drv, lambda: Impl('me', 'secret'), AIO_ENGINE.canon, True, 't', 'twisted', n)
        AIO_ENGINE.run_outage(res, drv, lambda: Impl('me', 'secret', policy='default'), AIO_ENGINE.canon, True, 't', 'twisted', n)
    if prop in (None, 'C12'):
        AIO_ENGINE.run_backlog(res, drv, lambda: Impl('me', 'secret'), AIO_ENGINE.canon, True, 't', 'twisted', {'quick': 1500, 'thorough': 6000}[tier])
    res.assumptions += [
        'Twisted: MemoryReactorClock is the global reactor; the endpoint is scripted (each attempt accepted or refused); retryPolicy is the constant 1.0 s; ClientService is library code taken as is',
        'application calls are injected between reactor steps',
    ]
    return res


def replay(script, drv):
    res = Result('twclient')
    impl = Impl(script['ident'], script['secret'], policy=script.get('policy', 'constant'))
    lines = []
    try:
        for ev in script['events']:
            lines.append(AIO_ENGINE.canon(impl.event(ev)))
    finally:
        impl.close()
    AIO_ENGINE.monitors(res, (script['ident'], script['secret']), script['events'], lines, script)
    if drv is not None:
        drv.ask('t.reset %s %s' % (hexin(script['ident'].encode()), hexin(script['secret'].encode())))
        for idx, (ev, line) in enumerate(zip(script['events'], lines)):
            mo = drv.ask('t.ev ' + ' '.join(str(x) for x in ev))
            if AIO_ENGINE.canon([o for o in mo.partition(' ')[2].split(';') if o]) != line:
                res.disagree('Twisted service, event %d' % idx, script, line[:800], mo[:800])
                break
    return res
