import collections
import hashlib
import json


class Result(object):
    """What one engine run covered and found."""

    def __init__(self, engine):
        self.engine = engine
        self.evaluations = 0
        self.nontrivial = set()
        self.samples = []
        self.disagreements = []   # model vs implementation
        self.violations = []      # property monitors on the implementation: dict(property, rule, what, script)
        self.stats = collections.Counter()
        self.assumptions = []
        self.errors = []          # harness trouble (exit 2)
        self.model_used = False

    def note(self, key, n=1):
        self.stats[key] += n

    def nontriv(self, obj):
        self.nontrivial.add(hashlib.sha1(json.dumps(obj, sort_keys=True, default=str).encode()).hexdigest()[:16])

    def sample(self, obj, limit=6):
        if len(self.samples) < limit:
            self.samples.append(obj)

    def violation(self, prop, rule, what, script):
        self.violations.append({'property': prop, 'rule': rule, 'what': what, 'engine': self.engine, 'script': script})

    def disagree(self, what, script, impl, model):
        self.disagreements.append({'engine': self.engine, 'what': what, 'script': script,
                                   'impl': impl, 'model': model})
