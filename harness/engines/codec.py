"""codec engine: hpfeeds.protocol builders / readers / Unpacker / hashsecret  vs  Wire model.

Sections (each usable alone):
  roundtrip  -- C05: structured messages through msg* -> Unpacker -> read*
  chunking   -- C06: frame sequences, every/random cut patterns
  lattice    -- C07: boundary-value headers x follow-up bytes x chunkings, random bytes
  readers    -- read* on arbitrary bodies (crash classes), sha1, utf-8 validity
"""
import itertools
import random
import struct

import compat  # noqa: F401
from engines import Result
from lean_driver import hexf, hexin

import hpfeeds.protocol as P
from hpfeeds.exceptions import ProtocolException

compat.check_repo_origin(P)

OPS = (0, 1, 2, 3, 4, 5)


def limit(op):
    return P.SIZES.get(op, P.MAXBUF)


# C05's own floor, independent of the implementation's tables: every frame a builder makes from in-range fields
# (ident / channel / name <= 255 UTF-8 bytes, a nonce or digest of up to 20 bytes, a payload up to 1 MiB of frame
# body) MUST pass the decoder.  Frames above the floor that the implementation still accepts must round-trip too.
MIB = 1024 ** 2
_FORCED_CUTS = None
FLOOR = {0: 5 + MIB, 1: 5 + 256 + 20, 2: 5 + 256 + 20, 3: 5 + MIB, 4: 5 + 1 + 255 + 255, 5: 5 + 1 + 255 + 255}


# ---------------------------------------------------------------- independent frame parser (harness's own)
def parse_frames(b):
    """independent of Unpacker: returns (frames, rest) for a byte string of concatenated frames"""
    out = []
    i = 0
    while len(b) - i >= 5:
        ml = int.from_bytes(b[i:i + 4], 'big')
        if ml < 5 or len(b) - i < ml:
            break
        out.append((b[i + 4], bytes(b[i + 5:i + ml])))
        i += ml
    return out, bytes(b[i:])


# ---------------------------------------------------------------- implementation drivers
# how the decoder is driven - every way its public API offers must give the same frames:
#   api:  'iter' (for … in u) | 'ready-pop' (while u.ready(): u.pop()) | 'unpack' (u.unpack() until StopIteration) | 'next' (next(u))
#   feed: 'bytes' | 'bytearray' (a fresh one) | 'reused' (ONE scratch bytearray overwritten for every read, recv_into style)
#         | 'memoryview'
STYLE = {'api': 'iter', 'feed': 'bytes'}
_SCRATCH = bytearray()


def _drain(u, cap):
    api = STYLE['api']
    n = 0
    if api == 'iter':
        for op, data in u:
            yield op, data
    elif api == 'ready-pop':
        while u.ready():
            yield u.pop()
    elif api == 'unpack':
        while True:
            try:
                yield u.unpack()
            except StopIteration:
                return
    else:
        while True:
            try:
                yield next(u)
            except StopIteration:
                return


def impl_feed(u, chunk, bound=None):
    """feed one chunk and iterate to exhaustion. returns (frames, restlen, err)"""
    frames = []
    err = 'none'
    n = 0
    try:
        fd = STYLE['feed']
        if fd == 'bytearray':
            u.feed(bytearray(chunk))
        elif fd == 'reused':
            _SCRATCH[:] = chunk
            u.feed(_SCRATCH)
        elif fd == 'memoryview':
            u.feed(memoryview(bytes(chunk)))
        else:
            u.feed(chunk)
        cap = (compat.unconsumed(u) // 5 + 3) if bound is None else bound
        for op, data in _drain(u, cap):
            frames.append((op, bytes(data)))
            n += 1
            if n > cap:
                err = 'NONTERMINATION'
                break
        if fd == 'reused':
            _SCRATCH[:] = b'\xee' * len(_SCRATCH)     # the caller's buffer is overwritten by the next read
    except P.MessageTooBig:
        err = 'tooBig'
    except ProtocolException as e:
        s = str(e)
        err = 'unknownOp' if 'opcode' in s.lower() else ('tooSmall' if 'small' in s.lower() else 'protocol')
    except Exception as e:  # anything else is not the library's protocol exception
        err = 'EXC:' + type(e).__name__
    return frames, compat.unconsumed(u), err


def fmt_feed(frames, restlen, err):
    return 'frames [%s] rest %d err %s' % (','.join('%d:%s' % (op, hexf(d)) for op, d in frames), restlen, err)


# ---------------------------------------------------------------- generators
TEXTS = ['', 'a', 'chan1', 'é', '日本', '\U0001F600', '\x00', '\x05abc', 'A' * 127, 'B' * 128, 'C' * 254, 'D' * 255,
         'é' * 127, 'é' * 127 + 'x', '\U0001F600' * 63 + 'abc', '\x03\x00\x00', ' ', 'a,b', "a'b", 'ident', 'IDENT']


def rand_text(rng, maxbytes=255):
    r = rng.random()
    if r < 0.5:
        t = rng.choice(TEXTS)
    else:
        n = rng.choice([0, 1, 2, 5, 17, 60, 127, 128, 200, 254, 255])
        alphabet = rng.choice(['abc', 'aé', 'a日\U0001F600', '\x00\x01\x05\xff'.encode('latin1').decode('latin1'), 'ab'])
        t = ''
        while len((t + 'x').encode('utf-8')) <= n:
            t += rng.choice(alphabet)
            if len(t.encode('utf-8')) > n:
                t = t[:-1]
                break
    while len(t.encode('utf-8')) > maxbytes:
        t = t[:-1]
    return t


def rand_bytes(rng, n):
    k = rng.random()
    if k < 0.3:
        return bytes([rng.choice([0, 0xff, 0x41, 5, 3])]) * n
    if n > 4096:
        # big: cheap pattern with a random head/tail so that truncation / shifts are visible
        head = bytes(rng.getrandbits(8) for _ in range(16))
        tail = bytes(rng.getrandbits(8) for _ in range(16))
        return head + bytes([rng.getrandbits(8)]) * (n - 32) + tail
    return bytes(rng.getrandbits(8) for _ in range(n))


def payload_sizes(tier):
    base = [0, 1, 2, 4, 5, 20, 255, 256, 1000, 4096, 4097]
    if tier == 'thorough':
        base += [65535, 65536, 100000]
    return base


def gen_msg(rng, tier, big=False):
    kind = rng.choice(['error', 'info', 'auth', 'publish', 'publish', 'subscribe', 'unsubscribe'])
    if kind == 'error':
        return ('error', rand_text(rng, 2000))
    if kind == 'info':
        return ('info', rand_text(rng), rand_bytes(rng, rng.choice([0, 4, 4, 4, 20])))
    if kind == 'auth':
        return ('auth', rand_text(rng), rand_bytes(rng, rng.choice([0, 19, 20, 20, 20])))
    if kind == 'publish':
        i, c = rand_text(rng), rand_text(rng)
        if big:
            room = P.MAXBUF - 2 - len(i.encode()) - len(c.encode())
            n = room - rng.choice([0, 0, 1, 2])
        else:
            n = rng.choice(payload_sizes(tier))
        return ('publish', i, c, rand_bytes(rng, n))
    return (kind, rand_text(rng), rand_text(rng))


def impl_build(m):
    k = m[0]
    if k == 'error':
        return P.msgerror(m[1])
    if k == 'info':
        return P.msginfo(m[1], m[2])
    if k == 'auth':
        # msgauth computes the digest itself; at wire level build the frame from the digest
        return P.msghdr(P.OP_AUTH, P.strpack8(m[1]) + m[2])
    if k == 'publish':
        return P.msgpublish(m[1], m[2], m[3])
    if k == 'subscribe':
        return P.msgsubscribe(m[1], m[2])
    if k == 'unsubscribe':
        return P.msgunsubscribe(m[1], m[2])
    raise ValueError(k)


def hx_(x):
    from engines.broker import hx
    return hx(x)


def b_(x):
    return x.encode('utf-8') if isinstance(x, str) else bytes(x)


def model_build_line(m):
    return 'c.build %s %s' % (m[0], ' '.join(hexin(b_(x)) for x in m[1:]))


READERS = {0: lambda d: ('error', P.readerror(d)), 1: lambda d: ('info',) + tuple(P.readinfo(d)),
           2: lambda d: ('auth',) + tuple(P.readauth(d)), 3: lambda d: ('publish',) + tuple(P.readpublish(d)),
           4: lambda d: ('subscribe',) + tuple(P.readsubscribe(d)),
           5: lambda d: ('unsubscribe',) + tuple(P.readunsubscribe(d))}


def impl_read(op, body):
    try:
        m = READERS[op](body)
    except (TypeError, UnicodeDecodeError) as e:
        return 'crash ' + type(e).__name__
    return 'msg %s %s' % (m[0], ' '.join(hexf(b_(x)) for x in m[1:]))



def side_rng(rng, tag):
    """an independent generator derived from the main one WITHOUT consuming it (older pinned inputs keep reproducing)"""
    st = rng.getstate()[1]
    return random.Random('%s|%s|%s' % (tag, st[-1], st[:3]))      # st[-1] = position in the Mersenne state


def mk_prelude(rng):
    """bytes a decoder saw on an EARLIER connection before `reset()`: a complete frame or none, then a frame whose header
    is complete and whose body is not (the state in which hpfeeds.client.Client resets its decoder after a drop)"""
    body = bytes(rng.getrandbits(8) for _ in range(rng.choice([1, 7, 40, 300])))
    op = rng.choice([0, 1, 3, 3, 4])
    full = enc(op, body)
    keep = rng.choice([5, 5, 6, max(5, len(full) - 1), rng.randint(5, len(full) - 1)])
    pre = [enc(4, b'\x01a' + b'ch')] if rng.random() < 0.3 else []
    return pre + [full[:keep]]


_BY_BODY = b'\x02by\x02ch' + b'bystander-payload'
_BY_FRAME = struct.pack('!iB', 5 + len(_BY_BODY), 3) + _BY_BODY
_BY_PART, _BY_REST = _BY_FRAME[:11], _BY_FRAME[11:]


class Bystander(object):
    """ANOTHER decoder alive in the same process, holding the beginning of a frame while the case runs: decoders are
    per connection, what one of them is fed, or the construction / reset() of one of them, is nothing to the others"""

    def __init__(self):
        self.u = P.Unpacker()
        impl_feed(self.u, _BY_PART)

    def check(self, res, script):
        fr, rest, err = impl_feed(self.u, _BY_REST)
        if err != 'none' or rest != 0 or fr != [(3, _BY_BODY)]:
            for prop in ('C06', 'C07'):
                res.violation(prop, 'decoders-share-state', 'a second decoder that held the first 11 bytes of a frame while this case ran on another decoder, and was then fed the rest, gave %d frame(s), rest %d, %s: decoders share state' % (len(fr), rest, err), script)
            return False
        return True


def fresh_decoder(prelude):
    """a new Unpacker, or - with a prelude - one that was fed those chunks (drained after each) and then reset():
    from then on it must behave exactly like a new one"""
    u = P.Unpacker()
    if prelude:
        for ch in prelude:
            impl_feed(u, ch)
        u.reset()
    return u


# ---------------------------------------------------------------- sections
def sec_roundtrip(res, drv, rng, tier, n):
    lines, cases = [], []
    nbig = {'quick': 2, 'thorough': 12}[tier]
    for k in range(n):
        m = gen_msg(rng, tier, big=(k < nbig))
        cases.append(m)
    # out-of-range: 256-byte ident/channel must raise on both sides
    cases.append(('publish', 'x' * 256, 'c', b'p'))
    cases.append(('subscribe', 'é' * 128, 'c'))
    cases.append(('auth', 'y' * 300, b'd' * 20))
    # boundary: the longest name with the longest nonce / digest, for the two opcodes with a small frame limit
    cases.append(('auth', 'y' * 255, bytes(range(20))))
    cases.append(('auth', '\u00e9' * 127 + 'x', b'\xff' * 20))
    cases.append(('info', 'n' * 255, bytes(range(20))))
    cases.append(('info', 'n' * 255, b'\x01\x02\x03\x04'))
    cases.append(('subscribe', 'i' * 255, 'c' * 255))
    cases.append(('unsubscribe', '\u00e9' * 127 + 'x', 'c' * 255))
    # "any Unicode": names that are legal but not in a normal form, or that a tidy-minded reader might fold - decomposed
    # accents, compatibility code points, Hangul jamo, case, blanks and line ends, a BOM: they come back code point for
    # code point
    odd = ['cafe\u0301', '\u212b', '\u2126x', '\u1100\u1161', 'e\u0301\u0323', '\ufb01', ' lead', 'trail ', 'a\r\nb', 'MiXeD', '\ufeffbom', 'a\u200bb']
    for i, t in enumerate(odd):
        t2 = odd[(i + 5) % len(odd)]
        cases.append(('publish', t, t2, b'p'))
        cases.append(('subscribe', t2, t))
        cases.append(('info', t, b'\x01\x02\x03\x04'))
        cases.append(('error', t + t2))
        cases.append(('auth', t, bytes(range(20))))
        cases.append(('unsubscribe', t, t2))
    for m in cases:
        res.evaluations += 1
        script = {'section': 'roundtrip', 'msg': [m[0]] + [x if isinstance(x, str) else hexin(x) for x in m[1:]]}
        try:
            # the binary field (payload / nonce / digest) is handed to the builder as bytes, bytearray or memoryview:
            # "arbitrary binary payload" - the frame must be the same
            as_type = globals().get('_FORCED_BINARY_AS') or rng.choice(['bytes', 'bytes', 'bytearray', 'memoryview'])
            m_in = m
            if isinstance(m[-1], (bytes, bytearray)) and as_type != 'bytes':
                m_in = m[:-1] + ((bytearray(m[-1]) if as_type == 'bytearray' else memoryview(bytes(m[-1]))),)
            script['binary_as'] = as_type
            b = impl_build(m_in)
            b = bytes(b)
            impl = 'bytes ' + hexf(b)
        except Exception as e:
            # WHICH exception a builder raises for an over-long field is not part of any property (struct.error today):
            # any exception is the observation `raise`; raising for in-range fields is the C05 violation below
            b, impl = None, 'raise'
            res.note('roundtrip.raise.' + type(e).__name__)
        res.note('roundtrip.' + m[0] + ('.raise' if b is None else ''))
        if drv is not None:
            model = drv.ask(model_build_line(m))
            if model != impl:
                res.disagree('build', script, impl, model)
        if b is None:
            if all(len(b_(x)) <= 255 for x in m[1:3]):
                res.violation('C05', 'builder-raises-in-range', 'builder raised for in-range fields', script)
            continue
        # monitor C05: header == len, decoder yields exactly one frame, reader returns the fields
        if int.from_bytes(b[0:4], 'big') != len(b):
            res.violation('C05', 'length-header', 'length header %d != %d bytes produced' % (int.from_bytes(b[0:4], 'big'), len(b)), script)
        prelude = globals().get('_FORCED_PRELUDE')
        if prelude is None:
            pr = side_rng(rng, 'rt-prelude')
            prelude = [hexin(c) for c in mk_prelude(pr)] if pr.random() < 0.2 else []
        if prelude:
            script['prelude'] = prelude
            res.note('roundtrip.after-reset')
        u = fresh_decoder([hx_(c) for c in prelude])
        frames, rest, err = impl_feed(u, b)
        in_range = len(b) <= FLOOR[b[4]] or (err == 'none' and len(frames) == 1)
        if in_range:
            if err != 'none' or rest != 0 or len(frames) != 1:
                res.violation('C05', 'decode-one-frame', 'decoder gave %d frames, rest %d, err %s' % (len(frames), rest, err), script)
                continue
            op, body = frames[0]
            got = impl_read(op, body)
            want = 'msg %s %s' % (m[0], ' '.join(hexf(b_(x)) for x in m[1:]))
            if got != want:
                res.violation('C05', 'roundtrip', 'read back %s, built from %s' % (got[:200], want[:200]), script)
            if drv is not None:
                drv.ask('c.reset')
                mo = drv.ask('c.feed ' + hexin(b))
                if mo != fmt_feed(frames, rest, err):
                    res.disagree('feed', script, fmt_feed(frames, rest, err)[:300], mo[:300])
                mr = drv.ask('c.read %d %s' % (op, hexin(body)))
                if mr != got:
                    res.disagree('read', script, got[:300], mr[:300])
            # the same frame with more data already buffered behind it (pipelined / coalesced delivery),
            # and cut at an arbitrary point: the decoded frame must not depend on what follows
            if len(b) <= 70000:
                follow = rng.choice([b'\x00', b'\x00\x00\x00\x09\x03abcd', b, b[:7], b'\xff' * 9])
                u2 = P.Unpacker()
                k = rng.randint(1, len(b))
                fr2, rest2, err2 = impl_feed(u2, b[:k])
                fr3, rest3, err3 = impl_feed(u2, b[k:] + follow) if err2 == 'none' else ([], 0, err2)
                got2 = fr2 + fr3
                if not got2 or got2[0] != (op, body):
                    res.violation('C05', 'roundtrip-coalesced', 'frame decoded differently when followed by %d more buffered bytes (cut at %d): got %r' % (len(follow), k, got2[:1] and (got2[0][0], got2[0][1][-12:])), dict(script, follow=hexin(follow), cut=k))
                res.note('roundtrip.coalesced')
            res.nontriv(['rt', m[0], [len(b_(x)) for x in m[1:]], hexf(b)[:64]])
            res.sample(script)
        else:
            res.note('roundtrip.over-limit')
            if drv is not None:
                drv.ask('c.reset')
                mo = drv.ask('c.feed ' + hexin(b))
                if mo != fmt_feed(frames, rest, err):
                    res.disagree('feed-overlimit', script, fmt_feed(frames, rest, err)[:300], mo[:300])


def sec_roundtrip_stream(res, drv, rng, tier, n):
    """C05 through ONE decoder: several built messages in a row, cut anywhere, must come back as exactly that
    sequence of (opcode, fields), each as soon as its last byte has been fed"""
    for k in range(n):
        msgs = []
        for _ in range(rng.randint(2, 7)):
            m = gen_msg(rng, 'quick')
            if m[0] == 'publish' and len(m[3]) > 5000:
                m = m[:3] + (m[3][:rng.choice([0, 3, 1500, 4097])],)
            if m[0] in ('info', 'auth') and len(m[2]) > 20:
                m = m[:2] + (m[2][:20],)
            msgs.append(m)
        built = [impl_build(m) for m in msgs]
        stream = b''.join(built)
        ncut = rng.choice([0, 1, 2, 3, 6])
        style = rng.random()
        if style < 0.2:
            cuts = sorted(set(range(1460, len(stream), 1460)))          # TCP-segment-like
        elif style < 0.35:
            cuts = sorted(set(range(1, len(stream)))) if len(stream) < 400 else sorted(rng.sample(range(1, len(stream)), 12))
        else:
            cuts = sorted(rng.sample(range(1, len(stream)), min(ncut, len(stream) - 1)))
        if globals().get('_FORCED_CUTS') is not None:
            cuts = list(_FORCED_CUTS)
        script = {'section': 'roundtrip-stream', 'msgs': [[m[0]] + [x if isinstance(x, str) else hexin(x) for x in m[1:]] for m in msgs], 'cuts': cuts}
        res.evaluations += 1
        u = P.Unpacker()
        ends, pos = [], 0
        for b in built:
            pos += len(b)
            ends.append(pos)
        got, fed, bad = [], 0, False
        lines, impl_lines = ['c.reset'], []
        for ch in cut(stream, cuts):
            fr, rest, err = impl_feed(u, ch)
            impl_lines.append(fmt_feed(fr, rest, err))
            lines.append('c.feed ' + hexin(ch))
            fed += len(ch)
            got.extend(fr)
            due = sum(1 for e in ends if e <= fed)
            if err != 'none':
                res.violation('C05', 'roundtrip-stream', 'the decoder raised %s on a stream of built frames (after %d of %d bytes)' % (err, fed, len(stream)), script)
                bad = True
                break
            if len(got) != due:
                res.violation('C05', 'roundtrip-stream', 'after %d bytes of a stream of %d built frames the decoder has produced %d frame(s); %d are complete' % (fed, len(built), len(got), due), script)
                bad = True
                break
        if bad:
            continue
        for m, (op, body) in zip(msgs, got):
            want = 'msg %s %s' % (m[0], ' '.join(hexf(b_(x)) for x in m[1:]))
            g = impl_read(op, body)
            if g != want:
                res.violation('C05', 'roundtrip-stream', 'read back %s, built from %s' % (g[:200], want[:200]), script)
                break
        if drv is not None:
            outs = drv.ask_many(lines)[1:]
            if outs != impl_lines:
                j = next(i for i in range(len(outs)) if outs[i] != impl_lines[i])
                res.disagree('roundtrip-stream feed@%d' % j, script, impl_lines[j][:300], outs[j][:300])
        res.note('roundtrip.stream')
        res.nontriv(['rts', [m[0] for m in msgs], cuts[:8], len(stream)])


def small_frames(rng):
    alphabet = [(3, b'\x01a\x01c'), (3, b'\x01a\x01cPAYLOAD'), (0, b'err'), (1, b'\x02hp\x01\x02\x03\x04'), (4, b'\x01ac'),
                (5, b'\x00'), (3, b''), (0, b''), (2, b'\x01a' + b'\xaa' * 20), (3, b'\x00\x00\x00\x00\x05\x03')]
    return [rng.choice(alphabet) for _ in range(rng.randint(1, 4))]


def enc(op, body):
    return struct.pack('!iB', 5 + len(body), op) + body


def cut(stream, cuts):
    chunks, prev = [], 0
    for c in cuts:
        chunks.append(stream[prev:c])
        prev = c
    chunks.append(stream[prev:])
    return chunks


def run_chunked(res, drv, frames, tail, chunks, script, check_prompt=True):
    """feed chunks to impl (and model); monitor C06"""
    STYLE.update(api=script.get('api', 'iter'), feed=script.get('feed', 'bytes'))
    try:
        return _run_chunked(res, drv, frames, tail, chunks, script, check_prompt)
    finally:
        STYLE.update(api='iter', feed='bytes')


def _run_chunked(res, drv, frames, tail, chunks, script, check_prompt=True):
    res.evaluations += 1
    by = Bystander() if res.evaluations % 7 == 3 else None
    u = fresh_decoder([hx_(c) for c in script.get('prelude', [])])
    if by is not None:
        try:
            return _run_chunked_inner(res, drv, frames, tail, chunks, script, check_prompt, u)
        finally:
            by.check(res, script)
    return _run_chunked_inner(res, drv, frames, tail, chunks, script, check_prompt, u)


def _run_chunked_inner(res, drv, frames, tail, chunks, script, check_prompt, u):
    got = []
    fed = 0
    ends = []
    pos = 0
    for op, body in frames:
        pos += 5 + len(body)
        ends.append(pos)
    lines = ['c.reset']
    impl_lines = []
    for ch in chunks:
        fr, rest, err = impl_feed(u, ch)
        fed += len(ch)
        impl_lines.append(fmt_feed(fr, rest, err))
        lines.append('c.feed ' + hexin(ch))
        got.extend(fr)
        if err != 'none':
            res.violation('C06', 'error-on-wellformed', 'decoder raised %s on well-formed frames' % err, script)
            return
        if check_prompt:
            due = sum(1 for e in ends if e <= fed)
            if len(got) != due:
                res.violation('C06', 'prompt', 'after %d bytes %d frames emitted, %d complete' % (fed, len(got), due), script)
                return
    if got != [(op, bytes(b)) for op, b in frames]:
        res.violation('C06', 'frames', 'decoded frame sequence differs from the one sent', script)
    else:
        # "afterwards only the bytes of a trailing incomplete frame remain buffered": what the decoder really holds
        # (all its bytes-like attributes, whatever its internal layout) is the tail and nothing else
        held = compat.held_buffers(u)
        # (judged where the property observes: after ITERATING the decoder.  A caller that drives ready()/pop() by hand
        # uses the pieces iteration is built from; a decoder may defer dropping the consumed prefix to the end of the
        # iteration - harmless/U1 does - so what it physically holds between two pop() calls is not the property's matter)
        if STYLE['api'] != 'ready-pop' and (compat.footprint(u) != len(tail) or (len(held) == 1 and bytes(held[0]) != tail)):
            res.violation('C06', 'tail', 'the decoder holds %d byte(s) after feeding (%r), expected exactly the incomplete tail %r' % (compat.footprint(u), [bytes(h)[:40] for h in held][:2], tail[:40]), script)
    if drv is not None:
        outs = drv.ask_many(lines)[1:]
        if outs != impl_lines:
            k = next(i for i in range(len(outs)) if outs[i] != impl_lines[i])
            res.disagree('chunked-feed@%d' % k, script, impl_lines[k][:300], outs[k][:300])


def sec_chunking(res, drv, rng, tier, n):
    # exhaustive cut patterns for short streams
    maxlen = {'quick': 11, 'thorough': 14}[tier]
    exhaustive = 0
    shorts = [[(3, b'')], [(3, b'\x00')], [(0, b''), (3, b'')], [(5, b'a'), (0, b'')], [(3, b'\x01a\x00')], [(1, b'ab'), (4, b'')]]
    tails = [b'', b'\x00', b'\x00\x00\x00\x09\x03', b'\x00\x00\x00\x07\x03\x01']
    for fs in shorts:
        for tail in tails:
            stream = b''.join(enc(op, b) for op, b in fs) + tail
            if len(stream) > maxlen:
                continue
            nn = len(stream)
            for mask in range(1 << (nn - 1)):
                cuts = [i + 1 for i in range(nn - 1) if mask >> i & 1]
                chunks = cut(stream, cuts)
                script = {'section': 'chunking', 'frames': [[op, hexin(b)] for op, b in fs], 'tail': hexin(tail), 'cuts': cuts}
                run_chunked(res, drv, fs, tail, chunks, script)
                exhaustive += 1
            res.nontriv(['exh', [[op, b.hex()] for op, b in fs], tail.hex()])
    res.note('chunking.exhaustive-patterns', exhaustive)
    # the LARGEST legal frames of the opcodes with a small limit, between small ones: OP_AUTH / OP_INFO with a 255-byte name
    # and a 20-byte digest / nonce (281 bytes), SUBSCRIBE / UNSUBSCRIBE with two 255-byte names (516 bytes)
    pl = side_rng(rng, 'largest-legal')
    big_legal = [(2, b'\xff' + b'i' * 255 + bytes(range(20))), (1, b'\xff' + b'n' * 255 + bytes(range(20))),
                 (4, b'\xff' + b'i' * 255 + b'c' * 255), (5, b'\xff' + b'\xc3\xa9' * 127 + b'x' + b'c' * 255)]
    for k_ in range(4):
        fs = [(3, b'\x01a\x01cx'), big_legal[k_], (0, b'e'), big_legal[(k_ + 1) % 4]]
        tail = b'\x00\x00'
        stream = b''.join(enc(op, b) for op, b in fs) + tail
        for cuts in ([], [12], sorted(set(pl.randint(1, len(stream) - 1) for _ in range(4))), list(range(1, 30))):
            script = {'section': 'chunking', 'frames': [[op, hexin(b)] for op, b in fs], 'tail': hexin(tail), 'cuts': cuts, 'mode': 'largest-legal'}
            run_chunked(res, drv, fs, tail, cut(stream, cuts), script)
        res.note('chunking.largest-legal')
    # bursts: MANY complete small frames available in ONE feed (a coalesced read after a stall): each must be yielded by
    # the drain that follows that feed - 129 ... several thousand, beyond any per-pass batch size
    pb = side_rng(rng, 'burst')
    for count in ([129, 257, 1000, 5000] if tier == 'quick' else [129, 200, 257, 513, 1025, 4097, 20000, 70000]):
        fs = [pb.choice([(3, b'\x01a\x01c' + bytes([i & 255])), (0, b'e'), (4, b'\x01ac'), (3, b'')]) for i in range(count)]
        tail = pb.choice([b'', b'\x00\x00', b'\x00\x00\x00\x09\x03'])
        stream = b''.join(enc(op, b) for op, b in fs) + tail
        for cuts in ([], [len(stream) - len(tail) - 1] if len(stream) - len(tail) > 1 else [], [7]):
            script = {'section': 'chunking', 'frames': [[op, hexin(b)] for op, b in fs], 'tail': hexin(tail), 'cuts': cuts, 'mode': 'burst-%d' % count}
            run_chunked(res, drv, fs, tail, cut(stream, cuts), script)
        res.note('chunking.burst')
        res.nontriv(['burst', count, len(stream)])
    # long streams (several MiB, several big frames per chunk, coarse chunks)
    for k in range({'quick': 2, 'thorough': 10}[tier]):
        fs = small_frames(rng)
        for _ in range(rng.randint(2, 3)):
            fs.append((3, b'\x01a\x01c' + bytes([rng.getrandbits(8)]) * rng.choice([600000, 900000, P.MAXBUF - 6])))
            fs += small_frames(rng)
        tail = rng.choice(tails)
        stream = b''.join(enc(op, b) for op, b in fs) + tail
        step = rng.choice([len(stream), 262144, 65536, 1048576 + 20000])
        cuts = list(range(step, len(stream), step))
        script = {'section': 'chunking', 'frames': [[op, hexin(b)] for op, b in fs], 'tail': hexin(tail), 'cuts': cuts, 'mode': 'long-%d' % step}
        run_chunked(res, drv, fs, tail, cut(stream, cuts), script)
        res.note('chunking.long-stream-bytes', len(stream))
        res.nontriv(['long', len(fs), len(stream), step])
    # medium-large frames around buffer-size thresholds, between small ones, under read-shaped chunkings:
    # frame-aligned, aligned plus a few bytes of the next header, TCP segments, recv()-sized reads
    sizes = [4090, 16370, 16379, 16380, 20000, 65531, 70000] if tier == 'quick' else \
        [4090, 4091, 8187, 16370, 16378, 16379, 16380, 16381, 20000, 32763, 65530, 65531, 65532, 70000, 131072, 300000]
    for size in sizes:
        for style in ('aligned', 'aligned+', 'mss', 'recv16k', 'recv4k', 'one'):
            fs = small_frames(rng) + [(3, b'\x01a\x01c' + rand_bytes(rng, size))] + small_frames(rng) + \
                ([(3, b'\x01a\x01c' + rand_bytes(rng, rng.choice(sizes)))] if rng.random() < 0.3 else []) + small_frames(rng)
            tail = rng.choice(tails)
            stream = b''.join(enc(op, b) for op, b in fs) + tail
            ends, pos = [], 0
            for op, b in fs:
                pos += 5 + len(b)
                ends.append(pos)
            if style == 'aligned':
                cuts = [e for e in ends if e < len(stream)]
            elif style == 'aligned+':
                cuts = sorted(set(min(len(stream) - 1, e + rng.choice([0, 1, 2, 4, 5, 6])) for e in ends if e < len(stream) - 1))
            elif style == 'mss':
                cuts = list(range(1460, len(stream), 1460))
            elif style == 'recv16k':
                cuts = list(range(16384, len(stream), 16384))
            elif style == 'recv4k':
                cuts = list(range(4096, len(stream), 4096))
            else:
                cuts = []
            cuts = [c for c in cuts if 0 < c < len(stream)]
            script = {'section': 'chunking', 'frames': [[op, hexin(b)] for op, b in fs], 'tail': hexin(tail), 'cuts': cuts, 'mode': 'threshold-%d-%s' % (size, style)}
            run_chunked(res, drv, fs, tail, cut(stream, cuts), script)
            res.note('chunking.threshold.' + style)
            res.nontriv(['thr', size, style, len(fs), len(stream)])
    # random
    for k in range(n):
        fs = small_frames(rng)
        if tier == 'thorough' and k % 10 == 0 or k == 0:
            fs.append((3, b'\x01a\x01c' + rand_bytes(rng, rng.choice([70000, 300000, P.MAXBUF - 6]))))
            fs += small_frames(rng)
        tail = rng.choice(tails + [enc(3, b'x' * 50)[:rng.randint(1, 54)]])
        stream = b''.join(enc(op, b) for op, b in fs) + tail
        mode = rng.choice(['single', 'few', 'many', 'empty-chunks'])
        if mode == 'single' and len(stream) <= 400:
            cuts = list(range(1, len(stream)))
        elif mode == 'few':
            cuts = sorted(set(rng.randint(1, len(stream) - 1) for _ in range(rng.randint(0, 3)))) if len(stream) > 1 else []
        else:
            cuts = sorted(set(rng.randint(1, len(stream) - 1) for _ in range(rng.randint(1, 40)))) if len(stream) > 1 else []
        chunks = cut(stream, cuts)
        if mode == 'empty-chunks':
            for _ in range(3):
                chunks.insert(rng.randint(0, len(chunks)), b'')
        script = {'section': 'chunking', 'frames': [[op, hexin(b)] for op, b in fs], 'tail': hexin(tail), 'cuts': cuts, 'mode': mode,
                  'api': rng.choice(['iter', 'iter', 'ready-pop', 'unpack', 'next']), 'feed': rng.choice(['bytes', 'bytes', 'bytearray', 'reused', 'memoryview'])}
        pr = side_rng(rng, 'ch-prelude')
        if pr.random() < 0.25:
            # the decoder has a history: it was fed part of a frame on an earlier connection and then reset()
            script['prelude'] = [hexin(c) for c in mk_prelude(pr)]
            res.note('chunking.after-reset')
        run_chunked(res, drv, fs, tail, chunks, script)
        res.note('chunking.' + mode)
        res.note('chunking.api.' + script['api'])
        res.note('chunking.feed.' + script['feed'])
        res.nontriv(['rnd', len(fs), len(stream), len(chunks), stream[:24].hex()])
        res.sample({k_: (v if k_ != 'cuts' else v[:10]) for k_, v in script.items()})


def lattice_lengths(op):
    lim = limit(op) if op in OPS else P.MAXBUF
    return sorted(set([-2 ** 31, -2 ** 31 + 1, -6, -5, -1, 0, 1, 4, 5, 6, 7, 100, lim - 1, lim, lim + 1, 2 ** 31 - 1]))


def sec_lattice(res, drv, rng, tier, n):
    followups = [b'', b'\x00', b'ab', b'\x01a\x01cXYZ']
    ops = list(range(256)) if tier == 'thorough' else [0, 1, 2, 3, 4, 5, 6, 7, 127, 128, 254, 255]
    count = 0
    for op in ops:
        for ml in lattice_lengths(op if op in OPS else 3):
            hdr = struct.pack('!iB', ml, op)
            fol = list(followups)
            if 5 <= ml <= 200:
                fol += [b'z' * (ml - 5), b'z' * (ml - 5) + b'\x00\x00', b'z' * max(0, ml - 6)]
            for f in fol:
                stream = hdr + f
                for chunks in ([stream], [stream[:3], stream[3:]], [stream[:5], stream[5:]], [bytes([x]) for x in stream] if len(stream) < 40 else [stream]):
                    script = {'section': 'lattice', 'op': op, 'ml': ml, 'follow': hexin(f), 'chunks': [hexin(c) for c in chunks]}
                    run_arbitrary(res, drv, chunks, script)
                    count += 1
            # the same header on a decoder with a history (fed the beginning of a valid frame, then reset()): the verdict on
            # a header must not depend on what an earlier connection left behind
            pl = side_rng(rng, 'lat-prelude-%d-%d' % (op, ml))
            script = {'section': 'lattice', 'op': op, 'ml': ml, 'follow': hexin(fol[-1]), 'chunks': [hexin(hdr + fol[-1])],
                      'prelude': [hexin(c) for c in mk_prelude(pl)]}
            run_arbitrary(res, drv, [hdr + fol[-1]], script)
            count += 1
            res.nontriv(['lat', op, ml])
    # the same boundary headers BEHIND complete valid frames on the same decoder: the verdict on a header must not
    # depend on what was decoded before it (a per-opcode limit remembered from the previous frame)
    prefixes = [enc(3, b'\x01a\x01cPAY'), enc(1, b'\x02hp\x01\x02\x03\x04'), enc(2, b'\x01a' + b'\xaa' * 20), enc(0, b'err'), enc(4, b'\x01ac')]
    for pre in prefixes:
        for op in (0, 1, 2, 3, 4, 5):
            lim = limit(op)
            for ml in (lim - 1, lim, lim + 1, lim + 5, 281, 282, 283, P.MAXBUF, P.MAXBUF + 1, P.MAXBUF + 5, P.MAXBUF + 6):
                hdr = struct.pack('!iB', ml, op)
                for chunks in ([pre + hdr], [pre, hdr], [pre[:7], pre[7:] + hdr + b'\x00']):
                    script = {'section': 'lattice', 'op': op, 'ml': ml, 'prefix': hexin(pre), 'chunks': [hexin(c) for c in chunks]}
                    run_arbitrary(res, drv, chunks, script)
                    count += 1
    # COMPLETE frames just above the small per-opcode limits (OP_INFO / OP_AUTH: 281 bytes), whole in one chunk, alone and
    # behind a valid frame: the length is checked when the header is examined, however much of the body is already there
    for op in (1, 2):
        lim = limit(op)
        for ml in (lim + 1, lim + 2, lim + 19, 2 * lim, 4096):
            frame = struct.pack('!iB', ml, op) + b'\x01a' + b'z' * (ml - 7)
            for chunks in ([frame], [prefixes[0] + frame], [frame + prefixes[0]], [frame[:5], frame[5:]]):
                script = {'section': 'lattice', 'op': op, 'ml': ml, 'whole': True, 'chunks': [hexin(c) for c in chunks]}
                run_arbitrary(res, drv, chunks, script)
                count += 1
    # ... and complete, VALID frames of the opcodes without an entry in the size table (SUBSCRIBE / UNSUBSCRIBE), larger
    # than the small limits, behind OP_INFO / OP_AUTH
    for pre in prefixes[1:3]:
        for op in (4, 5):
            for size in (281, 282, 300, 516, 5000):
                fr = enc(op, b'\x01a' + b'c' * (size - 7))
                script = {'section': 'lattice', 'op': op, 'ml': size, 'prefix': hexin(pre), 'chunks': [hexin(pre + fr)]}
                run_arbitrary(res, drv, [pre + fr], script)
                count += 1
    res.note('lattice.cases', count)
    # random byte strings, biased towards plausible headers
    for k in range(n):
        parts = []
        for _ in range(rng.randint(1, 5)):
            r = rng.random()
            if r < 0.5:
                op, body = rng.choice([(3, b'\x01a\x01c'), (0, b'e'), (4, b'\x01ac')])
                parts.append(enc(op, body))
            elif r < 0.8:
                parts.append(struct.pack('!iB', rng.choice(lattice_lengths(3)), rng.choice([0, 1, 2, 3, 4, 5, 6, 200])) + rand_bytes(rng, rng.randint(0, 12)))
            else:
                parts.append(rand_bytes(rng, rng.randint(0, 30)))
        stream = b''.join(parts)
        cuts = sorted(set(rng.randint(1, len(stream) - 1) for _ in range(rng.randint(0, 6)))) if len(stream) > 1 else []
        chunks = cut(stream, cuts)
        script = {'section': 'random-bytes', 'chunks': [hexin(c) for c in chunks],
                  'api': rng.choice(['iter', 'iter', 'ready-pop', 'unpack', 'next']), 'feed': rng.choice(['bytes', 'bytes', 'bytearray', 'reused', 'memoryview'])}
        run_arbitrary(res, drv, chunks, script)
        res.nontriv(['rb', stream[:40].hex(), cuts])
        res.sample(script, limit=8)


def run_arbitrary(res, drv, chunks, script):
    """C07 monitor + correspondence for arbitrary bytes"""
    STYLE.update(api=script.get('api', 'iter'), feed=script.get('feed', 'bytes'))
    try:
        return _run_arbitrary(res, drv, chunks, script)
    finally:
        STYLE.update(api='iter', feed='bytes')


def _run_arbitrary(res, drv, chunks, script):
    res.evaluations += 1
    by = Bystander() if res.evaluations % 7 == 3 else None
    u = fresh_decoder([hx_(c) for c in script.get('prelude', [])])
    if by is not None:
        try:
            return _run_arbitrary_inner(res, drv, chunks, script, u)
        finally:
            by.check(res, script)
    return _run_arbitrary_inner(res, drv, chunks, script, u)


def _run_arbitrary_inner(res, drv, chunks, script, u):
    lines, impl_lines = ['c.reset'], []
    total = b''
    consumed = 0
    for ch in chunks:
        fr, rest, err = impl_feed(u, ch)
        total += ch
        impl_lines.append(fmt_feed(fr, rest, err))
        lines.append('c.feed ' + hexin(ch))
        res.note('arbitrary.err.' + err)
        if err == 'NONTERMINATION':
            res.violation('C07', 'termination', 'iteration does not terminate (no input consumed per frame)', script)
            return
        if err.startswith('EXC:') or err == 'protocol':
            res.violation('C07', 'clean-failure', 'decoder raised %s, not the protocol exception for a bad header' % err, script)
            return
        for op, body in fr:
            if op not in OPS or not (5 <= 5 + len(body) <= limit(op)):
                res.violation('C07', 'frame-wf', 'yielded frame op=%d len=%d outside the defined opcodes/limits' % (op, 5 + len(body)), script)
                return
            if total[consumed:consumed + 5 + len(body)] != enc(op, body):
                res.violation('C07', 'consumed', 'yielded frame is not the next bytes of the input', script)
                return
            consumed += 5 + len(body)
        if err == 'none':
            if rest != len(total) - consumed:
                res.violation('C07', 'consumed', 'buffer length %d != unconsumed input %d' % (rest, len(total) - consumed), script)
                return
            if rest >= 5 + P.MAXBUF:
                res.violation('C07', 'bounded', 'buffer holds %d bytes after an error-free drain' % rest, script)
                return
            if STYLE['api'] != 'ready-pop' and compat.footprint(u) >= 5 + P.MAXBUF + len(ch):
                res.violation('C07', 'bounded', 'the decoder holds %d bytes after an error-free drain: more than one maximal frame plus the chunk' % compat.footprint(u), script)
                return
            # a complete bad header must have been rejected
            if rest >= 5:
                ml, op = struct.unpack('!iB', total[consumed:consumed + 5])
                if op not in OPS or ml > limit(op) or ml < 5:
                    res.violation('C07', 'reject-asap', 'complete header ml=%d op=%d buffered without rejection' % (ml, op), script)
                    return
        else:
            # a rejection is final: draining AGAIN - with no new bytes, then with whatever arrives next - must raise
            # the same protocol exception again, yield nothing and buffer nothing beyond what was fed
            k_ = chunks.index(ch) if ch in chunks else len(chunks)
            more = [b''] + [c for c in chunks[len(impl_lines):len(impl_lines) + 2]] + [b'\x00' * 7]
            for extra in more:
                fr2, rest2, err2 = impl_feed(u, extra)
                total += extra
                impl_lines.append(fmt_feed(fr2, rest2, err2))
                lines.append('c.feed ' + hexin(extra))
                res.note('arbitrary.again.' + err2)
                if err2 == 'NONTERMINATION':
                    res.violation('C07', 'termination', 'iteration after a rejection does not terminate', script)
                    return
                if fr2 or err2 != err:
                    res.violation('C07', 'reject-sticky', 'after rejecting a header with %s, draining again gave %d frame(s) and %s: the rejected header was accepted the second time' % (err, len(fr2), err2), script)
                    return
            break
    if drv is not None:
        outs = drv.ask_many(lines[:len(impl_lines) + 1])[1:]
        if outs != impl_lines:
            k = next(i for i in range(len(outs)) if outs[i] != impl_lines[i])
            res.disagree('arbitrary-feed@%d' % k, script, impl_lines[k][:300], outs[k][:300])


def sec_readers(res, drv, rng, tier, n):
    bodies = [b'', b'\x00', b'\x01', b'\x01a', b'\x05a', b'\x01a\x01', b'\x01a\x01c', b'\x01\xff', b'\x02\xc3\xa9\x01c', b'\x01a\xff\xfe',
              b'\x01a\x02\xc3', b'\xff' + b'a' * 10, b'\x00\x00', b'\xed\xa0\x80', b'\x03\xed\xa0\x80', b'\x04\xf0\x9f\x98\x80rest', b'\x02\xc0\x80']
    for k in range(n + len(bodies) * 6):
        res.evaluations += 1
        if k < len(bodies) * 6:
            op, body = k % 6, bodies[k // 6]
        else:
            op = rng.choice(OPS)
            body = rand_bytes(rng, rng.randint(0, 12))
            if rng.random() < 0.6:
                t = rand_text(rng, 20).encode()
                body = bytes([max(0, min(255, len(t) + rng.choice([-1, 0, 0, 0, 1])))]) + t + body
        impl = impl_read(op, body)
        res.note('readers.' + impl.split(' ')[0] + ('.' + impl.split(' ')[1] if impl.startswith('crash') else ''))
        script = {'section': 'readers', 'op': op, 'body': hexin(body)}
        if drv is not None:
            mo = drv.ask('c.read %d %s' % (op, hexin(body)))
            if mo != impl:
                res.disagree('read', script, impl, mo)
        res.nontriv(['rd', op, body.hex()])
    # sha1 and utf-8
    import hashlib
    for k in range(max(20, n // 4)):
        res.evaluations += 1
        x = rand_bytes(rng, rng.choice([0, 1, 4, 20, 55, 56, 63, 64, 65, 119, 120, 200, 1000]))
        if drv is not None:
            mo = drv.ask('c.sha1 ' + hexin(x))
            if mo != hashlib.sha1(x).hexdigest():
                res.disagree('sha1', {'section': 'sha1', 'x': hexin(x)}, hashlib.sha1(x).hexdigest(), mo)
        rand, ident, secret = rand_bytes(rng, 4), rand_text(rng), rand_text(rng, 40)
        impl = 'bytes ' + hexf(P.msgauth(rand, ident, secret))
        if drv is not None:
            mo = drv.ask('c.msgauth %s %s %s' % (hexin(rand), hexin(ident.encode()), hexin(secret.encode())))
            if mo != impl:
                res.disagree('msgauth', {'section': 'msgauth', 'rand': rand.hex(), 'ident': ident, 'secret': secret}, impl, mo)
    utf = [b'', b'a', b'\xc3\xa9', b'\xc3', b'\xed\xa0\x80', b'\xed\x9f\xbf', b'\xf0\x9f\x98\x80', b'\xc0\x80', b'\xf4\x8f\xbf\xbf', b'\xf4\x90\x80\x80',
           b'\xe0\x80\x80', b'\xe0\xa0\x80', b'\xf0\x80\x80\x80', b'\xf0\x90\x80\x80', b'\xff', b'\xfe', b'\x80', b'a\xc3\xa9b\x00', b'\xf8\x88\x80\x80\x80', b'\xef\xbf\xbf']
    for k in range(len(utf) + n):
        res.evaluations += 1
        x = utf[k] if k < len(utf) else rand_bytes(rng, rng.randint(1, 6))
        try:
            x.decode('utf-8')
            impl = 'valid'
        except UnicodeDecodeError:
            impl = 'invalid'
        res.note('utf8.' + impl)
        if drv is not None:
            mo = drv.ask('c.utf8 ' + hexin(x))
            if mo != impl:
                res.disagree('utf8', {'section': 'utf8', 'x': x.hex()}, impl, mo)


SECTIONS = {'roundtrip': sec_roundtrip, 'roundtrip-stream': sec_roundtrip_stream, 'chunking': sec_chunking, 'lattice': sec_lattice, 'readers': sec_readers}


def run(sections, tier, seed, drv, scale=1.0):
    res = Result('codec')
    res.model_used = drv is not None
    rng = random.Random('codec-%s' % seed)
    n = int({'quick': 150, 'thorough': 1500}[tier] * scale)
    for s in sections:
        SECTIONS[s](res, drv, rng, tier, n)
    res.assumptions += [
        'text fields are represented in the model by their UTF-8 bytes; Python str.encode/bytes.decode(utf-8) are taken to be mutually inverse on valid UTF-8 (validity itself is compared with the model on every run)',
        'hashlib.sha1 is modelled by Hpfeeds.Sha1.sha1 (compared on every run); theorems are parametric in the hash',
        'fields above 4 KiB are compared as (length, FNV-1a 64)',
    ]
    return res


def replay(script, drv):
    """re-run one recorded script; returns a Result"""
    res = Result('codec')
    sec = script.get('section')
    from engines.broker import hx
    if sec in ('lattice', 'random-bytes'):
        run_arbitrary(res, drv, [hx(c) for c in script['chunks']], script)
    elif sec == 'chunking':
        fs = [(op, hx(b)) for op, b in script['frames']]
        tail = hx(script['tail'])
        stream = b''.join(enc(op, b) for op, b in fs) + tail
        run_chunked(res, drv, fs, tail, cut(stream, script['cuts']), script)
    elif sec == 'readers':
        impl = impl_read(script['op'], hx(script['body']))
        mo = drv.ask('c.read %d %s' % (script['op'], script['body'])) if drv else impl
        if mo != impl:
            res.disagree('read', script, impl, mo)
    elif sec == 'roundtrip-stream':
        nstr = {'error': 1, 'info': 1, 'auth': 1, 'publish': 2, 'subscribe': 2, 'unsubscribe': 2}
        msgs = [(m[0],) + tuple(m[1:1 + nstr[m[0]]]) + tuple(hx(x) for x in m[1 + nstr[m[0]]:]) for m in script['msgs']]
        it = iter(msgs)
        orig, orig_s = gen_msg, random.Random.sample

        class _R(random.Random):
            def randint(self, a, b):
                return len(msgs) if (a, b) == (2, 7) else random.Random.randint(self, a, b)
        rng = _R(0)
        try:
            globals()['gen_msg'] = lambda *_a, **_k: next(it)
            globals()['_FORCED_CUTS'] = script['cuts']
            sec_roundtrip_stream(res, drv, rng, 'quick', 1)
        finally:
            globals()['gen_msg'] = orig
            globals()['_FORCED_CUTS'] = None
    elif sec == 'roundtrip':
        m = tuple([script['msg'][0]] + [x for x in script['msg'][1:]])
        # strings stay strings; hex payloads were rendered with hexin
        kind = m[0]
        nstr = {'error': 1, 'info': 1, 'auth': 1, 'publish': 2, 'subscribe': 2, 'unsubscribe': 2}[kind]
        m = (kind,) + tuple(m[1:1 + nstr]) + tuple(hx(x) for x in m[1 + nstr:])
        rng = random.Random(0)
        orig = gen_msg
        try:
            globals()['gen_msg'] = lambda *_a, **_k: m
            globals()['_FORCED_BINARY_AS'] = script.get('binary_as')
            globals()['_FORCED_PRELUDE'] = script.get('prelude', [])
            sec_roundtrip(res, drv, rng, 'quick', 1)
        finally:
            globals()['gen_msg'] = orig
            globals()['_FORCED_BINARY_AS'] = None
            globals()['_FORCED_PRELUDE'] = None
    return res
